#!/bin/bash
# bin/seed_run.sh <seed-name> [<property> ...]
# Runs the registered quick check(s) against a seeded change kept under /verif/seeded/<seed-name>/:
# a scratch worktree of /repo's HEAD gets patch.diff applied, the checks run with VERIF_REPO pointing
# at it (same effect as `git -C /repo apply` + check + `git -C /repo checkout -- .`, without touching
# /repo while other work reads it), the worktree is removed.  Prints "CAUGHT" / "MISSED" per property.
set -u
V=$(cd "$(dirname "$0")/.." && pwd)
S=$1; shift
D=${SEED_DIR:-$V/seeded/$S}
PROPS=${*:-$(python3 -c "import json;print(json.load(open('$D/meta.json'))['property'])" 2>/dev/null || echo ${S%%-*})}
WT=/tmp/seedrun-$S
git -C /repo worktree remove --force "$WT" >/dev/null 2>&1
git -C /repo worktree add -q "$WT" HEAD || exit 2
trap 'git -C /repo worktree remove --force "$WT" >/dev/null 2>&1' EXIT
( cd "$WT" && git apply "$D/patch.diff" ) || { echo "patch does not apply"; exit 2; }
for P in $PROPS; do
  OUT=$(VERIF_REPO=$WT VERIF_EVIDENCE_DIR=$V/.work/seed_evidence "$V/bin/check" "$P" 2>&1)
  RC=$?
  LINE=$(echo "$OUT" | grep -m1 '^VIOLATION' || true)
  if [ $RC -eq 1 ] && [ -n "$LINE" ]; then
    RP=$(echo "$LINE" | sed 's/.*replay=\([^ ]*\).*/\1/')
    mkdir -p "$D/detected"; cp "$RP" "$D/detected/$P.json" 2>/dev/null
    python3 -c "import json,sys;d=json.load(open('$RP'));print('   ',d.get('kind'),(d.get('finding') or {}).get('signature'),((d.get('finding') or {}).get('what') or '')[:160])" 2>/dev/null
    echo "CAUGHT $S by $P: $LINE"
  else
    echo "MISSED $S by $P (exit $RC): $(echo "$OUT" | tail -2 | tr '\n' ' ')"
  fi
done
