#!/usr/bin/env python3
"""Writes MANIFEST.json from bin/registry.py (run after editing the registry)."""
import json, os, sys
sys.path.insert(0, os.path.dirname(os.path.abspath(__file__)))
from registry import PROPS, NOT_APPLICABLE
checks = []
for pid in sorted(PROPS):
    c = PROPS[pid]
    checks.append({
        "property_id": pid,
        "quick_cmd": f"bin/check {pid} --tier quick",
        "thorough_cmd": f"bin/check {pid} --tier thorough",
        "evidence_file": f"/verif/evidence/{pid}.json",
        "replay_cmd_template": f"bin/check {pid} --replay {{path}}",
        "engine": "coq-proof+correspondence",
        "level_claimed": {"category": "proof", "text": c["level_text"], "design_ref": c.get("design_ref", "DESIGN.md §5")},
        "level_note": c["level_note"],
        "technique": c["technique"],
    })
m = {
    "version": 1,
    "setup_cmd": "bin/setup.sh",
    "hooks": {
        "guard": "verif",
        "enable": "no hooks are needed: the harness is an external Go module (generated go.mod with `replace github.com/jackalLabs/canine-chain/v4 => /repo`) that uses only exported identifiers; a future hook would be an add-only `//go:build verif` file",
        "baseline_off_cmd": "bin/baseline.sh",
        "source_commits": [],
        "add_only": True,
    },
    "engines": [{
        "name": "coq-proof+correspondence", "path": "/verif/coq, /verif/harness, /verif/translator, /verif/bin/check",
        "serves_properties": sorted(PROPS),
        "kind_free_text": "Coq 8.16 theorems over hand-written executable Gallina models (coq/theories); the models are run by coqc/vm_compute on the inputs and histories a Go harness executed on the real JackalApp built from /repo's working tree; generated tables (coq/theories/Gen) are re-translated from the Go sources and their theorems re-proved on every run; property monitors on the implementation search for the failing input",
    }],
    "checks": checks,
    "not_applicable": NOT_APPLICABLE,
    "notes": "Defects of the unchanged tree were repaired by `fix:` commits in /repo (listed as fixed in known_findings.json); C19's genesis omissions are open known findings. See DESIGN.md.",
}
json.dump(m, open(os.path.join(os.path.dirname(os.path.dirname(os.path.abspath(__file__))), "MANIFEST.json"), "w"), indent=1)
print("MANIFEST.json:", len(checks), "checks,", len(NOT_APPLICABLE), "not applicable")
