#!/bin/bash
# Rebuilds the correspondence harness against /repo's CURRENT working tree.
# go.mod is regenerated from /repo/go.mod on every call (replace directives do not
# propagate to dependants, so they are copied), with canine-chain itself replaced by /repo.
set -eu
export GOFLAGS=-mod=mod GOPROXY=off GOSUMDB=off GOTOOLCHAIN=local CGO_ENABLED=1
REPO=${VERIF_REPO:-/repo}
VERIF=$(cd "$(dirname "$0")/.." && pwd)
cd "$VERIF/harness"
python3 - "$REPO" <<'PY'
import re,sys
repo=sys.argv[1]
src=open(repo+'/go.mod').read()
src=re.sub(r'^module\s+\S+','module verifharness',src,count=1,flags=re.M)
src+='\nrequire github.com/jackalLabs/canine-chain/v4 v4.0.0\nreplace github.com/jackalLabs/canine-chain/v4 => '+repo+'\n'
old=None
try: old=open('go.mod').read()
except FileNotFoundError: pass
if old!=src: open('go.mod','w').write(src)
sumsrc=open(repo+'/go.sum').read()
try: oldsum=open('go.sum').read()
except FileNotFoundError: oldsum=None
if oldsum is None or not oldsum.startswith(sumsrc[:200]) or len(oldsum)<len(sumsrc): open('go.sum','w').write(sumsrc)
PY
mkdir -p "$VERIF/.work"
go build -o "$VERIF/.work/harness" . 
