#!/bin/bash
# bin/seed_confirm_many.sh <root> <log> <Cxx/X> ...   confirms candidate seeded changes (bin/seed_confirm.sh) and appends one
# line per candidate to <log>:  == Cxx/X <step> | <step> | ... | SEED-CONFIRMED/SEED-REJECTED     (read by bin/seed_import.py)
ROOT=$1; LOG=$2; shift 2
V=$(cd "$(dirname "$0")/.." && pwd)
for c in "$@"; do
  pid=${c%%/*}; x=${c##*/}
  [ -f "$ROOT/$pid/$x/patch.diff" ] || { echo "== $pid/$x no patch.diff | SEED-REJECTED" >> "$LOG"; continue; }
  out=$("$V/bin/seed_confirm.sh" "$ROOT/$pid/$x" "$pid-$x" 2>&1 | tr '\n' '|')
  echo "== $pid/$x $out" >> "$LOG"
done
