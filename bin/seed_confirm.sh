#!/bin/bash
# bin/seed_confirm.sh <seed-dir> [<name>]
# Confirms a candidate seeded change (patch.diff + demo + demo_where.txt) in a scratch worktree of /repo:
#   1. the demo PASSES on the unmodified tree,
#   2. the patch applies and the tree builds,
#   3. the demo FAILS with the patch,
#   4. the repository's own test suite still passes with the patch (every stable test of BASELINE.json).
# Prints one line per step and "SEED-CONFIRMED" / "SEED-REJECTED".  The worktree is removed afterwards.
set -u
export GOFLAGS=-mod=mod GOPROXY=off GOSUMDB=off GOTOOLCHAIN=local
D=$(cd "$1" && pwd)
NAME=${2:-$(basename "$(dirname "$D")")-$(basename "$D")}
WT=/tmp/seedchk-$NAME
git -C /repo worktree remove --force "$WT" >/dev/null 2>&1
git -C /repo worktree add -q "$WT" HEAD || { echo "cannot create worktree"; exit 2; }
cleanup() { git -C /repo worktree remove --force "$WT" >/dev/null 2>&1; }
trap cleanup EXIT
# the run command is the first "go test" line of demo_where.txt; the demo file goes into the package that command names
RUN=$(grep -m1 'go test' "$D/demo_where.txt" | sed 's/^[[:space:]]*//; s/^[`$ ]*//; s/`[[:space:]]*$//')
DIR=$(echo "$RUN" | grep -o '\./[A-Za-z0-9_/.-]*' | head -1 | sed 's#^\./##; s#/$##; s#/\.\.\.$##')
if [ -z "$DIR" ] || [ -z "$RUN" ]; then echo "no go test command found in demo_where.txt"; echo SEED-REJECTED; exit 1; fi
DEMO=$(ls "$D"/demo*_test.go "$D"/demo*.go 2>/dev/null | head -1)
cp "$DEMO" "$WT/$DIR/zz_seed_demo_test.go"
( cd "$WT" && timeout 1200 bash -c "$RUN" ) > "$D/confirm_unpatched.log" 2>&1
RC0=$?
echo "demo on the unmodified tree: exit $RC0 (want 0)"
( cd "$WT" && git apply "$D/patch.diff" ) || { echo "patch does not apply"; echo SEED-REJECTED; exit 1; }
( cd "$WT" && go build ./... ) > "$D/confirm_build.log" 2>&1 || { echo "patched tree does not build"; echo SEED-REJECTED; exit 1; }
( cd "$WT" && timeout 1200 bash -c "$RUN" ) > "$D/confirm_patched.log" 2>&1
RC1=$?
echo "demo with the patch: exit $RC1 (want non-zero)"
rm -f "$WT/$DIR/zz_seed_demo_test.go"
( cd "$WT" && go test -mod=mod -json -vet=off -count=1 -timeout 25m ./... ) > "$D/confirm_suite.json" 2>/dev/null
python3 - "$D/confirm_suite.json" <<'PY'
import json,sys
res={}
for line in open(sys.argv[1],errors='replace'):
    line=line.strip()
    if not line.startswith('{'): continue
    try: e=json.loads(line)
    except Exception: continue
    if e.get('Action') in('pass','fail','skip') and e.get('Test'):
        res[e['Package']+'::'+e['Test']]=e['Action']
base=json.load(open('/root/.vp/BASELINE.json'))
missing=[t for t in base['stable_pass'] if res.get(t)!='pass']
print(f"suite with the patch: {len(base['stable_pass'])-len(missing)}/{len(base['stable_pass'])} stable tests pass")
for t in missing[:10]: print("  NOT-PASSING", t, res.get(t))
sys.exit(1 if missing else 0)
PY
RC2=$?
rm -f "$D/confirm_suite.json"
if [ $RC0 -eq 0 ] && [ $RC1 -ne 0 ] && [ $RC2 -eq 0 ]; then echo SEED-CONFIRMED; exit 0; fi
echo SEED-REJECTED; exit 1
