#!/bin/bash
# Runs the repository's own test suite with the verif build tag OFF (there are no
# hooks in /repo, so this is simply the suite) and compares the outcome with the
# stable-pass list of /root/.vp/BASELINE.json.  Exit 0 iff every stable test passes.
set -u
export GOFLAGS=-mod=mod GOPROXY=off GOSUMDB=off GOTOOLCHAIN=local
OUT=${1:-/verif/.work/baseline.gotest.json}
mkdir -p "$(dirname "$OUT")"
( cd /repo && go test -mod=mod -json -vet=off -count=1 -timeout 25m ./... ) > "$OUT" 2>/verif/.work/baseline.stderr
python3 - "$OUT" <<'PY'
import json,sys
res={}
for line in open(sys.argv[1],errors='replace'):
    line=line.strip()
    if not line.startswith('{'): continue
    try: e=json.loads(line)
    except Exception: continue
    if e.get('Action') in('pass','fail','skip') and e.get('Test'):
        res[e['Package']+'::'+e['Test']]=e['Action']
base=json.load(open('/root/.vp/BASELINE.json'))
missing=[t for t in base['stable_pass'] if res.get(t)!='pass']
print(f"baseline: {len(base['stable_pass'])-len(missing)}/{len(base['stable_pass'])} stable tests pass; observed {sum(1 for v in res.values() if v=='pass')} passes, {sum(1 for v in res.values() if v=='fail')} fails")
for t in missing: print("NOT-PASSING", t, res.get(t))
sys.exit(1 if missing else 0)
PY
