# Per-property configuration of bin/check and of MANIFEST.json (bin/gen_manifest.py).
#  props  : the Coq file holding ONLY the property theorems (each closed by `exact`, followed by Print Assumptions)
#  corr   : the Coq file with the executable checker the generated cases_*.v use
#  also   : further .v files whose compilation is an obligation of this property (generated tables)
PROPS = {
    "C20": {
        "props": "theories/Props/C20.v", "corr": "theories/Corr/C20.v",
        "technique": "Coq proof (algebraic laws over an arbitrary hash, reduction to an explicit collision) + function-level correspondence with executable Gallina SHA-256",
        "level_text": "Machine-checked theorems, for every byte string and every hash function: parent/child address relation, trailing-slash neutrality, PostFile address, and injectivity of the segment fold up to an explicitly exhibited collision. The model (Model/Paths.v) is tied to types.MerklePath/AddToMerkle and filetree PostFile by running both on the same generated paths on every run.",
        "level_note": "Trusted: Coq kernel + vm_compute; Gallina SHA-256 (validated against crypto/sha256 on every run); the Go harness. The relation is stated for parents not ending in '/' and slash-free non-empty children (a//b denotes three segments); injectivity is a reduction to a SHA-256 collision, not unconditional.",
        "design_ref": "DESIGN.md §5 C20",
        "assumptions": ["hash-dependent claims are reductions to an explicit collision", "parent does not end in '/', child is non-empty and slash-free"],
    },
}

# Properties not (yet) claimed.  Every property is planned to be claimed (DESIGN.md §1); an id stays here only
# until its model, theorems and correspondence are committed.
_PENDING = "model, theorems and correspondence for this property are not committed yet (work in progress, see DESIGN.md §10)"
ALL_IDS = ['C01', 'C02', 'C03', 'C04', 'C05', 'C06', 'C07', 'C08', 'C09', 'C10', 'C11', 'C12', 'C13', 'C14', 'C15', 'C16', 'C17', 'C18', 'C19', 'C20']
NOT_APPLICABLE = [{"property_id": i, "reason": _PENDING} for i in ALL_IDS if i not in PROPS]
