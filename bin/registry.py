# Per-property configuration of bin/check and of MANIFEST.json (bin/gen_manifest.py).
# One file per property: /verif/checks/Cxx.json with the keys
#  props       : the Coq file holding ONLY the property theorems (each closed by `exact`, followed by Print Assumptions)
#  corr        : the Coq file with the executable checker the generated cases_*.v use
#  also        : further .v files whose compilation is an obligation of this property (generated tables)
#  technique, level_text, level_note, design_ref, assumptions, trusted : texts for MANIFEST.json / evidence
import glob, json, os
_D = os.path.join(os.path.dirname(os.path.dirname(os.path.abspath(__file__))), "checks")
PROPS = {}
for _f in sorted(glob.glob(os.path.join(_D, "C*.json"))):
    PROPS[os.path.basename(_f)[:-5]] = json.load(open(_f))
ALL_IDS = ['C01', 'C02', 'C03', 'C04', 'C05', 'C06', 'C07', 'C08', 'C09', 'C10', 'C11', 'C12', 'C13', 'C14', 'C15', 'C16', 'C17', 'C18', 'C19', 'C20']
# Every property is planned to be claimed (DESIGN.md section 1); an id is listed as not applicable only
# until its model, theorems and correspondence are committed.
_PENDING = "model, theorems and correspondence for this property are not committed yet (work in progress, see DESIGN.md section 10)"
NOT_APPLICABLE = [{"property_id": i, "reason": _PENDING} for i in ALL_IDS if i not in PROPS]
