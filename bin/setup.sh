#!/bin/bash
# MANIFEST.setup_cmd: builds the framework from files on disk only (offline):
#  - the Go translator and the translator tables, the Coq development from clean (full .vo build),
#  - the Go correspondence harness against /repo.
set -u
cd "$(dirname "$0")/.."
export VERIF_DIR=$(pwd)
export GOFLAGS=-mod=mod GOPROXY=off GOSUMDB=off GOTOOLCHAIN=local
mkdir -p .work/tmp
python3 - <<'PY'
import sys, os
V = os.environ["VERIF_DIR"]
sys.path.insert(0, V + "/bin")
import importlib.machinery, importlib.util
loader = importlib.machinery.SourceFileLoader("check", V + "/bin/check")
spec = importlib.util.spec_from_loader("check", loader)
check = importlib.util.module_from_spec(spec); loader.exec_module(check)
with check.Lock("build"):
    ok, out = check.run_translator()
    if not ok:
        print(out); sys.exit(2)
    # from clean: remove compiled files so that everything is re-checked
    for root, _, files in os.walk(os.path.join(check.COQ, "theories")):
        for f in files:
            if f.endswith((".vo", ".vos", ".vok", ".glob", ".aux")):
                os.remove(os.path.join(root, f))
    failed, out = check.build_coq()
    if failed:
        print(out[-6000:]); print("setup: Coq build failed for", sorted(failed)); sys.exit(2)
    hok, hout, dt = check.build_harness()
    if not hok:
        print(hout[-6000:]); print("setup: harness build failed"); sys.exit(2)
print("setup: ok")
PY
