#!/usr/bin/env python3
"""bin/seed_import.py <Cxx> <A|B> : copies a sub-agent's candidate change from /root/seed into /verif/seeded/<Cxx>-<X>/
after bin/seed_confirm.sh confirmed it (demo passes unpatched, fails patched, repository suite still passes)."""
import json, os, re, shutil, subprocess, sys
pid, x = sys.argv[1], sys.argv[2]
src = f"/root/seed/{pid}/{x}"
dst = f"/verif/seeded/{pid}-{x}"
logs = "".join(open(f).read() for f in ("/root/seed/confirm.log", "/root/seed/confirm2.log", "/root/seed/confirm3.log", "/root/seed/confirm4.log", "/root/seed/confirm5a.log", "/root/seed/confirm5b.log", "/root/seed/confirm5c.log", "/root/seed/confirm6a.log", "/root/seed/confirm6b.log", "/root/seed/confirm6c.log", "/root/seed/confirm6d.log", "/root/seed/confirm7a.log", "/root/seed/confirm7b.log", "/root/seed/confirm7c.log", "/root/seed/confirm7d.log", "/root/seed/confirm8a.log", "/root/seed/confirm8b.log", "/root/seed/confirm8c.log", "/root/seed/confirm8d.log", "/root/seed/confirm9a.log", "/root/seed/confirm9b.log", "/root/seed/confirm9c.log", "/root/seed/confirm9d.log") if os.path.exists(f))
line = [l for l in logs.splitlines() if l.startswith(f"== {pid}/{x} ")]
if not line or "SEED-CONFIRMED" not in line[-1]:
    print("not confirmed:", pid, x, line[-1][:200] if line else "no log line"); sys.exit(1)
os.makedirs(dst, exist_ok=True)
for f in os.listdir(src):
    if f.startswith("demo") or f == "patch.diff":
        shutil.copy(os.path.join(src, f), os.path.join(dst, f))
m = json.load(open(os.path.join(src, "meta.json")))
meta = {
    "property": pid,
    "summary": m.get("summary"), "needs": m.get("needs"), "files": m.get("files"),
    "origin": "written by an independent sub-agent that saw only the property text and a scratch worktree of /repo (nothing from /verif)",
    "confirmed_by_me": {
        "cmd": f"bin/seed_confirm.sh /root/seed/{pid}/{x}",
        "result": [s for s in line[-1].split("|") if s.strip()][0:4],
        "what": "scratch worktree of /repo HEAD: demo passes unpatched; patch applies, tree builds; demo fails patched; all 454 stable tests of the repository suite still pass with the patch",
    },
    "agent_ran": m.get("ran"),
}
json.dump(meta, open(os.path.join(dst, "meta.json"), "w"), indent=1)
print("imported", dst)
