#!/usr/bin/env python3
"""bin/seed_import.py <Cxx> <A|B> : copies a sub-agent's candidate change from /root/seed into /verif/seeded/<Cxx>-<X>/
after bin/seed_confirm.sh confirmed it (demo passes unpatched, fails patched, repository suite still passes)."""
import json, os, re, shutil, subprocess, sys
pid, x = sys.argv[1], sys.argv[2]
ROOT = os.environ.get("SEED_ROOT", "/root/seed")
src = f"{ROOT}/{pid}/{x}"
dst = f"/verif/seeded/{pid}-{x}"
import glob
logs = "".join(open(f).read() for f in sorted(glob.glob(ROOT + "/confirm*.log")))
line = [l for l in logs.splitlines() if l.startswith(f"== {pid}/{x} ")]
if not line or "SEED-CONFIRMED" not in line[-1]:
    print("not confirmed:", pid, x, line[-1][:200] if line else "no log line"); sys.exit(1)
os.makedirs(dst, exist_ok=True)
for f in os.listdir(src):
    if f.startswith("demo") or f == "patch.diff":
        shutil.copy(os.path.join(src, f), os.path.join(dst, f))
m = json.load(open(os.path.join(src, "meta.json")))
meta = {
    "property": pid,
    "summary": m.get("summary"), "needs": m.get("needs"), "files": m.get("files"),
    "origin": "written by an independent sub-agent that saw only the property text and a scratch worktree of /repo (nothing from /verif)",
    "confirmed_by_me": {
        "cmd": f"bin/seed_confirm.sh {ROOT}/{pid}/{x}",
        "result": [s for s in line[-1].split("|") if s.strip()][0:4],
        "what": "scratch worktree of /repo HEAD: demo passes unpatched; patch applies, tree builds; demo fails patched; all 454 stable tests of the repository suite still pass with the patch",
    },
    "agent_ran": m.get("ran"),
}
json.dump(meta, open(os.path.join(dst, "meta.json"), "w"), indent=1)
print("imported", dst)
