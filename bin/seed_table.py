#!/usr/bin/env python3
"""Prints the markdown table of DESIGN.md section 11 from seeded/*/meta.json and seeded/*/detected/*.json."""
import glob, json, os
V = os.path.dirname(os.path.dirname(os.path.abspath(__file__)))
print("| seeded change | what it changes | what it needs to manifest | caught by: monitor signature(s) that produced the failing input |")
print("|---|---|---|---|")
for d in sorted(x for x in glob.glob(os.path.join(V, "seeded", "*")) if os.path.isdir(x)):
    name = os.path.basename(d)
    m = json.load(open(os.path.join(d, "meta.json")))
    def short(t, n):
        t = " ".join(str(t or "").split())
        return (t[:n] + "…") if len(t) > n else t
    det = []
    for f in sorted(glob.glob(os.path.join(d, "detected", "*.json"))):
        r = json.load(open(f))
        pid = os.path.basename(f)[:-5]
        if r.get("kind") == "failing-input":
            sigs = [r["finding"]["signature"]] + [o["signature"] for o in r.get("other_findings", [])]
            seen = []
            for s_ in sigs:
                if s_ not in seen:
                    seen.append(s_)
            det.append(f"{pid}: " + ", ".join("`" + s_.split("/", 1)[1] + "`" for s_ in seen[:3]))
        else:
            kinds = sorted({b.get("kind") for b in r.get("no_longer_checks", [])})
            det.append(f"{pid}: " + "+".join(kinds) + " broke, no-failing-input-found")
    if m.get("status") == "superseded":
        det = ["superseded by a repair (see meta.json)"]
    print(f"| {name} | {short(m.get('summary'), 150)} | {short(m.get('needs'), 170)} | {'; '.join(det) or 'not run yet'} |")
