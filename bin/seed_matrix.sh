#!/bin/bash
# bin/seed_matrix.sh [name ...]: runs every seeded change under seeded/ (or the named ones) against the quick check
# of its property, on scratch worktrees of /repo's HEAD, and writes seeded/MATRIX.json (name -> caught / how).
# Takes about a minute per change; meant for the end of a work session (regression of the checks' detection power).
V=$(cd "$(dirname "$0")/.." && pwd)
cd "$V"
NAMES=${*:-$(ls seeded | grep -v MATRIX)}
TMP=$(mktemp)
for s in $NAMES; do
  [ -f seeded/$s/patch.diff ] || continue
  if grep -q '"status": "superseded"' seeded/$s/meta.json; then echo "$s SUPERSEDED" >> $TMP; continue; fi
  out=$(bin/seed_run.sh $s 2>&1 | tail -1)
  echo "$s $out" >> $TMP
  echo "$s $out"
done
python3 - "$TMP" <<'PY'
import json,sys,os,re
res={}
for l in open(sys.argv[1]):
    name,rest=l.strip().split(" ",1)
    kind="superseded" if rest=="SUPERSEDED" else ("caught" if rest.startswith("CAUGHT") else "missed")
    how=None
    f=f"seeded/{name}/detected/{name.split('-')[0]}.json"
    if kind=="caught" and os.path.exists(f):
        d=json.load(open(f)); how=d.get("kind"); sig=(d.get("finding") or {}).get("signature")
        res[name]={"result":kind,"how":how,"signature":sig}
    else:
        res[name]={"result":kind,"line":rest[:200]}
json.dump(res,open("seeded/MATRIX.json","w"),indent=1,sort_keys=True)
c=sum(1 for v in res.values() if v["result"]=="caught"); m=[k for k,v in res.items() if v["result"]=="missed"]
print(f"seed matrix: {c} caught, {len(m)} missed {m}, {sum(1 for v in res.values() if v['result']=='superseded')} superseded")
PY
rm -f $TMP
