package main

// C03 — reward blocks pay each proven prover its proportional share exactly once.
// History level: StorageKeeper.RunRewardBlock on the assembled app (real bank) over generated
// configurations of files / prover lists / proof records / providers / payment gauges; one
// (pre, op, post) case per reward block.  Function level: UnifiedFile.RemoveProverWithKey on
// lists with and without repeated keys.  Monitors evaluate the property on what the
// implementation did, independently of the Coq model.

import (
	"math"
	"fmt"
	"math/big"
	"os"
	"sort"
	"strings"
	"time"

	sdk "github.com/cosmos/cosmos-sdk/types"
	storagetypes "github.com/jackalLabs/canine-chain/v4/x/storage/types"
)

func init() { runners["C03"] = runC03 }

type c03Prov struct {
	Acct       int    `json:"acct"`  // index of the account (Acct(20+Acct))
	Upper      bool   `json:"upper"` // upper-case bech32 spelling (same account, different prover string)
	Raw        string `json:"raw,omitempty"`
	Registered bool   `json:"registered"`
	Burned     string `json:"burned"`
}

type c03Slot struct {
	Prov   int   `json:"prov"`
	HasRec bool  `json:"has_rec"`
	Last   int64 `json:"last"`
}

type c03File struct {
	Start    int64     `json:"start"`
	Interval int64     `json:"interval"`
	Size     int64     `json:"size"`
	Slots    []c03Slot `json:"slots"`
	Expires  int64     `json:"expires,omitempty"` // pay-once files carry their end block; the reward block does not read it
}

type c03Coin struct {
	Denom string `json:"denom"`
	Amt   int64  `json:"amt"`
}

type c03Gauge struct {
	Coins []c03Coin `json:"coins"`
	Full  bool      `json:"full"` // ends exactly at the reward block's time: releases its whole balance
}

type c03Spec struct {
	Tag     string     `json:"tag"`
	CW      int64      `json:"check_window"`
	H       int64      `json:"height"`
	Provs   []c03Prov  `json:"provers"`
	Files   []c03File  `json:"files"`
	Gauges  []c03Gauge `json:"gauges"`
	Residue []c03Coin  `json:"module_residue"`
}

func (p c03Prov) str() string {
	if p.Raw != "" {
		return p.Raw
	}
	return Spell(Acct(20+p.Acct), p.Upper)
}

var c03Denoms = []string{"ibc/27394FB092D2ECCD56123C74F36E4C1F926001CEADA9CA97EA622B25F41E5EB2", "uatom", "ujkl"}

func c03DenomID(d string) uint64 {
	for i, x := range c03Denoms {
		if x == d {
			return uint64(i + 1)
		}
	}
	return 0
}

const c03Mod = 900    // account id of the storage module account
const c03ByBase = 800 // account ids of bystanders
const c03NBystanders = 2

var c03P18 = new(big.Int).Exp(big.NewInt(10), big.NewInt(18), nil)

func c03FileTerm(start, interval, size int64, proofs []uint64, recs [][3]int64, live bool) string {
	ps := make([]string, len(proofs))
	for i, k := range proofs {
		ps[i] = cN(k)
	}
	rs := make([]string, len(recs))
	for i, rc := range recs {
		rs[i] = fmt.Sprintf("(%s, {| pr_prover := %s; pr_last := %s |})", cN(uint64(rc[0])), cN(uint64(rc[1])), cZ(rc[2]))
	}
	pl := "(@nil N)"
	if len(ps) > 0 {
		pl = cList(ps)
	}
	rl := "(@nil (N * prec))"
	if len(rs) > 0 {
		rl = cList(rs)
	}
	return fmt.Sprintf("{| f_start := %s; f_interval := %s; f_size := %s; f_proofs := %s; f_recs := %s; f_live := %s |}",
		cZ(start), cZ(interval), cZ(size), pl, rl, cBool(live))
}

func c03NZList(xs [][2]int64) string {
	if len(xs) == 0 {
		return "(@nil (N * Z))"
	}
	s := make([]string, len(xs))
	for i, x := range xs {
		s[i] = cPair(cN(uint64(x[0])), cZ(x[1]))
	}
	return cList(s)
}

func c03BankList(xs [][3]int64) string {
	if len(xs) == 0 {
		return "(@nil ((N * N) * Z))"
	}
	s := make([]string, len(xs))
	for i, x := range xs {
		s[i] = cPair(cPair(cN(uint64(x[0])), cN(uint64(x[1]))), cZ(x[2]))
	}
	return cList(s)
}

// c03RunSpec builds the configuration on a cache context of e, executes RunRewardBlock, evaluates
// the monitors and emits the correspondence case.
func c03RunSpec(r *RunCtx, e *Env, sp c03Spec) {
	base := e.Ctx
	ctx, _ := base.CacheContext()
	k := e.App.StorageKeeper
	bk := e.App.BankKeeper
	tStart := T0.Add(time.Hour)
	tNow := tStart.Add(time.Duration(600) * time.Second)
	ctx = ctx.WithBlockHeight(sp.H - 1).WithBlockTime(tStart)
	fund := func(a sdk.AccAddress, denom string, amt int64) {
		c := sdk.NewCoins(sdk.NewInt64Coin(denom, amt))
		if err := bk.MintCoins(ctx, "jklmint", c); err != nil {
			panic(err)
		}
		if err := bk.SendCoins(ctx, e.ModAddr("jklmint"), a, c); err != nil {
			panic(err)
		}
	}
	params := k.GetParams(ctx)
	params.CheckWindow = sp.CW
	k.SetParams(ctx, params)

	// ---- prover ids: ranks of the prover strings in Go's string order, 0 = ""
	strs := []string{}
	seen := map[string]bool{}
	for _, p := range sp.Provs {
		if !seen[p.str()] {
			seen[p.str()] = true
			strs = append(strs, p.str())
		}
	}
	sort.Strings(strs)
	pid := map[string]uint64{"": 0}
	for i, s := range strs {
		pid[s] = uint64(i + 1)
	}
	// prover id -> account id (bech32 parses, recipient not blocked)
	acctOf := map[uint64]int64{}
	acctAddr := map[int64]sdk.AccAddress{}
	for _, p := range sp.Provs {
		a, err := sdk.AccAddressFromBech32(p.str())
		if err != nil || bk.BlockedAddr(a) {
			continue
		}
		acctOf[pid[p.str()]] = int64(p.Acct)
		acctAddr[int64(p.Acct)] = a
	}
	for i := 0; i < c03NBystanders; i++ {
		acctAddr[int64(c03ByBase+i)] = Acct(70 + i)
	}
	modAddr := e.ModAddr(storagetypes.ModuleName)
	acctAddr[c03Mod] = modAddr

	// ---- providers
	burnPre := [][2]int64{}
	burnOrder := []string{}
	regd := map[string]bool{}
	for _, p := range sp.Provs {
		if !p.Registered || regd[p.str()] {
			continue
		}
		regd[p.str()] = true
		k.SetProviders(ctx, storagetypes.Providers{Address: p.str(), Ip: "https://p.example.com", Totalspace: "1000000000000", BurnedContracts: p.Burned, Creator: p.str(), AuthClaimers: []string{}})
		var b int64
		if _, err := fmt.Sscanf(p.Burned, "%d", &b); err == nil && fmt.Sprint(b) == p.Burned {
			burnPre = append(burnPre, [2]int64{int64(pid[p.str()]), b})
			burnOrder = append(burnOrder, p.str())
		}
	}

	// ---- files and proof records
	type fileRef struct {
		f      storagetypes.UnifiedFile
		keyID  map[string]uint64
		spec   c03File
		recIDs []uint64
	}
	refs := []fileRef{}
	for i, fs := range sp.Files {
		f := storagetypes.UnifiedFile{Merkle: []byte(fmt.Sprintf("merkle-%02d", i)), Owner: Acct(60).String(), Start: fs.Start, Expires: fs.Expires,
			FileSize: fs.Size, ProofInterval: fs.Interval, ProofType: 0, Proofs: []string{}, MaxProofs: int64(len(fs.Slots)) + 1, Note: "c03"}
		ref := fileRef{keyID: map[string]uint64{}, spec: fs}
		for _, sl := range fs.Slots {
			ps := sp.Provs[sl.Prov].str()
			key := f.MakeProofKey(ps)
			f.Proofs = append(f.Proofs, key)
			if _, dup := ref.keyID[key]; !dup {
				ref.keyID[key] = pid[ps]
				if sl.HasRec {
					k.SetProof(ctx, storagetypes.FileProof{Prover: ps, Merkle: f.Merkle, Owner: f.Owner, Start: f.Start, LastProven: sl.Last, ChunkToProve: 0})
					ref.recIDs = append(ref.recIDs, pid[ps])
				}
			}
		}
		k.SetFile(ctx, f)
		ref.f = f
		refs = append(refs, ref)
	}
	// the callback order of IterateFilesByMerkle
	order := []int{}
	for _, sf := range k.GetAllFileByMerkle(ctx) {
		for i := range refs {
			if string(refs[i].f.Merkle) == string(sf.Merkle) {
				order = append(order, i)
			}
		}
	}
	if len(order) != len(refs) {
		panic("c03: stored files do not match the specification")
	}

	// ---- gauges and module residue
	for gi, g := range sp.Gauges {
		cs := sdk.NewCoins()
		for _, c := range g.Coins {
			cs = cs.Add(sdk.NewInt64Coin(c.Denom, c.Amt))
		}
		end := tNow
		if !g.Full {
			end = tStart.Add(2*tNow.Sub(tStart) + time.Duration(gi)*time.Second)
		}
		pg := k.NewGauge(ctx, cs, end)
		ga, err := storagetypes.GetGaugeAccount(pg)
		if err != nil {
			panic(err)
		}
		for _, c := range g.Coins {
			fund(ga, c.Denom, c.Amt)
		}
	}
	for _, c := range sp.Residue {
		cs := sdk.NewCoins(sdk.NewInt64Coin(c.Denom, c.Amt))
		if err := bk.MintCoins(ctx, "jklmint", cs); err != nil {
			panic(err)
		}
		if err := bk.SendCoinsFromModuleToModule(ctx, "jklmint", storagetypes.ModuleName, cs); err != nil {
			panic(err)
		}
	}
	for i := 0; i < c03NBystanders; i++ {
		fund(Acct(70+i), "ujkl", 1000+int64(i))
	}
	gaugeAccts := []sdk.AccAddress{}
	for _, pg := range k.GetAllPaymentGauges(ctx) {
		ga, _ := storagetypes.GetGaugeAccount(pg)
		gaugeAccts = append(gaugeAccts, ga)
	}
	gaugeBal := func() map[string]*big.Int {
		m := map[string]*big.Int{}
		for _, d := range c03Denoms {
			m[d] = new(big.Int)
			for _, ga := range gaugeAccts {
				m[d].Add(m[d], bk.GetBalance(ctx, ga, d).Amount.BigInt())
			}
		}
		return m
	}
	acctIDs := []int64{}
	for id := range acctAddr {
		acctIDs = append(acctIDs, id)
	}
	sort.Slice(acctIDs, func(i, j int) bool { return acctIDs[i] < acctIDs[j] })
	bankObs := func() [][3]int64 {
		out := [][3]int64{}
		for _, id := range acctIDs {
			for _, d := range c03Denoms {
				out = append(out, [3]int64{id, int64(c03DenomID(d)), bk.GetBalance(ctx, acctAddr[id], d).Amount.Int64()})
			}
		}
		return out
	}

	// ---- run
	ctx = ctx.WithBlockHeight(sp.H).WithBlockTime(tNow)
	gPre := gaugeBal()
	bankPre := bankObs()
	pn := Guard(func() { k.RunRewardBlock(ctx) })
	panicked := pn != ""
	gPost := gaugeBal()
	bankPost := bankObs()

	coins := [][2]int64{}
	released := map[string]*big.Int{}
	for _, d := range c03Denoms { // c03Denoms is sorted like sdk.Coins
		rel := new(big.Int).Sub(gPre[d], gPost[d])
		released[d] = rel
		if rel.Sign() != 0 {
			coins = append(coins, [2]int64{int64(c03DenomID(d)), rel.Int64()})
		}
	}

	// ---- observe files, records, burn counters
	preTerms, postTerms := []string{}, []string{}
	type fobs struct {
		live   bool
		proofs []string
	}
	post := make([]fobs, len(refs))
	for _, i := range order {
		ref := refs[i]
		prIDs := []uint64{}
		for _, key := range ref.f.Proofs {
			prIDs = append(prIDs, ref.keyID[key])
		}
		preRecs := [][3]int64{}
		done := map[uint64]bool{}
		for _, sl := range ref.spec.Slots {
			id := pid[sp.Provs[sl.Prov].str()]
			if done[id] {
				continue
			}
			done[id] = true
			if sl.HasRec {
				preRecs = append(preRecs, [3]int64{int64(id), int64(id), sl.Last})
			}
		}
		preTerms = append(preTerms, c03FileTerm(ref.f.Start, ref.f.ProofInterval, ref.f.FileSize, prIDs, preRecs, true))
		if panicked {
			continue
		}
		pf, found := k.GetFile(ctx, ref.f.Merkle, ref.f.Owner, ref.f.Start)
		post[i].live = found
		poIDs := []uint64{}
		for _, key := range pf.Proofs {
			id, okk := ref.keyID[key]
			if !okk {
				id = 999999
			}
			poIDs = append(poIDs, id)
		}
		post[i].proofs = pf.Proofs
		postRecs := [][3]int64{}
		for _, rc := range preRecs {
			var key string
			for kk, id := range ref.keyID {
				if int64(id) == rc[0] {
					key = kk
				}
			}
			if prf, ok := k.GetProofWithBuiltKey(ctx, []byte(key)); ok {
				postRecs = append(postRecs, [3]int64{rc[0], int64(pid[prf.Prover]), prf.LastProven})
			}
		}
		postTerms = append(postTerms, c03FileTerm(ref.f.Start, ref.f.ProofInterval, ref.f.FileSize, poIDs, postRecs, found))
	}
	burnPost := [][2]int64{}
	burnNow := map[string]int64{}
	for i, s := range burnOrder {
		pv, _ := k.GetProviders(ctx, s)
		var b int64
		fmt.Sscanf(pv.BurnedContracts, "%d", &b)
		burnPost = append(burnPost, [2]int64{burnPre[i][0], b})
		burnNow[s] = b
	}

	// ---- correspondence case
	accts := []string{}
	ids := []uint64{}
	for id := range acctOf {
		ids = append(ids, id)
	}
	sort.Slice(ids, func(i, j int) bool { return ids[i] < ids[j] })
	for _, id := range ids {
		accts = append(accts, cPair(cN(id), cN(uint64(acctOf[id]))))
	}
	acl := "(@nil (N * N))"
	if len(accts) > 0 {
		acl = cList(accts)
	}
	fl := func(ts []string) string {
		if len(ts) == 0 {
			return "(@nil file)"
		}
		return cList(ts)
	}
	if panicked {
		postTerms, burnPost, bankPost = nil, nil, nil
	}
	term := fmt.Sprintf("Block %s %s %s %s %s %s %s %s %s %s %s %s", cN(c03Mod), acl, cZ(sp.CW), cZ(sp.H), c03NZList(coins),
		fl(preTerms), c03NZList(burnPre), c03BankList(bankPre), cBool(panicked), fl(postTerms), c03NZList(burnPost), c03BankList(bankPost))
	desc := map[string]interface{}{"spec": sp, "panic": pn, "released": coins, "bank_pre": bankPre, "bank_post": bankPost, "burn_pre": burnPre, "burn_post": burnPost}
	r.Case("blk", term, desc)

	// ---- classification (is the configuration inside the property's quantifier?)
	runs := sp.CW != 0 && sp.H%sp.CW == 0
	inQ := runs
	total := new(big.Int)
	acctUsed := map[int]string{}
	nslots := 0
	for _, fs := range sp.Files {
		if fs.Size <= 0 || fs.Interval <= 0 {
			inQ = false
		}
		total.Add(total, new(big.Int).Mul(big.NewInt(fs.Size), big.NewInt(int64(len(fs.Slots)))))
		dup := map[int]bool{}
		for _, sl := range fs.Slots {
			nslots++
			p := sp.Provs[sl.Prov]
			if dup[sl.Prov] || !sl.HasRec || !p.Registered || p.Raw != "" {
				inQ = false
			}
			var bc int64
			if _, err := fmt.Sscanf(p.Burned, "%d", &bc); err != nil || bc > 1<<62 {
				inQ = false
			}
			dup[sl.Prov] = true
			if s, okk := acctUsed[p.Acct]; okk && s != p.str() {
				inQ = false // two spellings of one account: the account receives both provers' shares
			}
			acctUsed[p.Acct] = p.str()
		}
	}
	if !total.IsInt64() {
		inQ = false
	}
	for _, d := range c03Denoms {
		// side condition of the sum theorem: n * C < 2 * 10^18
		lim := new(big.Int).Mul(big.NewInt(2), c03P18)
		if new(big.Int).Mul(released[d], big.NewInt(int64(len(sp.Provs)))).Cmp(lim) >= 0 || released[d].Sign() < 0 {
			inQ = false
		}
	}
	nontrivial := runs && nslots > 0 && len(coins) > 0
	r.Count(sp.Tag, nontrivial)
	r.Hist("kind", strings.SplitN(sp.Tag, ":", 2)[0])
	r.Hist("files", fmt.Sprint(len(sp.Files)))
	r.Hist("in_quantifier", fmt.Sprint(inQ))
	if panicked {
		r.Hist("outcome", "panic")
	} else {
		r.Hist("outcome", "ok")
	}
	r.Sample(desc)

	bad := func(sig, what string) { r.Finding(sig, what, desc) }
	if panicked && inQ {
		bad("C03/reward-block-panic", "RunRewardBlock panicked on a well-formed configuration: "+pn)
		return
	}
	if panicked {
		return
	}
	balDelta := func(id int64, d string) int64 {
		var pre, po int64
		for i := range bankPre {
			if bankPre[i][0] == id && bankPre[i][1] == int64(c03DenomID(d)) {
				pre, po = bankPre[i][2], bankPost[i][2]
			}
		}
		return po - pre
	}
	if !runs {
		// not a reward height: nothing may change
		for i := range bankPre {
			if bankPre[i] != bankPost[i] {
				bad("C03/skip-height-changed-state", "a balance changed at a height that is not a multiple of CheckWindow")
			}
		}
		return
	}
	// ---- monitors that hold for every configuration
	for _, d := range c03Denoms {
		paid := new(big.Int)
		for _, id := range acctIDs {
			if id != c03Mod {
				paid.Add(paid, big.NewInt(balDelta(id, d)))
			}
		}
		modDelta := big.NewInt(balDelta(c03Mod, d))
		if new(big.Int).Add(paid, modDelta).Cmp(released[d]) != 0 {
			bad("C03/tokens-not-conserved", fmt.Sprintf("%s: released %s but provers received %s and the module kept %s", d, released[d], paid, modDelta))
		}
		for i := 0; i < c03NBystanders; i++ {
			if balDelta(int64(c03ByBase+i), d) != 0 {
				bad("C03/uncounted-paid", "an account that proved nothing received "+d)
			}
		}
	}
	if !inQ {
		return
	}
	// ---- the property, on well-formed configurations
	credited := map[string]*big.Int{} // per prover string
	failing := map[string]int64{}
	for fi, fs := range sp.Files {
		young := fs.Start+fs.Interval >= sp.H
		kk := sp.H - fs.Start
		lws := kk - kk%fs.Interval + fs.Start - fs.Interval
		want := []string{}
		for _, sl := range fs.Slots {
			p := sp.Provs[sl.Prov]
			ok := young || sl.Last >= lws
			if ok {
				want = append(want, refs[fi].f.MakeProofKey(p.str()))
				if credited[p.str()] == nil {
					credited[p.str()] = new(big.Int)
				}
				credited[p.str()].Add(credited[p.str()], big.NewInt(fs.Size))
			} else {
				failing[p.str()]++
			}
		}
		if !post[fi].live && len(fs.Slots) > 0 {
			bad("C03/file-removed", "a file that still listed provers was removed by the reward block")
		}
		if strings.Join(want, "|") != strings.Join(post[fi].proofs, "|") {
			bad("C03/prover-list-not-filtered", fmt.Sprintf("file %d: prover list after the block is not the sub-list of provers that met their obligation", fi))
		}
	}
	for i, s := range burnOrder {
		if burnNow[s] != burnPre[i][1]+failing[s] {
			bad("C03/burn-count", fmt.Sprintf("burn counter of a provider rose by %d, it failed %d file(s)", burnNow[s]-burnPre[i][1], failing[s]))
		}
	}
	for _, d := range c03Denoms {
		C := released[d]
		paid := new(big.Int)
		seenStr := map[string]bool{}
		for _, p := range sp.Provs {
			if acctUsed[p.Acct] != p.str() || seenStr[p.str()] {
				continue
			}
			seenStr[p.str()] = true
			pay := big.NewInt(balDelta(int64(p.Acct), d))
			paid.Add(paid, pay)
			w := credited[p.str()]
			if w == nil || w.Sign() == 0 {
				if pay.Sign() != 0 {
					bad("C03/uncounted-paid", "a prover that was not counted for any file received "+d)
				}
				continue
			}
			// w*C/T - C/10^18 - 1 < pay <= w*C/T + C/10^18
			wc := new(big.Int).Mul(new(big.Int).Mul(w, C), c03P18)
			tc := new(big.Int).Mul(total, C)
			pt := new(big.Int).Mul(c03P18, total)
			up := new(big.Int).Add(wc, tc)
			if new(big.Int).Mul(pt, pay).Cmp(up) > 0 {
				bad("C03/share-bound", fmt.Sprintf("%s: prover paid %s, more than its size-weighted share %s*%s/%s", d, pay, w, C, total))
			}
			lo := new(big.Int).Sub(wc, tc)
			if lo.Cmp(new(big.Int).Mul(pt, new(big.Int).Add(pay, big.NewInt(1)))) >= 0 {
				bad("C03/share-bound", fmt.Sprintf("%s: prover paid %s, less than its size-weighted share %s*%s/%s minus one", d, pay, w, C, total))
			}
		}
		if paid.Cmp(C) > 0 {
			bad("C03/paid-exceeds-released", fmt.Sprintf("%s: provers received %s, the gauges released %s", d, paid, C))
		}
	}
}

// ---------------------------------------------------------------- generators

func c03Perms(n int) [][]int {
	if n == 0 {
		return [][]int{{}}
	}
	out := [][]int{}
	for _, p := range c03Perms(n - 1) {
		for pos := 0; pos <= len(p); pos++ {
			q := append(append(append([]int{}, p[:pos]...), n-1), p[pos:]...)
			out = append(out, q)
		}
	}
	return out
}

// a file at height h with the default proof window whose slot i passes iff bits&(1<<i) == 0
func c03PatternFile(h int64, provIdx []int, bits int, size int64, edge int) c03File {
	f := c03File{Start: 10, Interval: 50, Size: size}
	kk := h - f.Start
	lws := kk - kk%f.Interval + f.Start - f.Interval
	for i, pi := range provIdx {
		last := lws + int64(edge) // passes: boundary or later
		if bits&(1<<uint(i)) != 0 {
			last = lws - 1 // fails by one block
		}
		f.Slots = append(f.Slots, c03Slot{Prov: pi, HasRec: true, Last: last})
	}
	return f
}

func c03StdProvs(n int) []c03Prov {
	ps := []c03Prov{}
	for i := 0; i < n; i++ {
		ps = append(ps, c03Prov{Acct: i, Registered: true, Burned: fmt.Sprint(i % 3)})
	}
	return ps
}

func runC03(r *RunCtx) error {
	r.Sum.Rule = "RunRewardBlock on the assembled app: (a) every pass/fail pattern of 1..5 listed provers under several list orders, 1..3 files, LastProven at the window boundary (-1/0/+1), gauges of 1..3 denominations; (b) random configurations with young files, missing records, unregistered providers, upper-case spellings, repeated keys, int64-wrapping sizes, zero/non-reward heights, partial gauges, module residue; (c) RemoveProverWithKey on lists with repeated keys. One evaluation = one reward block (or one call); non-trivial = a reward height with at least one listed prover and a non-zero release; distinct by configuration tag"
	r.Group("blk", "From JK Require Import Model.Rewards Corr.C03.", "c03_case", "c03_ok")
	r.Group("rm", "From JK Require Import Model.Rewards Corr.C03.", "c03_case", "c03_ok")
	p := r.Rng
	e, err := NewEnv()
	if err != nil {
		return err
	}
	defer e.Close()
	stdG := func(i int) []c03Gauge {
		switch i % 4 {
		case 0:
			return []c03Gauge{{Coins: []c03Coin{{"ujkl", 6000000}}, Full: true}}
		case 1:
			return []c03Gauge{{Coins: []c03Coin{{"ujkl", 1000003}, {"uatom", 77}}, Full: true}, {Coins: []c03Coin{{"ujkl", 500}}, Full: false}}
		case 2:
			return []c03Gauge{{Coins: []c03Coin{{"uatom", 5}, {c03Denoms[0], 999999999999}}, Full: false}}
		default:
			return []c03Gauge{{Coins: []c03Coin{{"ujkl", 7}}, Full: true}, {Coins: []c03Coin{{"ujkl", 7}}, Full: true}}
		}
	}
	if err := persistedStorageTwinAs(r, "C03"); err != nil {
		return err
	}
	if err := c03RestartTwin(r); err != nil {
		return err
	}
	// ---- (a) deterministic: the pattern the unrepaired loop got wrong, then all patterns
	c03RunSpec(r, e, c03Spec{Tag: "det:A-fail,B-ok,C-ok", CW: 100, H: 300, Provs: c03StdProvs(3),
		Files: []c03File{c03PatternFile(300, []int{0, 1, 2}, 1, 1000, 0)}, Gauges: stdG(0)})
	// degenerate sizes (rejected at PostFile since c877e2c0; the reward block must still not divide by zero)
	for i, sz := range []int64{0, -7} {
		f := c03PatternFile(300, []int{0, 1}, i, 1000, 0)
		f.Size = sz
		c03RunSpec(r, e, c03Spec{Tag: fmt.Sprintf("det:size%d", sz), CW: 100, H: 300, Provs: c03StdProvs(2), Files: []c03File{f}, Gauges: stdG(0)})
	}
	// many files (more than any page size a paged walk might use), some of them abandoned and removed during the walk:
	// every other file must still be visited exactly once
	{
		sp := c03Spec{Tag: "det:many-files", CW: 100, H: 300, Provs: c03StdProvs(5), Gauges: stdG(0)}
		for j := 0; j < r.Scale(130, 260); j++ {
			if j%25 == 3 {
				sp.Files = append(sp.Files, c03File{Start: 10, Interval: 50, Size: 777}) // no provers, old: dropped by the block
				continue
			}
			sp.Files = append(sp.Files, c03PatternFile(300, []int{j % 5, (j + 2) % 5}, j%4, int64(100+j), j%2))
		}
		c03RunSpec(r, e, sp)
	}
	// what stateless validation admits: sizes around MaxInt64/MaxProofs and sizes whose product with the replication
	// count wraps around int64 to a small positive number (every other field valid)
	{
		two64 := new(big.Int).Lsh(big.NewInt(1), 64)
		sizes := []int64{1, 2, 1024, 1 << 31, 1 << 40, 1 << 62, math.MaxInt64, 0, -1, math.MinInt64}
		mps := []int64{1, 2, 3, 5, 7, 1000, 1 << 20, 1 << 40, math.MaxInt64, 0, -1}
		for _, mp := range mps {
			if mp > 0 {
				sizes = append(sizes, math.MaxInt64/mp, math.MaxInt64/mp+1, math.MaxInt64/mp-1)
				for _, k := range []int64{1, 2, 3, 1000} { // ceil((2^64 + k) / mp): the product wraps to k..k+mp-1
					v := new(big.Int).Add(two64, big.NewInt(k+mp-1))
					v.Div(v, big.NewInt(mp))
					if v.IsInt64() {
						sizes = append(sizes, v.Int64())
					}
				}
			}
		}
		seenVB := map[[2]int64]bool{}
		for _, mp := range mps {
			for _, sz := range sizes {
				if seenVB[[2]int64{sz, mp}] {
					continue
				}
				seenVB[[2]int64{sz, mp}] = true
				m := &storagetypes.MsgPostFile{Creator: Acct(60).String(), Merkle: []byte("m"), FileSize: sz, ProofType: 0, MaxProofs: mp, Expires: 0, Note: "{}"}
				acc := m.ValidateBasic() == nil
				d := map[string]interface{}{"fn": "MsgPostFile.ValidateBasic", "file_size": sz, "max_proofs": mp, "accepted": acc}
				r.Case("rm", fmt.Sprintf("PostVB %s %s %s", cZ(sz), cZ(mp), cBool(acc)), d)
				r.Count(fmt.Sprintf("vb:%d:%d", sz, mp), acc)
				r.Hist("validatebasic", fmt.Sprint(acc))
				if acc {
					prod := new(big.Int).Mul(big.NewInt(sz), big.NewInt(mp))
					if sz <= 0 || mp <= 0 || !prod.IsInt64() {
						r.Finding("C03/postfile-admits-overflowing-footprint", fmt.Sprintf("MsgPostFile.ValidateBasic accepts FileSize %d with MaxProofs %d: the footprint %s the reward walk multiplies out does not fit int64 (its divisor wraps around)", sz, mp, prod), d)
					}
				}
			}
		}
	}
	cnt := 0
	for n := 1; n <= 5; n++ {
		perms := c03Perms(n)
		var use [][]int
		if r.Thorough() && n <= 4 {
			use = perms
		} else {
			use = [][]int{perms[0], perms[len(perms)-1]}
			extra := r.Scale(1, 10)
			for i := 0; i < extra && len(perms) > 2; i++ {
				use = append(use, perms[p.Intn(len(perms))])
			}
		}
		for bits := 0; bits < 1<<uint(n); bits++ {
			for pi, perm := range use {
				cnt++
				nfiles := 1 + cnt%3
				h := int64(100 * (2 + cnt%5))
				sp := c03Spec{Tag: fmt.Sprintf("det:n%d:b%d:p%v:f%d", n, bits, perm, nfiles), CW: 100, H: h, Provs: c03StdProvs(n), Gauges: stdG(cnt)}
				sp.Files = append(sp.Files, c03PatternFile(h, perm, bits, int64(1000*(1+cnt%4)), cnt%2))
				if cnt%3 == 1 { // a pay-once file at, just before or long after its end block: its provers are judged like any others
					sp.Files[0].Expires = []int64{h - 1, h, h + 1, 1, h - 99}[cnt%5]
				}
				if nfiles >= 2 { // same provers in reverse order, complementary pattern, another size
					rev := []int{}
					for i := n - 1; i >= 0; i-- {
						rev = append(rev, perm[i])
					}
					sp.Files = append(sp.Files, c03PatternFile(h, rev, (1<<uint(n)-1)^bits, 333, 1))
				}
				if nfiles >= 3 { // a sub-list, rotated pattern
					sub := perm[:(n+1)/2]
					sp.Files = append(sp.Files, c03PatternFile(h, sub, bits>>1, 1<<20, 0))
				}
				if pi == 0 && bits%2 == 1 {
					sp.Residue = []c03Coin{{"ujkl", 12345}}
				}
				c03RunSpec(r, e, sp)
			}
		}
	}
	// ---- (b) random configurations
	sizes := []int64{1, 2, 3, 1000, 1 << 20, 1 << 30, 123456789, 5_000_000_000}
	amts := []int64{1, 2, 3, 7, 100, 6000000, 999_999_999_999, 100_000_000_000_000_000}
	for it := 0; it < r.Scale(260, 5000); it++ {
		q := p.Fork()
		n := 1 + q.Intn(6)
		sp := c03Spec{Tag: fmt.Sprintf("rnd:%d", it), CW: PickOne(q, []int64{100, 100, 100, 50, 7, 2})}
		sp.H = sp.CW * int64(1+q.Intn(40))
		if sp.CW > 1 && q.Chance(1, 12) {
			sp.H += 1 + q.I64n(sp.CW-1) // not a reward height
		}
		weird := q.Chance(1, 3) // leave the property's quantifier in some way
		for i := 0; i < n; i++ {
			pv := c03Prov{Acct: i, Registered: true, Burned: fmt.Sprint(q.Intn(4))}
			if weird {
				switch q.Intn(12) {
				case 0:
					pv.Registered = false
				case 1:
					pv.Burned = "x7"
				case 2:
					pv.Upper = true
				case 3:
					if i > 0 {
						pv.Acct, pv.Upper = i-1, true // second spelling of the previous account
					}
				case 4:
					pv.Raw = "not-a-bech32-address"
				case 5:
					pv.Burned = "9223372036854775807"
				}
			}
			sp.Provs = append(sp.Provs, pv)
		}
		nf := 1 + q.Intn(4)
		if q.Chance(1, 20) {
			nf = 0
		}
		for fi := 0; fi < nf; fi++ {
			f := c03File{Interval: PickOne(q, []int64{50, 50, 50, 1, 7, 100}), Size: PickOne(q, sizes)}
			if q.Chance(1, 4) {
				f.Size = 1 + q.I64n(1<<40)
			}
			switch q.Intn(5) {
			case 0: // young (boundary: Start+Interval == H is still young)
				f.Start = sp.H - f.Interval + q.I64n(3) - 1
			case 1:
				f.Start = 0
			default:
				f.Start = q.I64n(sp.H + 1)
			}
			if f.Start < 0 {
				f.Start = 0
			}
			if weird && q.Chance(1, 10) {
				f.Size = PickOne(q, []int64{0, -5, 1 << 62, (1 << 62) + 12345}) // degenerate / wrapping sizes
			}
			if weird && q.Chance(1, 25) {
				f.Interval = 0
			}
			m := q.Intn(n + 1)
			perm := c03Perms(n)
			order := perm[q.Intn(len(perm))][:m]
			var lws int64
			if f.Interval > 0 {
				kk := sp.H - f.Start
				lws = kk - kk%f.Interval + f.Start - f.Interval
			}
			for _, pi := range order {
				sl := c03Slot{Prov: pi, HasRec: true}
				switch q.Intn(6) {
				case 0:
					sl.Last = lws - 1
				case 1:
					sl.Last = lws
				case 2:
					sl.Last = lws + 1
				case 3:
					sl.Last = 0
				case 4:
					sl.Last = sp.H - 1
				default:
					sl.Last = q.I64n(sp.H + 1)
				}
				if weird && q.Chance(1, 8) {
					sl.HasRec = false
				}
				f.Slots = append(f.Slots, sl)
				if weird && q.Chance(1, 15) {
					f.Slots = append(f.Slots, sl) // the same key listed twice
				}
			}
			sp.Files = append(sp.Files, f)
		}
		ng := q.Intn(4)
		for gi := 0; gi < ng; gi++ {
			g := c03Gauge{Full: q.Bool()}
			for _, d := range c03Denoms {
				if q.Chance(1, 2) {
					a := PickOne(q, amts)
					if q.Chance(1, 3) {
						a = 1 + q.I64n(1_000_000_000_000)
					}
					g.Coins = append(g.Coins, c03Coin{d, a})
				}
			}
			if len(g.Coins) == 0 {
				g.Coins = []c03Coin{{"ujkl", 1 + q.I64n(10_000_000)}}
			}
			sp.Gauges = append(sp.Gauges, g)
		}
		if q.Chance(1, 3) {
			sp.Residue = []c03Coin{{PickOne(q, c03Denoms), 1 + q.I64n(1000000)}}
		}
		c03RunSpec(r, e, sp)
	}
	// Outside the stated bound n*C < 2*10^18 the rounded shares can add up to more than the release
	// (six provers with one sixth each of 6*10^18 base units are paid 12 units too many).  Kept
	// out of the default run; C03_HUGE=1 reproduces it on the implementation.
	if os.Getenv("C03_HUGE") != "" {
		sp := c03Spec{Tag: "huge:six-sixths", CW: 100, H: 300, Provs: c03StdProvs(6),
			Files:   []c03File{c03PatternFile(300, []int{0, 1, 2, 3, 4, 5}, 0, 1000, 0)},
			Gauges:  []c03Gauge{{Coins: []c03Coin{{"uatom", 6_000_000_000_000_000_000}}, Full: true}},
			Residue: []c03Coin{{"uatom", 1000}}}
		c03RunSpec(r, e, sp)
	}
	// ---- (c) RemoveProverWithKey at function level
	for it := 0; it < r.Scale(150, 1500); it++ {
		q := p.Fork()
		ln := q.Intn(7)
		alpha := 1 + q.Intn(4)
		f := storagetypes.UnifiedFile{Merkle: []byte("rm"), Owner: Acct(60).String(), Start: 1, FileSize: 10, ProofInterval: 50, MaxProofs: 10}
		ids := []uint64{}
		for i := 0; i < ln; i++ {
			id := uint64(1 + q.Intn(alpha))
			if it%3 == 0 { // duplicate-free
				id = uint64(i + 1)
			}
			ids = append(ids, id)
			f.Proofs = append(f.Proofs, f.MakeProofKey(Acct(20+int(id)).String()))
		}
		key := uint64(1 + q.Intn(alpha+1))
		if it%3 == 0 {
			key = uint64(1 + q.Intn(ln+1))
		}
		ctx, _ := e.Ctx.CacheContext()
		back := map[string]uint64{}
		for i, s := range f.Proofs {
			back[s] = ids[i]
		}
		in := make([]string, len(ids))
		for i, id := range ids {
			in[i] = cN(id)
		}
		pn := Guard(func() { f.RemoveProverWithKey(ctx, e.App.StorageKeeper, f.MakeProofKey(Acct(20+int(key)).String())) })
		res := "None"
		if pn == "" {
			out := []string{}
			for _, s := range f.Proofs {
				out = append(out, cN(back[s]))
			}
			if len(out) == 0 {
				res = "(Some (@nil N))"
			} else {
				res = "(Some " + cList(out) + ")"
			}
		}
		inl := "(@nil N)"
		if len(in) > 0 {
			inl = cList(in)
		}
		r.Case("rm", fmt.Sprintf("RmKey %s %s %s", inl, cN(key), res), map[string]interface{}{"list": ids, "key": key, "panic": pn})
		r.Count(fmt.Sprintf("rm:%v:%d", ids, key), ln > 0)
		r.Hist("kind", "rmkey")
		// monitor: on a duplicate-free list the call removes exactly the key
		nodup := true
		sn := map[uint64]bool{}
		for _, id := range ids {
			if sn[id] {
				nodup = false
			}
			sn[id] = true
		}
		if nodup {
			want := []string{}
			for _, id := range ids {
				if id != key {
					want = append(want, cN(id))
				}
			}
			got := []string{}
			for _, s := range f.Proofs {
				got = append(got, cN(back[s]))
			}
			if pn != "" || strings.Join(want, ";") != strings.Join(got, ";") {
				r.Finding("C03/remove-prover-wrong", "RemoveProverWithKey on a duplicate-free list did not remove exactly the key", map[string]interface{}{"list": ids, "key": key, "panic": pn})
			}
		}
	}
	AddDecCases(r, r.Scale(120, 1500))
	return nil
}
