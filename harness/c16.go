package main

// C16 — registering a name charges the listed price and yields a live name for the term.
// Function level: keeper.GetCostOfName on the (name, tld) keeper.GetNameAndTLD derives, all
// lengths 0..12 x all TLDs, against the model and against the property's explicit price list.
// History level: MsgRegisterName / MsgRegister / direct RegisterRNSName calls on the assembled
// app with the real bank; step-wise correspondence (Names store, PrimaryName store, balances)
// and the property monitors on every step and along every history.

import (
	"fmt"
	"math"
	"math/big"
	"sort"
	"strings"

	"github.com/cosmos/cosmos-sdk/store/prefix"
	"github.com/cosmos/cosmos-sdk/store/rootmulti"
	storetypes "github.com/cosmos/cosmos-sdk/store/types"
	sdk "github.com/cosmos/cosmos-sdk/types"

	jtypes "github.com/jackalLabs/canine-chain/v4/types"
	rnskeeper "github.com/jackalLabs/canine-chain/v4/x/rns/keeper"
	rnstypes "github.com/jackalLabs/canine-chain/v4/x/rns/types"
)

func init() { runners["C16"] = runC16 }

const c16Bpy int64 = 5484530

// the property's price list (ujkl per year), written independently of the code's constants
func c16ListedPrice(n int, tld string) int64 {
	var t [5]int64
	switch tld {
	case "jkl":
		t = [5]int64{240_000_000, 120_000_000, 60_000_000, 30_000_000, 10_000_000}
	case "ibc":
		t = [5]int64{1_200_000_000, 600_000_000, 300_000_000, 150_000_000, 50_000_000}
	default:
		return -1
	}
	if n >= 1 && n <= 4 {
		return t[n-1]
	}
	return t[4]
}

func c16Tld(t string) string {
	switch t {
	case "ibc":
		return "Ibc"
	case "jkl":
		return "Jkl"
	}
	return ""
}

// ---- id tables (strings -> opaque ids of the model)

type c16Ids struct {
	party map[string]uint64
	idx   map[string]uint64
	data  map[string]uint64
}

func (t *c16Ids) partyID(s string) uint64 {
	if v, ok := t.party[s]; ok {
		return v
	}
	v := uint64(100 + len(t.party))
	t.party[s] = v
	return v
}

func (t *c16Ids) idxID(s string) uint64 {
	if v, ok := t.idx[s]; ok {
		return v
	}
	v := uint64(1 + len(t.idx))
	t.idx[s] = v
	return v
}

func (t *c16Ids) dataID(s string) uint64 {
	if v, ok := t.data[s]; ok {
		return v
	}
	v := uint64(1 + len(t.data))
	t.data[s] = v
	return v
}

// ---- observation of the implementation's state

type c16Name struct {
	Idx     string `json:"idx"`
	ID      uint64 `json:"id"`
	Owner   string `json:"owner"`
	OwnerID uint64 `json:"owner_id"`
	Expires int64  `json:"expires"`
	Data    string `json:"data"`
	DataID  uint64 `json:"data_id"`
	Locked  int64  `json:"locked"`
	Subs    int    `json:"subs"`
}

type c16Prim struct {
	Owner   string `json:"owner"`
	OwnerID uint64 `json:"owner_id"`
	Idx     string `json:"idx"`
	ID      uint64 `json:"id"`
}

type c16Bal struct {
	ID  uint64   `json:"id"`
	Bal *big.Int `json:"bal"`
}

type c16Obs struct {
	Names   []c16Name `json:"names"`
	Primary []c16Prim `json:"primary"`
	Bank    []c16Bal  `json:"bank"`
	Supply  *big.Int  `json:"supply"`
}

func (o *c16Obs) name(idx string) *c16Name {
	for i := range o.Names {
		if o.Names[i].Idx == idx {
			return &o.Names[i]
		}
	}
	return nil
}

func (o *c16Obs) bal(id uint64) *big.Int {
	for _, b := range o.Bank {
		if b.ID == id {
			return b.Bal
		}
	}
	return big.NewInt(0)
}

func c16RnsKey(e *Env) storetypes.StoreKey {
	rs, ok := e.App.CommitMultiStore().(*rootmulti.Store)
	if !ok {
		return nil
	}
	for k := range rs.GetStores() {
		if k.Name() == rnstypes.StoreKey {
			return k
		}
	}
	return nil
}

type c16World struct {
	e     *Env
	ids   *c16Ids
	key   storetypes.StoreKey
	accts map[uint64]sdk.AccAddress // bank universe: id -> address
	order []uint64
}

func (w *c16World) observe() c16Obs {
	o := c16Obs{}
	for _, n := range w.e.App.RnsKeeper.GetAllNames(w.e.Ctx) {
		idx := n.Name + "." + n.Tld
		o.Names = append(o.Names, c16Name{Idx: idx, ID: w.ids.idxID(idx), Owner: n.Value, OwnerID: w.ids.partyID(n.Value),
			Expires: n.Expires, Data: n.Data, DataID: w.ids.dataID(n.Data), Locked: n.Locked, Subs: len(n.Subdomains)})
	}
	sort.Slice(o.Names, func(i, j int) bool { return o.Names[i].ID < o.Names[j].ID })
	st := prefix.NewStore(w.e.Ctx.KVStore(w.key), rnstypes.KeyPrefix(rnstypes.PrimaryNameKeyPrefix))
	it := sdk.KVStorePrefixIterator(st, []byte{})
	for ; it.Valid(); it.Next() {
		owner := strings.TrimSuffix(string(it.Key()), "/")
		idx := string(it.Value())
		o.Primary = append(o.Primary, c16Prim{Owner: owner, OwnerID: w.ids.partyID(owner), Idx: idx, ID: w.ids.idxID(idx)})
	}
	it.Close()
	sort.Slice(o.Primary, func(i, j int) bool { return o.Primary[i].OwnerID < o.Primary[j].OwnerID })
	for _, id := range w.order {
		o.Bank = append(o.Bank, c16Bal{ID: id, Bal: w.e.App.BankKeeper.GetBalance(w.e.Ctx, w.accts[id], "ujkl").Amount.BigInt()})
	}
	o.Supply = w.e.App.BankKeeper.GetSupply(w.e.Ctx, "ujkl").Amount.BigInt()
	return o
}

func c16ObsEqual(a, b *c16Obs) bool {
	if len(a.Names) != len(b.Names) || len(a.Primary) != len(b.Primary) || a.Supply.Cmp(b.Supply) != 0 {
		return false
	}
	for i := range a.Names {
		if a.Names[i] != b.Names[i] {
			return false
		}
	}
	for i := range a.Primary {
		if a.Primary[i] != b.Primary[i] {
			return false
		}
	}
	for i := range a.Bank {
		if a.Bank[i].Bal.Cmp(b.Bank[i].Bal) != 0 {
			return false
		}
	}
	return true
}

func c16Names(ns []c16Name) string {
	items := make([]string, len(ns))
	for i, n := range ns {
		items[i] = fmt.Sprintf("(%s, {| n_owner := %s; n_expires := %s; n_data := %s; n_locked := %s; n_subs := %s |})",
			cN(n.ID), cN(n.OwnerID), cZ(n.Expires), cN(n.DataID), cZ(n.Locked), cZ(int64(n.Subs)))
	}
	if len(items) == 0 {
		return "(@nil (N * name_rec))"
	}
	return cList(items)
}

func c16Prims(ps []c16Prim) string {
	items := make([]string, len(ps))
	for i, p := range ps {
		items[i] = cPair(cN(p.OwnerID), cN(p.ID))
	}
	if len(items) == 0 {
		return "(@nil (N * N))"
	}
	return cList(items)
}

func c16Bank(bs []c16Bal) string {
	items := make([]string, len(bs))
	for i, b := range bs {
		items[i] = cPair(cN(b.ID), cZbig(b.Bal))
	}
	return cList(items)
}

// ---- operations

type c16Op struct {
	Kind    string `json:"kind"` // RegisterName | Register | Keeper (direct RegisterRNSName)
	Creator string `json:"creator"`
	Name    string `json:"name"`
	Data    string `json:"data"`
	Years   int64  `json:"years"`
	Primary bool   `json:"primary"`
	Height  int64  `json:"height"`
}

// a step of a scripted history: an operation, or a direct write that prepares a state
type c16Step struct {
	Op    *c16Op
	Craft *rnstypes.Names // RnsKeeper.SetNames
	Prim  *[3]string      // RnsKeeper.SetPrimaryName(owner, name, tld)
	Fund  *[2]int64       // mint (account index, amount)
	// another message of the name service delivered between registrations (list, delist, bid, records, data): none
	// of them is a registration, so every live name keeps its holder and its term
	Msg   sdk.Msg
	MsgAt int64
}

const (
	c16Mod uint64 = 50
	c16Pol uint64 = 51
)

var c16MaxBig = big.NewInt(math.MaxInt64)

func c16NewWorld(funds map[int]*big.Int) (*c16World, error) {
	e, err := NewEnv()
	if err != nil {
		return nil, err
	}
	w := &c16World{e: e, ids: &c16Ids{party: map[string]uint64{}, idx: map[string]uint64{}, data: map[string]uint64{}}, accts: map[uint64]sdk.AccAddress{}}
	w.key = c16RnsKey(e)
	if w.key == nil {
		return nil, fmt.Errorf("rns store key not found")
	}
	for _, i := range []int{1, 2, 3, 4, 5, 9} {
		w.accts[uint64(i)] = Acct(i)
		w.ids.party[Acct(i).String()] = uint64(i)
		w.order = append(w.order, uint64(i))
	}
	pol, err := jtypes.GetPOLAccount()
	if err != nil {
		return nil, err
	}
	w.accts[c16Mod], w.accts[c16Pol] = e.ModAddr(rnstypes.ModuleName), pol
	w.ids.party[w.accts[c16Mod].String()], w.ids.party[pol.String()] = c16Mod, c16Pol
	w.order = append(w.order, c16Mod, c16Pol)
	for i, amt := range funds {
		if amt.Sign() <= 0 {
			continue
		}
		c := sdk.NewCoins(sdk.NewCoin("ujkl", sdk.NewIntFromBigInt(amt)))
		if err := e.App.BankKeeper.MintCoins(e.Ctx, "jklmint", c); err != nil {
			return nil, err
		}
		if err := e.App.BankKeeper.SendCoinsFromModuleToAccount(e.Ctx, "jklmint", Acct(i), c); err != nil {
			return nil, err
		}
	}
	return w, nil
}

// exec runs one operation the way baseapp does (messages through e.Run; the direct keeper call on a
// cache context with recover, written only on success)
func (w *c16World) exec(op *c16Op) (out string, errText string, basicOK bool) {
	e := w.e
	e.At(op.Height, T0)
	switch op.Kind {
	case "RegisterName":
		m := &rnstypes.MsgRegisterName{Creator: op.Creator, Name: op.Name, Years: op.Years, Data: op.Data, SetPrimary: op.Primary}
		basicOK = m.ValidateBasic() == nil
		res := e.Run(m)
		return res.Out, res.Err, basicOK
	case "Register":
		m := &rnstypes.MsgRegister{Creator: op.Creator, Name: op.Name, Years: op.Years, Data: op.Data}
		basicOK = m.ValidateBasic() == nil
		res := e.Run(m)
		return res.Out, res.Err, basicOK
	default:
		cctx, write := e.Ctx.CacheContext()
		var err error
		if pn := Guard(func() {
			err = e.App.RnsKeeper.RegisterRNSName(cctx, op.Creator, op.Name, op.Data, op.Years, op.Primary)
		}); pn != "" {
			return OutPanic, pn, true
		}
		if err != nil {
			return OutFail, err.Error(), true
		}
		write()
		return OutOk, "", true
	}
}

type c16Track struct {
	owner string
	until *big.Int
}

var c16SeenRaw = map[string]bool{}

// c16NameCase ties the byte-level model of ToLower/ReplaceAll/GetNameAndTLD to the code on one raw name (ASCII only)
func c16NameCase(r *RunCtx, raw string) {
	if c16SeenRaw[raw] {
		return
	}
	c16SeenRaw[raw] = true
	for i := 0; i < len(raw); i++ {
		if raw[i] >= 128 {
			return
		}
	}
	norm := strings.ReplaceAll(strings.ToLower(raw), " ", "")
	name, tld, err := rnskeeper.GetNameAndTLD(norm)
	res := "None"
	if err == nil {
		if c16Tld(tld) == "" {
			return
		}
		res = fmt.Sprintf("(Some (%s, %s))", cStr(name), c16Tld(tld))
	}
	r.Case("fn", fmt.Sprintf("NameFn %s %s", cStr(raw), res), map[string]interface{}{"fn": "GetNameAndTLD(normalised)", "raw": raw, "name": name, "tld": tld, "ok": err == nil})
	r.Count("namefn:"+raw, err == nil)
}

type c16Hist struct {
	r     *RunCtx
	w     *c16World
	label string
	trace []interface{}
	track map[string]c16Track // idx -> protected registration (history-level monitor)
}

func (h *c16Hist) finding(sig, what string) {
	tr := h.trace
	if len(tr) > 12 {
		tr = tr[len(tr)-12:]
	}
	h.r.Finding(sig, what, map[string]interface{}{"history": h.label, "trace_tail": tr})
}

func c16OutTerm(out string) string {
	switch out {
	case OutOk:
		return "Ok"
	case OutFail:
		return "Fail"
	}
	return "Panic"
}

func (h *c16Hist) craft(st c16Step) {
	w := h.w
	if st.Craft != nil {
		w.e.App.RnsKeeper.SetNames(w.e.Ctx, *st.Craft)
		delete(h.track, st.Craft.Name+"."+st.Craft.Tld)
		h.trace = append(h.trace, map[string]interface{}{"craft_name": st.Craft})
	}
	if st.Fund != nil {
		c := sdk.NewCoins(sdk.NewInt64Coin("ujkl", st.Fund[1]))
		_ = w.e.App.BankKeeper.MintCoins(w.e.Ctx, "jklmint", c)
		_ = w.e.App.BankKeeper.SendCoinsFromModuleToAccount(w.e.Ctx, "jklmint", Acct(int(st.Fund[0])), c)
		h.trace = append(h.trace, map[string]interface{}{"fund": st.Fund})
	}
	if st.Prim != nil {
		w.e.App.RnsKeeper.SetPrimaryName(w.e.Ctx, st.Prim[0], st.Prim[1], st.Prim[2])
		h.trace = append(h.trace, map[string]interface{}{"craft_primary": st.Prim})
	}
}

// step executes one registration, evaluates the monitors, emits the correspondence case
func (h *c16Hist) step(op *c16Op) (string, *c16Obs) {
	if op.Kind == "Init" {
		return h.stepInit(op)
	}
	r, w := h.r, h.w
	// glue, computed with Go's and the repo's own functions
	norm := strings.ReplaceAll(strings.ToLower(op.Name), " ", "")
	c16NameCase(r, op.Name)
	pname, ptld, perr := rnskeeper.GetNameAndTLD(norm)
	parseOK := perr == nil && c16Tld(ptld) != ""
	// the harness's own reading of a name: everything before the last four bytes (separator + three-letter TLD)
	if parseOK && len(norm) >= 5 && (pname != norm[:len(norm)-4] || ptld != norm[len(norm)-3:]) {
		h.finding("C16/parse/name-differs", fmt.Sprintf("%q is parsed as name %q, tld %q; it is priced and stored under that instead of %q.%q", op.Name, pname, ptld, norm[:len(norm)-4], norm[len(norm)-3:]))
	}
	idx := pname + "." + ptld
	addr, aerr := sdk.AccAddressFromBech32(op.Creator)
	senderOK := aerr == nil
	var senderID uint64
	canon := ""
	if senderOK {
		canon = addr.String()
		senderID = w.ids.partyID(canon)
		if _, in := w.accts[senderID]; !in {
			senderOK = false // outside the bank universe: not generated
		}
	}
	w.e.At(op.Height, T0)
	pre := w.observe()
	out, errText, basicOK := w.exec(op)
	post := w.observe()
	parse := "None"
	if parseOK {
		parse = fmt.Sprintf("(Some (%s, %s, %s))", cN(w.ids.idxID(idx)), cZ(int64(len(pname))), c16Tld(ptld))
	}
	opTerm := fmt.Sprintf("{| o_basic_ok := %s; o_parse := %s; o_sender_ok := %s; o_sender := %s; o_data := %s; o_years := %s; o_primary := %s; o_height := %s |}",
		cBool(basicOK), parse, cBool(senderOK), cN(senderID), cN(w.ids.dataID(op.Data)), cZ(op.Years), cBool(op.Primary && op.Kind != "Register"), cZ(op.Height))
	term := fmt.Sprintf("Reg {| a_mod := %s; a_pol := %s |} %s %s %s %s %s %s %s %s", cN(c16Mod), cN(c16Pol),
		c16Names(pre.Names), c16Prims(pre.Primary), c16Bank(pre.Bank), opTerm, c16OutTerm(out),
		c16Names(post.Names), c16Prims(post.Primary), c16Bank(post.Bank))
	desc := map[string]interface{}{"history": h.label, "step": len(h.trace), "op": op, "out": out, "err": errText, "pre": pre, "post": post}
	r.Case("hist", term, desc)
	h.trace = append(h.trace, map[string]interface{}{"op": op, "out": out, "err": errText, "post_names": post.Names, "post_bank": post.Bank})

	// ---- classification for the evidence
	preRec := pre.name(idx)
	shape := "new"
	if !parseOK {
		shape = "unparsed"
	} else if preRec != nil {
		own := "foreign"
		if preRec.Owner == canon {
			own = "own"
		}
		switch {
		case op.Height < preRec.Expires-1:
			shape = "live-" + own
		case op.Height == preRec.Expires-1:
			shape = "last-live-block-" + own
		case op.Height == preRec.Expires:
			shape = "at-expiry-" + own
		case op.Height == preRec.Expires+1:
			shape = "just-lapsed-" + own
		default:
			shape = "lapsed-" + own
		}
	}
	ycls := fmt.Sprint(op.Years)
	if op.Years > 100 {
		ycls = "huge"
	} else if op.Years < -1 {
		ycls = "very-negative"
	}
	r.Hist("kind", op.Kind)
	r.Hist("outcome", out)
	r.Hist("name-state", shape)
	r.Hist("years", ycls)
	if parseOK {
		r.Hist("len/tld", fmt.Sprintf("%d/%s", len(pname), ptld))
	}
	if senderOK && op.Creator != canon {
		r.Hist("spelling", "non-canonical")
	} else {
		r.Hist("spelling", "canonical-or-invalid")
	}
	r.Count(fmt.Sprintf("%s|%s|%s|%d|%s|%d|%s|%v|%d", op.Kind, op.Creator, norm, op.Years, shape, op.Height, out, op.Primary, len(pre.Names)), out == OutOk || preRec != nil)

	// ---- monitors: the property on what the implementation did
	Y := big.NewInt(op.Years)
	H := big.NewInt(op.Height)
	term_ := new(big.Int).Mul(Y, big.NewInt(c16Bpy))
	special := senderID == c16Mod || senderID == c16Pol
	preLive := preRec != nil && op.Height < preRec.Expires
	if out != OutOk {
		if !c16ObsEqual(&pre, &post) {
			h.finding("C16/register/failed-but-state-changed", "a failed registration changed names, primary names or balances")
		}
	} else {
		if !parseOK || !senderOK {
			h.finding("C16/register/accepted-unparsable", "registration succeeded although the name or the sender does not parse")
		} else {
			if op.Years < 1 {
				h.finding("C16/register/years-not-positive", fmt.Sprintf("registration for %d years succeeded", op.Years))
			}
			due := new(big.Int).Mul(Y, big.NewInt(c16ListedPrice(len(pname), ptld)))
			if !special {
				if d := new(big.Int).Sub(pre.bal(senderID), post.bal(senderID)); d.Cmp(due) != 0 {
					h.finding("C16/register/debit-mismatch", fmt.Sprintf("registrant debited %s, listed price for %d years of a %d-character .%s name is %s", d, op.Years, len(pname), ptld, due))
				}
				if c := new(big.Int).Sub(post.bal(c16Pol), pre.bal(c16Pol)); c.Cmp(due) != 0 {
					h.finding("C16/register/pol-credit-mismatch", fmt.Sprintf("POL account credited %s, price is %s", c, due))
				}
				if post.bal(c16Mod).Cmp(pre.bal(c16Mod)) != 0 {
					h.finding("C16/register/module-balance-changed", "rns module balance changed by a registration")
				}
			}
			for _, id := range w.order {
				if id != senderID && id != c16Pol && id != c16Mod && post.bal(id).Cmp(pre.bal(id)) != 0 {
					h.finding("C16/register/other-balance-changed", fmt.Sprintf("balance of uninvolved account %d changed", id))
				}
			}
			if post.Supply.Cmp(pre.Supply) != 0 {
				h.finding("C16/register/supply-changed", "ujkl supply changed by a registration")
			}
			pr := post.name(idx)
			if pr == nil || pr.Owner != canon {
				h.finding("C16/register/not-owner-after-success", "after a successful registration the name does not resolve to the registrant")
			} else {
				if ra, rerr := w.e.App.RnsKeeper.Resolve(w.e.Ctx, norm); rerr != nil || !ra.Equals(addr) {
					h.finding("C16/register/not-owner-after-success", "Resolve(name) is not the registrant after a successful registration")
				}
				if new(big.Int).Sub(big.NewInt(pr.Expires), H).Cmp(term_) < 0 {
					h.finding("C16/register/term-too-short", fmt.Sprintf("Expires %d at height %d is less than %d years ahead", pr.Expires, op.Height, op.Years))
				}
				if preLive && preRec.Owner == canon {
					if want := new(big.Int).Add(big.NewInt(preRec.Expires), term_); want.Cmp(big.NewInt(pr.Expires)) != 0 {
						h.finding("C16/register/renewal-not-exact", fmt.Sprintf("renewal of a live name: Expires %d -> %d, expected %s", preRec.Expires, pr.Expires, want))
					}
				}
			}
			if preLive && preRec.Owner != canon {
				h.finding("C16/register/live-foreign-name-registered", "a live name was registered by an account that does not own it")
			}
		}
	}
	// the converse (what keeps the statements above from being vacuous): the registration lapses AT Expires,
	// so a parsable request of a funded account for a free, lapsed or own name whose price and term fit
	// int64 must be served
	if out != OutOk && basicOK && parseOK && senderOK && op.Years >= 1 && op.Height >= 0 {
		due := new(big.Int).Mul(Y, big.NewInt(c16ListedPrice(len(pname), ptld)))
		end := new(big.Int).Add(H, term_)
		free := !preLive
		if preLive && preRec.Owner == canon {
			free = true
			end = new(big.Int).Add(big.NewInt(preRec.Expires), term_)
		}
		if free && due.Cmp(c16MaxBig) <= 0 && end.Cmp(c16MaxBig) <= 0 && pre.bal(senderID).Cmp(due) >= 0 {
			h.finding("C16/register/serviceable-request-refused", fmt.Sprintf("a funded request for a name that is %s at height %d was refused", shape, op.Height))
		}
	}
	h.liveNamesKept(&pre, &post, op.Height, "register")
	// history level: a registration bought earlier in this history protects the name until its term ends
	if out == OutOk && parseOK && senderOK {
		until := new(big.Int).Add(H, term_)
		if preLive && preRec.Owner == canon {
			until = new(big.Int).Add(big.NewInt(preRec.Expires), term_)
		}
		h.track[idx] = c16Track{owner: canon, until: until}
	}
	h.termsHonoured(&post, H)
	return out, &post
}

// the name resolves to whoever the record names, under every spelling a caller may type (x/storage and
// x/notifications resolve names typed by users), after every step — also after the name has changed hands
func (h *c16Hist) resolvesToHolder(post *c16Obs) {
	w := h.w
	for i := range post.Names {
		n := &post.Names[i]
		holder, err := sdk.AccAddressFromBech32(n.Owner)
		if err != nil || len(n.Idx) < 5 {
			continue
		}
		ascii := true
		for i := 0; i < len(n.Idx); i++ {
			ascii = ascii && n.Idx[i] < 128
		}
		if !ascii {
			continue // (case mapping of non-ASCII names is Go's Unicode business, not modelled)
		}
		for _, spelling := range []string{n.Idx, strings.ToUpper(n.Idx[:len(n.Idx)-4]) + n.Idx[len(n.Idx)-4:], strings.ToUpper(n.Idx[:1]) + n.Idx[1:]} {
			got, rerr := w.e.App.RnsKeeper.Resolve(w.e.Ctx, spelling)
			if rerr != nil || !got.Equals(holder) {
				h.finding("C16/resolve/not-the-holder", fmt.Sprintf("%s is held by %s, Resolve(%q) answers %v %v", n.Idx, n.Owner, spelling, got, rerr))
				return
			}
		}
	}
}

// every name that was live before the step keeps its owner and its expiry does not move backwards
func (h *c16Hist) liveNamesKept(pre, post *c16Obs, height int64, kind string) {
	h.resolvesToHolder(post)
	for i := range pre.Names {
		pn := &pre.Names[i]
		if height < pn.Expires {
			qn := post.name(pn.Idx)
			if qn == nil || qn.Owner != pn.Owner {
				h.finding("C16/"+kind+"/live-name-reassigned", fmt.Sprintf("%s was live before the step (owner %s, until %d) and has another owner after it", pn.Idx, pn.Owner, pn.Expires))
			} else if qn.Expires < pn.Expires {
				h.finding("C16/"+kind+"/live-name-shortened", fmt.Sprintf("%s was live until %d before the step and runs only until %d after it", pn.Idx, pn.Expires, qn.Expires))
			}
		}
	}
}

// history level: a term bought (or handed out) earlier in this history protects the name until it ends
func (h *c16Hist) termsHonoured(post *c16Obs, H *big.Int) {
	for k, t := range h.track {
		if H.Cmp(t.until) < 0 {
			qn := post.name(k)
			if qn == nil || qn.Owner != t.owner || big.NewInt(qn.Expires).Cmp(t.until) < 0 {
				h.finding("C16/history/paid-term-not-honoured", fmt.Sprintf("%s, registered earlier in the history by %s until %s, changed owner or term before that term ended", k, t.owner, t.until))
			}
		}
	}
}

const c16InitTerm = 5733818

// stepInit executes one MsgInit (the other handler that writes name records), evaluates the monitors and emits
// the correspondence case
func (h *c16Hist) stepInit(op *c16Op) (string, *c16Obs) {
	r, w := h.r, h.w
	w.e.At(op.Height, T0)
	m := &rnstypes.MsgInit{Creator: op.Creator}
	basicOK := m.ValidateBasic() == nil
	_, already := w.e.App.RnsKeeper.GetInit(w.e.Ctx, op.Creator)
	gen := rnstypes.MakeName(int(op.Height), op.Height)
	nameOK := !strings.Contains(gen, ".") && len(gen) >= 6
	idx := gen + ".jkl"
	pre := w.observe()
	res := w.e.Run(m)
	out := res.Out
	post := w.observe()
	nm := "None"
	if nameOK {
		nm = "(Some " + cN(w.ids.idxID(idx)) + ")"
	}
	opTerm := fmt.Sprintf("{| i_basic_ok := %s; i_fresh := %s; i_name := %s; i_sender := %s; i_data := %s; i_height := %s |}",
		cBool(basicOK), cBool(!already), nm, cN(w.ids.partyID(op.Creator)), cN(w.ids.dataID("{}")), cZ(op.Height))
	term := fmt.Sprintf("InitC %s %s %s %s %s %s %s %s", c16Names(pre.Names), c16Prims(pre.Primary), c16Bank(pre.Bank), opTerm, c16OutTerm(out),
		c16Names(post.Names), c16Prims(post.Primary), c16Bank(post.Bank))
	r.Case("hist", term, map[string]interface{}{"history": h.label, "step": len(h.trace), "op": op, "out": out, "err": res.Err, "pre": pre, "post": post})
	h.trace = append(h.trace, map[string]interface{}{"op": op, "out": out, "err": res.Err, "generated": idx, "post_names": post.Names})
	preRec := pre.name(idx)
	shape := "free"
	if preRec != nil {
		shape = "lapsed"
		if op.Height < preRec.Expires {
			shape = "live"
		}
	}
	r.Hist("kind", "Init")
	r.Hist("outcome", out)
	r.Hist("init-name-state", shape)
	r.Count(fmt.Sprintf("Init|%s|%s|%d|%s|%v|%d", op.Creator, shape, op.Height, out, already, len(pre.Names)), out == OutOk || preRec != nil)
	H := big.NewInt(op.Height)
	// the property says nothing about which name an initialisation hands out, for how long, or whether it is served:
	// only that no live name is taken or shortened by it (below), and that terms granted earlier are honoured
	if out == OutOk {
		for i := range post.Names {
			qn := &post.Names[i]
			if pn := pre.name(qn.Idx); (pn == nil || *pn != *qn) && qn.Owner == op.Creator && op.Height < qn.Expires {
				h.track[qn.Idx] = c16Track{owner: op.Creator, until: big.NewInt(qn.Expires)}
			}
		}
	}
	h.liveNamesKept(&pre, &post, op.Height, "init")
	h.termsHonoured(&post, H)
	return out, &post
}

func c16Big(s string) *big.Int { v, _ := new(big.Int).SetString(s, 10); return v }

// years for which cost*years wraps around int64 to a small positive amount (cost = 2^a * m, m odd)
func c16WrapYears(cost int64) int64 {
	a := 0
	m := cost
	for m%2 == 0 {
		m /= 2
		a++
	}
	mod := new(big.Int).Lsh(big.NewInt(1), uint(64-a))
	inv := new(big.Int).ModInverse(big.NewInt(m), mod)
	if inv == nil || !inv.IsInt64() {
		return 1 << 40
	}
	return inv.Int64()
}

func c16DefaultFunds() map[int]*big.Int {
	return map[int]*big.Int{1: big.NewInt(10_000_000_000_000), 2: big.NewInt(10_000_000_000_000), 3: big.NewInt(10_000_000_000_000),
		4: big.NewInt(19_999_999), 5: new(big.Int).Set(c16MaxBig), 9: big.NewInt(777)}
}

// other delivers one non-registering message of the module and judges the history-level clauses of the property
func (h *c16Hist) other(st c16Step) {
	w := h.w
	w.e.At(st.MsgAt, T0)
	pre := w.observe()
	res := w.e.Run(st.Msg)
	post := w.observe()
	h.trace = append(h.trace, map[string]interface{}{"message": fmt.Sprintf("%T", st.Msg), "content": st.Msg, "height": st.MsgAt, "outcome": res.Out, "error": res.Err})
	h.r.Hist("other-messages", fmt.Sprintf("%T %s", st.Msg, res.Out))
	h.liveNamesKept(&pre, &post, st.MsgAt, "other-message")
	h.termsHonoured(&post, big.NewInt(st.MsgAt))
}

func (h *c16Hist) run(steps []c16Step) {
	for _, st := range steps {
		if st.Msg != nil {
			h.other(st)
		} else if st.Op != nil {
			h.step(st.Op)
		} else {
			h.craft(st)
		}
	}
}

func c16Reg(creator, name string, years, height int64) c16Step {
	return c16Step{Op: &c16Op{Kind: "RegisterName", Creator: creator, Name: name, Data: "{}", Years: years, Height: height}}
}

// the deterministic prefix: the histories that exposed the two repaired defects, and every boundary
// of the handler's comparisons
func c16Scripted() [][]c16Step {
	A, B, C, poor, whale := Acct(1).String(), Acct(2).String(), Acct(3).String(), Acct(4).String(), Acct(5).String()
	UA := strings.ToUpper(A)
	var hs [][]c16Step
	// re-registration of a lapsed name at height 2e7 by another account, then the old owner is locked out
	hs = append(hs, []c16Step{c16Reg(A, "bob.jkl", 1, 10), c16Reg(B, "bob.jkl", 1, 20_000_000), c16Reg(A, "bob.jkl", 1, 20_000_001), c16Reg(B, "bob.jkl", 2, 20_000_002)})
	// ... and by the lapsed owner itself
	hs = append(hs, []c16Step{c16Reg(A, "bob.jkl", 1, 10), c16Reg(A, "bob.jkl", 1, 20_000_000), c16Reg(B, "bob.jkl", 1, 20_000_000+c16Bpy-1), c16Reg(B, "bob.jkl", 1, 20_000_000+c16Bpy)})
	// year counts that must be rejected without any charge
	var bad []c16Step
	for _, y := range []int64{-1, 0, 1 << 40, 1 << 62, math.MaxInt64, math.MinInt64, c16WrapYears(10_000_000), c16WrapYears(60_000_000), c16WrapYears(1_200_000_000),
		math.MaxInt64/10_000_000 + 1, math.MaxInt64/c16Bpy + 1, math.MaxInt64 / c16Bpy} {
		bad = append(bad, c16Reg(whale, "wrapped.jkl", y, 100))
		bad = append(bad, c16Reg(whale, "abc.jkl", y, 100))
		bad = append(bad, c16Step{Op: &c16Op{Kind: "Register", Creator: whale, Name: "x.ibc", Data: "d", Years: y, Height: 100}})
		bad = append(bad, c16Step{Op: &c16Op{Kind: "Keeper", Creator: A, Name: "wrapped.jkl", Data: "d", Years: y, Height: 100}})
	}
	hs = append(hs, bad)
	// the largest acceptable year count (price just below 2^63) and one more
	hs = append(hs, []c16Step{c16Reg(whale, "large.jkl", math.MaxInt64/10_000_000, 7), c16Reg(whale, "larger.jkl", math.MaxInt64/10_000_000+1, 7)})
	hs = append(hs, []c16Step{c16Reg(whale, "z.ibc", math.MaxInt64/1_200_000_000, 7), c16Reg(whale, "y.ibc", math.MaxInt64/1_200_000_000+1, 7)})
	// heights exactly around the expiry of a previous registration, same and different registrant
	E := 1000 + c16Bpy
	for _, dh := range []int64{-1, 0, 1} {
		for _, who := range []string{A, B, UA} {
			hs = append(hs, []c16Step{c16Reg(A, "edge.ibc", 1, 1000), c16Reg(who, "Edge.ibc", 2, E+dh), c16Reg(A, "edge.ibc", 1, E+dh), c16Reg(B, "edge.ibc", 1, E+dh+1)})
		}
	}
	// every length and both TLDs, 1..3 and 100 years; then renewals
	var lens []c16Step
	hgt := int64(50)
	for _, tld := range []string{"jkl", "ibc"} {
		for n := 1; n <= 8; n++ {
			nm := strings.Repeat("q", n) + "." + tld
			lens = append(lens, c16Reg(A, nm, int64(1+n%3), hgt), c16Reg(A, strings.ToUpper(nm[:n])+"."+tld, 100, hgt+1), c16Reg(B, nm, 1, hgt+2))
			hgt += 3
		}
	}
	hs = append(hs, lens)
	// funds (19 999 999): two years are one unit short, one year fits, the next year is one unit short again
	hs = append(hs, []c16Step{c16Reg(poor, "penny.jkl", 2, 5), c16Reg(poor, "penny.jkl", 1, 5), c16Reg(poor, "penny.jkl", 1, 6), c16Reg(poor, "cent.jkl", 1, 6),
		c16Reg(strings.ToUpper(poor), "Penny.jkl", 1, 7)})
	// exact funds: the bystander-sized account 9 holds exactly one year of a 5-character .jkl name after being sent it
	hs = append(hs, []c16Step{{Fund: &[2]int64{9, 10_000_000 - 777}}, c16Reg(Acct(9).String(), "exact.jkl", 1, 5), c16Reg(Acct(9).String(), "exact.jkl", 1, 6)})
	// upper-case spelling of the creator: the same owner as the canonical spelling
	hs = append(hs, []c16Step{c16Reg(UA, "Shout.jkl", 1, 9), c16Reg(A, "shout.jkl", 1, 10), c16Reg(UA, "SHOUT.jkl", 1, 11), c16Reg(B, "shout.jkl", 1, 12),
		{Op: &c16Op{Kind: "RegisterName", Creator: UA, Name: "second.jkl", Data: "x", Years: 1, Primary: true, Height: 13}},
		{Op: &c16Op{Kind: "RegisterName", Creator: A, Name: "third.jkl", Data: "x", Years: 1, Primary: false, Height: 14}}})
	// separators, blanks, case of the TLD, unsupported TLDs, direct keeper calls
	var odd []c16Step
	for _, nm := range []string{"abc jkl", "abcXjkl", "abc.JKL", "a b c.jkl", "abc.com", "jkl", ".jkl", "a.jkl", "ab-_.ibc", "abc..jkl", "Ünï.jkl", "", "abc.jkl ",
		// names spelled with the letters of a TLD (their own or the other one), hyphens at the edges
		"myjklfan.jkl", "xxibcyy.ibc", "ajkl.jkl", "ibc-relayer.jkl", "jkljkl.jkl", "ibcibc.ibc", "-harbor.jkl", "harbor-.jkl", "--harbor--.ibc"} {
		for _, kind := range []string{"RegisterName", "Register", "Keeper"} {
			odd = append(odd, c16Step{Op: &c16Op{Kind: kind, Creator: C, Name: nm, Data: "odd", Years: 1, Primary: kind == "Keeper", Height: 30}})
		}
	}
	for _, cr := range []string{"", "garbage", "cosmos1qqqqqqqqqqqqqqqqqqqqqqqqqqqqqqqqnrql8a", strings.ToUpper(C[:10]) + C[10:]} {
		odd = append(odd, c16Step{Op: &c16Op{Kind: "Keeper", Creator: cr, Name: "fine.jkl", Data: "odd", Years: 1, Height: 31}}, c16Reg(cr, "fine.jkl", 1, 31))
	}
	hs = append(hs, odd)
	// MsgInit hands out a free generated name: never one that is live (paid for or handed out in the same block),
	// once per account, under the spelling the sender used
	initAt := func(who string, height int64) c16Step { return c16Step{Op: &c16Op{Kind: "Init", Creator: who, Height: height}} }
	cand := func(k int, height int64) string { return rnstypes.MakeName(int(height)+k, height) + ".jkl" }
	var traps []c16Step
	for k := 1; k <= 6; k++ { // the neighbours of the name of height 700 are all paid for by A
		traps = append(traps, c16Reg(A, cand(k, 700), 2, 10))
	}
	traps = append(traps, initAt(B, 700), initAt(C, 700), initAt(whale, 700), initAt(poor, 700), initAt(B, 700), initAt(C, 701), initAt(C, 702), initAt(whale, 1700), initAt(UA, 701),
		initAt(A, 701), c16Reg(B, cand(0, 700), 1, 703), c16Reg(C, cand(0, 700), 1, 703), c16Reg(C, cand(0, 700), 1, 700+c16InitTerm), initAt(poor, 700+c16InitTerm))
	hs = append(hs, traps)
	hs = append(hs, []c16Step{c16Reg(A, cand(0, 900), 3, 20), initAt(B, 900), initAt(B, 901), initAt(B, 901), c16Reg(A, cand(0, 902), 1, 901), initAt(C, 902), initAt(C, 1902+c16Bpy),
		initAt("garbage", 5), initAt("", 5), initAt(strings.ToUpper(C[:10])+C[10:], 5)})
	// the other messages of the module between registrations: a name that was listed and withdrawn, given records and
	// data, bid on — is still its holder's for the paid term, nobody else can register it, and a renewal extends it
	msg := func(at int64, m sdk.Msg) c16Step { return c16Step{Msg: m, MsgAt: at} }
	H2 := int64(2_000_000)
	hs = append(hs, []c16Step{c16Reg(A, "gallery.jkl", 2, 100),
		msg(200, &rnstypes.MsgList{Creator: A, Name: "gallery.jkl", Price: sdk.NewInt64Coin("ujkl", 5_000_000)}),
		c16Reg(B, "gallery.jkl", 1, 201),
		msg(300, &rnstypes.MsgDelist{Creator: A, Name: "gallery.jkl"}),
		c16Reg(B, "gallery.jkl", 1, H2), c16Reg(A, "gallery.jkl", 1, H2+1),
		msg(H2+2, &rnstypes.MsgAddRecord{Creator: A, Name: "gallery.jkl", Value: A, Data: "{}", Record: "wing"}),
		msg(H2+3, &rnstypes.MsgUpdate{Creator: A, Name: "gallery.jkl", Data: "{\"k\":1}"}),
		msg(H2+4, &rnstypes.MsgMakePrimary{Creator: A, Name: "gallery.jkl"}),
		msg(H2+5, &rnstypes.MsgDelRecord{Creator: A, Name: "wing.gallery.jkl"}),
		msg(H2+6, &rnstypes.MsgList{Creator: A, Name: "gallery.jkl", Price: sdk.NewInt64Coin("ujkl", 1)}),
		msg(H2+7, &rnstypes.MsgDelist{Creator: B, Name: "gallery.jkl"}),
		c16Reg(C, "gallery.jkl", 1, H2+8), c16Reg(A, "Gallery.jkl", 3, H2+9), c16Reg(B, "gallery.jkl", 1, 100+6*c16Bpy-1), c16Reg(B, "gallery.jkl", 1, 100+6*c16Bpy)})
	// open bids sit in the module's account: a registrant who cannot pay is not served out of them
	hs = append(hs, []c16Step{c16Reg(A, "auction.jkl", 1, 10),
		msg(11, &rnstypes.MsgBid{Creator: whale, Name: "auction.jkl", Bid: sdk.NewInt64Coin("ujkl", 900_000_000)}),
		msg(11, &rnstypes.MsgBid{Creator: B, Name: "auction.jkl", Bid: sdk.NewInt64Coin("ujkl", 30_000_000)}),
		c16Reg(poor, "bargain.jkl", 20, 12), c16Reg(poor, "bargain.jkl", 2, 12), c16Reg(poor, "bargain.jkl", 1, 12), c16Reg(poor, "q.jkl", 1, 13),
		msg(14, &rnstypes.MsgCancelBid{Creator: B, Name: "auction.jkl"}),
		c16Reg(poor, "bargain.jkl", 1, 15), c16Reg(B, "bargain.jkl", 1, 16)})
	// crafted records: Expires at the int64 boundary, Locked / Subdomains / Data that a renewal resets,
	// a record whose Value is the upper-case spelling (a different owner for the handler), stale primary names
	max := int64(math.MaxInt64)
	sub := []*rnstypes.Names{{Name: "sub", Tld: "jkl", Value: B, Data: "s"}}
	hs = append(hs, []c16Step{
		{Craft: &rnstypes.Names{Name: "far", Tld: "jkl", Value: A, Expires: max - c16Bpy, Data: "old", Locked: 55, Subdomains: sub}},
		c16Reg(A, "far.jkl", 2, 100), c16Reg(A, "far.jkl", 1, 100), c16Reg(A, "far.jkl", 1, 101),
		{Craft: &rnstypes.Names{Name: "edge", Tld: "jkl", Value: A, Expires: max - c16Bpy + 1, Data: "old"}},
		c16Reg(A, "edge.jkl", 1, 100),
		{Craft: &rnstypes.Names{Name: "loud", Tld: "jkl", Value: UA, Expires: 5000, Data: "old", Locked: 4000}},
		c16Reg(A, "loud.jkl", 1, 4999), c16Reg(A, "loud.jkl", 1, 5000),
		{Prim: &[3]string{B, "ghost", "jkl"}},
		c16Reg(B, "real.jkl", 1, 5001), c16Reg(B, "other.jkl", 1, 5002),
		{Prim: &[3]string{C, "real", "jkl"}},
		c16Reg(C, "mine.jkl", 1, 5003),
		{Op: &c16Op{Kind: "RegisterName", Creator: C, Name: "mine2.jkl", Data: "p", Years: 1, Primary: true, Height: 5003}},
		{Craft: &rnstypes.Names{Name: "neg", Tld: "ibc", Value: B, Expires: -5, Data: "old"}},
		c16Reg(A, "neg.ibc", 1, 0), c16Reg(B, "neg.ibc", 1, 0),
		// heights at the int64 boundary: the term must fit
		c16Reg(A, "late.jkl", 1, max-c16Bpy+1), c16Reg(A, "late.jkl", 1, max-c16Bpy), c16Reg(B, "late.jkl", 1, max-1), c16Reg(A, "late.jkl", 1, max-1),
	})
	return hs
}

// a random history: registrations by arbitrary accounts at non-decreasing heights
func c16Random(p *PRNG, n int) []c16Step {
	accts := []string{Acct(1).String(), Acct(2).String(), Acct(3).String(), Acct(4).String(), Acct(5).String()}
	letters := "abcdefghijklmnopqrstuvwxyz0123456789-_"
	var bases []string
	nb := 2 + p.Intn(4)
	for i := 0; i < nb; i++ {
		l := PickOne(p, []int{1, 2, 3, 4, 5, 6, 7, 12, 1, 2, 3, 4, 5})
		b := make([]byte, l)
		for j := range b {
			b[j] = letters[p.Intn(len(letters))]
		}
		bases = append(bases, string(b)+"."+PickOne(p, []string{"jkl", "ibc"}))
	}
	spell := func(nm string) string {
		switch p.Intn(8) {
		case 0:
			return strings.ToUpper(nm[:len(nm)-4]) + nm[len(nm)-4:]
		case 1: // mixed case
			b := []byte(nm[:len(nm)-4])
			for i := range b {
				if p.Bool() {
					b[i] = strings.ToUpper(string(b[i]))[0]
				}
			}
			return string(b) + nm[len(nm)-4:]
		case 2:
			if p.Chance(1, 3) {
				return nm[:len(nm)-4] + " " + nm[len(nm)-3:] // blank separator: one character shorter after normalisation
			}
		}
		return nm
	}
	var steps []c16Step
	h := int64(2 + p.Intn(1000))
	type reg struct {
		name string
		exp  int64
	}
	var regs []reg // approximate expiries, to aim heights at the boundaries
	for i := 0; i < n; i++ {
		// height
		switch p.Intn(10) {
		case 0, 1, 2:
		case 3, 4:
			h += int64(1 + p.Intn(20))
		case 5, 6, 7:
			if len(regs) > 0 {
				t := PickOne(p, regs).exp + int64(p.Intn(3)) - 1
				if t >= h {
					h = t
				}
			}
		case 8:
			h += c16Bpy*int64(1+p.Intn(3)) + int64(p.Intn(3)) - 1
		case 9:
			if h < 20_000_000 {
				h = 20_000_000
			}
		}
		who := PickOne(p, accts)
		if p.Chance(1, 2) {
			who = accts[p.Intn(2)]
		}
		if p.Chance(1, 6) {
			who = strings.ToUpper(who)
		}
		nm := PickOne(p, bases)
		var y int64
		switch k := p.Intn(20); {
		case k < 12:
			y = int64(1 + p.Intn(3))
		case k < 14:
			y = 100
		default:
			y = PickOne(p, []int64{-1, 0, 1 << 40, 1 << 62, c16WrapYears(10_000_000), math.MaxInt64 / c16Bpy, 5, 1, 1})
		}
		kind := "RegisterName"
		switch p.Intn(8) {
		case 0:
			kind = "Register"
		case 1:
			kind = "Keeper"
		}
		op := &c16Op{Kind: kind, Creator: who, Name: spell(nm), Data: PickOne(p, []string{"{}", "d1", ""}), Years: y, Primary: p.Chance(1, 3), Height: h}
		if p.Chance(1, 25) {
			st := c16Step{Craft: &rnstypes.Names{Name: strings.ToLower(nm[:len(nm)-4]), Tld: nm[len(nm)-3:], Value: PickOne(p, accts), Expires: h + int64(p.Intn(5)) - 2, Data: "crafted", Locked: h + 10,
				Subdomains: []*rnstypes.Names{{Name: "s", Tld: nm[len(nm)-3:], Value: who}}}}
			steps = append(steps, st)
			regs = append(regs, reg{nm, st.Craft.Expires})
		}
		if p.Chance(1, 30) {
			steps = append(steps, c16Step{Prim: &[3]string{PickOne(p, accts), PickOne(p, []string{"ghost", strings.ToLower(nm[:len(nm)-4])}), nm[len(nm)-3:]}})
		}
		if p.Chance(1, 7) { // an initialisation at this height, sometimes with its generated name (or a neighbour) paid for first
			if p.Chance(1, 2) {
				trap := rnstypes.MakeName(int(h)+p.Intn(5), h) + ".jkl"
				steps = append(steps, c16Step{Op: &c16Op{Kind: "RegisterName", Creator: PickOne(p, accts), Name: trap, Data: "{}", Years: 1, Height: h}})
			}
			ni := 1 + p.Intn(5)
			for j := 0; j < ni; j++ {
				steps = append(steps, c16Step{Op: &c16Op{Kind: "Init", Creator: accts[(p.Intn(5)+j)%5], Height: h}})
			}
		}
		steps = append(steps, c16Step{Op: op})
		if y >= 1 && y <= 100 {
			regs = append(regs, reg{nm, h + y*c16Bpy})
		}
		// every fifth registration is followed by one of the module's other messages about the same name, sent by
		// the registrant or by somebody else (own generator: the registrations drawn above stay what they were)
		c16OtherN++
		if c16OtherN%5 == 0 {
			q := NewPRNG(uint64(c16OtherN) * 7919)
			sender := who
			if q.Chance(1, 3) {
				sender = PickOne(q, accts)
			}
			lname := strings.ToLower(nm)
			var m sdk.Msg
			switch q.Intn(8) {
			case 0:
				m = &rnstypes.MsgList{Creator: sender, Name: lname, Price: sdk.NewInt64Coin("ujkl", 1+q.I64n(5_000_000))}
			case 1:
				m = &rnstypes.MsgDelist{Creator: sender, Name: spell(nm)}
			case 2:
				m = &rnstypes.MsgUpdate{Creator: sender, Name: lname, Data: "{}"}
			case 3:
				m = &rnstypes.MsgAddRecord{Creator: sender, Name: lname, Value: PickOne(q, accts), Data: "{}", Record: PickOne(q, []string{"www", "till"})}
			case 4:
				m = &rnstypes.MsgDelRecord{Creator: sender, Name: "www." + lname}
			case 5:
				m = &rnstypes.MsgBid{Creator: PickOne(q, accts), Name: lname, Bid: sdk.NewInt64Coin("ujkl", 1+q.I64n(3_000_000))}
			case 6:
				m = &rnstypes.MsgCancelBid{Creator: PickOne(q, accts), Name: lname}
			default:
				m = &rnstypes.MsgMakePrimary{Creator: sender, Name: lname}
			}
			steps = append(steps, c16Step{Msg: m, MsgAt: h})
			if q.Chance(1, 2) { // ... and the listing, if there is one, is withdrawn again
				steps = append(steps, c16Step{Msg: &rnstypes.MsgDelist{Creator: who, Name: lname}, MsgAt: h})
			}
		}
	}
	return steps
}

var c16OtherN int

func runC16(r *RunCtx) error {
	r.Sum.Rule = "function level: GetCostOfName on the (name, tld) GetNameAndTLD derives for lengths 0..12 x every TLD; history level: scripted histories (lapsed name re-registered by another / the same account at height 2e7, rejected year counts, heights Expires-1/Expires/Expires+1, funds one unit short, upper-case creator, int64 boundaries) then random histories of MsgRegisterName / MsgRegister / RegisterRNSName by 5 accounts over 2..5 names at non-decreasing heights on the assembled app; one evaluation = one function call or one registration step; non-trivial = distinct (kind, creator, name, years, name state, height, outcome) step that succeeded or addressed an existing record"
	setBech32()
	r.Group("fn", "From JK Require Import Model.RnsReg Corr.C16.", "c16_case", "c16_ok")
	r.Group("hist", "From JK Require Import Model.RnsReg Corr.C16.", "c16_case", "c16_ok")
	// ---- function level
	r.Case("fn", fmt.Sprintf("TldCount %s", cZ(int64(len(rnstypes.SupportedTLDs)))), map[string]interface{}{"supported": rnstypes.SupportedTLDs})
	r.Count("tldcount", true)
	tlds := append([]string{}, rnstypes.SupportedTLDs...)
	for _, extra := range []string{"ibc", "jkl", "com", "JKL", "jk", ""} {
		seen := false
		for _, t := range tlds {
			seen = seen || t == extra
		}
		if !seen {
			tlds = append(tlds, extra)
		}
	}
	for _, tld := range tlds {
		ct := c16Tld(tld)
		if ct != "" {
			r.Case("fn", fmt.Sprintf("TldFn %s %s %s", ct, cZ(rnstypes.TLDCost[tld]), cBool(rnstypes.IsReserved[tld])), map[string]interface{}{"tld": tld, "cost": rnstypes.TLDCost[tld], "reserved": rnstypes.IsReserved[tld]})
			r.Count("tld:"+tld, true)
			if c, err := rnskeeper.GetCostOfName("", tld); true {
				res := "None"
				if err == nil {
					res = "(Some " + cZ(c) + ")"
				}
				r.Case("fn", fmt.Sprintf("CostFn 0%%Z %s %s", ct, res), map[string]interface{}{"fn": "GetCostOfName", "name": "", "tld": tld})
				r.Count("cost0:"+tld, false)
			}
		}
		for n := 0; n <= 12; n++ {
			for _, up := range []bool{false, true} {
				nm := strings.Repeat("a", n)
				if up {
					nm = strings.ToUpper(nm)
				}
				full := nm + "." + tld
				c16NameCase(r, full)
				if ct != "" && up {
					c16NameCase(r, nm+" "+tld)
					c16NameCase(r, " "+nm+tld)
				}
				name, t, err := rnskeeper.GetNameAndTLD(strings.ToLower(nm) + "." + tld)
				name2, t2, err2 := rnstypes.GetNameAndTLD(strings.ToLower(nm) + "." + tld)
				if (err == nil) != (err2 == nil) || name != name2 || t != t2 {
					r.Finding("C16/parse/keeper-and-types-disagree", "keeper.GetNameAndTLD and types.GetNameAndTLD differ on "+full, map[string]string{"full": full})
				}
				r.Count(fmt.Sprintf("parse:%s", full), err == nil)
				if ct == "" || n == 0 {
					if err == nil {
						r.Finding("C16/parse/accepted-unsupported", "GetNameAndTLD accepted "+full, map[string]string{"full": full, "name": name, "tld": t})
					}
					continue
				}
				if err != nil || t != tld || len(name) != n {
					r.Finding("C16/parse/rejected-supported", "GetNameAndTLD did not split "+full, map[string]string{"full": full, "name": name, "tld": t})
					continue
				}
				c, cerr := rnskeeper.GetCostOfName(name, t)
				res := "None"
				if cerr == nil {
					res = "(Some " + cZ(c) + ")"
				}
				d := map[string]interface{}{"fn": "GetCostOfName", "full": full, "name": name, "tld": t, "cost": c, "listed": c16ListedPrice(n, tld)}
				if !up {
					r.Case("fn", fmt.Sprintf("CostFn %s %s %s", cZ(int64(n)), ct, res), d)
					r.Case("fn", fmt.Sprintf("PriceFn %s %s %s", cZ(int64(n)), ct, cZ(c)), d)
				}
				r.Hist("cost", fmt.Sprintf("%d/%s", n, tld))
				if cerr != nil || c != c16ListedPrice(n, tld) {
					r.Finding("C16/cost/price-list-mismatch", fmt.Sprintf("GetCostOfName(%d characters, .%s) = %d, listed price %d", n, tld, c, c16ListedPrice(n, tld)), d)
				}
			}
		}
	}
	// ---- history level
	runHist := func(label string, steps []c16Step, sample bool) error {
		w, err := c16NewWorld(c16DefaultFunds())
		if err != nil {
			return err
		}
		defer w.e.Close()
		h := &c16Hist{r: r, w: w, label: label, track: map[string]c16Track{}}
		h.run(steps)
		if sample && len(h.trace) > 0 {
			tr := h.trace
			if len(tr) > 3 {
				tr = tr[:3]
			}
			r.Sample(map[string]interface{}{"history": label, "first_steps": tr})
		}
		return nil
	}
	for i, hs := range c16Scripted() {
		if err := runHist(fmt.Sprintf("scripted-%d", i), hs, i < 2); err != nil {
			return err
		}
	}
	// thorough tier: every sequence of three registrations of one name by two accounts (one of them also in
	// upper case) with each step placed at the same height, or at Expires-1, Expires, Expires+1 of the
	// record as it then stands
	if r.Thorough() {
		whos := []string{Acct(1).String(), Acct(2).String(), strings.ToUpper(Acct(1).String())}
		nopt := len(whos) * 4
		total := nopt * nopt * nopt
		for code := 0; code < total; code++ {
			w, err := c16NewWorld(c16DefaultFunds())
			if err != nil {
				return err
			}
			h := &c16Hist{r: r, w: w, label: fmt.Sprintf("exhaustive-%d", code), track: map[string]c16Track{}}
			height := int64(100)
			c := code
			for k := 0; k < 3; k++ {
				o := c % nopt
				c /= nopt
				who, hk := whos[o/4], o%4
				if hk > 0 {
					cur := w.observe()
					if n := cur.name("tri.jkl"); n != nil && n.Expires+int64(hk)-2 >= height {
						height = n.Expires + int64(hk) - 2
					}
				}
				h.step(&c16Op{Kind: "RegisterName", Creator: who, Name: "tri.jkl", Data: "{}", Years: int64(1 + k%2), Height: height})
			}
			w.e.Close()
		}
	}
	nh := r.Scale(8, 120)
	for i := 0; i < nh; i++ {
		p := r.Rng.Fork()
		if err := runHist(fmt.Sprintf("random-%d", i), c16Random(p, r.Scale(20, 40)), i == 0); err != nil {
			return err
		}
	}
	if err := c16BlockRoutines(r); err != nil {
		return err
	}
	return c16RestartTwin(r)
}
