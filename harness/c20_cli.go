package main

// C20, client side: the real `tx filetree …` commands are executed (--generate-only) and the addresses they put into
// their messages are tied to the model: post-file must send (MerklePath(parent), H(child)) of the plain path it was
// given (Helper case), delete-file / change-owner / reset-editors / reset-viewers must send MerklePath(path)
// (MPath case).  The one query post-file makes (the caller's public key) is answered by the app's filetree keeper.

import (
	"context"
	"encoding/hex"
	"fmt"
	"strings"

	"github.com/cosmos/cosmos-sdk/client"
	"github.com/cosmos/cosmos-sdk/crypto/keyring"
	clitestutil "github.com/cosmos/cosmos-sdk/testutil/cli"
	sdk "github.com/cosmos/cosmos-sdk/types"
	eciesgo "github.com/ecies/go/v2"
	"github.com/spf13/cobra"
	abci "github.com/tendermint/tendermint/abci/types"
	tmbytes "github.com/tendermint/tendermint/libs/bytes"
	rpcclient "github.com/tendermint/tendermint/rpc/client"
	rpcclientmock "github.com/tendermint/tendermint/rpc/client/mock"
	coretypes "github.com/tendermint/tendermint/rpc/core/types"

	japp "github.com/jackalLabs/canine-chain/v4/app"
	ftcli "github.com/jackalLabs/canine-chain/v4/x/filetree/client/cli"
	fttypes "github.com/jackalLabs/canine-chain/v4/x/filetree/types"
)

type c20Node struct {
	rpcclientmock.Client
	e    *Env
	seen *[]fttypes.QueryFile // the File queries the commands sent
}

func (n c20Node) ABCIQueryWithOptions(_ context.Context, path string, data tmbytes.HexBytes, _ rpcclient.ABCIQueryOptions) (*coretypes.ResultABCIQuery, error) {
	if path == "/canine_chain.filetree.Query/File" {
		var req fttypes.QueryFile
		if err := req.Unmarshal(data); err != nil {
			return nil, err
		}
		if n.seen != nil {
			*n.seen = append(*n.seen, req)
		}
		res, err := n.e.App.FileTreeKeeper.File(sdk.WrapSDKContext(n.e.Ctx), &req)
		if err != nil {
			return nil, err
		}
		bz, err := res.Marshal()
		if err != nil {
			return nil, err
		}
		return &coretypes.ResultABCIQuery{Response: abci.ResponseQuery{Value: bz}}, nil
	}
	if path != "/canine_chain.filetree.Query/PubKey" {
		return nil, fmt.Errorf("unexpected query %s", path)
	}
	var req fttypes.QueryPubKey
	if err := req.Unmarshal(data); err != nil {
		return nil, err
	}
	res, err := n.e.App.FileTreeKeeper.PubKey(sdk.WrapSDKContext(n.e.Ctx), &req)
	if err != nil {
		return nil, err
	}
	bz, err := res.Marshal()
	if err != nil {
		return nil, err
	}
	return &coretypes.ResultABCIQuery{Response: abci.ResponseQuery{Value: bz}}, nil
}

func c20CLI(r *RunCtx) error {
	e, err := NewEnv()
	if err != nil {
		return err
	}
	defer e.Close()
	p := r.Rng
	enc := japp.MakeEncodingConfig()
	alice := Acct(1).String()
	key, err := eciesgo.GenerateKey()
	if err != nil {
		return err
	}
	e.App.FileTreeKeeper.SetPubkey(e.Ctx, fttypes.Pubkey{Address: alice, Key: key.PublicKey.Hex(false)})
	var queried []fttypes.QueryFile
	cctx := client.Context{}.WithCodec(enc.Marshaler).WithInterfaceRegistry(enc.InterfaceRegistry).WithTxConfig(enc.TxConfig).
		WithLegacyAmino(enc.Amino).WithKeyring(keyring.NewInMemory()).WithClient(c20Node{e: e, seen: &queried}).WithChainID("verif")
	run := func(cmd *cobra.Command, args ...string) (sdk.Msg, error) {
		out, err := clitestutil.ExecTestCLICmd(cctx, cmd, append(args, "--from="+alice, "--generate-only"))
		if err != nil {
			return nil, err
		}
		tx, err := enc.TxConfig.TxJSONDecoder()(out.Bytes())
		if err != nil {
			return nil, err
		}
		if len(tx.GetMsgs()) != 1 {
			return nil, fmt.Errorf("%d messages", len(tx.GetMsgs()))
		}
		return tx.GetMsgs()[0], nil
	}
	// names people really use: blanks and joiners that are not "printable" in Go's sense, control characters pasted
	// along, next to ordinary ones
	special := []string{"\u6771\u4eac\u3000\u5199\u771f.jpg", "\u6771\u4eac\u5199\u771f.jpg", "a\u00a0b.txt", "ab.txt", "tab\there", "tabhere",
		"\U0001F468\u200d\U0001F469\u200d\U0001F467.png", "\u0645\u06cc\u200c\u062e\u0648\u0627\u0647\u0645.txt", "line\rfeed", "bom\ufeffname", "soft\u00adhyphen",
		"\u00dcn\u00efc\u00f6d\u00e9", "\u65e5\u672c\u8a9e", "100%", "x y", "e\u0301.txt", "cafe\u0301", "\u212b", "\u2126", "\u1112\u1161\u11ab", "my%20file.txt", "100%25.txt", "%41", "a%2Fb", "docs%2F2024", "\u202ertl.txt", "2024\\report.txt", "back\\slash"}
	n := r.Scale(60, 400)
	for i := 0; i < n; i++ {
		k := 2 + p.Intn(4)
		segs := make([]string, k)
		for j := range segs {
			switch p.Intn(3) {
			case 0:
				segs[j] = PickOne(p, special)
			default:
				segs[j] = genSegment(p)
			}
			segs[j] = strings.ReplaceAll(strings.ReplaceAll(segs[j], "/", "_"), "\x00", "0") // one argv string cannot carry NUL
			if !strings.HasPrefix(segs[j], "-") && segs[j] != "" && strings.ToValidUTF8(segs[j], "") == segs[j] {
				continue
			}
			segs[j] = fmt.Sprintf("seg%d", j) // (a leading '-' would be read as a flag; invalid UTF-8 does not survive the JSON the command prints)
		}
		segs[0] = "s"
		path := strings.Join(segs, "/")
		if p.Chance(1, 5) {
			path += "/"
		}
		if i%5 == 2 {
			path = "/" + path // an empty first segment, as in an absolute path
		}
		ref := func(q string) string {
			t := ""
			for _, chunk := range strings.Split(strings.TrimSuffix(q, "/"), "/") {
				t = hexsha(t + hexsha(chunk))
			}
			return t
		}
		d := map[string]interface{}{"path": path, "path_hex": hex.EncodeToString([]byte(path))}
		m, err := run(ftcli.CmdPostFile(), path, alice, "contents", "aes key", "", "")
		if err != nil {
			return fmt.Errorf("C20: post-file %q: %v", path, err)
		}
		pm, ok := m.(*fttypes.MsgPostFile)
		if !ok {
			return fmt.Errorf("C20: post-file built a %T", m)
		}
		d["cmd"], d["hash_parent"], d["hash_child"] = "post-file", pm.HashParent, pm.HashChild
		r.Case("fn", fmt.Sprintf("Helper %s %s %s", cStr(path), cStr(pm.HashParent), cStr(pm.HashChild)), d)
		r.Count("cli-post:"+path, true)
		r.Hist("cli", "post-file")
		if fttypes.AddToMerkle(pm.HashParent, pm.HashChild) != ref(path) {
			r.Finding("C20/client-split", "the post-file command sends a parent address and child hash that do not combine to the address of the plain path it was given", d)
		}
		// the query a client looks an entry up with by its plain path: it asks the node for the path's address
		{
			queried = queried[:0]
			_, qerr := clitestutil.ExecTestCLICmd(cctx, ftcli.CmdShowFileFromPath(), []string{path, alice})
			if len(queried) == 1 {
				d3 := map[string]interface{}{"cmd": "show-file-from-path", "path": path, "path_hex": hex.EncodeToString([]byte(path)), "address": queried[0].Address, "answer": fmt.Sprint(qerr)}
				r.Case("fn", fmt.Sprintf("MPath %s %s", cStr(path), cStr(queried[0].Address)), d3)
				r.Count("cli-show:"+path, true)
				r.Hist("cli", "show-file-from-path")
				if queried[0].Address != ref(path) {
					r.Finding("C20/client-address", "the show-file-from-path query asks for something else than the address of the plain path it was given", d3)
				}
			} else {
				r.Hist("cli", fmt.Sprintf("show-file-from-path sent %d queries", len(queried)))
			}
		}
		for name, cmd := range map[string]func() (sdk.Msg, error){
			"delete-file":   func() (sdk.Msg, error) { return run(ftcli.CmdDeleteFile(), path, alice) },
			"change-owner":  func() (sdk.Msg, error) { return run(ftcli.CmdChangeOwner(), path, alice, Acct(2).String()) },
			"reset-editors": func() (sdk.Msg, error) { return run(ftcli.CmdResetEditors(), path, alice) },
			"reset-viewers": func() (sdk.Msg, error) { return run(ftcli.CmdResetViewers(), path, alice) },
		} {
			if i%4 != 0 && name != "delete-file" {
				continue
			}
			m, err := cmd()
			if err != nil {
				return fmt.Errorf("C20: %s %q: %v", name, path, err)
			}
			addr := ""
			switch x := m.(type) {
			case *fttypes.MsgDeleteFile:
				addr = x.HashPath
			case *fttypes.MsgChangeOwner:
				addr = x.Address
			case *fttypes.MsgResetEditors:
				addr = x.Address
			case *fttypes.MsgResetViewers:
				addr = x.Address
			default:
				return fmt.Errorf("C20: %s built a %T", name, m)
			}
			d2 := map[string]interface{}{"cmd": name, "path": path, "path_hex": hex.EncodeToString([]byte(path)), "address": addr}
			r.Case("fn", fmt.Sprintf("MPath %s %s", cStr(path), cStr(addr)), d2)
			r.Count("cli-"+name+":"+path, true)
			r.Hist("cli", name)
			if addr != ref(path) {
				r.Finding("C20/client-address", "the "+name+" command addresses something else than the plain path it was given", d2)
			}
		}
	}
	return nil
}
