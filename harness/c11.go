package main

// C11 — every message is authenticated as its creator and touches only its own resources.
//
// Part A (this file): dynamic twin of the translator's message table.  Every sdk.Msg
// implementation registered under /canine_chain. in the running app's InterfaceRegistry is
// instantiated by reflection with a distinct valid address in every string field; GetSigners
// must be exactly [address of the Creator field], the MsgServiceRouter must have a handler,
// and what was seen is emitted as correspondence cases compared with Gen/MsgTable.v
// (set equality of type URLs both ways).  Thorough tier: per message type, transactions
// through DeliverTx signed by a key that is not the creator must be rejected by the ante
// handler, and the correctly signed control must get past signature verification.
//
// Part B (c11_frames.go): own-resource frames, step-wise on the real app.

import (
	"bytes"
	"encoding/json"
	"fmt"
	"reflect"
	"sort"
	"strings"

	"github.com/cosmos/cosmos-sdk/client"
	codectypes "github.com/cosmos/cosmos-sdk/codec/types"
	"github.com/cosmos/cosmos-sdk/crypto/keys/secp256k1"
	cryptotypes "github.com/cosmos/cosmos-sdk/crypto/types"
	sdk "github.com/cosmos/cosmos-sdk/types"
	"github.com/cosmos/cosmos-sdk/types/bech32"
	"github.com/cosmos/cosmos-sdk/types/tx/signing"
	"github.com/cosmos/cosmos-sdk/x/auth/legacy/legacytx"
	authsign "github.com/cosmos/cosmos-sdk/x/auth/signing"
	abci "github.com/tendermint/tendermint/abci/types"

	japp "github.com/jackalLabs/canine-chain/v4/app"
)

func init() { runners["C11"] = runC11 }

func c11Str(s string) string { return "\"" + strings.ReplaceAll(s, "\"", "\"\"") + "\"%string" }

func c11StrList(xs []string) string {
	if len(xs) == 0 {
		return "(@nil string)"
	}
	ys := make([]string, len(xs))
	for i, x := range xs {
		ys[i] = c11Str(x)
	}
	return cList(ys)
}

func c11OptBool(p *bool) string {
	if p == nil {
		return "None"
	}
	return "(Some " + cBool(*p) + ")"
}

const c11Prefix = "/canine_chain."

func c11Registry(e *Env) (codectypes.InterfaceRegistry, error) {
	type hasReg interface {
		InterfaceRegistry() codectypes.InterfaceRegistry
	}
	hr, ok := e.App.AppCodec().(hasReg)
	if !ok {
		return nil, fmt.Errorf("app codec does not expose its interface registry")
	}
	return hr.InterfaceRegistry(), nil
}

// c11Fill sets every settable field of the message: a distinct address in every string
// field (two in every []string field), small positive integers, random bytes.  It returns
// address -> field name.  `firstAcct` shifts the accounts so that trials differ.
func c11Fill(msg sdk.Msg, rng *PRNG, firstAcct int, upperCreator bool) map[string]string {
	owner := map[string]string{}
	v := reflect.ValueOf(msg).Elem()
	t := v.Type()
	next := firstAcct
	perm := make([]int, t.NumField())
	for i := range perm {
		perm[i] = i
	}
	// the account numbering does not follow the field order
	for i := len(perm) - 1; i > 0; i-- {
		j := rng.Intn(i + 1)
		perm[i], perm[j] = perm[j], perm[i]
	}
	for _, i := range perm {
		f := v.Field(i)
		if !f.CanSet() {
			continue
		}
		name := t.Field(i).Name
		switch f.Kind() {
		case reflect.String:
			a := Acct(next)
			next++
			owner[a.String()] = name
			f.SetString(Spell(a, upperCreator && name == "Creator"))
		case reflect.Slice:
			switch f.Type().Elem().Kind() {
			case reflect.String:
				a, b := Acct(next), Acct(next+1)
				next += 2
				owner[a.String()] = name + "[0]"
				owner[b.String()] = name + "[1]"
				f.Set(reflect.ValueOf([]string{a.String(), b.String()}))
			case reflect.Uint8:
				f.SetBytes(rng.Bytes(32))
			}
		case reflect.Int64, reflect.Int32, reflect.Int:
			f.SetInt(int64(1 + rng.Intn(1000)))
		case reflect.Uint64, reflect.Uint32:
			f.SetUint(uint64(1 + rng.Intn(1000)))
		case reflect.Bool:
			f.SetBool(rng.Bool())
		}
	}
	return owner
}

// c11Validish searches values for the non-address fields under which ValidateBasic accepts the
// message (needed to get a transaction past the ante handler's ValidateBasic decorator and to
// observe what ValidateBasic does with an unparsable Creator).  Creator is left alone.
func c11Validish(msg sdk.Msg, rng *PRNG) bool {
	if msg.ValidateBasic() == nil {
		return true
	}
	v := reflect.ValueOf(msg).Elem()
	t := v.Type()
	cands := []string{"", "{}", "verif.jkl", "verif", "https://provider.example.com", "1000000ujkl", "ujkl",
		strings.Repeat("ab", 32), strings.Repeat("ab", 64), "100000000", Acct(900).String(), "key", "[]", "0", "sha256"}
	ints := []int64{0, 1, 2, 3, 30, 1000, 5_000_000, 1_000_000_000, 10_000_000_000}
	for try := 0; try < 40000; try++ {
		for i := 0; i < t.NumField(); i++ {
			f := v.Field(i)
			if !f.CanSet() || t.Field(i).Name == "Creator" {
				continue
			}
			switch f.Kind() {
			case reflect.String:
				f.SetString(PickOne(rng, cands))
			case reflect.Int64, reflect.Int32, reflect.Int:
				f.SetInt(PickOne(rng, ints))
			case reflect.Slice:
				if f.Type().Elem().Kind() == reflect.String {
					f.Set(reflect.ValueOf([]string{Acct(901).String()}))
				}
			}
		}
		if msg.ValidateBasic() == nil {
			return true
		}
	}
	return false
}

func c11Signers(msg sdk.Msg) (out []sdk.AccAddress, panicked string) {
	panicked = Guard(func() { out = msg.GetSigners() })
	return
}

func c11Clone(reg codectypes.InterfaceRegistry, url string) (sdk.Msg, error) {
	pm, err := reg.Resolve(url)
	if err != nil {
		return nil, err
	}
	m, ok := pm.(sdk.Msg)
	if !ok {
		return nil, fmt.Errorf("%s is registered as sdk.Msg but does not implement it", url)
	}
	return m, nil
}

func runC11(r *RunCtx) error {
	r.Sum.Rule = "A: every /canine_chain.* sdk.Msg implementation of the running app's InterfaceRegistry, instantiated by reflection with distinct accounts in every string field (several account assignments and Creator spellings per type); one evaluation = one (type, assignment); non-trivial = distinct (type, assignment, spelling) whose GetSigners returned. B: per frame family (oracle feeds, rns primary pointers, storage files, wasm post-file, notification inboxes / block lists) histories on the assembled app in which every account, in both spellings, replays every owner-only message against every resource; one evaluation = one executed message; non-trivial = distinct (family, signer-is-owner, outcome, resource shape) with the resource present. Thorough: per message type signed transactions through DeliverTx with a wrong key."
	r.Group("table", "From JK Require Import Corr.C11.", "c11_case", "c11_ok")
	// the provider-record frames (Props/C11Provider.v over Model/Collateral.v) are part of this property
	if err := c15Histories(r, 0, r.Scale(4, 40), false); err != nil {
		return err
	}
	if r.Sum.CaseFiles == nil { // a run that stops before any case must still write [] (bin/check takes len())
		r.Sum.CaseFiles = []string{}
		r.Sum.Cases = []CaseMeta{}
	}
	var e *Env
	var err error
	if pn := Guard(func() { e, err = NewEnv() }); pn != "" {
		// e.g. a request type of a service descriptor that is not registered as sdk.Msg: the
		// message service router refuses to register the service and the node cannot start
		r.Finding("C11/route/app-does-not-assemble", "the application panics while registering its message services: "+pn, map[string]interface{}{"panic": pn})
		return nil
	}
	if err != nil {
		return err
	}
	defer e.Close()
	reg, err := c11Registry(e)
	if err != nil {
		return err
	}
	urls := []string{}
	for _, u := range reg.ListImplementations(sdk.MsgInterfaceProtoName) {
		if strings.HasPrefix(u, c11Prefix) {
			urls = append(urls, u)
		}
	}
	sort.Strings(urls)
	if len(urls) == 0 {
		return fmt.Errorf("no /canine_chain. message registered in the app's interface registry")
	}
	r.Case("table", "MsgSet "+c11StrList(urls), map[string]interface{}{"kind": "registry-urls", "urls": urls})
	trials := r.Scale(6, 60)
	shortCreatorAccepted := []string{}
	for _, url := range urls {
		var firstFields []string
		firstRoutable := false
		var firstVB *bool
		for k := 0; k < trials; k++ {
			msg, err := c11Clone(reg, url)
			if err != nil {
				return err
			}
			up := k%3 == 2
			owner := c11Fill(msg, r.Rng, 100+r.Rng.Intn(500), up)
			desc := map[string]interface{}{"type_url": url, "msg": fmt.Sprintf("%+v", msg), "upper_case_creator": up}
			cf := reflect.ValueOf(msg).Elem().FieldByName("Creator")
			signers, pn := c11Signers(msg)
			fields := []string{}
			for _, s := range signers {
				if n, ok := owner[s.String()]; ok {
					fields = append(fields, n)
				} else {
					fields = append(fields, "?")
				}
			}
			desc["signer_fields"] = fields
			r.Count(fmt.Sprintf("A:%s:%d:%v", url, k, up), pn == "")
			r.Hist("module", strings.Split(strings.TrimPrefix(url, c11Prefix), ".")[0])
			// ---- monitor: exactly one signer, the account named in Creator
			if pn != "" {
				r.Finding("C11/getsigners/panics-on-valid-addresses", url+": GetSigners panics although every string field holds a valid address: "+pn, desc)
			} else if !cf.IsValid() || cf.Kind() != reflect.String {
				r.Finding("C11/getsigners/no-creator-field", url+": the message has no string field Creator", desc)
			} else {
				creator, perr := sdk.AccAddressFromBech32(cf.String())
				if perr != nil {
					return fmt.Errorf("generated creator does not parse: %v", perr)
				}
				if len(signers) != 1 || !signers[0].Equals(creator) {
					r.Finding("C11/getsigners/not-exactly-creator", fmt.Sprintf("%s: GetSigners returns the addresses of fields %v, required exactly [Creator]", url, fields), desc)
				}
			}
			// ---- monitor: routable
			routable := e.App.MsgServiceRouter().Handler(msg) != nil
			desc["routable"] = routable
			if !routable {
				r.Finding("C11/route/no-handler", url+": registered as a transaction message but the message service router has no handler for it", desc)
			}
			// ---- what ValidateBasic does with an unparsable creator
			var vb *bool
			if cf.IsValid() && cf.Kind() == reflect.String && c11Validish(msg, r.Rng) {
				good := cf.String()
				for _, bad := range []string{"not-an-address", "", "jkl1qqqq"} {
					cf.SetString(bad)
					verr := msg.ValidateBasic()
					rej := verr != nil
					if vb == nil || !rej {
						vb = &rej
					}
					if !rej {
						sg2, pn2 := c11Signers(msg)
						d2 := map[string]interface{}{"type_url": url, "msg": fmt.Sprintf("%+v", msg)}
						if pn2 != "" {
							r.Finding("C11/getsigners/undefined-after-validatebasic", url+": ValidateBasic accepts a message whose Creator names no account; its signer is undefined (GetSigners panics)", d2)
						} else if len(sg2) == 0 {
							r.Finding("C11/getsigners/accepted-message-needs-no-creator-signature", url+": ValidateBasic accepts a message whose Creator names no account and GetSigners requires no signature for it", d2)
						}
					}
				}
				if k == 0 {
					// observation (not a finding): a well-formed bech32 string of the wrong length passes the
					// ValidateBasic of the messages that only decode and compare the prefix; GetSigners then
					// panics inside the ante handler, baseapp recovers and the transaction is rejected
					if short, berr := bech32.ConvertAndEncode(japp.Bech32PrefixAccAddr, []byte{1, 2, 3, 4, 5}); berr == nil {
						cf.SetString(short)
						acc := msg.ValidateBasic() == nil
						r.Hist("validatebasic_accepts_5_byte_creator", fmt.Sprint(acc))
						if acc {
							shortCreatorAccepted = append(shortCreatorAccepted, strings.TrimPrefix(url, c11Prefix))
							// ... and that rejection is all that stands between such a message and execution: if GetSigners
							// returns (instead of panicking) it must still require a signature for the creator
							if sg, pn2 := c11Signers(msg); pn2 == "" && (len(sg) != 1 || !bytes.Equal(sg[0], []byte{1, 2, 3, 4, 5})) {
								r.Finding("C11/getsigners/accepted-message-needs-no-creator-signature", fmt.Sprintf("%s: ValidateBasic accepts creator %s and GetSigners returns %d signers without it: in a transaction signed by anybody else this message is executed although the account it names as creator signed nothing", url, short, len(sg)),
									map[string]interface{}{"type_url": url, "msg": fmt.Sprintf("%+v", msg), "signers": len(sg)})
							}
						}
					}
				}
				cf.SetString(good)
			}
			desc["validate_rejects_bad_creator"] = vb
			if k == 0 {
				firstFields, firstRoutable, firstVB = fields, routable, vb
				if len(r.Sum.Samples) < 2 {
					r.Sample(desc)
				}
			}
			if k == 0 {
				// the amino name the running app's GetSignBytes carries for this type (compared with the table's m_amino)
				name := "None"
				if lm, ok := msg.(legacytx.LegacyMsg); ok {
					var doc map[string]json.RawMessage
					var sb []byte
					if pn := Guard(func() { sb = lm.GetSignBytes() }); pn == "" && json.Unmarshal(sb, &doc) == nil && len(doc) == 2 {
						var nm string
						if _, hasV := doc["value"]; hasV && json.Unmarshal(doc["type"], &nm) == nil && nm != "" {
							name = "(Some " + c11Str(nm) + ")"
						}
					}
				}
				r.Case("table", fmt.Sprintf("MsgAmino %s %s", c11Str(url), name), map[string]interface{}{"kind": "amino name in GetSignBytes", "type_url": url, "name": name})
				r.Hist("amino_sign_bytes", map[bool]string{true: "bare field object", false: "named"}[name == "None"])
			}
			if k == 0 || !reflect.DeepEqual(fields, firstFields) || routable != firstRoutable || !reflect.DeepEqual(vb, firstVB) {
				r.Case("table", fmt.Sprintf("MsgObs %s %s %s %s", c11Str(url), c11StrList(fields), cBool(routable), c11OptBool(vb)), desc)
			}
		}
	}
	if len(shortCreatorAccepted) > 0 {
		r.Sum.Notes = append(r.Sum.Notes, fmt.Sprintf("observation: ValidateBasic of %d message types accepts a creator that is valid bech32 with the jkl prefix but 5 bytes long (GetSigners panics on it; the transaction is rejected by baseapp's panic recovery, nobody is impersonated): %s", len(shortCreatorAccepted), strings.Join(shortCreatorAccepted, " ")))
	}
	if err := c11SignBytes(r, reg, urls); err != nil {
		return err
	}
	if err := c11Frames(r); err != nil {
		return err
	}
	if r.Thorough() {
		if err := c11WrongSigner(r, reg, urls); err != nil {
			return err
		}
	}
	return nil
}

// ---------------------------------------------------------------- signed transactions

func c11BuildTx(txCfg client.TxConfig, msg sdk.Msg, claimPub cryptotypes.PubKey, signer cryptotypes.PrivKey, accNum, seq uint64) ([]byte, error) {
	mode := txCfg.SignModeHandler().DefaultMode()
	sig := signing.SignatureV2{PubKey: claimPub, Data: &signing.SingleSignatureData{SignMode: mode}, Sequence: seq}
	b := txCfg.NewTxBuilder()
	if err := b.SetMsgs(msg); err != nil {
		return nil, err
	}
	if err := b.SetSignatures(sig); err != nil {
		return nil, err
	}
	b.SetFeeAmount(sdk.Coins{})
	b.SetGasLimit(5_000_000)
	sb, err := txCfg.SignModeHandler().GetSignBytes(mode, authsign.SignerData{ChainID: "verif", AccountNumber: accNum, Sequence: seq}, b.GetTx())
	if err != nil {
		return nil, err
	}
	raw, err := signer.Sign(sb)
	if err != nil {
		return nil, err
	}
	sig.Data.(*signing.SingleSignatureData).Signature = raw
	if err := b.SetSignatures(sig); err != nil {
		return nil, err
	}
	return txCfg.TxEncoder()(b.GetTx())
}

// c11WrongSigner: per message type, on a fresh app: the creator is the account of key A.
//
//	control : claimed key A, signed by A         -> must get past signature verification
//	wrong-1 : claimed key B, signed by B         -> rejected (key does not belong to the signer)
//	wrong-2 : claimed key A, signed by B         -> rejected (signature does not verify)
//
// After each rejected transaction the creator's sequence number is unchanged.
func c11WrongSigner(r *RunCtx, reg codectypes.InterfaceRegistry, urls []string) error {
	txCfg := japp.MakeEncodingConfig().TxConfig
	for _, url := range urls {
		e, err := NewEnv()
		if err != nil {
			return err
		}
		privA := secp256k1.GenPrivKeyFromSecret([]byte("c11-creator-" + url))
		privB := secp256k1.GenPrivKeyFromSecret([]byte("c11-stranger-" + url))
		addrA, addrB := sdk.AccAddress(privA.PubKey().Address()), sdk.AccAddress(privB.PubKey().Address())
		for _, a := range []sdk.AccAddress{addrA, addrB} {
			e.App.AccountKeeper.SetAccount(e.Ctx, e.App.AccountKeeper.NewAccountWithAddress(e.Ctx, a))
			if err := e.Fund(a, "ujkl", 10_000_000_000); err != nil {
				return err
			}
		}
		accA := e.App.AccountKeeper.GetAccount(e.Ctx, addrA)
		accB := e.App.AccountKeeper.GetAccount(e.Ctx, addrB)
		msg, err := c11Clone(reg, url)
		if err != nil {
			return err
		}
		c11Fill(msg, r.Rng, 300, false)
		cf := reflect.ValueOf(msg).Elem().FieldByName("Creator")
		if !cf.IsValid() || cf.Kind() != reflect.String {
			e.Close()
			continue // already reported by part A
		}
		cf.SetString(addrA.String())
		valid := c11Validish(msg, r.Rng)
		r.Hist("signed_tx_validatebasic_passes", fmt.Sprint(valid))
		desc := map[string]interface{}{"type_url": url, "msg": fmt.Sprintf("%+v", msg), "creator": addrA.String(), "stranger": addrB.String()}
		deliver := func(claim cryptotypes.PubKey, by cryptotypes.PrivKey, accNum, seq uint64) (abci.ResponseDeliverTx, error) {
			bz, err := c11BuildTx(txCfg, msg, claim, by, accNum, seq)
			if err != nil {
				return abci.ResponseDeliverTx{}, err
			}
			return e.App.DeliverTx(abci.RequestDeliverTx{Tx: bz}), nil
		}
		seqA := func() uint64 { return e.App.AccountKeeper.GetAccount(e.Ctx, addrA).GetSequence() }
		// wrong-1
		res, err := deliver(privB.PubKey(), privB, accB.GetAccountNumber(), accB.GetSequence())
		if err != nil {
			return err
		}
		r.Count("tx:w1:"+url, valid)
		r.Hist("wrong_signer_codes", fmt.Sprintf("%s/%d", res.Codespace, res.Code))
		if res.Code == 0 || seqA() != accA.GetSequence() {
			r.Finding("C11/signed-tx/stranger-key-accepted", url+": a transaction signed with a key that is not the creator's was accepted", desc)
		}
		// control
		res, err = deliver(privA.PubKey(), privA, accA.GetAccountNumber(), accA.GetSequence())
		if err != nil {
			return err
		}
		r.Count("tx:ok:"+url, valid)
		r.Hist("control_codes", fmt.Sprintf("%s/%d", res.Codespace, res.Code))
		pastAnte := seqA() == accA.GetSequence()+1 // IncrementSequenceDecorator ran: signature verification passed
		if valid && !pastAnte {
			desc["control_log"] = res.Log
			r.Finding("C11/signed-tx/creator-key-rejected", url+": the transaction signed by the creator's own key did not pass the ante handler", desc)
		}
		// wrong-2 (the creator's key is now on record)
		before := seqA()
		res, err = deliver(privA.PubKey(), privB, accA.GetAccountNumber(), before)
		if err != nil {
			return err
		}
		r.Count("tx:w2:"+url, valid)
		r.Hist("forged_signature_codes", fmt.Sprintf("%s/%d", res.Codespace, res.Code))
		if res.Code == 0 || seqA() != before {
			r.Finding("C11/signed-tx/forged-signature-accepted", url+": a transaction naming the creator's key but signed by another key was accepted", desc)
		}
		// a creator that passes ValidateBasic but names no account (5-byte bech32, see part A)
		if short, berr := bech32.ConvertAndEncode(japp.Bech32PrefixAccAddr, []byte{1, 2, 3, 4, 5}); berr == nil {
			cf.SetString(short)
			if msg.ValidateBasic() == nil {
				var res abci.ResponseDeliverTx
				var derr error
				pn := Guard(func() { res, derr = deliver(privB.PubKey(), privB, accB.GetAccountNumber(), accB.GetSequence()) })
				r.Count("tx:short:"+url, true)
				switch {
				case pn != "":
					r.Hist("short_creator_codes", "panic-while-building-or-delivering")
				case derr != nil:
					r.Hist("short_creator_codes", "cannot-build")
				default:
					r.Hist("short_creator_codes", fmt.Sprintf("%s/%d", res.Codespace, res.Code))
					if res.Code == 0 {
						desc["short_creator"] = short
						r.Finding("C11/signed-tx/unnamed-creator-accepted", url+": a transaction whose creator names no account was accepted", desc)
					}
				}
			}
			cf.SetString(addrA.String())
		}
		e.Close()
	}
	return nil
}
