package main

// C03, restart twin: "each prover that met its obligation is counted exactly once".  A restart from the exported
// genesis carries the files with their prover lists but (the open C19 finding) not the proof records.  Whatever the
// provers send afterwards — a holder listed before the restart proving again, a newcomer joining — the next reward
// block counts each (prover, file) pair at most once: no file lists a key twice, and two provers of one file that are
// both paid are paid the same (within one unit).  Monitors only.

import (
	"fmt"

	sdk "github.com/cosmos/cosmos-sdk/types"
	storagetypes "github.com/jackalLabs/canine-chain/v4/x/storage/types"
)

func c03RestartTwin(r *RunCtx) error {
	for variant := 0; variant < 2; variant++ {
		e, err := NewEnv()
		if err != nil {
			return err
		}
		owner, alice, carol := Acct(1), Acct(11), Acct(12)
		_ = e.Fund(owner, "ujkl", 50_000_000_000)
		trace := []interface{}{}
		run := func(h int64, what string, m sdk.Msg) string {
			e.At(h, T0.Add(timeOf(h)))
			res := e.Run(m)
			trace = append(trace, map[string]interface{}{"height": h, "msg": what, "out": res.Out, "err": res.Err})
			return res.Out
		}
		if run(80, "BuyStorage", &storagetypes.MsgBuyStorage{Creator: owner.String(), ForAddress: owner.String(), DurationDays: 30, Bytes: 5_000_000_000_000, PaymentDenom: "ujkl"}) != OutOk {
			e.Close()
			return fmt.Errorf("C03 restart twin: BuyStorage failed")
		}
		data := []byte(fmt.Sprintf("c03-restart-twin-%d", variant))
		root, item, pj := c05OneChunkFile(data)
		if run(90, "PostFile", &storagetypes.MsgPostFile{Creator: owner.String(), Merkle: root, FileSize: int64(len(data)), MaxProofs: 3, Note: "{}"}) != OutOk {
			e.Close()
			return fmt.Errorf("C03 restart twin: PostFile failed")
		}
		proof := func(who sdk.AccAddress) sdk.Msg {
			return &storagetypes.MsgPostProof{Creator: who.String(), Item: item, HashList: pj, Merkle: root, Owner: owner.String(), Start: 90, ToProve: 0}
		}
		run(101, "PostProof by alice", proof(alice))
		if variant == 1 {
			run(102, "PostProof by carol", proof(carol))
		}
		exportAt := int64(1040)
		e.At(exportAt, T0.Add(timeOf(exportAt)))
		nxt, err := NewEnv()
		if err != nil {
			e.Close()
			return err
		}
		nxt.At(exportAt, T0.Add(timeOf(exportAt)))
		pn := Guard(func() {
			nxt.App.BankKeeper.InitGenesis(nxt.Ctx, e.App.BankKeeper.ExportGenesis(e.Ctx))
			for _, m := range c19Modules() {
				if m.Name != "storage" {
					continue
				}
				for _, kv := range mustDump(nxt, m.StoreKey) {
					nxt.Ctx.KVStore(c19StoreKey(nxt, m.StoreKey)).Delete(kv.K)
				}
				if ierr := m.Import(nxt, m.Export(e)); ierr != nil {
					panic(ierr)
				}
			}
		})
		e.Close()
		e = nxt
		trace = append(trace, map[string]interface{}{"height": exportAt, "msg": "restart from the exported genesis", "panic": pn})
		if pn != "" {
			r.Hist("c03-restart-twin", "import failed")
			e.Close()
			continue
		}
		// after the restart: the old holder proves again, a newcomer (or the other old holder) proves too
		run(1045, "PostProof by alice", proof(alice))
		run(1046, "PostProof by carol", proof(carol))
		run(1060, "PostProof by alice", proof(alice))
		dup := func(when string) {
			if f, ok := e.App.StorageKeeper.GetFile(e.Ctx, root, owner.String(), 90); ok {
				seen := map[string]bool{}
				for _, k := range f.Proofs {
					if seen[k] {
						r.Finding("C03/restart/prover-listed-twice", fmt.Sprintf("%s the file lists the key %q twice: the reward block counts that prover twice for one copy", when, k), map[string]interface{}{"trace": trace, "proofs": f.Proofs})
					}
					seen[k] = true
				}
			}
		}
		dup("after the proofs that followed a restart")
		for _, h := range []int64{1100, 1200} {
			bal := map[string]int64{alice.String(): e.Bal(alice, "ujkl"), carol.String(): e.Bal(carol, "ujkl")}
			e.At(h, T0.Add(timeOf(h)))
			if pn := Guard(func() { e.App.StorageKeeper.RunRewardBlock(e.Ctx) }); pn != "" {
				r.Finding("C03/restart/reward-block-panic", "a reward block after the restart panicked: "+pn, map[string]interface{}{"trace": trace})
				break
			}
			ga, gc := e.Bal(alice, "ujkl")-bal[alice.String()], e.Bal(carol, "ujkl")-bal[carol.String()]
			trace = append(trace, map[string]interface{}{"height": h, "msg": "reward block", "alice_paid": ga, "carol_paid": gc})
			r.Hist("c03-restart-twin", fmt.Sprintf("variant %d height %d: alice paid=%v carol paid=%v", variant, h, ga > 0, gc > 0))
			if ga > 0 && gc > 0 && (ga-gc > 1 || gc-ga > 1) {
				r.Finding("C03/restart/equal-copies-paid-unequally", fmt.Sprintf("at reward block %d two provers of the same file were paid %d and %d: one of them was counted more than once", h, ga, gc), map[string]interface{}{"trace": trace})
			}
			dup(fmt.Sprintf("after reward block %d", h))
			run(h+10, "PostProof by alice", proof(alice))
			run(h+11, "PostProof by carol", proof(carol))
		}
		r.Count(fmt.Sprintf("c03-restart-twin:%d", variant), true)
		e.Close()
	}
	return nil
}
