package main

// C08 — a live name changes owner only with its current owner's consent, who is paid.
// C09 — bid escrow is conserved.
// One generator of RNS histories on the assembled app (real bank):
//   (1) a deterministic prefix with the histories that used to violate the properties,
//   (2) breadth-first exploration of every operation sequence up to a depth over 3 accounts x 2 names
//       from seeded states (states are memoised; a failed message leaves the state unchanged, which is
//       itself monitored, so sequences through a failed message are covered by the shorter sequence),
//   (3) random mostly-valid histories with stale listings, repeated bids, owner bids, expiry jumps,
//       upper-case spellings, aliased name spellings, several denoms, insufficient funds.
// After every operation the monitors evaluate the two properties on the observed state, and the
// (pre, op, post) step is emitted for the Coq model (Corr/C08.v).

import (
	"fmt"
	"hash/fnv"
	"math/big"
	"sort"
	"strings"

	"github.com/cosmos/cosmos-sdk/store/prefix"
	minttypes "github.com/jackalLabs/canine-chain/v4/x/jklmint/types"
	"github.com/cosmos/cosmos-sdk/store/rootmulti"
	storetypes "github.com/cosmos/cosmos-sdk/store/types"
	sdk "github.com/cosmos/cosmos-sdk/types"
	jtypes "github.com/jackalLabs/canine-chain/v4/types"
	rnskeeper "github.com/jackalLabs/canine-chain/v4/x/rns/keeper"
	rnstypes "github.com/jackalLabs/canine-chain/v4/x/rns/types"
)

func init() {
	runners["C08"] = func(r *RunCtx) error { return runC08(r, "C08") }
	runners["C09"] = func(r *RunCtx) error { return runC08(r, "C09") }
}

// ---------------------------------------------------------------- ids

type c08Addr struct {
	ID uint64 `json:"a"`
	Up bool   `json:"up"`
}

func (a c08Addr) coq() string { return fmt.Sprintf("(A %d %s)", a.ID, cBool(a.Up)) }

// numbers are printed as primitive-integer literals converted by Corr/C08.v (zi, zn, ni): parsing a
// Z numeral costs Coq ~0.05 ms per digit, which dominated the check
func c08Z(v int64) string {
	if v < 0 {
		if v == -v { // math.MinInt64
			return cZ(v)
		}
		return fmt.Sprintf("(zn %d)", -v)
	}
	return fmt.Sprintf("(zi %d)", v)
}

func c08Zbig(v *big.Int) string {
	if v.IsInt64() {
		return c08Z(v.Int64())
	}
	return cZbig(v)
}

func c08I(v uint64) string { return fmt.Sprintf("%d", v) }

type c08Coin struct {
	Denom uint64
	Name  string
	Amt   *big.Int
}

func (c c08Coin) coq() string { return fmt.Sprintf("(C %d %s)", c.Denom, c08Zbig(c.Amt)) }

type c08World struct {
	e       *Env
	users   []sdk.AccAddress // account ids 2.. (0 = rns module, 1 = POL)
	addrTab map[string]c08Addr
	strs    map[string]uint64
	denoms  map[string]uint64
	rnsKey  storetypes.StoreKey
	modAddr sdk.AccAddress
	polAddr sdk.AccAddress
	err     error
}

const c08NUsers = 4

var c08BankDenoms = []string{"ujkl", "uatom", "ibc/27394FB092D2ECCD56123C74F36E4C1F926001CEADA9CA97EA622B25F41E5EB2"}

func c08NewWorld() (*c08World, error) {
	e, err := NewEnv()
	if err != nil {
		return nil, err
	}
	w := &c08World{e: e, addrTab: map[string]c08Addr{}, strs: map[string]uint64{"{}": 0}, denoms: map[string]uint64{"ujkl": 0, "uatom": 1, "ibc/27394FB092D2ECCD56123C74F36E4C1F926001CEADA9CA97EA622B25F41E5EB2": 2}}
	w.modAddr = e.ModAddr(rnstypes.ModuleName)
	w.polAddr, err = jtypes.GetPOLAccount()
	if err != nil {
		return nil, err
	}
	w.addrTab[w.modAddr.String()] = c08Addr{0, false}
	w.addrTab[strings.ToUpper(w.modAddr.String())] = c08Addr{0, true}
	w.addrTab[w.polAddr.String()] = c08Addr{1, false}
	w.addrTab[strings.ToUpper(w.polAddr.String())] = c08Addr{1, true}
	for i := 1; i <= c08NUsers; i++ {
		a := Acct(i)
		w.users = append(w.users, a)
		w.addrTab[a.String()] = c08Addr{uint64(i + 1), false}
		w.addrTab[strings.ToUpper(a.String())] = c08Addr{uint64(i + 1), true}
	}
	rs, ok := e.App.CommitMultiStore().(*rootmulti.Store)
	if !ok {
		return nil, fmt.Errorf("commit multistore is not a rootmulti.Store")
	}
	for k := range rs.GetStores() {
		if k.Name() == rnstypes.StoreKey {
			w.rnsKey = k
		}
	}
	if w.rnsKey == nil {
		return nil, fmt.Errorf("rns store key not found")
	}
	return w, nil
}

func (w *c08World) user(i int) sdk.AccAddress    { return w.users[i] }
func (w *c08World) uaddr(i int, up bool) c08Addr { return c08Addr{uint64(i + 2), up} }

func (w *c08World) sid(s string) uint64 {
	if v, ok := w.strs[s]; ok {
		return v
	}
	v := uint64(len(w.strs))
	w.strs[s] = v
	return v
}

func (w *c08World) did(s string) uint64 {
	if v, ok := w.denoms[s]; ok {
		return v
	}
	v := uint64(len(w.denoms))
	w.denoms[s] = v
	return v
}

func (w *c08World) addr(s string) c08Addr {
	a, ok := w.addrTab[s]
	if !ok {
		w.err = fmt.Errorf("address string outside the account universe: %q", s)
	}
	return a
}

func (w *c08World) coins(cs sdk.Coins) []c08Coin {
	out := []c08Coin{}
	for _, c := range cs {
		out = append(out, c08Coin{w.did(c.Denom), c.Denom, c.Amount.BigInt()})
	}
	return out
}

func c08CoinsCoq(cs []c08Coin) string {
	if len(cs) == 0 {
		return "nil"
	}
	p := make([]string, len(cs))
	for i, c := range cs {
		p[i] = c.coq()
	}
	return cList(p)
}

// ---------------------------------------------------------------- observation

type c08Sub struct {
	Name, Value, Data uint64
	Expires           int64
}
type c08Name struct {
	Key     uint64
	KeyStr  string
	Value   c08Addr
	Expires int64
	Locked  int64
	Data    uint64
	Subs    []c08Sub
}
type c08Sale struct {
	Key    uint64
	KeyStr string
	Price  *c08Coin
	Owner  c08Addr
}
type c08BidRec struct {
	KeyAddr c08Addr
	Full    uint64
	FullStr string
	Bidder  c08Addr
	Price   []c08Coin
	Index   string
}
type c08Prim struct {
	Owner c08Addr
	Key   uint64
}
type c08Bal struct {
	Acct  uint64
	Denom uint64
	Amt   string // decimal; the voucher balances do not fit int64
}
type c08Obs struct {
	Height   int64
	Names    []c08Name
	Sales    []c08Sale
	Bids     []c08BidRec
	Prims    []c08Prim
	Inits    []c08Addr
	Bank     []c08Bal
	ModExtra map[string]*big.Int // module balances in denoms outside c08BankDenoms
	str      string
	parts    [5]string // names, forsale, bids, primary, inits as Coq lists
}

func (o *c08Obs) name(key string) *c08Name {
	for i := range o.Names {
		if o.Names[i].KeyStr == key {
			return &o.Names[i]
		}
	}
	return nil
}
func (o *c08Obs) sale(key string) *c08Sale {
	for i := range o.Sales {
		if o.Sales[i].KeyStr == key {
			return &o.Sales[i]
		}
	}
	return nil
}
func (o *c08Obs) bid(index string) *c08BidRec {
	for i := range o.Bids {
		if o.Bids[i].Index == index {
			return &o.Bids[i]
		}
	}
	return nil
}
func (o *c08Obs) bal(acct, denom uint64) *big.Int {
	for _, b := range o.Bank {
		if b.Acct == acct && b.Denom == denom {
			v, _ := new(big.Int).SetString(b.Amt, 10)
			return v
		}
	}
	return new(big.Int)
}

func c08ZStr(dec string) string {
	v, _ := new(big.Int).SetString(dec, 10)
	return c08Zbig(v)
}

func (w *c08World) observe() *c08Obs {
	e := w.e
	o := &c08Obs{Height: e.Ctx.BlockHeight(), ModExtra: map[string]*big.Int{}}
	for _, n := range e.App.RnsKeeper.GetAllNames(e.Ctx) {
		ks := n.Name + "." + n.Tld
		rec := c08Name{Key: w.sid(ks), KeyStr: ks, Value: w.addr(n.Value), Expires: n.Expires, Locked: n.Locked, Data: w.sid(n.Data)}
		for _, sd := range n.Subdomains {
			rec.Subs = append(rec.Subs, c08Sub{w.sid(sd.Name), w.sid(sd.Value), w.sid(sd.Data), sd.Expires})
		}
		o.Names = append(o.Names, rec)
	}
	for _, f := range e.App.RnsKeeper.GetAllForsale(e.Ctx) {
		s := c08Sale{Key: w.sid(f.Name), KeyStr: f.Name, Owner: w.addr(f.Owner)}
		if c, err := sdk.ParseCoinNormalized(f.Price); err == nil {
			s.Price = &c08Coin{w.did(c.Denom), c.Denom, c.Amount.BigInt()}
		}
		o.Sales = append(o.Sales, s)
	}
	for _, b := range e.App.RnsKeeper.GetAllBids(e.Ctx) {
		// Index = bidder string ++ lower-cased full name: recover the pair
		var found *c08BidRec
		for sp, a := range w.addrTab {
			if strings.HasPrefix(b.Index, sp) && b.Index[len(sp):] == b.Name {
				if found != nil {
					w.err = fmt.Errorf("ambiguous bid index %q", b.Index)
				}
				found = &c08BidRec{KeyAddr: a, Full: w.sid(b.Name), FullStr: b.Name, Bidder: w.addr(b.Bidder), Index: b.Index}
			}
		}
		if found == nil {
			w.err = fmt.Errorf("bid index %q is not bidder++name", b.Index)
			continue
		}
		cs, err := sdk.ParseCoinsNormalized(b.Price)
		if err != nil {
			w.err = fmt.Errorf("stored bid price %q does not parse", b.Price)
			continue
		}
		found.Price = w.coins(cs)
		o.Bids = append(o.Bids, *found)
	}
	ps := prefix.NewStore(e.Ctx.KVStore(w.rnsKey), rnstypes.KeyPrefix(rnstypes.PrimaryNameKeyPrefix))
	it := sdk.KVStorePrefixIterator(ps, []byte{})
	for ; it.Valid(); it.Next() {
		k := string(it.Key())
		o.Prims = append(o.Prims, c08Prim{w.addr(strings.TrimSuffix(k, "/")), w.sid(string(it.Value()))})
	}
	it.Close()
	for _, in := range e.App.RnsKeeper.GetAllInit(e.Ctx) {
		o.Inits = append(o.Inits, w.addr(in.Address))
	}
	all := []sdk.AccAddress{w.modAddr, w.polAddr}
	all = append(all, w.users...)
	for i, a := range all {
		for _, d := range c08BankDenoms {
			o.Bank = append(o.Bank, c08Bal{uint64(i), w.denoms[d], e.App.BankKeeper.GetBalance(e.Ctx, a, d).Amount.String()})
		}
	}
	for _, c := range e.App.BankKeeper.GetAllBalances(e.Ctx, w.modAddr) {
		if c.Denom != "ujkl" && c.Denom != "uatom" && c.Denom != "ibc/27394FB092D2ECCD56123C74F36E4C1F926001CEADA9CA97EA622B25F41E5EB2" {
			o.ModExtra[c.Denom] = c.Amount.BigInt()
		}
	}
	o.str = o.coq()
	return o
}

func (o *c08Obs) coq() string {
	var nm, fs, bs, pr, in, bk []string
	for _, n := range o.Names {
		var subs []string
		for _, s := range n.Subs {
			subs = append(subs, fmt.Sprintf("R %d %d %d %s", s.Name, s.Value, s.Data, c08Z(s.Expires)))
		}
		sl := "nil"
		if len(subs) > 0 {
			sl = cList(subs)
		}
		nm = append(nm, fmt.Sprintf("NE %d %s %s %s %d %s", n.Key, n.Value.coq(), c08Z(n.Expires), c08Z(n.Locked), n.Data, sl))
	}
	for _, f := range o.Sales {
		p := "None"
		if f.Price != nil {
			p = "(Some " + f.Price.coq() + ")"
		}
		fs = append(fs, fmt.Sprintf("FE %d %s %s", f.Key, p, f.Owner.coq()))
	}
	for _, b := range o.Bids {
		bs = append(bs, fmt.Sprintf("BE %s %d %s %s", b.KeyAddr.coq(), b.Full, b.Bidder.coq(), c08CoinsCoq(b.Price)))
	}
	for _, p := range o.Prims {
		pr = append(pr, fmt.Sprintf("PE %s %d", p.Owner.coq(), p.Key))
	}
	for _, a := range o.Inits {
		in = append(in, a.coq())
	}
	for _, b := range o.Bank {
		bk = append(bk, fmt.Sprintf("BL %d %d %s", b.Acct, b.Denom, c08ZStr(b.Amt)))
	}
	l := func(xs []string) string {
		if len(xs) == 0 {
			return "nil"
		}
		return cList(xs)
	}
	o.parts = [5]string{l(nm), l(fs), l(bs), l(pr), l(in)}
	return fmt.Sprintf("(mkS %s %s %s %s %s %s %s)", c08Z(o.Height), o.parts[0], o.parts[1], o.parts[2], o.parts[3], o.parts[4], l(bk))
}

// deltaCoq prints post as the components that differ from pre (Corr/C08.v apply_delta).
func c08DeltaCoq(pre, post *c08Obs) string {
	f := []string{"None", "None", "None", "None", "None", "None"}
	if pre.Height != post.Height {
		f[0] = "(Some " + c08Z(post.Height) + ")"
	}
	for i := 0; i < 5; i++ {
		if pre.parts[i] != post.parts[i] {
			f[i+1] = "(Some " + post.parts[i] + ")"
		}
	}
	var bk []string
	for i, b := range post.Bank {
		if pre.Bank[i] != b {
			bk = append(bk, fmt.Sprintf("BL %d %d %s", b.Acct, b.Denom, c08ZStr(b.Amt)))
		}
	}
	bs := "nil"
	if len(bk) > 0 {
		bs = cList(bk)
	}
	return fmt.Sprintf("(mkD %s %s)", strings.Join(f, " "), bs)
}

// ---------------------------------------------------------------- operations

type c08Op struct {
	Kind  string `json:"kind"`
	S     int    `json:"s"` // index into users
	Up    bool   `json:"up,omitempty"`
	Name  string `json:"name,omitempty"`
	Years int64  `json:"years,omitempty"`
	Data  string `json:"data,omitempty"`
	Prim  bool   `json:"prim,omitempty"`
	Denom string `json:"denom,omitempty"`
	Amt   int64  `json:"amt,omitempty"`
	Big   string `json:"big,omitempty"` // decimal amount beyond int64 (overrides Amt)
	T     int    `json:"t,omitempty"` // other account (receiver / from)
	TUp   bool   `json:"tup,omitempty"`
	Rec   string `json:"rec,omitempty"`
	Val   string `json:"val,omitempty"`
	H     int64  `json:"h,omitempty"`
}

func (o c08Op) amount() sdk.Int {
	if o.Big != "" {
		v, ok := sdk.NewIntFromString(o.Big)
		if ok {
			return v
		}
	}
	return sdk.NewInt(o.Amt)
}

func (w *c08World) msg(o c08Op) sdk.Msg {
	c := Spell(w.user(o.S), o.Up)
	switch o.Kind {
	case "Register":
		return &rnstypes.MsgRegisterName{Creator: c, Name: o.Name, Years: o.Years, Data: o.Data, SetPrimary: o.Prim}
	case "RegisterOld":
		return &rnstypes.MsgRegister{Creator: c, Name: o.Name, Years: o.Years, Data: o.Data}
	case "List":
		return &rnstypes.MsgList{Creator: c, Name: o.Name, Price: sdk.Coin{Denom: o.Denom, Amount: o.amount()}}
	case "Delist":
		return &rnstypes.MsgDelist{Creator: c, Name: o.Name}
	case "Buy":
		return &rnstypes.MsgBuy{Creator: c, Name: o.Name}
	case "Bid":
		return &rnstypes.MsgBid{Creator: c, Name: o.Name, Bid: sdk.Coin{Denom: o.Denom, Amount: o.amount()}}
	case "CancelBid":
		return &rnstypes.MsgCancelBid{Creator: c, Name: o.Name}
	case "AcceptBid":
		return &rnstypes.MsgAcceptBid{Creator: c, Name: o.Name, From: Spell(w.user(o.T), o.TUp)}
	case "Transfer":
		return &rnstypes.MsgTransfer{Creator: c, Name: o.Name, Receiver: Spell(w.user(o.T), o.TUp)}
	case "Update":
		return &rnstypes.MsgUpdate{Creator: c, Name: o.Name, Data: o.Data}
	case "AddRecord":
		return &rnstypes.MsgAddRecord{Creator: c, Name: o.Name, Value: o.Val, Data: o.Data, Record: o.Rec}
	case "DelRecord":
		return &rnstypes.MsgDelRecord{Creator: c, Name: o.Name}
	case "Init":
		return &rnstypes.MsgInit{Creator: c}
	case "MakePrimary":
		return &rnstypes.MsgMakePrimary{Creator: c, Name: o.Name}
	}
	return nil
}

func (w *c08World) optKey(lower string) (string, string, bool) {
	n, tld, err := rnskeeper.GetNameAndTLD(lower)
	if err != nil {
		return "", "", false
	}
	return n, tld, true
}

func (w *c08World) nmCoq(raw string) (string, string, string, bool) {
	lower := strings.ToLower(raw)
	n, tld, ok := w.optKey(lower)
	k := "None"
	if ok {
		k = fmt.Sprintf("(SI %d)", w.sid(n+"."+tld))
	}
	return fmt.Sprintf("(NM %d %s)", w.sid(lower), k), n, tld, ok
}

// term prints the operation with the glue results (parsing done by the repo's / the SDK's own functions).
func (w *c08World) term(o c08Op, height int64) string {
	if o.Kind == "SetHeight" {
		return "SetHeight " + c08Z(o.H)
	}
	m := w.msg(o)
	vb := cBool(m.ValidateBasic() == nil)
	sg := w.uaddr(o.S, o.Up).coq()
	switch o.Kind {
	case "Register", "RegisterOld":
		nm := strings.ReplaceAll(strings.ToLower(o.Name), " ", "")
		n, tld, ok := w.optKey(nm)
		key, rsv, cost := "None", false, int64(0)
		if ok {
			key = fmt.Sprintf("(SI %d)", w.sid(n+"."+tld))
			rsv = rnstypes.IsReserved[tld]
			c, err := rnskeeper.GetCostOfName(n, tld)
			if err == nil {
				cost = c
			}
		}
		return fmt.Sprintf("oReg %s %s %s %s %s %s %d %s", vb, sg, key, cBool(rsv), c08Z(cost), c08Z(o.Years), w.sid(o.Data), cBool(o.Kind == "Register" && o.Prim))
	case "List":
		nm, _, _, _ := w.nmCoq(o.Name)
		p := "None"
		if c, err := sdk.ParseCoinNormalized(m.(*rnstypes.MsgList).Price.String()); err == nil {
			p = "(Some " + c08Coin{w.did(c.Denom), c.Denom, c.Amount.BigInt()}.coq() + ")"
		}
		return fmt.Sprintf("oList %s %s %s %s", vb, sg, nm, p)
	case "Delist":
		nm, _, _, _ := w.nmCoq(o.Name)
		return fmt.Sprintf("Delist %s %s %s", vb, sg, nm)
	case "Buy":
		nm, _, _, _ := w.nmCoq(o.Name)
		return fmt.Sprintf("Buy %s %s %s", vb, sg, nm)
	case "Bid":
		nm, _, _, _ := w.nmCoq(o.Name)
		p := "None"
		if cs, err := sdk.ParseCoinsNormalized(m.(*rnstypes.MsgBid).Bid.String()); err == nil {
			if !cs.IsValid() && len(cs) > 0 {
				w.err = fmt.Errorf("ParseCoinsNormalized returned invalid coins for %q", m.(*rnstypes.MsgBid).Bid.String())
			}
			p = "(Some " + c08CoinsCoq(w.coins(cs)) + ")"
		}
		return fmt.Sprintf("Bid %s %s %s %s", vb, sg, nm, p)
	case "CancelBid":
		nm, _, _, _ := w.nmCoq(o.Name)
		return fmt.Sprintf("CancelBid %s %s %s", vb, sg, nm)
	case "AcceptBid":
		nm, _, _, _ := w.nmCoq(o.Name)
		return fmt.Sprintf("AcceptBid %s %s %s %s", vb, sg, nm, w.uaddr(o.T, o.TUp).coq())
	case "Transfer":
		nm, _, _, _ := w.nmCoq(o.Name)
		return fmt.Sprintf("Transfer %s %s %s %s", vb, sg, nm, w.uaddr(o.T, o.TUp).coq())
	case "Update":
		nm, _, _, _ := w.nmCoq(o.Name)
		return fmt.Sprintf("oUpd %s %s %s %d", vb, sg, nm, w.sid(o.Data))
	case "AddRecord":
		nm, _, _, _ := w.nmCoq(o.Name)
		return fmt.Sprintf("oAdd %s %s %s %d %d %d %s %d", vb, sg, nm, w.sid(o.Rec), w.sid(strings.ToLower(o.Rec)), w.sid(o.Val), cBool(strings.Contains(o.Val, ".")), w.sid(o.Data))
	case "DelRecord":
		nm, n, tld, ok := w.nmCoq(o.Name)
		sub := "None"
		if ok {
			if s, parent, has := rnskeeper.GetSubdomain(n); has {
				sub = fmt.Sprintf("(SP %d %d)", w.sid(s), w.sid(parent+"."+tld))
			}
		}
		return fmt.Sprintf("oDel %s %s %s %s", vb, sg, nm, sub)
	case "Init":
		name := rnstypes.MakeName(int(height), height)
		bad := strings.Contains(name, ".") || len(name) < 6
		return fmt.Sprintf("oInit %s %s %d %s", vb, sg, w.sid(name+".jkl"), cBool(bad))
	case "MakePrimary":
		lower := strings.ToLower(o.Name)
		n, tld, ok := w.optKey(lower)
		k := "None"
		if ok {
			k = fmt.Sprintf("(SI %d)", w.sid(n+"."+tld))
		}
		return fmt.Sprintf("oPrim %s %s %s", vb, sg, k)
	}
	w.err = fmt.Errorf("unknown op kind %q", o.Kind)
	return ""
}

// exec runs one operation on the current context and returns the outcome class.
func (w *c08World) exec(o c08Op) string {
	if o.Kind == "SetHeight" {
		w.e.At(o.H, T0)
		return OutOk
	}
	return w.e.Run(w.msg(o)).Out
}

func c08OutCode(out string) string {
	switch out {
	case OutOk:
		return "0"
	case OutFail:
		return "1"
	}
	return "2"
}

// ---------------------------------------------------------------- monitors

type c08Mon struct {
	r     *RunCtx
	w     *c08World
	which string // "C08" or "C09": findings of the other property are reported under its own id as well
}

func c08PriceMap(cs []c08Coin) map[uint64]*big.Int {
	m := map[uint64]*big.Int{}
	for _, c := range cs {
		if m[c.Denom] == nil {
			m[c.Denom] = new(big.Int)
		}
		m[c.Denom].Add(m[c.Denom], c.Amt)
	}
	return m
}

func (m *c08Mon) deltaIs(pre, post *c08Obs, acct uint64, want map[uint64]*big.Int, sign int64) bool {
	for _, d := range c08BankDenoms {
		id := m.w.denoms[d]
		exp := new(big.Int)
		if want[id] != nil {
			exp.Mul(want[id], big.NewInt(sign))
		}
		if new(big.Int).Sub(post.bal(acct, id), pre.bal(acct, id)).Cmp(exp) != 0 {
			return false
		}
	}
	return true
}

func c08NameEq(a, b *c08Name) bool {
	if a.Value != b.Value || a.Expires != b.Expires || a.Locked != b.Locked || a.Data != b.Data || len(a.Subs) != len(b.Subs) {
		return false
	}
	for i := range a.Subs {
		if a.Subs[i] != b.Subs[i] {
			return false
		}
	}
	return true
}

// check evaluates the properties on one observed step. hist is the history so far (for the replay).
func (m *c08Mon) check(pre *c08Obs, o c08Op, out string, post *c08Obs, hist interface{}) {
	w, r := m.w, m.r
	find := func(sig, what string) {
		if strings.HasPrefix(sig, "*/") { // properties of the execution model itself, reported under either id
			sig = m.which + sig[1:]
		}
		if !strings.HasPrefix(sig, m.which+"/") {
			return // both properties share the generator; each check reports its own monitors
		}
		r.Finding(sig, what, map[string]interface{}{"history": hist, "op": o, "out": out, "pre": pre.str, "post": post.str})
	}
	kind := o.Kind
	if kind == "RegisterOld" {
		kind = "Register"
	}
	// (e) a failed message changes nothing
	if out != OutOk && pre.str != post.str {
		find("*/failed-message-changed-state/"+kind, "a message that returned an error changed the observed state")
	}
	if out == OutPanic {
		find("*/handler-panic/"+kind, "an RNS message handler panicked")
	}
	// (a) C09: module balance == sum of open bids, per denom
	sum := map[uint64]*big.Int{}
	for _, b := range post.Bids {
		for d, v := range c08PriceMap(b.Price) {
			if sum[d] == nil {
				sum[d] = new(big.Int)
			}
			sum[d].Add(sum[d], v)
		}
	}
	for _, d := range c08BankDenoms {
		id := w.denoms[d]
		s := sum[id]
		if s == nil {
			s = new(big.Int)
		}
		if post.bal(0, id).Cmp(s) != 0 {
			find("C09/escrow-differs-from-open-bids/"+kind, fmt.Sprintf("rns module holds %s%s but open bids sum to %s", post.bal(0, id), d, s))
		}
	}
	for d, v := range post.ModExtra {
		s := sum[w.did(d)]
		if s == nil || s.Cmp(v) != 0 {
			find("C09/escrow-differs-from-open-bids/"+kind, fmt.Sprintf("rns module holds %s%s, open bids differ", v, d))
		}
	}
	if o.Kind == "SetHeight" {
		if len(pre.Names) != len(post.Names) {
			find("C08/name-set-changed-by-time", "a block without messages changed the names")
		}
		return
	}
	signer := uint64(o.S + 2)
	lower := strings.ToLower(o.Name)
	opKey := ""
	if n, tld, ok := w.optKey(lower); ok {
		opKey = n + "." + tld
	}
	// (b) + (c): live names
	for i := range pre.Names {
		pn := &pre.Names[i]
		if !(pre.Height < pn.Expires) {
			continue
		}
		qn := post.name(pn.KeyStr)
		prev := pn.Value.ID
		// the purchase path that the property allows: a listing created by the previous owner
		legitBuy := false
		var buyPrice map[uint64]*big.Int
		if kind == "Buy" && out == OutOk && opKey == pn.KeyStr {
			if sl := pre.sale(lower); sl != nil && sl.Owner.ID == prev {
				legitBuy = true
				buyPrice = map[uint64]*big.Int{}
				if sl.Price != nil {
					buyPrice[sl.Price.Denom] = sl.Price.Amt
				}
			}
		}
		if qn == nil || qn.Value.ID != prev {
			switch {
			case qn == nil:
				find("C08/live-name-removed/"+kind, "a live name disappeared")
			case (kind == "Transfer" || kind == "AcceptBid") && signer == prev && opKey == pn.KeyStr:
				if kind == "AcceptBid" {
					b := pre.bid(Spell(w.user(o.T), o.TUp) + lower)
					if b == nil {
						find("C08/accept-without-bid", "a bid was accepted that was not open")
					} else if !m.deltaIs(pre, post, prev, c08PriceMap(b.Price), 1) {
						find("C08/previous-owner-not-paid/AcceptBid", "the accepting owner did not receive exactly the bid")
					}
				}
			case legitBuy:
				if !m.deltaIs(pre, post, prev, buyPrice, 1) {
					find("C08/previous-owner-not-paid/Buy", "the previous owner did not receive exactly the listed price")
				}
				if !m.deltaIs(pre, post, signer, buyPrice, -1) {
					find("C08/buyer-charged-wrong/Buy", "the buyer was not charged exactly the listed price")
				}
			default:
				find("C08/owner-changed-without-consent/"+kind, fmt.Sprintf("live name %s moved from account %d to %d by a %s signed by account %d", pn.KeyStr, prev, qn.Value.ID, kind, signer))
			}
		}
		if signer != prev && !legitBuy {
			if qn != nil && !c08NameEq(pn, qn) {
				find("C08/foreign-message-changed-name/"+kind, fmt.Sprintf("live name %s owned by account %d was changed by a %s signed by account %d", pn.KeyStr, prev, kind, signer))
			}
			// listings of this name (every spelling that parses to it)
			keys := map[string]bool{}
			for _, s := range pre.Sales {
				keys[s.KeyStr] = true
			}
			for _, s := range post.Sales {
				keys[s.KeyStr] = true
			}
			for k := range keys {
				n, tld, ok := w.optKey(k)
				if !ok || n+"."+tld != pn.KeyStr {
					continue
				}
				a, b := pre.sale(k), post.sale(k)
				same := (a == nil && b == nil) || (a != nil && b != nil && a.Owner == b.Owner && ((a.Price == nil && b.Price == nil) || (a.Price != nil && b.Price != nil && a.Price.Denom == b.Price.Denom && a.Price.Amt.Cmp(b.Price.Amt) == 0)))
				if !same {
					find("C08/foreign-message-changed-listing/"+kind, fmt.Sprintf("a listing of live name %s owned by account %d was changed by a %s signed by account %d", pn.KeyStr, prev, kind, signer))
				}
			}
		}
	}
	// (c') C08: a listing the owner has withdrawn is gone (it must not sell the name later)
	if kind == "Delist" && out == OutOk {
		if sl := post.sale(lower); sl != nil {
			find("C08/delist-left-listing", fmt.Sprintf("Delist of %q succeeded and the listing %q is still in the store: the withdrawn listing can still sell the name", o.Name, lower))
		}
	}
	// (d') C09: the holder of an open bid can always take it back
	if kind == "CancelBid" && out != OutOk {
		if b := pre.bid(Spell(w.user(o.S), o.Up) + lower); b != nil {
			find("C09/cancel-refused-with-open-bid", fmt.Sprintf("account %d holds an open bid on %q and its cancel was refused: the escrow cannot be taken back", signer, o.Name))
		}
	}
	// (d) C09 per-message accounting
	if out == OutOk {
		modSame := m.deltaIs(pre, post, 0, nil, 1)
		switch kind {
		case "CancelBid":
			b := pre.bid(Spell(w.user(o.S), o.Up) + lower)
			if b == nil {
				find("C09/cancel-without-bid", "a cancel succeeded without an open bid of the signer")
			} else {
				if !m.deltaIs(pre, post, signer, c08PriceMap(b.Price), 1) {
					find("C09/cancel-refund-wrong", "cancelling did not return exactly the escrowed bid to the bidder")
				}
				if post.bid(b.Index) != nil {
					find("C09/cancel-left-bid", "the cancelled bid is still open")
				}
			}
		case "AcceptBid":
			b := pre.bid(Spell(w.user(o.T), o.TUp) + lower)
			if b != nil {
				if !m.deltaIs(pre, post, signer, c08PriceMap(b.Price), 1) {
					find("C09/accept-payout-wrong", "accepting did not pay exactly the escrowed bid to the owner")
				}
				if post.bid(b.Index) != nil {
					find("C09/accept-left-bid", "the accepted bid is still open")
				}
			}
		case "Bid":
			idx := w.user(o.S).String() + lower
			nb := post.bid(idx)
			if nb == nil {
				find("C09/bid-not-recorded", "a successful bid is not open afterwards")
			} else {
				want := c08PriceMap(nb.Price)
				for d, v := range want {
					want[d] = new(big.Int).Neg(v)
				}
				if ob := pre.bid(idx); ob != nil {
					for d, v := range c08PriceMap(ob.Price) {
						if want[d] == nil {
							want[d] = new(big.Int)
						}
						want[d].Add(want[d], v)
					}
				}
				if !m.deltaIs(pre, post, signer, want, 1) {
					find("C09/bid-escrow-wrong", "bidding did not move exactly (new bid - replaced bid) out of the bidder's account")
				}
			}
		case "Register", "Buy":
			if !modSame {
				find("C09/residue-in-module/"+kind, "a registration or purchase changed the module balance")
			}
		default:
			if !modSame {
				find("C09/module-balance-changed/"+kind, "a message that is no bid/cancel/accept changed the module balance")
			}
		}
	}
}

// ---------------------------------------------------------------- emission of cases

type c08Step struct {
	op   c08Op
	term string
	out  string
	post *c08Obs
	pre  *c08Obs
	same bool
}

func c08StepsCoq(steps []c08Step) string {
	p := make([]string, len(steps))
	for i, s := range steps {
		post := "None"
		if !s.same {
			post = "(Some " + c08DeltaCoq(s.pre, s.post) + ")"
		}
		p[i] = fmt.Sprintf("St (%s) %s %s", s.term, c08OutCode(s.out), post)
	}
	if len(p) == 0 {
		return "(@nil (op * N * option delta))"
	}
	return "[" + strings.Join(p, ";\n    ") + "]"
}

type c08Run struct {
	r    *RunCtx
	w    *c08World
	mon  *c08Mon
	seen map[string]bool
}

// one executes an op on the world's current context, observes, monitors, counts.
func (g *c08Run) one(pre *c08Obs, o c08Op, hist interface{}, tag string) c08Step {
	w := g.w
	term := w.term(o, pre.Height)
	out := w.exec(o)
	post := w.observe()
	g.mon.check(pre, o, out, post, hist)
	st := c08Step{op: o, term: term, out: out, post: post, pre: pre, same: pre.str == post.str}
	g.r.Hist("ops", o.Kind)
	g.r.Hist("outcomes", o.Kind+":"+out)
	g.r.Hist("source", tag)
	hk := fnv.New128a()
	hk.Write([]byte(pre.str + "|" + term))
	g.r.Count(string(hk.Sum(nil)), out == OutOk && o.Kind != "SetHeight" && o.Kind != "MakePrimary")
	return st
}

// chain runs a linear history from the current context and emits it as one Chain case.
func (g *c08Run) chain(ops []c08Op, tag string) {
	w := g.w
	pre0 := w.observe()
	pre := pre0
	steps := []c08Step{}
	done := []c08Op{}
	for _, o := range ops {
		done = append(done, o)
		st := g.one(pre, o, append([]c08Op{}, done...), tag)
		steps = append(steps, st)
		pre = st.post
	}
	outs := make([]string, len(steps))
	for i, s := range steps {
		outs[i] = s.out
	}
	g.r.Case("hist", fmt.Sprintf("Chain %s\n   %s", pre0.str, c08StepsCoq(steps)), map[string]interface{}{"kind": "chain", "source": tag, "ops": ops, "outs": outs})
	if len(g.r.Sum.Samples) < 2 {
		g.r.Sample(map[string]interface{}{"source": tag, "ops": ops, "outs": outs})
	}
}

// bfs explores every op of alphabet(state) from every state reachable within depth steps.
func (g *c08Run) bfs(alphabet func(o *c08Obs) []c08Op, depth int, tag string, seed []c08Op) {
	w := g.w
	type node struct {
		ctx  sdk.Context
		obs  *c08Obs
		path []c08Op
	}
	root := node{ctx: w.e.Ctx, obs: w.observe(), path: append([]c08Op{}, seed...)} // replays start from a fresh funded app
	visited := map[string]bool{root.obs.str: true}
	level := []node{root}
	saved := w.e.Ctx
	for d := 0; d < depth && len(level) > 0; d++ {
		var next []node
		for _, nd := range level {
			steps := []c08Step{}
			for _, o := range alphabet(nd.obs) {
				cctx, _ := nd.ctx.CacheContext()
				w.e.Ctx = cctx
				w.e.Height = cctx.BlockHeight()
				path := append(append([]c08Op{}, nd.path...), o)
				st := g.one(nd.obs, o, path, tag)
				steps = append(steps, st)
				if !st.same && !visited[st.post.str] && d+1 < depth {
					visited[st.post.str] = true
					next = append(next, node{ctx: w.e.Ctx, obs: st.post, path: path})
				}
			}
			// sharded so that the Coq evaluation of the cases balances over the workers
			for lo := 0; lo < len(steps); lo += c08FanChunk {
				hi := lo + c08FanChunk
				if hi > len(steps) {
					hi = len(steps)
				}
				ops := make([]c08Op, 0, hi-lo)
				for _, st := range steps[lo:hi] {
					ops = append(ops, st.op)
				}
				g.r.Case("hist", fmt.Sprintf("Fan %s\n   %s", nd.obs.str, c08StepsCoq(steps[lo:hi])), map[string]interface{}{"kind": "fan", "source": tag, "path": nd.path, "ops": ops})
			}
		}
		g.r.Hist("bfs-states", fmt.Sprintf("%s:depth%d", tag, d))
		g.r.Sum.Notes = append(g.r.Sum.Notes, fmt.Sprintf("%s: %d states expanded at depth %d", tag, len(level), d))
		level = next
	}
	w.e.Ctx = saved
	w.e.Height = saved.BlockHeight()
}

// ---------------------------------------------------------------- generators

const c08FanChunk = 32

const (
	c08N1 = "foo.jkl"
	c08N2 = "bar.ibc"
)

func (g *c08Run) fund() error {
	w := g.w
	for i := 0; i < c08NUsers; i++ {
		amt := int64(1_000_000_000_000)
		if i == 3 {
			amt = 1000 // the poor account
		}
		if err := w.e.Fund(w.user(i), "ujkl", amt); err != nil {
			return err
		}
		if err := w.e.Fund(w.user(i), "uatom", amt/2); err != nil {
			return err
		}
		if i != 3 { // an 18-decimal denom: 2^66 base units each (about 74 tokens)
			c := sdk.NewCoins(sdk.NewCoin("ibc/27394FB092D2ECCD56123C74F36E4C1F926001CEADA9CA97EA622B25F41E5EB2", sdk.NewIntFromBigInt(new(big.Int).Lsh(big.NewInt(1), 66))))
			if err := w.e.App.BankKeeper.MintCoins(w.e.Ctx, minttypes.ModuleName, c); err != nil {
				return err
			}
			if err := w.e.App.BankKeeper.SendCoinsFromModuleToAccount(w.e.Ctx, minttypes.ModuleName, w.user(i), c); err != nil {
				return err
			}
		}
	}
	return nil
}

// the exhaustive alphabet: 3 accounts x 2 names, every handler; B spelled in upper case when upB
func c08Alphabet(upB bool) func(o *c08Obs) []c08Op {
	return func(obs *c08Obs) []c08Op {
		var ops []c08Op
		up := func(i int) bool { return upB && i == 1 }
		for s := 0; s < 3; s++ {
			for _, n := range []string{c08N1, c08N2} {
				ops = append(ops,
					c08Op{Kind: "Register", S: s, Up: up(s), Name: n, Years: 1, Data: "{\"k\":1}"},
					c08Op{Kind: "List", S: s, Up: up(s), Name: n, Denom: "ujkl", Amt: 777},
					c08Op{Kind: "Delist", S: s, Up: up(s), Name: n},
					c08Op{Kind: "Buy", S: s, Up: up(s), Name: n},
					c08Op{Kind: "Bid", S: s, Up: up(s), Name: n, Denom: "ujkl", Amt: 100},
					c08Op{Kind: "Bid", S: s, Up: up(s), Name: n, Denom: "ujkl", Amt: 50},
					c08Op{Kind: "CancelBid", S: s, Up: up(s), Name: n},
					c08Op{Kind: "Update", S: s, Up: up(s), Name: n, Data: "upd"},
					c08Op{Kind: "AddRecord", S: s, Up: up(s), Name: n, Rec: "www", Val: "v", Data: "d"},
					c08Op{Kind: "AddRecord", S: s, Up: up(s), Name: n, Rec: "till", Val: c08AddrOf(s), Data: "d"}, // a record pointing at the signer itself
					c08Op{Kind: "DelRecord", S: s, Up: up(s), Name: "www." + n},
				)
				for t := 0; t < 3; t++ {
					if t != s {
						ops = append(ops,
							c08Op{Kind: "AcceptBid", S: s, Up: up(s), Name: n, T: t, TUp: false},
							c08Op{Kind: "Transfer", S: s, Up: up(s), Name: n, T: t, TUp: up(t)})
					}
				}
			}
			ops = append(ops, c08Op{Kind: "Init", S: s, Up: up(s)})
		}
		// expiry: exactly at, and one past, the earliest expiry that is still ahead
		var e int64 = -1
		for _, n := range obs.Names {
			if n.Expires >= obs.Height && (e < 0 || n.Expires < e) {
				e = n.Expires
			}
		}
		if e >= 0 {
			if e-1 > obs.Height {
				ops = append(ops, c08Op{Kind: "SetHeight", H: e - 1}) // the last block in which the name is live
			}
			if e > obs.Height {
				ops = append(ops, c08Op{Kind: "SetHeight", H: e})
			}
			ops = append(ops, c08Op{Kind: "SetHeight", H: e + 1})
		}
		return ops
	}
}

// seed brings the world into the state an exploration starts from; the seeding messages are judged like any others
// (monitors and one Chain case), and a refusal is left to them: it is no harness error
func (g *c08Run) seed(ops []c08Op) error {
	if len(ops) > 0 {
		g.chain(ops, "seed")
	}
	return nil
}

func (g *c08Run) fresh() error {
	if g.w != nil {
		if g.w.err != nil {
			return g.w.err
		}
		g.w.e.Close()
	}
	w, err := c08NewWorld()
	if err != nil {
		return err
	}
	// keep one interning table over the whole run so that ids are stable across worlds
	if g.w != nil {
		w.strs, w.denoms = g.w.strs, g.w.denoms
	}
	g.w = w
	g.mon.w = w
	return g.fund()
}

// restart: the chain is exported and a new chain is started from that genesis — every balance of the bank module
// and the rns module's own genesis (names, listings, bids, init records, parameters) — the way a network restarts
// from an export.  Escrowed bids must come through: the module account still holds exactly the open bids and every
// bidder can still take its bid back.
func (w *c08World) restart() error {
	nxt, err := NewEnv()
	if err != nil {
		return err
	}
	nxt.At(w.e.Height, w.e.Time)
	var perr string
	if perr = Guard(func() {
		nxt.App.BankKeeper.InitGenesis(nxt.Ctx, w.e.App.BankKeeper.ExportGenesis(w.e.Ctx))
		for _, m := range c19Modules() {
			if m.Name != "rns" {
				continue
			}
			for _, kv := range mustDump(nxt, m.StoreKey) {
				nxt.Ctx.KVStore(c19StoreKey(nxt, m.StoreKey)).Delete(kv.K)
			}
			if ierr := m.Import(nxt, m.Export(w.e)); ierr != nil {
				panic(ierr)
			}
		}
	}); perr != "" {
		nxt.Close()
		return fmt.Errorf("restart from the exported genesis failed: %s", perr)
	}
	w.e.Close()
	w.e = nxt
	rs := nxt.App.CommitMultiStore().(*rootmulti.Store)
	for k := range rs.GetStores() {
		if k.Name() == rnstypes.StoreKey {
			w.rnsKey = k
		}
	}
	return nil
}

// restartTwin: more open bids than one page of any listing holds, a restart from the exported genesis, then every
// kind of settlement on the restarted chain
func (g *c08Run) restartTwin() error {
	if err := g.fresh(); err != nil {
		return err
	}
	A, B, C := 0, 1, 2
	before := []c08Op{{Kind: "Register", S: A, Name: c08N1, Years: 1, Data: "{}"}, {Kind: "Bid", S: B, Name: c08N1, Denom: "ujkl", Amt: 77}, {Kind: "Bid", S: C, Name: c08N1, Denom: "uatom", Amt: 5}}
	for i := 0; i < 104; i++ {
		before = append(before, c08Op{Kind: "Bid", S: 1 + i%2, Name: fmt.Sprintf("rb%03d.jkl", i), Denom: "ujkl", Amt: int64(100 + i)})
	}
	g.chain(before, "restart-twin-before")
	pre := g.w.observe()
	if err := g.w.restart(); err != nil {
		g.r.Finding(g.mon.which+"/restart/import-failed", err.Error(), map[string]interface{}{"history": before})
		return nil
	}
	post := g.w.observe()
	g.mon.check(pre, c08Op{Kind: "Restart"}, OutOk, post, append(append([]c08Op{}, before...), c08Op{Kind: "Restart"}))
	g.r.Hist("ops", "Restart")
	after := []c08Op{{Kind: "CancelBid", S: B, Name: "rb000.jkl"}, {Kind: "CancelBid", S: C, Name: "rb103.jkl"}, {Kind: "CancelBid", S: B, Name: "rb102.jkl"}, {Kind: "AcceptBid", S: A, Name: c08N1, T: C},
		{Kind: "CancelBid", S: B, Name: c08N1}, {Kind: "CancelBid", S: C, Name: "rb051.jkl"}, {Kind: "Bid", S: C, Name: "rb051.jkl", Denom: "ujkl", Amt: 9}}
	g.chain(after, "restart-twin-after")
	return nil
}

// c08AddrOf: the bech32 address of user i (same numbering as the world's accounts)
func c08AddrOf(i int) string {
	setBech32() // the SDK caches address strings: never render one before the prefix is configured
	return Acct(i + 1).String()
}

func (g *c08Run) deterministic() error {
	A, B, C := 0, 1, 2
	reg := func(s int, n string) c08Op { return c08Op{Kind: "Register", S: s, Name: n, Years: 1, Data: "{}"} }
	hs := [][]c08Op{
		// a record of A's name that points at B gives B no right over the name or its records (Update in record form,
		// DelRecord), and look-alike spellings of a live name (edge hyphens, blanks) never land on that name
		{reg(A, c08N1), {Kind: "AddRecord", S: A, Name: c08N1, Rec: "www", Val: c08AddrOf(B), Data: "d"}, {Kind: "Update", S: B, Name: "www." + c08N1, Data: "hacked"},
			{Kind: "DelRecord", S: B, Name: "www." + c08N1}, {Kind: "Transfer", S: A, Name: c08N1, T: C}, {Kind: "Update", S: A, Name: "www." + c08N1, Data: "old-owner"},
			{Kind: "Update", S: B, Name: "www." + c08N1, Data: "hacked-again"},
			reg(B, "-"+c08N1), reg(B, "--Foo--.jkl")}, // by B: the name is C's by now
		// the C08 defect: A lists, A transfers to B, C buys through the stale listing
		{reg(A, c08N1), {Kind: "List", S: A, Name: c08N1, Denom: "ujkl", Amt: 777}, {Kind: "Transfer", S: A, Name: c08N1, T: B}, {Kind: "Buy", S: C, Name: c08N1},
			{Kind: "Delist", S: A, Name: c08N1}, {Kind: "Transfer", S: B, Name: c08N1, T: A}, {Kind: "Buy", S: C, Name: c08N1}},
		// the C09 defect: bid 100, bid 50 on the same slot, cancel
		{reg(A, c08N1), {Kind: "Bid", S: C, Name: c08N1, Denom: "ujkl", Amt: 100}, {Kind: "Bid", S: C, Name: c08N1, Denom: "ujkl", Amt: 50}, {Kind: "CancelBid", S: C, Name: c08N1},
			{Kind: "CancelBid", S: C, Name: c08N1}},
		// a replaced bid in another denom, accepted
		{reg(A, c08N1), {Kind: "Bid", S: C, Name: c08N1, Denom: "ujkl", Amt: 100}, {Kind: "Bid", S: C, Name: c08N1, Denom: "uatom", Amt: 70}, {Kind: "AcceptBid", S: A, Name: c08N1, T: C},
			{Kind: "Bid", S: A, Name: c08N1, Denom: "ujkl", Amt: 5}, {Kind: "AcceptBid", S: C, Name: c08N1, T: A}},
		// list / buy happy path, stale listing after expiry and re-registration by another account
		{reg(A, c08N1), {Kind: "List", S: A, Name: c08N1, Denom: "ujkl", Amt: 777}, {Kind: "Buy", S: B, Name: c08N1}, {Kind: "List", S: B, Name: c08N1, Denom: "uatom", Amt: 9},
			{Kind: "SetHeight", H: 2 + 5484530}, {Kind: "Buy", S: C, Name: c08N1}, {Kind: "SetHeight", H: 3 + 5484530}, {Kind: "Buy", S: C, Name: c08N1},
			reg(C, c08N1), {Kind: "Buy", S: A, Name: c08N1}, {Kind: "Delist", S: B, Name: c08N1}},
		// spellings: upper-case buyer / receiver / bidder
		{reg(A, c08N1), {Kind: "List", S: A, Name: c08N1, Denom: "ujkl", Amt: 1}, {Kind: "Buy", S: B, Up: true, Name: c08N1}, {Kind: "Transfer", S: B, Name: c08N1, T: C},
			{Kind: "List", S: B, Up: true, Name: c08N1, Denom: "ujkl", Amt: 2}, {Kind: "Buy", S: B, Name: c08N1}, {Kind: "Buy", S: C, Name: c08N1},
			{Kind: "Bid", S: A, Up: true, Name: c08N1, Denom: "ujkl", Amt: 40}, {Kind: "CancelBid", S: A, Up: true, Name: c08N1}, {Kind: "AcceptBid", S: C, Name: c08N1, T: A, TUp: true}, {Kind: "AcceptBid", S: C, Name: c08N1, T: A},
			{Kind: "Transfer", S: A, Name: c08N1, T: B, TUp: true}, {Kind: "Update", S: B, Name: c08N1, Data: "x"}, {Kind: "AddRecord", S: B, Up: true, Name: c08N1, Rec: "Www", Val: "v", Data: "d"},
			{Kind: "AddRecord", S: B, Up: true, Name: c08N1, Rec: "Www", Val: "v", Data: "d"}, {Kind: "AddRecord", S: B, Up: true, Name: c08N1, Rec: "www", Val: "v", Data: "d"}, {Kind: "DelRecord", S: B, Up: true, Name: "www." + c08N1}},
		// aliased spelling of the listing key, init names, records, primary
		{reg(A, c08N1), {Kind: "List", S: A, Name: "fooxjkl", Denom: "ujkl", Amt: 3}, {Kind: "List", S: A, Name: c08N1, Denom: "ujkl", Amt: 4}, {Kind: "Transfer", S: A, Name: c08N1, T: B}, {Kind: "Buy", S: C, Name: "fooxjkl"}, {Kind: "Buy", S: C, Name: "Foo.jkl"},
			{Kind: "Init", S: A}, {Kind: "Init", S: A}, {Kind: "Init", S: B}, {Kind: "SetHeight", H: 3}, {Kind: "Init", S: B, Up: true}, {Kind: "MakePrimary", S: C, Name: c08N1}, {Kind: "RegisterOld", S: C, Name: c08N2, Years: 2, Data: "z"},
			{Kind: "Register", S: C, Name: "a b.jkl", Years: 1, Data: "q", Prim: true}, {Kind: "Register", S: C, Name: c08N2, Years: 0, Data: "z"}, {Kind: "Register", S: C, Name: c08N2, Years: 1 << 62, Data: "z"},
			{Kind: "Register", S: 3, Name: "poor.jkl", Years: 1, Data: ""}, {Kind: "Bid", S: 3, Name: c08N1, Denom: "ujkl", Amt: 1001}, {Kind: "Bid", S: 3, Name: c08N1, Denom: "ujkl", Amt: 1000}, {Kind: "Bid", S: 3, Name: c08N1, Denom: "ujkl", Amt: 1000},
			{Kind: "Bid", S: 3, Name: c08N1, Denom: "ujkl,5uatom", Amt: 7}, {Kind: "Bid", S: 3, Name: c08N1, Denom: "ujkl", Amt: 0}, {Kind: "Bid", S: 3, Name: c08N1, Denom: "ujkl", Amt: -4}, {Kind: "CancelBid", S: 3, Name: c08N1}},
	}
	long := strings.Repeat("abcdefghij", 7) + ".jkl" // 70 characters in front of the TLD: nobody can register it, bids still escrow
	two63, two63m1, two64p := "9223372036854775808", "9223372036854775807", "18446744073709551621"
	hs = append(hs,
		// a bid on a name nobody owns (and nobody can own) is escrowed and comes back in full on cancel
		[]c08Op{{Kind: "Bid", S: C, Name: long, Denom: "ujkl", Amt: 321}, {Kind: "Bid", S: B, Name: "nobody.jkl", Denom: "uatom", Amt: 5}, {Kind: "CancelBid", S: C, Name: long},
			{Kind: "CancelBid", S: B, Name: "nobody.jkl"}, {Kind: "CancelBid", S: C, Name: long}, reg(A, long)},
		// bids of an 18-decimal denom around 2^63 base units: cancelled once, accepted once, never twice
		[]c08Op{reg(A, c08N1), {Kind: "Bid", S: C, Name: c08N1, Denom: "ibc/27394FB092D2ECCD56123C74F36E4C1F926001CEADA9CA97EA622B25F41E5EB2", Big: two63}, {Kind: "Bid", S: B, Name: c08N1, Denom: "ibc/27394FB092D2ECCD56123C74F36E4C1F926001CEADA9CA97EA622B25F41E5EB2", Big: two64p}, {Kind: "CancelBid", S: C, Name: c08N1},
			{Kind: "CancelBid", S: C, Name: c08N1}, {Kind: "AcceptBid", S: A, Name: c08N1, T: B}, {Kind: "AcceptBid", S: A, Name: c08N1, T: B}, {Kind: "CancelBid", S: B, Name: c08N1},
			{Kind: "Bid", S: C, Name: c08N1, Denom: "ibc/27394FB092D2ECCD56123C74F36E4C1F926001CEADA9CA97EA622B25F41E5EB2", Big: two63m1}, {Kind: "Bid", S: A, Name: c08N1, Denom: "ibc/27394FB092D2ECCD56123C74F36E4C1F926001CEADA9CA97EA622B25F41E5EB2", Big: two63}, {Kind: "AcceptBid", S: B, Name: c08N1, T: A}, {Kind: "CancelBid", S: C, Name: c08N1},
			{Kind: "List", S: A, Name: c08N1, Denom: "ibc/27394FB092D2ECCD56123C74F36E4C1F926001CEADA9CA97EA622B25F41E5EB2", Big: two64p}, {Kind: "Buy", S: C, Name: c08N1}})
	// bids on a name written with a blank inside (only the TLD of a bid's name is checked): its slot is its own, a
	// second bid replaces and refunds the first, cancelling it hands back exactly what it holds, the blank-less
	// neighbour is another slot
	hs = append(hs, []c08Op{{Kind: "Bid", S: C, Name: "my name.jkl", Denom: "ujkl", Amt: 100}, {Kind: "Bid", S: C, Name: "my name.jkl", Denom: "ujkl", Amt: 250},
		{Kind: "Bid", S: C, Name: "myname.jkl", Denom: "ujkl", Amt: 70}, {Kind: "Bid", S: B, Name: " my  name.jkl", Denom: "ujkl", Amt: 11}, {Kind: "CancelBid", S: C, Name: "my name.jkl"},
		{Kind: "CancelBid", S: C, Name: "my name.jkl"}, {Kind: "CancelBid", S: C, Name: "myname.jkl"}, {Kind: "CancelBid", S: B, Name: " my  name.jkl"}, {Kind: "CancelBid", S: B, Name: "myname.jkl"}})
	// a record of A's name whose label spells B's name: messages in the record form "harbor.quay.jkl" never reach harbor.jkl
	hs = append(hs, []c08Op{reg(A, "quay.jkl"), reg(B, "harbor.jkl"), {Kind: "AddRecord", S: A, Name: "quay.jkl", Rec: "harbor", Val: c08AddrOf(A), Data: "rec"},
		{Kind: "Update", S: A, Name: "harbor.quay.jkl", Data: "taken"}, {Kind: "Transfer", S: A, Name: "harbor.quay.jkl", T: C}, {Kind: "List", S: A, Name: "harbor.quay.jkl", Denom: "ujkl", Amt: 5},
		{Kind: "Buy", S: C, Name: "harbor.quay.jkl"}, {Kind: "Bid", S: C, Name: "harbor.quay.jkl", Denom: "ujkl", Amt: 9}, {Kind: "AcceptBid", S: A, Name: "harbor.quay.jkl", T: C},
		{Kind: "AddRecord", S: A, Name: "harbor.quay.jkl", Rec: "deep", Val: "v", Data: "d"}, {Kind: "DelRecord", S: A, Name: "harbor.quay.jkl"}, {Kind: "MakePrimary", S: A, Name: "harbor.quay.jkl"},
		{Kind: "CancelBid", S: C, Name: "harbor.quay.jkl"}, {Kind: "Update", S: B, Name: "harbor.jkl", Data: "mine"}})
	// a listing withdrawn under another spelling of the name is withdrawn: nobody buys through it afterwards
	hs = append(hs, []c08Op{reg(A, c08N1), {Kind: "List", S: A, Name: c08N1, Denom: "ujkl", Amt: 900}, {Kind: "Delist", S: A, Name: "Foo.jkl"}, {Kind: "Buy", S: C, Name: c08N1},
		{Kind: "List", S: A, Name: "FOO.jkl", Denom: "ujkl", Amt: 901}, {Kind: "Delist", S: A, Name: "fOO.jkl"}, {Kind: "Buy", S: B, Name: "foo.jkl"}, {Kind: "Update", S: A, Name: c08N1, Data: "kept"}})
	// MsgInit hands out a generated name: never one somebody holds (the neighbours of the name of height 700 are paid
	// for by A; B is served, C and the poor account initialise in the same block)
	{
		trap := []c08Op{{Kind: "SetHeight", H: 700}}
		for k := 1; k <= 6; k++ {
			trap = append(trap, reg(A, rnstypes.MakeName(700+k, 700)+".jkl"))
		}
		trap = append(trap, c08Op{Kind: "Init", S: B}, c08Op{Kind: "Init", S: C}, c08Op{Kind: "Init", S: 3}, c08Op{Kind: "Init", S: A}, c08Op{Kind: "SetHeight", H: 701}, c08Op{Kind: "Init", S: C},
			c08Op{Kind: "Update", S: A, Name: rnstypes.MakeName(706, 700) + ".jkl", Data: "still-mine"})
		hs = append(hs, trap)
		// ... and the very name a height generates, paid for beforehand by A: the initialisation in that block does not get it
		hs = append(hs, []c08Op{{Kind: "SetHeight", H: 20}, reg(A, rnstypes.MakeName(900, 900)+".jkl"), reg(A, rnstypes.MakeName(901, 901)+".jkl"), {Kind: "SetHeight", H: 900}, {Kind: "Init", S: B},
			{Kind: "Update", S: A, Name: rnstypes.MakeName(900, 900) + ".jkl", Data: "still-mine"}, {Kind: "Update", S: B, Name: rnstypes.MakeName(900, 900) + ".jkl", Data: "taken"},
			{Kind: "SetHeight", H: 901}, {Kind: "Init", S: B}, {Kind: "Init", S: C}, {Kind: "Transfer", S: A, Name: rnstypes.MakeName(901, 901) + ".jkl", T: 3}})
	}
	for i, h := range hs {
		if err := g.fresh(); err != nil {
			return err
		}
		g.chain(h, fmt.Sprintf("corpus-%d", i))
	}
	return nil
}

func (g *c08Run) exhaustive() error {
	A, B, C := 0, 1, 2
	type plan struct {
		tag          string
		seed         []c08Op
		upB          bool
		quick, thoro int
	}
	plans := []plan{
		{"bfs-seeded", []c08Op{
			{Kind: "Register", S: A, Name: c08N1, Years: 1, Data: "{}"}, {Kind: "Register", S: B, Name: c08N2, Years: 1, Data: "{}"},
			{Kind: "List", S: A, Name: c08N1, Denom: "ujkl", Amt: 777}, {Kind: "Bid", S: C, Name: c08N1, Denom: "ujkl", Amt: 100}}, false, 3, 4},
		{"bfs-fresh", nil, false, 2, 3},
		{"bfs-upper", []c08Op{
			{Kind: "Register", S: A, Name: c08N1, Years: 1, Data: "{}"}, {Kind: "Transfer", S: A, Name: c08N1, T: B, TUp: true},
			{Kind: "Register", S: B, Up: true, Name: c08N2, Years: 1, Data: "{}"}, {Kind: "Bid", S: B, Up: true, Name: c08N2, Denom: "ujkl", Amt: 100}}, true, 2, 3},
	}
	for _, p := range plans {
		if err := g.fresh(); err != nil {
			return err
		}
		if err := g.seed(p.seed); err != nil {
			return err
		}
		g.bfs(c08Alphabet(p.upB), g.r.Scale(p.quick, p.thoro), p.tag, p.seed)
	}
	return nil
}

func (g *c08Run) random() error {
	p := g.r.Rng
	names := []string{c08N1, c08N1, c08N1, "fooxjkl", "Foo.jkl", c08N2, c08N2, "a.jkl", "x.y.jkl", "FOO.JKL", "jkl", "baribc", "f oo.jkl", "foo .jkl"}
	nh := g.r.Scale(60, 1500)
	for k := 0; k < nh; k++ {
		if err := g.fresh(); err != nil {
			return err
		}
		w := g.w
		n := 5 + p.Intn(26)
		ops := []c08Op{}
		pre0 := w.observe()
		pre := pre0
		steps := []c08Step{}
		for i := 0; i < n; i++ {
			o := c08Op{S: p.Intn(c08NUsers), Up: p.Chance(1, 5), Name: PickOne(p, names)}
			if o.S == 3 && p.Chance(1, 2) {
				o.S = p.Intn(3)
			}
			// state-directed choices
			var owned []c08Name
			for _, nr := range pre.Names {
				owned = append(owned, nr)
			}
			pickOwner := func() {
				if len(owned) > 0 && p.Chance(4, 5) {
					nr := PickOne(p, owned)
					o.Name = nr.KeyStr
					if nr.Value.ID >= 2 && p.Chance(5, 6) {
						o.S, o.Up = int(nr.Value.ID-2), nr.Value.Up
						if p.Chance(1, 8) {
							o.Up = !o.Up
						}
					}
				}
			}
			switch x := p.Intn(100); {
			case x < 14:
				o.Kind = PickOne(p, []string{"Register", "Register", "RegisterOld"})
				o.Years = PickOne(p, []int64{1, 1, 1, 2, 0, -1, 3})
				o.Data, o.Prim = PickOne(p, []string{"{}", "data", ""}), p.Bool()
				if p.Chance(1, 3) {
					pickOwner() // renewal or take-over attempt
					if p.Chance(1, 2) {
						o.S = p.Intn(3)
					}
				}
			case x < 26:
				o.Kind = "List"
				pickOwner()
				o.Denom, o.Amt = PickOne(p, []string{"ujkl", "ujkl", "uatom", "nosuch"}), PickOne(p, []int64{0, 1, 777, 1000, 1001, 1_000_000, 2_000_000_000_000, -5})
			case x < 31:
				o.Kind = "Delist"
				if len(pre.Sales) > 0 && p.Chance(4, 5) {
					s := PickOne(p, pre.Sales)
					o.Name = s.KeyStr
					if s.Owner.ID >= 2 && p.Chance(3, 4) {
						o.S, o.Up = int(s.Owner.ID-2), s.Owner.Up
					}
				}
			case x < 45:
				o.Kind = "Buy"
				if len(pre.Sales) > 0 && p.Chance(5, 6) {
					o.Name = PickOne(p, pre.Sales).KeyStr
				}
			case x < 60:
				o.Kind = "Bid"
				if len(owned) > 0 && p.Chance(3, 4) {
					o.Name = PickOne(p, owned).KeyStr
				}
				if len(pre.Bids) > 0 && p.Chance(1, 3) { // repeated bid on one slot
					b := PickOne(p, pre.Bids)
					o.Name, o.S = b.FullStr, int(b.KeyAddr.ID-2)
				}
				o.Denom, o.Amt = PickOne(p, []string{"ujkl", "ujkl", "ujkl", "uatom", "nosuch", "ujkl,5uatom"}), PickOne(p, []int64{0, 1, 50, 100, 1000, 1001, 1_000_000, 2_000_000_000_000, -3})
				if p.Chance(1, 8) {
					o.Denom, o.Big = "ibc/27394FB092D2ECCD56123C74F36E4C1F926001CEADA9CA97EA622B25F41E5EB2", PickOne(p, []string{"9223372036854775807", "9223372036854775808", "18446744073709551621", "1000000000000000000"})
				}
				if p.Chance(1, 12) {
					o.Name = strings.Repeat("abcdefghij", 7) + PickOne(p, []string{".jkl", ".ibc"})
				}
			case x < 68:
				o.Kind = "CancelBid"
				if len(pre.Bids) > 0 && p.Chance(5, 6) {
					b := PickOne(p, pre.Bids)
					o.Name = b.FullStr
					if p.Chance(4, 5) {
						o.S = int(b.KeyAddr.ID - 2)
					}
				}
			case x < 78:
				o.Kind = "AcceptBid"
				o.T, o.TUp = p.Intn(c08NUsers), p.Chance(1, 6)
				if len(pre.Bids) > 0 && p.Chance(5, 6) {
					b := PickOne(p, pre.Bids)
					o.Name, o.T = b.FullStr, int(b.KeyAddr.ID-2)
					if n, tld, ok := w.optKey(b.FullStr); ok {
						if nr := pre.name(n + "." + tld); nr != nil && nr.Value.ID >= 2 && p.Chance(4, 5) {
							o.S = int(nr.Value.ID - 2)
						}
					}
				}
			case x < 86:
				o.Kind = "Transfer"
				pickOwner()
				o.T, o.TUp = p.Intn(c08NUsers), p.Chance(1, 5)
			case x < 89:
				o.Kind = "Update"
				pickOwner()
				o.Data = PickOne(p, []string{"{}", "u1", "u2"})
			case x < 92:
				o.Kind = "AddRecord"
				pickOwner()
				o.Rec, o.Val, o.Data = PickOne(p, []string{"www", "Www", "mail"}), PickOne(p, []string{"v", "a.b", c08AddrOf(o.S)}), "d"
			case x < 94:
				o.Kind = "DelRecord"
				pickOwner()
				o.Name = PickOne(p, []string{"www.", "mail.", ""}) + o.Name
			case x < 96:
				o.Kind = "Init"
			case x < 97:
				o.Kind = "MakePrimary"
			default:
				o = c08Op{Kind: "SetHeight", H: pre.Height + 1 + p.I64n(5)}
				if len(owned) > 0 && p.Chance(2, 3) {
					e := PickOne(p, owned).Expires
					h := e + int64(p.Intn(3)) - 1
					if h > pre.Height {
						o.H = h
					}
				}
			}
			ops = append(ops, o)
			st := g.one(pre, o, append([]c08Op{}, ops...), "random")
			steps = append(steps, st)
			pre = st.post
			if w.err != nil {
				return w.err
			}
		}
		outs := make([]string, len(steps))
		for i, s := range steps {
			outs[i] = s.out
		}
		g.r.Case("hist", fmt.Sprintf("Chain %s\n   %s", pre0.str, c08StepsCoq(steps)), map[string]interface{}{"kind": "chain", "source": "random", "ops": ops, "outs": outs})
	}
	return nil
}

func runC08(r *RunCtx, which string) error {
	r.Sum.Rule = "RNS histories on the assembled app: corpus histories (stale-listing purchase, replaced bid), breadth-first exploration of all operation sequences over 3 accounts x 2 names up to depth 3 (quick) / 4 (thorough) from seeded states with state memoisation, random histories of up to 30 operations; one evaluation = one executed operation with monitors and a model step; non-trivial = distinct (pre-state, operation) pairs whose message succeeded"
	r.Group("hist", "From Coq Require Import Uint63.\nFrom JK Require Import Base.AList Model.Rns Corr.C08.", "c08_case", "c08_ok")
	g := &c08Run{r: r, mon: &c08Mon{r: r, which: which}}
	defer func() {
		if g.w != nil {
			g.w.e.Close()
		}
	}()
	if err := g.deterministic(); err != nil {
		return err
	}
	if g.w.err != nil {
		return g.w.err
	}
	if err := g.restartTwin(); err != nil {
		return err
	}
	if g.w.err != nil {
		return g.w.err
	}
	if err := g.exhaustive(); err != nil {
		return err
	}
	if g.w.err != nil {
		return g.w.err
	}
	if err := g.random(); err != nil {
		return err
	}
	if g.w.err != nil {
		return g.w.err
	}
	ids := make([]string, 0, len(g.w.strs))
	for s := range g.w.strs {
		ids = append(ids, s)
	}
	sort.Strings(ids)
	r.Sum.Extra = map[string]interface{}{"strings": len(ids)}
	return nil
}
