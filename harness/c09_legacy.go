package main

// C09, a genesis with bids of accepted but unusual shape: a chain can be started from a genesis whose open bids were
// written by other software than today's handlers - a name as typed with capitals beside its lower-case form, a bidder
// spelled in upper case; Validate accepts them (the index only has to be unique) and the module account is funded with
// exactly what they escrow.  The chain then does what a chain does without any bidder's message: the migrations from
// the recorded consensus versions, a restart from its own export.  The module account holds exactly the sum of the
// open bids before and after.  Monitors only.

import (
	"encoding/json"
	"fmt"
	"os"
	"path/filepath"
	"strings"

	sdk "github.com/cosmos/cosmos-sdk/types"
	"github.com/cosmos/cosmos-sdk/types/module"
	minttypes "github.com/jackalLabs/canine-chain/v4/x/jklmint/types"
	"github.com/jackalLabs/canine-chain/v4/x/rns"
	rnstypes "github.com/jackalLabs/canine-chain/v4/x/rns/types"
)

func c09LegacyBidsTwin(r *RunCtx) error {
	e, err := NewEnv()
	if err != nil {
		return err
	}
	defer e.Close()
	e.NoGhost = true
	a, b := Acct(1).String(), Acct(2).String()
	gs := *rns.ExportGenesis(e.Ctx, e.App.RnsKeeper)
	bid := func(bidder, name string, amt int64) {
		gs.BidsList = append(gs.BidsList, rnstypes.Bids{Index: bidder + name, Name: name, Bidder: bidder, Price: fmt.Sprintf("%dujkl", amt)})
	}
	bid(a, "Nuggie.jkl", 100)
	bid(a, "nuggie.jkl", 250)
	bid(strings.ToUpper(b), "nuggie.jkl", 31)
	bid(b, "nuggie.jkl", 17)
	bid(b, "other name.jkl", 5)
	total := int64(100 + 250 + 31 + 17 + 5)
	if err := gs.Validate(); err != nil {
		r.Hist("legacy-genesis", "refused by Validate: "+err.Error())
		return nil // not a genesis a chain can start from
	}
	trace := []interface{}{map[string]interface{}{"op": "InitGenesis of rns with five open bids (a name in two letter cases, a bidder in two spellings, a name with a blank), the module account funded with their sum", "bids": gs.BidsList, "escrow_ujkl": total}}
	c := sdk.NewCoins(sdk.NewInt64Coin("ujkl", total))
	if err := e.App.BankKeeper.MintCoins(e.Ctx, minttypes.ModuleName, c); err != nil {
		return err
	}
	if err := e.App.BankKeeper.SendCoinsFromModuleToModule(e.Ctx, minttypes.ModuleName, rnstypes.ModuleName, c); err != nil {
		return err
	}
	if pn := Guard(func() { rns.InitGenesis(e.Ctx, e.App.RnsKeeper, gs) }); pn != "" {
		r.Hist("legacy-genesis", "InitGenesis panics: "+pn)
		return nil
	}
	mod := e.ModAddr(rnstypes.ModuleName)
	conserved := func(when string) bool {
		sum := sdk.NewCoins()
		n := 0
		for _, bd := range e.App.RnsKeeper.GetAllBids(e.Ctx) {
			if p, err := sdk.ParseCoinsNormalized(bd.Price); err == nil {
				sum = sum.Add(p...)
			}
			n++
		}
		held := e.App.BankKeeper.GetAllBalances(e.Ctx, mod)
		r.Count("legacy-bids:"+when, n > 0)
		if !held.IsEqual(sum) {
			r.Finding("C09/escrow-differs-from-open-bids/"+when, fmt.Sprintf("%s: the rns module holds %s but the %d open bids sum to %s - and no bidder, owner or anybody else sent a message", when, held, n, sum), map[string]interface{}{"trace": trace})
			return false
		}
		return true
	}
	if !conserved("after InitGenesis") {
		return nil
	}
	// the migrations from the recorded consensus versions (what an upgrade handler runs)
	mm, cfg, _ := c13AppInternals(e)
	rawVM, err := os.ReadFile(filepath.Join(c19VerifRoot(), "corpus", "C13", "module_versions.json"))
	if err != nil {
		return err
	}
	recorded := module.VersionMap{}
	if err := json.Unmarshal(rawVM, &recorded); err != nil {
		return err
	}
	from := module.VersionMap{}
	for name, v := range mm.GetVersionMap() {
		from[name] = v
		if rv, ok := recorded[name]; ok && rv < v {
			from[name] = rv
		}
	}
	var merr error
	pn := Guard(func() { _, merr = mm.RunMigrations(e.Ctx, cfg, from) })
	trace = append(trace, map[string]interface{}{"op": "upgrade: RunMigrations from the recorded versions", "panic": pn, "err": fmt.Sprint(merr)})
	if pn != "" || merr != nil {
		r.Finding("C09/legacy/migration-failed", fmt.Sprintf("the migrations fail on a chain started from this genesis: %s %v", pn, merr), map[string]interface{}{"trace": trace})
		return nil
	}
	if !conserved("after the migrations") {
		return nil
	}
	// a restart from the chain's own export
	out := *rns.ExportGenesis(e.Ctx, e.App.RnsKeeper)
	for _, bd := range e.App.RnsKeeper.GetAllBids(e.Ctx) {
		e.App.RnsKeeper.RemoveBids(e.Ctx, bd.Index)
	}
	pn = Guard(func() { rns.InitGenesis(e.Ctx, e.App.RnsKeeper, out) })
	trace = append(trace, map[string]interface{}{"op": "export rns, import it again", "panic": pn})
	if pn == "" {
		conserved("after a restart from the export")
	}
	r.Hist("legacy-genesis", "escrow equals the open bids throughout")
	return nil
}
