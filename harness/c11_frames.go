package main

// C11 part B — own-resource frames, step-wise on the assembled app.
// Families: oracle feeds, rns primary pointers, storage files (DeleteFile), wasm binding
// PerformPostFile / DispatchMsg, notification inboxes and block lists.  In every family each
// account, in the lower- and the upper-case spelling of its address, replays every owner-only
// message against every resource.  Per executed message: observed pre-state, message, outcome,
// observed post-state go to the Coq model (Corr/C11.v); the monitors state the property on the
// implementation alone: a resource whose owner is not the signer must not change.

import (
	"reflect"
	"encoding/hex"
	"encoding/json"
	"fmt"
	"sort"
	"strconv"
	"strings"
	"time"

	wasmkeeper "github.com/CosmWasm/wasmd/x/wasm/keeper"
	wasmvmtypes "github.com/CosmWasm/wasmvm/types"
	"github.com/cosmos/cosmos-sdk/store/prefix"
	"github.com/cosmos/cosmos-sdk/store/rootmulti"
	sdk "github.com/cosmos/cosmos-sdk/types"

	"github.com/jackalLabs/canine-chain/v4/wasmbinding"
	"github.com/jackalLabs/canine-chain/v4/wasmbinding/bindings"
	notiftypes "github.com/jackalLabs/canine-chain/v4/x/notifications/types"
	oracletypes "github.com/jackalLabs/canine-chain/v4/x/oracle/types"
	rnskeeper "github.com/jackalLabs/canine-chain/v4/x/rns/keeper"
	rnstypes "github.com/jackalLabs/canine-chain/v4/x/rns/types"
	storagekeeper "github.com/jackalLabs/canine-chain/v4/x/storage/keeper"
	storagetypes "github.com/jackalLabs/canine-chain/v4/x/storage/types"
)

// ---------------------------------------------------------------- ids

// c11Tab: canonical address strings of Acct(1..n) are accounts 1..n; every other string gets a
// fresh id on first sight.  A second table numbers opaque strings (names, data, senders).
type c11Tab struct {
	acc  map[string]int
	str  map[string]int
	next int
}

func newC11Tab(n int) *c11Tab {
	t := &c11Tab{acc: map[string]int{}, str: map[string]int{"": 0}, next: 100}
	for i := 1; i <= n; i++ {
		t.acc[Acct(i).String()] = i
	}
	return t
}

// spell: (account id, upper?) of an address string as a handler sees it
func (t *c11Tab) spell(s string) (int, bool) {
	canonical, up := s, false
	if a, err := sdk.AccAddressFromBech32(s); err == nil {
		canonical = a.String()
		up = s != canonical
	}
	id, ok := t.acc[canonical]
	if !ok {
		id = t.next
		t.next++
		t.acc[canonical] = id
	}
	return id, up
}

func (t *c11Tab) sp(s string) string {
	id, up := t.spell(s)
	return fmt.Sprintf("(%s, %s)", cN(uint64(id)), cBool(up))
}

func (t *c11Tab) acctN(s string) string { id, _ := t.spell(s); return cN(uint64(id)) }

// did: id of a feed's data string; the empty string is 0 (the model's initial data)
func (t *c11Tab) did(s string) string {
	if s == "" {
		return cN(0)
	}
	return t.sid("d:" + s)
}

func (t *c11Tab) sid(s string) string {
	id, ok := t.str[s]
	if !ok {
		id = len(t.str)
		t.str[s] = id
	}
	return cN(uint64(id))
}

func c11SameAccount(a, b string) bool {
	x, e1 := sdk.AccAddressFromBech32(a)
	y, e2 := sdk.AccAddressFromBech32(b)
	if e1 != nil || e2 != nil {
		return a == b
	}
	return x.Equals(y)
}

func c11Out(o string) string {
	if o == OutOk {
		return "Ok"
	}
	return "Fail" // a panic is reverted like a failure (and is C05's business)
}

func c11StoreKey(e *Env, name string) (sdk.StoreKey, error) {
	rs, ok := e.App.CommitMultiStore().(*rootmulti.Store)
	if !ok {
		return nil, fmt.Errorf("commit multistore is not a rootmulti.Store")
	}
	for k := range rs.GetStores() {
		if k.Name() == name {
			return k, nil
		}
	}
	return nil, fmt.Errorf("store %s not found", name)
}

// raw key/value pairs under a prefix of a module store, as the working context sees them
func c11RawKV(e *Env, store, pfx string) (map[string]string, error) {
	k, err := c11StoreKey(e, store)
	if err != nil {
		return nil, err
	}
	st := prefix.NewStore(e.Ctx.KVStore(k), []byte(pfx))
	it := st.Iterator(nil, nil)
	defer it.Close()
	res := map[string]string{}
	for ; it.Valid(); it.Next() {
		res[string(it.Key())] = string(it.Value())
	}
	return res, nil
}

func c11SortedKeys(m map[string]string) []string {
	ks := make([]string, 0, len(m))
	for k := range m {
		ks = append(ks, k)
	}
	sort.Strings(ks)
	return ks
}

// keys whose value differs between two snapshots (added, removed, rewritten)
func c11Changed(a, b map[string]string) []string {
	res := []string{}
	for k, v := range a {
		if w, ok := b[k]; !ok || w != v {
			res = append(res, k)
		}
	}
	for k := range b {
		if _, ok := a[k]; !ok {
			res = append(res, k)
		}
	}
	sort.Strings(res)
	return res
}

type c11Signer struct {
	i  int
	up bool
}

func (s c11Signer) str() string { return Spell(Acct(s.i), s.up) }

func c11AllSigners(n int) []c11Signer {
	res := []c11Signer{}
	for i := 1; i <= n; i++ {
		res = append(res, c11Signer{i, false}, c11Signer{i, true})
	}
	return res
}

func c11Shuffle[T any](p *PRNG, xs []T) {
	for i := len(xs) - 1; i > 0; i-- {
		j := p.Intn(i + 1)
		xs[i], xs[j] = xs[j], xs[i]
	}
}

func c11Frames(r *RunCtx) error {
	r.Group("frames", "From JK Require Import Model.OwnResource.\nFrom JK Require Import Corr.C11.", "c11_case", "c11_ok")
	for _, f := range []func(*RunCtx) error{c11Oracle, c11Rns, c11Storage, c11Wasm, c11Notif} {
		if err := f(r); err != nil {
			return err
		}
	}
	return nil
}

// ---------------------------------------------------------------- oracle

func c11Oracle(r *RunCtx) error {
	for run := 0; run < r.Scale(2, 14); run++ {
		e, err := NewEnv()
		if err != nil {
			return err
		}
		tab := newC11Tab(4)
		p := r.Rng
		params := e.App.OracleKeeper.GetParams(e.Ctx)
		if run%5 != 4 {
			params.Deposit = Acct(60).String() // the default is a cosmos1… address that never parses on this chain
		}
		e.App.OracleKeeper.SetParams(e.Ctx, params)
		for i := 1; i <= 3; i++ {
			if err := e.Fund(Acct(i), "ujkl", 350_000_000); err != nil {
				return err
			}
		}
		names := []string{"jklprice", "eth", "a/b", "price "}
		observe := func() (string, map[string]oracletypes.Feed) {
			fs := e.App.OracleKeeper.GetAllFeeds(e.Ctx)
			m := map[string]oracletypes.Feed{}
			sort.Slice(fs, func(i, j int) bool { return fs[i].Name < fs[j].Name })
			items := []string{}
			for _, f := range fs {
				m[f.Name] = f
				items = append(items, fmt.Sprintf("(%s, {| f_owner := %s; f_data := %s; f_time := %s |})", tab.sid("n:"+f.Name), tab.sp(f.Owner), tab.did(f.Data), cZ(f.LastUpdate.UnixNano())))
			}
			if len(items) == 0 {
				return "(@nil (N * feed))", m
			}
			return cList(items), m
		}
		stepNo := 0
		step := func(msg sdk.Msg) error {
			stepNo++
			e.At(int64(2+stepNo), T0.Add(time.Duration(stepNo)*6*time.Second))
			if msg.ValidateBasic() != nil {
				r.Hist("oracle", "validatebasic-rejects")
				return nil
			}
			preC, pre := observe()
			var op, signer, kind string
			switch m := msg.(type) {
			case *oracletypes.MsgCreateFeed:
				signer, kind = m.Creator, "create"
				fundsOK := false
				if a, err := sdk.AccAddressFromBech32(m.Creator); err == nil && e.Bal(a, "ujkl") >= 100_000_000 {
					if d, err := sdk.AccAddressFromBech32(e.App.OracleKeeper.GetParams(e.Ctx).Deposit); err == nil && !e.App.BankKeeper.BlockedAddr(d) {
						fundsOK = true
					}
				}
				op = fmt.Sprintf("(OCreate %s %s %s %s)", tab.sp(m.Creator), tab.sid("n:"+m.Name), cBool(fundsOK), cZ(e.Ctx.BlockTime().UnixNano()))
			case *oracletypes.MsgUpdateFeed:
				signer, kind = m.Creator, "update"
				op = fmt.Sprintf("(OUpdate %s %s %s %s)", tab.sp(m.Creator), tab.sid("n:"+m.Name), tab.did(m.Data), cZ(e.Ctx.BlockTime().UnixNano()))
			}
			// what a reader of each stored feed gets by name (the getter every handler and x/storage's price read use)
			byName := func(stored map[string]oracletypes.Feed) map[string]oracletypes.Feed {
				out := map[string]oracletypes.Feed{}
				for n := range stored {
					if f, ok := e.App.OracleKeeper.GetFeed(e.Ctx, n); ok {
						out[n] = f
					}
				}
				return out
			}
			preRead := byName(pre)
			res := e.Run(msg)
			postC, post := observe()
			postRead := byName(pre)
			desc := map[string]interface{}{"family": "oracle", "msg": fmt.Sprintf("%T %+v", msg, msg), "out": res.Out, "err": res.Err, "pre": preC, "post": postC}
			for n, f := range pre {
				if g, ok := preRead[n]; !ok || g != f {
					r.Finding("C11/oracle/feed-read-by-name-is-another-record", fmt.Sprintf("reading feed %q by name does not return the record stored under that name", n), desc)
				}
				if pr, ok := preRead[n]; ok {
					if po, still := postRead[n]; (!still || po != pr) && !c11SameAccount(f.Owner, signer) {
						r.Finding("C11/oracle/foreign-feed-changed", fmt.Sprintf("what a reader of feed %q (owned by %s) gets was changed by a message signed by %s", n, f.Owner, signer), desc)
					}
				}
			}
			own, present := false, false
			for n, f := range pre {
				g, still := post[n]
				if !still || g != f {
					if !c11SameAccount(f.Owner, signer) {
						r.Finding("C11/oracle/foreign-feed-changed", fmt.Sprintf("feed %q owned by %s was changed by a message signed by %s", n, f.Owner, signer), desc)
					}
					if still && g.Owner != f.Owner {
						r.Finding("C11/oracle/owner-restamped", fmt.Sprintf("the owner of feed %q changed", n), desc)
					}
				}
			}
			for n, g := range post {
				if _, was := pre[n]; !was && !c11SameAccount(g.Owner, signer) {
					r.Finding("C11/oracle/feed-created-in-foreign-name", fmt.Sprintf("feed %q created by %s is stamped with owner %s", n, signer, g.Owner), desc)
				}
			}
			var target string
			switch m := msg.(type) {
			case *oracletypes.MsgCreateFeed:
				target = m.Name
			case *oracletypes.MsgUpdateFeed:
				target = m.Name
			}
			if f, ok := pre[target]; ok {
				present = true
				own = c11SameAccount(f.Owner, signer)
			}
			r.Count(fmt.Sprintf("oracle:%s:%v:%v:%s:%v", kind, present, own, res.Out, signer == strings.ToUpper(signer)), present || res.Out == OutOk)
			r.Hist("oracle", fmt.Sprintf("%s/present=%v/own=%v/%s", kind, present, own, res.Out))
			r.Case("frames", fmt.Sprintf("OStep %s %s %s %s", preC, op, c11Out(res.Out), postC), desc)
			return nil
		}
		signers := c11AllSigners(4)
		for _, n := range names[:3] {
			s := PickOne(p, signers[:6])
			if err := step(&oracletypes.MsgCreateFeed{Creator: s.str(), Name: n}); err != nil {
				return err
			}
		}
		// duplicates by others, an unfunded creator
		_ = step(&oracletypes.MsgCreateFeed{Creator: PickOne(p, signers).str(), Name: names[0]})
		_ = step(&oracletypes.MsgCreateFeed{Creator: Acct(4).String(), Name: names[3]})
		// look-alike names (surrounding blanks, other case) of existing feeds, created by every signer: a feed
		// record is identified by its exact name, and nothing a stranger creates may land on someone else's feed
		for _, n := range names[:2] {
			for _, v := range []string{" " + n, n + " ", "\t" + n, strings.ToUpper(n), n + "\n", n + "-usd", n + ".", n + "!x", n + "#", n[:len(n)-1]} {
				_ = step(&oracletypes.MsgCreateFeed{Creator: PickOne(p, signers[:6]).str(), Name: v})
			}
		}
		type pair struct {
			s c11Signer
			n string
		}
		pairs := []pair{}
		for _, n := range append(append([]string{}, names...), names[0]+"-usd", names[1]+".") {
			for _, s := range signers {
				pairs = append(pairs, pair{s, n})
			}
		}
		c11Shuffle(p, pairs)
		for i, pr := range pairs {
			if err := step(&oracletypes.MsgUpdateFeed{Creator: pr.s.str(), Name: pr.n, Data: fmt.Sprintf("v%d", i%5)}); err != nil {
				return err
			}
		}
		for i := 0; i < 6; i++ {
			s := PickOne(p, signers)
			if p.Bool() {
				_ = step(&oracletypes.MsgCreateFeed{Creator: s.str(), Name: PickOne(p, names)})
			} else {
				_ = step(&oracletypes.MsgUpdateFeed{Creator: s.str(), Name: PickOne(p, names), Data: "z"})
			}
		}
		e.Close()
	}
	return nil
}

// ---------------------------------------------------------------- rns primary pointers

func c11Rns(r *RunCtx) error {
	for run := 0; run < r.Scale(2, 12); run++ {
		e, err := NewEnv()
		if err != nil {
			return err
		}
		tab := newC11Tab(4)
		p := r.Rng
		for i := 1; i <= 4; i++ {
			if err := e.Fund(Acct(i), "ujkl", 100_000_000_000); err != nil {
				return err
			}
		}
		// names registered through the real handler (sets the canonical pointer of a first-time owner)
		regs := []struct {
			s    c11Signer
			name string
			prim bool
		}{{c11Signer{1, false}, "alpha.jkl", false}, {c11Signer{2, true}, "bravo.jkl", true}, {c11Signer{1, false}, "charlie.jkl", p.Bool()}, {c11Signer{3, false}, "delta.ibc", false}}
		for _, g := range regs {
			res := e.Run(&rnstypes.MsgRegisterName{Creator: g.s.str(), Name: g.name, Years: 1, Data: "{}", SetPrimary: g.prim})
			r.Hist("rns", "setup-register/"+res.Out)
		}
		observe := func() (string, map[string]string, error) {
			kv, err := c11RawKV(e, rnstypes.StoreKey, rnstypes.PrimaryNameKeyPrefix)
			if err != nil {
				return "", nil, err
			}
			items := []string{}
			for _, k := range c11SortedKeys(kv) {
				items = append(items, fmt.Sprintf("(%s, %s)", tab.sp(strings.TrimSuffix(k, "/")), tab.sid(kv[k])))
			}
			if len(items) == 0 {
				return "(@nil (spelling * N))", kv, nil
			}
			return cList(items), kv, nil
		}
		names := []string{"alpha.jkl", "bravo.jkl", "ALPHA.jkl", "ghost.jkl", "delta.ibc", "charlie.jkl"}
		type pair struct {
			s c11Signer
			n string
		}
		pairs := []pair{}
		for _, n := range names {
			for _, s := range c11AllSigners(4) {
				pairs = append(pairs, pair{s, n})
			}
		}
		c11Shuffle(p, pairs)
		if !r.Thorough() {
			pairs = pairs[:30]
		}
		for _, pr := range pairs {
			msg := &rnstypes.MsgMakePrimary{Creator: pr.s.str(), Name: pr.n}
			if msg.ValidateBasic() != nil {
				r.Hist("rns", "validatebasic-rejects")
				continue
			}
			preC, pre, err := observe()
			if err != nil {
				return err
			}
			parsed := "None"
			if nm, tld, err := rnskeeper.GetNameAndTLD(strings.ToLower(msg.Name)); err == nil {
				parsed = "(Some " + tab.sid(nm+"."+tld) + ")"
			}
			res := e.Run(msg)
			postC, post, err := observe()
			if err != nil {
				return err
			}
			desc := map[string]interface{}{"family": "rns", "msg": fmt.Sprintf("%+v", msg), "out": res.Out, "err": res.Err, "pre": preC, "post": postC}
			for _, k := range c11Changed(pre, post) {
				if !c11SameAccount(strings.TrimSuffix(k, "/"), msg.Creator) {
					r.Finding("C11/rns/foreign-primary-changed", fmt.Sprintf("the primary-name pointer %q changed under a MakePrimary signed by %s", k, msg.Creator), desc)
				}
			}
			_, had := pre[msg.Creator+"/"]
			r.Count(fmt.Sprintf("rns:%v:%s:%v:%s", had, res.Out, pr.s.up, pr.n), true)
			r.Hist("rns", fmt.Sprintf("makeprimary/had=%v/%s", had, res.Out))
			r.Case("frames", fmt.Sprintf("PStep %s (PMake %s %s) %s %s", preC, tab.sp(msg.Creator), parsed, c11Out(res.Out), postC), desc)
		}
		// every other RNS message: it may write the signer's own pointer (a registration does), never anybody else's —
		// e.g. a transfer is signed by the sender only and must not touch the receiver's pointer
		others := []sdk.Msg{
			// a receiver that has never signed or received anything (certainly no pointer), a name registered for the purpose
			&rnstypes.MsgRegisterName{Creator: Acct(1).String(), Name: "golf.jkl", Years: 1, Data: "{}", SetPrimary: false},
			&rnstypes.MsgTransfer{Creator: Acct(1).String(), Name: "golf.jkl", Receiver: Acct(9).String()},
			&rnstypes.MsgTransfer{Creator: Acct(1).String(), Name: "alpha.jkl", Receiver: Acct(4).String()}, // 4 has no pointer yet
			&rnstypes.MsgRegisterName{Creator: Acct(4).String(), Name: "echo.jkl", Years: 1, Data: "{}", SetPrimary: false},
			&rnstypes.MsgTransfer{Creator: Acct(4).String(), Name: "echo.jkl", Receiver: Acct(2).String()},
			&rnstypes.MsgList{Creator: Acct(3).String(), Name: "delta.ibc", Price: sdk.NewInt64Coin("ujkl", 1000)},
			&rnstypes.MsgBuy{Creator: Acct(1).String(), Name: "delta.ibc"},
			&rnstypes.MsgBid{Creator: Acct(3).String(), Name: "charlie.jkl", Bid: sdk.NewInt64Coin("ujkl", 500)},
			&rnstypes.MsgAcceptBid{Creator: Acct(1).String(), Name: "charlie.jkl", From: Acct(3).String()},
			&rnstypes.MsgRegisterName{Creator: strings.ToUpper(Acct(3).String()), Name: "foxtrot.jkl", Years: 1, Data: "{}", SetPrimary: true},
			&rnstypes.MsgTransfer{Creator: Acct(2).String(), Name: "bravo.jkl", Receiver: strings.ToUpper(Acct(4).String())},
		}
		for _, msg := range others {
			if msg.ValidateBasic() != nil {
				r.Hist("rns", "validatebasic-rejects")
				continue
			}
			signer := msg.GetSigners()[0].String()
			raw := signer
			if c, ok := msg.(interface{ GetCreator() string }); ok {
				raw = c.GetCreator()
			}
			preC, pre, err := observe()
			if err != nil {
				return err
			}
			res := e.Run(msg)
			postC, post, err := observe()
			if err != nil {
				return err
			}
			desc := map[string]interface{}{"family": "rns", "msg": fmt.Sprintf("%T %+v", msg, msg), "out": res.Out, "err": res.Err, "pre": preC, "post": postC}
			own := "None"
			for _, k := range c11Changed(pre, post) {
				if !c11SameAccount(strings.TrimSuffix(k, "/"), raw) {
					r.Finding("C11/rns/foreign-primary-changed", fmt.Sprintf("the primary-name pointer %q changed under a %T signed by %s", k, msg, raw), desc)
				} else if strings.TrimSuffix(k, "/") == signer {
					own = "(Some " + tab.sid(post[k]) + ")"
				}
			}
			kind := strings.TrimPrefix(fmt.Sprintf("%T", msg), "*types.")
			r.Count(fmt.Sprintf("rns-other:%s:%s:%s", kind, res.Out, raw), true)
			r.Hist("rns", fmt.Sprintf("%s/%s", kind, res.Out))
			r.Case("frames", fmt.Sprintf("PStep %s (POther %s %s %s) %s %s", preC, tab.sp(raw), cBool(res.Out == OutOk), own, c11Out(res.Out), postC), desc)
		}
		e.Close()
	}
	return nil
}

// ---------------------------------------------------------------- storage files

type c11FileObs struct {
	keyOwner string
	file     storagetypes.UnifiedFile
}

// files by raw primary key
func c11Files(e *Env) map[string]c11FileObs {
	res := map[string]c11FileObs{}
	e.App.StorageKeeper.IterateAndParseFilesByMerkle(e.Ctx, false, func(key []byte, val storagetypes.UnifiedFile) bool {
		parts := strings.Split(string(key), "/")
		owner := ""
		if len(parts) >= 3 {
			owner = strings.Join(parts[1:len(parts)-2], "/")
		}
		res[string(key)] = c11FileObs{keyOwner: owner, file: val}
		return false
	})
	return res
}

func c11FileTerm(tab *c11Tab, f storagetypes.UnifiedFile) string {
	ps := make([]string, len(f.Proofs))
	for i, k := range f.Proofs {
		ps[i] = tab.sid("p:" + k)
	}
	pl := "(@nil N)"
	if len(ps) > 0 {
		pl = cList(ps)
	}
	return fmt.Sprintf("{| sf_owner := %s; sf_size := %s; sf_maxproofs := %s; sf_expires := %s; sf_proofs := %s |}", tab.sp(f.Owner), cZ(f.FileSize), cZ(f.MaxProofs), cZ(f.Expires), pl)
}

func c11FilesTerm(tab *c11Tab, fs map[string]c11FileObs) string {
	keys := make([]string, 0, len(fs))
	for k := range fs {
		keys = append(keys, k)
	}
	sort.Strings(keys)
	items := []string{}
	for _, k := range keys {
		o := fs[k]
		items = append(items, fmt.Sprintf("((%s, %s, %s), %s)", tab.sid("m:"+hex.EncodeToString(o.file.Merkle)), tab.sp(o.keyOwner), cZ(o.file.Start), c11FileTerm(tab, o.file)))
	}
	if len(items) == 0 {
		return "(@nil (fkey * sfile))"
	}
	return cList(items)
}

type c11StorageObs struct {
	files  map[string]c11FileObs
	proofs map[string]bool
	pay    map[string]int64
}

func c11ObserveStorage(e *Env, tab *c11Tab) (string, c11StorageObs) {
	o := c11StorageObs{files: c11Files(e), proofs: map[string]bool{}, pay: map[string]int64{}}
	pitems := []string{}
	for _, pr := range e.App.StorageKeeper.GetAllProofs(e.Ctx) {
		k := string(storagetypes.ProofKey(pr.Prover, pr.Merkle, pr.Owner, pr.Start))
		o.proofs[k] = true
	}
	pk := make([]string, 0, len(o.proofs))
	for k := range o.proofs {
		pk = append(pk, k)
	}
	sort.Strings(pk)
	for _, k := range pk {
		pitems = append(pitems, tab.sid("p:"+k))
	}
	pl := "(@nil N)"
	if len(pitems) > 0 {
		pl = cList(pitems)
	}
	pays := e.App.StorageKeeper.GetAllStoragePaymentInfo(e.Ctx)
	sort.Slice(pays, func(i, j int) bool { return pays[i].Address < pays[j].Address })
	yitems := []string{}
	for _, pi := range pays {
		o.pay[pi.Address] = pi.SpaceUsed
		yitems = append(yitems, fmt.Sprintf("(%s, %s)", tab.sp(pi.Address), cZ(pi.SpaceUsed)))
	}
	yl := "(@nil (spelling * Z))"
	if len(yitems) > 0 {
		yl = cList(yitems)
	}
	return fmt.Sprintf("{| s_files := %s; s_proofs := %s; s_pay := %s |}", c11FilesTerm(tab, o.files), pl, yl), o
}

func c11SetPay(e *Env, addr string, used int64) {
	e.App.StorageKeeper.SetStoragePaymentInfo(e.Ctx, storagetypes.StoragePaymentInfo{
		Start: T0.Add(-time.Hour), End: T0.Add(365 * 24 * time.Hour), SpaceAvailable: 1_000_000_000_000, SpaceUsed: used, Address: addr})
}

func c11Storage(r *RunCtx) error {
	for run := 0; run < r.Scale(2, 12); run++ {
		e, err := NewEnv()
		if err != nil {
			return err
		}
		tab := newC11Tab(4)
		p := r.Rng
		signers := c11AllSigners(4)
		for i := 1; i <= 4; i++ {
			if err := e.Fund(Acct(i), "ujkl", 50_000_000_000); err != nil {
				return err
			}
		}
		// storage plans: by lower-case address for 1..3, also by the upper-case string of account 1
		for i := 1; i <= 3; i++ {
			c11SetPay(e, Acct(i).String(), PickOne(p, []int64{0, 5, 1_000_000, 123_456_789}))
		}
		c11SetPay(e, strings.ToUpper(Acct(1).String()), 777)
		merkles := [][]byte{p.Bytes(32), p.Bytes(32), p.Bytes(32)}
		type fref struct {
			merkle []byte
			start  int64
		}
		refs := map[string]fref{}
		// files posted through the real handler: same merkle by several owners at the same height
		for h := int64(10); h <= 11; h++ {
			e.At(h, T0.Add(time.Duration(h)*6*time.Second))
			for _, s := range signers {
				if !p.Chance(2, 3) {
					continue
				}
				m := PickOne(p, merkles)
				exp := int64(0)
				if p.Chance(1, 4) {
					exp = h + 30000 // paid once
				}
				msg := &storagetypes.MsgPostFile{Creator: s.str(), Merkle: m, FileSize: 1 + p.I64n(5000), ProofType: 0, MaxProofs: 1 + p.I64n(4), Expires: exp, Note: "{}"}
				res := e.Run(msg)
				r.Hist("storage", "setup-postfile/"+res.Out)
				refs[fmt.Sprintf("%x/%d", m, h)] = fref{m, h}
			}
		}
		// provers attached to some files, one stray proof record
		for _, o := range c11Files(e) {
			if p.Chance(1, 2) {
				f := o.file
				for j := 0; j < 1+p.Intn(2); j++ {
					prover := Acct(70 + j).String()
					f.Proofs = append(f.Proofs, f.MakeProofKey(prover))
					e.App.StorageKeeper.SetProof(e.Ctx, storagetypes.FileProof{Prover: prover, Merkle: f.Merkle, Owner: f.Owner, Start: f.Start, LastProven: 5})
				}
				e.App.StorageKeeper.SetFile(e.Ctx, f)
			}
		}
		e.App.StorageKeeper.SetProof(e.Ctx, storagetypes.FileProof{Prover: Acct(75).String(), Merkle: merkles[0], Owner: Acct(9).String(), Start: 3})
		refs["ghost"] = fref{p.Bytes(32), 10}
		type pair struct {
			s c11Signer
			f fref
		}
		pairs := []pair{}
		rk := make([]string, 0, len(refs))
		for k := range refs {
			rk = append(rk, k)
		}
		sort.Strings(rk)
		for _, k := range rk {
			for _, s := range signers {
				pairs = append(pairs, pair{s, refs[k]})
			}
		}
		c11Shuffle(p, pairs)
		if !r.Thorough() && len(pairs) > 40 {
			pairs = pairs[:40]
		}
		e.At(20, T0.Add(200*time.Second))
		for _, pr := range pairs {
			msg := &storagetypes.MsgDeleteFile{Creator: pr.s.str(), Merkle: pr.f.merkle, Start: pr.f.start}
			if msg.ValidateBasic() != nil {
				r.Hist("storage", "validatebasic-rejects")
				continue
			}
			preC, pre := c11ObserveStorage(e, tab)
			res := e.Run(msg)
			postC, post := c11ObserveStorage(e, tab)
			desc := map[string]interface{}{"family": "storage", "msg": fmt.Sprintf("{Creator:%s Merkle:%x Start:%d}", msg.Creator, msg.Merkle, msg.Start), "out": res.Out, "err": res.Err, "pre": preC, "post": postC}
			hit, foreignPresent := false, false
			for k, o := range pre.files {
				if o.file.Owner != o.keyOwner {
					r.Finding("C11/storage/file-keyed-by-other-than-owner", "a stored file's Owner field differs from the owner in its key", desc)
				}
				same := string(o.file.Merkle) == string(msg.Merkle) && o.file.Start == msg.Start
				if same && !c11SameAccount(o.keyOwner, msg.Creator) {
					foreignPresent = true
				}
				q, still := post.files[k]
				if !still || q.file.String() != o.file.String() {
					hit = true
					if !c11SameAccount(o.keyOwner, msg.Creator) {
						r.Finding("C11/storage/foreign-file-deleted", fmt.Sprintf("file %s of %s was removed or changed by a DeleteFile signed by %s", k, o.keyOwner, msg.Creator), desc)
					}
				}
			}
			for k := range post.files {
				if _, was := pre.files[k]; !was {
					r.Finding("C11/storage/delete-created-file", "a DeleteFile created file "+k, desc)
				}
			}
			for a, u := range pre.pay {
				if v, ok := post.pay[a]; (!ok || v != u) && !c11SameAccount(a, msg.Creator) {
					r.Finding("C11/storage/foreign-payinfo-changed", fmt.Sprintf("the storage plan of %s changed under a DeleteFile signed by %s", a, msg.Creator), desc)
				}
			}
			for k := range pre.proofs {
				if !post.proofs[k] {
					// prover/owner/merkle/start/ : the owner inside the proof key
					parts := strings.Split(k, "/")
					if len(parts) < 2 || !c11SameAccount(parts[1], msg.Creator) {
						r.Finding("C11/storage/foreign-proof-removed", fmt.Sprintf("proof record %s removed by a DeleteFile signed by %s", k, msg.Creator), desc)
					}
				}
			}
			r.Count(fmt.Sprintf("storage:%v:%v:%v:%s", hit, foreignPresent, pr.s.up, res.Out), hit || foreignPresent)
			r.Hist("storage", fmt.Sprintf("delete/removed=%v/foreign-same-merkle-present=%v/%s", hit, foreignPresent, res.Out))
			r.Case("frames", fmt.Sprintf("SStep %s (SDelete %s %s %s) %s %s", preC, tab.sp(msg.Creator), tab.sid("m:"+hex.EncodeToString(msg.Merkle)), cZ(msg.Start), c11Out(res.Out), postC), desc)
		}
		e.Close()
	}
	return nil
}

// ---------------------------------------------------------------- wasm binding

type c11FakeMessenger struct{ calls int }

func (m *c11FakeMessenger) DispatchMsg(_ sdk.Context, _ sdk.AccAddress, _ string, _ wasmvmtypes.CosmosMsg) ([]sdk.Event, [][]byte, error) {
	m.calls++
	return nil, nil, nil
}

var _ wasmkeeper.Messenger = (*c11FakeMessenger)(nil)

func c11Wasm(r *RunCtx) error {
	for run := 0; run < r.Scale(1, 8); run++ {
		e, err := NewEnv()
		if err != nil {
			return err
		}
		tab := newC11Tab(4)
		p := r.Rng
		c20 := Acct(50)
		c32 := sdk.AccAddress(append([]byte("contract-address-32-bytes-long-"), byte(run), 7)[:32])
		contracts := []sdk.AccAddress{c20, c32}
		watch := []sdk.AccAddress{Acct(1), Acct(2), c20, c32}
		for _, a := range watch {
			if err := e.Fund(a, "ujkl", 50_000_000_000); err != nil {
				return err
			}
		}
		c11SetPay(e, c20.String(), 10)
		c11SetPay(e, Acct(1).String(), 20)
		if run%2 == 0 {
			c11SetPay(e, c32.String(), 30)
			c11SetPay(e, strings.ToUpper(c20.String()), 40)
		}
		fake := &c11FakeMessenger{}
		messenger := wasmbinding.CustomMessageDecorator(&e.App.FileTreeKeeper, &e.App.StorageKeeper)(fake)
		height := int64(30)
		type tc struct {
			contract sdk.AccAddress
			creator  string
			variant  string
			dispatch bool
		}
		cases := []tc{}
		for _, ct := range contracts {
			other := c20
			if ct.Equals(c20) {
				other = c32
			}
			for _, cr := range []string{ct.String(), strings.ToUpper(ct.String()), Acct(1).String(), strings.ToUpper(Acct(1).String()), other.String(), Acct(2).String()} {
				for _, v := range []string{"plan", "payonce", "invalid", "nil"} {
					for _, d := range []bool{false, true} {
						cases = append(cases, tc{ct, cr, v, d})
					}
				}
			}
		}
		c11Shuffle(p, cases)
		if !r.Thorough() {
			cases = cases[:48]
		}
		for _, c := range cases {
			height++
			e.At(height, T0.Add(time.Duration(height)*6*time.Second))
			var msg *storagetypes.MsgPostFile
			merkle := p.Bytes(32)
			switch c.variant {
			case "plan":
				msg = &storagetypes.MsgPostFile{Creator: c.creator, Merkle: merkle, FileSize: 1 + p.I64n(900), MaxProofs: 3, Note: "{}"}
			case "payonce":
				msg = &storagetypes.MsgPostFile{Creator: c.creator, Merkle: merkle, FileSize: 1 + p.I64n(900), MaxProofs: 3, Note: "{}", Expires: height + 40000}
			case "invalid":
				msg = &storagetypes.MsgPostFile{Creator: c.creator, Merkle: merkle, FileSize: 0, MaxProofs: 3, Note: "{}"}
			}
			pre := c11Files(e)
			preC := c11FilesTerm(tab, pre)
			_, preSt := c11ObserveStorage(e, tab)
			preBal := map[string]int64{}
			for _, a := range watch {
				preBal[a.String()] = e.Bal(a, "ujkl")
			}
			msgC, posted := "None", "None"
			if msg != nil {
				vb := msg.ValidateBasic() == nil
				msgC = fmt.Sprintf("(Some (%s, %s))", tab.sp(msg.Creator), cBool(vb))
				if vb {
					// what msgServer.PostFile does with this message on the pre-state (discarded)
					cctx, _ := e.Ctx.CacheContext()
					var perr error
					pn := Guard(func() {
						_, perr = storagekeeper.NewMsgServerImpl(e.App.StorageKeeper).PostFile(sdk.WrapSDKContext(cctx), msg)
					})
					if pn == "" && perr == nil {
						if f, ok := e.App.StorageKeeper.GetFile(cctx, msg.Merkle, msg.Creator, height); ok {
							posted = "(Some " + c11FileTerm(tab, f) + ")"
						}
					}
				}
			}
			out := OutOk
			var cerr error
			cctx, write := e.Ctx.CacheContext()
			callsBefore := fake.calls
			pn := Guard(func() {
				if c.dispatch {
					var custom []byte
					custom, _ = json.Marshal(bindings.JackalMsg{PostFile: msg})
					_, _, cerr = messenger.DispatchMsg(cctx, c.contract, "", wasmvmtypes.CosmosMsg{Custom: custom})
				} else {
					cerr = wasmbinding.PerformPostFile(&e.App.StorageKeeper, cctx, c.contract, msg)
				}
			})
			delegated := fake.calls != callsBefore
			if pn != "" {
				out = OutPanic
			} else if cerr != nil {
				out = OutFail
			} else {
				write()
			}
			post := c11Files(e)
			postC := c11FilesTerm(tab, post)
			_, postSt := c11ObserveStorage(e, tab)
			desc := map[string]interface{}{"family": "wasm", "contract": c.contract.String(), "msg": fmt.Sprintf("%+v", msg), "via_dispatch": c.dispatch, "out": out, "err": fmt.Sprint(cerr), "pre": preC, "post": postC}
			for k, o := range post {
				q, was := pre[k]
				if (!was || q.file.String() != o.file.String()) && o.keyOwner != c.contract.String() {
					r.Finding("C11/wasm/file-posted-in-foreign-name", fmt.Sprintf("contract %s posted or changed file %s in the name of %s", c.contract, k, o.keyOwner), desc)
				}
			}
			for k, o := range pre {
				if _, still := post[k]; !still && o.keyOwner != c.contract.String() {
					r.Finding("C11/wasm/file-posted-in-foreign-name", fmt.Sprintf("contract %s removed file %s of %s", c.contract, k, o.keyOwner), desc)
				}
			}
			if out == OutOk && !delegated && msg != nil && msg.Creator != c.contract.String() {
				r.Finding("C11/wasm/file-posted-in-foreign-name", fmt.Sprintf("contract %s successfully posted a file with creator %s", c.contract, msg.Creator), desc)
			}
			for a, u := range preSt.pay {
				if v, ok := postSt.pay[a]; (!ok || v != u) && a != c.contract.String() {
					r.Finding("C11/wasm/foreign-account-charged", fmt.Sprintf("the storage plan of %s changed under a post by contract %s", a, c.contract), desc)
				}
			}
			for _, a := range watch {
				if !a.Equals(c.contract) && e.Bal(a, "ujkl") != preBal[a.String()] {
					r.Finding("C11/wasm/foreign-account-charged", fmt.Sprintf("the balance of %s changed under a post by contract %s", a, c.contract), desc)
				}
			}
			own := msg != nil && msg.Creator == c.contract.String()
			r.Count(fmt.Sprintf("wasm:%s:%v:%v:%s:%d", c.variant, own, c.dispatch, out, len(c.contract)), msg != nil)
			r.Hist("wasm", fmt.Sprintf("%s/creator-is-contract=%v/dispatch=%v/%s", c.variant, own, c.dispatch, out))
			if delegated {
				// no post_file in the custom message: handed to the wrapped messenger, nothing of ours runs
				if len(c11Changed(map[string]string{"f": preC}, map[string]string{"f": postC})) != 0 {
					r.Finding("C11/wasm/file-posted-in-foreign-name", "a custom message without post_file changed the file index", desc)
				}
				continue
			}
			r.Case("frames", fmt.Sprintf("WStep %s %s %s %s %s %s %s %s", preC, tab.acctN(c.contract.String()), msgC, tab.sid("m:"+hex.EncodeToString(merkle)), cZ(height), posted, c11Out(out), postC), desc)
		}
		// every OTHER variant the binding offers (found by reflection over bindings.JackalMsg, so that a variant added
		// later is probed the day it appears): a contract sends it naming another account and that account's file.
		// Whatever the variant does, nothing of an account that did not sign may change.
		{
			victim := Acct(1)
			height++
			e.At(height, T0.Add(time.Duration(height)*6*time.Second))
			vm := p.Bytes(32)
			_ = e.Run(&storagetypes.MsgPostFile{Creator: victim.String(), Merkle: vm, FileSize: 77, MaxProofs: 3, Note: "{}"})
			vstart := height
			jt := reflect.TypeOf(bindings.JackalMsg{})
			for fi := 0; fi < jt.NumField(); fi++ {
				fld := jt.Field(fi)
				if fld.Name == "PostFile" || fld.Type.Kind() != reflect.Ptr || fld.Type.Elem().Kind() != reflect.Struct {
					continue
				}
				for _, ct := range contracts {
					inner := reflect.New(fld.Type.Elem())
					for k := 0; k < inner.Elem().NumField(); k++ {
						f, ft := inner.Elem().Field(k), fld.Type.Elem().Field(k)
						if !f.CanSet() {
							continue
						}
						switch {
						case f.Kind() == reflect.String:
							f.SetString(victim.String())
						case f.Kind() == reflect.Slice && f.Type().Elem().Kind() == reflect.Uint8:
							f.SetBytes(append([]byte{}, vm...))
						case f.Kind() == reflect.Int64 && strings.Contains(strings.ToLower(ft.Name), "start"):
							f.SetInt(vstart)
						case f.Kind() == reflect.Int64:
							f.SetInt(3)
						}
					}
					jm := reflect.New(jt)
					jm.Elem().Field(fi).Set(inner)
					custom, _ := json.Marshal(jm.Interface())
					height++
					e.At(height, T0.Add(time.Duration(height)*6*time.Second))
					pre := c11Files(e)
					_, preSt := c11ObserveStorage(e, tab)
					preBal := e.Bal(victim, "ujkl")
					cctx, write := e.Ctx.CacheContext()
					var cerr error
					pn := Guard(func() { _, _, cerr = messenger.DispatchMsg(cctx, ct, "", wasmvmtypes.CosmosMsg{Custom: custom}) })
					if pn == "" && cerr == nil {
						write()
					}
					post := c11Files(e)
					_, postSt := c11ObserveStorage(e, tab)
					desc := map[string]interface{}{"family": "wasm", "variant": fld.Name, "contract": ct.String(), "custom": string(custom), "panic": pn, "err": fmt.Sprint(cerr)}
					r.Hist("wasm", "other-variant:"+fld.Name)
					changed := e.Bal(victim, "ujkl") != preBal
					for k, o := range pre {
						if q, still := post[k]; o.keyOwner != ct.String() && (!still || q.file.String() != o.file.String()) {
							changed = true
						}
					}
					for k, o := range post {
						if _, was := pre[k]; !was && o.keyOwner != ct.String() {
							changed = true
						}
					}
					for a, u := range preSt.pay {
						if v, ok := postSt.pay[a]; (!ok || v != u) && a != ct.String() {
							changed = true
						}
					}
					if changed {
						r.Finding("C11/wasm/foreign-resource-changed/"+fld.Name, fmt.Sprintf("contract %s changed a file, plan or balance of %s, which signed nothing, through the custom message %s", ct, victim, string(custom)), desc)
					}
				}
			}
		}
		e.Close()
	}
	return nil
}

// ---------------------------------------------------------------- notifications

func c11ObserveNotif(e *Env, tab *c11Tab) (string, map[string]string, error) {
	kv, err := c11RawKV(e, notiftypes.StoreKey, notiftypes.NotificationsKeyPrefix)
	if err != nil {
		return "", nil, err
	}
	notes, blocks := []string{}, []string{}
	for _, k := range c11SortedKeys(kv) {
		first := strings.Index(k, "/")
		last := strings.LastIndex(k, "/")
		if first < 0 {
			return "", nil, fmt.Errorf("notification store key without a slash: %q", k)
		}
		if first == last {
			blocks = append(blocks, fmt.Sprintf("(%s, %s)", tab.acctN(k[:first]), tab.acctN(k[first+1:])))
			continue
		}
		tm, perr := strconv.ParseInt(k[last+1:], 10, 64)
		if perr != nil {
			return "", nil, fmt.Errorf("notification store key with an unparsable time: %q", k)
		}
		notes = append(notes, fmt.Sprintf("(%s, %s, %s)", tab.acctN(k[:first]), tab.sid("f:"+k[first+1:last]), cZ(tm)))
	}
	nl, bl := "(@nil (N * N * Z))", "(@nil (N * N))"
	if len(notes) > 0 {
		nl = cList(notes)
	}
	if len(blocks) > 0 {
		bl = cList(blocks)
	}
	return fmt.Sprintf("{| n_notes := %s; n_blocks := %s |}", nl, bl), kv, nil
}

func c11Notif(r *RunCtx) error {
	for run := 0; run < r.Scale(2, 12); run++ {
		e, err := NewEnv()
		if err != nil {
			return err
		}
		tab := newC11Tab(4)
		p := r.Rng
		signers := c11AllSigners(4)
		for i := 1; i <= 4; i++ {
			_ = e.Fund(Acct(i), "ujkl", 10_000_000_000)
		}
		res := e.Run(&rnstypes.MsgRegisterName{Creator: Acct(2).String(), Name: "bravo.jkl", Years: 1, Data: "{}", SetPrimary: true})
		r.Hist("notifications", "setup-register/"+res.Out)
		type note struct {
			from string
			tm   int64
		}
		notes := []note{}
		for k := 0; k < 3; k++ {
			e.At(int64(5+k), T0.Add(time.Duration(k+1)*7*time.Second))
			for _, s := range signers {
				if !p.Chance(1, 2) {
					continue
				}
				to := Acct(1 + p.Intn(4))
				res := e.Run(&notiftypes.MsgCreateNotification{Creator: s.str(), To: Spell(to, p.Chance(1, 4)), Contents: "{}"})
				r.Hist("notifications", "setup-create/"+res.Out)
				if res.Out == OutOk {
					notes = append(notes, note{Acct(s.i).String(), e.Ctx.BlockTime().UnixMicro()})
				}
			}
		}
		if len(notes) == 0 {
			notes = append(notes, note{Acct(1).String(), 1})
		}
		notes = append(notes, note{"x/y", 5}, note{Acct(2).String() + "/" + Acct(3).String(), 7}, note{strings.ToUpper(Acct(1).String()), notes[0].tm})
		// "from" is free text that ends up inside a store key: path-shaped values must not reach another inbox's entry
		for _, nt := range append([]note{}, notes[:len(notes)-3]...) {
			for v := 1; v <= 4; v++ {
				notes = append(notes, note{"../" + Acct(v).String() + "/" + nt.from, nt.tm})
			}
			notes = append(notes, note{"./" + nt.from, nt.tm}, note{nt.from + "/.", nt.tm}, note{nt.from + "/", nt.tm}, note{"/" + nt.from, nt.tm})
		}
		step := func(msg sdk.Msg, creator string, op func() string, kind string) error {
			if msg.ValidateBasic() != nil {
				r.Hist("notifications", "validatebasic-rejects")
				return nil
			}
			preC, pre, err := c11ObserveNotif(e, tab)
			if err != nil {
				return err
			}
			opC := op()
			res := e.Run(msg)
			postC, post, err := c11ObserveNotif(e, tab)
			if err != nil {
				return err
			}
			desc := map[string]interface{}{"family": "notifications", "msg": fmt.Sprintf("%T %+v", msg, msg), "out": res.Out, "err": res.Err, "pre": preC, "post": postC}
			ch := c11Changed(pre, post)
			canon := creator
			if a, err := sdk.AccAddressFromBech32(creator); err == nil {
				canon = a.String()
			}
			for _, k := range ch {
				if !strings.HasPrefix(k, canon+"/") {
					r.Finding("C11/notifications/foreign-entry-changed", fmt.Sprintf("entry %q changed under a %s signed by %s", k, kind, creator), desc)
				}
			}
			r.Count(fmt.Sprintf("notif:%s:%d:%s:%v", kind, len(ch), res.Out, creator != canon), true)
			r.Hist("notifications", fmt.Sprintf("%s/changed=%d/%s", kind, len(ch), res.Out))
			r.Case("frames", fmt.Sprintf("NStep %s %s %s %s", preC, opC, c11Out(res.Out), postC), desc)
			return nil
		}
		type pair struct {
			s c11Signer
			n note
		}
		pairs := []pair{}
		for _, n := range notes {
			for _, s := range signers {
				pairs = append(pairs, pair{s, n})
			}
		}
		c11Shuffle(p, pairs)
		// half of the quick budget goes to the path-shaped senders
		sort.SliceStable(pairs, func(i, j int) bool {
			return strings.Contains(pairs[i].n.from, "../") && !strings.Contains(pairs[j].n.from, "../")
		})
		if nt := len(pairs); !r.Thorough() && nt > 64 {
			k := 0
			for k < nt && strings.Contains(pairs[k].n.from, "../") {
				k++
			}
			if k > 32 {
				pairs = append(append([]pair{}, pairs[:32]...), pairs[k:]...)
			}
			if len(pairs) > 64 {
				pairs = pairs[:64]
			}
		}
		e.At(20, T0.Add(300*time.Second))
		// block lists first (so that deletes run with block entries present in the same store prefix)
		targetSets := [][]string{{Acct(1).String()}, {strings.ToUpper(Acct(3).String()), Acct(4).String()}, {"bravo.jkl"}, {"ghost.jkl"}, {Acct(2).String(), "not an address"}, {}}
		for _, s := range signers {
			for _, ts := range targetSets {
				if !r.Thorough() && !p.Chance(1, 2) {
					continue
				}
				msg := &notiftypes.MsgBlockSenders{Creator: s.str(), ToBlock: ts}
				if err := step(msg, msg.Creator, func() string {
					items := []string{}
					for _, t := range ts {
						if a, err := e.App.RnsKeeper.Resolve(e.Ctx, t); err == nil {
							items = append(items, "(Some "+tab.acctN(a.String())+")")
						} else {
							items = append(items, "None")
						}
					}
					l := "(@nil (option N))"
					if len(items) > 0 {
						l = cList(items)
					}
					return fmt.Sprintf("(NBlock %s %s)", tab.sp(msg.Creator), l)
				}, "block"); err != nil {
					return err
				}
			}
		}
		for _, pr := range pairs {
			msg := &notiftypes.MsgDeleteNotification{Creator: pr.s.str(), From: pr.n.from, Time: pr.n.tm}
			if err := step(msg, msg.Creator, func() string {
				return fmt.Sprintf("(NDelete %s %s %s)", tab.sp(msg.Creator), tab.sid("f:"+msg.From), cZ(msg.Time))
			}, "delete"); err != nil {
				return err
			}
		}
		e.Close()
	}
	return nil
}
