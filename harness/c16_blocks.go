package main

// C16, block routines: "... yields a live name for the term" block after block.  Names are registered; then the rns
// module's own BeginBlock and EndBlock (what the chain runs at every height, whatever they contain today) are executed
// at heights spread over the term - the round heights periodic routines fire at (multiples of 10, 100, 1000, 14400,
// 100000, 432000 and of a year) nearest below each name's last paid height, and the last blocks themselves.  At every
// one of them below the height the term ends at, the name is still its holder's, until the height paid for,
// and a stranger cannot register it.  Monitors only.

import (
	"fmt"
	"sort"

	sdk "github.com/cosmos/cosmos-sdk/types"
	"github.com/cosmos/cosmos-sdk/types/module"
	abci "github.com/tendermint/tendermint/abci/types"

	rnstypes "github.com/jackalLabs/canine-chain/v4/x/rns/types"
)

func c16BlockRoutines(r *RunCtx) error {
	const perYear = int64(5484530)
	e, err := NewEnv()
	if err != nil {
		return err
	}
	defer e.Close()
	e.NoGhost = true
	owners := []sdk.AccAddress{Acct(1), Acct(2), Acct(3)}
	for _, a := range append(owners, Acct(4)) {
		_ = e.Fund(a, "ujkl", 500_000_000_000)
	}
	type reg struct {
		full  string
		owner sdk.AccAddress
		until int64
	}
	var regs []reg
	trace := []interface{}{}
	for i, spec := range []struct {
		name  string
		at    int64
		years int64
	}{{"blocks.jkl", 1000, 1}, {"abcde.jkl", 120, 1}, {"pq.ibc", 777, 2}} {
		e.At(spec.at, T0.Add(timeOf(spec.at)))
		o := owners[i%len(owners)]
		res := e.Run(&rnstypes.MsgRegisterName{Creator: o.String(), Name: spec.name, Years: spec.years, Data: "{}"})
		trace = append(trace, map[string]interface{}{"op": "RegisterName", "height": spec.at, "creator": o.String(), "name": spec.name, "years": spec.years, "out": res.Out})
		if res.Out == OutOk {
			regs = append(regs, reg{spec.name, o, spec.at + spec.years*perYear})
		}
	}
	mm, _, _ := c13AppInternals(e)
	mod, ok := mm.Modules[rnstypes.ModuleName]
	if !ok || len(regs) == 0 {
		return fmt.Errorf("C16: block routines: no rns module or no registration")
	}
	hs := map[int64]bool{}
	for _, g := range regs {
		for _, m := range []int64{10, 100, 1000, 14400, 100000, 432000, perYear} {
			hs[g.until-g.until%m] = true
			hs[g.until-g.until%m-m] = true
		}
		for d := int64(0); d < 3; d++ {
			hs[g.until-d] = true
		}
	}
	var heights []int64
	for h := range hs {
		if h > 1000 {
			heights = append(heights, h)
		}
	}
	sort.Slice(heights, func(i, j int) bool { return heights[i] < heights[j] })
	for _, h := range heights {
		e.At(h, T0.Add(timeOf(h)))
		pn := Guard(func() {
			if bb, ok := mod.(module.BeginBlockAppModule); ok {
				bb.BeginBlock(e.Ctx, abci.RequestBeginBlock{})
			}
			if eb, ok := mod.(module.EndBlockAppModule); ok {
				eb.EndBlock(e.Ctx, abci.RequestEndBlock{Height: h})
			}
		})
		step := map[string]interface{}{"op": "rns BeginBlock + EndBlock", "height": h, "panic": pn}
		if pn != "" {
			r.Finding("C16/block-routine-panics", fmt.Sprintf("the rns block routines panic at height %d: %s", h, pn), map[string]interface{}{"trace": append(trace, step)})
			return nil
		}
		for _, g := range regs {
			if h >= g.until { // the term paid for covers the heights below start + years (the handlers treat the name as free from then on)
				continue
			}
			n, t, _ := c16Split(g.full)
			rec, found := e.App.RnsKeeper.GetNames(e.Ctx, n, t)
			r.Count(fmt.Sprintf("block-routine:%s:%d", g.full, h), true)
			if !found || rec.Value != g.owner.String() || rec.Expires < g.until {
				r.Finding("C16/history/paid-term-not-honoured", fmt.Sprintf("%s, registered by %s until height %d, is after the block routines of height %d %s", g.full, g.owner, g.until, h,
					map[bool]string{true: fmt.Sprintf("held by %q until %d", rec.Value, rec.Expires), false: "gone"}[found]), map[string]interface{}{"trace": append(trace, step)})
				return nil
			}
			if h == g.until-1 || h == g.until-g.until%14400 {
				res := e.Run(&rnstypes.MsgRegisterName{Creator: Acct(4).String(), Name: g.full, Years: 1, Data: "{}"})
				if res.Out == OutOk {
					r.Finding("C16/register/live-name-reassigned", fmt.Sprintf("at height %d a stranger registered %s, which %s holds until %d", h, g.full, g.owner, g.until), map[string]interface{}{"trace": append(trace, step)})
					return nil
				}
			}
		}
	}
	r.Hist("block-routines", fmt.Sprintf("%d heights over the terms of %d names", len(heights), len(regs)))
	return nil
}
