package main

import (
	"encoding/json"
	"fmt"
	"os"
	"reflect"
	"unsafe"
	"strings"
	"sync"
	"time"

	"github.com/CosmWasm/wasmd/x/wasm"
	wasmtypes "github.com/CosmWasm/wasmd/x/wasm/types"
	sdk "github.com/cosmos/cosmos-sdk/types"
	abci "github.com/tendermint/tendermint/abci/types"
	"github.com/tendermint/tendermint/libs/log"
	tmproto "github.com/tendermint/tendermint/proto/tendermint/types"
	dbm "github.com/tendermint/tm-db"

	japp "github.com/jackalLabs/canine-chain/v4/app"
	paramskeeper "github.com/cosmos/cosmos-sdk/x/params/keeper"
	minttypes "github.com/jackalLabs/canine-chain/v4/x/jklmint/types"
	storagetypes "github.com/jackalLabs/canine-chain/v4/x/storage/types"
)

var bech32Once sync.Once

func setBech32() {
	bech32Once.Do(func() {
		cfg := sdk.GetConfig()
		cfg.SetBech32PrefixForAccount(japp.Bech32PrefixAccAddr, japp.Bech32PrefixAccPub)
		cfg.SetBech32PrefixForValidator(japp.Bech32PrefixValAddr, japp.Bech32PrefixValPub)
		cfg.SetBech32PrefixForConsensusNode(japp.Bech32PrefixConsAddr, japp.Bech32PrefixConsPub)
		cfg.SetAddressVerifier(wasmtypes.VerifyAddressLen())
	})
}

// Env is one fresh, fully assembled JackalApp (real bank, auth, params, stores) after
// InitChain with the default genesis, positioned inside block 2 with a deliver context.
type Env struct {
	App    *japp.JackalApp
	Ctx    sdk.Context
	home   string
	Height int64
	Time   time.Time
	// ghost transactions (see Run): messages seen so far, a counter-driven generator, statistics
	seen    []sdk.Msg
	ghostN  uint64
	Ghosts  int
	NoGhost bool
}

// GhostStats accumulates, over all environments of a run, how many ghost executions took place.
var GhostStats = map[string]int{}

var T0 = time.Unix(1700000000, 0).UTC()

func NewEnv() (*Env, error) {
	setBech32()
	home, err := os.MkdirTemp("", "verifharness")
	if err != nil {
		return nil, err
	}
	db := dbm.NewMemDB()
	app := japp.NewJackalApp(log.NewNopLogger(), db, nil, true, map[int64]bool{}, home, 0, japp.MakeEncodingConfig(), wasm.EnableAllProposals, japp.EmptyBaseAppOptions{}, nil)
	gs := japp.NewDefaultGenesisState()
	sb, err := json.Marshal(gs)
	if err != nil {
		return nil, err
	}
	app.InitChain(abci.RequestInitChain{Validators: []abci.ValidatorUpdate{}, ConsensusParams: japp.DefaultConsensusParams, AppStateBytes: sb})
	app.Commit()
	hdr := tmproto.Header{Height: 2, Time: T0, ChainID: "verif"}
	app.BeginBlock(abci.RequestBeginBlock{Header: hdr})
	ctx := app.BaseApp.NewContext(false, hdr)
	e := &Env{App: app, Ctx: ctx, home: home}
	e.At(2, T0)
	return e, nil
}

func (e *Env) Close() { os.RemoveAll(e.home) }

// At moves the working context to the given height / block time (handlers and the
// begin-block functions are called directly on this context).
func (e *Env) At(h int64, tm time.Time) {
	e.Height, e.Time = h, tm
	e.Ctx = e.Ctx.WithBlockHeight(h).WithBlockTime(tm)
}

// Acct returns the i-th deterministic 20-byte test account.
func Acct(i int) sdk.AccAddress { return sdk.AccAddress([]byte(fmt.Sprintf("acct%016d", i))) }

// Spell returns the bech32 spelling of an account, upper-cased if up (bech32 accepts both).
func Spell(a sdk.AccAddress, up bool) string {
	if up {
		return strings.ToUpper(a.String())
	}
	return a.String()
}

func (e *Env) Fund(a sdk.AccAddress, denom string, amt int64) error {
	c := sdk.NewCoins(sdk.NewInt64Coin(denom, amt))
	if err := e.App.BankKeeper.MintCoins(e.Ctx, minttypes.ModuleName, c); err != nil {
		return err
	}
	return e.App.BankKeeper.SendCoinsFromModuleToAccount(e.Ctx, minttypes.ModuleName, a, c)
}

func (e *Env) Bal(a sdk.AccAddress, denom string) int64 {
	return e.App.BankKeeper.GetBalance(e.Ctx, a, denom).Amount.Int64()
}

func (e *Env) Supply(denom string) int64 {
	return e.App.BankKeeper.GetSupply(e.Ctx, denom).Amount.Int64()
}

func (e *Env) ModAddr(name string) sdk.AccAddress { return e.App.AccountKeeper.GetModuleAddress(name) }

// Outcome classes compared with the model (never message texts).
const (
	OutOk    = "ok"
	OutFail  = "fail"
	OutPanic = "panic"
)

type MsgResult struct {
	Out  string
	Err  string
	Data []byte
	Res  *sdk.Result
}

// Run executes one message the way baseapp.runTx/runMsgs does: ValidateBasic, route,
// handler on a cache context, recover panics, write the cache only on success.
//
// Ghost transactions.  A node also executes messages whose effects never reach the state: gas simulation
// (BaseApp.Simulate, which does not even check signatures), CheckTx, and the earlier messages of a transaction whose
// later message fails.  All of them run on a branch of the store that is dropped.  Before roughly every third
// message, Run therefore executes one such ghost — the message itself (a wallet simulating before it broadcasts)
// or one of the last messages of this history (anybody may have a node simulate anything) — on a cache context that
// is discarded.  On a tree whose state lives in the store this changes nothing; state kept in the keeper's memory
// (memoised getters, "per-block" caches) leaks from the ghost into the real execution, and the property's own
// monitors and the correspondence see the difference.
func (e *Env) Run(msg sdk.Msg) (r MsgResult) {
	if verr := msg.ValidateBasic(); verr != nil {
		return MsgResult{Out: OutFail, Err: "validatebasic: " + verr.Error()}
	}
	h := e.App.MsgServiceRouter().Handler(msg)
	if h == nil {
		return MsgResult{Out: OutFail, Err: "no handler"}
	}
	if !e.NoGhost {
		e.ghostN = e.ghostN*6364136223846793005 + 1442695040888963407
		pick := (e.ghostN >> 33) % 6
		var g sdk.Msg
		switch {
		case pick == 0:
			g = msg
		case pick == 1 && len(e.seen) > 0:
			g = e.seen[int((e.ghostN>>40)%uint64(len(e.seen)))]
		}
		if g != nil {
			if gh := e.App.MsgServiceRouter().Handler(g); gh != nil {
				gctx, _ := e.Ctx.CacheContext() // never written
				_ = Guard(func() { _, _ = gh(gctx, g) })
				e.Ghosts++
				GhostStats["ghost executions"]++
			}
		}
		e.seen = append(e.seen, msg)
		if len(e.seen) > 12 {
			e.seen = e.seen[len(e.seen)-12:]
		}
	}
	cctx, write := e.Ctx.CacheContext()
	defer func() {
		if rec := recover(); rec != nil {
			r = MsgResult{Out: OutPanic, Err: fmt.Sprint(rec)}
		}
	}()
	res, err := h(cctx, msg)
	if err != nil {
		return MsgResult{Out: OutFail, Err: err.Error()}
	}
	write()
	return MsgResult{Out: OutOk, Data: res.Data, Res: res}
}

// RunTx executes several messages as ONE transaction the way baseapp.runTx/runMsgs does: every message
// passes ValidateBasic before any handler runs, the handlers run in order on one cache context, and the
// first failure (or panic) discards the writes of ALL of them.  failedAt = index of the failing message (-1: none).
func (e *Env) RunTx(msgs ...sdk.Msg) (out string, failedAt int, errText string) {
	for i, m := range msgs {
		if verr := m.ValidateBasic(); verr != nil {
			return OutFail, i, "validatebasic: " + verr.Error()
		}
	}
	cctx, write := e.Ctx.CacheContext()
	for i, m := range msgs {
		h := e.App.MsgServiceRouter().Handler(m)
		if h == nil {
			return OutFail, i, "no handler"
		}
		var herr error
		pn := Guard(func() { _, herr = h(cctx, m) })
		if pn != "" {
			return OutPanic, i, pn
		}
		if herr != nil {
			return OutFail, i, herr.Error()
		}
	}
	write()
	return OutOk, -1, ""
}

// Guard runs f and reports a panic as an error string ("" = completed).
func Guard(f func()) (p string) {
	defer func() {
		if rec := recover(); rec != nil {
			p = fmt.Sprint(rec)
		}
	}()
	f()
	return ""
}

// ---- module parameters as governance sees and changes them -------------------------------------------------
// The configured values are what the parameter store holds; a passed ParameterChangeProposal writes one key at a
// time through the subspace (validated by that key's validator) and never calls Keeper.SetParams.  Harnesses read
// and change parameters this way, so that a keeper that memoises its parameters shows.

func paramsKeeperOf(e *Env) paramskeeper.Keeper {
	f := reflect.ValueOf(e.App).Elem().FieldByName("paramsKeeper")
	return reflect.NewAt(f.Type(), unsafe.Pointer(f.UnsafeAddr())).Elem().Interface().(paramskeeper.Keeper)
}

// StorageParams reads the storage module's parameters from the parameter store (not through the keeper).
func StorageParams(e *Env) storagetypes.Params {
	var p storagetypes.Params
	ss, _ := paramsKeeperOf(e).GetSubspace(storagetypes.ModuleName)
	ss.GetParamSet(e.Ctx, &p)
	return p
}

// GovSetStorageParams stores p the way governance would: every key whose value differs is updated through the
// subspace.  Values a key's validator refuses are written through the keeper instead (harnesses also explore
// values governance cannot reach); returns true when everything went the governance way.
// storageParamKeys: the names a parameter-change proposal uses for the storage module's parameters, written out here
// (not read from the code's ParamSetPairs: a proposal author names "CollateralPrice", whatever the code pairs it with).
var storageParamKeys = map[string]string{
	"DepositAccount": "DepositAccount", "ProofWindow": "ProofWindow", "ChunkSize": "ChunkSize", "MissesToBurn": "MissesToBurn",
	"PriceFeed": "PriceFeed", "MaxContractAgeInBlocks": "MaxContractAgeInBlocks", "PricePerTbPerMonth": "PricePerTbPerMonth",
	"AttestFormSize": "AttestFormSize", "AttestMinToPass": "AttestMinToPass", "CollateralPrice": "CollateralPrice",
	"CheckWindow": "CheckWindow", "PolRatio": "POLRatio", "ReferralCommission": "Referrals",
}

func GovSetStorageParams(e *Env, p storagetypes.Params) bool {
	_ = e.App.StorageKeeper.GetParams(e.Ctx) // a running node has read its parameters before a proposal passes
	ss, _ := paramsKeeperOf(e).GetSubspace(storagetypes.ModuleName)
	cur := StorageParams(e)
	cv, nv := reflect.ValueOf(cur), reflect.ValueOf(p)
	ok := true
	for i := 0; i < nv.NumField(); i++ {
		key, known := storageParamKeys[nv.Type().Field(i).Name]
		if !known {
			continue
		}
		a, _ := json.Marshal(cv.Field(i).Interface())
		b, _ := json.Marshal(nv.Field(i).Interface())
		if string(a) == string(b) {
			continue
		}
		// amino JSON: int64 values are strings
		v := nv.Field(i)
		js := b
		if v.Kind() == reflect.Int64 {
			js = []byte(fmt.Sprintf("%q", fmt.Sprint(v.Int())))
		}
		var err error
		if pn := Guard(func() { err = ss.Update(e.Ctx, []byte(key), js) }); pn != "" || err != nil {
			ok = false
		}
	}
	if !ok {
		e.App.StorageKeeper.SetParams(e.Ctx, p)
	} else {
		// what governance stored under the parameters' names is what the module now reads
		rv := reflect.ValueOf(StorageParams(e))
		for i := 0; i < nv.NumField(); i++ {
			name := nv.Type().Field(i).Name
			if _, known := storageParamKeys[name]; !known {
				continue
			}
			a, _ := json.Marshal(rv.Field(i).Interface())
			b, _ := json.Marshal(nv.Field(i).Interface())
			if string(a) != string(b) {
				paramBindingMismatch(fmt.Sprintf("after passed proposals that name the storage parameters one by one (here %s = %s), the module reads %s = %s", storageParamKeys[name], b, name, a))
			}
		}
	}
	return ok
}

// paramBindingMismatches: a parameter named in a passed proposal landed in a different field of the module's
// parameters (reported by main under the running property's own signature)
var paramBindingMismatches []string

func paramBindingMismatch(what string) {
	if len(paramBindingMismatches) < 3 {
		paramBindingMismatches = append(paramBindingMismatches, what)
	}
}
