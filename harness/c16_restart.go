package main

// C16, restart twin (monitors only): "... yields a live name for the term" also across a restart of the chain from
// an exported genesis.  Names are registered, the chain runs on for millions of blocks, the rns genesis (and the
// bank's) is exported and imported into a fresh app that continues at the next height, the way a network restarts:
// every name must still be its holder's until the height its registration paid for, nobody else can register it, and
// a renewal still extends it by exactly the years paid.

import (
	"fmt"

	sdk "github.com/cosmos/cosmos-sdk/types"
	rnstypes "github.com/jackalLabs/canine-chain/v4/x/rns/types"
)

func c16RestartTwin(r *RunCtx) error {
	const perYear = int64(5484530)
	e, err := NewEnv()
	if err != nil {
		return err
	}
	owners := []sdk.AccAddress{Acct(1), Acct(2), Acct(3)}
	for _, a := range append(owners, Acct(4)) {
		_ = e.Fund(a, "ujkl", 500_000_000_000)
	}
	type reg struct {
		name, tld string
		owner     sdk.AccAddress
		until     int64
	}
	var regs []reg
	trace := []interface{}{}
	h0 := int64(120)
	e.At(h0, T0.Add(timeOf(h0)))
	for i, spec := range []struct {
		name  string
		years int64
	}{{"restart.jkl", 1}, {"abcd.jkl", 2}, {"xy.ibc", 1}, {"longer-name.jkl", 3}} {
		o := owners[i%len(owners)]
		res := e.Run(&rnstypes.MsgRegisterName{Creator: o.String(), Name: spec.name, Years: spec.years, Data: "{}"})
		trace = append(trace, map[string]interface{}{"op": "RegisterName", "height": h0, "creator": o.String(), "name": spec.name, "years": spec.years, "out": res.Out, "err": res.Err})
		if res.Out != OutOk {
			continue
		}
		n, t, _ := c16Split(spec.name)
		regs = append(regs, reg{n, t, o, h0 + spec.years*perYear})
	}
	for _, exportAt := range []int64{4_000_000, 5_400_000} {
		e.At(exportAt, T0.Add(timeOf(exportAt)))
		nxt, err := NewEnv()
		if err != nil {
			e.Close()
			return err
		}
		nxt.At(exportAt+1, T0.Add(timeOf(exportAt+1)))
		perr := Guard(func() {
			nxt.App.BankKeeper.InitGenesis(nxt.Ctx, e.App.BankKeeper.ExportGenesis(e.Ctx))
			for _, m := range c19Modules() {
				if m.Name != "rns" {
					continue
				}
				for _, kv := range mustDump(nxt, m.StoreKey) {
					nxt.Ctx.KVStore(c19StoreKey(nxt, m.StoreKey)).Delete(kv.K)
				}
				if ierr := m.Import(nxt, m.Export(e)); ierr != nil {
					panic(ierr)
				}
			}
		})
		trace = append(trace, map[string]interface{}{"op": "restart from the exported genesis", "exported_at": exportAt, "continues_at": exportAt + 1, "panic": perr})
		e.Close()
		e = nxt
		if perr != "" {
			r.Finding("C16/restart/import-failed", "the chain could not be restarted from its exported rns genesis: "+perr, map[string]interface{}{"trace": trace})
			e.Close()
			return nil
		}
		bad := func(sig, what string) { r.Finding(sig, what, map[string]interface{}{"trace": trace}) }
		for _, g := range regs {
			if e.Height >= g.until {
				continue
			}
			rec, found := e.App.RnsKeeper.GetNames(e.Ctx, g.name, g.tld)
			trace = append(trace, map[string]interface{}{"op": "read", "name": g.name + "." + g.tld, "found": found, "value": rec.Value, "expires": rec.Expires, "paid_until": g.until})
			if !found || rec.Value != g.owner.String() || rec.Expires < g.until {
				bad("C16/history/paid-term-not-honoured", fmt.Sprintf("%s.%s, registered by %s until height %d, is after a restart at height %d %s", g.name, g.tld, g.owner, g.until, e.Height,
					map[bool]string{true: fmt.Sprintf("held by %q until %d", rec.Value, rec.Expires), false: "gone"}[found]))
				continue
			}
			// a stranger cannot take it
			res := e.Run(&rnstypes.MsgRegisterName{Creator: Acct(4).String(), Name: g.name + "." + g.tld, Years: 1, Data: "{}"})
			trace = append(trace, map[string]interface{}{"op": "RegisterName by a stranger", "name": g.name + "." + g.tld, "out": res.Out})
			if res.Out == OutOk {
				bad("C16/register/live-name-reassigned", fmt.Sprintf("after a restart at height %d a stranger registered %s.%s, which %s holds until %d", e.Height, g.name, g.tld, g.owner, g.until))
			}
			r.Count(fmt.Sprintf("restart:%d:%s", exportAt, g.name), true)
		}
		r.Hist("restart-twin", fmt.Sprintf("restart-at-%d", exportAt))
	}
	// a renewal on the restarted chain extends by exactly the years paid
	if len(regs) > 0 {
		g := regs[0]
		if rec, found := e.App.RnsKeeper.GetNames(e.Ctx, g.name, g.tld); found && e.Height < rec.Expires {
			res := e.Run(&rnstypes.MsgRegisterName{Creator: g.owner.String(), Name: g.name + "." + g.tld, Years: 1, Data: "{}"})
			after, _ := e.App.RnsKeeper.GetNames(e.Ctx, g.name, g.tld)
			trace = append(trace, map[string]interface{}{"op": "renewal after the restart", "out": res.Out, "expires_before": rec.Expires, "expires_after": after.Expires})
			if res.Out == OutOk && after.Expires != rec.Expires+perYear {
				r.Finding("C16/renewal-not-exact", fmt.Sprintf("a one-year renewal after a restart moved the expiry from %d to %d", rec.Expires, after.Expires), map[string]interface{}{"trace": trace})
			}
		}
	}
	e.Close()
	return nil
}

// c16Split: "name.tld" at the last dot (the names used here contain no other dot)
func c16Split(full string) (string, string, bool) {
	for i := len(full) - 1; i >= 0; i-- {
		if full[i] == '.' {
			return full[:i], full[i+1:], true
		}
	}
	return full, "", false
}
