package main

// C02, persisted-state twin: "honest provers can always prove and are never dropped or burned" also across a software
// upgrade.  corpus/C02/persisted_storage.json is the raw content of the storage module's store as the release this
// work started from wrote it (a file of several chunks with two provers that have proven it; made once by
// `harness c02-snapshot`).  Every run loads those bytes into a fresh app built from the tree under test, runs the
// modules' migrations from the recorded consensus versions (corpus/C13/module_versions.json), and lets the provers go
// on proving honestly: their proofs must be accepted and the reward blocks must neither drop nor burn them.

import (
	"encoding/hex"
	"encoding/json"
	"fmt"
	"os"
	"path/filepath"
	"strings"

	"github.com/cosmos/cosmos-sdk/types/module"
	sdk "github.com/cosmos/cosmos-sdk/types"
	storagetypes "github.com/jackalLabs/canine-chain/v4/x/storage/types"
)

type c02Snapshot struct {
	What    string      `json:"what"`
	Height  int64       `json:"height"`
	Seed    uint64      `json:"data_seed"`
	NChunks int         `json:"chunks"`
	KV      [][2]string `json:"storage_store_hex"`
}

const c02SnapSeed = 20260926

func c02SnapshotScenario() (*Env, *c17Data, []sdk.AccAddress, sdk.AccAddress, error) {
	return c02SnapshotScenarioWith(0)
}

// chunk > 0: the chain runs with that chunk size (set the governance way) before anything is stored
func c02SnapshotScenarioWith(chunk int64) (*Env, *c17Data, []sdk.AccAddress, sdk.AccAddress, error) {
	e, err := NewEnv()
	if err != nil {
		return nil, nil, nil, nil, err
	}
	e.NoGhost = true
	if chunk > 0 {
		sp := StorageParams(e)
		sp.ChunkSize = chunk
		GovSetStorageParams(e, sp)
	}
	owner := Acct(1)
	provers := []sdk.AccAddress{Acct(11), Acct(12)}
	_ = e.Fund(owner, "ujkl", 50_000_000_000)
	d, err := c17BuildData(NewPRNG(c02SnapSeed), 6, StorageParams(e).ChunkSize)
	if err != nil {
		return nil, nil, nil, nil, err
	}
	return e, d, provers, owner, nil
}

// c02ScenarioSteps: a plan, two providers, the file posted at 90, both provers prove at 101 and 160.
func c02ScenarioSteps(e *Env, d *c17Data, provers []sdk.AccAddress, owner sdk.AccAddress) error {
	step := func(h int64, m sdk.Msg) error {
		e.At(h, T0.Add(timeOf(h)))
		if res := e.Run(m); res.Out != OutOk {
			return fmt.Errorf("snapshot scenario: %T at %d: %s", m, h, res.Err)
		}
		return nil
	}
	if err := step(80, &storagetypes.MsgBuyStorage{Creator: owner.String(), ForAddress: owner.String(), DurationDays: 30, Bytes: 5_000_000_000, PaymentDenom: "ujkl"}); err != nil {
		return err
	}
	for i, pv := range provers {
		_ = e.Fund(pv, "ujkl", 20_000_000_000)
		if err := step(81, &storagetypes.MsgInitProvider{Creator: pv.String(), Ip: fmt.Sprintf("https://node%d.example%d.com", i, i), TotalSpace: 1 << 40}); err != nil {
			return err
		}
	}
	if err := step(90, &storagetypes.MsgPostFile{Creator: owner.String(), Merkle: d.Merkle, FileSize: d.Size, MaxProofs: 3, Note: "{}"}); err != nil {
		return err
	}
	for _, h := range []int64{101, 160} {
		for _, pv := range provers {
			chunk := int64(0)
			if rec, ok := e.App.StorageKeeper.GetProof(e.Ctx, pv.String(), d.Merkle, owner.String(), 90); ok {
				chunk = rec.ChunkToProve
			}
			item, pj, _, err := d.honest(int(chunk))
			if err != nil {
				return err
			}
			if err := step(h, &storagetypes.MsgPostProof{Creator: pv.String(), Item: item, HashList: pj, Merkle: d.Merkle, Owner: owner.String(), Start: 90, ToProve: chunk}); err != nil {
				return err
			}
		}
	}
	return nil
}

// c02MakeSnapshot runs the scenario on the tree the harness was built against and prints the snapshot.
func c02MakeSnapshotTo(path string) error {
	e, d, provers, owner, err := c02SnapshotScenario()
	if err != nil {
		return err
	}
	defer e.Close()
	if err := c02ScenarioSteps(e, d, provers, owner); err != nil {
		return err
	}
	snap := c02Snapshot{What: "raw storage store after: plan, two providers, a 6-chunk file posted at 90, both provers proved at 101 and 160", Height: 160, Seed: c02SnapSeed, NChunks: 6}
	for _, kv := range mustDump(e, storagetypes.StoreKey) {
		snap.KV = append(snap.KV, [2]string{hex.EncodeToString(kv.K), hex.EncodeToString(kv.V)})
	}
	js, _ := json.MarshalIndent(snap, "", " ")
	return os.WriteFile(path, js, 0o644)
}

func c02PersistedTwin(r *RunCtx) error {
	if err := persistedStorageTwinAs(r, "C02"); err != nil {
		return err
	}
	return storageTwin(r, "C02", true)
}

// persistedStorageTwinAs: the twin under the signature of the property that runs it.  For C03 it also judges the
// reward blocks of the new binary: each prover is listed once on the file, and the two provers of the one file
// (equal sizes, both proved every window) are paid the same, out of what the gauges released.
func persistedStorageTwinAs(r *RunCtx, sig string) error { return storageTwin(r, sig, false) }

// storageTwin, remigrate = false: the store of the earlier release, migrated from the recorded versions.
// remigrate = true: the upgrade that brought the chain to its current version, replayed: a chain that runs with a
// chunk size of its own (2048; the main net changed its chunk size by governance too) stores the same scenario with
// the binary under test, then the storage module's last in-place migration runs (from its consensus version - 1)
// and the provers go on: what the chain had configured and stored is what they keep proving against.
func storageTwin(r *RunCtx, sig string, remigrate bool) error {
	raw, err := os.ReadFile(filepath.Join(c19VerifRoot(), "corpus", "C02", "persisted_storage.json"))
	if err != nil {
		return fmt.Errorf("C02: persisted state: %w", err)
	}
	var snap c02Snapshot
	if err := json.Unmarshal(raw, &snap); err != nil {
		return err
	}
	chunk := int64(0)
	if remigrate {
		chunk = 2048
	}
	e, d, provers, owner, err := c02SnapshotScenarioWith(chunk)
	if err != nil {
		if strings.Contains(err.Error(), "tree root differs") {
			// utils.BuildTree no longer builds the tree the verifier walks: the function-level part of this check judges that
			r.Hist("persisted-state", "skipped: "+err.Error())
			return nil
		}
		return err
	}
	defer e.Close()
	e.NoGhost = false
	var trace []interface{}
	if remigrate {
		if err := c02ScenarioSteps(e, d, provers, owner); err != nil {
			return err
		}
		trace = []interface{}{map[string]interface{}{"op": "a chain with ChunkSize 2048: plan, two providers, a 6-chunk file posted at 90, both provers proved at 101 and 160", "height": snap.Height}}
	} else {
		// the bytes the earlier release wrote
		st := e.Ctx.KVStore(c19StoreKey(e, storagetypes.StoreKey))
		for _, kv := range mustDump(e, storagetypes.StoreKey) {
			st.Delete(kv.K)
		}
		for _, kv := range snap.KV {
			k, _ := hex.DecodeString(kv[0])
			v, _ := hex.DecodeString(kv[1])
			st.Set(k, v)
		}
		trace = []interface{}{map[string]interface{}{"op": "load the storage store written by the earlier release", "records": len(snap.KV), "height": snap.Height}}
		// gauges refer to escrow accounts of the bank: give each what its record says it was given
		for _, g := range e.App.StorageKeeper.GetAllPaymentGauges(e.Ctx) {
			if acct, err := storagetypes.GetGaugeAccount(g); err == nil {
				for _, c := range g.Coins {
					_ = e.Fund(acct, c.Denom, c.Amount.Int64())
				}
			}
		}
	}
	// the upgrade: migrations from the recorded consensus versions
	mm, cfg, _ := c13AppInternals(e)
	rawVM, err := os.ReadFile(filepath.Join(c19VerifRoot(), "corpus", "C13", "module_versions.json"))
	if err != nil {
		return err
	}
	recorded := module.VersionMap{}
	if err := json.Unmarshal(rawVM, &recorded); err != nil {
		return err
	}
	from := module.VersionMap{}
	for name, v := range mm.GetVersionMap() {
		from[name] = v
		if rv, ok := recorded[name]; ok && rv < v {
			from[name] = rv
		}
	}
	if remigrate {
		if v := from[storagetypes.ModuleName]; v > 1 {
			from[storagetypes.ModuleName] = v - 1
			trace = append(trace, map[string]interface{}{"op": "upgrade: RunMigrations", "storage_from_version": v - 1, "storage_to_version": v})
		}
	}
	e.At(snap.Height+5, T0.Add(timeOf(snap.Height+5)))
	var merr error
	if pn := Guard(func() { _, merr = mm.RunMigrations(e.Ctx, cfg, from) }); pn != "" || merr != nil {
		r.Finding(sig+"/persisted/migration-failed", fmt.Sprintf("the migrations from the recorded versions fail on the persisted state: %s %v", pn, merr), map[string]interface{}{"trace": trace})
		return nil
	}
	k := e.App.StorageKeeper
	burned := func(pv sdk.AccAddress) string {
		p, _ := k.GetProviders(e.Ctx, pv.String())
		return p.BurnedContracts
	}
	burn0 := map[string]string{}
	for _, pv := range provers {
		burn0[pv.String()] = burned(pv)
	}
	bal0 := map[string]int64{}
	for _, pv := range provers {
		bal0[pv.String()] = e.Bal(pv, "ujkl")
	}
	bad := func(sig, what string) { r.Finding(sig, what, map[string]interface{}{"trace": trace}) }
	listed := func(pv sdk.AccAddress) bool {
		f, ok := k.GetFile(e.Ctx, d.Merkle, owner.String(), 90)
		return ok && f.ContainsProver(pv.String())
	}
	// windows [200,250), [250,300), [300,350): one honest proof each, reward blocks at 200 and 300
	for _, h := range []int64{200, 210, 260, 300, 310} {
		e.At(h, T0.Add(timeOf(h)))
		if h%100 == 0 {
			pn := Guard(func() { k.RunRewardBlock(e.Ctx) })
			trace = append(trace, map[string]interface{}{"op": "RunRewardBlock", "height": h, "panic": pn})
			if pn != "" {
				bad(sig+"/persisted/reward-block-panic", "the reward block panicked on the persisted state: "+pn)
				return nil
			}
			for _, pv := range provers {
				if !listed(pv) {
					bad(sig+"/reward/honest-prover-removed", fmt.Sprintf("%s proved every window (before and after the upgrade) and is no longer listed after reward block %d", pv, h))
					return nil
				}
				if b := burned(pv); b != burn0[pv.String()] {
					bad(sig+"/reward/honest-prover-burned", fmt.Sprintf("%s proved every window and its burn count went from %s to %s at reward block %d", pv, burn0[pv.String()], b, h))
					return nil
				}
			}
			if sig == "C03" {
				f, _ := k.GetFile(e.Ctx, d.Merkle, owner.String(), 90)
				gains := []int64{}
				for _, pv := range provers {
					n := 0
					for _, pk := range f.Proofs {
						if strings.HasPrefix(pk, pv.String()+"/") {
							n++
						}
					}
					if n != 1 {
						bad("C03/persisted/prover-listed-"+fmt.Sprint(n)+"-times", fmt.Sprintf("%s, registered on the file by the earlier release and proving every window since, is listed %d times on it at reward block %d: it is counted %d times for the file's size", pv, n, h, n))
						return nil
					}
					gains = append(gains, e.Bal(pv, "ujkl")-bal0[pv.String()])
					bal0[pv.String()] = e.Bal(pv, "ujkl")
				}
				if d := gains[0] - gains[1]; d > 1 || d < -1 {
					bad("C03/persisted/unequal-shares", fmt.Sprintf("the two provers of the one file (both proved every window) were paid %d and %d at reward block %d", gains[0], gains[1], h))
					return nil
				}
				r.Count(fmt.Sprintf("persisted:payout:%d:%d", h, gains[0]), gains[0] > 0)
				r.Hist("persisted-payout", fmt.Sprintf("reward block %d paid %d and %d", h, gains[0], gains[1]))
			}
			r.Count(fmt.Sprintf("persisted:reward:%d", h), true)
			continue
		}
		for _, pv := range provers {
			rec, ok := k.GetProof(e.Ctx, pv.String(), d.Merkle, owner.String(), 90)
			if !ok {
				bad(sig+"/persisted/proof-record-unreachable", fmt.Sprintf("the proof record of %s written by the earlier release is not found by the keeper: the prover cannot learn its challenge", pv))
				return nil
			}
			if rec.ChunkToProve < 0 || rec.ChunkToProve >= int64(len(d.Leaves)) {
				bad(sig+"/challenge/out-of-range", fmt.Sprintf("the chain challenges %s with chunk %d of a file of %d chunks (%d bytes, stored under the chunk size the chain had configured)", pv, rec.ChunkToProve, len(d.Leaves), d.Size))
				return nil
			}
			item, pj, _, err := d.honest(int(rec.ChunkToProve))
			if err != nil {
				return err
			}
			res := e.Run(&storagetypes.MsgPostProof{Creator: pv.String(), Item: item, HashList: pj, Merkle: d.Merkle, Owner: owner.String(), Start: 90, ToProve: rec.ChunkToProve})
			var resp storagetypes.MsgPostProofResponse
			if res.Out == OutOk {
				_ = resp.Unmarshal(res.Data)
			}
			trace = append(trace, map[string]interface{}{"op": "PostProof (honest)", "height": h, "prover": pv.String(), "chunk": rec.ChunkToProve, "out": res.Out, "success": resp.Success, "err": res.Err + resp.ErrorMessage})
			after, ok2 := k.GetProof(e.Ctx, pv.String(), d.Merkle, owner.String(), 90)
			if res.Out != OutOk || !resp.Success || !ok2 || after.LastProven != h {
				bad(sig+"/postproof/honest-proof-refused", fmt.Sprintf("the honest proof of %s for its stored challenge (chunk %d) at height %d was not accepted and recorded", pv, rec.ChunkToProve, h))
				return nil
			}
			r.Count(fmt.Sprintf("persisted:proof:%d:%s", h, pv), true)
		}
	}
	r.Hist("persisted-state", map[bool]string{false: "honest provers kept across the upgrade", true: "honest provers kept across the replayed last migration (ChunkSize 2048)"}[remigrate])
	return nil
}
