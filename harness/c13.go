package main

// C13 — block emission non-increasing, non-negative, fully distributed.
// Function level: utils.GetMintForBlock at volume and exhaustively near zero.
// History level: MintKeeper.BlockMint on the assembled app (real bank) over runs of
// consecutive blocks for grids of parameters; step-wise correspondence per block.

import (
	"encoding/json"
	"fmt"
	"math/big"
	"os"
	"path/filepath"
	"reflect"
	"time"
	"unsafe"

	"github.com/cosmos/cosmos-sdk/types/module"
	upgradekeeper "github.com/cosmos/cosmos-sdk/x/upgrade/keeper"
	upgradetypes "github.com/cosmos/cosmos-sdk/x/upgrade/types"

	"github.com/CosmWasm/wasmd/x/wasm"
	sdk "github.com/cosmos/cosmos-sdk/types"
	japp "github.com/jackalLabs/canine-chain/v4/app"
	abci "github.com/tendermint/tendermint/abci/types"
	"github.com/tendermint/tendermint/libs/log"
	tmproto "github.com/tendermint/tendermint/proto/tendermint/types"
	dbm "github.com/tendermint/tm-db"
	mintkeeper "github.com/jackalLabs/canine-chain/v4/x/jklmint/keeper"
	minttypes "github.com/jackalLabs/canine-chain/v4/x/jklmint/types"
	mintutils "github.com/jackalLabs/canine-chain/v4/x/jklmint/utils"
)

func init() { runners["C13"] = runC13 }

const c13Bpy int64 = (365 * 24 * 60 * 60) / 6

type c13Obs struct {
	Fee, Dev, Stip, Mod, Supply int64
	Rec                         *int64
}

func c13Observe(e *Env, denom string, stip sdk.AccAddress, recHeight int64) c13Obs {
	dev, _ := mintkeeper.GetDevGrantsAccount()
	o := c13Obs{Fee: e.Bal(e.ModAddr("fee_collector"), denom), Dev: e.Bal(dev, denom), Mod: e.Bal(e.ModAddr(minttypes.ModuleName), denom), Supply: e.Supply(denom)}
	if stip != nil {
		o.Stip = e.Bal(stip, denom)
	}
	if mb, found := e.App.MintKeeper.GetMintedBlock(e.Ctx, recHeight); found {
		v := mb.Minted
		o.Rec = &v
	}
	return o
}

func cOptZ(p *int64) string {
	if p == nil {
		return "None"
	}
	return "(Some " + cZ(*p) + ")"
}

func runC13(r *RunCtx) error {
	r.Sum.Rule = "GetMintForBlock on random and near-zero operands; BlockMint on the assembled app over runs of 1..40 consecutive blocks for a grid of (TokensPerBlock, MintDecrease, three ratios, denom, stipend address, module residue, previous record); one evaluation = one block or one function call; non-trivial = distinct (parameters, previous emission) with a positive previous emission or a boundary decrease"
	r.Group("mint", "From JK Require Import Model.Mint Corr.C13.", "c13_case", "c13_ok")
	p := r.Rng
	// ---- function level
	decs := []int64{0, 1, 6, c13Bpy - 1, c13Bpy, c13Bpy + 1, 2 * c13Bpy, 3*c13Bpy + 7, 1 << 40}
	for prev := int64(0); prev <= 6; prev++ {
		for _, d := range decs {
			got := mintutils.GetMintForBlock(prev, c13Bpy, d)
			r.Case("mint", fmt.Sprintf("MintFn %s %s %s %s", cZ(prev), cZ(c13Bpy), cZ(d), cZ(got)), map[string]int64{"prev": prev, "bpy": c13Bpy, "decrease": d, "got": got})
			r.Count(fmt.Sprintf("fn:%d:%d", prev, d), true)
			if got < 0 || got > prev {
				r.Finding("C13/getmintforblock-range", "GetMintForBlock result outside [0, previous]", map[string]int64{"prev": prev, "bpy": c13Bpy, "decrease": d, "got": got})
			}
		}
	}
	for i := 0; i < r.Scale(150, 3000); i++ {
		prev := int64(p.U64() >> uint(1+p.Intn(62)))
		d := int64(p.U64() >> uint(1+p.Intn(62)))
		bp := int64(p.U64()>>uint(1+p.Intn(62))) + 1
		if p.Chance(2, 3) {
			bp = c13Bpy
		}
		got := mintutils.GetMintForBlock(prev, bp, d)
		r.Case("mint", fmt.Sprintf("MintFn %s %s %s %s", cZ(prev), cZ(bp), cZ(d), cZ(got)), map[string]int64{"prev": prev, "bpy": bp, "decrease": d, "got": got})
		r.Count(fmt.Sprintf("fn:%d:%d:%d", prev, bp, d), prev > 0)
		if got < 0 || got > prev {
			r.Finding("C13/getmintforblock-range", "GetMintForBlock result outside [0, previous]", map[string]int64{"prev": prev, "bpy": bp, "decrease": d, "got": got})
		}
	}
	// ---- history level
	type ratios struct{ s, d, p int64 }
	ratioGrid := []ratios{{80, 8, 12}, {0, 0, 0}, {100, 0, 0}, {33, 33, 33}, {1, 1, 1}, {0, 50, 50}, {99, 1, 0}, {60, 30, 20} /* > 100: outside the quantifier */, {7, 13, 29}}
	tokGrid := []int64{0, 1, 2, 3, 5, 99, 101, 4_200_000, 1_000_000_007, 240_000_000_000_000_000, 2_000_000_000_000_000_000} // incl. emissions whose int64 product with a ratio would overflow
	runs := r.Scale(14, 160)
	for k := 0; k < runs; k++ {
		e, err := NewEnv()
		if err != nil {
			return err
		}
		params := minttypes.DefaultParams()
		rt := PickOne(p, ratioGrid)
		if k == 0 {
			rt = ratioGrid[0]
		}
		params.StakerRatio, params.DevGrantsRatio, params.StorageProviderRatio = rt.s, rt.d, rt.p
		params.TokensPerBlock = PickOne(p, tokGrid)
		params.MintDecrease = PickOne(p, decs)
		if k == 0 {
			params.TokensPerBlock, params.MintDecrease = 4_200_000, 6
		}
		if k == 2 || k == 6 { // emissions so large that emission x ratio does not fit int64 (the shares must still be exact)
			params.TokensPerBlock, params.MintDecrease = PickOne(p, []int64{240_000_000_000_000_000, 2_000_000_000_000_000_000}), 6
			params.StakerRatio, params.DevGrantsRatio, params.StorageProviderRatio = 34, 33, 33
			rt = ratios{34, 33, 33}
			if k == 6 {
				params.StakerRatio, params.DevGrantsRatio, params.StorageProviderRatio = 80, 8, 12
				rt = ratios{80, 8, 12}
			}
		}
		denom := PickOne(p, []string{"ujkl", "ujkl", "", "umint", "uJKL", "factory/Jackal/ujkl"}) // the SDK allows capitals and slashes in a denomination
		params.MintDenom = denom
		eff := denom
		if eff == "" {
			eff = "ujkl"
		}
		var stip sdk.AccAddress
		stipOK := true
		sel := p.Intn(6)
		if k == 3 || k == 9 {
			sel = 2 // (with k%3 == 0 below: the stipend is routed to the developer-grants pool)
		}
		switch sel {
		case 0:
			params.StorageStipendAddress = "not-an-address"
			stipOK = false
		case 1:
			params.StorageStipendAddress = e.ModAddr("distribution").String() // blocked module account
			stip = e.ModAddr("distribution")
			stipOK = false
		case 2:
			stip = Acct(77)
			params.StorageStipendAddress = stip.String()
			if k%3 == 0 { // the stipend routed to the developer-grants pool: one account receives both shares
				stip, _ = mintkeeper.GetDevGrantsAccount()
				params.StorageStipendAddress = stip.String()
			}
		default:
			stip, _ = sdk.AccAddressFromBech32(params.StorageStipendAddress)
		}
		if stip != nil && stipOK && e.App.BankKeeper.BlockedAddr(stip) {
			stipOK = false
		}
		e.App.MintKeeper.SetParams(e.Ctx, params)
		h := int64(10 + p.Intn(1000))
		if k%4 == 1 { // runs that cross a change in the number of decimal digits of the height (records are keyed by decimal strings)
			h = PickOne(p, []int64{95, 98, 995, 9_995, 99_990})
		}
		// module residue and an optional previous record
		if p.Chance(1, 3) {
			_ = e.App.BankKeeper.MintCoins(e.Ctx, minttypes.ModuleName, sdk.NewCoins(sdk.NewInt64Coin(eff, 1+p.I64n(500))))
		}
		var prevEm *int64
		if p.Chance(1, 2) {
			v := PickOne(p, tokGrid)
			e.App.MintKeeper.SetMintedBlock(e.Ctx, minttypes.MintedBlock{Height: h - 1, Minted: v, Denom: "ujkl"})
			prevEm = &v
		}
		bystander := Acct(5)
		_ = e.Fund(bystander, eff, 12345)
		inQuant := stipOK && rt.s+rt.d+rt.p <= 100 && stip != nil && !stip.Equals(e.ModAddr("fee_collector"))
		nblocks := 1 + p.Intn(r.Scale(12, 40))
		if k%4 == 1 {
			nblocks = 16 + p.Intn(10)
		}
		if params.TokensPerBlock > 1_000_000_000_000_000 || (prevEm != nil && *prevEm > 1_000_000_000_000_000) { // keep the total supply inside int64 (the observations are int64)
			nblocks = 1 + p.Intn(4)
			if k%4 == 1 {
				params.TokensPerBlock = 4_200_000
				e.App.MintKeeper.SetParams(e.Ctx, params)
			}
		}
		var lastEm int64
		if prevEm != nil {
			lastEm = *prevEm
		} else {
			lastEm = params.TokensPerBlock
		}
		trace := []map[string]interface{}{}
		for b := 0; b < nblocks; b++ {
			e.At(h, T0.Add(6e9*1))
			pre := c13Observe(e, eff, stip, h-1)
			by0 := e.Bal(bystander, eff)
			if pn := Guard(func() { e.App.MintKeeper.BlockMint(e.Ctx) }); pn != "" {
				r.Finding("C13/blockmint-panic", "BlockMint panicked: "+pn, map[string]interface{}{"params": params, "height": h, "prev": pre.Rec})
				break
			}
			post := c13Observe(e, eff, stip, h)
			devAcct, _ := mintkeeper.GetDevGrantsAccount()
			sameReceiver := stip != nil && stip.Equals(devAcct)
			if sameReceiver {
				// the model keeps the three receivers apart; for one account receiving two shares only the monitors apply
				em := post.Supply - pre.Supply
				fl := func(ratio int64) int64 {
					return new(big.Int).Div(new(big.Int).Mul(big.NewInt(ratio), big.NewInt(em)), big.NewInt(100)).Int64()
				}
				r.Hist("ratios", "stipend-is-dev-pool")
				r.Case("mint", fmt.Sprintf("BlockSameReceiver {| tokens_per_block := %s; mint_decrease := %s; staker_ratio := %s; dev_ratio := %s; prov_ratio := %s; stipend_ok := %s |} %s %s %s %s %s %s %s %s %s %s",
					cZ(params.TokensPerBlock), cZ(params.MintDecrease), cZ(rt.s), cZ(rt.d), cZ(rt.p), cBool(stipOK),
					cZ(pre.Fee), cZ(pre.Dev), cZ(pre.Mod), cZ(pre.Supply), cOptZ(pre.Rec),
					cZ(post.Fee), cZ(post.Dev), cZ(post.Mod), cZ(post.Supply), cOptZ(post.Rec)),
					map[string]interface{}{"run": k, "block": b, "height": h, "params": params, "denom": eff, "pre": pre, "post": post, "same_receiver": true})
				r.Count(fmt.Sprintf("blk-same:%v:%d:%d:%v", rt, params.TokensPerBlock, params.MintDecrease, pre.Rec), lastEm > 0)
				if inQuant {
					tr := map[string]interface{}{"run": k, "block": b, "height": h, "params": params, "pre": pre, "post": post}
					if post.Dev-pre.Dev != fl(rt.d)+fl(rt.p) || post.Fee-pre.Fee != fl(rt.s) {
						r.Finding("C13/split-wrong", fmt.Sprintf("stipend address = developer-grants pool: of emission %d it received %d, expected %d + %d; stakers %d, expected %d", em, post.Dev-pre.Dev, fl(rt.d), fl(rt.p), post.Fee-pre.Fee, fl(rt.s)), tr)
					}
					kept := post.Mod - pre.Mod
					if slack := 100*kept - em*(100-rt.s-rt.d-rt.p); kept != em-fl(rt.s)-fl(rt.d)-fl(rt.p) || slack < 0 || slack >= 300 {
						r.Finding("C13/module-remainder", fmt.Sprintf("stipend address = developer-grants pool: the mint module keeps %d of emission %d", kept, em), tr)
					}
					if em > lastEm || em < 0 {
						r.Finding("C13/emission-increased", fmt.Sprintf("emission %d after %d", em, lastEm), tr)
					}
					lastEm = em
				}
				h++
				continue
			}
			term := fmt.Sprintf("Block {| tokens_per_block := %s; mint_decrease := %s; staker_ratio := %s; dev_ratio := %s; prov_ratio := %s; stipend_ok := %s |} %s %s %s %s %s %s %s %s %s %s %s %s",
				cZ(params.TokensPerBlock), cZ(params.MintDecrease), cZ(rt.s), cZ(rt.d), cZ(rt.p), cBool(stipOK),
				cZ(pre.Fee), cZ(pre.Dev), cZ(pre.Stip), cZ(pre.Mod), cZ(pre.Supply), cOptZ(pre.Rec),
				cZ(post.Fee), cZ(post.Dev), cZ(post.Stip), cZ(post.Mod), cZ(post.Supply), cOptZ(post.Rec))
			desc := map[string]interface{}{"run": k, "block": b, "height": h, "params": params, "denom": eff, "pre": pre, "post": post}
			r.Case("mint", term, desc)
			trace = append(trace, desc)
			r.Count(fmt.Sprintf("blk:%v:%d:%d:%v", rt, params.TokensPerBlock, params.MintDecrease, pre.Rec), lastEm > 0 || params.MintDecrease >= c13Bpy)
			r.Hist("ratios", fmt.Sprintf("%d/%d/%d", rt.s, rt.d, rt.p))
			r.Hist("decrease", fmt.Sprint(params.MintDecrease))
			if k == 0 && b < 2 {
				r.Sample(desc)
			}
			// ---- monitors (only inside the property's quantifier)
			if inQuant {
				em := post.Supply - pre.Supply
				fl := func(ratio int64) int64 {
					return new(big.Int).Div(new(big.Int).Mul(big.NewInt(ratio), big.NewInt(em)), big.NewInt(100)).Int64()
				}
				bad := func(sig, what string) {
					r.Finding(sig, what, map[string]interface{}{"trace": trace})
				}
				if em < 0 {
					bad("C13/emission-negative", "supply shrank in a block")
				}
				if em > lastEm {
					bad("C13/emission-increased", fmt.Sprintf("emission %d larger than the previous block's %d", em, lastEm))
				}
				if post.Rec == nil || *post.Rec != em {
					bad("C13/record-mismatch", "MintedBlock of the block differs from the supply growth")
				}
				if post.Fee-pre.Fee != fl(rt.s) || post.Dev-pre.Dev != fl(rt.d) || post.Stip-pre.Stip != fl(rt.p) {
					bad("C13/split-wrong", fmt.Sprintf("split of %d is %d/%d/%d, expected %d/%d/%d", em, post.Fee-pre.Fee, post.Dev-pre.Dev, post.Stip-pre.Stip, fl(rt.s), fl(rt.d), fl(rt.p)))
				}
				kept := post.Mod - pre.Mod
				if kept != em-fl(rt.s)-fl(rt.d)-fl(rt.p) {
					bad("C13/module-remainder", "mint module delta is not emission minus the three shares")
				}
				slack := 100*kept - em*(100-rt.s-rt.d-rt.p)
				if slack < 0 || slack >= 300 {
					bad("C13/module-remainder", "mint module keeps more than the rounding remainder")
				}
				if e.Bal(bystander, eff) != by0 {
					bad("C13/other-account-credited", "an unrelated account's balance changed")
				}
				lastEm = em
			}
			h++
		}
		e.Close()
	}
	if err := c13UpgradeChains(r); err != nil {
		return err
	}
	if err := c13InitialHeightChains(r); err != nil {
		return err
	}
	if err := c13PersistedTwin(r); err != nil {
		return err
	}
	AddDecCases(r, r.Scale(120, 1500))
	return nil
}

// ---------------------------------------------------------------- whole-app chains across a software upgrade
//
// The emission schedule must survive a software upgrade: blocks are produced through the ABCI interface of the
// assembled app (every module's BeginBlocker in the app's order, x/upgrade first), the chain's stored module
// versions are those of the release this work started from (corpus/C13/module_versions.json: a chain that has
// already produced blocks was started by an earlier binary), an upgrade is scheduled whose handler calls
// mm.RunMigrations like the handlers in app/upgrades, and the chain runs through the upgrade height.  On a tree whose
// consensus versions equal the recorded ones no migration runs; a migration that is added later is executed here
// exactly where a live chain executes it.

func c13AppInternals(e *Env) (*module.Manager, module.Configurator, upgradekeeper.Keeper) {
	v := reflect.ValueOf(e.App).Elem()
	get := func(name string) reflect.Value {
		f := v.FieldByName(name)
		return reflect.NewAt(f.Type(), unsafe.Pointer(f.UnsafeAddr())).Elem()
	}
	return get("mm").Interface().(*module.Manager), get("configurator").Interface().(module.Configurator), get("upgradeKeeper").Interface().(upgradekeeper.Keeper)
}

func c13UpgradeChains(r *RunCtx) error {
	p := r.Rng
	raw, err := os.ReadFile(filepath.Join(c19VerifRoot(), "corpus", "C13", "module_versions.json"))
	if err != nil {
		return fmt.Errorf("C13: recorded module versions: %w", err)
	}
	recorded := module.VersionMap{}
	if err := json.Unmarshal(raw, &recorded); err != nil {
		return err
	}
	nch := r.Scale(3, 12)
	for c := 0; c < nch; c++ {
		e, err := NewEnv()
		if err != nil {
			return err
		}
		mm, cfg, uk := c13AppInternals(e)
		params := minttypes.DefaultParams()
		params.TokensPerBlock = PickOne(p, []int64{4_200_000, 4_200_000, 1_000_000_007, 101})
		params.MintDecrease = PickOne(p, []int64{6, 6, 1, c13Bpy / 3})
		if c == 0 {
			params.TokensPerBlock, params.MintDecrease = 4_200_000, 6
		}
		e.App.MintKeeper.SetParams(e.Ctx, params)
		current := mm.GetVersionMap()
		from := module.VersionMap{}
		for name, v := range current {
			from[name] = v
			if rv, ok := recorded[name]; ok && rv < v {
				from[name] = rv // a module whose consensus version was raised since: its migrations run at the upgrade
			}
		}
		// the last chain replays the upgrade that brought jklmint to its current version: its last in-place migration
		// runs again (from consensus version - 1) and installs the parameters it installs; the schedule, the record
		// and the split by the stored ratios to the stored stipend address hold through it like through any block
		replay := c == nch-1
		if replay {
			if v := from[minttypes.ModuleName]; v > 1 {
				from[minttypes.ModuleName] = v - 1
			}
			r.Hist("upgrade-chain", "replays-the-last-jklmint-migration")
		}
		uk.SetModuleVersionMap(e.Ctx, from)
		before := 3 + p.Intn(r.Scale(6, 20))
		after := 2 + p.Intn(6)
		upAt := e.Height + int64(before)
		if err := uk.ScheduleUpgrade(e.Ctx, upgradetypes.Plan{Name: "verif-next", Height: upAt}); err != nil {
			e.Close()
			return fmt.Errorf("C13: scheduling the upgrade: %w", err)
		}
		// a passed ParameterChangeProposal changes the split in the middle of the run (written by gov's end blocker
		// through the subspace, then committed with the block): every later block must split by the stored values
		changeAt := e.Height + int64(1+p.Intn(before+after-1))
		newRatios := PickOne(p, [][3]int64{{50, 25, 25}, {0, 0, 100}, {10, 60, 5}, {80, 8, 12}})
		mss, _ := c15ParamsKeeper(e).GetSubspace(minttypes.ModuleName)
		devAcct, _ := mintkeeper.GetDevGrantsAccount()
		stipAcct, _ := sdk.AccAddressFromBech32(params.StorageStipendAddress)
		lastEm := int64(-1)
		halted := false
		trace := []map[string]interface{}{}
		denom := "ujkl"
		for b := 0; b < before+after; b++ {
			if e.Height == changeAt && c%2 == 1 {
				// ... and, on every second chain, re-denominates the emission: the schedule goes on from the last amount
				denom = PickOne(p, []string{"umint", "uJKL"})
				_ = mss.Update(e.Ctx, minttypes.KeyMintDenom, []byte(fmt.Sprintf("%q", denom)))
				r.Hist("upgrade-chain", "denomination-changed-by-governance")
			}
			s0 := e.Supply(denom)
			if e.Height == changeAt {
				q := func(v int64) []byte { return []byte(fmt.Sprintf("%q", fmt.Sprint(v))) }
				_ = mss.Update(e.Ctx, minttypes.KeyStakerRatio, q(newRatios[0]))
				_ = mss.Update(e.Ctx, minttypes.KeyDevGrants, q(newRatios[1]))
				_ = mss.Update(e.Ctx, minttypes.KeyProviderRatio, q(newRatios[2]))
				r.Hist("upgrade-chain", "ratios-changed-by-governance")
			}
			dev0, stip0 := e.Bal(devAcct, denom), e.Bal(stipAcct, denom)
			if e.Height+1 == upAt { // the node operators switch to the new binary for this block: only it knows the handler
				uk.SetUpgradeHandler("verif-next", func(ctx sdk.Context, _ upgradetypes.Plan, fromVM module.VersionMap) (module.VersionMap, error) {
					return mm.RunMigrations(ctx, cfg, fromVM)
				})
			}
			pn, where := c05NextBlock(e, 6*time.Second)
			desc := map[string]interface{}{"chain": c, "height": e.Height, "upgrade_height": upAt, "params": params, "module_versions_before_upgrade": from}
			if pn != "" {
				desc["panic"] = pn
				trace = append(trace, desc)
				r.Finding("C13/upgrade-chain/panic-"+where, "the chain halted: "+pn, map[string]interface{}{"trace": trace})
				halted = true
				break
			}
			em := e.Supply(denom) - s0
			desc["emission"] = em
			var rec *int64
			if mb, found := e.App.MintKeeper.GetMintedBlock(e.Ctx, e.Height); found {
				v := mb.Minted
				rec = &v
			}
			desc["record"] = rec
			trace = append(trace, desc)
			bad := func(sig, what string) { r.Finding(sig, what, map[string]interface{}{"trace": trace}) }
			if em < 0 {
				bad("C13/emission-negative", "supply shrank in a block")
			}
			if lastEm >= 0 && em > lastEm {
				bad("C13/emission-increased", fmt.Sprintf("emission %d at height %d larger than the previous block's %d (upgrade height %d)", em, e.Height, lastEm, upAt))
			}
			if rec == nil || *rec != em {
				bad("C13/record-mismatch", "MintedBlock of the block differs from the supply growth")
			}
			// the split of this block's emission, by the values the parameter store holds now
			var dr, pr int64
			mss.Get(e.Ctx, minttypes.KeyDevGrants, &dr)
			mss.Get(e.Ctx, minttypes.KeyProviderRatio, &pr)
			fl := func(ratio int64) int64 {
				return new(big.Int).Div(new(big.Int).Mul(big.NewInt(ratio), big.NewInt(em)), big.NewInt(100)).Int64()
			}
			desc["dev_ratio"], desc["provider_ratio"] = dr, pr
			var cur minttypes.Params
			mss.GetParamSet(e.Ctx, &cur)
			stipNow, _ := sdk.AccAddressFromBech32(cur.StorageStipendAddress)
			if !stipNow.Equals(stipAcct) {
				// the upgrade installed another stipend address: this block's share went there
				stip0, stipAcct = 0, stipNow
				desc["stipend_address_installed_by_the_upgrade"] = cur.StorageStipendAddress
			}
			params.MintDecrease = cur.MintDecrease
			if !stipAcct.Equals(devAcct) {
				if d := e.Bal(devAcct, denom) - dev0; d != fl(dr) {
					bad("C13/split-wrong", fmt.Sprintf("developer grants received %d of emission %d at height %d, the stored ratio %d%% gives %d", d, em, e.Height, dr, fl(dr)))
				}
				if d := e.Bal(stipAcct, denom) - stip0; d != fl(pr) {
					bad("C13/split-wrong", fmt.Sprintf("the storage stipend address received %d of emission %d at height %d, the stored ratio %d%% gives %d", d, em, e.Height, pr, fl(pr)))
				}
			}
			if lastEm >= 0 {
				r.Case("mint", fmt.Sprintf("MintFn %s %s %s %s", cZ(lastEm), cZ(c13Bpy), cZ(params.MintDecrease), cZ(em)), desc)
			}
			r.Count(fmt.Sprintf("chain:%d:%d:%d:%v", params.TokensPerBlock, params.MintDecrease, lastEm, e.Height == upAt), lastEm > 0)
			stage := "before"
			if e.Height == upAt {
				stage = "at-upgrade-height"
			} else if e.Height > upAt {
				stage = "after"
			}
			r.Hist("upgrade-chain", stage)
			lastEm = em
		}
		if done := uk.GetDoneHeight(e.Ctx, "verif-next"); done != upAt && !halted {
			e.Close()
			return fmt.Errorf("C13: the scheduled upgrade was not applied (done height %d, scheduled %d)", done, upAt)
		}
		r.Hist("upgrade-chain", "upgrade-applied")
		e.Close()
	}
	return nil
}

func c13PrintModuleVersions() error {
	e, err := NewEnv()
	if err != nil {
		return err
	}
	defer e.Close()
	mm, _, _ := c13AppInternals(e)
	js, err := json.MarshalIndent(mm.GetVersionMap(), "", " ")
	if err != nil {
		return err
	}
	fmt.Println(string(js))
	return nil
}

// c13InitialHeightChains: a chain that starts at an initial height above 1 (every chain restarted from a genesis
// file does), driven through ABCI exactly as tendermint does: InitChain, then BeginBlock of the initial height itself,
// EndBlock, Commit, and on.  From the very first block the supply must grow by the block's recorded emission, and
// never by more than the block before.
func c13InitialHeightChains(r *RunCtx) error {
	setBech32()
	for _, ih := range []int64{1, 2, 7, 100_000} {
		home, err := os.MkdirTemp("", "verifc13")
		if err != nil {
			return err
		}
		app := japp.NewJackalApp(log.NewNopLogger(), dbm.NewMemDB(), nil, true, map[int64]bool{}, home, 0, japp.MakeEncodingConfig(), wasm.EnableAllProposals, japp.EmptyBaseAppOptions{}, nil)
		sb, err := json.Marshal(japp.NewDefaultGenesisState())
		if err != nil {
			os.RemoveAll(home)
			return err
		}
		trace := []map[string]interface{}{}
		halted := ""
		func() {
			defer func() {
				if x := recover(); x != nil {
					halted = fmt.Sprint(x)
				}
			}()
			app.InitChain(abci.RequestInitChain{ChainId: "verif", Time: T0, InitialHeight: ih, Validators: []abci.ValidatorUpdate{}, ConsensusParams: japp.DefaultConsensusParams, AppStateBytes: sb})
			supply := func(h int64) int64 {
				ctx := app.BaseApp.NewContext(true, tmproto.Header{Height: h, Time: T0, ChainID: "verif"})
				return app.BankKeeper.GetSupply(ctx, "ujkl").Amount.Int64()
			}
			last := supply(ih) // the genesis supply (nothing is committed yet: the check state holds the genesis)
			lastEm := int64(-1)
			for b := int64(0); b < 6; b++ {
				h := ih + b
				hdr := tmproto.Header{Height: h, Time: T0.Add(time.Duration(b+1) * 6 * time.Second), ChainID: "verif"}
				app.BeginBlock(abci.RequestBeginBlock{Header: hdr})
				app.EndBlock(abci.RequestEndBlock{Height: h})
				app.Commit()
				now := supply(h)
				em := now - last
				last = now
				desc := map[string]interface{}{"initial_height": ih, "height": h, "emission": em}
				ctx := app.BaseApp.NewContext(true, hdr)
				var rec *int64
				if mb, found := app.MintKeeper.GetMintedBlock(ctx, h); found {
					v := mb.Minted
					rec = &v
				}
				desc["record"] = rec
				trace = append(trace, desc)
				bad := func(sig, what string) { r.Finding(sig, what, map[string]interface{}{"trace": trace}) }
				if em < 0 {
					bad("C13/emission-negative", "supply shrank in a block")
				}
				if lastEm >= 0 && em > lastEm {
					bad("C13/emission-increased", fmt.Sprintf("emission %d at height %d larger than the previous block's %d (chain started at height %d)", em, h, lastEm, ih))
				}
				if rec == nil || *rec != em {
					bad("C13/record-mismatch", fmt.Sprintf("MintedBlock of block %d differs from the supply growth %d (chain started at height %d)", h, em, ih))
				}
				if lastEm >= 0 {
					r.Case("mint", fmt.Sprintf("MintFn %s %s %s %s", cZ(lastEm), cZ(c13Bpy), cZ(minttypes.DefaultParams().MintDecrease), cZ(em)), desc)
				}
				r.Count(fmt.Sprintf("initial-height-chain:%d:%d", ih, b), true)
				r.Hist("initial-height-chain", fmt.Sprintf("initial_height=%d", ih))
				lastEm = em
			}
		}()
		os.RemoveAll(home)
		if halted != "" {
			r.Finding("C13/initial-height-chain/panic", "a chain started at height "+fmt.Sprint(ih)+" halted: "+halted, map[string]interface{}{"trace": trace})
		}
	}
	return nil
}
