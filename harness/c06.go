package main

// C06 — state transitions are deterministic across nodes (dynamic twin).
//
// One generated history = a genesis plus a list of blocks (header + SIGNED transaction bytes).  The
// history is produced while it is executed on instance A (in this process); it is then executed
// verbatim through the ABCI interface (InitChain, BeginBlock, DeliverTx*, EndBlock, Commit) on
//   B: a fresh app in a SEPARATE OS PROCESS (this binary re-executed as `harness c06-child`, with a
//      different GOMAXPROCS / GOGC, started later and slowed by sleeps, so scheduler, GC, map seeds,
//      OS entropy and wall clock all differ), and
//   C: a fresh app in this process.
// After every block AppHash, every ResponseDeliverTx (code, codespace, gas wanted/used, data, log) and
// the ordered event lists of BeginBlock / each tx / EndBlock are compared.  Any difference is a finding
// C06/divergence/<what>.
//
// Histories are biased to populate the maps and RNG paths the inventory lists: >= 5 providers proving
// >= 3 files over several reward blocks with >= 4 funded payment gauges, multi-entry file-tree ACLs
// (json-marshalled maps), attestation forms (provider shuffle), challenge re-draws on every proof, rns,
// notifications, failing transactions.
//
// Correspondence cases (Corr/C06.v): every real reward block against the model's sorted payout; every ACL
// handler execution against the model's sorted JSON; the challenge draws of a history as a function of
// (block gas + height, pieces); one Inventory case per class whose path was exercised.

import (
	"bytes"
	"crypto/sha256"
	"encoding/hex"
	"encoding/json"
	"fmt"
	"os"
	"os/exec"
	"path/filepath"
	"sort"
	"strings"
	"time"

	"github.com/CosmWasm/wasmd/x/wasm"
	"github.com/cosmos/cosmos-sdk/client"
	codectypes "github.com/cosmos/cosmos-sdk/codec/types"
	cryptocodec "github.com/cosmos/cosmos-sdk/crypto/codec"
	"github.com/cosmos/cosmos-sdk/crypto/keys/secp256k1"
	cryptotypes "github.com/cosmos/cosmos-sdk/crypto/types"
	sdk "github.com/cosmos/cosmos-sdk/types"
	"github.com/cosmos/cosmos-sdk/types/tx/signing"
	authsign "github.com/cosmos/cosmos-sdk/x/auth/signing"
	authtypes "github.com/cosmos/cosmos-sdk/x/auth/types"
	banktypes "github.com/cosmos/cosmos-sdk/x/bank/types"
	slashingtypes "github.com/cosmos/cosmos-sdk/x/slashing/types"
	stakingtypes "github.com/cosmos/cosmos-sdk/x/staking/types"
	abci "github.com/tendermint/tendermint/abci/types"
	tmed "github.com/tendermint/tendermint/crypto/ed25519"
	"github.com/tendermint/tendermint/libs/log"
	tmrand "github.com/tendermint/tendermint/libs/rand"
	tmproto "github.com/tendermint/tendermint/proto/tendermint/types"
	dbm "github.com/tendermint/tm-db"
	"github.com/wealdtech/go-merkletree/v2"
	"github.com/wealdtech/go-merkletree/v2/sha3"

	japp "github.com/jackalLabs/canine-chain/v4/app"
	filetreekeeper "github.com/jackalLabs/canine-chain/v4/x/filetree/keeper"
	filetreetypes "github.com/jackalLabs/canine-chain/v4/x/filetree/types"
	notiftypes "github.com/jackalLabs/canine-chain/v4/x/notifications/types"
	oracletypes "github.com/jackalLabs/canine-chain/v4/x/oracle/types"
	rnstypes "github.com/jackalLabs/canine-chain/v4/x/rns/types"
	storagetypes "github.com/jackalLabs/canine-chain/v4/x/storage/types"
)

func init() {
	// hidden subcommand: the second node of the double run (separate OS process)
	if len(os.Args) >= 4 && os.Args[1] == "c06-child" {
		if err := c06ChildMain(os.Args[2], os.Args[3]); err != nil {
			fmt.Fprintln(os.Stderr, "c06-child:", err)
			os.Exit(3)
		}
		os.Exit(0)
	}
	runners["C06"] = runC06
}

// ---------------------------------------------------------------- history and trace formats

type c06Block struct {
	Height   int64     `json:"height"`
	Time     time.Time `json:"time"`
	AppHash  []byte    `json:"app_hash"` // header field: the hash instance A committed for the previous block
	Txs      [][]byte  `json:"txs"`
	TxDesc   []string  `json:"tx_desc"`
	Phantoms [][]byte  `json:"phantoms,omitempty"` // signed txs that never land: a node may be asked to SIMULATE them (gas estimation)
	Proposer []byte    `json:"proposer"`
}

type c06History struct {
	ChainID  string          `json:"chain_id"`
	Genesis  time.Time       `json:"genesis_time"`
	AppState json.RawMessage `json:"app_state"`
	ValAddr  []byte          `json:"val_addr"`
	Blocks   []c06Block      `json:"blocks"`
}

type c06Event struct {
	Type  string      `json:"t"`
	Attrs [][2]string `json:"a"`
}

type c06TxRes struct {
	Code      uint32     `json:"code"`
	Codespace string     `json:"codespace"`
	GasWanted int64      `json:"gas_wanted"`
	GasUsed   int64      `json:"gas_used"`
	Data      string     `json:"data"`
	Log       string     `json:"log"`
	Events    []c06Event `json:"events"`
}

type c06BlockTrace struct {
	Height  int64      `json:"height"`
	AppHash string     `json:"app_hash"`
	Begin   []c06Event `json:"begin"`
	Txs     []c06TxRes `json:"txs"`
	End     []c06Event `json:"end"`
	ValUpd  int        `json:"val_updates"`
}

type c06Trace struct {
	Blocks []c06BlockTrace `json:"blocks"`
	Env    string          `json:"env"`
}

func c06Events(evs []abci.Event) []c06Event {
	out := make([]c06Event, 0, len(evs))
	for _, e := range evs {
		ce := c06Event{Type: e.Type}
		for _, a := range e.Attributes {
			ce.Attrs = append(ce.Attrs, [2]string{string(a.Key), string(a.Value)})
		}
		out = append(out, ce)
	}
	return out
}

// ---------------------------------------------------------------- one node

type c06Node struct {
	app  *japp.JackalApp
	home string
	db   dbm.DB
}

// restart drops the application object and builds a new one over the same database and home
// directory, as a node process that is stopped and started again between two blocks.
func (n *c06Node) restart() {
	n.app = japp.NewJackalApp(log.NewNopLogger(), n.db, nil, true, map[int64]bool{}, n.home, 0, japp.MakeEncodingConfig(), wasm.EnableAllProposals, japp.EmptyBaseAppOptions{}, nil)
}

func c06NewNode(h *c06History) (*c06Node, error) {
	setBech32()
	home, err := os.MkdirTemp("", "verifc06")
	if err != nil {
		return nil, err
	}
	db := dbm.NewMemDB()
	app := japp.NewJackalApp(log.NewNopLogger(), db, nil, true, map[int64]bool{}, home, 0, japp.MakeEncodingConfig(), wasm.EnableAllProposals, japp.EmptyBaseAppOptions{}, nil)
	app.InitChain(abci.RequestInitChain{ChainId: h.ChainID, Time: h.Genesis, Validators: []abci.ValidatorUpdate{}, ConsensusParams: japp.DefaultConsensusParams, AppStateBytes: h.AppState})
	app.Commit()
	return &c06Node{app: app, home: home, db: db}, nil
}

func (n *c06Node) Close() { os.RemoveAll(n.home) }

func (n *c06Node) header(h *c06History, b *c06Block) tmproto.Header {
	return tmproto.Header{ChainID: h.ChainID, Height: b.Height, Time: b.Time, AppHash: b.AppHash, ProposerAddress: b.Proposer}
}

func (n *c06Node) begin(h *c06History, b *c06Block) []c06Event {
	req := abci.RequestBeginBlock{Header: n.header(h, b),
		LastCommitInfo: abci.LastCommitInfo{Votes: []abci.VoteInfo{{Validator: abci.Validator{Address: h.ValAddr, Power: 1}, SignedLastBlock: true}}}}
	return c06Events(n.app.BeginBlock(req).Events)
}

func (n *c06Node) deliver(tx []byte) c06TxRes {
	r := n.app.DeliverTx(abci.RequestDeliverTx{Tx: tx})
	return c06TxRes{Code: r.Code, Codespace: r.Codespace, GasWanted: r.GasWanted, GasUsed: r.GasUsed, Data: hex.EncodeToString(r.Data), Log: r.Log, Events: c06Events(r.Events)}
}

func (n *c06Node) end(b *c06Block) ([]c06Event, int, string) {
	r := n.app.EndBlock(abci.RequestEndBlock{Height: b.Height})
	c := n.app.Commit()
	return c06Events(r.Events), len(r.ValidatorUpdates), hex.EncodeToString(c.Data)
}

// c06Replay executes a complete history on a fresh node.
func c06Replay(h *c06History, pause time.Duration) (*c06Trace, error) {
	return c06ReplayOpts(h, pause, 0, false)
}

// c06ReplayOpts: restartEvery > 0 restarts the node (new application object over the same database)
// after every restartEvery-th block; simulate makes the node answer gas-estimation requests
// (BaseApp.Simulate) for the block's phantom transactions and for every real transaction before it is
// delivered.  Neither may change any consensus result: state lives in the store, not in the process.
func c06ReplayOpts(h *c06History, pause time.Duration, restartEvery int, simulate bool) (*c06Trace, error) {
	n, err := c06NewNode(h)
	if err != nil {
		return nil, err
	}
	defer n.Close()
	tr := &c06Trace{}
	for i := range h.Blocks {
		b := &h.Blocks[i]
		bt := c06BlockTrace{Height: b.Height}
		bt.Begin = n.begin(h, b)
		if simulate {
			for _, tx := range b.Phantoms {
				_ = Guard(func() { _, _, _ = n.app.Simulate(tx) })
			}
		}
		for _, tx := range b.Txs {
			if simulate {
				_ = Guard(func() { _, _, _ = n.app.Simulate(tx) })
			}
			bt.Txs = append(bt.Txs, n.deliver(tx))
		}
		bt.End, bt.ValUpd, bt.AppHash = n.end(b)
		tr.Blocks = append(tr.Blocks, bt)
		if restartEvery > 0 && (i+1)%restartEvery == 0 {
			n.restart()
		}
		if pause > 0 && i%16 == 0 {
			time.Sleep(pause)
		}
	}
	return tr, nil
}

func c06ChildMain(histPath, outPath string) error {
	devnull, err := os.OpenFile(os.DevNull, os.O_WRONLY, 0)
	if err == nil {
		os.Stdout = devnull
	}
	time.Sleep(120 * time.Millisecond) // a different wall clock than the first run, on purpose
	raw, err := os.ReadFile(histPath)
	if err != nil {
		return err
	}
	var h c06History
	if err := json.Unmarshal(raw, &h); err != nil {
		return err
	}
	// a node with peers: Tendermint's own goroutines (consensus gossip, pex, evidence) draw from the process-wide
	// generator of tendermint/libs/rand all the time; the state machine must not share that generator
	if os.Getenv("C06_PEERS") != "" {
		for i := 0; i < 2; i++ {
			go func() {
				for {
					_ = tmrand.Int63()
				}
			}()
		}
	}
	tr, err := c06Replay(&h, 3*time.Millisecond)
	if err != nil {
		return err
	}
	tr.Env = fmt.Sprintf("pid=%d GOMAXPROCS=%s GOGC=%s TZ=%s peers=%q (local zone %s)", os.Getpid(), os.Getenv("GOMAXPROCS"), os.Getenv("GOGC"), os.Getenv("TZ"), os.Getenv("C06_PEERS"), time.Now().Location())
	js, err := json.Marshal(tr)
	if err != nil {
		return err
	}
	return os.WriteFile(outPath, js, 0o644)
}

func c06RunChild(histPath, outPath string, variant int) (*c06Trace, error) {
	cmd := exec.Command(os.Args[0], "c06-child", histPath, outPath)
	env := []string{}
	for _, kv := range os.Environ() {
		if strings.HasPrefix(kv, "GOMAXPROCS=") || strings.HasPrefix(kv, "GOGC=") || strings.HasPrefix(kv, "TZ=") {
			continue
		}
		env = append(env, kv)
	}
	if variant%2 == 0 {
		env = append(env, "GOMAXPROCS=1", "GOGC=20")
	} else {
		env = append(env, "GOMAXPROCS=3", "GOGC=400", "C06_PEERS=2")
	}
	// the second node runs on a host in another time zone (with daylight saving): calendar arithmetic
	// must not depend on the host's local zone
	env = append(env, "TZ="+[]string{"America/New_York", "Europe/Berlin", "Australia/Lord_Howe"}[variant%3])
	cmd.Env = env
	var stderr bytes.Buffer
	cmd.Stderr = &stderr
	if err := cmd.Run(); err != nil {
		return nil, fmt.Errorf("child process failed: %v: %s", err, stderr.String())
	}
	raw, err := os.ReadFile(outPath)
	if err != nil {
		return nil, err
	}
	var tr c06Trace
	if err := json.Unmarshal(raw, &tr); err != nil {
		return nil, err
	}
	return &tr, nil
}

// ---------------------------------------------------------------- genesis

type c06Acct struct {
	Priv cryptotypes.PrivKey
	Addr sdk.AccAddress
	Num  uint64
	Name string
}

type c06Config struct {
	NProv        int // providers in genesis (all active)
	NLate        int // providers registering by MsgInitProvider (not active)
	NUsers       int
	CheckWindow  int64
	ProofWindow  int64
	ChunkSize    int64
	Price        int64 // PricePerTbPerMonth
	BlockSeconds int64
	Blocks       int64
	NFiles       int
	// Base is added to every block time (0 = none).  In the wall-clock-anchored history it puts the sub-hour
	// part of all block times 1.5 s after Anchor's, and the generator waits for Anchor before it executes the
	// plan upgrade: a price that depended on the node's clock (rounded to hours or finer) then differs on every
	// node that executes the block a few seconds later.
	Base   time.Duration
	Anchor time.Time
}

func c06Genesis(cfg c06Config) (*c06History, []c06Acct, error) {
	setBech32()
	enc := japp.MakeEncodingConfig()
	cdc := enc.Marshaler
	n := cfg.NProv + cfg.NLate + cfg.NUsers + 1
	accts := make([]c06Acct, n)
	genAccs := make([]authtypes.GenesisAccount, n)
	balances := make([]banktypes.Balance, 0, n+1)
	for i := 0; i < n; i++ {
		priv := secp256k1.GenPrivKeyFromSecret([]byte(fmt.Sprintf("verif-c06-account-%d", i)))
		addr := sdk.AccAddress(priv.PubKey().Address())
		accts[i] = c06Acct{Priv: priv, Addr: addr, Num: uint64(i)}
		genAccs[i] = authtypes.NewBaseAccount(addr, priv.PubKey(), uint64(i), 0)
		balances = append(balances, banktypes.Balance{Address: addr.String(), Coins: sdk.NewCoins(sdk.NewInt64Coin("ujkl", 4_000_000_000_000_000), sdk.NewInt64Coin(sdk.DefaultBondDenom, 1_000_000_000))})
	}
	gs := japp.NewDefaultGenesisState()
	gs[authtypes.ModuleName] = cdc.MustMarshalJSON(authtypes.NewGenesisState(authtypes.DefaultParams(), genAccs))

	valPriv := tmed.GenPrivKeyFromSecret([]byte("verif-c06-validator"))
	valPub := valPriv.PubKey()
	pk, err := cryptocodec.FromTmPubKeyInterface(valPub)
	if err != nil {
		return nil, nil, err
	}
	pkAny, err := codectypes.NewAnyWithValue(pk)
	if err != nil {
		return nil, nil, err
	}
	bond := sdk.NewInt(1000000)
	validator := stakingtypes.Validator{OperatorAddress: sdk.ValAddress(valPub.Address()).String(), ConsensusPubkey: pkAny, Status: stakingtypes.Bonded,
		Tokens: bond, DelegatorShares: sdk.OneDec(), Description: stakingtypes.Description{}, UnbondingTime: time.Unix(0, 0).UTC(),
		Commission: stakingtypes.NewCommission(sdk.ZeroDec(), sdk.ZeroDec(), sdk.ZeroDec()), MinSelfDelegation: sdk.ZeroInt()}
	deleg := stakingtypes.NewDelegation(accts[0].Addr, valPub.Address().Bytes(), sdk.OneDec())
	gs[stakingtypes.ModuleName] = cdc.MustMarshalJSON(stakingtypes.NewGenesisState(stakingtypes.DefaultParams(), []stakingtypes.Validator{validator}, []stakingtypes.Delegation{deleg}))

	// a validator that is bonded in genesis gets its signing info from genesis too (the staking hook never runs for it)
	consAddr := sdk.ConsAddress(valPub.Address())
	var slg slashingtypes.GenesisState
	cdc.MustUnmarshalJSON(gs[slashingtypes.ModuleName], &slg)
	slg.SigningInfos = append(slg.SigningInfos, slashingtypes.SigningInfo{Address: consAddr.String(),
		ValidatorSigningInfo: slashingtypes.NewValidatorSigningInfo(consAddr, 0, 0, time.Unix(0, 0).UTC(), false, 0)})
	gs[slashingtypes.ModuleName] = cdc.MustMarshalJSON(&slg)

	total := sdk.NewCoins()
	for _, b := range balances {
		total = total.Add(b.Coins...)
	}
	total = total.Add(sdk.NewCoin(sdk.DefaultBondDenom, bond))
	balances = append(balances, banktypes.Balance{Address: authtypes.NewModuleAddress(stakingtypes.BondedPoolName).String(), Coins: sdk.Coins{sdk.NewCoin(sdk.DefaultBondDenom, bond)}})
	gs[banktypes.ModuleName] = cdc.MustMarshalJSON(banktypes.NewGenesisState(banktypes.DefaultGenesisState().Params, balances, total, []banktypes.Metadata{}))

	var sg storagetypes.GenesisState
	cdc.MustUnmarshalJSON(gs[storagetypes.ModuleName], &sg)
	sg.Params.CheckWindow = cfg.CheckWindow
	sg.Params.ProofWindow = cfg.ProofWindow
	sg.Params.ChunkSize = cfg.ChunkSize
	sg.Params.PricePerTbPerMonth = cfg.Price
	for i := 0; i < cfg.NProv; i++ {
		a := accts[1+i]
		sg.ProvidersList = append(sg.ProvidersList, storagetypes.Providers{Address: a.Addr.String(), Ip: fmt.Sprintf("https://node.provider%d.example", i), Totalspace: "1000000000000",
			BurnedContracts: "0", Creator: a.Addr.String(), KeybaseIdentity: "", AuthClaimers: []string{}})
		sg.ActiveProvidersList = append(sg.ActiveProvidersList, storagetypes.ActiveProviders{Address: a.Addr.String()})
	}
	gs[storagetypes.ModuleName] = cdc.MustMarshalJSON(&sg)

	var og oracletypes.GenesisState
	cdc.MustUnmarshalJSON(gs[oracletypes.ModuleName], &og)
	og.Params.Deposit = accts[0].Addr.String()
	gs[oracletypes.ModuleName] = cdc.MustMarshalJSON(&og)

	state, err := json.Marshal(gs)
	if err != nil {
		return nil, nil, err
	}
	for i := range accts {
		switch {
		case i == 0:
			accts[i].Name = "delegator"
		case i <= cfg.NProv:
			accts[i].Name = fmt.Sprintf("prov%d", i-1)
		case i <= cfg.NProv+cfg.NLate:
			accts[i].Name = fmt.Sprintf("lateprov%d", i-1-cfg.NProv)
		default:
			accts[i].Name = fmt.Sprintf("user%d", i-1-cfg.NProv-cfg.NLate)
		}
	}
	return &c06History{ChainID: "verif-c06", Genesis: T0, AppState: state, ValAddr: valPub.Address().Bytes()}, accts, nil
}

// c06GenTx: simapp/helpers.GenTx with a fixed memo (the original draws a random memo from the wall clock,
// which would make histories irreproducible from the seed).
func c06GenTx(gen client.TxConfig, msgs []sdk.Msg, gas uint64, chainID string, accNum, seq uint64, priv cryptotypes.PrivKey) ([]byte, error) {
	signMode := gen.SignModeHandler().DefaultMode()
	sig := signing.SignatureV2{PubKey: priv.PubKey(), Data: &signing.SingleSignatureData{SignMode: signMode}, Sequence: seq}
	tx := gen.NewTxBuilder()
	if err := tx.SetMsgs(msgs...); err != nil {
		return nil, err
	}
	if err := tx.SetSignatures(sig); err != nil {
		return nil, err
	}
	tx.SetMemo("verif c06")
	tx.SetFeeAmount(sdk.Coins{sdk.NewInt64Coin(sdk.DefaultBondDenom, 0)})
	tx.SetGasLimit(gas)
	signBytes, err := gen.SignModeHandler().GetSignBytes(signMode, authsign.SignerData{ChainID: chainID, AccountNumber: accNum, Sequence: seq}, tx.GetTx())
	if err != nil {
		return nil, err
	}
	sb, err := priv.Sign(signBytes)
	if err != nil {
		return nil, err
	}
	sig.Data.(*signing.SingleSignatureData).Signature = sb
	if err := tx.SetSignatures(sig); err != nil {
		return nil, err
	}
	return gen.TxEncoder()(tx.GetTx())
}

// ---------------------------------------------------------------- generator state

type c06File struct {
	Merkle   []byte
	Owner    int // account index
	Start    int64
	Size     int64
	Chunks   [][]byte
	Tree     *merkletree.MerkleTree
	Provers  []int // account indices
	Offsets  []int64
	Lazy     []bool
	Posted   bool
	Gauge    bool
	Attested bool
	Reported bool
}

type c06FtEntry struct {
	Owner    int
	Address  string // merkle path of the entry
	OwnerStr string
	Tracking string
}

type c06Gen struct {
	pendingPost *c06Pending
	r           *RunCtx
	p           *PRNG
	cfg         c06Config
	h           *c06History
	accts       []c06Acct
	node        *c06Node
	txCfg       client.TxConfig
	files       []*c06File
	ft          []c06FtEntry
	names       []string // registered rns names (with owner index in nameOwner)
	nameOw      map[string]int
	cur         *c06Block
	curTr       *c06BlockTrace
	hdr         tmproto.Header
	chall       [][3]int64 // (gas+height, pieces, chunk)
	acls        int
	forms       int
	pays        int
	histNo      int

	challFindings, aclFindings, payFindings int // caps, so that the divergence findings are never crowded out
}

type c06Pending struct {
	By    int
	Entry c06FtEntry
}

func (g *c06Gen) prov(i int) int   { return 1 + i }                                       // account index of genesis provider i
func (g *c06Gen) late(i int) int   { return 1 + g.cfg.NProv + i }                         // MsgInitProvider providers
func (g *c06Gen) user(i int) int   { return 1 + g.cfg.NProv + g.cfg.NLate + i }           // users
func (g *c06Gen) ctx() sdk.Context { return g.node.app.BaseApp.NewContext(false, g.hdr) } // deliver state of the running block

func c06Sha(s string) string { h := sha256.Sum256([]byte(s)); return hex.EncodeToString(h[:]) }

func (g *c06Gen) makeFile(owner int, size int64) (*c06File, error) {
	data := g.p.Bytes(int(size))
	var chunks, leaves [][]byte
	for off, i := int64(0), 0; off < size; off, i = off+g.cfg.ChunkSize, i+1 {
		end := off + g.cfg.ChunkSize
		if end > size {
			end = size
		}
		c := data[off:end]
		chunks = append(chunks, c)
		hh := sha256.Sum256([]byte(fmt.Sprintf("%d%x", i, c)))
		leaves = append(leaves, hh[:])
	}
	tree, err := merkletree.NewUsing(leaves, sha3.New512(), false)
	if err != nil {
		return nil, err
	}
	return &c06File{Merkle: tree.Root(), Owner: owner, Size: size, Chunks: chunks, Tree: tree}, nil
}

func (g *c06Gen) proofFor(f *c06File, chunk int64) (item, hashList []byte, err error) {
	if chunk < 0 || chunk >= int64(len(f.Chunks)) {
		return nil, nil, fmt.Errorf("chunk %d out of range", chunk)
	}
	item = f.Chunks[chunk]
	hh := sha256.Sum256([]byte(fmt.Sprintf("%d%x", chunk, item)))
	pr, err := f.Tree.GenerateProof(hh[:], 0)
	if err != nil {
		return nil, nil, err
	}
	hashList, err = json.Marshal(*pr)
	return item, hashList, err
}

// send signs msgs with the signer's CURRENT sequence (read from the running block's state), delivers the
// transaction to instance A and appends it to the history.
func (g *c06Gen) send(signer int, desc string, msgs ...sdk.Msg) c06TxRes {
	return g.sendSeq(signer, desc, 0, msgs...)
}

func (g *c06Gen) sendSeq(signer int, desc string, seqDelta int64, msgs ...sdk.Msg) c06TxRes {
	a := g.accts[signer]
	acc := g.node.app.AccountKeeper.GetAccount(g.ctx(), a.Addr)
	seq := uint64(0)
	num := a.Num
	if acc != nil {
		seq, num = acc.GetSequence(), acc.GetAccountNumber()
	}
	seq = uint64(int64(seq) + seqDelta)
	bz, err := c06GenTx(g.txCfg, msgs, 2_400_000, g.h.ChainID, num, seq, a.Priv)
	if err != nil {
		g.r.Hist("c06_gen_errors", err.Error())
		return c06TxRes{Code: 999999}
	}
	res := g.node.deliver(bz)
	g.cur.Txs = append(g.cur.Txs, bz)
	g.cur.TxDesc = append(g.cur.TxDesc, a.Name+": "+desc)
	g.curTr.Txs = append(g.curTr.Txs, res)
	kind := desc
	if i := strings.IndexByte(desc, ' '); i > 0 {
		kind = desc[:i]
	}
	g.r.Hist("c06_ops", kind)
	if res.Code == 0 {
		g.r.Hist("c06_outcomes", kind+":ok")
	} else {
		g.r.Hist("c06_outcomes", fmt.Sprintf("%s:code-%s-%d", kind, res.Codespace, res.Code))
	}
	return res
}

// phantom signs a transaction with the signer's current sequence and records it as a phantom of the
// running block: it is never delivered, only simulated by the instance that answers gas estimations.
func (g *c06Gen) phantom(signer int, msgs ...sdk.Msg) {
	a := g.accts[signer]
	acc := g.node.app.AccountKeeper.GetAccount(g.ctx(), a.Addr)
	if acc == nil {
		return
	}
	bz, err := c06GenTx(g.txCfg, msgs, 2_400_000, g.h.ChainID, acc.GetAccountNumber(), acc.GetSequence(), a.Priv)
	if err == nil {
		g.cur.Phantoms = append(g.cur.Phantoms, bz)
		g.r.Hist("c06_ops", "phantom(simulated only)")
	}
}

func (g *c06Gen) blockGas() int64 {
	var s int64
	for _, t := range g.curTr.Txs {
		s += t.GasUsed
	}
	return s
}

// ---------------------------------------------------------------- operations

func c06AclJSON(pairs [][2]string) string {
	m := map[string]string{}
	for _, p := range pairs {
		m[p[0]] = p[1]
	}
	b, _ := json.Marshal(m)
	return string(b)
}

// c06ParsePairs reads a JSON object of strings keeping the order in which the members are stored.
func c06ParsePairs(s string) ([][2]string, bool) {
	dec := json.NewDecoder(strings.NewReader(s))
	tok, err := dec.Token()
	if err != nil || tok != json.Delim('{') {
		return nil, false
	}
	var out [][2]string
	for dec.More() {
		k, err := dec.Token()
		if err != nil {
			return nil, false
		}
		v, err := dec.Token()
		if err != nil {
			return nil, false
		}
		ks, ok1 := k.(string)
		vs, ok2 := v.(string)
		if !ok1 || !ok2 {
			return nil, false
		}
		out = append(out, [2]string{ks, vs})
	}
	return out, true
}

func c06SetPair(m [][2]string, k, v string) [][2]string {
	for i := range m {
		if m[i][0] == k {
			m[i][1] = v
			return m
		}
	}
	return append(m, [2]string{k, v})
}

func c06DelPair(m [][2]string, k string) [][2]string {
	out := m[:0:0]
	for _, e := range m {
		if e[0] != k {
			out = append(out, e)
		}
	}
	return out
}

func c06PairsTerm(m [][2]string) string {
	items := make([]string, len(m))
	for i, e := range m {
		items[i] = cPair(cStr(e[0]), cStr(e[1]))
	}
	if len(items) == 0 {
		return "(@nil (list N * list N))"
	}
	return cList(items)
}

func (g *c06Gen) aclCase(kind string, before string, after string, apply func(m [][2]string) [][2]string, entry c06FtEntry) {
	m, ok := c06ParsePairs(before)
	if !ok {
		return
	}
	m = apply(m)
	g.acls++
	if g.r.Thorough() || g.acls <= 30 { // quick tier: the model is run on the first 30 per history; the monitor below sees all
		g.r.Case("paths", fmt.Sprintf("AclMarshal %s %s", c06PairsTerm(m), cStr(after)),
			map[string]interface{}{"kind": "acl", "handler": kind, "entry": entry.Address, "entries_in_insertion_order": m, "stored": after, "history": g.histNo, "height": g.cur.Height})
	}
	g.r.Count(fmt.Sprintf("acl:%d:%d:%s", g.histNo, g.cur.Height, after), len(m) >= 2)
	// monitor (independent of the model): the stored string lists the keys in ascending order
	got, ok := c06ParsePairs(after)
	if ok {
		for i := 1; i < len(got); i++ {
			if got[i-1][0] >= got[i][0] && g.aclFindings < 3 {
				g.aclFindings++
				g.r.Finding("C06/acl-json-keys-not-sorted", "a file-tree access list was stored with its keys out of order (map iteration order leaked into the state)",
					map[string]interface{}{"handler": kind, "stored": after, "history_seed": g.r.Seed, "history": g.histNo, "height": g.cur.Height})
			}
		}
	}
}

func (g *c06Gen) ftViewerIDs(e c06FtEntry, who []int) (ids, keys []string) {
	for _, w := range who {
		ids = append(ids, filetreekeeper.MakeViewerAddress(e.Tracking, g.accts[w].Addr.String()))
		keys = append(keys, "k"+c06Sha(fmt.Sprintf("%s/%d/%d", e.Tracking, w, g.p.Intn(1000)))[:24])
	}
	return
}

func (g *c06Gen) ftEditorIDs(e c06FtEntry, who []int) (ids, keys []string) {
	for _, w := range who {
		ids = append(ids, filetreekeeper.MakeEditorAddress(e.Tracking, g.accts[w].Addr.String()))
		keys = append(keys, "e"+c06Sha(fmt.Sprintf("%s/%d/%d", e.Tracking, w, g.p.Intn(1000)))[:24])
	}
	return
}

func (g *c06Gen) someAccounts(k int) []int {
	seen := map[int]bool{}
	var out []int
	for len(out) < k {
		i := 1 + g.p.Intn(len(g.accts)-1)
		if !seen[i] {
			seen[i] = true
			out = append(out, i)
		}
	}
	return out
}

func (g *c06Gen) opFiletreeSetup(u int) {
	ua := g.accts[u]
	creator := ua.Addr.String()
	g.send(u, "filetree.PostKey", &filetreetypes.MsgPostKey{Creator: creator, Key: "pk" + c06Sha(creator)[:20]})
	tn := "tn" + c06Sha(fmt.Sprintf("root%d", u))[:16]
	root := c06FtEntry{Owner: u, Address: filetreetypes.MerklePath("s"), Tracking: tn}
	root.OwnerStr = filetreekeeper.MakeOwnerAddress(root.Address, c06Sha(creator))
	vid, vk := g.ftViewerIDs(root, []int{u})
	eid, ek := g.ftEditorIDs(root, []int{u})
	res := g.send(u, "filetree.ProvisionFileTree", &filetreetypes.MsgProvisionFileTree{Creator: creator,
		Viewers: c06AclJSON([][2]string{{vid[0], vk[0]}}), Editors: c06AclJSON([][2]string{{eid[0], ek[0]}}), TrackingNumber: tn})
	if res.Code != 0 {
		return
	}
	// a few children with multi-entry access lists
	for c := 0; c < 2; c++ {
		child := fmt.Sprintf("dir%d", c)
		tn2 := "tn" + c06Sha(fmt.Sprintf("%d/%s", u, child))[:16]
		e := c06FtEntry{Owner: u, Tracking: tn2}
		e.Address = filetreetypes.AddToMerkle(root.Address, c06Sha(child))
		e.OwnerStr = filetreekeeper.MakeOwnerAddress(e.Address, c06Sha(creator))
		who := append([]int{u}, g.someAccounts(2+g.p.Intn(3))...)
		vids, vks := g.ftViewerIDs(e, who)
		eids, eks := g.ftEditorIDs(e, who[:2])
		var vp, ep [][2]string
		for i := range vids {
			vp = append(vp, [2]string{vids[i], vks[i]})
		}
		for i := range eids {
			ep = append(ep, [2]string{eids[i], eks[i]})
		}
		res := g.send(u, "filetree.PostFile", &filetreetypes.MsgPostFile{Creator: creator, Account: c06Sha(creator), HashParent: root.Address, HashChild: c06Sha(child),
			Contents: "{\"c\":" + fmt.Sprint(c) + "}", Viewers: c06AclJSON(vp), Editors: c06AclJSON(ep), TrackingNumber: tn2})
		if res.Code == 0 {
			g.ft = append(g.ft, e)
		}
	}
	// an entry whose access lists were written by a sloppy client (the chain stores the JSON as sent): ids that are not
	// digests, entries without a key, one digest in both letter cases, among a handful of ordinary entries.  Whatever
	// a handler does with such a list, every node must do the same: the owner adds and removes viewers right away
	{
		child := "sloppy"
		tn2 := "tn" + c06Sha(fmt.Sprintf("%d/%s", u, child))[:16]
		e := c06FtEntry{Owner: u, Tracking: tn2}
		e.Address = filetreetypes.AddToMerkle(root.Address, c06Sha(child))
		e.OwnerStr = filetreekeeper.MakeOwnerAddress(e.Address, c06Sha(creator))
		who := append([]int{u}, g.someAccounts(4)...)
		vids, vks := g.ftViewerIDs(e, who)
		dup := c06Sha(fmt.Sprintf("dup-%d", u))
		vp := [][2]string{{"short", "k"}, {"x", "k2"}, {c06Sha("nokey-a"), ""}, {c06Sha("nokey-b"), ""}, {dup, "lower"}, {strings.ToUpper(dup), "upper"}}
		for i := 0; i < 24; i++ { // many ids that differ from a neighbour only in letter case or in a blank around them, each with its own key
			d := c06Sha(fmt.Sprintf("dup-%d-%d", u, i))
			vp = append(vp, [2]string{d, fmt.Sprint("lower", i)}, [2]string{strings.ToUpper(d), fmt.Sprint("upper", i)}, [2]string{" " + d, fmt.Sprint("blank", i)})
		}
		for i := range vids {
			vp = append(vp, [2]string{vids[i], vks[i]})
		}
		res := g.send(u, "filetree.PostFile(sloppy lists)", &filetreetypes.MsgPostFile{Creator: creator, Account: c06Sha(creator), HashParent: root.Address, HashChild: c06Sha(child),
			Contents: "{}", Viewers: c06AclJSON(vp), Editors: c06AclJSON(vp[:5]), TrackingNumber: tn2})
		if res.Code == 0 {
			g.ft = append(g.ft, e)
			for i := 0; i < 3; i++ {
				g.send(u, "filetree.AddViewers(sloppy lists)", &filetreetypes.MsgAddViewers{Creator: creator, ViewerIds: c06Sha(fmt.Sprint("late-viewer", i)), ViewerKeys: "vk", Address: e.Address, FileOwner: e.OwnerStr})
				g.send(u, "filetree.AddEditors(sloppy lists)", &filetreetypes.MsgAddEditors{Creator: creator, EditorIds: c06Sha(fmt.Sprint("late-editor", i)), EditorKeys: "ek", Address: e.Address, FileOwner: e.OwnerStr})
			}
			g.send(u, "filetree.RemoveViewers(sloppy lists)", &filetreetypes.MsgRemoveViewers{Creator: creator, ViewerIds: dup, Address: e.Address, FileOwner: e.OwnerStr})
			g.send(u, "filetree.RemoveViewers(sloppy lists)", &filetreetypes.MsgRemoveViewers{Creator: creator, ViewerIds: c06Sha("nokey-a") + ",short", Address: e.Address, FileOwner: e.OwnerStr})
		}
	}
}

func (g *c06Gen) opFiletreeACL() {
	if len(g.ft) == 0 {
		return
	}
	e := g.ft[g.p.Intn(len(g.ft))]
	creator := g.accts[e.Owner].Addr.String()
	k := g.node.app.FileTreeKeeper
	before, found := k.GetFiles(g.ctx(), e.Address, e.OwnerStr)
	if !found {
		return
	}
	switch g.p.Intn(7) {
	case 6: // reset viewers: only the owner's entry survives
		res := g.send(e.Owner, "filetree.ResetViewers", &filetreetypes.MsgResetViewers{Creator: creator, Address: e.Address, FileOwner: e.OwnerStr})
		if after, ok := k.GetFiles(g.ctx(), e.Address, e.OwnerStr); ok && res.Code == 0 {
			ownerID := filetreekeeper.MakeViewerAddress(before.TrackingNumber, creator)
			g.aclCase("ResetViewers", before.ViewingAccess, after.ViewingAccess, func(m [][2]string) [][2]string {
				key := ""
				for _, e := range m {
					if e[0] == ownerID {
						key = e[1]
					}
				}
				return [][2]string{{ownerID, key}}
			}, e)
		}
	case 0, 1: // add 2..5 viewers
		who := g.someAccounts(2 + g.p.Intn(4))
		ids, keys := g.ftViewerIDs(e, who)
		res := g.send(e.Owner, "filetree.AddViewers", &filetreetypes.MsgAddViewers{Creator: creator, ViewerIds: strings.Join(ids, ","), ViewerKeys: strings.Join(keys, ","), Address: e.Address, FileOwner: e.OwnerStr})
		if after, ok := k.GetFiles(g.ctx(), e.Address, e.OwnerStr); ok && res.Code == 0 {
			g.aclCase("AddViewers", before.ViewingAccess, after.ViewingAccess, func(m [][2]string) [][2]string {
				for i := range ids {
					m = c06SetPair(m, ids[i], keys[i])
				}
				return m
			}, e)
		}
	case 2: // add editors
		who := g.someAccounts(2 + g.p.Intn(3))
		ids, keys := g.ftEditorIDs(e, who)
		res := g.send(e.Owner, "filetree.AddEditors", &filetreetypes.MsgAddEditors{Creator: creator, EditorIds: strings.Join(ids, ","), EditorKeys: strings.Join(keys, ","), Address: e.Address, FileOwner: e.OwnerStr})
		if after, ok := k.GetFiles(g.ctx(), e.Address, e.OwnerStr); ok && res.Code == 0 {
			g.aclCase("AddEditors", before.EditAccess, after.EditAccess, func(m [][2]string) [][2]string {
				for i := range ids {
					m = c06SetPair(m, ids[i], keys[i])
				}
				return m
			}, e)
		}
	case 3: // remove some viewers (present or not)
		cur, _ := c06ParsePairs(before.ViewingAccess)
		var ids []string
		for _, c := range cur {
			if g.p.Chance(1, 2) && len(ids) < 3 {
				ids = append(ids, c[0])
			}
		}
		ids = append(ids, "absent"+c06Sha(fmt.Sprint(g.p.U64()))[:10])
		res := g.send(e.Owner, "filetree.RemoveViewers", &filetreetypes.MsgRemoveViewers{Creator: creator, ViewerIds: strings.Join(ids, ","), Address: e.Address, FileOwner: e.OwnerStr})
		if after, ok := k.GetFiles(g.ctx(), e.Address, e.OwnerStr); ok && res.Code == 0 {
			g.aclCase("RemoveViewers", before.ViewingAccess, after.ViewingAccess, func(m [][2]string) [][2]string {
				for _, id := range ids {
					m = c06DelPair(m, id)
				}
				return m
			}, e)
		}
	case 4: // remove editors
		cur, _ := c06ParsePairs(before.EditAccess)
		var ids []string
		for _, c := range cur {
			if g.p.Chance(1, 3) {
				ids = append(ids, c[0])
			}
		}
		if len(ids) == 0 {
			ids = []string{"nobody"}
		}
		res := g.send(e.Owner, "filetree.RemoveEditors", &filetreetypes.MsgRemoveEditors{Creator: creator, EditorIds: strings.Join(ids, ","), Address: e.Address, FileOwner: e.OwnerStr})
		if after, ok := k.GetFiles(g.ctx(), e.Address, e.OwnerStr); ok && res.Code == 0 {
			g.aclCase("RemoveEditors", before.EditAccess, after.EditAccess, func(m [][2]string) [][2]string {
				for _, id := range ids {
					m = c06DelPair(m, id)
				}
				return m
			}, e)
		}
	case 5: // not the owner: must fail the same way on every node
		o := g.user((e.Owner + 1) % g.cfg.NUsers)
		if o == e.Owner {
			return
		}
		g.send(o, "filetree.AddViewers-notowner", &filetreetypes.MsgAddViewers{Creator: g.accts[o].Addr.String(), ViewerIds: "x", ViewerKeys: "y", Address: e.Address, FileOwner: e.OwnerStr})
	}
}

func (g *c06Gen) opRns(u int) {
	creator := g.accts[u].Addr.String()
	switch g.p.Intn(7) {
	case 5:
		if len(g.names) == 0 {
			return
		}
		name := g.names[g.p.Intn(len(g.names))]
		o := g.nameOw[name]
		to := g.user(g.p.Intn(g.cfg.NUsers))
		res := g.send(o, "rns.Transfer", &rnstypes.MsgTransfer{Creator: g.accts[o].Addr.String(), Name: name, Receiver: g.accts[to].Addr.String()})
		if res.Code == 0 {
			g.nameOw[name] = to
		}
	case 6:
		if len(g.names) == 0 {
			return
		}
		name := g.names[g.p.Intn(len(g.names))]
		o := g.nameOw[name]
		g.send(o, "rns.AddRecord", &rnstypes.MsgAddRecord{Creator: g.accts[o].Addr.String(), Name: name, Value: g.accts[u].Addr.String(), Data: "{}", Record: fmt.Sprintf("sub%d", g.p.Intn(5))})
	case 0, 1:
		name := fmt.Sprintf("name%d%s.jkl", len(g.names), c06Sha(fmt.Sprint(g.p.U64()))[:4])
		res := g.send(u, "rns.Register", &rnstypes.MsgRegister{Creator: creator, Name: name, Years: int64(1 + g.p.Intn(3)), Data: "{}"})
		if res.Code == 0 {
			g.names = append(g.names, name)
			g.nameOw[name] = u
		}
	case 2:
		if len(g.names) == 0 {
			return
		}
		name := g.names[g.p.Intn(len(g.names))]
		g.send(u, "rns.Bid", &rnstypes.MsgBid{Creator: creator, Name: name, Bid: sdk.NewInt64Coin("ujkl", int64(1000+g.p.Intn(100000)))})
	case 3:
		if len(g.names) == 0 {
			return
		}
		name := g.names[g.p.Intn(len(g.names))]
		o := g.nameOw[name]
		g.send(o, "rns.List", &rnstypes.MsgList{Creator: g.accts[o].Addr.String(), Name: name, Price: sdk.NewInt64Coin("ujkl", int64(5000+g.p.Intn(100000)))})
	case 4:
		if len(g.names) == 0 {
			return
		}
		name := g.names[g.p.Intn(len(g.names))]
		res := g.send(u, "rns.Buy", &rnstypes.MsgBuy{Creator: creator, Name: name})
		if res.Code == 0 {
			g.nameOw[name] = u
		}
	}
}

func (g *c06Gen) opNotify(u int) {
	creator := g.accts[u].Addr.String()
	to := g.accts[g.user(g.p.Intn(g.cfg.NUsers))].Addr.String()
	switch g.p.Intn(4) {
	case 0, 1, 2:
		g.send(u, "notifications.CreateNotification", &notiftypes.MsgCreateNotification{Creator: creator, To: to, Contents: fmt.Sprintf("{\"n\":%d}", g.p.Intn(1000)), PrivateContents: g.p.Bytes(8)})
	case 3:
		// several senders at once, sometimes with a name nobody registered in the middle (the list is then refused
		// part-way: what was handled before the refusal, and what it cost, must be the same on every node)
		list := []string{to}
		for i := 0; i < 2+g.p.Intn(5); i++ {
			list = append(list, g.accts[g.user(g.p.Intn(g.cfg.NUsers))].Addr.String())
		}
		if g.p.Chance(1, 2) {
			at := g.p.Intn(len(list) + 1)
			list = append(list[:at], append([]string{"nobody-registered-this.jkl"}, list[at:]...)...)
		}
		g.send(u, "notifications.BlockSenders", &notiftypes.MsgBlockSenders{Creator: creator, ToBlock: list})
	}
}

func (g *c06Gen) opPostFile(i int) {
	f := g.files[i]
	height := g.cur.Height
	creator := g.accts[f.Owner].Addr.String()
	var expires int64
	if f.Gauge {
		days := []int64{2, 3, 5, 160, 13, 230, 8, 330}[i%8] // some paid periods span daylight-saving switches of the hosts' zones
		expires = height + 14400*days + int64(g.p.Intn(100))
	}
	res := g.send(f.Owner, "storage.PostFile", &storagetypes.MsgPostFile{Creator: creator, Merkle: f.Merkle, FileSize: f.Size, ProofInterval: g.cfg.ProofWindow, ProofType: 0, MaxProofs: 3, Expires: expires, Note: "{}"})
	if res.Code == 0 {
		f.Posted = true
		f.Start = height
	}
}

func (g *c06Gen) opProve(f *c06File, pi int, wrong bool) {
	a := f.Provers[pi]
	prover := g.accts[a].Addr.String()
	owner := g.accts[f.Owner].Addr.String()
	sk := g.node.app.StorageKeeper
	ctx := g.ctx()
	file, found := sk.GetFile(ctx, f.Merkle, owner, f.Start)
	if !found {
		return
	}
	var chunk int64
	wasProver := file.ContainsProver(prover)
	if wasProver {
		if pr, err := file.GetProver(ctx, sk, prover); err == nil {
			chunk = pr.ChunkToProve
		}
	}
	toProve := chunk
	if wrong {
		toProve = chunk + 1
	}
	item, hl, err := g.proofFor(f, chunk)
	if err != nil {
		g.r.Hist("c06_gen_errors", "proof generation: "+err.Error())
		return
	}
	gasBefore := g.blockGas()
	res := g.send(a, map[bool]string{false: "storage.PostProof", true: "storage.PostProof-wrongchunk"}[wrong],
		&storagetypes.MsgPostProof{Creator: prover, Item: item, HashList: hl, Merkle: f.Merkle, Owner: owner, Start: f.Start, ToProve: toProve})
	if res.Code != 0 || wrong {
		return
	}
	// the challenge re-draw: observed new chunk against tendermint's generator seeded with block gas + height
	after, found := sk.GetFile(g.ctx(), f.Merkle, owner, f.Start)
	if !found {
		return
	}
	pr, err := after.GetProver(g.ctx(), sk, prover)
	if err != nil {
		return // proof rejected (Success=false)
	}
	if pr.LastProven != g.cur.Height {
		return
	}
	pieces := f.Size / g.cfg.ChunkSize
	if f.Size%g.cfg.ChunkSize == 0 {
		pieces--
	}
	seed := gasBefore + g.cur.Height
	g.chall = append(g.chall, [3]int64{seed, pieces, pr.ChunkToProve})
	g.r.Count(fmt.Sprintf("chall:%d:%d:%d", g.histNo, seed, pieces), pieces > 1)
	var want int64
	if pieces > 0 {
		rr := tmrand.NewRand()
		rr.Seed(seed)
		want = rr.Int63n(pieces)
	}
	if want != pr.ChunkToProve && g.challFindings < 3 {
		g.challFindings++
		g.r.Finding("C06/challenge-not-function-of-block", "the chunk a prover is challenged with is not the draw of a generator seeded with block gas + height",
			map[string]interface{}{"history_seed": g.r.Seed, "history": g.histNo, "height": g.cur.Height, "block_gas_before_tx": gasBefore, "pieces": pieces, "observed_chunk": pr.ChunkToProve, "expected_chunk": want, "tx": g.cur.TxDesc[len(g.cur.TxDesc)-1]})
	}
}

func (g *c06Gen) opAttestRequest(f *c06File) {
	if len(f.Provers) == 0 {
		return
	}
	a := f.Provers[0]
	owner := g.accts[f.Owner].Addr.String()
	res := g.send(a, "storage.RequestAttestationForm", &storagetypes.MsgRequestAttestationForm{Creator: g.accts[a].Addr.String(), Merkle: f.Merkle, Owner: owner, Start: f.Start})
	if res.Code != 0 {
		return
	}
	form, found := g.node.app.StorageKeeper.GetAttestationForm(g.ctx(), g.accts[a].Addr.String(), f.Merkle, owner, f.Start)
	if !found {
		return
	}
	g.forms++
	g.r.Count(fmt.Sprintf("form:%d:%d", g.histNo, g.cur.Height), true)
	f.Attested = true
	// the listed providers attest (the first three now, possibly the others later)
	n := 0
	for _, at := range form.Attestations {
		for i := range g.accts {
			if g.accts[i].Addr.String() == at.Provider && n < 4 {
				g.send(i, "storage.Attest", &storagetypes.MsgAttest{Creator: at.Provider, Prover: g.accts[a].Addr.String(), Merkle: f.Merkle, Owner: owner, Start: f.Start})
				n++
			}
		}
	}
}

func (g *c06Gen) opReportRequest(f *c06File) {
	f.Reported = true
	a := f.Provers[1]
	prover := g.accts[a].Addr.String()
	owner := g.accts[f.Owner].Addr.String()
	reporter := f.Provers[0]
	res := g.send(reporter, "storage.RequestReportForm", &storagetypes.MsgRequestReportForm{Creator: g.accts[reporter].Addr.String(), Prover: prover, Merkle: f.Merkle, Owner: owner, Start: f.Start})
	if res.Code != 0 {
		return
	}
	form, found := g.node.app.StorageKeeper.GetReportForm(g.ctx(), prover, f.Merkle, owner, f.Start)
	if !found {
		return
	}
	g.forms++
	n := 0
	for _, at := range form.Attestations {
		for i := range g.accts {
			if g.accts[i].Addr.String() == at.Provider && n < 2 { // below the quorum: the prover is not removed
				g.send(i, "storage.Report", &storagetypes.MsgReport{Creator: at.Provider, Prover: prover, Merkle: f.Merkle, Owner: owner, Start: f.Start})
				n++
			}
		}
	}
}

// ---------------------------------------------------------------- reward block observation

type c06Tracker struct {
	Total   int64
	Entries [][2]interface{} // (prover string, worth int64) in first-seen order
	Invalid []string
}

func (g *c06Gen) trackerBefore(height int64) c06Tracker {
	ctx := g.node.app.BaseApp.NewContext(true, tmproto.Header{Height: height})
	sk := g.node.app.StorageKeeper
	var t c06Tracker
	idx := map[string]int{}
	for _, file := range sk.GetAllFileByMerkle(ctx) {
		f := file
		t.Total += f.FileSize * int64(len(f.Proofs))
		for _, pk := range f.Proofs {
			proof, found := sk.GetProofWithBuiltKey(ctx, []byte(pk))
			young := f.IsYoung(height)
			if !young && !found {
				continue
			}
			proven := f.ProvenLastBlock(height, proof.LastProven)
			if !proven && !young {
				continue
			}
			if i, ok := idx[proof.Prover]; ok {
				t.Entries[i][1] = t.Entries[i][1].(int64) + f.FileSize
			} else {
				idx[proof.Prover] = len(t.Entries)
				t.Entries = append(t.Entries, [2]interface{}{proof.Prover, f.FileSize})
			}
		}
	}
	for _, e := range t.Entries {
		if _, err := sdk.AccAddressFromBech32(e[0].(string)); err != nil {
			t.Invalid = append(t.Invalid, e[0].(string))
		}
	}
	return t
}

type c06Send struct {
	To, Denom string
	Amount    int64
}

func c06Attr(e c06Event, k string) string {
	for _, a := range e.Attrs {
		if a[0] == k {
			return a[1]
		}
	}
	return ""
}

// payoutFromEvents: coins pulled from gauge accounts into the storage module and the ordered non-zero sends
// from the storage module, as the bank's transfer events of BeginBlock record them.
func (g *c06Gen) payoutFromEvents(evs []c06Event) (coins map[string]int64, sends []c06Send) {
	mod := g.node.app.AccountKeeper.GetModuleAddress(storagetypes.ModuleName).String()
	coins = map[string]int64{}
	for _, e := range evs {
		if e.Type != "transfer" {
			continue
		}
		amt := c06Attr(e, "amount")
		if amt == "" {
			continue
		}
		cs, err := sdk.ParseCoinsNormalized(amt)
		if err != nil {
			continue
		}
		from, to := c06Attr(e, "sender"), c06Attr(e, "recipient")
		if to == mod {
			if fa, err := sdk.AccAddressFromBech32(from); err == nil && len(fa) == 32 {
				for _, c := range cs {
					coins[c.Denom] += c.Amount.Int64()
				}
			}
		}
		if from == mod {
			for _, c := range cs {
				sends = append(sends, c06Send{to, c.Denom, c.Amount.Int64()})
			}
		}
	}
	return
}

func (g *c06Gen) payoutCase(height int64, tr c06Tracker, begin []c06Event) {
	coins, sends := g.payoutFromEvents(begin)
	var denoms []string
	for d := range coins {
		denoms = append(denoms, d)
	}
	sort.Strings(denoms)
	var coinTerms, trackerTerms, invalidTerms, sendTerms []string
	for _, d := range denoms {
		coinTerms = append(coinTerms, cPair(cStr(d), cZ(coins[d])))
	}
	// hand the tracker to the model in an arbitrary (seed-derived) order: the model must not care
	ents := append([][2]interface{}{}, tr.Entries...)
	for i := len(ents) - 1; i > 0; i-- {
		j := g.p.Intn(i + 1)
		ents[i], ents[j] = ents[j], ents[i]
	}
	for _, e := range ents {
		trackerTerms = append(trackerTerms, cPair(cStr(e[0].(string)), cZ(e[1].(int64))))
	}
	for _, s := range tr.Invalid {
		invalidTerms = append(invalidTerms, cStr(s))
	}
	var recips []string
	for _, s := range sends {
		sendTerms = append(sendTerms, cPair(cStr(s.To), cPair(cStr(s.Denom), cZ(s.Amount))))
		recips = append(recips, s.To)
	}
	nl := func(items []string, typ string) string {
		if len(items) == 0 {
			return "(@nil (" + typ + "))"
		}
		return cList(items)
	}
	g.r.Case("paths", fmt.Sprintf("Payout %s %s %s %s %s", cZ(tr.Total), nl(trackerTerms, "list N * Z"), nl(invalidTerms, "list N"), nl(coinTerms, "list N * Z"), nl(sendTerms, "list N * (list N * Z)")),
		map[string]interface{}{"kind": "payout", "history": g.histNo, "height": height, "total": tr.Total, "tracker": ents, "coins": coins, "observed_sends": sends})
	g.r.Count(fmt.Sprintf("payout:%d:%d", g.histNo, height), len(sends) >= 2)
	g.r.Hist("c06_payout_recipients", fmt.Sprint(len(sends)))
	if len(sends) >= 2 {
		g.pays++
	}
	// monitor (independent of the model): recipients are paid in ascending address order
	for i := 1; i < len(recips); i++ {
		if recips[i-1] > recips[i] && g.payFindings < 3 {
			g.payFindings++
			g.r.Finding("C06/payout-order-not-sorted", "a reward block paid the provers in an order that is not the sorted address order (map iteration order decides who is paid first)",
				map[string]interface{}{"history_seed": g.r.Seed, "history": g.histNo, "height": height, "observed_recipient_order": recips})
			break
		}
	}
}

// ---------------------------------------------------------------- comparison

func c06EventsEqual(a, b []c06Event) (bool, string) {
	if len(a) != len(b) {
		return false, fmt.Sprintf("number of events %d vs %d", len(a), len(b))
	}
	for i := range a {
		if a[i].Type != b[i].Type {
			return false, fmt.Sprintf("event %d type %q vs %q", i, a[i].Type, b[i].Type)
		}
		if len(a[i].Attrs) != len(b[i].Attrs) {
			return false, fmt.Sprintf("event %d (%s) attribute count", i, a[i].Type)
		}
		for j := range a[i].Attrs {
			if a[i].Attrs[j] != b[i].Attrs[j] {
				return false, fmt.Sprintf("event %d (%s) attribute %d: %v vs %v", i, a[i].Type, j, a[i].Attrs[j], b[i].Attrs[j])
			}
		}
	}
	return true, ""
}

// c06Compare returns the first divergence between two traces of the same history: (what, height, detail).
func c06Compare(a, b *c06Trace) (string, int64, string) {
	if len(a.Blocks) != len(b.Blocks) {
		return "block-count", 0, fmt.Sprintf("%d vs %d blocks", len(a.Blocks), len(b.Blocks))
	}
	for i := range a.Blocks {
		x, y := a.Blocks[i], b.Blocks[i]
		if ok, d := c06EventsEqual(x.Begin, y.Begin); !ok {
			return "beginblock-events", x.Height, d
		}
		if len(x.Txs) != len(y.Txs) {
			return "tx-count", x.Height, ""
		}
		for k := range x.Txs {
			p, q := x.Txs[k], y.Txs[k]
			switch {
			case p.Code != q.Code || p.Codespace != q.Codespace:
				return "tx-code", x.Height, fmt.Sprintf("tx %d: %s/%d vs %s/%d", k, p.Codespace, p.Code, q.Codespace, q.Code)
			case p.GasUsed != q.GasUsed || p.GasWanted != q.GasWanted:
				return "tx-gas", x.Height, fmt.Sprintf("tx %d: gas used %d vs %d", k, p.GasUsed, q.GasUsed)
			case p.Data != q.Data:
				return "tx-data", x.Height, fmt.Sprintf("tx %d: data %s vs %s", k, p.Data, q.Data)
			}
			if ok, d := c06EventsEqual(p.Events, q.Events); !ok {
				return "tx-events", x.Height, fmt.Sprintf("tx %d: %s", k, d)
			}
			if p.Log != q.Log {
				return "tx-log", x.Height, fmt.Sprintf("tx %d: log %q vs %q", k, p.Log, q.Log)
			}
		}
		if ok, d := c06EventsEqual(x.End, y.End); !ok {
			return "endblock-events", x.Height, d
		}
		if x.ValUpd != y.ValUpd {
			return "validator-updates", x.Height, ""
		}
		if x.AppHash != y.AppHash {
			return "apphash", x.Height, fmt.Sprintf("%s vs %s", x.AppHash, y.AppHash)
		}
	}
	return "", 0, ""
}

// ---------------------------------------------------------------- one history

func (g *c06Gen) run() (*c06Trace, error) {
	cfg := g.cfg
	trA := &c06Trace{}
	// files and who proves them: every file gets 3 provers, assigned round-robin so that all providers prove
	nAllProv := cfg.NProv + cfg.NLate
	for i := 0; i < cfg.NFiles; i++ {
		owner := g.user(i % cfg.NUsers)
		size := cfg.ChunkSize*int64(2+g.p.Intn(5)) + int64(g.p.Intn(int(cfg.ChunkSize)))
		if g.p.Chance(1, 6) {
			size = cfg.ChunkSize * int64(2+g.p.Intn(3)) // exact multiple: the pieces-- branch
		}
		f, err := g.makeFile(owner, size)
		if err != nil {
			return nil, err
		}
		f.Gauge = i < 4 || g.p.Chance(1, 2)
		for j := 0; j < 3; j++ {
			pidx := (i*2 + j*3) % nAllProv
			acct := g.prov(pidx)
			if pidx >= cfg.NProv {
				acct = g.late(pidx - cfg.NProv)
			}
			dup := false
			for _, q := range f.Provers {
				dup = dup || q == acct
			}
			if dup {
				acct = g.prov((pidx + 1) % cfg.NProv)
			}
			f.Provers = append(f.Provers, acct)
			f.Offsets = append(f.Offsets, 1+int64(g.p.Intn(int(cfg.ProofWindow-1))))
			f.Lazy = append(f.Lazy, g.p.Chance(1, 9))
		}
		g.files = append(g.files, f)
	}
	lastHash := g.node.app.LastCommitID().Hash
	for height := int64(2); height < 2+cfg.Blocks; height++ {
		blk := c06Block{Height: height, Time: T0.Add(cfg.Base).Add(time.Duration(height*cfg.BlockSeconds) * time.Second), AppHash: lastHash, Proposer: g.h.ValAddr}
		g.h.Blocks = append(g.h.Blocks, blk)
		g.cur = &g.h.Blocks[len(g.h.Blocks)-1]
		bt := c06BlockTrace{Height: height}
		g.curTr = &bt
		g.hdr = g.node.header(g.h, g.cur)
		reward := height%cfg.CheckWindow == 0
		var tr c06Tracker
		if reward {
			tr = g.trackerBefore(height)
		}
		bt.Begin = g.node.begin(g.h, g.cur)
		if reward {
			g.payoutCase(height, tr, bt.Begin)
		}
		// ---- transactions of this block
		switch {
		case height == 2:
			for i := 0; i < cfg.NUsers; i++ {
				u := g.user(i)
				g.send(u, "rns.Init", &rnstypes.MsgInit{Creator: g.accts[u].Addr.String()})
				g.opFiletreeSetup(u)
			}
			for i := 0; i < cfg.NLate; i++ {
				a := g.late(i)
				g.send(a, "storage.InitProvider", &storagetypes.MsgInitProvider{Creator: g.accts[a].Addr.String(), Ip: fmt.Sprintf("https://node.late%d.example", i), Keybase: "", TotalSpace: 1_000_000_000_000})
			}
		case height == 3:
			for i := 0; i < cfg.NUsers; i++ {
				u := g.user(i)
				g.send(u, "storage.BuyStorage", &storagetypes.MsgBuyStorage{Creator: g.accts[u].Addr.String(), ForAddress: g.accts[u].Addr.String(), DurationDays: 30 + int64(g.p.Intn(60)), Bytes: int64(1+g.p.Intn(3)) * 1_000_000_000, PaymentDenom: "ujkl", Referral: ""})
			}
		}
		if height >= 4 {
			for i, f := range g.files {
				if !f.Posted && (height == 4+int64(i/2)) {
					g.opPostFile(i)
				}
			}
			for _, f := range g.files {
				if !f.Posted || height <= f.Start {
					continue
				}
				for pi := range f.Provers {
					rel := (height - f.Start) % cfg.ProofWindow
					first := height-f.Start < cfg.ProofWindow
					if rel != f.Offsets[pi] {
						continue
					}
					if f.Lazy[pi] && !first {
						continue // proves once, then lets the contract lapse (dropped and burned at a reward block)
					}
					g.opProve(f, pi, false)
					if g.p.Chance(1, 10) {
						g.opProve(f, pi, true) // stale chunk: refused the same way on every node
					}
				}
			}
			// attestation forms (provider shuffle) on files that have provers, a few times per history
			if height%cfg.ProofWindow == 3 && height > 8 {
				for _, f := range g.files {
					if f.Posted && !f.Attested && height > f.Start+cfg.ProofWindow {
						g.opAttestRequest(f)
						break
					}
				}
			}
			if height%cfg.ProofWindow == 4 && height > 8 {
				for _, f := range g.files {
					if f.Posted && f.Attested && !f.Reported && len(f.Provers) > 1 {
						g.opReportRequest(f)
						break
					}
				}
			}
			if height == 5 {
				u := g.user(0)
				g.send(u, "oracle.CreateFeed", &oracletypes.MsgCreateFeed{Creator: g.accts[u].Addr.String(), Name: "jklprice"})
			}
			if height > 5 && height%7 == 0 {
				u := g.user(0)
				g.send(u, "oracle.UpdateFeed", &oracletypes.MsgUpdateFeed{Creator: g.accts[u].Addr.String(), Name: "jklprice", Data: fmt.Sprintf("{\"price\":\"0.%d\",\"24h_change\":\"0\"}", 10+g.p.Intn(80))})
			}
			// price feed rewritten around a purchase inside one block, a purchase in the next block, and a
			// never-landing update+purchase that is only simulated: any price remembered outside the store
			// (per process, per simulation) shows up as a different charge on a restarted / simulating node
			if height > 6 && height%5 == 1 {
				u, b1 := g.user(0), g.user(1%cfg.NUsers)
				feed := func(px int) *oracletypes.MsgUpdateFeed {
					return &oracletypes.MsgUpdateFeed{Creator: g.accts[u].Addr.String(), Name: "jklprice", Data: fmt.Sprintf("{\"price\":\"%d.%d\",\"24h_change\":\"0\"}", px/100, px%100)}
				}
				buy := func(who int) *storagetypes.MsgBuyStorage {
					return &storagetypes.MsgBuyStorage{Creator: g.accts[who].Addr.String(), ForAddress: g.accts[who].Addr.String(), DurationDays: 400 + int64(g.p.Intn(300)), Bytes: int64(4+g.p.Intn(4)) * 1_000_000_000, PaymentDenom: "ujkl", Referral: ""}
				}
				g.phantom(u, feed(700+g.p.Intn(900)), buy(u))
				g.send(u, "oracle.UpdateFeed", feed(20+g.p.Intn(80)))
				g.send(b1, "storage.BuyStorage", buy(b1))
				g.send(u, "oracle.UpdateFeed", feed(200+g.p.Intn(300)))
			}
			// a two-message transaction whose second message fails (its first, a grant of edit rights, must vanish
			// with it), and in the next block a post by the account it named: rights remembered outside the
			// branched store (per process) decide differently on a node that was restarted in between
			if height > 6 && height%6 == 3 && len(g.ft) > 0 {
				en := g.ft[g.p.Intn(len(g.ft))]
				ow := g.accts[en.Owner].Addr.String()
				x := g.user((en.Owner + 1) % cfg.NUsers)
				if x == en.Owner {
					x = g.prov(0)
				}
				eid, ek := g.ftEditorIDs(en, []int{x})
				g.send(en.Owner, "filetree.AddEditors+DeleteFile(missing)",
					&filetreetypes.MsgAddEditors{Creator: ow, EditorIds: eid[0], EditorKeys: ek[0], Address: en.Address, FileOwner: en.OwnerStr},
					&filetreetypes.MsgDeleteFile{Creator: ow, HashPath: c06Sha("no-such-entry"), Account: c06Sha(ow)})
				g.pendingPost = &c06Pending{By: x, Entry: en}
			} else if g.pendingPost != nil {
				pp := g.pendingPost
				g.pendingPost = nil
				by := g.accts[pp.By].Addr.String()
				ow := g.accts[pp.Entry.Owner].Addr.String()
				g.send(pp.By, "filetree.PostFile(after rolled-back grant)", &filetreetypes.MsgPostFile{Creator: by, Account: c06Sha(ow), HashParent: pp.Entry.Address, HashChild: c06Sha(fmt.Sprint("late", height)),
					Contents: "{}", Viewers: "{}", Editors: "{}", TrackingNumber: "tn" + c06Sha(fmt.Sprint("late", height))[:16]})
			}
			if !cfg.Anchor.IsZero() && height == 8 {
				if d := time.Until(cfg.Anchor); d > 0 && d < 40*time.Second {
					time.Sleep(d)
				}
				if late := time.Since(cfg.Anchor); late >= 0 && late < time.Second {
					u := g.user(0) // has a running plan since height 3: this purchase is an upgrade, credited for the time left
					g.send(u, "storage.BuyStorage(upgrade, wall-clock anchored)", &storagetypes.MsgBuyStorage{Creator: g.accts[u].Addr.String(), ForAddress: g.accts[u].Addr.String(), DurationDays: 720, Bytes: 9_000_000_000, PaymentDenom: "ujkl", Referral: ""})
					g.r.Hist("c06_ops", "wall-clock anchored upgrade")
				}
			}
			if height > 6 && height%5 == 2 {
				b2 := g.user(2 % cfg.NUsers)
				g.send(b2, "storage.BuyStorage", &storagetypes.MsgBuyStorage{Creator: g.accts[b2].Addr.String(), ForAddress: g.accts[b2].Addr.String(), DurationDays: 400 + int64(g.p.Intn(300)), Bytes: int64(4+g.p.Intn(4)) * 1_000_000_000, PaymentDenom: "ujkl", Referral: ""})
			}
			if height == 2+cfg.Blocks-cfg.CheckWindow-3 && len(g.files) > 0 {
				f := g.files[len(g.files)-1]
				if f.Posted {
					g.send(f.Owner, "storage.DeleteFile", &storagetypes.MsgDeleteFile{Creator: g.accts[f.Owner].Addr.String(), Merkle: f.Merkle, Start: f.Start})
					f.Posted = false
				}
			}
			for k := 0; k < 1+g.p.Intn(3); k++ {
				u := g.user(g.p.Intn(cfg.NUsers))
				switch g.p.Intn(8) {
				case 0, 1, 2:
					g.opFiletreeACL()
				case 3, 4:
					g.opRns(u)
				case 5:
					g.opNotify(u)
				case 6:
					to := g.accts[1+g.p.Intn(len(g.accts)-1)].Addr
					g.send(u, "bank.Send", banktypes.NewMsgSend(g.accts[u].Addr, to, sdk.NewCoins(sdk.NewInt64Coin("ujkl", int64(1+g.p.Intn(1000000))))))
				case 7:
					// wrong sequence: rejected by the ante handler
					g.sendSeq(u, "bank.Send-badseq", 5, banktypes.NewMsgSend(g.accts[u].Addr, g.accts[0].Addr, sdk.NewCoins(sdk.NewInt64Coin("ujkl", 1))))
				}
			}
		}
		bt.End, bt.ValUpd, bt.AppHash = g.node.end(g.cur)
		lastHash, _ = hex.DecodeString(bt.AppHash)
		trA.Blocks = append(trA.Blocks, bt)
		g.r.Count(fmt.Sprintf("block:%d:%d", g.histNo, height), len(bt.Txs) > 0 || reward)
	}
	return trA, nil
}

func c06ChallTerm(obs [][3]int64) string {
	if len(obs) == 0 {
		return "Challenge (@nil (Z * (Z * Z)))"
	}
	items := make([]string, len(obs))
	for i, o := range obs {
		items[i] = cPair(cZ(o[0]), cPair(cZ(o[1]), cZ(o[2])))
	}
	return "Challenge " + cList(items)
}

func runC06(r *RunCtx) error {
	r.Sum.Rule = "one evaluation = one block executed on four independent app instances (A in-process while generating, B in a separate OS process with other GOMAXPROCS/GOGC and a later wall clock, C in-process replay, D restarted from its database between blocks and answering Simulate requests for every transaction and for never-landing ones) and compared (AppHash, every tx result, ordered events), or one reward payout / ACL marshalling / challenge draw checked against the model; non-trivial = block with transactions or a reward block; payout with >= 2 recipients; ACL with >= 2 entries; draw with > 1 piece"
	r.Group("paths", "From JK Require Import Model.Nondet Model.OrderIndep Corr.C06.", "c06_case", "c06_ok")
	nHist := r.Scale(2, 30)
	totalPays, totalAcls, totalForms, totalChall := 0, 0, 0, 0
	for hi := 0; hi < nHist; hi++ {
		p := r.Rng.Fork()
		cfg := c06Config{NProv: 6 + p.Intn(4), NLate: p.Intn(3), NUsers: 3 + p.Intn(3), CheckWindow: 20, ProofWindow: 10, ChunkSize: 1024, Price: 8_000_000, BlockSeconds: 3600, NFiles: 5 + p.Intn(3)}
		cfg.Blocks = 4*cfg.CheckWindow + 6
		switch {
		case r.Thorough() && hi == 1: // the default parameters, real block times
			cfg.CheckWindow, cfg.ProofWindow, cfg.Price, cfg.BlockSeconds = 100, 50, 8, 6
			cfg.Blocks = 3*cfg.CheckWindow + 6
		case hi%3 == 2:
			cfg.CheckWindow, cfg.ProofWindow, cfg.BlockSeconds = 12, 6, 7200
			cfg.Blocks = 6*cfg.CheckWindow + 6
		}
		if hi == 0 {
			cfg.Anchor = time.Now().Add(r.ScaleDur(12*time.Second, 25*time.Second))
			frac := cfg.Anchor.Sub(cfg.Anchor.Truncate(time.Hour))
			cfg.Base = frac + 1500*time.Millisecond - T0.Sub(T0.Truncate(time.Hour))
		}
		hist, accts, err := c06Genesis(cfg)
		if err != nil {
			return err
		}
		node, err := c06NewNode(hist)
		if err != nil {
			return err
		}
		g := &c06Gen{r: r, p: p, cfg: cfg, h: hist, accts: accts, node: node, txCfg: japp.MakeEncodingConfig().TxConfig, nameOw: map[string]int{}, histNo: hi}
		trA, err := g.run()
		node.Close()
		if err != nil {
			return err
		}
		r.Case("paths", c06ChallTerm(g.chall), map[string]interface{}{"kind": "challenge", "history": hi, "draws": len(g.chall)})
		totalPays += g.pays
		totalAcls += g.acls
		totalForms += g.forms
		totalChall += len(g.chall)
		histPath := filepath.Join(r.OutDir, fmt.Sprintf("c06_history_%d.json", hi))
		js, err := json.Marshal(hist)
		if err != nil {
			return err
		}
		if err := os.WriteFile(histPath, js, 0o644); err != nil {
			return err
		}
		time.Sleep(15 * time.Millisecond)
		trB, err := c06RunChild(histPath, filepath.Join(r.OutDir, fmt.Sprintf("c06_trace_child_%d.json", hi)), hi)
		if err != nil {
			return err
		}
		trC, err := c06Replay(hist, 0)
		if err != nil {
			return err
		}
		trD, err := c06ReplayOpts(hist, 0, 1+hi%3, true) // restarted between blocks, answers simulations
		if err != nil {
			return err
		}
		ntx := 0
		for _, b := range hist.Blocks {
			ntx += len(b.Txs)
		}
		r.Hist("c06_history_txs", fmt.Sprint(ntx/50*50)+"+")
		if hi < 2 {
			var descs []string
			for _, b := range hist.Blocks {
				if len(descs) < 60 {
					descs = append(descs, b.TxDesc...)
				}
			}
			r.Sample(map[string]interface{}{"history": hi, "config": cfg, "blocks": len(hist.Blocks), "txs": ntx, "first_txs": descs, "child_env": trB.Env, "final_apphash": trA.Blocks[len(trA.Blocks)-1].AppHash})
		}
		for _, pair := range []struct {
			name string
			t    *c06Trace
		}{{"separate-process", trB}, {"same-process-replay", trC}, {"restarted-and-simulating-node", trD}} {
			what, height, detail := c06Compare(trA, pair.t)
			if what == "" {
				continue
			}
			var blk *c06Block
			for i := range hist.Blocks {
				if hist.Blocks[i].Height == height {
					blk = &hist.Blocks[i]
				}
			}
			rep := map[string]interface{}{"history_seed": r.Seed, "tier": r.Tier, "history": hi, "config": cfg, "second_run": pair.name, "child_env": trB.Env,
				"first_divergence": what, "height": height, "detail": detail, "history_file": histPath,
				"note": "the history (genesis + signed tx bytes per block) is in history_file; it is regenerated identically from the seed"}
			if blk != nil {
				rep["txs_of_block"] = blk.TxDesc
				rep["block"] = blk // header fields and the signed transaction bytes (base64) of the diverging block
			}
			r.Finding("C06/divergence/"+what, "two executions of the same history of blocks and signed transactions differ: "+what+" at height "+fmt.Sprint(height)+" ("+pair.name+")", rep)
		}
	}
	if err := c06RestartTwin(r); err != nil {
		return err
	}
	// the inventory must list the paths this run exercised
	if totalPays > 0 {
		r.Case("paths", "Inventory MapKeysThenSort", map[string]interface{}{"kind": "inventory", "class": "MapKeysThenSort", "exercised": totalPays})
	}
	if totalAcls > 0 {
		r.Case("paths", "Inventory JsonMarshalSorted", map[string]interface{}{"kind": "inventory", "class": "JsonMarshalSorted", "exercised": totalAcls})
	}
	if totalChall+totalForms > 0 {
		r.Case("paths", "Inventory SeededFromBlock", map[string]interface{}{"kind": "inventory", "class": "SeededFromBlock", "exercised": totalChall + totalForms})
	}
	r.Case("paths", "Inventory TelemetryOnly", map[string]interface{}{"kind": "inventory", "class": "TelemetryOnly", "exercised": "every BeginBlock"})
	r.Sum.Notes = append(r.Sum.Notes, fmt.Sprintf("histories=%d reward payouts with >=2 recipients=%d ACL marshallings=%d attestation forms=%d challenge draws=%d", nHist, totalPays, totalAcls, totalForms, totalChall))
	if totalPays == 0 || totalAcls == 0 || totalChall == 0 {
		return fmt.Errorf("generator did not reach the order-sensitive paths (payouts=%d acls=%d challenges=%d)", totalPays, totalAcls, totalChall)
	}
	return nil
}

// c06RestartTwin: a chain is also brought up from the export of a halted chain.  Every node runs InitChain for
// itself, at its own moment: two instances that import the same exported genesis (initial height above 1, a
// genesis time in the past) a little apart in wall-clock time hold byte-identical module stores.
func c06RestartTwin(r *RunCtx) error {
	e, err := persistedPopulate()
	if err != nil {
		return err
	}
	defer e.Close()
	for _, m := range c19Modules() {
		var gen []byte
		if pn := Guard(func() { gen = m.Export(e) }); pn != "" {
			continue // C19's business
		}
		var dumps [2][]c19KV
		ok := true
		for i := 0; i < 2 && ok; i++ {
			nxt, err := NewEnv()
			if err != nil {
				return err
			}
			nxt.NoGhost = true
			nxt.At(e.Height+1, T0)
			for _, kv := range mustDump(nxt, m.StoreKey) {
				nxt.Ctx.KVStore(c19StoreKey(nxt, m.StoreKey)).Delete(kv.K)
			}
			var ierr error
			if pn := Guard(func() { ierr = m.Import(nxt, gen) }); pn != "" || ierr != nil {
				ok = false
			}
			dumps[i] = mustDump(nxt, m.StoreKey)
			nxt.Close()
			time.Sleep(15 * time.Millisecond)
		}
		if !ok {
			continue
		}
		r.Count("restart-twin:"+m.Name, len(dumps[0]) > 0)
		r.Hist("restart-twin", m.Name)
		diff := ""
		if len(dumps[0]) != len(dumps[1]) {
			diff = fmt.Sprintf("%d and %d records", len(dumps[0]), len(dumps[1]))
		} else {
			for i := range dumps[0] {
				if !bytes.Equal(dumps[0][i].K, dumps[1][i].K) || !bytes.Equal(dumps[0][i].V, dumps[1][i].V) {
					diff = fmt.Sprintf("record %q", string(dumps[0][i].K))
					break
				}
			}
		}
		if diff != "" {
			r.Finding("C06/divergence/restart-from-exported-genesis", "two instances that import the same exported "+m.Name+" genesis (initial height "+fmt.Sprint(e.Height+1)+", genesis time in the past) 15 ms apart hold different stores: "+diff,
				map[string]interface{}{"module": m.Name, "first_divergence": diff, "history": "the busy history of the C19 check, ExportGenesis, then InitGenesis on two fresh instances", "initial_height": e.Height + 1})
		}
	}
	return nil
}
