package main

// C10 — file-tree entries change only by their owner or, for posts, the folder's editors.
//
// Function level: keeper.MakeOwnerAddress / MakeViewerAddress / MakeEditorAddress / IsOwner /
// HasViewingAccess / HasEditAccess, types.FilesKey, json.Marshal(map[string]string) and
// strings.Split(",") against the Gallina model (SHA-256, JSON renderer, splitter).
// History level: message sequences by owner / editor / viewer / stranger on the assembled app;
// after every message the raw "Files/value/" prefix of the filetree store is dumped (keys and
// values), the property monitors are evaluated on (pre, message, outcome, post) with the
// ownership / access decisions recomputed here independently of the keeper, and the step is
// emitted as a correspondence case.  JSON parsing is glue: the model receives, for every access
// string of the pre-store, what Go's json.Unmarshal made of it; JSON rendering is modelled.

import (
	"encoding/json"
	"fmt"
	"sort"
	"strings"

	"github.com/cosmos/cosmos-sdk/store/prefix"
	"github.com/cosmos/cosmos-sdk/store/rootmulti"
	sdk "github.com/cosmos/cosmos-sdk/types"

	ftkeeper "github.com/jackalLabs/canine-chain/v4/x/filetree/keeper"
	fttypes "github.com/jackalLabs/canine-chain/v4/x/filetree/types"
)

func init() { runners["C10"] = runC10 }

// ---- independent recomputation of the identities (never through the keeper)

func c10Owner(path, user string) string { return hexsha("o" + path + user) }
func c10Viewer(tn, user string) string  { return hexsha("v" + tn + user) }
func c10Editor(tn, user string) string  { return hexsha("e" + tn + user) }
func c10Key(a, o string) string         { return a + "/" + o + "/" }
func c10IsOwner(f fttypes.Files, user string) bool {
	return c10Owner(f.Address, hexsha(user)) == f.Owner
}
func c10AclAddr(kind, tn, user string) string {
	if kind == "view" {
		return c10Viewer(tn, user)
	}
	return c10Editor(tn, user)
}

// c10Parse: json.Unmarshal into a fresh map exactly like the keeper; the result is the NIL map
// for the JSON text null
func c10Parse(s string) (map[string]string, bool) {
	m := map[string]string{}
	if err := json.Unmarshal([]byte(s), &m); err != nil {
		return nil, false
	}
	return m, true
}
func c10IsHex64(s string) bool {
	if len(s) != 64 {
		return false
	}
	for i := 0; i < len(s); i++ {
		c := s[i]
		if !((c >= '0' && c <= '9') || (c >= 'a' && c <= 'f')) {
			return false
		}
	}
	return true
}

// ---- observation of the store

type c10Entry struct {
	Key string
	F   fttypes.Files
}

func c10StoreKey(e *Env) (sdk.StoreKey, error) {
	rs, ok := e.App.CommitMultiStore().(*rootmulti.Store)
	if !ok {
		return nil, fmt.Errorf("C10: commit multistore is not a rootmulti.Store")
	}
	for k := range rs.GetStores() {
		if k.Name() == fttypes.StoreKey {
			return k, nil
		}
	}
	return nil, fmt.Errorf("C10: filetree store key not found")
}

func c10Dump(e *Env, sk sdk.StoreKey) ([]c10Entry, error) {
	st := prefix.NewStore(e.Ctx.KVStore(sk), []byte("Files/value/"))
	it := st.Iterator(nil, nil)
	defer it.Close()
	var out []c10Entry
	for ; it.Valid(); it.Next() {
		var f fttypes.Files
		if err := f.Unmarshal(it.Value()); err != nil {
			return nil, fmt.Errorf("C10: cannot decode stored Files: %v", err)
		}
		out = append(out, c10Entry{Key: string(it.Key()), F: f})
	}
	return out, nil
}

// ---- Coq printers

// c10Str prints a byte string as (ub len [w1;...]%uint63): seven bytes per primitive integer,
// big-endian, zero padded (Corr/C10Enc.v) -- an order of magnitude faster for Coq to read than
// a list of N literals.
func c10Str(s string) string {
	if len(s) == 0 {
		return "(@nil N)"
	}
	var ws []string
	for i := 0; i < len(s); i += 7 {
		var w uint64
		for j := 0; j < 7; j++ {
			w <<= 8
			if i+j < len(s) {
				w |= uint64(s[i+j])
			}
		}
		ws = append(ws, fmt.Sprint(w))
	}
	return fmt.Sprintf("(ub %d%%N [%s]%%uint63)", len(s), strings.Join(ws, ";"))
}

func c10File(f fttypes.Files) string {
	return fmt.Sprintf("(mkFile %s %s %s %s %s %s)", c10Str(f.Address), c10Str(f.Contents), c10Str(f.Owner), c10Str(f.ViewingAccess), c10Str(f.EditAccess), c10Str(f.TrackingNumber))
}

func c10Store(es []c10Entry) string {
	items := make([]string, len(es))
	for i, e := range es {
		items[i] = cPair(c10Str(e.Key), c10File(e.F))
	}
	return cList(items)
}

// c10OptAcl prints what json.Unmarshal left: None for the nil map (JSON null)
func c10OptAcl(m map[string]string) string {
	if m == nil {
		return "None"
	}
	return "(Some " + c10Acl(m) + ")"
}

func c10Acl(m map[string]string) string {
	ks := make([]string, 0, len(m))
	for k := range m {
		ks = append(ks, k)
	}
	sort.Strings(ks)
	items := make([]string, len(ks))
	for i, k := range ks {
		items[i] = cPair(c10Str(k), c10Str(m[k]))
	}
	return cList(items)
}

func c10ParseTable(strs []string) string {
	seen := map[string]bool{}
	var items []string
	for _, s := range strs {
		if seen[s] {
			continue
		}
		seen[s] = true
		m, ok := c10Parse(s)
		if ok {
			items = append(items, cPair(c10Str(s), "(PMap "+c10OptAcl(m)+")"))
		} else {
			items = append(items, cPair(c10Str(s), "PErr"))
		}
	}
	return cList(items)
}

func c10Kind(k string) string {
	if k == "view" {
		return "KView"
	}
	return "KEdit"
}

func c10Out(o string) string {
	switch o {
	case OutOk:
		return "Ok"
	case OutFail:
		return "Fail"
	}
	return "Panic"
}

// ---- operations

type c10Op struct {
	Kind       string `json:"kind"` // provision post delete chown add remove reset
	K          string `json:"acl,omitempty"`
	Creator    string `json:"creator"`
	Account    string `json:"account,omitempty"`
	HashParent string `json:"hash_parent,omitempty"`
	HashChild  string `json:"hash_child,omitempty"`
	Contents   string `json:"contents,omitempty"`
	Viewers    string `json:"viewers,omitempty"`
	Editors    string `json:"editors,omitempty"`
	Tracking   string `json:"tracking,omitempty"`
	HashPath   string `json:"hash_path,omitempty"`
	Address    string `json:"address,omitempty"`
	FileOwner  string `json:"file_owner,omitempty"`
	NewOwner   string `json:"new_owner,omitempty"`
	Ids        string `json:"ids,omitempty"`
	Keys       string `json:"keys,omitempty"`
	Shape      string `json:"shape"` // how the op was crafted (for histograms / signatures)
}

func (o c10Op) msg() sdk.Msg {
	switch o.Kind {
	case "provision":
		return &fttypes.MsgProvisionFileTree{Creator: o.Creator, Viewers: o.Viewers, Editors: o.Editors, TrackingNumber: o.Tracking}
	case "post":
		return &fttypes.MsgPostFile{Creator: o.Creator, Account: o.Account, HashParent: o.HashParent, HashChild: o.HashChild, Contents: o.Contents, Viewers: o.Viewers, Editors: o.Editors, TrackingNumber: o.Tracking}
	case "delete":
		return &fttypes.MsgDeleteFile{Creator: o.Creator, HashPath: o.HashPath, Account: o.Account}
	case "chown":
		return &fttypes.MsgChangeOwner{Creator: o.Creator, Address: o.Address, FileOwner: o.FileOwner, NewOwner: o.NewOwner}
	case "add":
		if o.K == "view" {
			return &fttypes.MsgAddViewers{Creator: o.Creator, ViewerIds: o.Ids, ViewerKeys: o.Keys, Address: o.Address, FileOwner: o.FileOwner}
		}
		return &fttypes.MsgAddEditors{Creator: o.Creator, EditorIds: o.Ids, EditorKeys: o.Keys, Address: o.Address, FileOwner: o.FileOwner}
	case "remove":
		if o.K == "view" {
			return &fttypes.MsgRemoveViewers{Creator: o.Creator, ViewerIds: o.Ids, Address: o.Address, FileOwner: o.FileOwner}
		}
		return &fttypes.MsgRemoveEditors{Creator: o.Creator, EditorIds: o.Ids, Address: o.Address, FileOwner: o.FileOwner}
	case "reset":
		if o.K == "view" {
			return &fttypes.MsgResetViewers{Creator: o.Creator, Address: o.Address, FileOwner: o.FileOwner}
		}
		return &fttypes.MsgResetEditors{Creator: o.Creator, Address: o.Address, FileOwner: o.FileOwner}
	}
	panic("c10: unknown op kind " + o.Kind)
}

func (o c10Op) coq() string {
	switch o.Kind {
	case "provision":
		return fmt.Sprintf("(Provision %s %s %s %s)", c10Str(o.Creator), c10Str(o.Viewers), c10Str(o.Editors), c10Str(o.Tracking))
	case "post":
		return fmt.Sprintf("(Post %s %s %s %s %s %s %s %s)", c10Str(o.Creator), c10Str(o.Account), c10Str(o.HashParent), c10Str(o.HashChild), c10Str(o.Contents), c10Str(o.Viewers), c10Str(o.Editors), c10Str(o.Tracking))
	case "delete":
		return fmt.Sprintf("(Delete %s %s %s)", c10Str(o.Creator), c10Str(o.HashPath), c10Str(o.Account))
	case "chown":
		return fmt.Sprintf("(ChangeOwner %s %s %s %s)", c10Str(o.Creator), c10Str(o.Address), c10Str(o.FileOwner), c10Str(o.NewOwner))
	case "add":
		return fmt.Sprintf("(AddAcl %s %s %s %s %s %s)", c10Kind(o.K), c10Str(o.Creator), c10Str(o.Ids), c10Str(o.Keys), c10Str(o.Address), c10Str(o.FileOwner))
	case "remove":
		return fmt.Sprintf("(RemoveAcl %s %s %s %s %s)", c10Kind(o.K), c10Str(o.Creator), c10Str(o.Ids), c10Str(o.Address), c10Str(o.FileOwner))
	case "reset":
		return fmt.Sprintf("(ResetAcl %s %s %s %s)", c10Kind(o.K), c10Str(o.Creator), c10Str(o.Address), c10Str(o.FileOwner))
	}
	panic("c10: unknown op kind " + o.Kind)
}

// ---- generator

type c10Gen struct {
	p     *PRNG
	accts []sdk.AccAddress // 0,1: owners; 1,2: editors of 0's folders; 3: viewer; 4: stranger
	prev  string           // account that most recently gave an entry away
	n     int
	kids  map[string][2]string // full address of a posted entry -> (parent address, child hash) it was posted with
}

var c10OddStrings = []string{"a", "b", "x/y", "/", "é", "日本", " ", "q\"uote", "back\\slash", "<tag>&", "line\nfeed", "tab\t", "\x01", "\x7f", "\b\f", "\u2028", "\u2029x", "ab", "a\x00", "100%", "archive%202026", "%s%d", "%%v"}

func (g *c10Gen) aclJSON(kind, tn string, who []int) string {
	m := map[string]string{}
	for _, i := range who {
		m[c10AclAddr(kind, tn, g.accts[i].String())] = fmt.Sprintf("k%d", i)
	}
	b, _ := json.Marshal(m)
	return string(b)
}

func (g *c10Gen) subset() []int {
	var s []int
	for i := 0; i < 4; i++ { // the stranger (4) is never granted anything
		if g.p.Chance(1, 2) {
			s = append(s, i)
		}
	}
	return s
}

func (g *c10Gen) aclString(kind, tn string, creator int) string {
	switch g.p.Intn(26) {
	case 0:
		return "{}"
	case 1:
		return "null"
	case 2:
		return "notjson"
	case 3:
		return `{"a":1}`
	case 4:
		return `{"dup":"1","dup":"2"}`
	case 5:
		return ` { "A" : "x" , "k":null} `
	case 6, 7:
		// crossed: ids of the OTHER list's kind (an editor id inside the viewers list and vice versa)
		other := map[string]string{"view": "edit", "edit": "view"}[kind]
		return g.aclJSON(other, tn, append(g.subset(), 4))
	default:
		who := g.subset()
		if g.p.Chance(4, 5) {
			who = append(who, creator)
		}
		return g.aclJSON(kind, tn, who)
	}
}

// accounts whose EDITOR id appears in f's VIEWERS list (they must not be able to post)
func (g *c10Gen) crossedOf(f fttypes.Files) []int {
	var out []int
	m, ok := c10Parse(f.ViewingAccess)
	if !ok {
		return nil
	}
	for i, a := range g.accts {
		if _, has := m[c10Editor(f.TrackingNumber, a.String())]; has {
			out = append(out, i)
		}
	}
	return out
}

func (g *c10Gen) tracking() string {
	g.n++
	switch g.p.Intn(8) {
	case 0:
		return "t" // shared tracking number
	case 1:
		return PickOne(g.p, c10OddStrings)
	default:
		return fmt.Sprintf("tn%d", g.n)
	}
}

// ownerOf returns the index of the account that owns f, or -1
func (g *c10Gen) ownerOf(f fttypes.Files) int {
	for i, a := range g.accts {
		if c10IsOwner(f, a.String()) {
			return i
		}
	}
	return -1
}

func (g *c10Gen) editorsOf(f fttypes.Files) []int {
	var out []int
	m, ok := c10Parse(f.EditAccess)
	if !ok {
		return nil
	}
	for i, a := range g.accts {
		if _, has := m[c10Editor(f.TrackingNumber, a.String())]; has {
			out = append(out, i)
		}
	}
	return out
}

// signer for an owner-gated message on entry f: (index, spelling, role)
func (g *c10Gen) signer(f fttypes.Files) (string, string) {
	own := g.ownerOf(f)
	x := g.p.Intn(100)
	// an entry handed to a plain address instead of an account's digest has no owner: the account whose address
	// was written there is a stranger to it like everybody else, and is the one most likely to try
	if own < 0 && x < 60 {
		for _, a := range g.accts {
			for _, sp := range []string{a.String(), strings.ToUpper(a.String())} {
				if f.Owner == hexsha("o"+f.Address+sp) {
					return a.String(), "named-by-plain-address"
				}
			}
		}
	}
	switch {
	case own >= 0 && x < 56:
		return g.accts[own].String(), "owner"
	case own >= 0 && x < 60:
		return strings.ToUpper(g.accts[own].String()), "owner-uppercase"
	case x < 68 && g.prev != "" && (own < 0 || g.prev != g.accts[own].String()):
		return g.prev, "previous-owner"
	case x < 80:
		if ed := g.editorsOf(f); len(ed) > 0 {
			i := PickOne(g.p, ed)
			if i != own {
				return g.accts[i].String(), "editor"
			}
		}
		return g.accts[4].String(), "stranger"
	case x < 90:
		i := g.p.Intn(len(g.accts))
		if i == own {
			return g.accts[4].String(), "stranger"
		}
		return g.accts[i].String(), "other"
	default:
		return g.accts[4].String(), "stranger"
	}
}

// craftPair distorts an (address, owner-string) pair that is used RAW in the store key
func (g *c10Gen) craftRawPair(a, o string, others []c10Entry) (string, string, string) {
	k := 1 + g.p.Intn(62)
	switch g.p.Intn(10) {
	case 0:
		return a + "/" + o, "x", "key-slash-in-address"
	case 1:
		return a + "/", o, "key-address-trailing-slash"
	case 2:
		return a, o + "/", "key-owner-trailing-slash"
	case 3:
		return a[:k], a[k:] + "/" + o, "key-split-address"
	case 4:
		return a + "/" + o[:k], o[k:], "key-split-owner"
	case 5:
		return a, "/" + o, "key-owner-leading-slash"
	case 6:
		return strings.ToUpper(a), o, "key-uppercase-address"
	case 7:
		if len(others) > 0 {
			return a, PickOne(g.p, others).F.Owner, "key-foreign-owner"
		}
		return a, hexsha("nobody"), "key-unknown-owner"
	case 8:
		return "/", a + "/" + o, "key-slash-address"
	default:
		return a + o[:k], o[k:], "key-concat"
	}
}

// craftHashed distorts a (path, account) pair that enters MakeOwnerAddress("o"+path+account)
func (g *c10Gen) craftHashedPair(a, x string) (string, string, string) {
	k := 1 + g.p.Intn(62)
	switch g.p.Intn(8) {
	case 0:
		return a + x[:k], x[k:], "concat-split-account" // same hashed string, other address
	case 1:
		return a[:k], a[k:] + x, "concat-split-address"
	case 2:
		return a + "/", x, "address-trailing-slash"
	case 3:
		return a, x + "/", "account-trailing-slash"
	case 4:
		return a, hexsha(g.accts[4].String()), "stranger-account"
	case 5:
		return a, g.accts[0].String(), "bech32-as-account"
	case 6:
		return a + "/" + c10Owner(a, x), x, "key-as-address"
	default:
		return hexsha("nowhere"), x, "unknown-address"
	}
}

func (g *c10Gen) idList(kind string, f fttypes.Files, present bool) (string, string, string) {
	n := 1 + g.p.Intn(3)
	ids := make([]string, n)
	for i := range ids {
		c := g.p.Intn(6)
		if present && g.p.Chance(3, 5) {
			c = 2 // an id that is in the list now
		}
		switch c {
		case 0:
			ids[i] = PickOne(g.p, c10OddStrings)
		case 1:
			ids[i] = hexsha(fmt.Sprint("id", g.p.Intn(3)))
		case 2:
			if m, ok := c10Parse(map[string]string{"view": f.ViewingAccess, "edit": f.EditAccess}[kind]); ok && len(m) > 0 {
				ks := make([]string, 0, len(m))
				for k := range m {
					ks = append(ks, k)
				}
				sort.Strings(ks)
				ids[i] = PickOne(g.p, ks)
			} else {
				ids[i] = ""
			}
		case 3:
			// an id that merely contains, or is contained in, an id of the list (ids are arbitrary strings for the chain)
			ids[i] = hexsha("related")
			if m, ok := c10Parse(map[string]string{"view": f.ViewingAccess, "edit": f.EditAccess}[kind]); ok && len(m) > 0 {
				ks := make([]string, 0, len(m))
				for k := range m {
					ks = append(ks, k)
				}
				sort.Strings(ks)
				k := PickOne(g.p, ks)
				switch g.p.Intn(3) {
				case 0:
					ids[i] = k + "-old"
				case 1:
					ids[i] = "x" + k
				default:
					if len(k) > 2 {
						ids[i] = k[:len(k)/2+1]
					}
				}
			}
		default:
			ids[i] = c10AclAddr(kind, f.TrackingNumber, g.accts[g.p.Intn(len(g.accts))].String())
		}
	}
	nk := n
	shape := "keys-equal"
	switch g.p.Intn(8) {
	case 0:
		nk, shape = n-1, "keys-shorter"
	case 1:
		nk, shape = n+1, "keys-longer"
	}
	if nk < 1 {
		nk = 1 // "" is rejected by ValidateBasic; one key for two ids still indexes out of range
		if n == 1 {
			shape = "keys-equal"
		}
	}
	keys := make([]string, nk)
	for i := range keys {
		if g.p.Chance(1, 5) {
			keys[i] = PickOne(g.p, c10OddStrings)
		} else {
			keys[i] = fmt.Sprintf("key%d", g.p.Intn(100))
		}
	}
	return strings.Join(ids, ","), strings.Join(keys, ","), shape
}

func (g *c10Gen) next(store []c10Entry) c10Op {
	p := g.p
	if len(store) == 0 || p.Chance(1, 12) {
		i := p.Intn(len(g.accts))
		tn := g.tracking()
		cr := g.accts[i].String()
		shape := "plain"
		if p.Chance(1, 10) {
			cr, shape = strings.ToUpper(cr), "uppercase-creator"
		}
		op := c10Op{Kind: "provision", Creator: cr, Tracking: tn, Viewers: g.aclString("view", tn, i), Editors: g.aclString("edit", tn, i), Shape: shape}
		if p.Chance(1, 15) {
			op.Viewers, op.Shape = "", "empty-field"
		}
		return op
	}
	tgt := PickOne(p, store)
	f := tgt.F
	own := g.ownerOf(f)
	acct := hexsha("orphan")
	if own >= 0 {
		acct = hexsha(g.accts[own].String())
	}
	craft := p.Chance(1, 6)
	switch x := p.Intn(100); {
	case x < 26: // post under f
		tn := g.tracking()
		// re-post OVER the existing entry f by one of f's own editors who is not an editor of f's folder:
		// being an editor of an entry gives no right to replace it (only the folder's editors may post)
		if pc, ok := g.kids[f.Address]; ok && p.Chance(1, 2) {
			var parent *fttypes.Files
			for i := range store {
				if store[i].F.Address == pc[0] {
					parent = &store[i].F
				}
			}
			if parent != nil {
				folderEd := map[int]bool{}
				for _, i := range g.editorsOf(*parent) {
					folderEd[i] = true
				}
				var only []int
				for _, i := range g.editorsOf(f) {
					if !folderEd[i] {
						only = append(only, i)
					}
				}
				if len(only) > 0 {
					ci := PickOne(p, only)
					return c10Op{Kind: "post", Creator: g.accts[ci].String(), Account: acct, HashParent: pc[0], HashChild: pc[1], Contents: fmt.Sprintf("over%d", g.n),
						Viewers: g.aclString("view", tn, ci), Editors: g.aclString("edit", tn, ci), Tracking: tn, Shape: "entry-editor-not-folder-editor"}
				}
			}
		}
		var cr, role string
		eds := g.editorsOf(f)
		crossed := g.crossedOf(f)
		switch y := p.Intn(10); {
		case len(crossed) > 0 && y < 4:
			cr, role = g.accts[PickOne(p, crossed)].String(), "editor-id-in-viewers"
		case y < 7 && len(eds) > 0:
			cr, role = g.accts[PickOne(p, eds)].String(), "editor"
		case y < 8 && len(eds) > 0:
			cr, role = strings.ToUpper(g.accts[PickOne(p, eds)].String()), "editor-uppercase"
		default:
			cr, role = g.accts[p.Intn(len(g.accts))].String(), "any"
		}
		ci := 0
		for i, a := range g.accts {
			if strings.EqualFold(a.String(), cr) {
				ci = i
			}
		}
		op := c10Op{Kind: "post", Creator: cr, Account: acct, HashParent: f.Address, HashChild: hexsha(fmt.Sprint("child", p.Intn(3))), Contents: fmt.Sprintf("c%d", g.n), Viewers: g.aclString("view", tn, ci), Editors: g.aclString("edit", tn, ci), Tracking: tn, Shape: role}
		if craft {
			op.HashParent, op.Account, op.Shape = g.craftHashedPair(f.Address, acct)
		} else if p.Chance(1, 8) {
			op.HashChild, op.Shape = PickOne(p, []string{"", "x", "/", f.Address, " ", "\t", "  ", "\n"}), "odd-child"
		}
		if g.kids == nil {
			g.kids = map[string][2]string{}
		}
		g.kids[fttypes.AddToMerkle(op.HashParent, op.HashChild)] = [2]string{op.HashParent, op.HashChild}
		return op
	case x < 38: // delete f
		cr, role := g.signer(f)
		op := c10Op{Kind: "delete", Creator: cr, HashPath: f.Address, Account: acct, Shape: role}
		if craft {
			op.HashPath, op.Account, op.Shape = g.craftHashedPair(f.Address, acct)
		}
		return op
	case x < 52: // change owner of f
		cr, role := g.signer(f)
		no := hexsha(g.accts[p.Intn(len(g.accts))].String())
		switch p.Intn(8) {
		case 0:
			no = acct // to oneself: the "already exists" branch
			role += "+to-self"
		case 1:
			no = PickOne(p, c10OddStrings)
			role += "+odd-new-owner"
		case 2:
			// a client that sends the receiver's address instead of its digest
			no = Spell(g.accts[p.Intn(len(g.accts))], p.Chance(1, 4))
			role += "+plain-address-new-owner"
		}
		op := c10Op{Kind: "chown", Creator: cr, Address: f.Address, FileOwner: acct, NewOwner: no, Shape: role}
		if craft {
			op.Address, op.FileOwner, op.Shape = g.craftHashedPair(f.Address, acct)
		}
		return op
	default:
		kind := PickOne(p, []string{"view", "edit"})
		cr, role := g.signer(f)
		op := c10Op{K: kind, Creator: cr, Address: f.Address, FileOwner: f.Owner, Shape: role}
		switch y := p.Intn(10); {
		case y < 5:
			op.Kind = "add"
			var s string
			op.Ids, op.Keys, s = g.idList(kind, f, false)
			op.Shape += "+" + s
		case y < 8:
			op.Kind = "remove"
			op.Ids, _, _ = g.idList(kind, f, true)
		default:
			op.Kind = "reset"
		}
		if craft {
			op.Address, op.FileOwner, op.Shape = g.craftRawPair(f.Address, f.Owner, store)
		}
		return op
	}
}

// ---- monitors (the property on the implementation's observed behaviour)

func c10Index(es []c10Entry) map[string]fttypes.Files {
	m := map[string]fttypes.Files{}
	for _, e := range es {
		m[e.Key] = e.F
	}
	return m
}

func c10Diff(pre, post map[string]fttypes.Files) []string {
	var d []string
	for k, v := range pre {
		if w, ok := post[k]; !ok || w != v {
			d = append(d, k)
		}
	}
	for k := range post {
		if _, ok := pre[k]; !ok {
			d = append(d, k)
		}
	}
	sort.Strings(d)
	return d
}

func c10Only(diff []string, allowed ...string) bool {
	for _, d := range diff {
		ok := false
		for _, a := range allowed {
			if d == a {
				ok = true
			}
		}
		if !ok {
			return false
		}
	}
	return true
}

// splitIds mirrors strings.Split(ids, ",") semantics for the id-level monitor
func c10SameExcept(kind string, a, b fttypes.Files) bool {
	if kind == "view" {
		a.ViewingAccess, b.ViewingAccess = "", ""
	} else {
		a.EditAccess, b.EditAccess = "", ""
	}
	return a == b
}

func c10AclOf(kind string, f fttypes.Files) string {
	if kind == "view" {
		return f.ViewingAccess
	}
	return f.EditAccess
}

func c10Monitor(r *RunCtx, o c10Op, out string, preL, postL []c10Entry, hist []c10Op) {
	replay := map[string]interface{}{"history": hist, "failing_op": o, "outcome": out}
	find := func(shape, what string) {
		r.Finding("C10/"+o.Kind+"/"+shape, what, replay)
	}
	pre, post := c10Index(preL), c10Index(postL)
	// stored keys well-formed, key derived from the value
	for k, f := range post {
		if k != c10Key(f.Address, f.Owner) {
			find("key-not-derived-from-value", "a stored entry's raw key is not Address/Owner/")
		}
		if !c10IsHex64(f.Address) || !c10IsHex64(f.Owner) {
			find("stored-key-not-hex64", "a stored address or owner is not 64 hex characters")
		}
	}
	diff := c10Diff(pre, post)
	if out != OutOk {
		if len(diff) != 0 {
			find("failed-op-changed-store", "a message that failed changed the file tree")
		}
		return
	}
	if len(diff) == 0 {
		return
	}
	switch o.Kind {
	case "provision":
		root := fttypes.MerklePath("s")
		k := c10Key(root, c10Owner(root, hexsha(o.Creator)))
		if !c10Only(diff, k) {
			find("wrote-foreign-entry", "provisioning changed an entry other than the signer's own root")
		}
		if f, ok := post[k]; ok && !c10IsOwner(f, o.Creator) {
			find("root-not-owned-by-signer", "the provisioned root is not owned by the signer")
		}
	case "post":
		pk := c10Key(o.HashParent, c10Owner(o.HashParent, o.Account))
		parent, ok := pre[pk]
		if !ok || parent.Address != o.HashParent {
			find("no-parent", "a post changed the tree although the named parent entry does not exist")
			return
		}
		m, okp := c10Parse(parent.EditAccess)
		_, has := m[c10Editor(parent.TrackingNumber, o.Creator)]
		if !okp || !has {
			find("no-edit-access", "a post by a signer without edit access to the parent changed the tree")
		}
		full := hexsha(o.HashParent + o.HashChild)
		nk := c10Key(full, c10Owner(full, o.Account))
		if !c10Only(diff, nk) {
			find("wrote-foreign-entry", "a post changed an entry other than parent+child under the parent's account")
		}
		want := fttypes.Files{Address: full, Contents: o.Contents, Owner: c10Owner(full, o.Account), ViewingAccess: o.Viewers, EditAccess: o.Editors, TrackingNumber: o.Tracking}
		if f, ok := post[nk]; !ok || f != want {
			find("wrong-entry-written", "the posted entry differs from the message / is not owned by the parent's account")
		}
	case "delete":
		k := c10Key(o.HashPath, c10Owner(o.HashPath, o.Account))
		f, ok := pre[k]
		if !ok || !c10Only(diff, k) {
			find("changed-unnamed-entry", "a delete changed an entry other than the named one")
			return
		}
		if f.Address != o.HashPath || f.Owner != c10Owner(o.HashPath, o.Account) {
			find("aliased-lookup", "a delete reached an entry whose address/owner are not the named ones")
		}
		if !c10IsOwner(f, o.Creator) {
			find("non-owner", "an entry was deleted by a signer who is not its owner")
		}
		if _, still := post[k]; still {
			find("not-removed", "a successful delete left or rewrote the entry")
		}
	case "chown":
		k := c10Key(o.Address, c10Owner(o.Address, o.FileOwner))
		nk := c10Key(o.Address, c10Owner(o.Address, o.NewOwner))
		f, ok := pre[k]
		if !ok || !c10Only(diff, k, nk) {
			find("changed-unnamed-entry", "a change of owner changed an entry other than the named one")
			return
		}
		if f.Address != o.Address || f.Owner != c10Owner(o.Address, o.FileOwner) {
			find("aliased-lookup", "a change of owner reached an entry whose address/owner are not the named ones")
		}
		if !c10IsOwner(f, o.Creator) {
			find("non-owner", "an entry was given away by a signer who is not its owner")
		}
		if _, existed := pre[nk]; existed {
			find("overwrote-existing", "a change of owner overwrote an entry of the new owner")
		}
		want := f
		want.Owner = c10Owner(o.Address, o.NewOwner)
		if g, ok := post[nk]; !ok || g != want {
			find("wrong-entry-written", "the entry after a change of owner is not the old entry with the new owner")
		}
		if _, still := post[k]; still && k != nk {
			find("old-entry-kept", "the old owner's entry survived a change of owner")
		}
	case "add", "remove", "reset":
		k := c10Key(o.Address, o.FileOwner)
		f, ok := pre[k]
		if !ok || f.Address != o.Address || f.Owner != o.FileOwner || !c10Only(diff, k) {
			find("changed-unnamed-entry", "an access-list message changed an entry other than the named one")
			return
		}
		if !c10IsOwner(f, o.Creator) {
			find("non-owner", "an access list was changed by a signer who is not the entry's owner")
		}
		g, ok := post[k]
		if !ok || !c10SameExcept(o.K, f, g) {
			find("changed-other-field", "an access-list message changed more than the named access list")
			return
		}
		old, ok1 := c10Parse(c10AclOf(o.K, f))
		now, ok2 := c10Parse(c10AclOf(o.K, g))
		if !ok1 || !ok2 {
			find("unparsable-acl", "an access list was rewritten from or to a string that does not parse")
			return
		}
		want := map[string]string{}
		switch o.Kind {
		case "add":
			for k, v := range old {
				want[k] = v
			}
			ids, keys := strings.Split(o.Ids, ","), strings.Split(o.Keys, ",")
			for i, id := range ids {
				if i >= len(keys) {
					find("ids-without-keys", "ids without a key were processed without failing")
					return
				}
				want[id] = keys[i]
			}
		case "remove":
			gone := map[string]bool{}
			for _, id := range strings.Split(o.Ids, ",") {
				gone[id] = true
			}
			for k, v := range old {
				if !gone[k] {
					want[k] = v
				}
			}
		case "reset":
			a := c10AclAddr(o.K, f.TrackingNumber, o.Creator)
			want[a] = old[a]
		}
		if len(want) != len(now) {
			find("wrong-ids", "the access list after the message is not the old one changed at exactly the named ids")
			return
		}
		for k, v := range want {
			if w, ok := now[k]; !ok || w != v {
				find("wrong-ids", "the access list after the message is not the old one changed at exactly the named ids")
				return
			}
		}
		if b, _ := json.Marshal(now); string(b) != c10AclOf(o.K, g) {
			find("acl-not-canonical", "the stored access list is not the canonical JSON of its content")
		}
	}
}

// ---- the runner

func runC10(r *RunCtx) error {
	r.Sum.Rule = "function level: Make{Owner,Viewer,Editor}Address / IsOwner / Has{Viewing,Edit}Access / FilesKey / json.Marshal / strings.Split on crafted strings (concatenation-ambiguous splits, slashes, odd UTF-8) vs the Gallina model with executable SHA-256; history level: message sequences (provision, post, delete, change owner, add/remove/reset viewers and editors) by owner, previous owner, editor, viewer, stranger and upper-case spellings on the assembled app, a quarter of them with crafted address/owner/account strings; one evaluation = one message with the raw Files store before and after; non-trivial = distinct (pre-store, message) that either changed the store or reached the authorisation decision on an existing entry"
	r.Group("fn", "From Coq Require Import Uint63.\nFrom JK Require Import Model.Filetree Corr.C10Enc Corr.C10.", "c10_case", "c10_ok")
	r.Group("hist", "From Coq Require Import Uint63.\nFrom JK Require Import Model.Filetree Corr.C10Enc Corr.C10.", "c10_case", "c10_ok")
	setBech32() // before any AccAddress.String(): the SDK caches the spelling per address
	p := r.Rng
	accts := []sdk.AccAddress{Acct(1), Acct(2), Acct(3), Acct(4), Acct(5)}

	// ---------------- function level
	nf := r.Scale(8, 60)
	for i := 0; i < nf; i++ {
		a := hexsha(fmt.Sprint("path", p.Intn(5)))
		x := hexsha(accts[p.Intn(5)].String())
		k := 1 + p.Intn(62)
		path, user := a, x
		switch p.Intn(5) {
		case 0:
			path, user = a+x[:k], x[k:]
		case 1:
			path, user = a[:k], a[k:]+x
		case 2:
			path, user = "", PickOne(p, c10OddStrings)
		case 3:
			path, user = PickOne(p, c10OddStrings), ""
		}
		got := ftkeeper.MakeOwnerAddress(path, user)
		r.Case("fn", fmt.Sprintf("FnOwner %s %s %s", c10Str(path), c10Str(user), c10Str(got)), map[string]string{"fn": "MakeOwnerAddress", "path": path, "user": user})
		r.Count("fnowner:"+path+"|"+user, true)
		if got != c10Owner(path, user) {
			r.Finding("C10/fn/make-owner-address", "MakeOwnerAddress is not hex(sha256(\"o\"+path+user))", map[string]string{"path": path, "user": user})
		}
		tn := PickOne(p, append([]string{"tn1", "t", ""}, c10OddStrings...))
		u := Spell(accts[p.Intn(5)], p.Chance(1, 6))
		gv, ge := ftkeeper.MakeViewerAddress(tn, u), ftkeeper.MakeEditorAddress(tn, u)
		r.Case("fn", fmt.Sprintf("FnViewer %s %s %s", c10Str(tn), c10Str(u), c10Str(gv)), map[string]string{"fn": "MakeViewerAddress", "tn": tn, "user": u})
		r.Case("fn", fmt.Sprintf("FnEditor %s %s %s", c10Str(tn), c10Str(u), c10Str(ge)), map[string]string{"fn": "MakeEditorAddress", "tn": tn, "user": u})
		r.Count("fnacl:"+tn+"|"+u, true)
		r.Count("fnacl2:"+tn+"|"+u, true)
		if gv != c10Viewer(tn, u) || ge != c10Editor(tn, u) {
			r.Finding("C10/fn/make-acl-address", "MakeViewerAddress/MakeEditorAddress differ from hex(sha256(\"v\"|\"e\"+tracking+user))", map[string]string{"tn": tn, "user": u})
		}
		// IsOwner: true owner, other account, upper-case spelling, entry whose address differs
		ownerAcct := accts[p.Intn(5)]
		f := fttypes.Files{Address: a, Owner: c10Owner(a, hexsha(ownerAcct.String())), ViewingAccess: "{}", EditAccess: "{}", TrackingNumber: tn}
		switch p.Intn(4) {
		case 0:
			f.Owner = c10Owner(a+"x", hexsha(ownerAcct.String()))
		case 1:
			f.Owner = strings.ToUpper(f.Owner)
		}
		who := Spell(PickOne(p, []sdk.AccAddress{ownerAcct, ownerAcct, accts[p.Intn(5)]}), p.Chance(1, 6))
		gi := ftkeeper.IsOwner(f, who)
		r.Case("fn", fmt.Sprintf("FnIsOwner %s %s %s", c10File(f), c10Str(who), cBool(gi)), map[string]interface{}{"fn": "IsOwner", "file": f, "user": who})
		r.Count("fnisowner:"+f.Owner+"|"+who, gi)
		if gi != c10IsOwner(f, who) {
			r.Finding("C10/fn/is-owner", "IsOwner differs from the recomputed hashed identity", map[string]interface{}{"file": f, "user": who})
		}
		// Has*Access
		g := &c10Gen{p: p, accts: accts}
		for _, kind := range []string{"view", "edit"} {
			s := g.aclString(kind, tn, p.Intn(5))
			ff := f
			ff.ViewingAccess, ff.EditAccess = s, s
			var got bool
			var err error
			if kind == "view" {
				got, err = ftkeeper.HasViewingAccess(ff, who)
			} else {
				got, err = ftkeeper.HasEditAccess(ff, who)
			}
			exp := "None"
			if err == nil {
				exp = "(Some " + cBool(got) + ")"
			}
			r.Case("fn", fmt.Sprintf("FnAccess %s %s %s %s %s", c10Kind(kind), c10File(ff), c10Str(who), c10ParseTable([]string{s}), exp), map[string]interface{}{"fn": "Has" + kind + "Access", "file": ff, "user": who})
			r.Count("fnaccess:"+kind+s+"|"+tn+who, got)
			m, okp := c10Parse(s)
			_, has := m[c10AclAddr(kind, tn, who)]
			if (err == nil) != okp || (okp && got != has) {
				r.Finding("C10/fn/has-access", "Has*Access differs from membership of the hashed id in the parsed access list", map[string]interface{}{"file": ff, "user": who, "kind": kind})
			}
		}
		// FilesKey
		ka, ko := a, f.Owner
		if p.Chance(1, 2) {
			ka, ko, _ = g.craftRawPair(a, f.Owner, nil)
		}
		gk := string(fttypes.FilesKey(ka, ko))
		r.Case("fn", fmt.Sprintf("FnKey %s %s %s", c10Str(ka), c10Str(ko), c10Str(gk)), map[string]string{"fn": "FilesKey", "address": ka, "owner": ko})
		r.Count("fnkey:"+ka+"|"+ko, true)
		if gk != c10Key(ka, ko) {
			r.Finding("C10/fn/files-key", "FilesKey is not address/owner/", map[string]string{"address": ka, "owner": ko})
		}
		if (ka != a || ko != f.Owner) && gk == c10Key(a, f.Owner) {
			r.Finding("C10/fn/key-aliasing", "two different (address, owner) pairs share a store key", map[string]string{"address": ka, "owner": ko})
		}
		// json.Marshal(map[string]string) and strings.Split
		m := map[string]string{}
		for j := p.Intn(4); j > 0; j-- {
			m[PickOne(p, c10OddStrings)+PickOne(p, []string{"", "z", " x", "€"})] = PickOne(p, c10OddStrings)
		}
		if p.Chance(1, 8) {
			m = nil
		}
		b, _ := json.Marshal(m)
		r.Case("fn", fmt.Sprintf("FnRender %s %s", c10OptAcl(m), c10Str(string(b))), map[string]interface{}{"fn": "json.Marshal", "map": m})
		r.Count("fnrender:"+string(b), len(m) > 0)
		s := strings.Join([]string{PickOne(p, c10OddStrings), PickOne(p, []string{"", ",", "a,b", ",,"}), PickOne(p, c10OddStrings)}, PickOne(p, []string{",", "", ",,"}))
		parts := strings.Split(s, ",")
		pc := make([]string, len(parts))
		for j, q := range parts {
			pc[j] = c10Str(q)
		}
		r.Case("fn", fmt.Sprintf("FnSplit %s %s", c10Str(s), cList(pc)), map[string]string{"fn": "strings.Split", "s": s})
		r.Count("fnsplit:"+s, true)
	}

	// ---------------- history level
	nh := r.Scale(10, 250)
	steps := r.Scale(30, 34)
	for h := 0; h < nh; h++ {
		e, err := NewEnv()
		if err != nil {
			return err
		}
		sk, err := c10StoreKey(e)
		if err != nil {
			e.Close()
			return err
		}
		g := &c10Gen{p: p.Fork(), accts: accts}
		var hist []c10Op
		var forced *c10Op
		var queue []c10Op
		// opening: account 0 provisions a root shared with editors 1,2 and viewer 3 (most histories)
		opening := []c10Op{}
		if g.p.Chance(5, 6) {
			tn := g.tracking()
			opening = append(opening, c10Op{Kind: "provision", Creator: accts[0].String(), Tracking: tn, Viewers: g.aclJSON("view", tn, []int{0, 3}), Editors: g.aclJSON("edit", tn, []int{0, 1, 2}), Shape: "opening"})
		}
		for s := 0; s < steps; s++ {
			preL, err := c10Dump(e, sk)
			if err != nil {
				e.Close()
				return err
			}
			var o c10Op
			// a transaction of two messages whose second fails: the grant made by the first must be rolled back
			// with it, and the account it named must not be able to post afterwards (forced as the next step)
			if s >= len(opening) && forced == nil && len(preL) > 0 && g.p.Chance(1, 9) {
				tgt := PickOne(g.p, preL).F
				if own := g.ownerOf(tgt); own >= 0 {
					who := g.accts[4] // the stranger: never granted anything
					grant := c10Op{Kind: "add", K: "edit", Creator: g.accts[own].String(), Address: tgt.Address, FileOwner: tgt.Owner,
						Ids: c10Editor(tgt.TrackingNumber, who.String()), Keys: "k"}
					fails := c10Op{Kind: "delete", Creator: g.accts[own].String(), HashPath: hexsha("no-such-entry"), Account: hexsha(g.accts[own].String())}
					out, at, _ := e.RunTx(grant.msg(), fails.msg())
					mid, derr := c10Dump(e, sk)
					if derr != nil {
						e.Close()
						return derr
					}
					r.Hist("rolled_back_tx", fmt.Sprintf("%s at message %d", out, at))
					if out != OutOk && len(c10Diff(c10Index(preL), c10Index(mid))) > 0 {
						r.Finding("C10/tx/failed-transaction-left-writes", "a transaction whose second message failed changed the tree", map[string]interface{}{"history": hist, "tx": []c10Op{grant, fails}})
					}
					tn := g.tracking()
					f := c10Op{Kind: "post", Creator: who.String(), Account: hexsha(g.accts[own].String()), HashParent: tgt.Address, HashChild: hexsha("after-rollback"), Contents: "x",
						Viewers: g.aclJSON("view", tn, []int{4}), Editors: g.aclJSON("edit", tn, []int{4}), Tracking: tn, Shape: "after-rolled-back-grant"}
					forced = &f
				}
			}
			// directed: plain-text ids one of which is contained in another ("ops" / "ops-oncall", "v1" / "v10"); the owner
			// removes only the longer one
			if h%2 == 0 && s == len(opening) && len(opening) > 0 && len(preL) > 0 {
				if own := g.ownerOf(preL[0].F); own >= 0 {
					tgt := preL[0].F
					mk := func(kind, k, ids, keys string) c10Op {
						return c10Op{Kind: kind, K: k, Creator: g.accts[own].String(), Address: tgt.Address, FileOwner: tgt.Owner, Ids: ids, Keys: keys, Shape: "contained-ids"}
					}
					// entries whose stored viewer list is not a JSON object of strings (a client bug, or crafted): the owner's
					// remove-viewers is refused and the list stays as it is
					acct := hexsha(g.accts[own].String())
					for bi, badViewers := range []string{`{"v1":"k","v2":7}`, `{"v1":"k","v2":"k"`, `["v1"]`} {
						child := hexsha(fmt.Sprintf("malformed-viewers-%d", bi))
						addr := fttypes.AddToMerkle(tgt.Address, child)
						tn := g.tracking()
						queue = append(queue, c10Op{Kind: "post", Creator: g.accts[own].String(), Account: acct, HashParent: tgt.Address, HashChild: child, Contents: "c",
							Viewers: badViewers, Editors: g.aclJSON("edit", tn, []int{own}), Tracking: tn, Shape: "malformed-viewers"},
							c10Op{Kind: "remove", K: "view", Creator: g.accts[own].String(), Address: addr, FileOwner: ftkeeper.MakeOwnerAddress(addr, acct), Ids: "v1", Shape: "malformed-viewers"},
							c10Op{Kind: "remove", K: "edit", Creator: g.accts[own].String(), Address: addr, FileOwner: ftkeeper.MakeOwnerAddress(addr, acct), Ids: "nobody", Shape: "malformed-viewers"})
					}
					queue = append(queue, mk("add", "edit", "ops,ops-oncall", "k1,k2"), mk("remove", "edit", "ops-oncall", ""),
						mk("add", "view", "v1,v10,v100", "a,b,c"), mk("remove", "view", "v100,v10", ""), mk("remove", "edit", c10Editor(tgt.TrackingNumber, g.accts[own].String())+"-old", ""))
				}
			}
			// directed: an entry handed to the receiver's plain address (a client that forgot to hash it, in either
			// spelling) belongs to nobody; the account named that way then tries every owner-only message on it
			if h%2 == 1 && s == len(opening) && len(opening) > 0 && len(preL) > 0 {
				if own := g.ownerOf(preL[0].F); own >= 0 {
					tgt := preL[0].F
					acct := hexsha(g.accts[own].String())
					for ci, plain := range []string{g.accts[3].String(), strings.ToUpper(g.accts[2].String()), strings.ToUpper(hexsha(g.accts[1].String()))} {
						named := g.accts[3-ci].String()
						child := hexsha(fmt.Sprintf("handed-to-plain-address-%d", ci))
						addr := fttypes.AddToMerkle(tgt.Address, child)
						tn := g.tracking()
						lost := hexsha("o" + addr + plain) // what ChangeOwner stores for this NewOwner
						queue = append(queue,
							c10Op{Kind: "post", Creator: g.accts[own].String(), Account: acct, HashParent: tgt.Address, HashChild: child, Contents: "c",
								Viewers: g.aclJSON("view", tn, []int{own}), Editors: g.aclJSON("edit", tn, []int{own}), Tracking: tn, Shape: "plain-address-handover"},
							c10Op{Kind: "chown", Creator: g.accts[own].String(), Address: addr, FileOwner: acct, NewOwner: plain, Shape: "plain-address-handover"},
							c10Op{Kind: "add", K: "edit", Creator: named, Address: addr, FileOwner: lost, Ids: c10Editor(tn, named), Keys: "k", Shape: "named-by-plain-address"},
							c10Op{Kind: "reset", K: "view", Creator: named, Address: addr, FileOwner: lost, Shape: "named-by-plain-address"},
							c10Op{Kind: "chown", Creator: named, Address: addr, FileOwner: plain, NewOwner: hexsha(named), Shape: "named-by-plain-address"},
							c10Op{Kind: "delete", Creator: named, HashPath: addr, Account: plain, Shape: "named-by-plain-address"})
					}
				}
			}
			// directed: an entry whose access lists are accepted but are not JSON (only non-emptiness is demanded); it
			// stays its owner's until the owner deletes it - also across the restart at the end of the history
			if h%2 == 0 && s == len(opening) && len(opening) > 0 && len(preL) > 0 {
				if own := g.ownerOf(preL[0].F); own >= 0 {
					tn := g.tracking()
					queue = append(queue, c10Op{Kind: "post", Creator: g.accts[own].String(), Account: hexsha(g.accts[own].String()), HashParent: preL[0].F.Address, HashChild: hexsha("lists-that-are-not-json"),
						Contents: "c", Viewers: "nobody", Editors: "nobody", Tracking: tn, Shape: "non-json-lists"})
				}
			}
			if len(queue) > 0 && forced == nil && s >= len(opening) {
				o = queue[0]
				queue = queue[1:]
			} else if forced != nil && s >= len(opening) {
				o = *forced
				forced = nil
			} else if s < len(opening) {
				o = opening[s]
			} else {
				o = g.next(preL)
				if g.p.Chance(1, 40) { // a creator that is not valid bech32 (mixed case): rejected by ValidateBasic
					o.Creator, o.Shape = "Jkl1"+o.Creator[4:], "invalid-creator"
				}
			}
			_, verr := sdk.AccAddressFromBech32(o.Creator)
			res := e.Run(o.msg())
			postL, err := c10Dump(e, sk)
			if err != nil {
				e.Close()
				return err
			}
			hist = append(hist, o)
			c10Monitor(r, o, res.Out, preL, postL, hist)
			if all := e.App.FileTreeKeeper.GetAllFiles(e.Ctx); len(all) != len(postL) {
				r.Finding("C10/observe/getallfiles", "GetAllFiles and the raw store prefix disagree", map[string]interface{}{"history": hist})
			}
			// the keeper's own IsOwner against the recomputation, on every entry for the signer
			for _, en := range postL {
				if ftkeeper.IsOwner(en.F, o.Creator) != c10IsOwner(en.F, o.Creator) {
					r.Finding("C10/fn/is-owner", "IsOwner differs from the recomputed hashed identity", map[string]interface{}{"file": en.F, "user": o.Creator})
				}
			}
			if o.Kind == "chown" && res.Out == OutOk {
				g.prev = o.Creator
			}
			var strs []string
			for _, en := range preL {
				strs = append(strs, en.F.ViewingAccess, en.F.EditAccess)
			}
			term := fmt.Sprintf("Step %s %s %s %s %s %s", c10Store(preL), c10ParseTable(strs), cBool(verr == nil), o.coq(), c10Out(res.Out), c10Store(postL))
			r.Case("hist", term, map[string]interface{}{"history": h, "step": s, "op": o, "outcome": res.Out, "error": res.Err, "pre_entries": len(preL), "post_entries": len(postL)})
			changed := len(c10Diff(c10Index(preL), c10Index(postL))) > 0
			// reached = the message named an existing entry (so the authorisation decision was taken)
			var lk string
			switch o.Kind {
			case "provision":
				lk = ""
			case "post":
				lk = c10Key(o.HashParent, c10Owner(o.HashParent, o.Account))
			case "delete":
				lk = c10Key(o.HashPath, c10Owner(o.HashPath, o.Account))
			case "chown":
				lk = c10Key(o.Address, c10Owner(o.Address, o.FileOwner))
			default:
				lk = c10Key(o.Address, o.FileOwner)
			}
			_, reached := c10Index(preL)[lk]
			reached = (reached && verr == nil) || changed
			r.Count("step:"+hexsha(term), reached)
			if reached {
				r.Hist("decision", o.Kind+":"+res.Out)
			}
			r.Hist("ops", o.Kind)
			r.Hist("outcome", o.Kind+":"+res.Out)
			r.Hist("shape", o.Shape)
			if changed {
				r.Hist("changed", o.Kind)
			}
			if h == 0 && s < 3 {
				r.Sample(map[string]interface{}{"op": o, "outcome": res.Out, "entries_after": len(postL)})
			}
		}
		// restart twin: the chain is exported and a new chain started from that genesis; no owner sent anything, so the
		// tree the new chain serves is the tree the old one held, entry for entry
		if preL, derr := c10Dump(e, sk); derr == nil && len(preL) > 0 {
			for _, m := range c19Modules() {
				if m.Name != "filetree" {
					continue
				}
				nxt, nerr := NewEnv()
				if nerr != nil {
					break
				}
				var ierr error
				pn := Guard(func() { ierr = m.Import(nxt, m.Export(e)) })
				nsk, _ := c10StoreKey(nxt)
				postL, _ := c10Dump(nxt, nsk)
				r.Count(fmt.Sprintf("restart:%d:%d", h, len(preL)), true)
				r.Hist("ops", "restart")
				if pn != "" || ierr != nil {
					r.Finding("C10/restart/import-failed", fmt.Sprintf("the filetree genesis the chain exported cannot be imported: %s %v", pn, ierr), map[string]interface{}{"history": hist})
				} else if d := c10Diff(c10Index(preL), c10Index(postL)); len(d) > 0 {
					r.Finding("C10/restart/tree-changed-without-a-message", fmt.Sprintf("after a restart from the exported genesis %d of %d entries are gone or differ although no message was sent (first: %s)", len(d), len(preL), d[0]),
						map[string]interface{}{"history": append(append([]c10Op{}, hist...), c10Op{Kind: "restart", Shape: "export-import"})})
				}
				nxt.Close()
			}
		}
		e.Close()
	}
	return nil
}
