package main

// C05, parameters: (a) every value of every integer parameter of the custom modules that a parameter-change proposal
// can set (the proposal and its votes are ordinary transactions; Subspace.Update runs the key's validator, what it
// refuses is not reachable and is skipped) is followed by whole-app blocks through a reward height: block processing
// completes.  (b) the parameter store as the earlier release wrote it (corpus/persisted/chain.json, store "params")
// under the binary built from the tree under test: the first blocks complete.  Monitors only.

import (
	"encoding/hex"
	"fmt"
	"reflect"
	"time"

	sdk "github.com/cosmos/cosmos-sdk/types"
	paramtypes "github.com/cosmos/cosmos-sdk/x/params/types"
	minttypes "github.com/jackalLabs/canine-chain/v4/x/jklmint/types"
	oracletypes "github.com/jackalLabs/canine-chain/v4/x/oracle/types"
	rnstypes "github.com/jackalLabs/canine-chain/v4/x/rns/types"
	storagetypes "github.com/jackalLabs/canine-chain/v4/x/storage/types"
)

func c05ParamEdges(r *RunCtx) error {
	type space struct {
		name string
		set  paramtypes.ParamSet
	}
	spaces := []space{{storagetypes.ModuleName, &storagetypes.Params{}}, {minttypes.ModuleName, &minttypes.Params{}}, {rnstypes.ModuleName, &rnstypes.Params{}}, {oracletypes.ModuleName, &oracletypes.Params{}}}
	values := []string{"0", "1", "-1", "2", "9223372036854775807", "-9223372036854775808"}
	for _, sp := range spaces {
		var pairs paramtypes.ParamSetPairs
		if pn := Guard(func() { pairs = sp.set.ParamSetPairs() }); pn != "" {
			continue
		}
		for _, pair := range pairs {
			if reflect.TypeOf(pair.Value).Elem().Kind() != reflect.Int64 {
				continue
			}
			for _, v := range values {
				e, err := NewEnv()
				if err != nil {
					return err
				}
				e.NoGhost = true
				_ = e.Fund(Acct(1), "ujkl", 4_000_000_000_000_000)
				// something for the begin blockers to work on: a plan, a pay-once file, a provider
				e.Run(&storagetypes.MsgBuyStorage{Creator: Acct(1).String(), ForAddress: Acct(1).String(), DurationDays: 30, Bytes: 3_000_000_000, PaymentDenom: "ujkl"})
				e.Run(&storagetypes.MsgPostFile{Creator: Acct(1).String(), Merkle: []byte("c05-param-edges"), FileSize: 5_000_000, MaxProofs: 3, Note: "{}"})
				ss, ok := paramsKeeperOf(e).GetSubspace(sp.name)
				if !ok {
					e.Close()
					continue
				}
				var uerr error
				pn := Guard(func() { uerr = ss.Update(e.Ctx, pair.Key, []byte(fmt.Sprintf("%q", v))) })
				accepted := pn == "" && uerr == nil
				r.Hist("param-edges", fmt.Sprintf("%s/%s=%s: %s", sp.name, pair.Key, v, map[bool]string{true: "accepted", false: "refused"}[accepted]))
				if !accepted {
					e.Close()
					continue
				}
				if sp.name == minttypes.ModuleName {
					// the bound of this property's claim (DESIGN section 5, C05 B): the mint ratios are percentages that sum to
					// at most 100 and amounts stay below 2^62 - a governance configuration, not user input
					var mp minttypes.Params
					ss.GetParamSet(e.Ctx, &mp)
					if mp.StakerRatio > 100 || mp.DevGrantsRatio > 100 || mp.StorageProviderRatio > 100 || mp.StakerRatio+mp.DevGrantsRatio+mp.StorageProviderRatio > 100 || mp.TokensPerBlock >= 1<<62 {
						r.Hist("param-edges", fmt.Sprintf("%s/%s=%s: outside the quantifier", sp.name, pair.Key, v))
						e.Close()
						continue
					}
				}
				trace := []interface{}{map[string]interface{}{"op": "ParameterChangeProposal", "subspace": sp.name, "key": string(pair.Key), "value": v}}
				// block by block through the first reward height of the default check window, and one beyond
				for b := 0; e.Height < 101; b++ {
					pnb, where := c05NextBlock(e, 6*time.Second)
					if b < 2 || e.Height >= 100 {
						r.Count(fmt.Sprintf("param-edge:%s:%s:%s:%d", sp.name, pair.Key, v, e.Height), true)
					}
					if pnb != "" {
						r.Finding("C05/beginblock-panic/"+where, fmt.Sprintf("after a passed proposal set %s/%s to %s (accepted by the key's validator) the assembled app panicked in %s at height %d: %s", sp.name, pair.Key, v, where, e.Height, pnb),
							map[string]interface{}{"trace": trace, "height": e.Height})
						break
					}
				}
				e.Close()
			}
		}
	}
	return nil
}

// c05PersistedParams: the stores (parameters included) of a chain written by the earlier release, then whole-app blocks.
func c05PersistedParams(r *RunCtx) error {
	e, snap, trace, err := chainLoad(r, "C05")
	if err != nil || e == nil {
		return err
	}
	defer e.Close()
	if kvs, ok := snap.Stores[paramtypes.StoreKey]; !ok || len(kvs) == 0 {
		return fmt.Errorf("C05: the persisted chain holds no parameter store")
	}
	_ = hex.EncodeToString
	e.Height = e.App.LastBlockHeight() + 1 // the block the fresh app is in; the loaded stores are part of it
	for b := 0; b < 4; b++ {
		pn, where := c05NextBlock(e, 6*time.Second)
		r.Count(fmt.Sprintf("persisted-chain:block:%d", b), true)
		if pn != "" {
			r.Finding("C05/beginblock-panic/"+where, fmt.Sprintf("on the stores (parameters included) an earlier release wrote, the assembled app panicked in %s at height %d: %s", where, e.Height, pn),
				map[string]interface{}{"trace": trace, "height": e.Height})
			return nil
		}
	}
	r.Hist("persisted-state", "chain: the first blocks of the new binary complete")
	return nil
}

// c05Strikes: a registered provider (collateral locked) takes a seat on five files by valid proofs and then goes silent:
// reward block after reward block strikes it for every file it held (the burn counter passes every threshold a small
// parameter could set), with whole-app blocks in between.  Block processing completes throughout.
func c05Strikes(r *RunCtx) error {
	e, err := NewEnv()
	if err != nil {
		return err
	}
	defer e.Close()
	sp := StorageParams(e)
	sp.CheckWindow, sp.ProofWindow = 5, 3
	GovSetStorageParams(e, sp)
	owner, lazy := Acct(1), Acct(2)
	_ = e.Fund(owner, "ujkl", 4_000_000_000_000_000)
	_ = e.Fund(lazy, "ujkl", 4_000_000_000_000_000)
	trace := []interface{}{}
	step := func(what string, m sdk.Msg) {
		res := e.Run(m)
		r.Hist("chain_msgs", what+":"+res.Out)
		trace = append(trace, map[string]interface{}{"block": e.Height, "msg": what, "out": res.Out, "err": res.Err})
	}
	step("storage.MsgInitProvider(lazy)", &storagetypes.MsgInitProvider{Creator: lazy.String(), Ip: "https://lazy.example.com", TotalSpace: 1 << 40})
	step("storage.MsgBuyStorage", &storagetypes.MsgBuyStorage{Creator: owner.String(), ForAddress: owner.String(), DurationDays: 30, Bytes: 5_000_000_000, PaymentDenom: "ujkl"})
	for i := 0; i < 5; i++ {
		data := []byte(fmt.Sprintf("struck-file-%d", i))
		root, item, pj := c05OneChunkFile(data)
		step("storage.MsgPostFile(struck)", &storagetypes.MsgPostFile{Creator: owner.String(), Merkle: root, FileSize: int64(len(data)), MaxProofs: 3, Note: "{}"})
		step("storage.MsgPostProof(lazy, once)", &storagetypes.MsgPostProof{Creator: lazy.String(), Item: item, HashList: pj, Merkle: root, Owner: owner.String(), Start: e.Height, ToProve: 0})
		if i%2 == 1 {
			if pn, where := c05NextBlock(e, 6*time.Second); pn != "" {
				r.Finding("C05/beginblock-panic/"+where, "the assembled app panicked in "+where+" after valid transactions: "+pn, map[string]interface{}{"trace": trace, "height": e.Height})
				return nil
			}
		}
	}
	for b := 0; b < 30; b++ {
		pn, where := c05NextBlock(e, 6*time.Second)
		r.Count(fmt.Sprintf("strikes:%d", b), true)
		r.Hist("whole_app_block", map[bool]string{true: "panic in " + where, false: "completed"}[pn != ""])
		if pn != "" {
			pv, _ := e.App.StorageKeeper.GetProviders(e.Ctx, lazy.String())
			r.Finding("C05/beginblock-panic/"+where, fmt.Sprintf("a registered provider held five files and stopped proving; the assembled app panicked in %s at height %d (burn counter %s): %s", where, e.Height, pv.BurnedContracts, pn),
				map[string]interface{}{"trace": trace, "height": e.Height})
			return nil
		}
	}
	pv, _ := e.App.StorageKeeper.GetProviders(e.Ctx, lazy.String())
	r.Hist("strikes", "burn counter of the silent provider after 30 blocks: "+pv.BurnedContracts)
	return nil
}
