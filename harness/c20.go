package main

// C20 — hashed file-tree paths keep the parent/child relation; trailing slash neutral.
// Function level: types.MerklePath / types.AddToMerkle / crypto/sha256 at volume.
// History level: filetree PostFile on the assembled app returns AddToMerkle(parent, child).

import (
	"crypto/sha256"
	"encoding/hex"
	"fmt"
	"strings"

	ftkeeper "github.com/jackalLabs/canine-chain/v4/x/filetree/keeper"
	fttypes "github.com/jackalLabs/canine-chain/v4/x/filetree/types"
)

func init() { runners["C20"] = runC20 }

func hexsha(s string) string { h := sha256.Sum256([]byte(s)); return hex.EncodeToString(h[:]) }

func genSegment(p *PRNG) string {
	switch p.Intn(10) {
	case 0:
		return "" // empty segment
	case 1:
		return "s"
	case 2:
		return PickOne(p, []string{"home", "pepe.jpg", "Ünïcödé", "日本語", " ", ".", "..", "100%", "a%%b.txt", "My%20Report.pdf", "%s%d%v", "%!(NOVERB)", "2024\\report.txt", "a\\b", "\\", "c:\\dir",
			"cafe\u0301", "caf\u00e9", "\u212b", "\u00c5", "\u2126", "\u1112\u1161\u11ab", "\ud55c", "100%25.txt", "%41", "a%2Fb"}) // decomposed and composed spellings, singletons, jamo, valid percent escapes
	case 3:
		return string(p.Bytes(1 + p.Intn(6))) // arbitrary bytes (may contain '/', split by the code)
	case 4:
		return strings.Repeat("a", 50+p.Intn(30)) // crosses the 55/64-byte SHA-256 padding boundaries
	default:
		n := 1 + p.Intn(8)
		b := make([]byte, n)
		for i := range b {
			b[i] = "abcdefghijklmnopqrstuvwxyz0123456789-_."[p.Intn(39)]
		}
		return string(b)
	}
}

func runC20(r *RunCtx) error {
	r.Sum.Rule = "random paths of 1..8 segments over arbitrary bytes (empty segments, UTF-8, double and trailing slashes), each run through types.MerklePath / AddToMerkle and the Gallina model with the executable SHA-256; non-trivial = distinct path string with at least one non-empty segment; filetree PostFile executed on the assembled app for a sample"
	setBech32()
	r.Group("fn", "From JK Require Import Corr.C20.", "c20_case", "c20_ok")
	p := r.Rng
	n := r.Scale(120, 1500)
	seen := map[string]string{} // address -> canonical segment list (for the distinctness monitor)
	for i := 0; i < n; i++ {
		k := 1 + p.Intn(8)
		segs := make([]string, k)
		for j := range segs {
			segs[j] = genSegment(p)
		}
		if i%16 == 5 { // an entry directly below the top folder with the empty name: "/x", "/x/"
			segs = []string{"", genSegment(p)}
			if segs[1] == "" || strings.Contains(segs[1], "/") {
				segs[1] = "x"
			}
			k = 2
		}
		path := strings.Join(segs, "/")
		if p.Chance(1, 5) {
			path += "/"
		}
		got := fttypes.MerklePath(path)
		r.Case("fn", fmt.Sprintf("MPath %s %s", cStr(path), cStr(got)), map[string]interface{}{"fn": "MerklePath", "path_hex": hex.EncodeToString([]byte(path)), "got": got})
		r.Count("mp:"+path, strings.Trim(path, "/") != "")
		r.Hist("segments", fmt.Sprint(k))
		if i < 2 {
			r.Sample(map[string]interface{}{"fn": "MerklePath", "path": path, "impl": got})
		}
		// --- call sequences: the address of a path must not depend on which path was hashed just before.  Right after
		// path P the same function is asked for paths that merely START with P's characters (P+"x", P+".txt",
		// P+"work/b", P itself, P minus its last character): each answer is compared with a from-scratch computation
		// here and with the model.
		for ci, cont := range []string{"x", ".txt", "work/b", "", "0"} {
			if ci >= 2 && !p.Chance(1, 2) {
				continue
			}
			p2 := path + cont
			if cont == "" && len(path) > 1 {
				_ = fttypes.MerklePath(path)
				p2 = path[:len(path)-1]
			}
			_ = fttypes.MerklePath(path) // the call just before
			got2 := fttypes.MerklePath(p2)
			ref := ""
			for _, chunk := range strings.Split(strings.TrimSuffix(p2, "/"), "/") {
				ref = hexsha(ref + hexsha(chunk))
			}
			d2 := map[string]interface{}{"fn": "MerklePath", "called_just_before_hex": hex.EncodeToString([]byte(path)), "path_hex": hex.EncodeToString([]byte(p2)), "got": got2, "from_scratch": ref}
			if got2 != ref {
				sig, what := "C20/address-not-the-fold-of-its-segments", "MerklePath(q) is not sha256-fold of q's own '/'-separated segments"
				if fttypes.MerklePath(p2) == ref { // asked again, without the other path in between, the answer is right
					sig, what = "C20/address-depends-on-earlier-call", "MerklePath(q) called right after MerklePath(p), where q starts with the characters of p, is not the address of q's own segment sequence (asked again it is)"
				}
				r.Finding(sig, what, d2)
			}
			r.Case("fn", fmt.Sprintf("MPath %s %s", cStr(p2), cStr(got2)), d2)
			r.Count("mp:"+p2, true)
		}
		_ = fttypes.MerklePath(path)
		// --- monitors on the implementation (the property itself) ---
		// trailing slash neutral
		if !strings.HasSuffix(path, "/") {
			if fttypes.MerklePath(path+"/") != got {
				r.Finding("C20/trailing-slash", "MerklePath(p+\"/\") != MerklePath(p)", map[string]interface{}{"path_hex": hex.EncodeToString([]byte(path))})
			}
			// parent/child relation with a slash-free, non-empty child
			child := genSegment(p)
			if child != "" && !strings.Contains(child, "/") {
				full := fttypes.MerklePath(path + "/" + child)
				derived := fttypes.AddToMerkle(got, hexsha(child))
				if full != derived {
					r.Finding("C20/child-relation", "MerklePath(parent/child) != AddToMerkle(MerklePath(parent), H(child))", map[string]interface{}{"parent_hex": hex.EncodeToString([]byte(path)), "child_hex": hex.EncodeToString([]byte(child))})
				}
				if fttypes.MerklePath(path+"/"+child+"/") != derived {
					r.Finding("C20/child-relation", "MerklePath(parent/child/) != AddToMerkle(MerklePath(parent), H(child))", map[string]interface{}{"parent_hex": hex.EncodeToString([]byte(path)), "child_hex": hex.EncodeToString([]byte(child))})
				}
				r.Case("fn", fmt.Sprintf("AddM %s %s %s", cStr(got), cStr(hexsha(child)), cStr(derived)), map[string]interface{}{"fn": "AddToMerkle", "path": got, "append": hexsha(child), "got": derived})
				r.Count("am:"+got+child, true)
			}
		}
		// the client-side split (types.MerkleHelper; the CLI's merkleHelper is a copy of it): model on every path,
		// and for plain parent/child paths posting with what the client derived must return MerklePath(path)
		hp, hc := fttypes.MerkleHelper(path)
		r.Case("fn", fmt.Sprintf("Helper %s %s %s", cStr(path), cStr(hp), cStr(hc)), map[string]interface{}{"fn": "MerkleHelper", "path_hex": hex.EncodeToString([]byte(path)), "parent": hp, "child": hc})
		r.Count("mh:"+path, k >= 2)
		// (the parent may be the empty top folder — "/x" — but must not itself end in a slash)
		if k >= 2 && segs[k-1] != "" && (segs[k-2] != "" || k == 2) && !strings.Contains(segs[k-1], "/") && !strings.HasSuffix(segs[k-2], "/") && !strings.Contains(strings.Join(segs[:k-1], "/"), "//") {
			if fttypes.AddToMerkle(hp, hc) != got {
				r.Finding("C20/client-split", "AddToMerkle(MerkleHelper(path)) != MerklePath(path): the address a client posts to is not the plain path's address", map[string]interface{}{"path_hex": hex.EncodeToString([]byte(path)), "path": path})
			}
			if hp != fttypes.MerklePath(strings.Join(segs[:k-1], "/")) || hc != hexsha(segs[k-1]) {
				r.Finding("C20/client-split", "MerkleHelper(parent/child) is not (MerklePath(parent), H(child))", map[string]interface{}{"path_hex": hex.EncodeToString([]byte(path)), "path": path})
			}
		}
		// the package's own constructors of entries and messages from a plain path (types.CreateFolderOrFile,
		// types.CreateMsgPostFile: what its tools, its simulation and programs linking it build records with): the
		// record sits at the plain path's address, the message carries what MerkleHelper derives
		if rec, rerr := fttypes.CreateFolderOrFile(Acct(1).String(), []string{Acct(1).String()}, []string{Acct(1).String()}, path); rerr == nil && rec != nil {
			r.Count("cff:"+path, true)
			if rec.Address != got {
				r.Finding("C20/record-from-plain-path", "CreateFolderOrFile(path).Address != MerklePath(path): a record built from the plain path does not sit at the path's address", map[string]interface{}{"path_hex": hex.EncodeToString([]byte(path)), "path": path, "address": rec.Address, "merkle_path": got})
			}
		}
		if pm, perr := fttypes.CreateMsgPostFile(Acct(1).String(), path, []byte("{}"), "tn"); perr == nil && pm != nil {
			if pm.HashParent != hp || pm.HashChild != hc {
				r.Finding("C20/record-from-plain-path", "CreateMsgPostFile(path) does not carry MerkleHelper(path)", map[string]interface{}{"path_hex": hex.EncodeToString([]byte(path)), "path": path})
			}
		}
		// the helper a client hashes a child name with (types.HashThenHex) is plain hex(sha256(name)), whatever the name contains
		for _, sg := range segs {
			hx := fttypes.HashThenHex(sg)
			r.Case("fn", fmt.Sprintf("HashHex %s %s", cStr(sg), cStr(hx)), map[string]interface{}{"fn": "HashThenHex", "in_hex": hex.EncodeToString([]byte(sg))})
			if hx != hexsha(sg) {
				r.Finding("C20/hash-then-hex", "HashThenHex(name) != hex(sha256(name)): a client derives a different child address than the plain path's", map[string]interface{}{"name": sg, "name_hex": hex.EncodeToString([]byte(sg))})
			}
		}
		// distinct segment sequences -> distinct addresses
		canon := strings.TrimSuffix(path, "/")
		if prev, ok := seen[got]; ok && prev != canon {
			r.Finding("C20/address-collision", "two distinct segment sequences share one address", map[string]interface{}{"a_hex": hex.EncodeToString([]byte(prev)), "b_hex": hex.EncodeToString([]byte(canon))})
		}
		seen[got] = canon
	}
	// the hash itself (the Gallina SHA-256 is part of what is validated)
	for i := 0; i < r.Scale(20, 200); i++ {
		var in []byte
		switch i {
		case 0:
			in = []byte{}
		case 1:
			in = []byte("abc")
		default:
			in = p.Bytes(p.Intn(150))
		}
		d := sha256.Sum256(in)
		r.Case("fn", fmt.Sprintf("Sha %s %s", cBytes(in), cBytes(d[:])), map[string]interface{}{"fn": "sha256", "in_hex": hex.EncodeToString(in)})
		r.Count("sha:"+string(in), len(in) > 0)
	}
	if err := c20CLI(r); err != nil {
		return err
	}
	// history level: PostFile on the assembled app returns the address computed from the plain path
	e, err := NewEnv()
	if err != nil {
		return err
	}
	defer e.Close()
	owner := Acct(1)
	acctHash := hexsha(owner.String())
	for i := 0; i < r.Scale(6, 40); i++ {
		tn := fmt.Sprintf("tn%d", i)
		editors := fmt.Sprintf(`{"%s":"k"}`, ftkeeper.MakeEditorAddress(tn, owner.String()))
		res := e.Run(&fttypes.MsgProvisionFileTree{Creator: owner.String(), Viewers: "{}", Editors: editors, TrackingNumber: tn})
		if res.Out != OutOk {
			return fmt.Errorf("C20: provisioning failed: %s", res.Err)
		}
		child := genSegment(p)
		if child == "" || strings.Contains(child, "/") {
			child = fmt.Sprintf("file%d", i)
		}
		// the same message delivered again (a wallet retry), then a changed version at the same path, then an entry
		// below the one just posted: every delivery answers with the address of the plain path
		deliveries := []struct{ parent, child, contents, tn string }{
			{"s", child, "c", tn + "f"}, {"s", child, "c", tn + "f"}, {"s", child, "c2", tn + "f"}, {"s", child, "c2", tn + "f"},
			{"s/" + child, "inner", "c", tn + "g"}, {"s/" + child, "inner", "c", tn + "g"},
		}
		for di, d := range deliveries {
			hp := fttypes.MerklePath(d.parent)
			hc := hexsha(d.child)
			res = e.Run(&fttypes.MsgPostFile{Creator: owner.String(), Account: acctHash, HashParent: hp, HashChild: hc, Contents: d.contents, Viewers: "{}", Editors: fmt.Sprintf(`{"%s":"k"}`, ftkeeper.MakeEditorAddress(d.tn, owner.String())), TrackingNumber: d.tn})
			if res.Out != OutOk {
				// the owner posts below "s" or below the entry it has just created at MerklePath(parent), with edit rights on
				// both: a refusal means the parent is not where the plain path's address says it is
				r.Finding("C20/postfile-path", "a post whose parent was just created at MerklePath(parent) is refused: "+res.Err,
					map[string]interface{}{"parent": d.parent, "child_hex": hex.EncodeToString([]byte(d.child)), "delivery": di, "error": res.Err})
				r.Hist("ops", fmt.Sprintf("PostFile(delivery %d) refused", di))
				continue
			}
			var resp fttypes.MsgPostFileResponse
			if err := resp.Unmarshal(res.Data); err != nil {
				return fmt.Errorf("C20: cannot decode PostFile response: %v", err)
			}
			want := fttypes.MerklePath(d.parent + "/" + d.child)
			desc := map[string]interface{}{"parent": d.parent, "child_hex": hex.EncodeToString([]byte(d.child)), "delivery": di, "got": resp.Path, "want": want}
			if resp.Path != want {
				r.Finding("C20/postfile-path", "MsgPostFileResponse.Path differs from MerklePath(parent/child)", desc)
			}
			if f, found := e.App.FileTreeKeeper.GetFiles(e.Ctx, want, ftkeeper.MakeOwnerAddress(want, acctHash)); !found || f.Contents != d.contents {
				r.Finding("C20/postfile-path", "posted file is not stored at MerklePath(parent/child)", desc)
			}
			r.Case("fn", fmt.Sprintf("Post %s %s %s", cStr(hp), cStr(hc), cStr(resp.Path)), map[string]interface{}{"fn": "PostFile", "child_hex": hex.EncodeToString([]byte(d.child)), "got": resp.Path})
			r.Hist("ops", fmt.Sprintf("PostFile(delivery %d)", di))
		}
		r.Count("post:"+child, true)
	}
	return nil
}
