package main

import (
	"fmt"
	"math/big"

	sdk "github.com/cosmos/cosmos-sdk/types"
)

// AddDecCases validates Base/Dec.v against the real sdk.Dec on random and boundary operands.
func AddDecCases(r *RunCtx, n int) {
	r.Group("dec", "From JK Require Import Corr.DecCorr.", "dec_case", "dec_ok")
	p := r.Rng.Fork()
	raw := func() *big.Int {
		var v *big.Int
		switch p.Intn(8) {
		case 0:
			v = big.NewInt(int64(p.Intn(5)))
		case 1: // exact half boundaries x.5e-18 after a division are produced by odd multiples
			v = new(big.Int).Mul(big.NewInt(int64(p.Intn(1000))), big.NewInt(500000000000000000))
		case 2:
			v = new(big.Int).SetUint64(p.U64() >> uint(p.Intn(60)))
		case 3:
			v = new(big.Int).Mul(new(big.Int).SetUint64(p.U64()>>1), new(big.Int).SetUint64(p.U64()>>uint(20+p.Intn(40))))
		default:
			v = new(big.Int).Mul(big.NewInt(p.I64n(1_000_000_000)), new(big.Int).Exp(big.NewInt(10), big.NewInt(int64(p.Intn(19))), nil))
		}
		if p.Chance(1, 4) {
			v.Neg(v)
		}
		return v
	}
	mk := func(v *big.Int) sdk.Dec { return sdk.NewDecFromBigIntWithPrec(new(big.Int).Set(v), 18) }
	for i := 0; i < n; i++ {
		a, b := raw(), raw()
		da, db := mk(a), mk(b)
		switch p.Intn(6) {
		case 0:
			if b.Sign() == 0 {
				continue
			}
			res := da.Quo(db).BigInt()
			r.Case("dec", fmt.Sprintf("DQuo %s %s %s", cZbig(a), cZbig(b), cZbig(res)), map[string]string{"op": "Quo", "a": a.String(), "b": b.String()})
		case 1:
			res := da.Mul(db).BigInt()
			r.Case("dec", fmt.Sprintf("DMul %s %s %s", cZbig(a), cZbig(b), cZbig(res)), map[string]string{"op": "Mul", "a": a.String(), "b": b.String()})
		case 2:
			k := int64(p.U64()>>uint(1+p.Intn(62))) + 1
			if p.Chance(1, 5) {
				k = -k
			}
			res := da.QuoInt64(k).BigInt()
			r.Case("dec", fmt.Sprintf("DQuoInt %s %s %s", cZbig(a), cZ(k), cZbig(res)), map[string]string{"op": "QuoInt64", "a": a.String(), "n": fmt.Sprint(k)})
		case 3:
			k := int64(p.U64() >> uint(1+p.Intn(62)))
			if p.Chance(1, 5) {
				k = -k
			}
			res := da.MulInt64(k).BigInt()
			r.Case("dec", fmt.Sprintf("DMulInt %s %s %s", cZbig(a), cZ(k), cZbig(res)), map[string]string{"op": "MulInt64", "a": a.String(), "n": fmt.Sprint(k)})
		case 4:
			res := da.TruncateInt().BigInt()
			r.Case("dec", fmt.Sprintf("DTrunc %s %s", cZbig(a), cZbig(res)), map[string]string{"op": "TruncateInt", "a": a.String()})
		case 5:
			x, y := int64(p.U64()), int64(p.U64()>>uint(p.Intn(64)))
			prod := new(big.Int).Mul(big.NewInt(x), big.NewInt(y))
			r.Case("dec", fmt.Sprintf("DWrap %s %s", cZbig(prod), cZ(x*y)), map[string]string{"op": "int64 mul wrap", "x": fmt.Sprint(x), "y": fmt.Sprint(y)})
		}
		r.Count(fmt.Sprintf("dec:%s:%s:%d", a, b, i), a.Sign() != 0)
		r.Hist("dec_ops", "case")
	}
}
