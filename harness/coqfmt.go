package main

import (
	"fmt"
	"math/big"
	"strings"
)

// Printers of Coq terms.  Numbers are printed with explicit scopes so the generated
// files do not depend on which scope is open.

func cZ(v int64) string {
	if v < 0 {
		return fmt.Sprintf("(%d)%%Z", v)
	}
	return fmt.Sprintf("%d%%Z", v)
}

func cZbig(v *big.Int) string {
	if v.Sign() < 0 {
		return fmt.Sprintf("(%s)%%Z", v.String())
	}
	return fmt.Sprintf("%s%%Z", v.String())
}

func cN(v uint64) string { return fmt.Sprintf("%d%%N", v) }

func cBool(b bool) string {
	if b {
		return "true"
	}
	return "false"
}

func cList(items []string) string { return "[" + strings.Join(items, "; ") + "]" }

// cBytes prints a byte string as a list N (in N_scope via %N on the list).
func cBytes(b []byte) string {
	if len(b) == 0 {
		return "(@nil N)"
	}
	parts := make([]string, len(b))
	for i, x := range b {
		parts[i] = fmt.Sprintf("%d", x)
	}
	return "[" + strings.Join(parts, ";") + "]%N"
}

func cStr(s string) string { return cBytes([]byte(s)) }

func cOpt(present bool, v string) string {
	if !present {
		return "None"
	}
	return "(Some " + v + ")"
}

func cPair(a, b string) string { return "(" + a + ", " + b + ")" }
