package main

// Persisted-state twin over three stores at once: corpus/persisted/chain.json holds the raw content of the storage,
// bank and auth stores of one chain as the release this work started from wrote them (made once by
// `harness chain-snapshot`): live payment gauges with their escrow accounts, providers with the collateral they
// locked at two different prices, and the escrow of that collateral.  A run loads those bytes into a fresh app built
// from the tree under test, runs the modules' migrations from the recorded consensus versions, and lets the chain go on:
//
//   C12  reward blocks at irregular times release from every carried-over gauge exactly the elapsed fraction of what
//        was deposited (measured at the account that held the deposit when the old binary stopped), and no gauge is
//        dropped while it still holds tokens inside its schedule;
//   C15  the escrow the new binary pays from holds what the carried-over collateral records sum to, and every
//        carried-over provider that shuts down gets back exactly what its record says, once.
//
// Monitors only.  What is recorded beside the raw bytes (addresses, amounts) was observed on the old binary; nothing of
// it is recomputed with the code under test.

import (
	"encoding/hex"
	"encoding/json"
	"fmt"
	"math/big"
	"os"
	"path/filepath"
	"time"

	sdk "github.com/cosmos/cosmos-sdk/types"
	"github.com/cosmos/cosmos-sdk/types/module"
	authtypes "github.com/cosmos/cosmos-sdk/x/auth/types"
	banktypes "github.com/cosmos/cosmos-sdk/x/bank/types"
	paramstypes "github.com/cosmos/cosmos-sdk/x/params/types"
	storagetypes "github.com/jackalLabs/canine-chain/v4/x/storage/types"
)

type chainGauge struct {
	IDHex   string `json:"id_hex"`
	Account string `json:"escrow_account_hex"`
	Start   string `json:"start"`
	End     string `json:"end"`
	Deposit string `json:"deposit_ujkl"`
}

type chainProvider struct {
	Address    string `json:"address"`
	Collateral int64  `json:"collateral_ujkl"`
}

type chainSnapshot struct {
	What      string                 `json:"what"`
	Height    int64                  `json:"height"`
	Time      string                 `json:"time"`
	Stores    map[string][][2]string `json:"stores_hex"`
	Gauges    []chainGauge           `json:"gauges"`
	Providers []chainProvider        `json:"providers"`
	Escrow    string                 `json:"collateral_escrow_hex"`
	EscrowBal int64                  `json:"collateral_escrow_ujkl"`
}

var chainStores = []string{storagetypes.StoreKey, banktypes.StoreKey, authtypes.StoreKey, paramstypes.StoreKey}

func chainMakeSnapshotTo(path string) error {
	e, err := NewEnv()
	if err != nil {
		return err
	}
	defer e.Close()
	e.NoGhost = true
	for i := 1; i <= 9; i++ {
		if err := e.Fund(Acct(i), "ujkl", 4_000_000_000_000_000); err != nil {
			return err
		}
	}
	now := T0.Add(3 * time.Hour)
	e.At(1203, now)
	must := func(what string, m sdk.Msg) error {
		if res := e.Run(m); res.Out != OutOk {
			return fmt.Errorf("%s: %s %s", what, res.Out, res.Err)
		}
		return nil
	}
	// two providers lock the collateral at the configured price, a third after governance raised it
	p := StorageParams(e)
	for i := 1; i <= 2; i++ {
		if err := must("InitProvider", &storagetypes.MsgInitProvider{Creator: Acct(i).String(), Ip: fmt.Sprintf("https://p%d.example.com", i), Keybase: "", TotalSpace: 1_000_000_000_000}); err != nil {
			return err
		}
	}
	p.CollateralPrice += 2_500_000_000
	GovSetStorageParams(e, p)
	if err := must("InitProvider", &storagetypes.MsgInitProvider{Creator: Acct(3).String(), Ip: "https://p3.example.com", Keybase: "", TotalSpace: 77}); err != nil {
		return err
	}
	// gauges: two plans of different length, a pay-once file
	if err := must("BuyStorage", &storagetypes.MsgBuyStorage{Creator: Acct(4).String(), ForAddress: Acct(4).String(), DurationDays: 30, Bytes: 3_000_000_000, PaymentDenom: "ujkl"}); err != nil {
		return err
	}
	e.At(1204, now.Add(6*time.Second))
	if err := must("BuyStorage", &storagetypes.MsgBuyStorage{Creator: Acct(5).String(), ForAddress: Acct(6).String(), DurationDays: 365, Bytes: 1_000_000_000_000, PaymentDenom: "ujkl"}); err != nil {
		return err
	}
	e.At(1205, now.Add(12*time.Second))
	if err := must("PostFile", &storagetypes.MsgPostFile{Creator: Acct(7).String(), Merkle: []byte("persisted-chain-file-0000000000000000000000000000000000000000000"), FileSize: 5_000_000_000_000, ProofInterval: 50, ProofType: 0, MaxProofs: 3, Expires: 1205 + 14400*30, Note: "{}"}); err != nil {
		return err
	}
	snap := chainSnapshot{What: "raw storage, bank, auth and params stores of a chain with three providers (collateral locked at two prices) and three live payment gauges, written by the release this work started from",
		Height: e.Height, Time: e.Ctx.BlockTime().UTC().Format(time.RFC3339Nano), Stores: map[string][][2]string{}}
	for _, s := range chainStores {
		for _, kv := range mustDump(e, s) {
			snap.Stores[s] = append(snap.Stores[s], [2]string{hex.EncodeToString(kv.K), hex.EncodeToString(kv.V)})
		}
	}
	for _, g := range e.App.StorageKeeper.GetAllPaymentGauges(e.Ctx) {
		acct, err := storagetypes.GetGaugeAccount(g)
		if err != nil {
			return err
		}
		snap.Gauges = append(snap.Gauges, chainGauge{IDHex: hex.EncodeToString(g.Id), Account: hex.EncodeToString(acct), Start: g.Start.UTC().Format(time.RFC3339Nano), End: g.End.UTC().Format(time.RFC3339Nano),
			Deposit: e.App.BankKeeper.GetBalance(e.Ctx, acct, "ujkl").Amount.String()})
	}
	for _, c := range e.App.StorageKeeper.GetAllCollateral(e.Ctx) {
		snap.Providers = append(snap.Providers, chainProvider{Address: c.Address, Collateral: c.Amount})
	}
	esc := e.ModAddr(storagetypes.CollateralCollectorName)
	snap.Escrow, snap.EscrowBal = hex.EncodeToString(esc), e.Bal(esc, "ujkl")
	if len(snap.Gauges) != 3 || len(snap.Providers) != 3 {
		return fmt.Errorf("snapshot: %d gauges, %d providers", len(snap.Gauges), len(snap.Providers))
	}
	js, _ := json.Marshal(snap)
	return os.WriteFile(path, js, 0o644)
}

// chainLoad: a fresh app whose storage, bank and auth stores are the recorded bytes, after the migrations.
func chainLoad(r *RunCtx, sig string) (*Env, *chainSnapshot, []interface{}, error) {
	raw, err := os.ReadFile(filepath.Join(c19VerifRoot(), "corpus", "persisted", "chain.json"))
	if err != nil {
		return nil, nil, nil, fmt.Errorf("persisted chain: %w", err)
	}
	var snap chainSnapshot
	if err := json.Unmarshal(raw, &snap); err != nil {
		return nil, nil, nil, err
	}
	e, err := NewEnv()
	if err != nil {
		return nil, nil, nil, err
	}
	e.NoGhost = true
	t0, _ := time.Parse(time.RFC3339Nano, snap.Time)
	e.At(snap.Height, t0)
	n := 0
	for _, s := range chainStores {
		st := e.Ctx.KVStore(c19StoreKey(e, s))
		for _, kv := range mustDump(e, s) {
			st.Delete(kv.K)
		}
		for _, kv := range snap.Stores[s] {
			k, _ := hex.DecodeString(kv[0])
			v, _ := hex.DecodeString(kv[1])
			st.Set(k, v)
			n++
		}
	}
	trace := []interface{}{map[string]interface{}{"op": "load the storage, bank, auth and params stores written by the earlier release", "records": n, "height": snap.Height, "time": snap.Time}}
	mm, cfg, _ := c13AppInternals(e)
	rawVM, err := os.ReadFile(filepath.Join(c19VerifRoot(), "corpus", "C13", "module_versions.json"))
	if err != nil {
		e.Close()
		return nil, nil, nil, err
	}
	recorded := module.VersionMap{}
	if err := json.Unmarshal(rawVM, &recorded); err != nil {
		e.Close()
		return nil, nil, nil, err
	}
	from := module.VersionMap{}
	for name, v := range mm.GetVersionMap() {
		from[name] = v
		if rv, ok := recorded[name]; ok && rv < v {
			from[name] = rv
		}
	}
	var merr error
	if pn := Guard(func() { _, merr = mm.RunMigrations(e.Ctx, cfg, from) }); pn != "" || merr != nil {
		r.Finding(sig+"/persisted/migration-failed", fmt.Sprintf("the migrations from the recorded versions fail on the stores the earlier release wrote: %s %v", pn, merr), map[string]interface{}{"trace": trace})
		e.Close()
		return nil, nil, nil, nil
	}
	return e, &snap, trace, nil
}

func usBetween(a, b time.Time) *big.Int { // whole microseconds between two instants, without time.Duration
	f := func(t time.Time) *big.Int {
		return new(big.Int).Add(new(big.Int).Mul(big.NewInt(t.Unix()), big.NewInt(1_000_000)), big.NewInt(int64(t.Nanosecond()/1000)))
	}
	return new(big.Int).Sub(f(b), f(a))
}

func c12PersistedChainTwin(r *RunCtx) error {
	e, snap, trace, err := chainLoad(r, "C12")
	if err != nil || e == nil {
		return err
	}
	defer e.Close()
	t0, _ := time.Parse(time.RFC3339Nano, snap.Time)
	h := snap.Height
	for _, dt := range []time.Duration{10 * time.Minute, 25 * time.Hour, 25 * time.Hour, 20 * 24 * time.Hour, 29 * 24 * time.Hour, 200 * 24 * time.Hour} {
		h = (h/100 + 1) * 100
		now := t0.Add(dt)
		e.At(h, now)
		pn := Guard(func() { e.App.StorageKeeper.RunRewardBlock(e.Ctx) })
		trace = append(trace, map[string]interface{}{"op": "RunRewardBlock", "height": h, "time": now.UTC().Format(time.RFC3339Nano), "panic": pn})
		if pn != "" {
			r.Finding("C12/reward/panic", "RunRewardBlock panicked on the gauges the earlier release opened: "+pn, map[string]interface{}{"trace": trace})
			return nil
		}
		for _, g := range snap.Gauges {
			acct, _ := hex.DecodeString(g.Account)
			start, _ := time.Parse(time.RFC3339Nano, g.Start)
			end, _ := time.Parse(time.RFC3339Nano, g.End)
			deposit, _ := new(big.Int).SetString(g.Deposit, 10)
			totalUs, elapsed := usBetween(start, end), usBetween(start, now)
			if totalUs.Sign() <= 0 || elapsed.Cmp(totalUs) > 0 || elapsed.Sign() < 0 {
				continue // past the end nothing more is due (the property's last clause); judged inside the schedule only
			}
			want := new(big.Int).Div(new(big.Int).Mul(deposit, elapsed), totalUs)
			left := e.App.BankKeeper.GetBalance(e.Ctx, sdk.AccAddress(acct), "ujkl").Amount.BigInt()
			released := new(big.Int).Sub(deposit, left)
			r.Count(fmt.Sprintf("persisted-chain:gauge:%s:%s", g.IDHex[:8], dt), released.Sign() > 0)
			if new(big.Int).Sub(released, want).CmpAbs(big.NewInt(1)) > 0 {
				r.Finding("C12/reward/not-pro-rata", fmt.Sprintf("a gauge the earlier release opened (deposit %s ujkl, %s .. %s) has released %s after %s of the new binary's reward blocks; the elapsed fraction gives %s", g.Deposit, g.Start, g.End, released, dt, want),
					map[string]interface{}{"trace": trace, "gauge": g})
				return nil
			}
		}
	}
	r.Hist("persisted-state", "chain: carried-over gauges stream pro rata")
	return nil
}

func c15PersistedChainTwin(r *RunCtx) error {
	e, snap, trace, err := chainLoad(r, "C15")
	if err != nil || e == nil {
		return err
	}
	defer e.Close()
	// the escrow the new binary pays from backs the carried-over records
	sum := int64(0)
	seen := map[string]int64{}
	for _, c := range e.App.StorageKeeper.GetAllCollateral(e.Ctx) {
		sum += c.Amount
		seen[c.Address] = c.Amount
	}
	for _, p := range snap.Providers {
		if seen[p.Address] != p.Collateral {
			r.Finding("C15/persisted/records-unreachable", fmt.Sprintf("the collateral record of %s (%d ujkl, written by the earlier release) reads %d on the new binary", p.Address, p.Collateral, seen[p.Address]), map[string]interface{}{"trace": trace})
			return nil
		}
	}
	esc := e.ModAddr(storagetypes.CollateralCollectorName)
	if bal := e.Bal(esc, "ujkl"); bal < sum {
		r.Finding("C15/not-backed", fmt.Sprintf("after loading the stores the earlier release wrote, the collateral escrow the new binary pays from holds %d ujkl while the collateral records sum to %d (the earlier release held %d in its escrow)", bal, sum, snap.EscrowBal),
			map[string]interface{}{"trace": trace})
		return nil
	}
	e.At(snap.Height+1, e.Ctx.BlockTime().Add(6*time.Second))
	for _, p := range snap.Providers {
		a, aerr := sdk.AccAddressFromBech32(p.Address)
		if aerr != nil {
			continue
		}
		b0, e0 := e.Bal(a, "ujkl"), e.Bal(esc, "ujkl")
		res := e.Run(&storagetypes.MsgShutdownProvider{Creator: p.Address})
		trace = append(trace, map[string]interface{}{"op": "ShutdownProvider", "creator": p.Address, "out": res.Out, "err": res.Err})
		got, paid := e.Bal(a, "ujkl")-b0, e0-e.Bal(esc, "ujkl")
		r.Count("persisted-chain:shutdown:"+p.Address, res.Out == OutOk)
		if res.Out != OutOk || got != p.Collateral || paid != p.Collateral {
			r.Finding("C15/persisted/not-returned", fmt.Sprintf("a provider the earlier release registered (collateral %d ujkl) shuts down on the new binary: outcome %s, it receives %d, the escrow pays %d", p.Collateral, res.Out, got, paid),
				map[string]interface{}{"trace": trace})
			return nil
		}
		res2 := e.Run(&storagetypes.MsgShutdownProvider{Creator: p.Address})
		if e.Bal(a, "ujkl")-b0 != p.Collateral {
			r.Finding("C15/persisted/returned-twice", fmt.Sprintf("a second ShutdownProvider (%s) changed the balance of a carried-over provider again", res2.Out), map[string]interface{}{"trace": trace})
			return nil
		}
	}
	r.Hist("persisted-state", "chain: carried-over collateral is backed and returned once")
	return nil
}
