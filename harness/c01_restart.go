package main

// C01, restart twin: a prover "stays credited as a prover of a stored file only by submitting a Merkle proof … (or by
// a completed attestation quorum)".  A network restart from an exported genesis is no proof: a prover whose last
// accepted proof lies before the window a reward block judges must not be paid by that block on the restarted chain
// either, and no proof record may come out of the export/import fresher than it went in.  (On this tree proof records
// do not survive the export at all — the open C19 finding — so nobody is paid right after a restart; the twin only
// demands that nobody is paid WITHOUT a proof in the judged window.)  Monitors only: the restarted state is outside
// the C17 invariant the model's correspondence cases assume.

import (
	"fmt"
	"time"

	sdk "github.com/cosmos/cosmos-sdk/types"
	storagetypes "github.com/jackalLabs/canine-chain/v4/x/storage/types"
)

func c01RestartTwin(r *RunCtx) error {
	for variant := 0; variant < 2; variant++ {
		e, err := NewEnv()
		if err != nil {
			return err
		}
		pr := StorageParams(e) // defaults: ProofWindow 50, CheckWindow 100
		owner, stale, fresh := Acct(1), Acct(11), Acct(12)
		_ = e.Fund(owner, "ujkl", 50_000_000_000)
		trace := []interface{}{}
		run := func(h int64, what string, m sdk.Msg) string {
			e.At(h, T0.Add(timeOf(h)))
			res := e.Run(m)
			trace = append(trace, map[string]interface{}{"height": h, "msg": what, "out": res.Out, "err": res.Err})
			return res.Out
		}
		if run(80, "BuyStorage", &storagetypes.MsgBuyStorage{Creator: owner.String(), ForAddress: owner.String(), DurationDays: 30, Bytes: 5_000_000_000_000, PaymentDenom: "ujkl"}) != OutOk {
			e.Close()
			return fmt.Errorf("C01 restart twin: BuyStorage failed")
		}
		data := []byte(fmt.Sprintf("restart-twin-file-%d", variant))
		root, item, pj := c05OneChunkFile(data)
		if run(90, "PostFile", &storagetypes.MsgPostFile{Creator: owner.String(), Merkle: root, FileSize: int64(len(data)), MaxProofs: 3, Note: "{}"}) != OutOk {
			e.Close()
			return fmt.Errorf("C01 restart twin: PostFile failed")
		}
		proof := func(who sdk.AccAddress) sdk.Msg {
			return &storagetypes.MsgPostProof{Creator: who.String(), Item: item, HashList: pj, Merkle: root, Owner: owner.String(), Start: 90, ToProve: 0}
		}
		lastValid := map[string]int64{}
		prove := func(h int64, who sdk.AccAddress) {
			if run(h, "PostProof by "+who.String(), proof(who)) == OutOk {
				if f, ok := e.App.StorageKeeper.GetFile(e.Ctx, root, owner.String(), 90); ok && f.ContainsProver(who.String()) {
					if rec, ok := e.App.StorageKeeper.GetProof(e.Ctx, who.String(), root, owner.String(), 90); ok && rec.LastProven == h {
						lastValid[who.String()] = h
					}
				}
			}
		}
		prove(101, stale) // joins, then goes silent
		prove(101, fresh)
		prove(160, fresh) // keeps proving
		exportAt := int64(190)
		if variant == 1 {
			exportAt = 199
		}
		e.At(exportAt, T0.Add(timeOf(exportAt)))
		before := map[string]int64{}
		for _, p := range e.App.StorageKeeper.GetAllProofs(e.Ctx) {
			before[string(storagetypes.ProofKey(p.Prover, p.Merkle, p.Owner, p.Start))] = p.LastProven
		}
		// ---- restart: bank balances and the storage module's own genesis
		nxt, err := NewEnv()
		if err != nil {
			e.Close()
			return err
		}
		nxt.At(exportAt, T0.Add(timeOf(exportAt)))
		pn := Guard(func() {
			nxt.App.BankKeeper.InitGenesis(nxt.Ctx, e.App.BankKeeper.ExportGenesis(e.Ctx))
			for _, m := range c19Modules() {
				if m.Name != "storage" {
					continue
				}
				for _, kv := range mustDump(nxt, m.StoreKey) {
					nxt.Ctx.KVStore(c19StoreKey(nxt, m.StoreKey)).Delete(kv.K)
				}
				if ierr := m.Import(nxt, m.Export(e)); ierr != nil {
					panic(ierr)
				}
			}
		})
		e.Close()
		e = nxt
		trace = append(trace, map[string]interface{}{"height": exportAt, "msg": "restart from the exported genesis", "panic": pn})
		if pn != "" {
			r.Finding("C01/restart/import-failed", "the storage module cannot be restarted from its own export: "+pn, map[string]interface{}{"trace": trace})
			e.Close()
			continue
		}
		for _, p := range e.App.StorageKeeper.GetAllProofs(e.Ctx) {
			key := string(storagetypes.ProofKey(p.Prover, p.Merkle, p.Owner, p.Start))
			if was, ok := before[key]; !ok || p.LastProven > was {
				r.Finding("C01/restart/proof-record-fresher-than-exported", fmt.Sprintf("after the restart the proof record %q says LastProven %d; before the export it said %d (present: %v): a record was refreshed by no proof and no attestation", key, p.LastProven, was, ok), map[string]interface{}{"trace": trace})
			}
		}
		// ---- the next reward block judges the window [150, 200): only a prover with a proof accepted in it may be paid
		bal := map[string]int64{stale.String(): e.Bal(stale, "ujkl"), fresh.String(): e.Bal(fresh, "ujkl")}
		e.At(200, T0.Add(timeOf(200)))
		if pn := Guard(func() { e.App.StorageKeeper.RunRewardBlock(e.Ctx) }); pn != "" {
			r.Finding("C01/restart/reward-block-panic", "the first reward block after the restart panicked: "+pn, map[string]interface{}{"trace": trace})
		}
		interval := pr.ProofWindow
		k := 200 - int64(90)
		bound := 200 - k%interval - interval // file.ProvenLastBlock: LastProven >= start of the last closed window
		for _, who := range []sdk.AccAddress{stale, fresh} {
			got := e.Bal(who, "ujkl") - bal[who.String()]
			r.Hist("restart-twin", fmt.Sprintf("variant %d: %s paid=%v", variant, map[bool]string{true: "stale prover", false: "proving prover"}[who.Equals(stale)], got > 0))
			if got > 0 && lastValid[who.String()] < bound {
				r.Finding("C01/restart/paid-without-proof-in-the-judged-window", fmt.Sprintf("%s was paid %d at reward block 200 after a restart from the exported genesis; its last accepted proof is at height %d, the window judged starts at %d, and no attestation refreshed it", who, got, lastValid[who.String()], bound), map[string]interface{}{"trace": trace})
			}
		}
		r.Count(fmt.Sprintf("restart-twin:%d", variant), true)
		e.Close()
	}
	return nil
}

func timeOf(h int64) (d time.Duration) { return time.Duration(h) * 6 * time.Second }
