package main

// C01, upgrade twin: a software upgrade is no proof either.  Every upgrade handler the assembled app registers
// (app/upgrades.go; found by asking the upgrade keeper for the names of the directories under app/upgrades of the tree
// the harness was built against) is applied to a chain on which one prover keeps proving and another went silent after
// its first proof: no proof record may come out of a handler fresher than it went in, and the next reward block must
// not pay the silent prover.  Handlers that fail or panic on this state (they expect data of their own release) are
// recorded and skipped.  Monitors only.

import (
	"fmt"
	"os"
	"path/filepath"
	"sort"

	sdk "github.com/cosmos/cosmos-sdk/types"
	upgradetypes "github.com/cosmos/cosmos-sdk/x/upgrade/types"
	storagetypes "github.com/jackalLabs/canine-chain/v4/x/storage/types"
)

func c01UpgradeNames() []string {
	repo := os.Getenv("VERIF_REPO")
	if repo == "" {
		repo = "/repo"
	}
	ents, err := os.ReadDir(filepath.Join(repo, "app", "upgrades"))
	if err != nil {
		return nil
	}
	var names []string
	for _, en := range ents {
		if en.IsDir() {
			names = append(names, en.Name())
		}
	}
	sort.Strings(names)
	return names
}

func c01UpgradeTwin(r *RunCtx) error {
	for _, name := range c01UpgradeNames() {
		e, err := NewEnv()
		if err != nil {
			return err
		}
		_, _, uk := c13AppInternals(e)
		if !uk.HasHandler(name) {
			e.Close()
			continue
		}
		owner, stale, fresh := Acct(1), Acct(11), Acct(12)
		_ = e.Fund(owner, "ujkl", 50_000_000_000)
		trace := []interface{}{}
		run := func(h int64, what string, m sdk.Msg) string {
			e.At(h, T0.Add(timeOf(h)))
			res := e.Run(m)
			trace = append(trace, map[string]interface{}{"height": h, "msg": what, "out": res.Out, "err": res.Err})
			return res.Out
		}
		if run(5, "BuyStorage", &storagetypes.MsgBuyStorage{Creator: owner.String(), ForAddress: owner.String(), DurationDays: 30, Bytes: 5_000_000_000_000, PaymentDenom: "ujkl"}) != OutOk {
			e.Close()
			return fmt.Errorf("C01 upgrade twin: BuyStorage failed")
		}
		data := []byte("upgrade-twin-file-" + name)
		root, item, pj := c05OneChunkFile(data)
		if run(10, "PostFile", &storagetypes.MsgPostFile{Creator: owner.String(), Merkle: root, FileSize: int64(len(data)), MaxProofs: 3, Note: "{}"}) != OutOk {
			e.Close()
			return fmt.Errorf("C01 upgrade twin: PostFile failed")
		}
		proof := func(who sdk.AccAddress) sdk.Msg {
			return &storagetypes.MsgPostProof{Creator: who.String(), Item: item, HashList: pj, Merkle: root, Owner: owner.String(), Start: 10, ToProve: 0}
		}
		run(12, "PostProof (joins, then silent)", proof(stale))
		for _, h := range []int64{12, 60, 110} {
			run(h, "PostProof (keeps proving)", proof(fresh))
		}
		e.At(100, T0.Add(timeOf(100)))
		_ = Guard(func() { e.App.StorageKeeper.RunRewardBlock(e.Ctx) })
		before := map[string]int64{}
		e.At(150, T0.Add(timeOf(150)))
		for _, p := range e.App.StorageKeeper.GetAllProofs(e.Ctx) {
			before[string(storagetypes.ProofKey(p.Prover, p.Merkle, p.Owner, p.Start))] = p.LastProven
		}
		staleListed := false
		if f, ok := e.App.StorageKeeper.GetFile(e.Ctx, root, owner.String(), 10); ok {
			staleListed = f.ContainsProver(stale.String())
		}
		// the handler, as x/upgrade applies it at the upgrade height (on a branch: a failing handler halts a real chain)
		cctx, write := e.Ctx.CacheContext()
		var herr string
		pn := Guard(func() {
			defer func() {
				if x := recover(); x != nil {
					herr = fmt.Sprint(x)
				}
			}()
			uk.ApplyUpgrade(cctx, upgradetypes.Plan{Name: name, Height: 150})
		})
		trace = append(trace, map[string]interface{}{"height": 150, "msg": "upgrade handler " + name, "panic": pn + herr, "stale_prover_listed_before": staleListed})
		if pn != "" || herr != "" {
			r.Hist("upgrade-twin", name+": handler does not run on this state")
			e.Close()
			continue
		}
		write()
		for _, p := range e.App.StorageKeeper.GetAllProofs(e.Ctx) {
			key := string(storagetypes.ProofKey(p.Prover, p.Merkle, p.Owner, p.Start))
			if was, ok := before[key]; ok && p.LastProven > was {
				r.Finding("C01/upgrade/proof-record-fresher-than-before", fmt.Sprintf("the upgrade handler %s moved LastProven of %q from %d to %d: a record was refreshed by no proof and no attestation", name, key, was, p.LastProven), map[string]interface{}{"trace": trace})
			}
		}
		bal := e.Bal(stale, "ujkl")
		e.At(200, T0.Add(timeOf(200)))
		if pn := Guard(func() { e.App.StorageKeeper.RunRewardBlock(e.Ctx) }); pn != "" {
			r.Finding("C01/upgrade/reward-block-panic", "the first reward block after the upgrade handler "+name+" panicked: "+pn, map[string]interface{}{"trace": trace})
		}
		if got := e.Bal(stale, "ujkl") - bal; got > 0 {
			r.Finding("C01/upgrade/paid-without-proof-in-the-judged-window", fmt.Sprintf("%s, whose only accepted proof is at height 12, was paid %d at reward block 200 after the upgrade handler %s ran at 150", stale, got, name), map[string]interface{}{"trace": trace})
		}
		r.Count("upgrade-twin:"+name, true)
		r.Hist("upgrade-twin", name+": handler applied")
		e.Close()
	}
	return nil
}
