package main

// C13, persisted-state twin: "the emission is never larger than the previous block's" also for the first block a new
// binary produces over the store an earlier binary wrote.  corpus/C13/persisted_mint.json is the raw content of the
// jklmint store after a run of blocks as the release this work started from wrote it (made once by
// `harness c13-snapshot`).  Every run loads those bytes into a fresh app built from the tree under test, runs the
// modules' migrations from the recorded consensus versions, and goes on producing blocks: the first new block must
// continue the schedule from the last emission the old binary recorded.

import (
	"encoding/hex"
	"encoding/json"
	"fmt"
	"os"
	"path/filepath"

	"github.com/cosmos/cosmos-sdk/types/module"
	minttypes "github.com/jackalLabs/canine-chain/v4/x/jklmint/types"
)

type c13Snapshot struct {
	What         string      `json:"what"`
	Height       int64       `json:"height"`
	LastEmission int64       `json:"last_emission"`
	KV           [][2]string `json:"jklmint_store_hex"`
}

func c13MakeSnapshotTo(path string) error {
	e, err := NewEnv()
	if err != nil {
		return err
	}
	defer e.Close()
	e.NoGhost = true
	last := int64(0)
	for h := int64(2); h <= 41; h++ {
		e.At(h, T0.Add(timeOf(h)))
		s0 := e.Supply("ujkl")
		e.App.MintKeeper.BlockMint(e.Ctx)
		last = e.Supply("ujkl") - s0
	}
	snap := c13Snapshot{What: "raw jklmint store after BlockMint at heights 2..41 with the default parameters", Height: 41, LastEmission: last}
	for _, kv := range mustDump(e, minttypes.StoreKey) {
		snap.KV = append(snap.KV, [2]string{hex.EncodeToString(kv.K), hex.EncodeToString(kv.V)})
	}
	js, _ := json.MarshalIndent(snap, "", " ")
	return os.WriteFile(path, js, 0o644)
}

func c13PersistedTwin(r *RunCtx) error {
	raw, err := os.ReadFile(filepath.Join(c19VerifRoot(), "corpus", "C13", "persisted_mint.json"))
	if err != nil {
		return fmt.Errorf("C13: persisted state: %w", err)
	}
	var snap c13Snapshot
	if err := json.Unmarshal(raw, &snap); err != nil {
		return err
	}
	e, err := NewEnv()
	if err != nil {
		return err
	}
	defer e.Close()
	st := e.Ctx.KVStore(c19StoreKey(e, minttypes.StoreKey))
	for _, kv := range mustDump(e, minttypes.StoreKey) {
		st.Delete(kv.K)
	}
	for _, kv := range snap.KV {
		k, _ := hex.DecodeString(kv[0])
		v, _ := hex.DecodeString(kv[1])
		st.Set(k, v)
	}
	trace := []interface{}{map[string]interface{}{"op": "load the jklmint store written by the earlier release", "records": len(snap.KV), "height": snap.Height, "last_emission": snap.LastEmission}}
	mm, cfg, _ := c13AppInternals(e)
	rawVM, err := os.ReadFile(filepath.Join(c19VerifRoot(), "corpus", "C13", "module_versions.json"))
	if err != nil {
		return err
	}
	recorded := module.VersionMap{}
	if err := json.Unmarshal(rawVM, &recorded); err != nil {
		return err
	}
	from := module.VersionMap{}
	for name, v := range mm.GetVersionMap() {
		from[name] = v
		if rv, ok := recorded[name]; ok && rv < v {
			from[name] = rv
		}
	}
	e.At(snap.Height+1, T0.Add(timeOf(snap.Height+1)))
	var merr error
	if pn := Guard(func() { _, merr = mm.RunMigrations(e.Ctx, cfg, from) }); pn != "" || merr != nil {
		r.Finding("C13/persisted/migration-failed", fmt.Sprintf("the migrations from the recorded versions fail on the persisted state: %s %v", pn, merr), map[string]interface{}{"trace": trace})
		return nil
	}
	lastEm := snap.LastEmission
	for h := snap.Height + 1; h <= snap.Height+4; h++ {
		e.At(h, T0.Add(timeOf(h)))
		s0 := e.Supply("ujkl")
		pn := Guard(func() { e.App.MintKeeper.BlockMint(e.Ctx) })
		em := e.Supply("ujkl") - s0
		trace = append(trace, map[string]interface{}{"op": "BlockMint", "height": h, "emission": em, "panic": pn})
		bad := func(sig, what string) { r.Finding(sig, what, map[string]interface{}{"trace": trace}) }
		if pn != "" {
			bad("C13/persisted/panic", "BlockMint panicked on the persisted state: "+pn)
			return nil
		}
		if em < 0 || em > lastEm {
			bad("C13/emission-increased", fmt.Sprintf("emission %d at height %d, the block before (recorded by the earlier release or produced since) emitted %d", em, h, lastEm))
		}
		if mb, found := e.App.MintKeeper.GetMintedBlock(e.Ctx, h); !found || mb.Minted != em {
			bad("C13/record-mismatch", fmt.Sprintf("MintedBlock of block %d differs from the supply growth %d", h, em))
		}
		r.Case("mint", fmt.Sprintf("MintFn %s %s %s %s", cZ(lastEm), cZ(c13Bpy), cZ(minttypes.DefaultParams().MintDecrease), cZ(em)), map[string]interface{}{"persisted": true, "height": h})
		r.Count(fmt.Sprintf("persisted-mint:%d", h), true)
		lastEm = em
	}
	r.Hist("persisted-state", "schedule continued across the upgrade")
	return nil
}
