package main

// C02 — honest provers can always prove and are never dropped or burned.
// Function level: x/crypto/sha3, wealdtech/go-merkletree (NewUsing / GenerateProof /
// VerifyProofUsing), utils.BuildTree, UnifiedFile.{VerifyProof, ProvenLastBlock,
// ProvenThisBlock, IsYoung, ResetChunkWithProof}.
// History level: PostFile / InitProvider / PostProof / RunRewardBlock on the assembled app
// with (ProofWindow, CheckWindow, ChunkSize) varied through the params keeper; an honest
// prover following a one-proof-per-window schedule and a lazy prover that skips windows.

import (
	"bytes"
	"crypto/sha256"
	"encoding/hex"
	"encoding/json"
	"fmt"
	"strconv"
	"strings"

	sdk "github.com/cosmos/cosmos-sdk/types"
	tmrand "github.com/tendermint/tendermint/libs/rand"
	merkletree "github.com/wealdtech/go-merkletree/v2"
	mtsha3 "github.com/wealdtech/go-merkletree/v2/sha3"
	xsha3 "golang.org/x/crypto/sha3"

	storagetypes "github.com/jackalLabs/canine-chain/v4/x/storage/types"
	storageutils "github.com/jackalLabs/canine-chain/v4/x/storage/utils"
)

func init() { runners["C02"] = runC02 }

var c02FindingCount = map[string]int{}

// c02Finding reports a monitor failure, at most three per signature (one defect usually
// fires the same monitor on many inputs; keep room for the other monitors).
func c02Finding(r *RunCtx, sig, what string, replay interface{}) {
	c02FindingCount[sig]++
	if c02FindingCount[sig] <= 3 {
		r.Finding(sig, what, replay)
	}
}

func c02BytesList(l [][]byte) string {
	if len(l) == 0 {
		return "(@nil (list N))"
	}
	parts := make([]string, len(l))
	for i, b := range l {
		parts[i] = cBytes(b)
	}
	return "[" + strings.Join(parts, "; ") + "]"
}

func c02Hexes(l [][]byte) []string {
	out := make([]string, len(l))
	for i, b := range l {
		out[i] = hex.EncodeToString(b)
	}
	return out
}

// c02Decoded prints what json.Unmarshal(payload, &merkletree.Proof{}) yields (glue).
func c02Decoded(payload []byte) string {
	var pr merkletree.Proof
	if err := json.Unmarshal(payload, &pr); err != nil {
		return "None"
	}
	return "(Some (" + c02BytesList(pr.Hashes) + ", " + cN(pr.Index) + "))"
}

func c02OptZ(ok bool, v int64) string {
	if !ok {
		return "None"
	}
	return "(Some " + cZ(v) + ")"
}

func c02Verify(data []byte, hashes [][]byte, index uint64, root []byte) bool {
	ok, err := merkletree.VerifyProofUsing(data, false, &merkletree.Proof{Hashes: hashes, Index: index}, [][]byte{root}, mtsha3.New512())
	return err == nil && ok
}

// c02Draws reproduces the two candidate draws of ResetChunkWithProof for the block's seed
// (tendermint's Rand seeded with gasConsumed + height): Int63n(size/chunk) and Int63n(size/chunk-1).
func c02Draws(ctx sdk.Context, size, chunk int64) (int64, int64) {
	if chunk == 0 {
		return 0, 0
	}
	var gs int64
	if gm := ctx.BlockGasMeter(); gm != nil {
		gs = int64(gm.GasConsumed())
	}
	d := func(bound int64) int64 {
		if bound <= 0 {
			return 0
		}
		r := tmrand.NewRand()
		r.Seed(gs + ctx.BlockHeight())
		return r.Int63n(bound)
	}
	return d(size / chunk), d(size/chunk - 1)
}

func c02Ceil(size, chunk int64) int64 { return (size + chunk - 1) / chunk }

// ---------------------------------------------------------------- function level

func c02Hashes(r *RunCtx) {
	p := r.Rng
	lens := []int{0, 3, 64, 71, 72, 73, 128, 143, 144, 145}
	n := r.Scale(14, 80)
	for i := 0; i < n; i++ {
		var in []byte
		if i < len(lens) {
			in = p.Bytes(lens[i])
		} else {
			in = p.Bytes(p.Intn(300))
		}
		if i == 1 {
			in = []byte("abc")
		}
		d := xsha3.Sum512(in)
		r.Case("fn", fmt.Sprintf("Keccak %s %s", cBytes(in), cBytes(d[:])), map[string]interface{}{"fn": "sha3.Sum512", "in_hex": hex.EncodeToString(in)})
		r.Count("keccak:"+string(in), len(in) > 0)
		r.Hist("fn", "sha3-512")
	}
}

func c02Trees(r *RunCtx) error {
	p := r.Rng
	sizes := []int{1, 2, 3, 4, 5, 7, 8, 9}
	if r.Thorough() {
		sizes = []int{1, 2, 3, 4, 5, 6, 7, 8, 9, 10, 11, 12, 13, 15, 16, 17, 24, 31, 32, 33}
	}
	for _, n := range sizes {
		data := make([][]byte, n)
		for i := range data {
			switch p.Intn(8) {
			case 0:
				data[i] = p.Bytes(1 + p.Intn(5))
			case 1:
				data[i] = p.Bytes(60 + p.Intn(30))
			default:
				data[i] = p.Bytes(32)
			}
			data[i] = append(data[i], byte(i)) // distinct entries: GenerateProof looks data up by value
		}
		tree, err := merkletree.NewUsing(data, mtsha3.New512(), false)
		if err != nil {
			return fmt.Errorf("C02: NewUsing: %v", err)
		}
		root := tree.Root()
		desc := map[string]interface{}{"fn": "merkletree.NewUsing", "data_hex": c02Hexes(data)}
		if n <= 3 || (r.Thorough() && n%4 == 1) {
			r.Case("fn", fmt.Sprintf("TreeNodes %s %s", c02BytesList(data), c02BytesList(tree.Nodes[1:])), desc)
		} else {
			r.Case("fn", fmt.Sprintf("TreeRoot %s %s", c02BytesList(data), cBytes(root)), desc)
		}
		r.Count(fmt.Sprintf("tree:%d:%x", n, root[:4]), true)
		r.Hist("leaves", fmt.Sprint(n))
		idxs := []int{p.Intn(n), n - 1}
		if r.Thorough() {
			idxs = append(idxs, 0)
		}
		for k, i := range idxs {
			proof, err := tree.GenerateProof(data[i], 0)
			if err != nil {
				return fmt.Errorf("C02: GenerateProof: %v", err)
			}
			rep := map[string]interface{}{"fn": "GenerateProof/VerifyProofUsing", "data_hex": c02Hexes(data), "index": i}
			// ---- monitors: the library's own proof for an existing leaf is accepted
			if proof.Index != uint64(i) {
				c02Finding(r, "C02/merkle/proof-index", "GenerateProof returned a different index than the leaf asked for", rep)
			}
			if !c02Verify(data[i], proof.Hashes, proof.Index, root) {
				c02Finding(r, "C02/merkle/honest-proof-rejected", "VerifyProofUsing rejects the proof GenerateProof produced", rep)
			}
			if k == 0 || (r.Thorough() && k == 1 && n <= 17) {
				r.Case("fn", fmt.Sprintf("GenProof %s %s %s", c02BytesList(data), cN(uint64(i)), c02BytesList(proof.Hashes)), rep)
				r.Count(fmt.Sprintf("genproof:%d:%d:%x", n, i, root[:4]), true)
			}
			type variant struct {
				name   string
				data   []byte
				hashes [][]byte
				index  uint64
				root   []byte
			}
			L := uint(len(proof.Hashes))
			flip := func(b []byte) []byte {
				c := append([]byte{}, b...)
				if len(c) == 0 {
					return []byte{1}
				}
				c[p.Intn(len(c))] ^= 1 << uint(p.Intn(8))
				return c
			}
			vs := []variant{{"honest", data[i], proof.Hashes, proof.Index, root}}
			vs = append(vs, variant{"wrong-item", flip(data[i]), proof.Hashes, proof.Index, root})
			vs = append(vs, variant{"index+2^len", data[i], proof.Hashes, proof.Index + (1 << L), root})
			vs = append(vs, variant{"index+3*2^len", data[i], proof.Hashes, proof.Index + 3*(1<<L), root})
			vs = append(vs, variant{"index-high-bit", data[i], proof.Hashes, proof.Index | (1 << 63), root})
			vs = append(vs, variant{"index-max", data[i], proof.Hashes, ^uint64(0), root})
			vs = append(vs, variant{"wrong-root", data[i], proof.Hashes, proof.Index, flip(root)})
			vs = append(vs, variant{"short-root", data[i], proof.Hashes, proof.Index, root[:63]})
			if n > 1 {
				j := (i + 1 + p.Intn(n-1)) % n
				vs = append(vs, variant{"wrong-index", data[i], proof.Hashes, uint64(j), root})
				vs = append(vs, variant{"other-leaf", data[j], proof.Hashes, proof.Index, root})
				vs = append(vs, variant{"truncated-last", data[i], proof.Hashes[:L-1], proof.Index, root})
				vs = append(vs, variant{"truncated-first", data[i], proof.Hashes[1:], proof.Index, root})
				hs := append([][]byte{}, proof.Hashes...)
				hs[p.Intn(len(hs))] = flip(hs[p.Intn(len(hs))])
				vs = append(vs, variant{"flipped-hash", data[i], hs, proof.Index, root})
			}
			vs = append(vs, variant{"extended", data[i], append(append([][]byte{}, proof.Hashes...), p.Bytes(64)), proof.Index, root})
			vs = append(vs, variant{"empty-hash-entry", data[i], append(append([][]byte{}, proof.Hashes...), []byte{}), proof.Index, root})
			for vi, v := range vs {
				if !(r.Thorough() && k == 0) && vi > 0 && !p.Chance(1, 2) {
					continue
				}
				got := c02Verify(v.data, v.hashes, v.index, v.root)
				r.Case("fn", fmt.Sprintf("Verify %s %s %s %s %s", cBytes(v.root), cBytes(v.data), c02BytesList(v.hashes), cN(v.index), cBool(got)),
					map[string]interface{}{"fn": "VerifyProofUsing", "variant": v.name, "data_hex": hex.EncodeToString(v.data), "hashes_hex": c02Hexes(v.hashes), "index": v.index, "root_hex": hex.EncodeToString(v.root), "got": got})
				r.Count(fmt.Sprintf("verify:%d:%d:%s:%x", n, i, v.name, root[:4]), true)
				r.Hist("verify", fmt.Sprintf("%s=%v", v.name, got))
			}
		}
	}
	return nil
}

type c02File struct {
	data     []byte
	chunk    int64
	root     []byte
	chunks   [][]byte
	exported []byte
}

func c02MakeFile(data []byte, chunk int64) (*c02File, error) {
	root, exported, chunks, size, err := storageutils.BuildTree(bytes.NewReader(data), chunk)
	if err != nil {
		return nil, err
	}
	if size != len(data) {
		return nil, fmt.Errorf("BuildTree read %d of %d bytes", size, len(data))
	}
	return &c02File{data: data, chunk: chunk, root: root, chunks: chunks, exported: exported}, nil
}

// honestProof is what a provider holding the file does: load the exported tree, find the
// leaf of the challenged chunk and ask the library for its proof.
func (f *c02File) honestProof(i int64) (item []byte, payload []byte, err error) {
	if i < 0 || i >= int64(len(f.chunks)) {
		return nil, nil, fmt.Errorf("chunk %d does not exist (file has %d)", i, len(f.chunks))
	}
	var tree merkletree.MerkleTree
	if err := json.Unmarshal(f.exported, &tree); err != nil {
		return nil, nil, err
	}
	item = f.chunks[i]
	leaf := c02Leaf(i, item)
	proof, err := tree.GenerateProof(leaf, 0)
	if err != nil {
		return nil, nil, err
	}
	payload, err = json.Marshal(*proof)
	return item, payload, err
}

func c02Leaf(i int64, item []byte) []byte {
	h := sha256.Sum256([]byte(fmt.Sprintf("%d%x", i, item)))
	return h[:]
}

func c02Files(r *RunCtx) error {
	p := r.Rng
	type fs struct{ chunk, size int64 }
	var list []fs
	for _, c := range []int64{1, 3, 8} {
		for _, k := range []int64{1, 2, 3} {
			for _, d := range []int64{-1, 0, 1} {
				if s := c*k + d; s >= 1 && c02Ceil(s, c) <= 4 {
					list = append(list, fs{c, s})
				}
			}
		}
	}
	list = append(list, fs{5, 41}, fs{40, 100}, fs{2, 53}) // (27 chunks: indices whose decimal and hexadecimal spellings differ)
	if r.Thorough() {
		for _, n := range []int64{5, 6, 7, 8, 9, 12, 16, 17, 25, 32, 33} {
			c := int64(1 + p.Intn(12))
			list = append(list, fs{c, c*n - p.I64n(c)})
		}
		list = append(list, fs{1024, 2049}, fs{1024, 1024})
	}
	seen := map[string]bool{}
	for _, x := range list {
		key := fmt.Sprintf("%d/%d", x.chunk, x.size)
		if seen[key] {
			continue
		}
		seen[key] = true
		f, err := c02MakeFile(p.Bytes(int(x.size)), x.chunk)
		if err != nil {
			return fmt.Errorf("C02: BuildTree: %v", err)
		}
		n := int64(len(f.chunks))
		desc := map[string]interface{}{"fn": "BuildTree", "chunk": x.chunk, "file_hex": hex.EncodeToString(f.data)}
		r.Case("fn", fmt.Sprintf("NumChunks %s %s %s", cZ(x.size), cZ(x.chunk), cZ(n)), desc)
		r.Case("fn", fmt.Sprintf("FileRoot %s %s", c02BytesList(f.chunks), cBytes(f.root)), desc)
		r.Count("file:"+key, true)
		r.Hist("chunks", fmt.Sprint(n))
		uf := storagetypes.UnifiedFile{Merkle: f.root, FileSize: x.size}
		idxs := []int64{p.I64n(n)}
		if n > 17 {
			idxs = append(idxs, 10, 16, n-1)
		}
		if r.Thorough() {
			idxs = append(idxs, 0, n-1)
		}
		for _, i := range idxs {
			item, payload, err := f.honestProof(i)
			if err != nil {
				c02Finding(r, "C02/merkle/honest-proof-unavailable", "cannot derive a proof for an existing chunk: "+err.Error(), desc)
				continue
			}
			type variant struct {
				name    string
				chunk   int64
				item    []byte
				payload []byte
			}
			var pr merkletree.Proof
			_ = json.Unmarshal(payload, &pr)
			mk := func(h [][]byte, idx uint64) []byte {
				b, _ := json.Marshal(merkletree.Proof{Hashes: h, Index: idx})
				return b
			}
			vs := []variant{{"honest", i, item, payload},
				{"wrong-chunk", i + 1, item, payload},
				{"negative-chunk", -i - 1, item, payload},
				{"wrong-item", i, append(append([]byte{}, item...), 0), payload},
				{"garbage-json", i, item, []byte("{not json")},
				{"empty-payload", i, item, []byte{}},
				{"null-hashes", i, item, []byte(`{"Hashes":null,"Index":0}`)},
				{"wrong-proof-index", i, item, mk(pr.Hashes, pr.Index+1)},
				{"index+2^len", i, item, mk(pr.Hashes, pr.Index+(1<<uint(len(pr.Hashes))))},
			}
			if len(pr.Hashes) > 0 {
				vs = append(vs, variant{"truncated", i, item, mk(pr.Hashes[:len(pr.Hashes)-1], pr.Index)})
			}
			for vi, v := range vs {
				if !r.Thorough() && vi > 0 && !p.Chance(1, 2) {
					continue
				}
				got := uf.VerifyProof(v.payload, v.chunk, v.item)
				rep := map[string]interface{}{"fn": "UnifiedFile.VerifyProof", "variant": v.name, "chunk_size": x.chunk, "file_hex": hex.EncodeToString(f.data), "chunk": v.chunk, "item_hex": hex.EncodeToString(v.item), "payload": string(v.payload), "got": got}
				if v.name == "honest" && !got {
					c02Finding(r, "C02/merkle/honest-proof-rejected", "UnifiedFile.VerifyProof rejects the holder's proof for an existing chunk", rep)
				}
				r.Case("fn", fmt.Sprintf("FileVerify %s %s %s %s %s", cBytes(f.root), cZ(v.chunk), cBytes(v.item), c02Decoded(v.payload), cBool(got)), rep)
				r.Count(fmt.Sprintf("fverify:%s:%d:%s", key, i, v.name), true)
				r.Hist("fileverify", fmt.Sprintf("%s=%v", v.name, got))
			}
		}
	}
	return nil
}

func c02WinCode(start, pi, h, last int64) uint64 {
	f := storagetypes.UnifiedFile{Start: start, ProofInterval: pi}
	var a, b bool
	if pn := Guard(func() { a = f.ProvenLastBlock(h, last); b = f.ProvenThisBlock(h, last) }); pn != "" {
		return 8
	}
	var c uint64
	if a {
		c |= 1
	}
	if b {
		c |= 2
	}
	if f.IsYoung(h) {
		c |= 4
	}
	return c
}

func c02Windows(r *RunCtx) {
	p := r.Rng
	const n = 12
	for start := int64(0); start < n; start++ {
		for pi := int64(0); pi < n; pi++ {
			codes := make([]string, 0, n*n)
			for h := int64(0); h < n; h++ {
				for last := int64(0); last < n; last++ {
					codes = append(codes, cN(c02WinCode(start, pi, h, last)))
					r.Count(fmt.Sprintf("win:%d:%d:%d:%d", start, pi, h, last), pi > 0)
				}
			}
			r.Case("fn", fmt.Sprintf("WinGrid %s %s %s %s", cZ(start), cZ(pi), cZ(n), cList(codes)), map[string]interface{}{"fn": "ProvenLastBlock/ProvenThisBlock/IsYoung grid", "start": start, "pi": pi, "n": n})
		}
	}
	r.Hist("fn", "window-grid-12^4")
	big := func() int64 { return int64(p.U64() >> uint(3+p.Intn(60))) } // < 2^61
	for i := 0; i < r.Scale(300, 1600); i++ {
		start, pi := big(), big()
		var h, last int64
		switch p.Intn(4) {
		case 0:
			h, last = big(), big()
		case 1: // heights on window edges
			if pi > 0 && pi < 1<<40 {
				h = start + pi*p.I64n(1<<20) + p.I64n(3) - 1
			} else {
				h = start + p.I64n(1<<40)
			}
			last = h - p.I64n(3*pi+2)
		default:
			if pi == 0 {
				pi = 1
			}
			if pi > 1<<58 {
				pi >>= 4
			}
			h = start + p.I64n(4*pi)
			w := h - start
			w = w - w%pi + start
			last = w - pi + p.I64n(3) - 1
			if p.Bool() {
				last = w + p.I64n(3) - 1
			}
		}
		code := c02WinCode(start, pi, h, last)
		r.Case("fn", fmt.Sprintf("WinOne %s %s %s %s %s", cZ(start), cZ(pi), cZ(h), cZ(last), cN(code)), map[string]int64{"start": start, "pi": pi, "h": h, "last": last, "code": int64(code)})
		r.Count(fmt.Sprintf("win1:%d:%d:%d:%d", start, pi, h, last), true)
	}
	// ---- monitor (function level): one proof per window, placed first / last / anywhere in
	// the window, keeps IsYoung || ProvenLastBlock true at every later height
	for i := 0; i < r.Scale(400, 6000); i++ {
		start := p.I64n(30)
		pi := 1 + p.I64n(9)
		if p.Chance(1, 6) {
			start, pi = big()>>8, 1+big()>>8
		}
		f := storagetypes.UnifiedFile{Start: start, ProofInterval: pi}
		j := start + p.I64n(3*pi)
		mode := p.Intn(3)
		last := j
		wj := (j - start) / pi
		for k := wj; k < wj+8; k++ {
			lo, hi := start+k*pi, start+(k+1)*pi // window k
			// every height of window k is checked against the proofs placed so far
			var pk int64
			switch mode {
			case 0:
				pk = lo
			case 1:
				pk = hi - 1
			default:
				pk = lo + p.I64n(pi)
			}
			if k == wj {
				pk = j
			}
			for h := lo; h < hi && h < lo+40; h++ {
				if h <= j {
					continue
				}
				lp := last
				if pk < h && pk > lp {
					lp = pk
				}
				if !(f.IsYoung(h) || f.ProvenLastBlock(h, lp)) {
					c02Finding(r, "C02/schedule/honest-prover-would-be-burned", "a prover with one proof in every window fails ProvenLastBlock on an old file", map[string]int64{"start": start, "pi": pi, "join": j, "height": h, "last_proven": lp})
				}
				r.Count(fmt.Sprintf("sched:%d:%d:%d:%d:%d", start, pi, j, h, lp), true)
			}
			if pk > last {
				last = pk
			}
		}
	}
}

func c02Resets(r *RunCtx, e *Env) {
	p := r.Rng
	try := func(size, chunk, height int64) {
		ctx := e.Ctx.WithBlockHeight(height)
		f := storagetypes.UnifiedFile{FileSize: size}
		proof := storagetypes.FileProof{ChunkToProve: 77}
		pn := Guard(func() { _ = f.ResetChunkWithProof(ctx, &proof, chunk) })
		d1, d2 := c02Draws(ctx, size, chunk)
		rep := map[string]int64{"size": size, "chunk_size": chunk, "height": height, "chunk_to_prove": proof.ChunkToProve}
		r.Case("fn", fmt.Sprintf("Reset %s %s %s %s %s", cZ(size), cZ(chunk), cZ(d1), cZ(d2), c02OptZ(pn == "", proof.ChunkToProve)), rep)
		r.Count(fmt.Sprintf("reset:%d:%d:%d", size, chunk, height), size >= 1 && chunk >= 1)
		if size >= 1 && chunk >= 1 {
			if pn != "" {
				c02Finding(r, "C02/challenge/panic", "ResetChunkWithProof panicked for a positive size and chunk size: "+pn, rep)
			} else if proof.ChunkToProve < 0 || proof.ChunkToProve >= c02Ceil(size, chunk) {
				c02Finding(r, "C02/challenge/out-of-range", "the new challenge does not designate an existing chunk", rep)
			}
		}
	}
	for size := int64(-2); size <= 20; size++ {
		for chunk := int64(0); chunk <= 6; chunk++ {
			try(size, chunk, 2+p.I64n(1000))
		}
	}
	for i := 0; i < r.Scale(150, 1000); i++ {
		chunk := 1 + int64(p.U64()>>uint(20+p.Intn(43)))
		var size int64
		switch p.Intn(3) {
		case 0:
			size = chunk*(1+p.I64n(50)) + p.I64n(3) - 1
		case 1:
			size = 1 + int64(p.U64()>>uint(2+p.Intn(61)))
		default:
			size = chunk * (1 + p.I64n(1<<20))
			if size <= 0 {
				size = chunk
			}
		}
		if size < 1 {
			size = 1
		}
		try(size, chunk, 2+p.I64n(1<<40))
	}
	r.Hist("fn", "reset-chunk")
}

// ---------------------------------------------------------------- history level

type c02Obs struct {
	Listed, HasRec, IsProv  bool
	Last, Challenge, Burned int64
}

func (o c02Obs) coq() string {
	return fmt.Sprintf("{| listed := %s; has_rec := %s; last_proven := %s; challenge := %s; is_provider := %s; burned := %s |}",
		cBool(o.Listed), cBool(o.HasRec), cZ(o.Last), cZ(o.Challenge), cBool(o.IsProv), cZ(o.Burned))
}

type c02Hist struct {
	r        *RunCtx
	e        *Env
	owner    string
	f        *c02File
	start    int64
	trace    []map[string]interface{}
	fileGone bool
}

// file: the file as the chain lists it (the listing, not the keyed lookup: an honest holder reads merkle, owner and
// start from the list of files and names them in its proof exactly as listed)
func (hh *c02Hist) file() (storagetypes.UnifiedFile, bool) {
	for _, f := range hh.e.App.StorageKeeper.GetAllFileByMerkle(hh.e.Ctx) {
		if f.Start == hh.start && f.Owner == hh.owner && bytes.Equal(f.Merkle, hh.f.root) {
			return f, true
		}
	}
	return storagetypes.UnifiedFile{}, false
}

func (hh *c02Hist) observe(prover string) c02Obs {
	var o c02Obs
	if f, found := hh.file(); found {
		o.Listed = f.ContainsProver(prover)
	}
	if pr, found := hh.e.App.StorageKeeper.GetProof(hh.e.Ctx, prover, hh.f.root, hh.owner, hh.start); found {
		o.HasRec, o.Last, o.Challenge = true, pr.LastProven, pr.ChunkToProve
	}
	if pv, found := hh.e.App.StorageKeeper.GetProviders(hh.e.Ctx, prover); found {
		o.IsProv = true
		o.Burned, _ = strconv.ParseInt(pv.BurnedContracts, 10, 64)
	}
	return o
}

func (hh *c02Hist) log(op string, h int64, extra map[string]interface{}) map[string]interface{} {
	m := map[string]interface{}{"op": op, "height": h}
	for k, v := range extra {
		m[k] = v
	}
	hh.trace = append(hh.trace, m)
	return m
}

func (hh *c02Hist) replay() map[string]interface{} {
	t := hh.trace
	if len(t) > 60 {
		t = t[len(t)-60:]
	}
	return map[string]interface{}{"file_hex": hex.EncodeToString(hh.f.data), "chunk_size": hh.f.chunk, "file_start": hh.start, "trace": t}
}

// prove sends one PostProof for `prover`; honest = the holder's proof for the stored challenge.
func (hh *c02Hist) prove(prover string, honest bool, mode int) {
	e, r := hh.e, hh.r
	f, found := hh.file()
	if !found {
		hh.fileGone = true
		return
	}
	pre := hh.observe(prover)
	cur := int64(0)
	if pre.Listed {
		cur = pre.Challenge
	}
	nChunks := int64(len(hh.f.chunks))
	toProve := cur
	var item, payload []byte
	var err error
	if cur >= 0 && cur < nChunks {
		item, payload, err = hh.f.honestProof(cur)
	} else {
		err = fmt.Errorf("challenged chunk %d does not exist", cur)
	}
	if err != nil {
		if honest {
			c02Finding(r, "C02/challenge/out-of-range", "the stored challenge does not designate a chunk of the file: "+err.Error(), hh.replay())
		}
		return
	}
	if !honest {
		switch mode {
		case 0: // wrong item
			item = append(append([]byte{}, item...), 1)
		case 1: // names another chunk
			toProve = cur + 1
		case 2: // proof of another chunk (when there is one)
			if nChunks > 1 {
				_, payload, _ = hh.f.honestProof((cur + 1) % nChunks)
			} else {
				payload = []byte("[]")
			}
		default:
			payload = []byte("{")
		}
	}
	msg := &storagetypes.MsgPostProof{Creator: prover, Item: item, HashList: payload, Merkle: hh.f.root, Owner: hh.owner, Start: hh.start, ToProve: toProve}
	d1, d2 := c02Draws(e.Ctx, f.FileSize, hh.f.chunk)
	res := e.Run(msg)
	success := false
	if res.Out == OutOk {
		var resp storagetypes.MsgPostProofResponse
		if err := resp.Unmarshal(res.Data); err == nil {
			success = resp.Success
		}
	}
	post := hh.observe(prover)
	desc := hh.log("PostProof", e.Height, map[string]interface{}{"prover": prover, "honest": honest, "mode": mode, "to_prove": toProve, "item_hex": hex.EncodeToString(item), "payload": string(payload), "out": res.Out, "success": success, "pre": pre, "post": post})
	term := fmt.Sprintf("Step %s %s (%s) (CProve %s %s %s %s %s %s %s %s %s %s) (%s)", cZ(f.Start), cZ(f.ProofInterval), pre.coq(),
		cZ(e.Height), cZ(toProve), cBytes(f.Merkle), cBytes(item), c02Decoded(payload), cZ(f.FileSize), cZ(hh.f.chunk), cZ(d1), cZ(d2), cBool(success), post.coq())
	r.Case("hist", term, desc)
	r.Count(fmt.Sprintf("prove:%x:%s:%d:%v:%d", hh.f.root[:4], prover[len(prover)-4:], e.Height, honest, mode), true)
	r.Hist("ops", fmt.Sprintf("PostProof/honest=%v/success=%v", honest, success))
	// ---- monitors
	if honest {
		if res.Out != OutOk || !success {
			c02Finding(r, "C02/postproof/honest-proof-rejected", "PostProof refused the holder's proof for the stored challenge: "+res.Err, hh.replay())
		} else if !post.Listed || post.Last != e.Height {
			c02Finding(r, "C02/postproof/accepted-but-not-recorded", "an accepted proof did not leave the prover listed with LastProven = height", hh.replay())
		}
	}
	if post.HasRec && (post.Challenge < 0 || post.Challenge >= nChunks) {
		c02Finding(r, "C02/challenge/out-of-range", fmt.Sprintf("stored challenge %d for a file of %d chunks", post.Challenge, nChunks), hh.replay())
	}
}

func c02History(r *RunCtx, run int) error {
	p := r.Rng
	e, err := NewEnv()
	if err != nil {
		return err
	}
	defer e.Close()
	pws := []int64{2, 3, 4, 5, 7, 10, 50}
	cws := []int64{2, 3, 4, 5, 7, 10, 11, 100}
	pw, cw := PickOne(p, pws), PickOne(p, cws)
	if run == 0 {
		pw, cw = 50, 100
	}
	if run == 1 {
		pw, cw = 50, 11
	}
	chunk := PickOne(p, []int64{1, 3, 8})
	if run == 2 { // a chain configured with chunks larger than the default 1024 bytes: honest chunks are then larger too
		chunk = 2048
	}
	params := StorageParams(e)
	params.ProofWindow, params.CheckWindow, params.ChunkSize = pw, cw, chunk
	GovSetStorageParams(e, params)
	nch := int64(1 + p.Intn(r.Scale(5, 9)))
	if run == 2 {
		nch = 2 + p.I64n(2)
	}
	if run == 3 || run == 4 { // larger files: challenges of 10 and more (two decimal digits, hex letters)
		chunk, nch = PickOne(p, []int64{3, 8}), 24+p.I64n(17)
		params.ChunkSize = chunk
		GovSetStorageParams(e, params)
	}
	size := chunk*nch - p.I64n(chunk)
	if p.Chance(1, 4) {
		size = chunk * nch // exactly full chunks
	}
	f, err := c02MakeFile(p.Bytes(int(size)), chunk)
	if err != nil {
		return err
	}
	owner, honest, lazy := Acct(1), Acct(2), Acct(3)
	for _, a := range []sdk.AccAddress{owner, honest, lazy} {
		if err := e.Fund(a, "ujkl", 100_000_000_000); err != nil {
			return err
		}
	}
	start := 2 + p.I64n(3*pw+5)
	e.At(start, T0)
	e.App.StorageKeeper.SetStoragePaymentInfo(e.Ctx, storagetypes.StoragePaymentInfo{Start: T0.Add(-1e9), End: T0.Add(1e18), SpaceAvailable: 1 << 40, SpaceUsed: 0, Address: owner.String()})
	if res := e.Run(&storagetypes.MsgInitProvider{Creator: honest.String(), Ip: "http://honest.example", Keybase: "", TotalSpace: 1 << 40}); res.Out != OutOk {
		return fmt.Errorf("C02: InitProvider: %s", res.Err)
	}
	lazyIsProvider := p.Chance(3, 4)
	if lazyIsProvider {
		if res := e.Run(&storagetypes.MsgInitProvider{Creator: lazy.String(), Ip: "http://lazy.example", Keybase: "", TotalSpace: 1 << 40}); res.Out != OutOk {
			return fmt.Errorf("C02: InitProvider: %s", res.Err)
		}
	}
	// the proof type is a free field of the message (the chain knows one kind of proof and stores the number as sent),
	// and the holder may sign with the upper-case spelling of its address: neither may cost an honest holder anything
	proofType := int64(0)
	if run%4 == 2 {
		proofType = PickOne(p, []int64{1, -1, 7, 1 << 40})
	}
	honestS := honest.String()
	if run%5 == 4 {
		honestS = strings.ToUpper(honestS)
	}
	// ... and so may the owner (the file is then listed under that spelling and paid for at once: plans are found by
	// the spelling they were bought under)
	ownerS, expires := owner.String(), int64(0)
	if run%7 == 5 {
		ownerS, expires = strings.ToUpper(ownerS), start+14_400*400
	}
	r.Hist("setup", fmt.Sprintf("proof_type_zero=%v/holder_upper_case=%v/owner_upper_case=%v", proofType == 0, honestS != honest.String(), ownerS != owner.String()))
	if res := e.Run(&storagetypes.MsgPostFile{Creator: ownerS, Merkle: f.root, FileSize: size, ProofType: proofType, MaxProofs: int64(2 + p.Intn(2)), Expires: expires, Note: "{}"}); res.Out != OutOk {
		return fmt.Errorf("C02: PostFile: %s", res.Err)
	}
	// a retry of the post inside its own block, after a holder has already picked the file up: the replacement is a
	// fresh file (the earlier provers and their records are gone), and the holder simply joins again afterwards —
	// what must not happen is a file that lists a holder the chain holds no record for
	if run == 3 || p.Chance(1, 4) {
		if item, payload, err := f.honestProof(0); err == nil {
			res := e.Run(&storagetypes.MsgPostProof{Creator: honestS, Item: item, HashList: payload, Merkle: f.root, Owner: ownerS, Start: start, ToProve: 0})
			r.Hist("setup", "proof before the retried post: "+res.Out)
			res = e.Run(&storagetypes.MsgPostFile{Creator: ownerS, Merkle: f.root, FileSize: size, ProofType: proofType, MaxProofs: 3, Expires: expires, Note: "{}"})
			r.Hist("setup", "retried post in the same block: "+res.Out)
		}
	}
	// every third history: another account posts the same content in the same block (its own file: files are keyed by
	// owner as well), pays for it at once and finds nobody to hold it - the chain drops that copy after its first
	// window, or its owner deletes it.  The holder of the first copy proves on and has nothing to do with it
	if run%3 == 1 {
		other := Acct(4)
		_ = e.Fund(other, "ujkl", 100_000_000_000)
		res := e.Run(&storagetypes.MsgPostFile{Creator: other.String(), Merkle: f.root, FileSize: size, ProofType: proofType, MaxProofs: 3, Expires: start + 14_400*30, Note: "{}"})
		r.Hist("setup", "the same content posted by another account in the same block: "+res.Out)
	}
	hh := &c02Hist{r: r, e: e, owner: ownerS, f: f, start: start}
	hh.log("PostFile", start, map[string]interface{}{"owner": ownerS, "expires": expires, "size": size, "proof_window": pw, "check_window": cw, "chunk_size": chunk})
	r.Hist("params", fmt.Sprintf("pw=%d/cw=%d", pw, cw))
	r.Hist("file", fmt.Sprintf("chunks=%d/exact=%v", len(f.chunks), size%chunk == 0))

	// the honest schedule: join inside the grace period, then one proof in every window
	join := start + p.I64n(pw+1)
	if join > start+pw-1 && p.Bool() {
		join = start + pw - 1
	}
	wins := int64(r.Scale(7, 12))
	if pw >= 50 {
		wins = int64(r.Scale(4, 8))
	}
	horizon := start + (wins+1)*pw
	mode := p.Intn(4) // 0 first height of the window, 1 last, 2 random, 3 alternate last/first (largest gap)
	plan := map[int64]bool{join: true}
	wj := (join - start) / pw
	for k := wj + 1; start+k*pw < horizon; k++ {
		lo := start + k*pw
		var at int64
		switch mode {
		case 0:
			at = lo
		case 1:
			at = lo + pw - 1
		case 2:
			at = lo + p.I64n(pw)
		default:
			if (k-wj)%2 == 1 {
				at = lo + pw - 1
			} else {
				at = lo
			}
		}
		plan[at] = true
		if p.Chance(1, 6) {
			plan[lo+p.I64n(pw)] = true // an extra proof
		}
	}
	r.Hist("schedule", fmt.Sprintf("mode=%d", mode))
	lazyJoin := start + p.I64n(2*pw)
	joined := false
	// neighbours (every second history): two more files of the same owner, posted half a window later so that their
	// proof windows are out of phase with the first file's, each held by another honest provider that proves its own
	// stored challenge at the first height of every window of ITS file.  Nobody here misses an obligation: no reward
	// block may remove or burn any of the three.
	type neighbour struct {
		f      *c02File
		start  int64
		keeper sdk.AccAddress
		joined bool
	}
	var neigh []*neighbour
	neighAt := start + pw/2 + 1
	for h := start; h <= horizon && !hh.fileGone; h++ {
		e.At(h, T0.Add(6e9))
		if run%2 == 1 && h == neighAt {
			for ni := 0; ni < 2; ni++ {
				nf, nerr := c02MakeFile(p.Bytes(int(chunk*3)), chunk)
				if nerr != nil {
					return nerr
				}
				kp := Acct(40 + ni)
				_ = e.Fund(kp, "ujkl", 100_000_000_000)
				if res := e.Run(&storagetypes.MsgInitProvider{Creator: kp.String(), Ip: fmt.Sprintf("http://neighbour%d.example", ni), TotalSpace: 1 << 40}); res.Out != OutOk {
					return fmt.Errorf("C02: InitProvider: %s", res.Err)
				}
				if res := e.Run(&storagetypes.MsgPostFile{Creator: owner.String(), Merkle: nf.root, FileSize: chunk * 3, ProofType: 0, MaxProofs: 3, Note: "{}"}); res.Out != OutOk {
					return fmt.Errorf("C02: PostFile (neighbour): %s", res.Err)
				}
				neigh = append(neigh, &neighbour{f: nf, start: h, keeper: kp})
				hh.log("PostFile (neighbour)", h, map[string]interface{}{"root_hex": hex.EncodeToString(nf.root), "walked_after_the_first_file": string(nf.root) > string(f.root)})
			}
			r.Hist("setup", "two neighbour files with out-of-phase windows")
		}
		if h == start+2*pw+1 && p.Chance(1, 3) {
			// a later parameter change must not affect the windows of the stored file
			np := StorageParams(e)
			np.ProofWindow, np.CheckWindow = PickOne(p, pws), PickOne(p, cws)
			GovSetStorageParams(e, np)
			hh.log("SetParams", h, map[string]interface{}{"proof_window": np.ProofWindow, "check_window": np.CheckWindow})
		}
		curCW := StorageParams(e).CheckWindow
		// ---- begin block: the reward block
		file, found := hh.file()
		if !found {
			hh.fileGone = true
			break
		}
		preH, preL := hh.observe(honestS), hh.observe(lazy.String())
		if pn := Guard(func() { e.App.StorageKeeper.RunRewardBlock(e.Ctx) }); pn != "" {
			c02Finding(r, "C02/reward/panic", "RunRewardBlock panicked: "+pn, hh.replay())
			break
		}
		postH, postL := hh.observe(honestS), hh.observe(lazy.String())
		runs := h%curCW == 0
		if runs || p.Chance(1, 10) {
			desc := hh.log("RewardBlock", h, map[string]interface{}{"check_window": curCW, "runs": runs, "honest_pre": preH, "honest_post": postH, "lazy_pre": preL, "lazy_post": postL})
			for _, pp := range []struct{ pre, post c02Obs }{{preH, postH}, {preL, postL}} {
				r.Case("hist", fmt.Sprintf("Step %s %s (%s) (CReward %s %s) (%s)", cZ(file.Start), cZ(file.ProofInterval), pp.pre.coq(), cZ(curCW), cZ(h), pp.post.coq()), desc)
			}
			r.Count(fmt.Sprintf("reward:%x:%d", f.root[:4], h), runs)
			r.Hist("ops", fmt.Sprintf("RewardBlock/runs=%v", runs))
			if preL.Listed && !postL.Listed {
				r.Hist("lazy", fmt.Sprintf("dropped/burned=%v", postL.Burned > preL.Burned))
			}
		}
		for _, nb := range neigh {
			if !nb.joined {
				continue
			}
			nf, ok := e.App.StorageKeeper.GetFile(e.Ctx, nb.f.root, owner.String(), nb.start)
			pv, _ := e.App.StorageKeeper.GetProviders(e.Ctx, nb.keeper.String())
			if !ok || !nf.ContainsProver(nb.keeper.String()) || (pv.BurnedContracts != "0" && pv.BurnedContracts != "") {
				c02Finding(r, "C02/reward/honest-prover-removed", fmt.Sprintf("reward block at height %d removed or burned the holder of a neighbouring file, which proved in every window of its file (posted at %d)", h, nb.start), hh.replay())
				nb.joined = false
			}
		}
		// ---- monitors: the honest prover is neither removed nor burned
		if joined {
			if preH.Listed && !postH.Listed {
				c02Finding(r, "C02/reward/honest-prover-removed", fmt.Sprintf("reward block at height %d removed a prover with a proof in every window (LastProven %d, file start %d, interval %d)", h, preH.Last, file.Start, file.ProofInterval), hh.replay())
			}
			if postH.Burned != preH.Burned {
				c02Finding(r, "C02/reward/honest-prover-burned", fmt.Sprintf("reward block at height %d burned a prover with a proof in every window", h), hh.replay())
			}
		}
		if _, still := hh.file(); !still {
			hh.fileGone = true
			break
		}
		// ---- transactions of the block
		if plan[h] {
			hh.prove(honestS, true, 0)
			joined = true
		}
		for _, nb := range neigh { // the neighbours' holders: first height of every window of their own file
			if (h-nb.start)%pw != 0 && nb.joined {
				continue
			}
			if (h-nb.start)%pw != 0 && h != nb.start {
				continue
			}
			cur := int64(0)
			if rec, ok := e.App.StorageKeeper.GetProof(e.Ctx, nb.keeper.String(), nb.f.root, owner.String(), nb.start); ok {
				cur = rec.ChunkToProve
			}
			if item, payload, perr := nb.f.honestProof(cur); perr == nil {
				res := e.Run(&storagetypes.MsgPostProof{Creator: nb.keeper.String(), Item: item, HashList: payload, Merkle: nb.f.root, Owner: owner.String(), Start: nb.start, ToProve: cur})
				hh.log("PostProof (neighbour's holder)", h, map[string]interface{}{"out": res.Out, "chunk": cur})
				if res.Out == OutOk {
					nb.joined = true
				}
			}
		}
		if h >= lazyJoin && h < horizon {
			switch {
			case p.Chance(1, int(pw)+1): // about one proof per window, windows get skipped
				hh.prove(lazy.String(), true, 0)
			case p.Chance(1, 3*int(pw)+1):
				hh.prove(lazy.String(), false, p.Intn(4))
			}
		}
	}
	if hh.fileGone && joined {
		c02Finding(r, "C02/reward/file-removed-under-honest-prover", "the file disappeared although a prover kept proving it", hh.replay())
	}
	if run < 2 {
		r.Sample(map[string]interface{}{"history": "honest+lazy prover", "proof_window": pw, "check_window": cw, "chunks": len(f.chunks), "ops": len(hh.trace)})
	}
	return nil
}

// c02ChunkSizeChange documents what lies outside the property's quantifier: the number of
// pieces is computed from the CURRENT ChunkSize parameter, so lowering it after a file was cut
// makes the chain challenge chunks the file's tree does not have.  Recorded as a note, not a finding.
func c02ChunkSizeChange(r *RunCtx) error {
	e, err := NewEnv()
	if err != nil {
		return err
	}
	defer e.Close()
	params := StorageParams(e)
	params.ProofWindow, params.CheckWindow, params.ChunkSize = 5, 5, 8
	GovSetStorageParams(e, params)
	f, err := c02MakeFile(NewPRNG(7).Bytes(30), 8) // 4 chunks
	if err != nil {
		return err
	}
	owner, prover := Acct(1), Acct(2)
	e.At(10, T0)
	e.App.StorageKeeper.SetStoragePaymentInfo(e.Ctx, storagetypes.StoragePaymentInfo{Start: T0.Add(-1e9), End: T0.Add(1e18), SpaceAvailable: 1 << 40, Address: owner.String()})
	if res := e.Run(&storagetypes.MsgPostFile{Creator: owner.String(), Merkle: f.root, FileSize: 30, MaxProofs: 3, Note: "{}"}); res.Out != OutOk {
		return fmt.Errorf("C02: PostFile: %s", res.Err)
	}
	params.ChunkSize = 1
	GovSetStorageParams(e, params)
	worst := int64(-1)
	for h := int64(10); h < 40; h++ {
		e.At(h, T0)
		pr, found := e.App.StorageKeeper.GetProof(e.Ctx, prover.String(), f.root, owner.String(), 10)
		cur := int64(0)
		if found {
			cur = pr.ChunkToProve
		}
		if cur >= int64(len(f.chunks)) {
			worst = cur
			break
		}
		item, payload, err := f.honestProof(cur)
		if err != nil {
			return err
		}
		e.Run(&storagetypes.MsgPostProof{Creator: prover.String(), Item: item, HashList: payload, Merkle: f.root, Owner: owner.String(), Start: 10, ToProve: cur})
	}
	if worst >= 0 {
		r.Sum.Notes = append(r.Sum.Notes, fmt.Sprintf("outside the quantifier (ChunkSize changed after the file was cut): file of 30 bytes cut with ChunkSize 8 (4 chunks), ChunkSize then set to 1: the chain stored challenge %d, which no holder can prove", worst))
	}
	return nil
}

func runC02(r *RunCtx) error {
	r.Sum.Rule = "function level: SHA3-512 on byte strings around the 72-byte rate; Merkle trees of 1..9 (thorough 1..33) arbitrary leaves built by merkletree.NewUsing, library proofs and 15 kinds of tampered proofs through VerifyProofUsing; files around multiples of the chunk size through utils.BuildTree and UnifiedFile.VerifyProof; the three window predicates for all (start, interval, height, lastProven) < 12 and random values < 2^61; ResetChunkWithProof on a grid and random sizes. History level: PostFile/InitProvider/PostProof/RunRewardBlock on the assembled app for (ProofWindow, CheckWindow, ChunkSize) from a grid, an honest prover with one proof per window (first / last / random / alternating placement) and a lazy prover that skips windows and sends bad proofs; one evaluation = one call or one step; non-trivial = distinct input with a positive window / size (function level) or a reward block that runs / a proof submission (history level)"
	r.Group("fn", "From JK Require Import Model.Windows Corr.C02.", "c02_case", "c02_ok")
	if err := c02PersistedTwin(r); err != nil {
		return err
	}
	r.Group("hist", "From JK Require Import Model.Windows Corr.C02.", "c02_case", "c02_ok")
	c02Hashes(r)
	if err := c02Trees(r); err != nil {
		return err
	}
	if err := c02Files(r); err != nil {
		return err
	}
	c02Windows(r)
	e, err := NewEnv()
	if err != nil {
		return err
	}
	c02Resets(r, e)
	e.Close()
	if err := c02ChunkSizeChange(r); err != nil {
		return err
	}
	for k := 0; k < r.Scale(6, 18); k++ {
		if err := c02History(r, k); err != nil {
			return err
		}
	}
	return nil
}
