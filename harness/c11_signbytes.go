package main

// C11, the signature belongs to the message: "requires exactly one signature — that of the account named as its
// creator".  A signature binds its signer to ONE message.  In the legacy amino-JSON signing mode (enabled in the app's
// TxConfig; what hardware wallets use) the signed document carries each message as Msg.GetSignBytes(); if two different
// message types produce the same bytes for the same field values, a signature the creator gave for one of them
// authenticates the other.  End to end, on the assembled app, for every pair of registered /canine_chain. message types
// with the same field names and kinds: the creator signs a transaction with message A; the same signature is put on a
// transaction that carries message B instead (same fee, gas, memo, sequence) and delivered.  The ante handler must
// refuse it (the creator's sequence number stays); the control — transaction A itself — must get past it.

import (
	"bytes"
	"encoding/json"
	"fmt"
	"reflect"

	abci "github.com/tendermint/tendermint/abci/types"

	"github.com/cosmos/cosmos-sdk/client"
	codectypes "github.com/cosmos/cosmos-sdk/codec/types"
	"github.com/cosmos/cosmos-sdk/crypto/keys/secp256k1"
	cryptotypes "github.com/cosmos/cosmos-sdk/crypto/types"
	sdk "github.com/cosmos/cosmos-sdk/types"
	"github.com/cosmos/cosmos-sdk/types/tx/signing"
	authsign "github.com/cosmos/cosmos-sdk/x/auth/signing"
	japp "github.com/jackalLabs/canine-chain/v4/app"
)

// c11AminoTx: a transaction with `carried`, bearing the signature `signer` gives (amino-JSON mode) over the same
// transaction with `signed` in its place
func c11AminoTx(txCfg client.TxConfig, signed, carried sdk.Msg, signer cryptotypes.PrivKey, accNum, seq uint64) ([]byte, error) {
	mode := signing.SignMode_SIGN_MODE_LEGACY_AMINO_JSON
	build := func(m sdk.Msg, raw []byte) (client.TxBuilder, error) {
		b := txCfg.NewTxBuilder()
		if err := b.SetMsgs(m); err != nil {
			return nil, err
		}
		b.SetFeeAmount(sdk.Coins{})
		b.SetGasLimit(5_000_000)
		err := b.SetSignatures(signing.SignatureV2{PubKey: signer.PubKey(), Data: &signing.SingleSignatureData{SignMode: mode, Signature: raw}, Sequence: seq})
		return b, err
	}
	b, err := build(signed, nil)
	if err != nil {
		return nil, err
	}
	sb, err := txCfg.SignModeHandler().GetSignBytes(mode, authsign.SignerData{ChainID: "verif", AccountNumber: accNum, Sequence: seq}, b.GetTx())
	if err != nil {
		return nil, err
	}
	raw, err := signer.Sign(sb)
	if err != nil {
		return nil, err
	}
	if b, err = build(carried, raw); err != nil {
		return nil, err
	}
	return txCfg.TxEncoder()(b.GetTx())
}

// c11Zero reports whether v is the zero value of its type (such fields are left out of the signed JSON)
func c11Zero(v reflect.Value) bool { return v.IsZero() }

func c11SignBytes(r *RunCtx, reg codectypes.InterfaceRegistry, urls []string) error {
	txCfg := japp.MakeEncodingConfig().TxConfig
	priv := secp256k1.GenPrivKeyFromSecret([]byte("c11-amino-signer"))
	addr := sdk.AccAddress(priv.PubKey().Address())
	// the message the creator signs: every field set (the same value under the same field name in every type)
	full := func(url string) (sdk.Msg, bool) {
		msg, err := c11Clone(reg, url)
		if err != nil {
			return nil, false
		}
		c11Fill(msg, NewPRNG(77), 300, false) // the same generator state for every type: equal fields get equal values
		cf := reflect.ValueOf(msg).Elem().FieldByName("Creator")
		if !cf.IsValid() || cf.Kind() != reflect.String {
			return nil, false // already reported by part A
		}
		cf.SetString(addr.String())
		if nf := reflect.ValueOf(msg).Elem().FieldByName("Name"); nf.IsValid() && nf.Kind() == reflect.String {
			nf.SetString("alpha.jkl") // a value most ValidateBasic methods let through
		}
		return msg, true
	}
	// the message it is swapped for: the same values under the same field names, nothing anywhere else
	like := func(url string, a sdk.Msg) (sdk.Msg, bool) {
		b, err := c11Clone(reg, url)
		if err != nil {
			return nil, false
		}
		av, bv := reflect.ValueOf(a).Elem(), reflect.ValueOf(b).Elem()
		for i := 0; i < bv.NumField(); i++ {
			f := bv.Type().Field(i)
			if af := av.FieldByName(f.Name); af.IsValid() && af.Type() == f.Type && bv.Field(i).CanSet() {
				bv.Field(i).Set(af)
			}
		}
		return b, true
	}
	for _, ua := range urls {
		a, ok := full(ua)
		if !ok {
			continue
		}
		bareA, err := json.Marshal(a)
		if err != nil {
			continue
		}
		for _, ub := range urls {
			if ua == ub {
				continue
			}
			b, ok := like(ub, a)
			if !ok {
				continue
			}
			bareB, err := json.Marshal(b)
			if err != nil || !bytes.Equal(bareA, bareB) {
				continue // the two differ in a field name or kind: their signed documents differ whatever the codec does
			}
			e, err := NewEnv()
			if err != nil {
				return err
			}
			e.App.AccountKeeper.SetAccount(e.Ctx, e.App.AccountKeeper.NewAccountWithAddress(e.Ctx, addr))
			if err := e.Fund(addr, "ujkl", 10_000_000_000); err != nil {
				return err
			}
			acc := e.App.AccountKeeper.GetAccount(e.Ctx, addr)
			seq := func() uint64 { return e.App.AccountKeeper.GetAccount(e.Ctx, addr).GetSequence() }
			desc := map[string]interface{}{"signed": ua, "delivered": ub, "fields": string(bareA), "signer": addr.String()}
			lifted, err := c11AminoTx(txCfg, a, b, priv, acc.GetAccountNumber(), acc.GetSequence())
			if err != nil {
				e.Close()
				return err
			}
			// the chain's own verification of that signature against the transaction that carries B
			verifies := false
			if tx, derr := txCfg.TxDecoder()(lifted); derr == nil {
				if stx, ok := tx.(authsign.SigVerifiableTx); ok {
					if sigs, serr := stx.GetSignaturesV2(); serr == nil && len(sigs) == 1 {
						sd := authsign.SignerData{ChainID: "verif", AccountNumber: acc.GetAccountNumber(), Sequence: acc.GetSequence()}
						verifies = authsign.VerifySignature(priv.PubKey(), sd, sigs[0].Data, txCfg.SignModeHandler(), tx) == nil
					}
				}
			}
			res := e.App.DeliverTx(abci.RequestDeliverTx{Tx: lifted})
			past := seq() != acc.GetSequence()
			r.Count("lifted:"+ua+">"+ub, true)
			r.Hist("lifted signature", fmt.Sprintf("verifies=%v past-ante=%v deliver=%s/%d", verifies, past, res.Codespace, res.Code))
			if verifies {
				desc["log"], desc["signature_verifies"], desc["past_the_ante_handler"] = res.Log, verifies, past
				r.Finding("C11/signature-lifted/"+ua+">"+ub, fmt.Sprintf("the signature %s gave (amino-JSON mode) for a %s verifies on a transaction that carries a %s with the same field values: that message is authenticated as the creator's although the creator never signed one", addr, ua, ub), desc)
			}
			before := seq()
			own, err := c11AminoTx(txCfg, a, a, priv, acc.GetAccountNumber(), before)
			if err != nil {
				e.Close()
				return err
			}
			res = e.App.DeliverTx(abci.RequestDeliverTx{Tx: own})
			r.Hist("amino-signed control", fmt.Sprintf("%s/%d past-ante=%v", res.Codespace, res.Code, seq() == before+1))
			if seq() != before+1 && a.ValidateBasic() == nil {
				desc["log"] = res.Log
				r.Finding("C11/signed-tx/creator-amino-signature-rejected", ua+": the transaction the creator signed itself in amino-JSON mode did not pass the ante handler", desc)
			}
			e.Close()
		}
	}
	return nil
}
