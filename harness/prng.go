package main

// splitmix64: every random choice of a run derives from one state seeded by VERIF_SEED.
type PRNG struct{ s uint64 }

func NewPRNG(seed uint64) *PRNG { return &PRNG{s: seed*0x9E3779B97F4A7C15 + 0x1234567} }

func (p *PRNG) U64() uint64 {
	p.s += 0x9E3779B97F4A7C15
	z := p.s
	z = (z ^ (z >> 30)) * 0xBF58476D1CE4E5B9
	z = (z ^ (z >> 27)) * 0x94D049BB133111EB
	return z ^ (z >> 31)
}

// Intn returns a value in [0,n).
func (p *PRNG) Intn(n int) int {
	if n <= 0 {
		return 0
	}
	return int(p.U64() % uint64(n))
}

func (p *PRNG) I64n(n int64) int64 {
	if n <= 0 {
		return 0
	}
	return int64(p.U64() % uint64(n))
}

func (p *PRNG) Bool() bool { return p.U64()&1 == 1 }

// Chance returns true with probability num/den.
func (p *PRNG) Chance(num, den int) bool { return p.Intn(den) < num }

func (p *PRNG) Bytes(n int) []byte {
	b := make([]byte, n)
	for i := range b {
		b[i] = byte(p.U64())
	}
	return b
}

func PickOne[T any](p *PRNG, xs []T) T { return xs[p.Intn(len(xs))] }

// Fork derives an independent stream (used per case so cases replay individually).
func (p *PRNG) Fork() *PRNG { return NewPRNG(p.U64()) }
