package main

// Persisted-state twin for every custom module (monitors only).  corpus/persisted/modules.json holds, per module, the
// raw content of its store on a busy chain as the release this work started from wrote it (made once by
// `harness persisted-snapshot`), and the genesis that release exported from it.  A run loads those bytes into a fresh
// app built from the tree under test, runs the modules' migrations from the recorded consensus versions, and exports:
// everything the earlier release's export contained must still be there.  A changed key or value format that comes
// without its migration makes the new binary blind to what the old one stored — names, bids, listings, files, plans,
// collateral, notifications, access lists — which breaks the property that speaks about those records on every
// chain that is upgraded rather than started afresh.

import (
	"encoding/hex"
	"encoding/json"
	"fmt"
	"os"
	"path/filepath"
	"reflect"

	sdk "github.com/cosmos/cosmos-sdk/types"
	"github.com/cosmos/cosmos-sdk/types/module"
	filetreetypes "github.com/jackalLabs/canine-chain/v4/x/filetree/types"
	notiftypes "github.com/jackalLabs/canine-chain/v4/x/notifications/types"
	oracletypes "github.com/jackalLabs/canine-chain/v4/x/oracle/types"
	rnstypes "github.com/jackalLabs/canine-chain/v4/x/rns/types"
	storagetypes "github.com/jackalLabs/canine-chain/v4/x/storage/types"
)

type persistedModule struct {
	Module string          `json:"module"`
	KV     [][2]string     `json:"store_hex"`
	Export json.RawMessage `json:"exported_genesis"`
}

type persistedSnapshot struct {
	What    string            `json:"what"`
	Height  int64             `json:"height"`
	Modules []persistedModule `json:"modules"`
}

func persistedPopulate() (*Env, error) {
	e, err := NewEnv()
	if err != nil {
		return nil, err
	}
	e.NoGhost = true
	for i := 1; i <= c19Accounts; i++ {
		if err := e.Fund(Acct(i), "ujkl", 1_000_000_000_000_000); err != nil {
			return nil, err
		}
	}
	h := c19CrowdHistory()
	for _, o := range h.Ops {
		if o.Op == "restart" {
			continue
		}
		if out := c19Apply(e, o); out == "unknown-op" {
			return nil, fmt.Errorf("unknown operation %q", o.Op)
		}
	}
	return e, nil
}

func persistedMakeSnapshotTo(path string) error {
	e, err := persistedPopulate()
	if err != nil {
		return err
	}
	defer e.Close()
	snap := persistedSnapshot{What: "raw stores and exported genesis of every custom module after the busy history of the C19 check (more than 100 records of every kind)", Height: e.Height}
	for _, m := range c19Modules() {
		pm := persistedModule{Module: m.Name, Export: m.Export(e)}
		for _, kv := range mustDump(e, m.StoreKey) {
			pm.KV = append(pm.KV, [2]string{hex.EncodeToString(kv.K), hex.EncodeToString(kv.V)})
		}
		snap.Modules = append(snap.Modules, pm)
	}
	js, _ := json.Marshal(snap)
	return os.WriteFile(path, js, 0o644)
}

// jsonIncluded: is everything of `old` present in `now`?  Objects may gain members, lists must keep their elements
// (as a multiset: the order of an export may change).  Returns a path to the first thing missing.
func jsonIncluded(old, now interface{}, at string) string {
	switch o := old.(type) {
	case map[string]interface{}:
		n, ok := now.(map[string]interface{})
		if !ok {
			return at
		}
		for k, v := range o {
			nv, has := n[k]
			if !has {
				if v == nil || reflect.DeepEqual(v, "") || reflect.DeepEqual(v, []interface{}{}) {
					continue
				}
				return at + "." + k
			}
			if p := jsonIncluded(v, nv, at+"."+k); p != "" {
				return p
			}
		}
		return ""
	case []interface{}:
		n, ok := now.([]interface{})
		if !ok {
			if len(o) == 0 && now == nil {
				return ""
			}
			return at
		}
		used := make([]bool, len(n))
		for i, v := range o {
			found := false
			for j, nv := range n {
				if !used[j] && jsonIncluded(v, nv, "") == "" {
					used[j], found = true, true
					break
				}
			}
			if !found {
				return fmt.Sprintf("%s[%d]", at, i)
			}
		}
		return ""
	default:
		if reflect.DeepEqual(old, now) {
			return ""
		}
		return at
	}
}

// persistedModuleTwin runs the twin for one module and reports under the calling property's own signature.
func persistedModuleTwin(r *RunCtx, moduleName, sig string) error {
	raw, err := os.ReadFile(filepath.Join(c19VerifRoot(), "corpus", "persisted", "modules.json"))
	if err != nil {
		return fmt.Errorf("persisted state: %w", err)
	}
	var snap persistedSnapshot
	if err := json.Unmarshal(raw, &snap); err != nil {
		return err
	}
	e, err := NewEnv()
	if err != nil {
		return err
	}
	defer e.Close()
	e.At(snap.Height, T0.Add(timeOf(snap.Height)))
	var pm *persistedModule
	for i := range snap.Modules {
		if snap.Modules[i].Module == moduleName {
			pm = &snap.Modules[i]
		}
	}
	var mod *c19Module
	mods := c19Modules()
	for i := range mods {
		if mods[i].Name == moduleName {
			mod = &mods[i]
		}
	}
	if pm == nil || mod == nil {
		return fmt.Errorf("persisted state: module %s not in the snapshot", moduleName)
	}
	st := e.Ctx.KVStore(c19StoreKey(e, mod.StoreKey))
	for _, kv := range mustDump(e, mod.StoreKey) {
		st.Delete(kv.K)
	}
	for _, kv := range pm.KV {
		k, _ := hex.DecodeString(kv[0])
		v, _ := hex.DecodeString(kv[1])
		st.Set(k, v)
	}
	trace := []interface{}{map[string]interface{}{"op": "load the " + moduleName + " store written by the earlier release", "records": len(pm.KV), "height": snap.Height}}
	mm, cfg, _ := c13AppInternals(e)
	rawVM, err := os.ReadFile(filepath.Join(c19VerifRoot(), "corpus", "C13", "module_versions.json"))
	if err != nil {
		return err
	}
	recorded := module.VersionMap{}
	if err := json.Unmarshal(rawVM, &recorded); err != nil {
		return err
	}
	from := module.VersionMap{}
	for name, v := range mm.GetVersionMap() {
		from[name] = v
		if rv, ok := recorded[name]; ok && rv < v {
			from[name] = rv
		}
	}
	var merr error
	if pn := Guard(func() { _, merr = mm.RunMigrations(e.Ctx, cfg, from) }); pn != "" || merr != nil {
		r.Finding(sig+"/persisted/migration-failed", fmt.Sprintf("the migrations from the recorded versions fail on the %s store the earlier release wrote: %s %v", moduleName, pn, merr), map[string]interface{}{"trace": trace})
		return nil
	}
	var now []byte
	if pn := Guard(func() { now = mod.Export(e) }); pn != "" {
		r.Finding(sig+"/persisted/export-panics", "exporting the "+moduleName+" state the earlier release wrote panics: "+pn, map[string]interface{}{"trace": trace})
		return nil
	}
	var oldV, nowV interface{}
	if err := json.Unmarshal(pm.Export, &oldV); err != nil {
		return err
	}
	if err := json.Unmarshal(now, &nowV); err != nil {
		return err
	}
	// parameters live in the params module's store, not in the module's own: they are not part of what was loaded
	if om, ok := oldV.(map[string]interface{}); ok {
		delete(om, "params")
	}
	if p := jsonIncluded(oldV, nowV, moduleName); p != "" {
		r.Finding(sig+"/persisted/records-unreachable", "after loading the "+moduleName+" store as the earlier release wrote it (and running the migrations), the module no longer sees what that release exported from it; first difference at "+p, map[string]interface{}{"trace": trace, "at": p})
		return nil
	}
	if m := keyedLookups(e, moduleName, now); m != "" {
		r.Finding(sig+"/persisted/records-unreachable", "after loading the "+moduleName+" store as the earlier release wrote it (and running the migrations), the module lists a record that its own keyed lookup does not find: "+m, map[string]interface{}{"trace": trace, "at": m})
		return nil
	}
	r.Count("persisted-module:"+moduleName, true)
	r.Hist("persisted-state", moduleName+": everything the earlier release exported is still seen")
	return nil
}

// restartModuleTwin: the busy chain of the C19 check, with a few records of accepted but unusual shape added, is
// exported and a new chain is started from that genesis — at an initial height above 1 and under the clock a restarted
// chain really has during InitChain, the genesis time, which lies before everything the old chain wrote.  Nobody sent a
// message in between: what the new chain exports is what the old one exported (records the module does not export at
// all are the business of C19 and its known findings; they are equally absent from both exports).  Reported under the
// signature of the property whose records they are.
func restartModuleTwin(r *RunCtx, moduleName, sig string) error {
	e, err := persistedPopulate()
	if err != nil {
		return err
	}
	defer e.Close()
	var mod *c19Module
	mods := c19Modules()
	for i := range mods {
		if mods[i].Name == moduleName {
			mod = &mods[i]
		}
	}
	if mod == nil {
		return fmt.Errorf("restart twin: no module %s", moduleName)
	}
	trace := []interface{}{map[string]interface{}{"op": "the busy history of the C19 check (more than 100 records of every kind)", "height": e.Height}}
	shape := func(what string, m sdk.Msg) {
		res := e.Run(m)
		trace = append(trace, map[string]interface{}{"op": what, "out": res.Out, "err": res.Err})
	}
	switch moduleName {
	case "storage":
		// a provider that announces a negative total space, a file with free seats and one prover
		shape("SetProviderTotalSpace -1", &storagetypes.MsgSetProviderTotalSpace{Creator: Acct(400).String(), Space: -1})
		_ = e.Fund(Acct(777), "ujkl", 20_000_000_000)
		shape("InitProvider with total space -1", &storagetypes.MsgInitProvider{Creator: Acct(777).String(), Ip: "https://minus.example.com", TotalSpace: -1})
		for n := int64(0); n < 3; n++ {
			out := c19Apply(e, c19Op{Op: "storage.AddProver", B: 400 + int(n), N: n})
			trace = append(trace, map[string]interface{}{"op": "a verified first proof adds a prover to a file with free seats", "out": out})
		}
	case "oracle":
		shape("CreateFeed whose name ends in a slash", &oracletypes.MsgCreateFeed{Creator: Acct(2).String(), Name: "crowdfeed000/"})
		shape("CreateFeed with blanks and capitals", &oracletypes.MsgCreateFeed{Creator: Acct(3).String(), Name: " Crowd Feed "})
	case "rns":
		shape("Bid on a name with a blank and capitals", &rnstypes.MsgBid{Creator: Acct(3).String(), Name: "Crowd Name.jkl", Bid: sdk.NewInt64Coin("ujkl", 7)})
	}
	for _, later := range []int64{0, 6_000_000} { // at once, and after every registration of the history has lapsed
		h0 := e.Height + later
		e.At(h0, T0.Add(timeOf(h0)))
		var old []byte
		if pn := Guard(func() { old = mod.Export(e) }); pn != "" {
			r.Finding(sig+"/restart/export-panics", "exporting the "+moduleName+" state panics: "+pn, map[string]interface{}{"trace": trace})
			return nil
		}
		nxt, err := NewEnv()
		if err != nil {
			return err
		}
		nxt.NoGhost = true
		nxt.At(h0+1, T0) // initial_height of the new chain; InitChain runs under the genesis time
		st := nxt.Ctx.KVStore(c19StoreKey(nxt, mod.StoreKey))
		for _, kv := range mustDump(nxt, mod.StoreKey) {
			st.Delete(kv.K)
		}
		var ierr error
		pn := Guard(func() { ierr = mod.Import(nxt, old) })
		step := map[string]interface{}{"op": "export " + moduleName + ", start a new chain from it", "exported_at": h0, "initial_height": h0 + 1, "clock": "genesis time", "panic": pn}
		if pn != "" || ierr != nil {
			r.Finding(sig+"/restart/import-failed", fmt.Sprintf("the %s genesis the chain exported cannot be imported: %s %v", moduleName, pn, ierr), map[string]interface{}{"trace": append(trace, step)})
			nxt.Close()
			return nil
		}
		var now []byte
		if pn := Guard(func() { now = mod.Export(nxt) }); pn != "" {
			r.Finding(sig+"/restart/export-panics", "exporting the restarted "+moduleName+" state panics: "+pn, map[string]interface{}{"trace": append(trace, step)})
			nxt.Close()
			return nil
		}
		if m := keyedLookups(nxt, moduleName, now); m != "" {
			r.Finding(sig+"/restart/records-unreachable", "after a restart from the exported genesis the "+moduleName+" module lists a record that its own keyed lookup does not find: "+m, map[string]interface{}{"trace": append(trace, step), "at": m})
			nxt.Close()
			return nil
		}
		nxt.Close()
		var oldV, nowV interface{}
		if json.Unmarshal(old, &oldV) != nil || json.Unmarshal(now, &nowV) != nil {
			return fmt.Errorf("restart twin: unreadable export")
		}
		for _, v := range []interface{}{oldV, nowV} {
			if m, ok := v.(map[string]interface{}); ok {
				delete(m, "params")
				// re-derived on export from proof records, which the genesis does not carry (known findings C19-1, C19-5)
				delete(m, "active_providers_list")
			}
		}
		p := jsonIncluded(oldV, nowV, moduleName)
		dir := "is missing from"
		if p == "" {
			p, dir = jsonIncluded(nowV, oldV, moduleName), "was added to"
		}
		if p != "" {
			r.Finding(sig+"/restart/state-changed-without-a-message", fmt.Sprintf("a restart from the exported genesis (exported at height %d, new chain at initial height %d under the genesis time) changes the %s state although nobody sent a message: %s %s what the new chain holds", h0, h0+1, moduleName, p, dir),
				map[string]interface{}{"trace": append(trace, step), "at": p})
			return nil
		}
		r.Count(fmt.Sprintf("restart-module:%s:%d", moduleName, later), true)
	}
	r.Hist("restart-twin", moduleName+": the restarted chain holds what the old one exported")
	return nil
}

// keyedLookups: every record of an exported genesis is also found by the keyed lookup the handlers and queries use
// (an export walks the whole prefix and sees a record wherever it sits; a handler builds the key from the record's
// fields and sees it only there).  Returns a description of the first record that is listed but not found under its key.
func keyedLookups(e *Env, moduleName string, exported []byte) string {
	cdc := e.App.AppCodec()
	miss := ""
	note := func(kind, what string) {
		if miss == "" {
			miss = kind + " " + what
		}
	}
	pn := Guard(func() {
		switch moduleName {
		case "rns":
			var gs rnstypes.GenesisState
			cdc.MustUnmarshalJSON(exported, &gs)
			for _, n := range gs.NamesList {
				if v, ok := e.App.RnsKeeper.GetNames(e.Ctx, n.Name, n.Tld); !ok || v.Value != n.Value || v.Expires != n.Expires {
					note("name", n.Name+"."+n.Tld)
				}
			}
			for _, b := range gs.BidsList {
				if v, ok := e.App.RnsKeeper.GetBids(e.Ctx, b.Index); !ok || v.Price != b.Price {
					note("bid", b.Index)
				}
			}
			for _, f := range gs.ForSaleList {
				if v, ok := e.App.RnsKeeper.GetForsale(e.Ctx, f.Name); !ok || v.Owner != f.Owner {
					note("listing", f.Name)
				}
			}
		case "storage":
			var gs storagetypes.GenesisState
			cdc.MustUnmarshalJSON(exported, &gs)
			for _, f := range gs.FileList {
				if v, ok := e.App.StorageKeeper.GetFile(e.Ctx, f.Merkle, f.Owner, f.Start); !ok || v.FileSize != f.FileSize {
					note("file", fmt.Sprintf("%x/%s/%d", f.Merkle, f.Owner, f.Start))
				}
			}
			for _, p := range gs.ProvidersList {
				if v, ok := e.App.StorageKeeper.GetProviders(e.Ctx, p.Address); !ok || v.Ip != p.Ip {
					note("provider", p.Address)
				}
			}
			for _, c := range gs.CollateralList {
				if v, ok := e.App.StorageKeeper.GetCollateral(e.Ctx, c.Address); !ok || v.Amount != c.Amount {
					note("collateral", c.Address)
				}
			}
			for _, p := range gs.PaymentInfoList {
				if v, ok := e.App.StorageKeeper.GetStoragePaymentInfo(e.Ctx, p.Address); !ok || v.SpaceUsed != p.SpaceUsed {
					note("plan", p.Address)
				}
			}
		case "filetree":
			var gs filetreetypes.GenesisState
			cdc.MustUnmarshalJSON(exported, &gs)
			for _, f := range gs.FilesList {
				if v, ok := e.App.FileTreeKeeper.GetFiles(e.Ctx, f.Address, f.Owner); !ok || v.Contents != f.Contents {
					note("entry", f.Address+"/"+f.Owner)
				}
			}
			for _, k := range gs.PubKeyList {
				if v, ok := e.App.FileTreeKeeper.GetPubkey(e.Ctx, k.Address); !ok || v.Key != k.Key {
					note("public key", k.Address)
				}
			}
		case "notifications":
			var gs notiftypes.GenesisState
			cdc.MustUnmarshalJSON(exported, &gs)
			for _, n := range gs.Notifications {
				if v, ok := e.App.NotificationsKeeper.GetNotification(e.Ctx, n.To, n.From, n.Time); !ok || v.Contents != n.Contents {
					note("notification", fmt.Sprintf("%s/%s/%d", n.To, n.From, n.Time))
				}
			}
		case "oracle":
			var gs oracletypes.GenesisState
			cdc.MustUnmarshalJSON(exported, &gs)
			for _, f := range gs.FeedList {
				if v, ok := e.App.OracleKeeper.GetFeed(e.Ctx, f.Name); !ok || v.Owner != f.Owner {
					note("feed", f.Name)
				}
			}
		}
	})
	if pn != "" && miss == "" {
		miss = "the keyed lookups panic: " + pn
	}
	return miss
}
