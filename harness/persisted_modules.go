package main

// Persisted-state twin for every custom module (monitors only).  corpus/persisted/modules.json holds, per module, the
// raw content of its store on a busy chain as the release this work started from wrote it (made once by
// `harness persisted-snapshot`), and the genesis that release exported from it.  A run loads those bytes into a fresh
// app built from the tree under test, runs the modules' migrations from the recorded consensus versions, and exports:
// everything the earlier release's export contained must still be there.  A changed key or value format that comes
// without its migration makes the new binary blind to what the old one stored — names, bids, listings, files, plans,
// collateral, notifications, access lists — which breaks the property that speaks about those records on every
// chain that is upgraded rather than started afresh.

import (
	"encoding/hex"
	"encoding/json"
	"fmt"
	"os"
	"path/filepath"
	"reflect"

	"github.com/cosmos/cosmos-sdk/types/module"
)

type persistedModule struct {
	Module string          `json:"module"`
	KV     [][2]string     `json:"store_hex"`
	Export json.RawMessage `json:"exported_genesis"`
}

type persistedSnapshot struct {
	What    string            `json:"what"`
	Height  int64             `json:"height"`
	Modules []persistedModule `json:"modules"`
}

func persistedPopulate() (*Env, error) {
	e, err := NewEnv()
	if err != nil {
		return nil, err
	}
	e.NoGhost = true
	for i := 1; i <= c19Accounts; i++ {
		if err := e.Fund(Acct(i), "ujkl", 1_000_000_000_000_000); err != nil {
			return nil, err
		}
	}
	h := c19CrowdHistory()
	for _, o := range h.Ops {
		if o.Op == "restart" {
			continue
		}
		if out := c19Apply(e, o); out == "unknown-op" {
			return nil, fmt.Errorf("unknown operation %q", o.Op)
		}
	}
	return e, nil
}

func persistedMakeSnapshotTo(path string) error {
	e, err := persistedPopulate()
	if err != nil {
		return err
	}
	defer e.Close()
	snap := persistedSnapshot{What: "raw stores and exported genesis of every custom module after the busy history of the C19 check (more than 100 records of every kind)", Height: e.Height}
	for _, m := range c19Modules() {
		pm := persistedModule{Module: m.Name, Export: m.Export(e)}
		for _, kv := range mustDump(e, m.StoreKey) {
			pm.KV = append(pm.KV, [2]string{hex.EncodeToString(kv.K), hex.EncodeToString(kv.V)})
		}
		snap.Modules = append(snap.Modules, pm)
	}
	js, _ := json.Marshal(snap)
	return os.WriteFile(path, js, 0o644)
}

// jsonIncluded: is everything of `old` present in `now`?  Objects may gain members, lists must keep their elements
// (as a multiset: the order of an export may change).  Returns a path to the first thing missing.
func jsonIncluded(old, now interface{}, at string) string {
	switch o := old.(type) {
	case map[string]interface{}:
		n, ok := now.(map[string]interface{})
		if !ok {
			return at
		}
		for k, v := range o {
			nv, has := n[k]
			if !has {
				if v == nil || reflect.DeepEqual(v, "") || reflect.DeepEqual(v, []interface{}{}) {
					continue
				}
				return at + "." + k
			}
			if p := jsonIncluded(v, nv, at+"."+k); p != "" {
				return p
			}
		}
		return ""
	case []interface{}:
		n, ok := now.([]interface{})
		if !ok {
			if len(o) == 0 && now == nil {
				return ""
			}
			return at
		}
		used := make([]bool, len(n))
		for i, v := range o {
			found := false
			for j, nv := range n {
				if !used[j] && jsonIncluded(v, nv, "") == "" {
					used[j], found = true, true
					break
				}
			}
			if !found {
				return fmt.Sprintf("%s[%d]", at, i)
			}
		}
		return ""
	default:
		if reflect.DeepEqual(old, now) {
			return ""
		}
		return at
	}
}

// persistedModuleTwin runs the twin for one module and reports under the calling property's own signature.
func persistedModuleTwin(r *RunCtx, moduleName, sig string) error {
	raw, err := os.ReadFile(filepath.Join(c19VerifRoot(), "corpus", "persisted", "modules.json"))
	if err != nil {
		return fmt.Errorf("persisted state: %w", err)
	}
	var snap persistedSnapshot
	if err := json.Unmarshal(raw, &snap); err != nil {
		return err
	}
	e, err := NewEnv()
	if err != nil {
		return err
	}
	defer e.Close()
	e.At(snap.Height, T0.Add(timeOf(snap.Height)))
	var pm *persistedModule
	for i := range snap.Modules {
		if snap.Modules[i].Module == moduleName {
			pm = &snap.Modules[i]
		}
	}
	var mod *c19Module
	mods := c19Modules()
	for i := range mods {
		if mods[i].Name == moduleName {
			mod = &mods[i]
		}
	}
	if pm == nil || mod == nil {
		return fmt.Errorf("persisted state: module %s not in the snapshot", moduleName)
	}
	st := e.Ctx.KVStore(c19StoreKey(e, mod.StoreKey))
	for _, kv := range mustDump(e, mod.StoreKey) {
		st.Delete(kv.K)
	}
	for _, kv := range pm.KV {
		k, _ := hex.DecodeString(kv[0])
		v, _ := hex.DecodeString(kv[1])
		st.Set(k, v)
	}
	trace := []interface{}{map[string]interface{}{"op": "load the " + moduleName + " store written by the earlier release", "records": len(pm.KV), "height": snap.Height}}
	mm, cfg, _ := c13AppInternals(e)
	rawVM, err := os.ReadFile(filepath.Join(c19VerifRoot(), "corpus", "C13", "module_versions.json"))
	if err != nil {
		return err
	}
	recorded := module.VersionMap{}
	if err := json.Unmarshal(rawVM, &recorded); err != nil {
		return err
	}
	from := module.VersionMap{}
	for name, v := range mm.GetVersionMap() {
		from[name] = v
		if rv, ok := recorded[name]; ok && rv < v {
			from[name] = rv
		}
	}
	var merr error
	if pn := Guard(func() { _, merr = mm.RunMigrations(e.Ctx, cfg, from) }); pn != "" || merr != nil {
		r.Finding(sig+"/persisted/migration-failed", fmt.Sprintf("the migrations from the recorded versions fail on the %s store the earlier release wrote: %s %v", moduleName, pn, merr), map[string]interface{}{"trace": trace})
		return nil
	}
	var now []byte
	if pn := Guard(func() { now = mod.Export(e) }); pn != "" {
		r.Finding(sig+"/persisted/export-panics", "exporting the "+moduleName+" state the earlier release wrote panics: "+pn, map[string]interface{}{"trace": trace})
		return nil
	}
	var oldV, nowV interface{}
	if err := json.Unmarshal(pm.Export, &oldV); err != nil {
		return err
	}
	if err := json.Unmarshal(now, &nowV); err != nil {
		return err
	}
	// parameters live in the params module's store, not in the module's own: they are not part of what was loaded
	if om, ok := oldV.(map[string]interface{}); ok {
		delete(om, "params")
	}
	if p := jsonIncluded(oldV, nowV, moduleName); p != "" {
		r.Finding(sig+"/persisted/records-unreachable", "after loading the "+moduleName+" store as the earlier release wrote it (and running the migrations), the module no longer sees what that release exported from it; first difference at "+p, map[string]interface{}{"trace": trace, "at": p})
		return nil
	}
	r.Count("persisted-module:"+moduleName, true)
	r.Hist("persisted-state", moduleName+": everything the earlier release exported is still seen")
	return nil
}
