package main

// C15 — provider collateral is fully backed and returned exactly once; and the provider part of
// C11 — messages that manage a provider record touch only the signer's own record.
//
// History level on the assembled app (real bank, real params keeper): random interleavings of
// InitProvider / ShutdownProvider / governance changes of CollateralPrice / SetProviderIP /
// SetProviderKeybase / SetProviderTotalSpace / AddClaimer / RemoveClaimer / bank MsgSend to the
// escrow address, by four accounts under both bech32 spellings (plus a module account as an
// adversarial, signature-less signer).  After every operation the slice of state the property
// talks about is observed; the monitors evaluate the property statement on these observations
// (independently of the Coq model) and every (pre, op, post) triple is emitted as a case for
// Model.Collateral.step.

import (
	"fmt"
	"reflect"
	"sort"
	"strconv"
	"strings"
	"unsafe"

	sdk "github.com/cosmos/cosmos-sdk/types"
	banktypes "github.com/cosmos/cosmos-sdk/x/bank/types"
	"github.com/cosmos/cosmos-sdk/x/params"
	paramskeeper "github.com/cosmos/cosmos-sdk/x/params/keeper"
	paramproposal "github.com/cosmos/cosmos-sdk/x/params/types/proposal"
	storagetypes "github.com/jackalLabs/canine-chain/v4/x/storage/types"
)

func init() { runners["C15"] = runC15 }

const (
	c15Denom   = "ujkl"
	c15NAcct   = 5 // ids 1..4 ordinary accounts, 5 a module account (blocked recipient)
	c15Escrow  = 0 // id of the escrow module account in the model
	c15BadSg   = 99
	c15BigCoin = int64(4_000_000_000_000_000_000)
)

type c15Signer struct {
	ID int
	Up bool
}

func (s c15Signer) coq() string { return fmt.Sprintf("(%s, %s)", cN(uint64(s.ID)), cBool(s.Up)) }
func (s c15Signer) less(o c15Signer) bool {
	if s.ID != o.ID {
		return s.ID < o.ID
	}
	return !s.Up && o.Up
}

type c15Prov struct {
	Key      c15Signer
	Addr     c15Signer
	Ip       uint64
	Space    int64
	Creator  c15Signer
	Burned   int64
	Keybase  uint64
	Claimers []c15Signer
}

type c15Coll struct {
	Key c15Signer
	Amt int64
}

type c15Obs struct {
	Price   int64
	Provs   []c15Prov
	Colls   []c15Coll
	Bals    []int64 // index = account id (0 = escrow)
	Blocked []int   // ids
	Supply  int64
	Proofs  []c15Coll // number of proofs per prover spelling
}

// c15World is one app instance with the string tables of a history.
type c15World struct {
	e      *Env
	pk     paramskeeper.Keeper
	addrs  []sdk.AccAddress // by id
	spell  map[string]c15Signer
	strs   map[string]uint64 // opaque string ids (ip, keybase)
	strtab []string
	burnSeq int
}

func c15ParamsKeeper(e *Env) paramskeeper.Keeper {
	f := reflect.ValueOf(e.App).Elem().FieldByName("paramsKeeper")
	return reflect.NewAt(f.Type(), unsafe.Pointer(f.UnsafeAddr())).Elem().Interface().(paramskeeper.Keeper)
}

func c15NewWorld() (*c15World, error) {
	e, err := NewEnv()
	if err != nil {
		return nil, err
	}
	w := &c15World{e: e, pk: c15ParamsKeeper(e), spell: map[string]c15Signer{}, strs: map[string]uint64{}}
	w.addrs = make([]sdk.AccAddress, c15NAcct+1)
	w.addrs[c15Escrow] = e.ModAddr(storagetypes.CollateralCollectorName)
	for i := 1; i <= 4; i++ {
		w.addrs[i] = Acct(i)
	}
	w.addrs[5] = e.ModAddr("distribution")
	for i, a := range w.addrs {
		if a == nil {
			return nil, fmt.Errorf("C15: no address for id %d", i)
		}
		w.spell[Spell(a, false)] = c15Signer{i, false}
		w.spell[Spell(a, true)] = c15Signer{i, true}
	}
	return w, nil
}

func (w *c15World) str(s string) uint64 {
	if id, ok := w.strs[s]; ok {
		return id
	}
	id := uint64(len(w.strtab))
	w.strs[s] = id
	w.strtab = append(w.strtab, s)
	return id
}

// sg maps a stored string to a signer; a string that is no spelling of a known account (it can
// only come from a handler writing something else than its creator) gets a fresh id >= 1000.
func (w *c15World) sg(s string) (c15Signer, error) {
	v, ok := w.spell[s]
	if !ok {
		v = c15Signer{1000 + len(w.spell), false}
		w.spell[s] = v
	}
	return v, nil
}

func (w *c15World) observe() (c15Obs, error) {
	e := w.e
	o := c15Obs{Price: StorageParams(e).CollateralPrice, Supply: e.Supply(c15Denom)}
	for _, p := range e.App.StorageKeeper.GetAllProviders(e.Ctx) {
		// the store key is recovered through GetProviders: the iterator does not expose it
		key, err := w.provKey(p)
		if err != nil {
			return o, err
		}
		rec := c15Prov{Key: key, Ip: w.str(p.Ip), Keybase: w.str(p.KeybaseIdentity)}
		if rec.Addr, err = w.sg(p.Address); err != nil {
			return o, err
		}
		if rec.Creator, err = w.sg(p.Creator); err != nil {
			return o, err
		}
		// decimal strings written by the handlers; anything else (only a misbehaving handler writes it)
		// is shown as a sentinel no message can produce
		if rec.Space, err = strconv.ParseInt(p.Totalspace, 10, 64); err != nil {
			rec.Space = -(1 << 62) - int64(len(p.Totalspace))
		}
		if rec.Burned, err = strconv.ParseInt(p.BurnedContracts, 10, 64); err != nil {
			rec.Burned = -(1 << 62) - int64(len(p.BurnedContracts))
		}
		for _, c := range p.AuthClaimers {
			s, err := w.sg(c)
			if err != nil {
				return o, err
			}
			rec.Claimers = append(rec.Claimers, s)
		}
		o.Provs = append(o.Provs, rec)
	}
	sort.Slice(o.Provs, func(i, j int) bool { return o.Provs[i].Key.less(o.Provs[j].Key) })
	for _, c := range e.App.StorageKeeper.GetAllCollateral(e.Ctx) {
		k, err := w.sg(c.Address)
		if err != nil {
			return o, err
		}
		o.Colls = append(o.Colls, c15Coll{k, c.Amount})
	}
	sort.Slice(o.Colls, func(i, j int) bool { return o.Colls[i].Key.less(o.Colls[j].Key) })
	for i, a := range w.addrs {
		o.Bals = append(o.Bals, e.Bal(a, c15Denom))
		if e.App.BankKeeper.BlockedAddr(a) {
			o.Blocked = append(o.Blocked, i)
		}
	}
	cnt := map[c15Signer]int64{}
	for _, pr := range e.App.StorageKeeper.GetAllProofs(e.Ctx) {
		k, err := w.sg(pr.Prover)
		if err != nil {
			return o, err
		}
		cnt[k]++
	}
	for k, v := range cnt {
		o.Proofs = append(o.Proofs, c15Coll{k, v})
	}
	sort.Slice(o.Proofs, func(i, j int) bool { return o.Proofs[i].Key.less(o.Proofs[j].Key) })
	return o, nil
}

// provKey finds the store key of a listed provider record: the spelling under which
// GetProviders returns exactly this record (records are normally keyed by their Address).
func (w *c15World) provKey(p storagetypes.Providers) (c15Signer, error) {
	if q, ok := w.e.App.StorageKeeper.GetProviders(w.e.Ctx, p.Address); ok && reflect.DeepEqual(q, p) {
		return w.sg(p.Address)
	}
	for s, k := range w.spell {
		if q, ok := w.e.App.StorageKeeper.GetProviders(w.e.Ctx, s); ok && reflect.DeepEqual(q, p) {
			return k, nil
		}
	}
	return c15Signer{}, fmt.Errorf("C15: cannot locate the key of provider record %v", p)
}

func c15Sgs(l []c15Signer) string {
	if len(l) == 0 {
		return "[]"
	}
	parts := make([]string, len(l))
	for i, s := range l {
		parts[i] = s.coq()
	}
	return cList(parts)
}

func c15CollList(l []c15Coll) string {
	if len(l) == 0 {
		return "[]"
	}
	parts := make([]string, len(l))
	for i, c := range l {
		parts[i] = cPair(c.Key.coq(), cZ(c.Amt))
	}
	return cList(parts)
}

func (o c15Obs) coq() string {
	provs := make([]string, len(o.Provs))
	for i, p := range o.Provs {
		provs[i] = cPair(p.Key.coq(), fmt.Sprintf("mkP %s %s %s %s %s %s %s", p.Addr.coq(), cN(p.Ip), cZ(p.Space), p.Creator.coq(), cZ(p.Burned), cN(p.Keybase), c15Sgs(p.Claimers)))
	}
	ps := "[]"
	if len(provs) > 0 {
		ps = cList(provs)
	}
	bals := make([]string, len(o.Bals))
	for i, b := range o.Bals {
		bals[i] = cPair(cN(uint64(i)), cZ(b))
	}
	bl := make([]string, len(o.Blocked))
	for i, b := range o.Blocked {
		bl[i] = cN(uint64(b))
	}
	bls := "[]"
	if len(bl) > 0 {
		bls = cList(bl)
	}
	return fmt.Sprintf("(mkS %s %s %s %s %s %s %s)", cZ(o.Price), ps, c15CollList(o.Colls), cList(bals), bls, cZ(o.Supply), c15CollList(o.Proofs))
}

// knownProvs: the provider records stored under a spelling of one of the history's accounts
func (o c15Obs) knownProvs() []c15Prov {
	var l []c15Prov
	for _, p := range o.Provs {
		if p.Key.ID <= c15NAcct {
			l = append(l, p)
		}
	}
	return l
}

func (o c15Obs) prov(k c15Signer) *c15Prov {
	for i := range o.Provs {
		if o.Provs[i].Key == k {
			return &o.Provs[i]
		}
	}
	return nil
}

func (o c15Obs) coll(k c15Signer) (int64, bool) {
	for _, c := range o.Colls {
		if c.Key == k {
			return c.Amt, true
		}
	}
	return 0, false
}

func (o c15Obs) collSum() int64 {
	var s int64
	for _, c := range o.Colls {
		s += c.Amt
	}
	return s
}

// wealth of an account: liquid balance plus everything locked under either of its spellings
func (o c15Obs) wealth(id int) int64 {
	w := o.Bals[id]
	for _, c := range o.Colls {
		if c.Key.ID == id {
			w += c.Amt
		}
	}
	return w
}

// ---- operations

type c15Op struct {
	Kind    string    `json:"kind"`
	Creator string    `json:"creator,omitempty"` // raw string sent
	Sg      c15Signer `json:"signer"`
	VB      bool      `json:"creator_valid"`
	Ip      string    `json:"ip,omitempty"`
	IpOK    bool      `json:"ip_valid,omitempty"`
	Keybase string    `json:"keybase,omitempty"`
	Space   int64     `json:"space,omitempty"`
	Claimer string    `json:"claimer,omitempty"`
	ClSg    c15Signer `json:"claimer_signer"`
	Value   int64     `json:"value,omitempty"` // price / amount
	From    int       `json:"from,omitempty"`
}

func (w *c15World) opCoq(o c15Op) string {
	switch o.Kind {
	case "Init":
		return fmt.Sprintf("(OInit %s %s %s %s %s %s)", o.Sg.coq(), cBool(o.VB), cBool(o.IpOK), cN(w.str(o.Ip)), cZ(o.Space), cN(w.str(o.Keybase)))
	case "Shutdown":
		return fmt.Sprintf("(OShutdown %s %s)", o.Sg.coq(), cBool(o.VB))
	case "SetPrice":
		return fmt.Sprintf("(OSetPrice %s)", cZ(o.Value))
	case "SetIp":
		return fmt.Sprintf("(OSetIp %s %s %s %s)", o.Sg.coq(), cBool(o.VB), cBool(o.IpOK), cN(w.str(o.Ip)))
	case "SetKeybase":
		return fmt.Sprintf("(OSetKeybase %s %s %s)", o.Sg.coq(), cBool(o.VB), cN(w.str(o.Keybase)))
	case "SetSpace":
		return fmt.Sprintf("(OSetSpace %s %s %s)", o.Sg.coq(), cBool(o.VB), cZ(o.Space))
	case "AddClaimer":
		return fmt.Sprintf("(OAddClaimer %s %s %s)", o.Sg.coq(), cBool(o.VB), o.ClSg.coq())
	case "RemoveClaimer":
		return fmt.Sprintf("(ORemoveClaimer %s %s %s)", o.Sg.coq(), cBool(o.VB), o.ClSg.coq())
	case "Donate":
		return fmt.Sprintf("(ODonate %s %s)", cN(uint64(o.From)), cZ(o.Value))
	case "Burn":
		return fmt.Sprintf("(OBurn %s)", o.Sg.coq())
	}
	panic("C15: unknown op " + o.Kind)
}

func (w *c15World) exec(o c15Op) string {
	e := w.e
	switch o.Kind {
	case "Init":
		return e.Run(&storagetypes.MsgInitProvider{Creator: o.Creator, Ip: o.Ip, Keybase: o.Keybase, TotalSpace: o.Space}).Out
	case "Shutdown":
		return e.Run(&storagetypes.MsgShutdownProvider{Creator: o.Creator}).Out
	case "SetIp":
		return e.Run(&storagetypes.MsgSetProviderIP{Creator: o.Creator, Ip: o.Ip}).Out
	case "SetKeybase":
		return e.Run(&storagetypes.MsgSetProviderKeybase{Creator: o.Creator, Keybase: o.Keybase}).Out
	case "SetSpace":
		return e.Run(&storagetypes.MsgSetProviderTotalSpace{Creator: o.Creator, Space: o.Space}).Out
	case "AddClaimer":
		return e.Run(&storagetypes.MsgAddClaimer{Creator: o.Creator, ClaimAddress: o.Claimer}).Out
	case "RemoveClaimer":
		return e.Run(&storagetypes.MsgRemoveClaimer{Creator: o.Creator, ClaimAddress: o.Claimer}).Out
	case "Donate":
		// a negative amount cannot even be put into sdk.Coins; it is refused before ValidateBasic
		if o.Value < 0 {
			return OutFail
		}
		return e.Run(&banktypes.MsgSend{FromAddress: w.addrs[o.From].String(), ToAddress: w.addrs[c15Escrow].String(),
			Amount: sdk.Coins{sdk.Coin{Denom: c15Denom, Amount: sdk.NewInt(o.Value)}}}).Out
	case "Burn":
		// a reward block strikes the prover for a contract whose window it missed: a file that lists the prover with a
		// stale proof record is planted, then the keeper's own reward walk (ManageRewards, what BeginBlock runs every
		// CheckWindow blocks) removes the prover from it and calls burnContract.  Nothing else is due in this world
		// (no gauges, no other files).
		w.burnSeq++
		k := e.App.StorageKeeper
		merkle := []byte(fmt.Sprintf("missed-contract-%d", w.burnSeq))
		owner := w.addrs[1].String()
		pf := storagetypes.FileProof{Prover: o.Creator, Merkle: merkle, Owner: owner, Start: 1, LastProven: 1, ChunkToProve: 0}
		cctx, write := e.Ctx.WithBlockHeight(1_000_000).CacheContext()
		if pn := Guard(func() {
			k.SetFile(cctx, storagetypes.UnifiedFile{Merkle: merkle, Owner: owner, Start: 1, Expires: 1 << 40, FileSize: 1024, ProofInterval: 50, ProofType: 0,
				Proofs: []string{string(storagetypes.ProofKey(o.Creator, merkle, owner, 1))}, MaxProofs: 3, Note: "{}"})
			k.SetProof(cctx, pf)
			k.ManageRewards(cctx)
		}); pn != "" {
			return OutPanic
		}
		write()
		return OutOk
	case "SetPrice":
		// the governance path: the params module's proposal handler on a cache context
		// (x/gov executes a passed proposal that way and writes only on success)
		cctx, write := e.Ctx.CacheContext()
		h := params.NewParamChangeProposalHandler(w.pk)
		prop := paramproposal.NewParameterChangeProposal("t", "d", []paramproposal.ParamChange{
			paramproposal.NewParamChange(storagetypes.ModuleName, string(storagetypes.KeyCollateralPrice), fmt.Sprintf("\"%d\"", o.Value))})
		var err error
		if pn := Guard(func() { err = h(cctx, prop) }); pn != "" {
			return OutPanic
		}
		if err != nil {
			return OutFail
		}
		write()
		return OutOk
	}
	panic("C15: unknown op " + o.Kind)
}

func c15Out(o string) string {
	switch o {
	case OutOk:
		return "Ok"
	case OutFail:
		return "Fail"
	}
	return "Panic"
}

var c15Ips = []string{"http://a.example.com", "https://b.example.org:3333", "http://10.0.0.1:1", "/only/a/path", "not a url", "", "example.com"}
var c15IpValid = map[string]bool{"http://a.example.com": true, "https://b.example.org:3333": true, "http://10.0.0.1:1": true, "/only/a/path": true}
var c15Keybases = []string{"", "kb-one", "KB-TWO", "a/b", "0"}
var c15Prices = []int64{2, 3, 10_000_000, 10_000_000_000, 10_000_000, 77, c15BigCoin}
var c15BadPrices = []int64{1, 0, -1, -10_000_000}

// creator strings that must be refused by ValidateBasic (chosen by construction, not by asking the code)
func (w *c15World) badCreators() []string {
	a := w.addrs[1].String()
	mixed := strings.ToUpper(a[:10]) + a[10:]
	cosmos, _ := sdk.Bech32ifyAddressBytes("cosmos", w.addrs[1])
	return []string{"", "jkl1notanaddress", mixed, cosmos, a[:len(a)-1] + "x" + a[len(a)-1:], " " + a}
}

type c15Hist struct {
	r       *RunCtx
	w       *c15World
	group   string
	id      string
	tamper  bool // escrow or records were manipulated from outside: invariant monitors off
	trace   []map[string]interface{}
	base    []int64 // wealth baseline per account id
	nontriv bool
	gap     int64 // escrow balance minus recorded collaterals already reported
	sig     []string
}

func (h *c15Hist) finding(sig, what string) {
	h.r.Finding(sig, what, map[string]interface{}{"history": h.id, "group": h.group, "trace": h.trace, "strings": h.w.strtab})
}

func (h *c15Hist) rebase(o c15Obs) {
	h.base = make([]int64, len(o.Bals))
	for i := range o.Bals {
		h.base[i] = o.wealth(i)
	}
}

func c15EqProv(a, b *c15Prov) bool {
	if a == nil || b == nil {
		return a == b
	}
	return reflect.DeepEqual(*a, *b)
}

// step executes one operation, evaluates the monitors and emits the correspondence case.
func (h *c15Hist) step(o c15Op) error {
	w, r := h.w, h.r
	pre, err := w.observe()
	if err != nil {
		return err
	}
	out := w.exec(o)
	post, err := w.observe()
	if err != nil {
		return err
	}
	desc := map[string]interface{}{"op": o, "out": out, "pre": pre, "post": post}
	h.trace = append(h.trace, desc)
	if len(h.trace) > 60 {
		h.trace = h.trace[len(h.trace)-60:]
	}
	r.Case(h.group, fmt.Sprintf("Step %s %s %s %s", pre.coq(), w.opCoq(o), c15Out(out), post.coq()), map[string]interface{}{"history": h.id, "op": o, "out": out, "pre": pre, "post": post})
	h.sig = append(h.sig, o.Kind+":"+out)
	r.Hist("ops", o.Kind+"/"+out)
	if o.Kind == "Init" || o.Kind == "Shutdown" {
		up := "lower"
		if o.Sg.Up {
			up = "upper"
		}
		if !o.VB {
			up = "invalid"
		}
		r.Hist("spelling", up)
		r.Hist("price-in-force", fmt.Sprint(pre.Price))
	}
	changed := !reflect.DeepEqual(pre, post)
	if changed {
		h.nontriv = true
	}
	_, hasColl := pre.coll(o.Sg)
	r.Count(fmt.Sprintf("step:%s:%s:rec=%v:coll=%v:up=%v:price=%d:nprov=%d:v=%d", o.Kind, out, pre.prov(o.Sg) != nil, hasColl, o.Sg.Up, pre.Price, len(pre.Provs), o.Value), changed)

	// ---------------- monitors (the property statement on the implementation) ----------------
	kind := o.Kind
	if out == OutPanic {
		// sdk.NewInt64Coin panics on a negative amount: reachable only from a forced (invalid) negative
		// CollateralPrice or a planted negative collateral record; anything else is reported
		amt, _ := pre.coll(o.Sg)
		if !(kind == "Init" && pre.Price < 0) && !(kind == "Shutdown" && amt < 0) {
			h.finding("C15/panic/"+kind, "a provider message panicked")
		}
	}
	// M4: a failed or panicking operation changes nothing
	if out != OutOk && changed {
		h.finding("C15/failed-op-changed-state/"+kind, "an operation that failed changed balances or records")
	}
	// M1: the escrow holds exactly the recorded collaterals
	if gap := post.Bals[c15Escrow] - post.collSum(); !h.tamper && gap != h.gap {
		h.gap = gap // report where the gap arises or changes, not at every later operation
		h.finding("C15/escrow-mismatch/"+kind, fmt.Sprintf("escrow balance %d differs from the sum of collateral records %d", post.Bals[c15Escrow], post.collSum()))
	}
	if post.Supply != pre.Supply {
		h.finding("C15/supply-changed/"+kind, "total supply changed")
	}
	me := o.Sg.ID
	switch kind {
	case "Init":
		if out == OutOk {
			price := pre.Price
			amt, has := post.coll(o.Sg)
			switch {
			case !o.VB:
				h.finding("C15/init-accepted-invalid", "InitProvider accepted a creator string that is not an address")
			case pre.prov(o.Sg) != nil:
				h.finding("C15/init-over-existing", "InitProvider succeeded although the provider record existed")
			case !has || amt != price:
				h.finding("C15/init-record", fmt.Sprintf("collateral recorded %d (present %v), price in force %d", amt, has, price))
			case me != c15Escrow && (post.Bals[me] != pre.Bals[me]-price || post.Bals[c15Escrow] != pre.Bals[c15Escrow]+price):
				h.finding("C15/init-debit", fmt.Sprintf("registrant %d -> %d, escrow %d -> %d, price in force %d", pre.Bals[me], post.Bals[me], pre.Bals[c15Escrow], post.Bals[c15Escrow], price))
			case post.prov(o.Sg) == nil:
				h.finding("C15/init-no-provider", "InitProvider succeeded without a provider record")
			}
			if p := post.prov(o.Sg); p != nil && (p.Addr != o.Sg || p.Creator != o.Sg || p.Burned != 0 || len(p.Claimers) != 0 || p.Space != o.Space || p.Ip != w.str(o.Ip) || p.Keybase != w.str(o.Keybase)) {
				h.finding("C15/init-record-fields", "the new provider record does not carry the message's fields under the creator's spelling")
			}
		}
	case "Shutdown":
		if out == OutOk {
			amt, has := pre.coll(o.Sg)
			_, still := post.coll(o.Sg)
			switch {
			case !o.VB:
				h.finding("C15/shutdown-accepted-invalid", "ShutdownProvider accepted an invalid creator")
			case pre.prov(o.Sg) == nil:
				h.finding("C15/shutdown-without-provider", "ShutdownProvider succeeded for a spelling that owns no provider record (second or foreign claim)")
			case post.prov(o.Sg) != nil || still:
				h.finding("C15/shutdown-not-removed", "provider or collateral record still present after shutdown")
			case has && me != c15Escrow && (post.Bals[me] != pre.Bals[me]+amt || post.Bals[c15Escrow] != pre.Bals[c15Escrow]-amt):
				h.finding("C15/shutdown-credit", fmt.Sprintf("provider %d -> %d, escrow %d -> %d, recorded %d (price now %d)", pre.Bals[me], post.Bals[me], pre.Bals[c15Escrow], post.Bals[c15Escrow], amt, pre.Price))
			case !has && (post.Bals[me] != pre.Bals[me] || post.Bals[c15Escrow] != pre.Bals[c15Escrow]):
				h.finding("C15/shutdown-credit-unrecorded", "coins moved on shutdown of a provider without a collateral record")
			}
			// observation (not part of C15): proofs held by the provider survive its shutdown
			for _, pr := range pre.Proofs {
				if pr.Key == o.Sg {
					r.Hist("shutdown-with-proofs", fmt.Sprintf("proofs-kept=%v", reflect.DeepEqual(pre.Proofs, post.Proofs)))
				}
			}
		} else if o.VB && pre.prov(o.Sg) != nil && !h.tamper {
			// liveness: an existing provider on a backed escrow gets its collateral back
			blocked := false
			for _, b := range pre.Blocked {
				blocked = blocked || b == me
			}
			if !blocked {
				h.finding("C15/shutdown-refused", "ShutdownProvider failed for an existing provider although the escrow is backed")
			}
		}
	case "SetPrice":
		// (which values the validator admits is not part of the property; the model mirrors it and the
		// correspondence reports a change of the validator)
		if out == OutOk && post.Price != o.Value {
			h.finding("C15/setprice", "an accepted parameter change did not store the proposed price")
		}
	case "Donate":
		if out == OutOk {
			h.finding("C15/escrow-accepts-deposit", "a bank send to the escrow module account succeeded")
		}
	}
	// M5: frame — only the signer's own records / account (and the escrow) may change
	if kind != "SetPrice" && post.Price != pre.Price {
		h.finding("C15/price-changed/"+kind, "a message changed CollateralPrice")
	}
	money := kind == "Init" || kind == "Shutdown"
	for id := range pre.Bals {
		if pre.Bals[id] != post.Bals[id] && !(money && (id == me || id == c15Escrow)) {
			h.finding("C15/foreign-balance/"+kind, fmt.Sprintf("balance of account %d changed from %d to %d", id, pre.Bals[id], post.Bals[id]))
		}
	}
	{
		keys := map[c15Signer]bool{}
		for _, p := range pre.Provs {
			keys[p.Key] = true
		}
		for _, p := range post.Provs {
			keys[p.Key] = true
		}
		for _, c := range pre.Colls {
			keys[c.Key] = true
		}
		for _, c := range post.Colls {
			keys[c.Key] = true
		}
		for k := range keys {
			own := o.VB && k == o.Sg && kind != "SetPrice" && kind != "Donate" // (for "Burn": the struck prover's own record)
			a0, h0 := pre.coll(k)
			a1, h1 := post.coll(k)
			if (a0 != a1 || h0 != h1) && !(own && money) {
				h.finding("C15/foreign-collateral/"+kind, fmt.Sprintf("collateral record of %v changed by a message of %v", k, o.Sg))
			}
			if !c15EqProv(pre.prov(k), post.prov(k)) && !own {
				h.finding("C15/provmsgs/foreign-record/"+kind, fmt.Sprintf("provider record of %v changed by a message of %v", k, o.Sg))
			}
		}
		// the own record changes only in the field the message names
		if p0, p1 := pre.prov(o.Sg), post.prov(o.Sg); out == OutOk && p0 != nil && p1 != nil {
			want := *p0
			switch kind {
			case "SetIp":
				want.Ip = w.str(o.Ip)
			case "SetKeybase":
				want.Keybase = w.str(o.Keybase)
			case "SetSpace":
				want.Space = o.Space
			case "AddClaimer":
				want.Claimers = append(append([]c15Signer{}, p0.Claimers...), o.ClSg)
			case "Burn":
				want.Burned = p0.Burned + 1
			case "RemoveClaimer":
				want.Claimers = nil
				for _, c := range p0.Claimers {
					if c != o.ClSg {
						want.Claimers = append(want.Claimers, c)
					}
				}
			}
			if kind != "Init" && kind != "Shutdown" && !reflect.DeepEqual(want, *p1) {
				h.finding("C15/provmsgs/own-record/"+kind, "the signer's provider record changed in more than the field the message names")
			}
		}
		// a strike leaves the provider registered: it can still shut down and claim what it locked
		if kind == "Burn" && pre.prov(o.Sg) != nil && post.prov(o.Sg) == nil {
			h.finding("C15/strike/provider-record-removed", fmt.Sprintf("the reward block's strike removed the provider record of %v while its collateral stays recorded: it can no longer shut down", o.Sg))
		}
		if out == OutOk && kind != "Init" && kind != "SetPrice" && kind != "Donate" && kind != "Burn" && pre.prov(o.Sg) == nil {
			h.finding("C15/provmsgs/no-record/"+kind, "a provider-management message succeeded for a spelling without a provider record")
		}
	}
	// M6: liquid + locked wealth of every account is conserved by every interleaving
	if !h.tamper {
		for id := 1; id < len(post.Bals); id++ {
			if post.wealth(id) != h.base[id] {
				h.finding("C15/wealth-not-conserved/"+kind, fmt.Sprintf("account %d: balance plus locked collateral was %d, now %d", id, h.base[id], post.wealth(id)))
				h.rebase(post)
			}
		}
	}
	return nil
}

func (h *c15Hist) count() {
	h.r.Count(h.group+":"+strings.Join(h.sig, ","), h.nontriv)
}

// ---- generators

func (w *c15World) randSigner(p *PRNG) (string, c15Signer, bool) {
	if p.Chance(1, 14) {
		return PickOne(p, w.badCreators()), c15Signer{c15BadSg, false}, false
	}
	id := 1 + p.Intn(4)
	if p.Chance(1, 16) {
		id = 5
	}
	up := p.Chance(1, 3)
	return Spell(w.addrs[id], up), c15Signer{id, up}, true
}

func (w *c15World) forcePrice(v int64) {
	// writes the raw parameter, bypassing validateCollateralPrice (a state no governance change reaches)
	ss, _ := w.pk.GetSubspace(storagetypes.ModuleName)
	ss.Set(w.e.Ctx, storagetypes.KeyCollateralPrice, v)
}

func (w *c15World) fundSpread(p *PRNG, price int64) error {
	amounts := []int64{5*price + 12345, price, price - 1, 3 * price, 40*price + 1}
	for i := 1; i <= 5; i++ {
		a := amounts[(i+p.Intn(5))%5]
		if a <= 0 {
			continue
		}
		if i == 5 {
			// a module account cannot be funded through SendCoinsFromModuleToAccount (blocked)
			if err := w.e.Fund(Acct(50), c15Denom, a); err != nil {
				return err
			}
			if err := w.e.App.BankKeeper.SendCoins(w.e.Ctx, Acct(50), w.addrs[5], sdk.NewCoins(sdk.NewInt64Coin(c15Denom, a))); err != nil {
				return err
			}
			continue
		}
		if err := w.e.Fund(w.addrs[i], c15Denom, a); err != nil {
			return err
		}
	}
	return nil
}

func (h *c15Hist) randomOp(p *PRNG, provHeavy bool) (c15Op, bool) {
	w := h.w
	creator, sg, vb := w.randSigner(p)
	o := c15Op{Creator: creator, Sg: sg, VB: vb}
	x := p.Intn(100)
	if provHeavy {
		x = 30 + p.Intn(70)
		if p.Chance(1, 5) {
			x = p.Intn(30)
		}
	}
	switch {
	case x < 16:
		o.Kind = "Init"
		o.Ip = PickOne(p, c15Ips[:4])
		if p.Chance(1, 10) {
			o.Ip = PickOne(p, c15Ips)
		}
		o.IpOK = c15IpValid[o.Ip]
		o.Keybase = PickOne(p, c15Keybases)
		o.Space = PickOne(p, []int64{0, 1, 1 << 40, -5, 1<<63 - 1})
	case x < 30:
		o.Kind = "Shutdown"
	case x < 40:
		o = c15Op{Kind: "SetPrice", Sg: c15Signer{c15BadSg, false}, Value: PickOne(p, c15Prices)}
		if p.Chance(1, 4) {
			o.Value = PickOne(p, c15BadPrices)
		}
	case x < 44:
		o = c15Op{Kind: "Donate", Sg: c15Signer{c15BadSg, false}, From: 1 + p.Intn(4), Value: PickOne(p, []int64{1, 5, 1000, 0})}
	case x < 56:
		o.Kind = "SetIp"
		o.Ip = PickOne(p, c15Ips)
		if p.Chance(2, 3) {
			o.Ip = PickOne(p, c15Ips[:4])
		}
		o.IpOK = c15IpValid[o.Ip]
	case x < 66:
		o.Kind = "SetKeybase"
		o.Keybase = PickOne(p, c15Keybases)
	case x < 76:
		o.Kind = "SetSpace"
		o.Space = PickOne(p, []int64{0, 7, 1 << 50, -1, -1 << 63})
	default:
		o.Kind = "AddClaimer"
		if x >= 88 {
			o.Kind = "RemoveClaimer"
		}
		if p.Chance(1, 12) {
			o.Claimer = PickOne(p, w.badCreators())
			o.ClSg = c15Signer{c15BadSg, false}
			o.VB = false
		} else {
			id, up := 1+p.Intn(3), p.Chance(1, 3)
			o.Claimer, o.ClSg = Spell(w.addrs[id], up), c15Signer{id, up}
		}
	}
	return o, true
}

// directed ops: aim at existing / just removed providers so that the interesting branches are frequent
func (h *c15Hist) directedOp(p *PRNG, last *c15Op, provHeavy bool) *c15Op {
	w := h.w
	obs, err := w.observe()
	if err != nil || len(obs.knownProvs()) == 0 {
		return nil
	}
	pr := obs.knownProvs()[p.Intn(len(obs.knownProvs()))]
	sel := p.Intn(9)
	if provHeavy {
		sel = PickOne(p, []int{3, 4, 4, 4, 5, 5, 6, 6, 6, 2, 0, 7})
	}
	switch sel {
	case 7, 8: // a reward block strikes the provider for a missed window
		return &c15Op{Kind: "Burn", Creator: Spell(w.addrs[pr.Key.ID], pr.Key.Up), Sg: pr.Key, VB: true}
	case 0: // shutdown by the owner
		return &c15Op{Kind: "Shutdown", Creator: Spell(w.addrs[pr.Key.ID], pr.Key.Up), Sg: pr.Key, VB: true}
	case 1: // shutdown by the same account under the other spelling
		k := c15Signer{pr.Key.ID, !pr.Key.Up}
		return &c15Op{Kind: "Shutdown", Creator: Spell(w.addrs[k.ID], k.Up), Sg: k, VB: true}
	case 2: // init again over an existing record
		return &c15Op{Kind: "Init", Creator: Spell(w.addrs[pr.Key.ID], pr.Key.Up), Sg: pr.Key, VB: true, Ip: c15Ips[0], IpOK: true, Keybase: "again", Space: 9}
	case 3: // repeat the previous message (second claim)
		if last != nil {
			c := *last
			return &c
		}
	case 4: // owner adds / removes a claimer already present
		if len(pr.Claimers) > 0 {
			c := pr.Claimers[p.Intn(len(pr.Claimers))]
			kind := PickOne(p, []string{"AddClaimer", "RemoveClaimer", "RemoveClaimer"})
			return &c15Op{Kind: kind, Creator: Spell(w.addrs[pr.Key.ID], pr.Key.Up), Sg: pr.Key, VB: true, Claimer: Spell(w.addrs[c.ID], c.Up), ClSg: c}
		}
	case 6: // the same account under the other spelling manages the record (it owns a different one, or none)
		k := c15Signer{pr.Key.ID, !pr.Key.Up}
		o := &c15Op{Kind: PickOne(p, []string{"SetIp", "SetKeybase", "SetSpace", "AddClaimer", "RemoveClaimer", "RemoveClaimer"}), Creator: Spell(w.addrs[k.ID], k.Up), Sg: k, VB: true, Ip: c15Ips[2], IpOK: true, Keybase: "twin", Space: 77}
		cl := c15Signer{1 + p.Intn(3), p.Chance(1, 3)}
		if len(pr.Claimers) > 0 && p.Chance(3, 4) {
			cl = pr.Claimers[p.Intn(len(pr.Claimers))]
		}
		if cl.ID <= c15NAcct {
			o.Claimer, o.ClSg = Spell(w.addrs[cl.ID], cl.Up), cl
			return o
		}
	case 5: // a stranger edits
		k := c15Signer{1 + (pr.Key.ID % 4), pr.Key.Up}
		return &c15Op{Kind: PickOne(p, []string{"SetIp", "SetKeybase", "SetSpace"}), Creator: Spell(w.addrs[k.ID], k.Up), Sg: k, VB: true, Ip: c15Ips[1], IpOK: true, Keybase: "stranger", Space: 123}
	}
	return nil
}

// tampering from outside the message handlers (no case is emitted; it only prepares pre-states)
func (h *c15Hist) tamperOp(p *PRNG, allowEscrow bool) error {
	w, e := h.w, h.w.e
	obs, err := w.observe()
	if err != nil {
		return err
	}
	sel := p.Intn(8)
	if sel >= 6 {
		sel = 2
	}
	if allowEscrow && p.Chance(1, 2) {
		sel = 4
	}
	switch sel {
	case 0:
		w.forcePrice(PickOne(p, []int64{0, 1, -5, 0}))
		h.r.Hist("tamper", "force-price")
	case 1: // burned contracts on an existing provider (what burnContract does)
		if len(obs.knownProvs()) > 0 {
			k := obs.knownProvs()[p.Intn(len(obs.knownProvs()))].Key
			if rec, ok := e.App.StorageKeeper.GetProviders(e.Ctx, Spell(w.addrs[k.ID], k.Up)); ok {
				rec.BurnedContracts = fmt.Sprint(1 + p.Intn(5))
				e.App.StorageKeeper.SetProviders(e.Ctx, rec)
				h.r.Hist("tamper", "burned")
			}
		}
	case 2: // the provider holds proofs
		if len(obs.knownProvs()) > 0 {
			k := obs.knownProvs()[p.Intn(len(obs.knownProvs()))].Key
			e.App.StorageKeeper.SetProof(e.Ctx, storagetypes.FileProof{Prover: Spell(w.addrs[k.ID], k.Up), Merkle: []byte{byte(p.Intn(250)), 1}, Owner: w.addrs[1].String(), Start: 1, LastProven: 1})
			h.r.Hist("tamper", "proof")
		}
	case 3: // a provider without a collateral record (as an imported genesis may contain)
		id, up := 1+p.Intn(4), p.Bool()
		s := Spell(w.addrs[id], up)
		if _, ok := e.App.StorageKeeper.GetProviders(e.Ctx, s); !ok {
			e.App.StorageKeeper.SetProviders(e.Ctx, storagetypes.Providers{Address: s, Ip: c15Ips[0], Totalspace: "5", BurnedContracts: "2", Creator: s, KeybaseIdentity: "gen", AuthClaimers: []string{}})
			h.r.Hist("tamper", "provider-without-collateral")
		}
	case 4: // negative recorded amount / drained escrow / foreign deposit: outside the invariant
		if allowEscrow && len(obs.Colls) > 0 {
			h.tamper = true
			c := obs.Colls[p.Intn(len(obs.Colls))]
			switch p.Intn(3) {
			case 0:
				e.App.StorageKeeper.SetCollateral(e.Ctx, storagetypes.Collateral{Address: Spell(w.addrs[c.Key.ID], c.Key.Up), Amount: -7})
				h.r.Hist("tamper", "negative-collateral")
			case 1:
				if obs.Bals[c15Escrow] > 0 {
					_ = e.App.BankKeeper.SendCoins(e.Ctx, w.addrs[c15Escrow], Acct(60), sdk.NewCoins(sdk.NewInt64Coin(c15Denom, 1+p.I64n(obs.Bals[c15Escrow]))))
					h.r.Hist("tamper", "drain-escrow")
				}
			case 2:
				e.App.StorageKeeper.SetCollateral(e.Ctx, storagetypes.Collateral{Address: Spell(w.addrs[c.Key.ID], c.Key.Up), Amount: c.Amt + 5})
				h.r.Hist("tamper", "inflate-collateral")
			}
		}
	case 5: // top an account up (re-init after shutdown needs funds)
		id := 1 + p.Intn(4)
		amt := obs.Price
		if amt > 1_000_000_000_000 || amt < 0 {
			amt = 1_000_000_000_000
		}
		if err := e.Fund(w.addrs[id], c15Denom, amt+p.I64n(3)); err == nil {
			h.r.Hist("tamper", "fund")
		}
	}
	post, err := w.observe()
	if err != nil {
		return err
	}
	h.rebase(post)
	return nil
}

func runC15(r *RunCtx) error {
	return c15Histories(r, r.Scale(11, 220), r.Scale(5, 80), true)
}

// c15Histories runs nh collateral histories (group "hist") and nprov histories heavy on the provider-record
// management messages (group "provmsgs"); the latter are also part of the C11 check (own-resource frames).
func c15Histories(r *RunCtx, nh, nprov int, setRule bool) error {
	rule := "histories of 30..60 provider operations on the assembled app (InitProvider, ShutdownProvider, governance change of CollateralPrice, SetProviderIP/Keybase/TotalSpace, Add/RemoveClaimer, bank send to the escrow) by 4 accounts + 1 module account under both bech32 spellings and invalid creator strings, with funding at price-1/price/multiples, prices 2..4e18 and forced 0/1/negative prices; one evaluation = one executed operation (= one correspondence case) plus one per whole history; non-trivial = the operation changed the observed state, distinct by (kind, outcome, own record/collateral present, spelling, price in force, number of providers, value); a history is non-trivial if any of its operations is, distinct by its sequence of (kind, outcome)"
	if setRule {
		r.Sum.Rule = rule
	}
	r.Group("hist", "From JK Require Import Model.Collateral Corr.C15.", "c15_case", "c15_ok")
	r.Group("provmsgs", "From JK Require Import Model.Collateral Corr.C15.", "c15_case", "c15_ok")
	p := r.Rng
	for k := 0; k < nh+nprov; k++ {
		provHeavy := k >= nh
		w, err := c15NewWorld()
		if err != nil {
			return err
		}
		h := &c15Hist{r: r, w: w, id: fmt.Sprintf("%s-%d", map[bool]string{false: "hist", true: "provmsgs"}[provHeavy], k), group: map[bool]string{false: "hist", true: "provmsgs"}[provHeavy]}
		price := PickOne(p, []int64{10_000_000_000, 10_000_000, 2, 1000})
		if k == 0 {
			price = 10_000_000_000
		}
		if price != 10_000_000_000 {
			pr := StorageParams(w.e)
			pr.CollateralPrice = price
			GovSetStorageParams(w.e, pr)
		}
		if err := w.fundSpread(p, price); err != nil {
			return err
		}
		if !provHeavy && p.Chance(1, 5) {
			// one whale that can afford the largest price once
			if err := w.e.Fund(w.addrs[1+p.Intn(4)], c15Denom, c15BigCoin+p.I64n(1000)); err != nil {
				return err
			}
		}
		obs, err := w.observe()
		if err != nil {
			return err
		}
		h.rebase(obs)
		if k == 0 && nh > 0 {
			if err := h.scripted(); err != nil {
				return err
			}
		}
		allowEscrow := !provHeavy && k%5 == 4
		if k == 4 && nh > 0 {
			if err := h.scriptedOutside(); err != nil {
				return err
			}
		}
		n := 30 + p.Intn(r.Scale(12, 31))
		var last *c15Op
		for i := 0; i < n; i++ {
			if p.Chance(1, 9) {
				if err := h.tamperOp(p, allowEscrow); err != nil {
					return err
				}
			}
			var o c15Op
			if d := h.directedOp(p, last, provHeavy); d != nil && p.Chance(2, 5) {
				o = *d
			} else if provHeavy && i < 4 {
				id, up := 1+i%4, i%3 == 1
				o = c15Op{Kind: "Init", Creator: Spell(w.addrs[id], up), Sg: c15Signer{id, up}, VB: true, Ip: c15Ips[i%4], IpOK: true, Keybase: "k", Space: int64(i)}
			} else if provHeavy && i == 4 {
				// provider 1 authorises provider 3 as claimer; when 3 later shuts down, 1's record is none of its business
				o = c15Op{Kind: "AddClaimer", Creator: w.addrs[1].String(), Sg: c15Signer{1, false}, VB: true, Claimer: w.addrs[3].String(), ClSg: c15Signer{3, false}}
			} else if provHeavy && i == 5 {
				o = c15Op{Kind: "Shutdown", Creator: w.addrs[3].String(), Sg: c15Signer{3, false}, VB: true}
			} else {
				o, _ = h.randomOp(p, provHeavy)
				// aim most record-management messages at a spelling that owns a record
				if cur, err := w.observe(); err == nil && len(cur.knownProvs()) > 0 && o.VB && o.Kind != "Init" && o.Kind != "SetPrice" && o.Kind != "Donate" && p.Chance(3, 5) {
					o.Sg = cur.knownProvs()[p.Intn(len(cur.knownProvs()))].Key
					o.Creator = Spell(w.addrs[o.Sg.ID], o.Sg.Up)
				}
			}
			if err := h.step(o); err != nil {
				return err
			}
			oc := o
			last = &oc
		}
		h.count()
		if k < 2 {
			r.Sample(map[string]interface{}{"history": h.id, "ops": h.sig})
		}
		w.e.Close()
	}
	return nil
}

// scripted runs the scenarios the property names, deterministically, at the start of the first history.
func (h *c15Hist) scripted() error {
	w, e := h.w, h.w.e
	top := func(id int, want int64) error { // set the balance of an account to exactly `want` (only ever tops up)
		have := e.Bal(w.addrs[id], c15Denom)
		if have < want {
			if err := e.Fund(w.addrs[id], c15Denom, want-have); err != nil {
				return err
			}
		} else if have > want {
			if err := e.App.BankKeeper.SendCoins(e.Ctx, w.addrs[id], Acct(61), sdk.NewCoins(sdk.NewInt64Coin(c15Denom, have-want))); err != nil {
				return err
			}
		}
		o, err := w.observe()
		if err != nil {
			return err
		}
		h.rebase(o)
		return nil
	}
	mk := func(kind string, id int, up bool) c15Op {
		return c15Op{Kind: kind, Creator: Spell(w.addrs[id], up), Sg: c15Signer{id, up}, VB: true, Ip: c15Ips[0], IpOK: true, Keybase: "kb", Space: 1 << 30}
	}
	price := func(v int64) c15Op { return c15Op{Kind: "SetPrice", Sg: c15Signer{c15BadSg, false}, Value: v} }
	P := StorageParams(e).CollateralPrice
	steps := []func() error{
		func() error { return top(1, 3*P) }, func() error { return top(2, P-1) }, func() error { return top(3, P) },
		func() error { return h.step(mk("Shutdown", 1, false)) }, // shutdown without init
		func() error { return h.step(mk("Init", 2, false)) },     // price-1: insufficient funds
		func() error { return h.step(mk("Init", 3, false)) },     // exactly the price
		func() error { return h.step(mk("Init", 1, false)) },
		func() error { return h.step(mk("Init", 1, false)) }, // record exists
		func() error { return h.step(mk("Init", 1, true)) },  // the same account under the other spelling: a second record, a second collateral
		func() error { return h.step(price(10_000_000)) },
		func() error { return h.step(price(1)) },                 // refused by validateCollateralPrice
		func() error { return h.step(mk("Shutdown", 2, false)) }, // a stranger without a record
		func() error { return h.step(mk("Shutdown", 3, true)) },  // account 3's other spelling owns nothing
		func() error { return h.step(mk("Shutdown", 1, false)) }, // gets back P, not the current price
		func() error { return h.step(mk("Shutdown", 1, false)) }, // second claim
		func() error { return h.step(mk("Init", 1, false)) },     // re-init at the new price
		func() error { return h.step(price(c15BigCoin)) },
		func() error { return h.step(mk("Shutdown", 1, true)) }, // the upper-case record still holds P
		func() error { return h.step(mk("Shutdown", 1, false)) },
		func() error { return h.step(mk("Init", 2, true)) }, // nobody affords the large price
		func() error { w.forcePrice(0); return nil },
		func() error { return h.step(mk("Init", 2, false)) }, // price 0: a record of 0, nothing moves
		func() error { return h.step(mk("Shutdown", 2, false)) },
		func() error { w.forcePrice(1); return nil },
		func() error { return h.step(mk("Init", 2, true)) },
		func() error { w.forcePrice(-5); return nil },
		func() error { return h.step(mk("Init", 4, false)) }, // NewInt64Coin panics
		func() error { return h.step(price(2)) },
		func() error { // a provider holding proofs shuts down
			e.App.StorageKeeper.SetProof(e.Ctx, storagetypes.FileProof{Prover: Spell(w.addrs[3], false), Merkle: []byte{7, 7}, Owner: w.addrs[1].String(), Start: 1, LastProven: 1})
			return h.step(mk("Shutdown", 3, false))
		},
		func() error { return h.step(mk("Init", 5, false)) },     // a module account (no key in reality) registers ...
		func() error { return h.step(mk("Shutdown", 5, false)) }, // ... and cannot be refunded: blocked recipient
		func() error { return h.step(c15Op{Kind: "Donate", Sg: c15Signer{c15BadSg, false}, From: 1, Value: 1}) },
		// a provider that keeps missing its windows is struck by reward block after reward block: it stays registered,
		// its collateral stays recorded, it cannot register a second time and gets back exactly what it locked
		func() error { return top(4, 1_000) },
		func() error { return h.step(mk("Init", 4, false)) },
		func() error { return h.step(mk("Burn", 4, false)) },
		func() error { return h.step(mk("Burn", 4, false)) },
		func() error { return h.step(mk("Burn", 4, false)) },
		func() error { return h.step(mk("Burn", 4, false)) },
		func() error { return h.step(mk("Burn", 4, true)) }, // a prover string that is no provider: skipped
		func() error { return h.step(price(7)) },
		func() error { return h.step(mk("Init", 4, false)) },
		func() error { return h.step(mk("Shutdown", 4, false)) },
		func() error { return h.step(mk("Shutdown", 4, false)) },
	}
	for _, f := range steps {
		if err := f(); err != nil {
			return err
		}
	}
	return nil
}

// scriptedOutside plants states no sequence of messages reaches (an imported genesis could) and
// runs the handlers on them: only the correspondence with the model is checked there.
func (h *c15Hist) scriptedOutside() error {
	w, e := h.w, h.w.e
	h.tamper = true
	mk := func(kind string, id int, up bool) c15Op {
		return c15Op{Kind: kind, Creator: Spell(w.addrs[id], up), Sg: c15Signer{id, up}, VB: true, Ip: c15Ips[0], IpOK: true, Keybase: "kb", Space: 3}
	}
	P := StorageParams(e).CollateralPrice
	for id := 1; id <= 3; id++ {
		if err := e.Fund(w.addrs[id], c15Denom, 4*P); err != nil {
			return err
		}
	}
	steps := []func() error{
		func() error { return h.step(mk("Init", 1, false)) },
		func() error { return h.step(mk("Init", 2, false)) },
		func() error { return h.step(mk("Init", 3, true)) },
		func() error { // a negative recorded amount: NewInt64Coin panics, nothing changes
			e.App.StorageKeeper.SetCollateral(e.Ctx, storagetypes.Collateral{Address: Spell(w.addrs[1], false), Amount: -7})
			return h.step(mk("Shutdown", 1, false))
		},
		func() error { // more recorded than the escrow holds: the refund fails, nothing changes
			e.App.StorageKeeper.SetCollateral(e.Ctx, storagetypes.Collateral{Address: Spell(w.addrs[1], false), Amount: 3*P + 1})
			return h.step(mk("Shutdown", 1, false))
		},
		func() error { // exactly what the escrow holds
			e.App.StorageKeeper.SetCollateral(e.Ctx, storagetypes.Collateral{Address: Spell(w.addrs[1], false), Amount: 3 * P})
			return h.step(mk("Shutdown", 1, false))
		},
		func() error { return h.step(mk("Shutdown", 2, false)) }, // the escrow is empty now: account 2 cannot be refunded
		func() error { // a collateral record without a provider record is overwritten by a registration
			e.App.StorageKeeper.SetCollateral(e.Ctx, storagetypes.Collateral{Address: Spell(w.addrs[1], true), Amount: 55})
			return h.step(mk("Init", 1, true))
		},
		func() error { return h.step(mk("Shutdown", 1, true)) },
	}
	for _, f := range steps {
		if err := f(); err != nil {
			return err
		}
	}
	o, err := w.observe()
	if err != nil {
		return err
	}
	h.rebase(o)
	return nil
}
