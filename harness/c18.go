package main

// C18 — an inbox lists exactly what was sent to it, not blocked, not deleted.
// History level on the assembled app: interleavings of MsgCreateNotification (address and RNS-name
// targets, both bech32 spellings), MsgDeleteNotification (by recipient, sender, stranger; exact,
// respelled and adversarial from/time) and MsgBlockSenders among 4 accounts, several sends per block
// and across blocks.  After every message: raw KV dump of the module's "Notification/" prefix, the
// three grpc queries, the monitors (a Go copy of the abstract specification: sent & not blocked & not
// deleted), and one correspondence case (pre, op, post, queries) for the Coq model.

import (
	"encoding/json"
	"fmt"
	"math"
	"sort"
	"strings"
	"time"

	"github.com/cosmos/cosmos-sdk/store/prefix"
	"github.com/cosmos/cosmos-sdk/store/rootmulti"
	sdk "github.com/cosmos/cosmos-sdk/types"
	"github.com/cosmos/cosmos-sdk/types/query"
	notifkeeper "github.com/jackalLabs/canine-chain/v4/x/notifications/keeper"
	notiftypes "github.com/jackalLabs/canine-chain/v4/x/notifications/types"
	rnstypes "github.com/jackalLabs/canine-chain/v4/x/rns/types"
)

func init() { runners["C18"] = runC18 }

type c18Note struct {
	To       string `json:"to"`
	From     string `json:"from"`
	Time     int64  `json:"time"`
	Contents string `json:"contents"`
	Priv     string `json:"priv"`
}

type c18KV struct {
	Key string  `json:"key"`
	Val c18Note `json:"val"`
}

// ---- Coq printers (strings as (bs "...") to keep the case files small)

// the eight account spellings are defined once per case file (c18Preamble) and referred to by name:
// type-checking a byte-string literal costs ~50us per byte in coqc, and almost all bytes are addresses
var c18Tokens [][2]string // (spelling, Coq name)

func c18Preamble() string {
	setBech32()
	var b strings.Builder
	b.WriteString("From JK Require Import Base.Bytes Model.Notifications Corr.C18.\n")
	c18Tokens = nil
	for i := 1; i <= 4; i++ {
		lo, up := Acct(i).String(), strings.ToUpper(Acct(i).String())
		c18Tokens = append(c18Tokens, [2]string{lo, fmt.Sprintf("a%d", i)}, [2]string{up, fmt.Sprintf("ua%d", i)})
		fmt.Fprintf(&b, "Definition a%d : bytes := Eval vm_compute in bs \"%s\".\nDefinition ua%d : bytes := Eval vm_compute in bs \"%s\".\n", i, lo, i, up)
	}
	return b.String()
}

func c18Lit(s string) string {
	for i := 0; i < len(s); i++ {
		if s[i] < 32 || s[i] > 126 {
			return cBytes([]byte(s))
		}
	}
	return `(bs "` + strings.ReplaceAll(s, `"`, `""`) + `")`
}

// prints a byte string literally, as a concatenation of named account spellings and literals
func c18S(s string) string {
	if s == "" {
		return "(@nil N)"
	}
	parts := []string{}
	lit := 0
	for i := 0; i < len(s); {
		matched := false
		for _, t := range c18Tokens {
			if strings.HasPrefix(s[i:], t[0]) {
				if lit < i {
					parts = append(parts, c18Lit(s[lit:i]))
				}
				parts = append(parts, t[1])
				i += len(t[0])
				lit = i
				matched = true
				break
			}
		}
		if !matched {
			i++
		}
	}
	if lit < len(s) {
		parts = append(parts, c18Lit(s[lit:]))
	}
	if len(parts) == 1 {
		return parts[0]
	}
	return "(" + strings.Join(parts, " ++ ") + ")"
}

func c18NoteT(n c18Note) string {
	return fmt.Sprintf("(mkNote %s %s %s %s %s)", c18S(n.To), c18S(n.From), cZ(n.Time), c18S(n.Contents), c18S(n.Priv))
}

func c18NotesT(ns []c18Note) string {
	if len(ns) == 0 {
		return "(@nil note)"
	}
	p := make([]string, len(ns))
	for i, n := range ns {
		p[i] = c18NoteT(n)
	}
	return cList(p)
}

func c18StoreT(kv []c18KV) string {
	if len(kv) == 0 {
		return "(@nil (bytes * note))"
	}
	p := make([]string, len(kv))
	for i, e := range kv {
		p[i] = cPair(c18S(e.Key), c18NoteT(e.Val))
	}
	return cList(p)
}

func c18OptS(s *string) string {
	if s == nil {
		return "None"
	}
	return "(Some " + c18S(*s) + ")"
}

// ---- access to the implementation

func c18StoreKey(e *Env) (sdk.StoreKey, error) {
	rs, ok := e.App.CommitMultiStore().(*rootmulti.Store)
	if !ok {
		return nil, fmt.Errorf("commit multistore is not a rootmulti.Store")
	}
	for k := range rs.GetStores() {
		if k.Name() == notiftypes.StoreKey {
			return k, nil
		}
	}
	return nil, fmt.Errorf("store key %s not found", notiftypes.StoreKey)
}

// raw dump of the module's store; every key must sit under the one prefix the module uses
func c18Dump(e *Env, ctx sdk.Context, key sdk.StoreKey) ([]c18KV, error) {
	st := ctx.KVStore(key)
	it := st.Iterator(nil, nil)
	defer it.Close()
	out := []c18KV{}
	pfx := notiftypes.NotificationsKeyPrefix
	for ; it.Valid(); it.Next() {
		k := string(it.Key())
		if !strings.HasPrefix(k, pfx) {
			return nil, fmt.Errorf("unexpected key %q outside the %q prefix", k, pfx)
		}
		var n notiftypes.Notification
		if err := e.App.AppCodec().Unmarshal(it.Value(), &n); err != nil {
			return nil, fmt.Errorf("value under %q does not decode: %v", k, err)
		}
		out = append(out, c18KV{Key: k[len(pfx):], Val: c18Note{n.To, n.From, n.Time, n.Contents, string(n.PrivateContents)}})
	}
	_ = prefix.NewStore
	return out, nil
}

func c18FromPB(ns []notiftypes.Notification) []c18Note {
	out := make([]c18Note, len(ns))
	for i, n := range ns {
		out[i] = c18Note{n.To, n.From, n.Time, n.Contents, string(n.PrivateContents)}
	}
	return out
}

func c18QInbox(e *Env, ctx sdk.Context, arg string) ([]c18Note, error) {
	res, err := e.App.NotificationsKeeper.AllNotificationsByAddress(sdk.WrapSDKContext(ctx),
		&notiftypes.QueryAllNotificationsByAddress{To: arg, Pagination: &query.PageRequest{Limit: 100000}})
	if err != nil {
		return nil, err
	}
	return c18FromPB(res.Notifications), nil
}

func c18QAll(e *Env, ctx sdk.Context) ([]c18Note, error) {
	res, err := e.App.NotificationsKeeper.AllNotifications(sdk.WrapSDKContext(ctx),
		&notiftypes.QueryAllNotifications{Pagination: &query.PageRequest{Limit: 100000}})
	if err != nil {
		return nil, err
	}
	return c18FromPB(res.Notifications), nil
}

func c18QOne(e *Env, ctx sdk.Context, to, from string, t int64) *c18Note {
	res, err := e.App.NotificationsKeeper.Notification(sdk.WrapSDKContext(ctx), &notiftypes.QueryNotification{To: to, From: from, Time: t})
	if err != nil {
		return nil
	}
	n := c18FromPB([]notiftypes.Notification{res.Notification})[0]
	return &n
}

// ---- operations

type c18Op struct {
	Kind     string   `json:"kind"` // create | delete | block
	Signer   int      `json:"signer"`
	Creator  string   `json:"creator"` // raw msg.Creator
	To       string   `json:"to,omitempty"`
	Contents string   `json:"contents,omitempty"`
	Priv     string   `json:"priv,omitempty"`
	From     string   `json:"from,omitempty"`
	Time     int64    `json:"time,omitempty"`
	ToBlock  []string `json:"to_block,omitempty"`
	Height   int64    `json:"height"`
	NowMicro int64    `json:"now_micro"`
	Out      string   `json:"out,omitempty"`
	Note     string   `json:"note,omitempty"`
}

func (o c18Op) msg() sdk.Msg {
	switch o.Kind {
	case "create":
		return &notiftypes.MsgCreateNotification{Creator: o.Creator, To: o.To, Contents: o.Contents, PrivateContents: []byte(o.Priv)}
	case "delete":
		return &notiftypes.MsgDeleteNotification{Creator: o.Creator, From: o.From, Time: o.Time}
	default:
		return &notiftypes.MsgBlockSenders{Creator: o.Creator, ToBlock: o.ToBlock}
	}
}

// glue: what sdk.AccAddressFromBech32(s).String() gives
func c18Canon(s string) *string {
	a, err := sdk.AccAddressFromBech32(s)
	if err != nil {
		return nil
	}
	c := a.String()
	return &c
}

// glue: what rns.Resolve gives on the context the message will run on
func c18Resolve(e *Env, ctx sdk.Context, target string) *string {
	var res *string
	p := Guard(func() {
		a, err := e.App.RnsKeeper.Resolve(ctx, target)
		if err == nil {
			c := a.String()
			res = &c
		}
	})
	if p != "" {
		return nil
	}
	return res
}

func c18OpT(e *Env, ctx sdk.Context, o c18Op) string {
	sg := fmt.Sprintf("(mkSigner %s %s)", c18S(o.Creator), c18OptS(c18Canon(o.Creator)))
	switch o.Kind {
	case "create":
		return fmt.Sprintf("(Create %s %s %s %s %s %s)", sg, c18OptS(c18Resolve(e, ctx, o.To)), cZ(ctx.BlockTime().UnixMicro()),
			c18S(o.Contents), c18S(o.Priv), cBool(json.Valid([]byte(o.Contents))))
	case "delete":
		return fmt.Sprintf("(Delete %s %s %s)", sg, c18S(o.From), cZ(o.Time))
	default:
		ts := make([]string, len(o.ToBlock))
		for i, t := range o.ToBlock {
			ts[i] = c18OptS(c18Resolve(e, ctx, t))
		}
		if len(ts) == 0 {
			return fmt.Sprintf("(Block %s (@nil (option bytes)))", sg)
		}
		return fmt.Sprintf("(Block %s %s)", sg, cList(ts))
	}
}

func c18OutT(out string) string {
	if out == OutOk {
		return "Ok"
	}
	return "Fail"
}

// ---- the abstract specification maintained beside the implementation (the monitor)

type c18Spec struct {
	inbox   map[string][]c18Note // by canonical address of the account
	blocked map[[2]string]bool   // (owner, sender) canonical addresses
}

func c18NoteKey(n c18Note) string {
	return fmt.Sprintf("%q|%q|%d|%q|%q", n.To, n.From, n.Time, n.Contents, n.Priv)
}

// multiset difference of two note lists: (in a not in b, in b not in a)
func c18Diff(a, b []c18Note) (onlyA, onlyB []c18Note) {
	cnt := map[string]int{}
	for _, n := range b {
		cnt[c18NoteKey(n)]++
	}
	for _, n := range a {
		k := c18NoteKey(n)
		if cnt[k] > 0 {
			cnt[k]--
		} else {
			onlyA = append(onlyA, n)
		}
	}
	cnt = map[string]int{}
	for _, n := range a {
		cnt[c18NoteKey(n)]++
	}
	for _, n := range b {
		k := c18NoteKey(n)
		if cnt[k] > 0 {
			cnt[k]--
		} else {
			onlyB = append(onlyB, n)
		}
	}
	return
}

type c18World struct {
	e     *Env
	key   sdk.StoreKey
	accts []sdk.AccAddress
	names map[string]string // full name -> stored value (what the harness itself pointed it at)
	spec  c18Spec
	trace []c18Op
	r     *RunCtx
	hist  int
}

func (w *c18World) acctOf(s string) (int, bool) {
	a, err := sdk.AccAddressFromBech32(s)
	if err != nil {
		return 0, false
	}
	for i, x := range w.accts {
		if x.Equals(a) {
			return i, true
		}
	}
	return 0, false
}

// the harness's own idea of whom a target denotes (independent of rns.Resolve): an address in either
// spelling, or a name it registered itself whose value is an address
func (w *c18World) denotes(target string) (string, bool) {
	if a, err := sdk.AccAddressFromBech32(target); err == nil {
		return a.String(), true
	}
	if v, ok := w.names[target]; ok {
		if a, err := sdk.AccAddressFromBech32(v); err == nil {
			return a.String(), true
		}
	}
	return "", false
}

func (w *c18World) setName(full, value string) {
	parts := strings.SplitN(full, ".", 2)
	w.e.App.RnsKeeper.SetNames(w.e.Ctx, rnstypes.Names{Name: parts[0], Tld: parts[1], Value: value, Expires: 1 << 40})
	w.names[full] = value
}

func (w *c18World) finding(sig, what string, extra map[string]interface{}) {
	rep := map[string]interface{}{"history": w.hist, "trace": append([]c18Op{}, w.trace...)}
	for k, v := range extra {
		rep[k] = v
	}
	w.r.Finding(sig, what, rep)
}

// compares every account's queried inbox, the all-notifications query and single lookups with the spec
func (w *c18World) compare(ctx sdk.Context, o c18Op) error {
	all := []c18Note{}
	for _, a := range w.accts {
		addr := a.String()
		got, err := c18QInbox(w.e, ctx, addr)
		if err != nil {
			return err
		}
		want := w.spec.inbox[addr]
		extra, missing := c18Diff(got, want)
		all = append(all, want...)
		if len(extra) > 0 {
			kind := "phantom-entry"
			if o.Kind == "delete" {
				if c := c18Canon(o.Creator); c != nil && *c == addr {
					kind = "deleted-entry-still-listed"
				}
			}
			for _, x := range extra {
				for _, m := range missing {
					if x.To == m.To && x.Time == m.Time && (x.From == m.From || strings.EqualFold(x.From, m.From)) {
						kind = "altered-entry"
					}
				}
			}
			w.finding("C18/"+o.Kind+"/"+kind, fmt.Sprintf("after a %s message the inbox of %s lists an entry that was not sent to it (or not as sent)", o.Kind, addr),
				map[string]interface{}{"inbox": addr, "listed": got, "sent_not_deleted": want, "extra": extra})
		}
		if len(missing) > 0 && len(extra) == 0 {
			kind := "missing-entry"
			if o.Kind == "delete" {
				if c := c18Canon(o.Creator); c == nil || *c != addr {
					kind = "removed-by-non-recipient"
				}
			}
			w.finding("C18/"+o.Kind+"/"+kind, fmt.Sprintf("after a %s message the inbox of %s no longer lists a notification that was sent to it and that it did not delete", o.Kind, addr),
				map[string]interface{}{"inbox": addr, "listed": got, "sent_not_deleted": want, "missing": missing})
		}
		for _, n := range want {
			one := c18QOne(w.e, ctx, n.To, n.From, n.Time)
			if one == nil || c18NoteKey(*one) != c18NoteKey(n) {
				w.finding("C18/"+o.Kind+"/lookup-mismatch", "Notification(to, from, time) does not return the notification that was sent", map[string]interface{}{"want": n, "got": one})
			}
		}
	}
	exported := c18FromPB(w.e.App.NotificationsKeeper.GetAllNotifications(ctx)) // what ExportGenesis writes
	if ex, mi := c18Diff(exported, all); len(ex) > 0 || len(mi) > 0 {
		w.finding("C18/"+o.Kind+"/export-mismatch", "GetAllNotifications (the exported genesis) is not the union of the inboxes (sent, not deleted)", map[string]interface{}{"extra": ex, "missing": mi})
	}
	gotAll, err := c18QAll(w.e, ctx)
	if err != nil {
		return err
	}
	if ex, mi := c18Diff(gotAll, all); len(ex) > 0 || len(mi) > 0 {
		w.finding("C18/"+o.Kind+"/all-notifications-mismatch", "AllNotifications is not the union of the inboxes (sent, not deleted)", map[string]interface{}{"extra": ex, "missing": mi})
	}
	return nil
}

// applies an executed op to the spec and checks the op-level clauses of the property
func (w *c18World) applySpec(o c18Op, out string) {
	me := c18Canon(o.Creator)
	if me == nil {
		if out == OutOk {
			w.finding("C18/"+o.Kind+"/unauthenticated-ok", "a message whose creator is not an address succeeded", nil)
		}
		return
	}
	switch o.Kind {
	case "create":
		to, ok := w.denotes(o.To)
		if out != OutOk {
			return
		}
		if !ok {
			w.finding("C18/create/ok-without-recipient", "a notification to a target that denotes no account succeeded", nil)
			return
		}
		if w.spec.blocked[[2]string{to, *me}] {
			w.finding("C18/create/blocked-sender-delivered", fmt.Sprintf("%s had blocked %s, whose notification was accepted (creator spelled %q)", to, *me, o.Creator), nil)
		}
		w.spec.inbox[to] = append(w.spec.inbox[to], c18Note{To: to, From: *me, Time: o.NowMicro, Contents: o.Contents, Priv: o.Priv})
	case "delete":
		if out != OutOk {
			return
		}
		keep := []c18Note{}
		for _, n := range w.spec.inbox[*me] {
			if !(n.From == o.From && n.Time == o.Time) {
				keep = append(keep, n)
			}
		}
		w.spec.inbox[*me] = keep
	case "block":
		if out != OutOk {
			return
		}
		for _, t := range o.ToBlock {
			if a, ok := w.denotes(t); ok {
				w.spec.blocked[[2]string{*me, a}] = true
			}
		}
	}
}

// on a branch of the state: every blocked (owner, sender) pair must be unable to deliver, in either
// spelling of the sender and of the owner
func (w *c18World) probeBlocked(p *PRNG, limit int) {
	pairs := [][2]string{}
	for k := range w.spec.blocked {
		pairs = append(pairs, k)
	}
	sort.Slice(pairs, func(i, j int) bool { return pairs[i][0]+pairs[i][1] < pairs[j][0]+pairs[j][1] })
	for i := 0; i < limit && len(pairs) > 0; i++ {
		pr := pairs[p.Intn(len(pairs))]
		creator, to := pr[1], pr[0]
		if p.Bool() {
			creator = strings.ToUpper(creator)
		}
		if p.Chance(1, 3) {
			to = strings.ToUpper(to)
		}
		saved := w.e.Ctx
		branch, _ := saved.CacheContext()
		w.e.Ctx = branch.WithBlockTime(saved.BlockTime().Add(977e3)) // a time no earlier send used
		res := w.e.Run(&notiftypes.MsgCreateNotification{Creator: creator, To: to, Contents: `{"probe":1}`})
		w.e.Ctx = saved
		w.r.Hist("probe_blocked", res.Out)
		if res.Out == OutOk {
			w.finding("C18/create/blocked-sender-delivered", fmt.Sprintf("%s had blocked %s, whose notification was accepted (creator spelled %q)", pr[0], pr[1], creator),
				map[string]interface{}{"probe": map[string]string{"creator": creator, "to": to}})
		}
	}
}

// contents are the sender's bytes: valid JSON with insignificant white space, key order, escapes and number spellings
// of the sender's choosing must come back from the inbox as sent
var c18Contents = []string{`{"msg":"hi"}`, `{}`, `[1,2]`, `"s"`, `0`, `{"a":{"b":"/"}}`, `null`,
	`{"msg": "hey bob", "n": 2}`, "{\n  \"msg\": \"pretty\",\n  \"n\": 3\n}", ` {"lead":1} `, `{"b":1,"a":2}`, `{"u":"\u0041\/"}`, `1.50`, `[ ]`, "{\t\"tab\":true}"}

func (w *c18World) allNotes() []c18Note {
	out := []c18Note{}
	for _, a := range w.accts {
		out = append(out, w.spec.inbox[a.String()]...)
	}
	return out
}

func (w *c18World) spell(p *PRNG, i int) string { return Spell(w.accts[i], p.Chance(1, 3)) }

var c18Names = []string{"alice.jkl", "bob.jkl", "carol.jkl", "dave.ibc", "nobody.jkl", "junk.jkl"}

func (w *c18World) target(p *PRNG) string {
	switch p.Intn(10) {
	case 0, 1, 2:
		return PickOne(p, c18Names)
	case 3:
		return PickOne(p, []string{"", "x", "jkl1notanaddress", "a/b", "alice", ".jkl"})
	default:
		return w.spell(p, p.Intn(len(w.accts)))
	}
}

func (w *c18World) genOp(p *PRNG, seq int) c18Op {
	n := len(w.accts)
	o := c18Op{Signer: p.Intn(n)}
	o.Creator = w.spell(p, o.Signer)
	switch k := p.Intn(20); {
	case k < 9:
		o.Kind = "create"
		o.To = w.target(p)
		o.Contents = fmt.Sprintf(`{"n":%d}`, seq)
		if p.Chance(1, 4) {
			o.Contents = PickOne(p, c18Contents)
		}
		if p.Chance(1, 25) {
			o.Contents = PickOne(p, []string{"not json", "{", ""})
		}
		if p.Chance(1, 3) {
			o.Priv = PickOne(p, []string{"secret", "/", "a/b/c", "\x01\x02"})
		}
		// aim at an existing block entry: a blocked sender writing to its blocker
		if len(w.spec.blocked) > 0 && p.Chance(1, 4) {
			ks := [][2]string{}
			for kk := range w.spec.blocked {
				ks = append(ks, kk)
			}
			sort.Slice(ks, func(i, j int) bool { return ks[i][0]+ks[i][1] < ks[j][0]+ks[j][1] })
			pr := PickOne(p, ks)
			if i, ok := w.acctOf(pr[1]); ok {
				o.Signer, o.Creator = i, w.spell(p, i)
				o.To = pr[0]
				if p.Chance(1, 3) {
					o.To = strings.ToUpper(o.To)
				}
			}
		}
	case k < 15:
		o.Kind = "delete"
		notes := w.allNotes()
		if len(notes) == 0 || p.Chance(1, 8) {
			o.From = w.spell(p, p.Intn(n))
			o.Time = PickOne(p, []int64{0, -1, 1, w.e.Time.UnixMicro(), math.MaxInt64, math.MinInt64})
			break
		}
		nt := PickOne(p, notes)
		o.From, o.Time = nt.From, nt.Time
		switch p.Intn(12) {
		case 0, 1, 2, 3, 4: // the recipient
			if i, ok := w.acctOf(nt.To); ok {
				o.Signer, o.Creator = i, w.spell(p, i)
			}
		case 5, 6: // the sender
			if i, ok := w.acctOf(nt.From); ok {
				o.Signer, o.Creator = i, w.spell(p, i)
			}
		case 7: // the sender, naming the recipient in from
			if i, ok := w.acctOf(nt.From); ok {
				o.Signer, o.Creator = i, w.spell(p, i)
				o.From = nt.To
			}
		case 8: // recipient, neighbouring time
			if i, ok := w.acctOf(nt.To); ok {
				o.Signer, o.Creator = i, w.spell(p, i)
			}
			o.Time += PickOne(p, []int64{-1, 1})
		case 9: // recipient, sender respelled
			if i, ok := w.acctOf(nt.To); ok {
				o.Signer, o.Creator = i, w.spell(p, i)
			}
			o.From = strings.ToUpper(nt.From)
		case 10: // adversarial from strings built from key pieces
			o.From = PickOne(p, []string{nt.From + "/", nt.To + "/" + nt.From, "", "/", nt.From + fmt.Sprintf("/%d", nt.Time),
				"../" + nt.To + "/" + nt.From, "./" + nt.From, nt.From + "/.", "/" + nt.From, "../../" + nt.To + "/" + nt.From})
		default: // whoever was drawn (often a stranger)
		}
	default:
		o.Kind = "block"
		m := 1 + p.Intn(3)
		if p.Chance(1, 12) {
			m = 0
		}
		for i := 0; i < m; i++ {
			o.ToBlock = append(o.ToBlock, w.target(p))
		}
	}
	return o
}

// executes one op on the main history: dump, run, dump, queries, monitors, correspondence case
func (w *c18World) exec(p *PRNG, o c18Op) error {
	e := w.e
	o.Height, o.NowMicro = e.Height, e.Ctx.BlockTime().UnixMicro()
	pre, err := c18Dump(e, e.Ctx, w.key)
	if err != nil {
		return err
	}
	opT := c18OpT(e, e.Ctx, o)
	res := e.Run(o.msg())
	o.Out = res.Out
	if res.Out == OutPanic {
		w.trace = append(w.trace, o)
		w.finding("C18/"+o.Kind+"/panic", "handler panicked: "+res.Err, nil)
		return nil
	}
	post, err := c18Dump(e, e.Ctx, w.key)
	if err != nil {
		return err
	}
	w.trace = append(w.trace, o)
	w.applySpec(o, res.Out)
	if err := w.compare(e.Ctx, o); err != nil {
		return err
	}
	if o.Kind == "block" || p.Chance(1, 4) {
		w.probeBlocked(p, 3)
	}
	// observations for the model
	qargs := []string{}
	for _, a := range w.accts {
		qargs = append(qargs, a.String())
	}
	qargs = append(qargs, strings.ToUpper(w.accts[p.Intn(len(w.accts))].String()))
	if p.Chance(1, 3) {
		qargs = append(qargs, PickOne(p, []string{"", "/", w.accts[0].String() + "/" + w.accts[1].String(), w.accts[1].String() + "/", "jkl1"}))
	}
	inb := make([]string, len(qargs))
	for i, a := range qargs {
		got, err := c18QInbox(e, e.Ctx, a)
		if err != nil {
			return err
		}
		inb[i] = cPair(c18S(a), c18NotesT(got))
		// the same inbox read in small pages (offset/limit) must list exactly the same entries
		if i < len(w.accts) && len(got) > 0 {
			lim := uint64(1 + p.Intn(2))
			var paged []c18Note
			for off := uint64(0); off <= uint64(len(got))+lim; off += lim {
				res, err := e.App.NotificationsKeeper.AllNotificationsByAddress(sdk.WrapSDKContext(e.Ctx),
					&notiftypes.QueryAllNotificationsByAddress{To: a, Pagination: &query.PageRequest{Offset: off, Limit: lim}})
				if err != nil {
					return err
				}
				paged = append(paged, c18FromPB(res.Notifications)...)
			}
			same := len(paged) == len(got)
			for j := 0; same && j < len(got); j++ {
				same = paged[j] == got[j]
			}
			w.r.Hist("paged_inbox_reads", fmt.Sprintf("limit=%d entries=%d", lim, len(got)))
			if !same {
				w.finding("C18/query/paged-inbox-differs", fmt.Sprintf("the inbox of %s read in pages of %d lists %d entries, read at once %d", a, lim, len(paged), len(got)),
					map[string]interface{}{"address": a, "limit": lim, "paged": paged, "at_once": got})
			}
		}
	}
	all, err := c18QAll(e, e.Ctx)
	if err != nil {
		return err
	}
	type triple struct {
		to, from string
		t        int64
	}
	trs := []triple{}
	for _, kv := range post {
		if len(trs) < 3 || p.Chance(1, 4) {
			trs = append(trs, triple{kv.Val.To, kv.Val.From, kv.Val.Time})
		}
	}
	trs = append(trs, triple{w.accts[0].String(), w.accts[1].String(), o.NowMicro}, triple{w.accts[p.Intn(4)].String(), w.accts[p.Intn(4)].String(), 0})
	if o.Kind == "delete" {
		if c := c18Canon(o.Creator); c != nil {
			trs = append(trs, triple{*c, o.From, o.Time})
		}
	}
	ones := make([]string, len(trs))
	for i, t := range trs {
		g := c18QOne(e, e.Ctx, t.to, t.from, t.t)
		gs := "None"
		if g != nil {
			gs = "(Some " + c18NoteT(*g) + ")"
		}
		ones[i] = fmt.Sprintf("(%s, %s, %s, %s)", c18S(t.to), c18S(t.from), cZ(t.t), gs)
	}
	exported := c18FromPB(e.App.NotificationsKeeper.GetAllNotifications(e.Ctx))
	term := fmt.Sprintf("StepCase %s %s %s %s %s %s %s %s", c18StoreT(pre), opT, c18OutT(res.Out), c18StoreT(post), cList(inb), c18NotesT(all), c18NotesT(exported), cList(ones))
	desc := map[string]interface{}{"history": w.hist, "step": len(w.trace) - 1, "op": o, "pre": pre, "post": post}
	w.r.Case("hist", term, desc)
	changed := len(pre) != len(post)
	refused := o.Kind == "create" && res.Out == OutFail && c18Canon(o.Creator) != nil && json.Valid([]byte(o.Contents))
	w.r.Count(fmt.Sprintf("%s|%s|%s|%s|%s|%d|%v|%d|%d", o.Kind, o.Creator, o.To, o.Contents, o.From, o.Time, o.ToBlock, o.NowMicro, len(pre)), changed || refused)
	w.r.Hist("ops", o.Kind+":"+res.Out)
	if w.hist == 0 {
		w.r.Sample(desc)
	}
	return nil
}

// the message server called directly on a branch (no ValidateBasic), branch inspected whatever it returned
func (w *c18World) handlerCase(o c18Op) error {
	e := w.e
	branch, _ := e.Ctx.CacheContext()
	o.Height, o.NowMicro = e.Height, branch.BlockTime().UnixMicro()
	pre, err := c18Dump(e, branch, w.key)
	if err != nil {
		return err
	}
	opT := c18OpT(e, branch, o)
	srv := notifkeeper.NewMsgServerImpl(e.App.NotificationsKeeper)
	out := OutOk
	pn := Guard(func() {
		var herr error
		switch m := o.msg().(type) {
		case *notiftypes.MsgCreateNotification:
			_, herr = srv.CreateNotification(sdk.WrapSDKContext(branch), m)
		case *notiftypes.MsgDeleteNotification:
			_, herr = srv.DeleteNotification(sdk.WrapSDKContext(branch), m)
		case *notiftypes.MsgBlockSenders:
			_, herr = srv.BlockSenders(sdk.WrapSDKContext(branch), m)
		}
		if herr != nil {
			out = OutFail
		}
	})
	if pn != "" {
		w.finding("C18/"+o.Kind+"/panic", "handler panicked: "+pn, map[string]interface{}{"op": o})
		return nil
	}
	post, err := c18Dump(e, branch, w.key)
	if err != nil {
		return err
	}
	o.Out = out
	w.r.Case("hist", fmt.Sprintf("HandlerCase %s %s %s %s", c18StoreT(pre), opT, c18OutT(out), c18StoreT(post)),
		map[string]interface{}{"history": w.hist, "handler_level": true, "op": o, "pre": pre, "post": post})
	w.r.Count(fmt.Sprintf("h|%s|%s|%s|%s|%d|%v|%d", o.Kind, o.Creator, o.To, o.From, o.Time, o.ToBlock, len(pre)), len(pre) != len(post))
	w.r.Hist("ops", "handler-"+o.Kind+":"+out)
	return nil
}

func (w *c18World) advance(p *PRNG) {
	d := PickOne(p, []int64{6e9, 6e9, 6e9, 5e9, 1e3, 400, 1e9 + 1})
	w.e.At(w.e.Height+1, w.e.Time.Add(time.Duration(d)))
}

func c18NewWorld(r *RunCtx, hist int) (*c18World, error) {
	e, err := NewEnv()
	if err != nil {
		return nil, err
	}
	key, err := c18StoreKey(e)
	if err != nil {
		e.Close()
		return nil, err
	}
	w := &c18World{e: e, key: key, r: r, hist: hist, names: map[string]string{}, spec: c18Spec{inbox: map[string][]c18Note{}, blocked: map[[2]string]bool{}}}
	for i := 1; i <= 4; i++ {
		w.accts = append(w.accts, Acct(i))
	}
	// a fifth account whose bech32 spelling happens to end in the letters of a TLD (one address in 32768 does), and a
	// name somebody else registered that spells the rest of that address: an address target is that account, whatever
	// names exist
	victim := c18AddressEndingIn("jkl")
	w.accts = append(w.accts, victim)
	vs := victim.String()
	w.e.App.RnsKeeper.SetNames(w.e.Ctx, rnstypes.Names{Name: vs[:len(vs)-4], Tld: "jkl", Value: w.accts[3].String(), Expires: 1 << 40})
	// a sixth account: a 32-byte (contract-sized) address whose bech32 text begins with the whole text of account 0's
	// address, checksum included — inboxes are keyed by the owner's text, one inbox must not swallow the other
	w.accts = append(w.accts, c18TwinOf(w.accts[0]))
	w.setName("alice.jkl", w.accts[0].String())
	w.setName("bob.jkl", strings.ToUpper(w.accts[1].String())) // a value in the other spelling still resolves
	w.setName("carol.jkl", w.accts[2].String())
	w.setName("dave.ibc", w.accts[3].String())
	w.setName("junk.jkl", "not an address")
	return w, nil
}

func runC18(r *RunCtx) error {
	r.Sum.Rule = "histories of create/delete/block messages among 4 accounts (both bech32 spellings, address and RNS-name targets, names re-pointed between sends, several sends per block) on the assembled app; one evaluation = one message with the raw store dump before/after and all queries after; non-trivial = distinct (message, block time, store size) whose message changed the store or was a refused well-formed send; plus handler-level calls (no ValidateBasic) on branches of the state"
	r.Group("hist", c18Preamble(), "c18_case", "c18_ok")
	p := r.Rng

	// ---- deterministic prefix: the three histories that used to fail, and name targets
	{
		w, err := c18NewWorld(r, 0)
		if err != nil {
			return err
		}
		A, B, C, D := w.accts[0].String(), w.accts[1].String(), w.accts[2].String(), w.accts[3].String()
		up := strings.ToUpper
		steps := []interface{}{
			c18Op{Kind: "block", Signer: 0, Creator: A, ToBlock: []string{B}},                        // list A's inbox: no phantom entry
			c18Op{Kind: "create", Signer: 1, Creator: up(B), To: A, Contents: `{"n":1}`},             // blocked, upper-case spelling
			c18Op{Kind: "create", Signer: 1, Creator: B, To: A, Contents: `{"n":2}`},                 // blocked
			c18Op{Kind: "create", Signer: 1, Creator: B, To: "alice.jkl", Contents: `{"n":3}`},       // blocked, via the name
			c18Op{Kind: "block", Signer: 0, Creator: up(A), ToBlock: []string{up(C), "dave.ibc"}},    // blocker in upper case
			c18Op{Kind: "create", Signer: 2, Creator: C, To: A, Contents: `{"n":4}`},                 // blocked
			c18Op{Kind: "create", Signer: 3, Creator: up(D), To: up(A), Contents: `{"n":5}`},         // blocked (through the name)
			c18Op{Kind: "create", Signer: 0, Creator: A, To: B, Contents: `{"n":6}`, Priv: "secret"}, // A may write to B
			c18Op{Kind: "create", Signer: 0, Creator: A, To: B, Contents: `{"n":7}`},                 // second send in one block: refused
			c18Op{Kind: "create", Signer: 0, Creator: up(A), To: "bob.jkl", Contents: `{"n":8}`},     // same key again
			c18Op{Kind: "create", Signer: 2, Creator: C, To: B, Contents: `{"n":9}`},                 // other sender, same block
			"advance",
			c18Op{Kind: "create", Signer: 0, Creator: A, To: B, Contents: `{"n": 10, "note": "spaced out"}`},
			c18Op{Kind: "create", Signer: 2, Creator: C, To: "dave.ibc", Contents: `{"n":11}`},
			"repoint",
			c18Op{Kind: "create", Signer: 2, Creator: C, To: "dave.ibc", Contents: `{"n":12}`}, // now lands at B
			c18Op{Kind: "delete", Signer: 0, Creator: A, From: A, Time: T0.UnixMicro()},        // the sender tries to delete B's entry
			c18Op{Kind: "delete", Signer: 0, Creator: A, From: B, Time: T0.UnixMicro()},        // ... naming the recipient
			c18Op{Kind: "delete", Signer: 3, Creator: D, From: A, Time: T0.UnixMicro()},        // a stranger
			c18Op{Kind: "delete", Signer: 3, Creator: D, From: "../" + B + "/" + A, Time: T0.UnixMicro()}, // a stranger, with a path-shaped sender
			c18Op{Kind: "delete", Signer: 1, Creator: B, From: up(A), Time: T0.UnixMicro()},    // recipient, sender respelled: no such entry
			c18Op{Kind: "delete", Signer: 1, Creator: B, From: A, Time: T0.UnixMicro() + 1},    // recipient, wrong time
			c18Op{Kind: "delete", Signer: 1, Creator: up(B), From: A, Time: T0.UnixMicro()},    // the recipient, upper-case signer
			c18Op{Kind: "block", Signer: 1, Creator: B, ToBlock: []string{C, "nobody.jkl", A}}, // aborts at the second target
			c18Op{Kind: "create", Signer: 2, Creator: C, To: B, Contents: `{"n":13}`},          // so C is still not blocked... but same key as n=12? (different block time)
			c18Op{Kind: "block", Signer: 1, Creator: B, ToBlock: []string{}},
			c18Op{Kind: "create", Signer: 2, Creator: C, To: "junk.jkl", Contents: `{"n":14}`},
			c18Op{Kind: "create", Signer: 2, Creator: C, To: D, Contents: `not json`},
			// deletes that carry no time ("0"), an empty sender or a sender that is a prefix of other addresses remove
			// nothing else: A's inbox keeps its other entries and A's block list stays (B, C and D are still refused)
			"advance",
			c18Op{Kind: "delete", Signer: 0, Creator: A, From: B, Time: 0},
			c18Op{Kind: "delete", Signer: 0, Creator: A, From: C, Time: 0},
			c18Op{Kind: "delete", Signer: 0, Creator: A, From: "", Time: 0},
			c18Op{Kind: "delete", Signer: 0, Creator: A, From: B[:8], Time: 0},
			c18Op{Kind: "create", Signer: 1, Creator: B, To: A, Contents: `{"n":15}`}, // still blocked
			c18Op{Kind: "create", Signer: 2, Creator: C, To: A, Contents: `{"n":16}`}, // still blocked
			c18Op{Kind: "delete", Signer: 1, Creator: B, From: A, Time: 0},
			c18Op{Kind: "delete", Signer: 1, Creator: B, From: "", Time: 0},
		}
		for _, s := range steps {
			switch v := s.(type) {
			case string:
				if v == "advance" {
					w.e.At(w.e.Height+1, w.e.Time.Add(time.Duration(6e9)))
				} else {
					w.setName("dave.ibc", B)
				}
			case c18Op:
				if err := w.exec(p, v); err != nil {
					w.e.Close()
					return err
				}
			}
		}
		// handler-level: creators that do not parse take the raw string, writes before a failure stay
		hops := []c18Op{
			{Kind: "create", Creator: "not-an-address", To: A, Contents: `{}`},
			{Kind: "create", Creator: "x/y", To: B, Contents: `{}`},
			{Kind: "create", Creator: up(C), To: B, Contents: `{"h":1}`},
			{Kind: "create", Creator: C, To: B, Contents: `nope`},
			{Kind: "delete", Creator: "weird", From: A, Time: 5},
			{Kind: "delete", Creator: up(B), From: A, Time: T0.UnixMicro() + 6e6},
			{Kind: "delete", Creator: B, From: C, Time: T0.UnixMicro()},
			{Kind: "block", Creator: "x/y", ToBlock: []string{A}},
			{Kind: "block", Creator: "raw", ToBlock: []string{A, "nobody.jkl", B}},
			{Kind: "block", Creator: up(D), ToBlock: []string{A, up(B), "carol.jkl", "junk.jkl", C}},
			{Kind: "block", Creator: "", ToBlock: []string{A}},
		}
		for _, o := range hops {
			if err := w.handlerCase(o); err != nil {
				w.e.Close()
				return err
			}
		}
		w.e.Close()
	}

	// ---- generated histories
	nh := r.Scale(22, 300)
	for h := 1; h <= nh; h++ {
		w, err := c18NewWorld(r, h)
		if err != nil {
			return err
		}
		hp := p.Fork()
		nops := 8 + hp.Intn(r.Scale(20, 34))
		for i := 0; i < nops; i++ {
			if hp.Chance(2, 5) {
				w.advance(hp)
			}
			if hp.Chance(1, 12) {
				w.setName(PickOne(hp, []string{"alice.jkl", "bob.jkl", "carol.jkl", "dave.ibc", "nobody.jkl"}),
					PickOne(hp, []string{w.accts[hp.Intn(4)].String(), strings.ToUpper(w.accts[hp.Intn(4)].String()), "garbage"}))
			}
			o := w.genOp(hp, i)
			if hp.Chance(1, 9) {
				if hp.Chance(1, 2) {
					o.Creator = PickOne(hp, []string{"not-an-address", "x/y", "", w.accts[0].String() + "/" + w.accts[1].String(), strings.ToLower(o.Creator) + "x"})
				}
				if err := w.handlerCase(o); err != nil {
					w.e.Close()
					return err
				}
				continue
			}
			if err := w.exec(hp, o); err != nil {
				w.e.Close()
				return err
			}
		}
		w.e.Close()
	}
	return nil
}

var c18EndingCache = map[string]sdk.AccAddress{}

// c18AddressEndingIn finds (deterministically) a test account whose bech32 spelling ends in the given letters.
func c18AddressEndingIn(suffix string) sdk.AccAddress {
	if a, ok := c18EndingCache[suffix]; ok {
		return a
	}
	setBech32()
	for i := 1000; ; i++ {
		if a := Acct(i); strings.HasSuffix(a.String(), suffix) {
			c18EndingCache[suffix] = a
			return a
		}
	}
}

// c18TwinOf: the 32-byte address whose bech32 spelling starts with the full spelling of a 20-byte address.
func c18TwinOf(a sdk.AccAddress) sdk.AccAddress {
	const charset = "qpzry9x8gf2tvdw0s3jn54khce6mua7l"
	text := a.String()
	data := text[strings.LastIndex(text, "1")+1:] // 32 data characters + 6 checksum characters
	vals := []byte{}
	for i := 0; i < len(data); i++ {
		vals = append(vals, byte(strings.IndexByte(charset, data[i])))
	}
	for len(vals) < 52 { // 52 characters of 5 bits = 256 bits + 4 zero padding bits
		vals = append(vals, 0)
	}
	out := []byte{}
	acc, bits := 0, 0
	for _, v := range vals {
		acc = acc<<5 | int(v)
		bits += 5
		for bits >= 8 {
			bits -= 8
			out = append(out, byte(acc>>uint(bits)))
			acc &= 1<<uint(bits) - 1
		}
	}
	tw := sdk.AccAddress(out[:32])
	if !strings.HasPrefix(tw.String(), text) {
		panic("c18TwinOf: the twin's spelling does not start with the address")
	}
	return tw
}
