package main

// C14 — attestations and reports act only on a quorum of the providers named on the form.
// History level on the assembled app: provider populations of 3..8 (InitProvider with funded
// collateral; IPs with shared domains, hosts of < 2 labels, unparsable IPs written through the
// keeper), files with provers and proof records (keeper setters), then request / attest /
// report / parameter-change / store-write operations; step-wise correspondence with
// Model.Forms.step and property monitors that keep, in Go, the set of distinct listed
// providers that signed each live form.  A second part enumerates, on cache-context branches of
// one world, every order and multiset (up to renaming of the listed signers) of signatures by
// listed / unlisted / upper-case-spelled signers for every (FormSize, Min).

import (
	"sort"
	"encoding/hex"
	"encoding/json"
	"fmt"
	"net/url"
	"strings"

	sdk "github.com/cosmos/cosmos-sdk/types"
	storagetypes "github.com/jackalLabs/canine-chain/v4/x/storage/types"
)

func init() { runners["C14"] = runC14 }

// ---------------------------------------------------------------- string tables

type c14Tab struct {
	strs map[string]int
	doms map[string]int
	merk map[string]int
}

func c14NewTab() *c14Tab {
	return &c14Tab{strs: map[string]int{}, doms: map[string]int{"": 0}, merk: map[string]int{}}
}

func (t *c14Tab) reg(s string) {
	if _, ok := t.strs[s]; !ok {
		t.strs[s] = len(t.strs) + 1
	}
}

// str prints an address-like string as (id, upper)
func (t *c14Tab) str(s string) string {
	if id, ok := t.strs[s]; ok {
		return fmt.Sprintf("(%d%%N, false)", id)
	}
	lo := strings.ToLower(s)
	if id, ok := t.strs[lo]; ok && lo != s && strings.ToUpper(s) == s {
		return fmt.Sprintf("(%d%%N, true)", id)
	}
	t.reg(s)
	return fmt.Sprintf("(%d%%N, false)", t.strs[s])
}

func (t *c14Tab) strList(l []string) string {
	parts := make([]string, len(l))
	for i, s := range l {
		parts[i] = t.str(s)
	}
	return cList(parts)
}

func (t *c14Tab) dom(s string) string {
	if _, ok := t.doms[s]; !ok {
		t.doms[s] = len(t.doms)
	}
	return cN(uint64(t.doms[s]))
}

func (t *c14Tab) fkey(merkleHex, owner string, start int64) string {
	if _, ok := t.merk[merkleHex]; !ok {
		t.merk[merkleHex] = len(t.merk) + 1
	}
	return fmt.Sprintf("(%s, %s, %s)", cN(uint64(t.merk[merkleHex])), t.str(owner), cZ(start))
}

// what net/url makes of an Ip, with the functions the keeper uses
func c14Dom(ip string) (ok bool, has bool, dom, tld string) {
	u, err := url.Parse(ip)
	if err != nil {
		return false, false, "", ""
	}
	parts := strings.Split(u.Hostname(), ".")
	if len(parts) < 2 {
		return true, false, "", ""
	}
	return true, true, parts[len(parts)-2], parts[len(parts)-1]
}

func (t *c14Tab) ip(ip string) string {
	ok, has, d, tl := c14Dom(ip)
	if !ok {
		return "IpBad"
	}
	if !has {
		return "(IpHost None)"
	}
	return fmt.Sprintf("(IpHost (Some (%s, %s)))", t.dom(d), t.dom(tl))
}

// ---------------------------------------------------------------- observed state

type c14Prov struct{ Addr, Ip string }
type c14File struct {
	Merkle string
	Owner  string
	Start  int64
	Proofs []string // the prover of each proof key
}
type c14Proof struct {
	Prover, Merkle, Owner string
	Start, LastProven     int64
}
type c14Entry struct {
	Provider string
	Complete bool
}
type c14Form struct {
	Prover, Merkle, Owner string
	Start                 int64
	Entries               []c14Entry
}
type c14State struct {
	Providers []c14Prov
	Files     []c14File
	Proofs    []c14Proof
	AForms    []c14Form
	RForms    []c14Form
	FS, Min   int64
}

func c14Key(prover, merkle, owner string, start int64) string {
	return fmt.Sprintf("%s|%s|%s|%d", prover, merkle, owner, start)
}

func (s *c14State) form(kind, key string) *c14Form {
	l := s.AForms
	if kind == "rep" {
		l = s.RForms
	}
	for i := range l {
		if c14Key(l[i].Prover, l[i].Merkle, l[i].Owner, l[i].Start) == key {
			return &l[i]
		}
	}
	return nil
}

func c14JSON(v interface{}) string { b, _ := json.Marshal(v); return string(b) }

type c14World struct {
	e     *Env
	r     *RunCtx
	tab   *c14Tab
	provs []string // registered provider strings
	outs  []string // accounts that are not providers
	files []c14File
	desc  map[string]interface{}
	gone  map[string]storagetypes.Providers // provider records removed by "delprov" (a shutdown), for "setprov"
}

func (w *c14World) observe() c14State {
	k := w.e.App.StorageKeeper
	ctx := w.e.Ctx
	var s c14State
	for _, p := range k.GetAllProviders(ctx) {
		s.Providers = append(s.Providers, c14Prov{p.Address, p.Ip})
	}
	for _, f := range k.GetAllFileByMerkle(ctx) {
		cf := c14File{Merkle: hex.EncodeToString(f.Merkle), Owner: f.Owner, Start: f.Start, Proofs: []string{}}
		for _, pk := range f.Proofs {
			cf.Proofs = append(cf.Proofs, strings.SplitN(pk, "/", 2)[0])
		}
		s.Files = append(s.Files, cf)
	}
	for _, p := range k.GetAllProofs(ctx) {
		s.Proofs = append(s.Proofs, c14Proof{p.Prover, hex.EncodeToString(p.Merkle), p.Owner, p.Start, p.LastProven})
	}
	for _, f := range k.GetAllAttestation(ctx) {
		cf := c14Form{Prover: f.Prover, Merkle: hex.EncodeToString(f.Merkle), Owner: f.Owner, Start: f.Start, Entries: []c14Entry{}}
		for _, a := range f.Attestations {
			cf.Entries = append(cf.Entries, c14Entry{a.Provider, a.Complete})
		}
		s.AForms = append(s.AForms, cf)
	}
	for _, f := range k.GetAllReport(ctx) {
		cf := c14Form{Prover: f.Prover, Merkle: hex.EncodeToString(f.Merkle), Owner: f.Owner, Start: f.Start, Entries: []c14Entry{}}
		for _, a := range f.Attestations {
			cf.Entries = append(cf.Entries, c14Entry{a.Provider, a.Complete})
		}
		s.RForms = append(s.RForms, cf)
	}
	// the configured values are what the parameter store holds (what governance set), read without the keeper
	ss, _ := c15ParamsKeeper(w.e).GetSubspace(storagetypes.ModuleName)
	ss.Get(ctx, storagetypes.KeyAttestFormSize, &s.FS)
	ss.Get(ctx, storagetypes.KeyAttestMinToPass, &s.Min)
	return s
}

// c14GovSet changes the two parameters the way a passed ParameterChangeProposal does: one key at a time through the
// parameter subspace (validated by the key's validator), never through Keeper.SetParams.  A value the validator
// refuses is written through the keeper instead (the harness also explores values governance cannot reach).
func (w *c14World) c14GovSet(fs, min int64) {
	k := w.e.App.StorageKeeper
	_ = k.GetParams(w.e.Ctx) // a running node has read its parameters before any proposal passes
	ss, _ := c15ParamsKeeper(w.e).GetSubspace(storagetypes.ModuleName)
	e1 := ss.Update(w.e.Ctx, storagetypes.KeyAttestFormSize, []byte(fmt.Sprintf("%q", fmt.Sprint(fs))))
	e2 := ss.Update(w.e.Ctx, storagetypes.KeyAttestMinToPass, []byte(fmt.Sprintf("%q", fmt.Sprint(min))))
	if e1 != nil || e2 != nil {
		p := k.GetParams(w.e.Ctx)
		p.AttestFormSize, p.AttestMinToPass = fs, min
		k.SetParams(w.e.Ctx, p)
		w.r.Hist("params-route", "keeper")
		return
	}
	w.r.Hist("params-route", "governance")
}

func (w *c14World) stateTerm(s *c14State) string {
	t := w.tab
	var pv, fl, pf, af, rf []string
	for _, p := range s.Providers {
		pv = append(pv, cPair(t.str(p.Addr), t.ip(p.Ip)))
	}
	for _, f := range s.Files {
		fl = append(fl, cPair(t.fkey(f.Merkle, f.Owner, f.Start), t.strList(f.Proofs)))
	}
	for _, p := range s.Proofs {
		pf = append(pf, cPair(cPair(t.str(p.Prover), t.fkey(p.Merkle, p.Owner, p.Start)), cZ(p.LastProven)))
	}
	forms := func(l []c14Form) []string {
		var out []string
		for _, f := range l {
			var es []string
			for _, e := range f.Entries {
				es = append(es, cPair(t.str(e.Provider), cBool(e.Complete)))
			}
			out = append(out, cPair(cPair(t.str(f.Prover), t.fkey(f.Merkle, f.Owner, f.Start)), cList(es)))
		}
		return out
	}
	af, rf = forms(s.AForms), forms(s.RForms)
	return fmt.Sprintf("{| providers := %s; files := %s; proofs := %s; aforms := %s; rforms := %s; form_size := %s; min_to_pass := %s |}",
		cList(pv), cList(fl), cList(pf), cList(af), cList(rf), cZ(s.FS), cZ(s.Min))
}

// ---------------------------------------------------------------- operations

type c14Op struct {
	Kind    string   `json:"kind"` // reqA att reqR rep params delfile setfile delproof setproof setip
	Creator string   `json:"creator,omitempty"`
	Prover  string   `json:"prover,omitempty"`
	Merkle  string   `json:"merkle,omitempty"`
	Owner   string   `json:"owner,omitempty"`
	Start   int64    `json:"start,omitempty"`
	Height  int64    `json:"height,omitempty"`
	FS      int64    `json:"fs,omitempty"`
	Min     int64    `json:"min,omitempty"`
	Ip      string   `json:"ip,omitempty"`
	Proofs  []string `json:"proofs,omitempty"`
	LP      int64    `json:"last_proven,omitempty"`
}

// monitor state: per live form (by the monitor's own bookkeeping, from the responses and the
// observed effects), the listed names and the distinct listed names that signed since creation
type c14Live struct {
	listed   []string
	signed   map[string]bool // listed providers that sent a signature since creation (the quorum ledger)
	recorded map[string]bool // those whose signature is on the form (a further one is a repeated signature)
	maxMin   int64           // the largest minimum in force at any signature on this form so far
}
type c14Track struct{ att, rep map[string]*c14Live }

func c14NewTrack() *c14Track { return &c14Track{map[string]*c14Live{}, map[string]*c14Live{}} }
func (t *c14Track) clone() *c14Track {
	cp := func(m map[string]*c14Live) map[string]*c14Live {
		o := map[string]*c14Live{}
		for k, v := range m {
			s, rc := map[string]bool{}, map[string]bool{}
			for a := range v.signed {
				s[a] = true
			}
			for a := range v.recorded {
				rc[a] = true
			}
			o[k] = &c14Live{listed: v.listed, signed: s, recorded: rc, maxMin: v.maxMin}
		}
		return o
	}
	return &c14Track{cp(t.att), cp(t.rep)}
}
func (t *c14Track) of(kind string) map[string]*c14Live {
	if kind == "rep" || kind == "reqR" {
		return t.rep
	}
	return t.att
}

func c14Has(l []string, s string) bool {
	for _, x := range l {
		if x == s {
			return true
		}
	}
	return false
}

func c14SameAccount(a, b string) bool {
	x, e1 := sdk.AccAddressFromBech32(a)
	y, e2 := sdk.AccAddressFromBech32(b)
	if e1 != nil || e2 != nil {
		return a == b
	}
	return x.Equals(y)
}

func (w *c14World) oracle(prover string) []string {
	k := w.e.App.StorageKeeper
	pv, found := k.GetProviders(w.e.Ctx, prover)
	if !found {
		return nil
	}
	var out []string
	cctx, _ := w.e.Ctx.CacheContext()
	for _, a := range k.GetActiveProviders(cctx, pv.Ip) {
		out = append(out, a.Address)
	}
	return out
}

func (w *c14World) merkleBytes(h string) []byte { b, _ := hex.DecodeString(h); return b }

func c14ProofKey(prover string, f c14File) string {
	mb, _ := hex.DecodeString(f.Merkle)
	return string(storagetypes.ProofKey(prover, mb, f.Owner, f.Start))
}

// exec runs one operation on w.e.Ctx, evaluates the monitors and (if emit) records the case.
func (w *c14World) exec(tr *c14Track, op c14Op, hist []c14Op, emit bool) {
	e, r, k := w.e, w.r, w.e.App.StorageKeeper
	if op.Height > 0 {
		e.Ctx = e.Ctx.WithBlockHeight(op.Height)
	}
	mb := w.merkleBytes(op.Merkle)
	switch op.Kind {
	case "params":
		w.c14GovSet(op.FS, op.Min)
		r.Hist("ops", "params")
		return
	// environment moves: what other messages do to the file and its provers while a form collects signatures.  They
	// keep the stores consistent the way the real handlers do (a listed prover has a proof record and vice versa):
	// states with orphaned proof records are not reachable and say nothing about the property.
	case "delfile": // MsgDeleteFile / the reward block dropping the file: the keeper's own RemoveFile
		k.RemoveFile(e.Ctx, mb, op.Owner, op.Start)
		r.Hist("ops", "env-delfile")
		return
	case "setfile": // the file (re-)appears with the given provers: records are created / dropped with the listing
		cf := c14File{Merkle: op.Merkle, Owner: op.Owner, Start: op.Start}
		if old, found := k.GetFile(e.Ctx, mb, op.Owner, op.Start); found {
			for _, key := range old.Proofs {
				k.RemoveProofWithBuiltKey(e.Ctx, []byte(key))
			}
		}
		keys := []string{}
		for _, p := range op.Proofs {
			keys = append(keys, c14ProofKey(p, cf))
			if _, has := k.GetProof(e.Ctx, p, mb, op.Owner, op.Start); !has {
				k.SetProof(e.Ctx, storagetypes.FileProof{Prover: p, Merkle: mb, Owner: op.Owner, Start: op.Start, LastProven: e.Ctx.BlockHeight()})
			}
		}
		k.SetFile(e.Ctx, storagetypes.UnifiedFile{Merkle: mb, Owner: op.Owner, Start: op.Start, Expires: 1 << 40, FileSize: 1024, ProofInterval: 50, ProofType: 0, Proofs: keys, MaxProofs: 3, Note: "{}"})
		r.Hist("ops", "env-setfile")
		return
	case "delproof": // the reward block dropping the prover: listing and record go together
		if f, found := k.GetFile(e.Ctx, mb, op.Owner, op.Start); found {
			cctx, write := e.Ctx.CacheContext()
			if pn := Guard(func() { f.RemoveProver(cctx, k, op.Prover) }); pn == "" {
				write()
			} else {
				// (a list that names the prover twice — planted by "setfile", not reachable — makes the helper panic)
				keep := []string{}
				for _, key := range f.Proofs {
					if key != f.MakeProofKey(op.Prover) {
						keep = append(keep, key)
					}
				}
				f.Proofs = keep
				k.SetFile(e.Ctx, f)
				k.RemoveProof(e.Ctx, op.Prover, mb, op.Owner, op.Start)
			}
		}
		r.Hist("ops", "env-delproof")
		return
	case "setproof": // an accepted proof: the record of a listed prover is refreshed, a new prover joins if there is room
		if f, found := k.GetFile(e.Ctx, mb, op.Owner, op.Start); found {
			if f.ContainsProver(op.Prover) {
				k.SetProof(e.Ctx, storagetypes.FileProof{Prover: op.Prover, Merkle: mb, Owner: op.Owner, Start: op.Start, LastProven: op.LP})
			} else if int64(len(f.Proofs)) < f.MaxProofs {
				f.Proofs = append(f.Proofs, f.MakeProofKey(op.Prover))
				k.SetFile(e.Ctx, f)
				k.SetProof(e.Ctx, storagetypes.FileProof{Prover: op.Prover, Merkle: mb, Owner: op.Owner, Start: op.Start, LastProven: op.LP})
			}
		}
		r.Hist("ops", "env-setproof")
		return
	case "delprov": // what MsgShutdownProvider does to the stores this property reads: the provider record goes, its proofs stay
		if pv, found := k.GetProviders(e.Ctx, op.Prover); found {
			if w.gone == nil {
				w.gone = map[string]storagetypes.Providers{}
			}
			w.gone[op.Prover] = pv
			k.RemoveProviders(e.Ctx, op.Prover)
		}
		r.Hist("ops", "env-delprov")
		return
	case "setprov": // ... and the same account registering again
		if pv, ok := w.gone[op.Prover]; ok {
			k.SetProviders(e.Ctx, pv)
			delete(w.gone, op.Prover)
		}
		r.Hist("ops", "env-setprov")
		return
	case "setip":
		pv, found := k.GetProviders(e.Ctx, op.Prover)
		if found {
			pv.Ip = op.Ip
			k.SetProviders(e.Ctx, pv)
		}
		r.Hist("ops", "env-setip")
		return
	}
	pre := w.observe()
	var msg sdk.Msg
	var perm []string
	var opTerm string
	fk := w.tab.fkey(op.Merkle, op.Owner, op.Start)
	prover := op.Prover
	switch op.Kind {
	case "reqA":
		prover = op.Creator
		perm = w.oracle(op.Creator)
		msg = &storagetypes.MsgRequestAttestationForm{Creator: op.Creator, Merkle: mb, Owner: op.Owner, Start: op.Start}
		opTerm = fmt.Sprintf("ReqAttest %s %s %s", w.tab.str(op.Creator), fk, w.tab.strList(perm))
	case "reqR":
		perm = w.oracle(op.Prover)
		msg = &storagetypes.MsgRequestReportForm{Creator: op.Creator, Prover: op.Prover, Merkle: mb, Owner: op.Owner, Start: op.Start}
		opTerm = fmt.Sprintf("ReqReport %s %s %s %s", w.tab.str(op.Creator), w.tab.str(op.Prover), fk, w.tab.strList(perm))
	case "att":
		msg = &storagetypes.MsgAttest{Creator: op.Creator, Prover: op.Prover, Merkle: mb, Owner: op.Owner, Start: op.Start}
		opTerm = fmt.Sprintf("Attest %s %s %s %s", w.tab.str(op.Creator), w.tab.str(op.Prover), fk, cZ(op.Height))
	case "rep":
		msg = &storagetypes.MsgReport{Creator: op.Creator, Prover: op.Prover, Merkle: mb, Owner: op.Owner, Start: op.Start}
		opTerm = fmt.Sprintf("Report %s %s %s", w.tab.str(op.Creator), w.tab.str(op.Prover), fk)
	default:
		panic("c14: unknown op " + op.Kind)
	}
	res := e.Run(msg)
	post := w.observe()
	key := c14Key(prover, op.Merkle, op.Owner, op.Start)
	full := append(append([]c14Op{}, hist...), op)
	replay := map[string]interface{}{"world": w.desc, "history": full, "pre": pre, "post": post, "outcome": res.Out, "error": res.Err}
	bad := func(sig, what string) { r.Finding(sig, what, replay) }

	// ---- outcome as the model sees it
	success, names := true, []string{}
	outTerm := ""
	class := res.Out
	switch res.Out {
	case OutOk:
		switch op.Kind {
		case "reqA":
			var rsp storagetypes.MsgRequestAttestationFormResponse
			if err := rsp.Unmarshal(res.Data); err != nil {
				panic(err)
			}
			success, names = rsp.Success, rsp.Providers
		case "reqR":
			var rsp storagetypes.MsgRequestReportFormResponse
			if err := rsp.Unmarshal(res.Data); err != nil {
				panic(err)
			}
			success, names = rsp.Success, rsp.Providers
		}
		if names == nil {
			names = []string{}
		}
		outTerm = fmt.Sprintf("(XOk %s %s)", cBool(success), w.tab.strList(names))
	case OutFail:
		outTerm = "XFail"
	default:
		outTerm = "XPanic"
	}
	changed := c14JSON(pre) != c14JSON(post)
	if res.Out != OutOk && changed {
		bad("C14/failed-message-changed-state", "a failed message changed the state")
	}

	// ---- monitors (the property on the implementation, independent of the model)
	live := tr.of(op.Kind)
	kindName := map[string]string{"reqA": "attest", "att": "attest", "reqR": "report", "rep": "report"}[op.Kind]
	switch op.Kind {
	case "reqA", "reqR":
		fkind := "att"
		if op.Kind == "reqR" {
			fkind = "rep"
		}
		if res.Out == OutOk && success {
			class = "created"
			f := post.form(fkind, key)
			if f == nil {
				bad("C14/request/"+kindName+"/success-without-form", "Success=true but no form is stored")
			} else {
				if len(f.Entries) != len(names) {
					bad("C14/request/"+kindName+"/form-differs-from-response", "stored form and response name different providers")
				}
				for i, en := range f.Entries {
					if i < len(names) && en.Provider != names[i] || en.Complete {
						bad("C14/request/"+kindName+"/form-differs-from-response", "stored form differs from the response or starts with a complete entry")
					}
				}
			}
			if int64(len(names)) != pre.FS {
				bad("C14/request/"+kindName+"/form-size", fmt.Sprintf("form names %d providers, AttestFormSize is %d", len(names), pre.FS))
			}
			var pIp string
			for _, pv := range pre.Providers {
				if pv.Addr == prover {
					pIp = pv.Ip
				}
			}
			_, phas, pd, pt := c14Dom(pIp)
			if !phas {
				pd, pt = "", ""
			}
			for i, n := range names {
				reg, ip := false, ""
				for _, pv := range pre.Providers {
					if pv.Addr == n {
						reg, ip = true, pv.Ip
					}
				}
				if !reg {
					bad("C14/request/"+kindName+"/names-unregistered", "the form names an account that is not a registered provider")
				}
				// holds a proof: it is a listed prover of a stored file and its proof record exists
				holds := false
				for _, pf := range pre.Proofs {
					if pf.Prover != n {
						continue
					}
					for _, f := range pre.Files {
						if f.Merkle == pf.Merkle && f.Owner == pf.Owner && f.Start == pf.Start && c14Has(f.Proofs, n) {
							holds = true
						}
					}
				}
				if !holds {
					bad("C14/request/"+kindName+"/names-provider-without-proofs", "the form names a provider that is no listed prover (with a proof record) of any stored file")
				}
				if n == prover {
					bad("C14/request/"+kindName+"/names-the-prover", "the form names the prover it concerns")
				} else if c14SameAccount(n, prover) {
					bad("C14/request/"+kindName+"/names-the-prover-account-in-another-spelling", "the form names the prover's own account under its other bech32 spelling (registered as a second provider)")
				}
				if reg {
					ok, has, d, tl := c14Dom(ip)
					if !ok || !has || (d == pd && tl == pt) {
						bad("C14/request/"+kindName+"/names-same-domain", "the form names a provider in the prover's domain or without a usable host")
					}
				}
				if c14Has(names[:i], n) {
					bad("C14/request/"+kindName+"/names-duplicate", "the form names a provider twice")
				}
			}
			if live[key] != nil {
				bad("C14/request/"+kindName+"/replaces-live-form", "a second request replaced a form that was still collecting signatures")
			}
			live[key] = &c14Live{listed: append([]string{}, names...), signed: map[string]bool{}, recorded: map[string]bool{}}
			// nothing but the new form changed
			p2 := post
			if fkind == "att" {
				p2.AForms = nil
				for _, f := range post.AForms {
					if c14Key(f.Prover, f.Merkle, f.Owner, f.Start) != key {
						p2.AForms = append(p2.AForms, f)
					}
				}
			} else {
				p2.RForms = nil
				for _, f := range post.RForms {
					if c14Key(f.Prover, f.Merkle, f.Owner, f.Start) != key {
						p2.RForms = append(p2.RForms, f)
					}
				}
			}
			if c14JSON(p2) != c14JSON(pre) {
				bad("C14/request/"+kindName+"/writes-elsewhere", "a successful request changed more than its own form")
			}
		} else {
			if res.Out == OutOk {
				class = "refused"
			}
			if changed {
				bad("C14/request/"+kindName+"/refused-request-changed-state", "a refused request changed the state")
			}
		}
	case "att", "rep":
		lv := live[key]
		effect := c14JSON(pre.Proofs) != c14JSON(post.Proofs) || c14JSON(pre.Files) != c14JSON(post.Files)
		formGone := pre.form(op.Kind, key) != nil && post.form(op.Kind, key) == nil
		acted := effect || formGone
		nSigned := int64(0)
		switch {
		case lv == nil:
			if changed {
				bad("C14/"+kindName+"/signature-on-absent-or-consumed-form-changed-state", "a signature addressed to a form that does not exist (never created, or consumed) changed the state")
			}
		case !c14Has(lv.listed, op.Creator):
			if changed {
				bad("C14/"+kindName+"/unlisted-signature-changed-state", "a signature by an account string not named on the form changed the state")
			}
			nSigned = int64(len(lv.signed))
		default:
			// repeated: this provider's signature is already on the form (an earlier signature that
			// was dropped because the file / prover was missing at the deciding moment left nothing)
			repeated := lv.recorded[op.Creator]
			earned := int64(len(lv.signed)) >= pre.Min
			// a signature already on the form adds nothing to the count: it can only bring an action about when the
			// minimum was lowered since (governance) -- the one case in which the quorum is met without a new signer
			minLowered := pre.Min < lv.maxMin
			if pre.Min > lv.maxMin {
				lv.maxMin = pre.Min
			}
			lv.signed[op.Creator] = true
			nSigned = int64(len(lv.signed))
			if pf := post.form(op.Kind, key); pf != nil {
				for _, en := range pf.Entries {
					if en.Provider == op.Creator && en.Complete {
						lv.recorded[op.Creator] = true
					}
				}
			}
			if repeated && changed {
				if !earned || !minLowered {
					bad("C14/"+kindName+"/repeated-signature-changed-state", "a repeated signature changed the state")
				} else {
					r.Hist("edges", "repeated signature triggers an action whose quorum was already met (minimum lowered / effect failed earlier)")
				}
			}
		}
		if acted {
			class = "acted"
			if lv == nil || nSigned < pre.Min {
				bad("C14/"+kindName+"/action-below-quorum", fmt.Sprintf("the handler acted with %d distinct listed signers, AttestMinToPass is %d", nSigned, pre.Min))
			}
			// shape of the effect: only this prover's record on this file, and the form
			exp := pre
			if op.Kind == "att" {
				exp.Proofs = nil
				for _, pf := range pre.Proofs {
					if c14Key(pf.Prover, pf.Merkle, pf.Owner, pf.Start) == key {
						pf.LastProven = op.Height
					}
					exp.Proofs = append(exp.Proofs, pf)
				}
				exp.AForms = nil
				for _, f := range pre.AForms {
					if c14Key(f.Prover, f.Merkle, f.Owner, f.Start) != key {
						exp.AForms = append(exp.AForms, f)
					}
				}
			} else {
				exp.Proofs = nil
				onFile := false
				exp.Files = nil
				for _, f := range pre.Files {
					if f.Merkle == op.Merkle && f.Owner == op.Owner && f.Start == op.Start {
						np := []string{}
						for _, p := range f.Proofs {
							if p == op.Prover && !onFile {
								onFile = true
								continue
							}
							np = append(np, p)
						}
						f.Proofs = np
					}
					exp.Files = append(exp.Files, f)
				}
				for _, pf := range pre.Proofs {
					if onFile && c14Key(pf.Prover, pf.Merkle, pf.Owner, pf.Start) == key {
						continue
					}
					exp.Proofs = append(exp.Proofs, pf)
				}
				exp.RForms = nil
				for _, f := range pre.RForms {
					if c14Key(f.Prover, f.Merkle, f.Owner, f.Start) != key {
						exp.RForms = append(exp.RForms, f)
					}
				}
			}
			if c14JSON(exp) != c14JSON(post) && !w.dupProofs(&pre, op) {
				bad("C14/"+kindName+"/effect-elsewhere", "the action changed something other than this prover's record on this file and the form")
			}
			delete(live, key)
		} else if res.Out == OutOk {
			if changed {
				class = "recorded"
			} else {
				class = "noop"
			}
		}
	}
	// invariant on the observed post-state: every stored form was created (by the monitor's
	// bookkeeping), names distinct providers, and its complete flags are listed signers that signed
	for _, fk := range []string{"att", "rep"} {
		l := post.AForms
		if fk == "rep" {
			l = post.RForms
		}
		for _, f := range l {
			lv := tr.of(fk)[c14Key(f.Prover, f.Merkle, f.Owner, f.Start)]
			if lv == nil {
				bad("C14/invariant/form-without-creation", "a form is stored that no successful request created (or that was consumed)")
				continue
			}
			for i, en := range f.Entries {
				if i >= len(lv.listed) || lv.listed[i] != en.Provider {
					bad("C14/invariant/listed-names-changed", "the providers named on a live form changed")
				}
				if en.Complete && !lv.signed[en.Provider] {
					bad("C14/invariant/complete-without-signature", "an entry is complete although its provider has not signed since the form was created")
				}
			}
		}
	}
	r.Hist("ops", op.Kind)
	r.Hist("outcome", op.Kind+":"+class)
	r.Hist("params", fmt.Sprintf("fs=%d,min=%d", pre.FS, pre.Min))
	r.Count(c14JSON(pre)+opTerm, class == "created" || class == "acted" || class == "recorded" || (live[key] != nil))
	if emit {
		term := fmt.Sprintf("Step %s (%s) %s %s", w.stateTerm(&pre), opTerm, outTerm, w.stateTerm(&post))
		r.Case(c14Group(), term, map[string]interface{}{"history": full, "class": class})
		if class == "acted" || class == "created" {
			r.Sample(map[string]interface{}{"op": op, "class": class, "pre": pre, "post": post})
		}
	}
}

// a file whose Proofs list names the reported prover more than once (only written by the
// harness): RemoveProverWithKey's in-place shifting is compared by the model, not by the shape monitor
func (w *c14World) dupProofs(pre *c14State, op c14Op) bool {
	for _, f := range pre.Files {
		if f.Merkle == op.Merkle && f.Owner == op.Owner && f.Start == op.Start {
			n := 0
			for _, p := range f.Proofs {
				if p == op.Prover {
					n++
				}
			}
			return n > 1
		}
	}
	return false
}

// ---------------------------------------------------------------- worlds

var c14GoodDomains = []string{"alpha.com", "beta.net", "gamma.org", "delta.io", "eps.dev", "zeta.xyz", "eta.co", "theta.app"}

func c14PickIp(p *PRNG, i int, ndom int) (ip string, viaKeeper bool) {
	switch p.Intn(12) {
	case 0:
		return "http://localhost:3333", false
	case 1:
		return "/just/a/path", false
	case 2:
		return fmt.Sprintf("http://10.0.0.%d:80", p.Intn(3)), false
	case 3:
		return PickOne(p, []string{"192.168.0.1:3333", "://bad", "http://a b.com", "http://[::1"}), true
	case 4:
		return PickOne(p, []string{"https://x.y.", "http://.", "example.net", ""}), true
	default:
		return fmt.Sprintf("https://%s%s:%d", c14HostPrefix(i), c14GoodDomains[p.Intn(ndom)], 3000+i), false
	}
}

// c14HostPrefix: hosts of two ("alpha.com"), three ("node1.alpha.com") and four labels ("eu.node2.alpha.com")
func c14HostPrefix(i int) string {
	switch i % 3 {
	case 1:
		return ""
	case 2:
		return fmt.Sprintf("eu.node%d.", i)
	}
	return fmt.Sprintf("node%d.", i)
}

func (w *c14World) addProvider(addr sdk.AccAddress, spelling, ip string, viaKeeper bool) error {
	e := w.e
	if !viaKeeper {
		if err := e.Fund(addr, "ujkl", 20_000_000_000); err != nil {
			return err
		}
		res := e.Run(&storagetypes.MsgInitProvider{Creator: spelling, Ip: ip, Keybase: "", TotalSpace: 1 << 40})
		if res.Out != OutOk {
			return fmt.Errorf("InitProvider %s %q: %s", spelling, ip, res.Err)
		}
	} else {
		e.App.StorageKeeper.SetProviders(e.Ctx, storagetypes.Providers{Address: spelling, Ip: ip, Totalspace: "1", BurnedContracts: "0", Creator: spelling, AuthClaimers: []string{}})
	}
	w.provs = append(w.provs, spelling)
	return nil
}

func (w *c14World) addFile(merkle []byte, owner string, start int64, provers []string, lp int64) c14File {
	cf := c14File{Merkle: hex.EncodeToString(merkle), Owner: owner, Start: start, Proofs: provers}
	keys := []string{}
	for _, pv := range provers {
		keys = append(keys, c14ProofKey(pv, cf))
		w.e.App.StorageKeeper.SetProof(w.e.Ctx, storagetypes.FileProof{Prover: pv, Merkle: merkle, Owner: owner, Start: start, LastProven: lp})
	}
	w.e.App.StorageKeeper.SetFile(w.e.Ctx, storagetypes.UnifiedFile{Merkle: merkle, Owner: owner, Start: start, Expires: 1 << 40, FileSize: 1024, ProofInterval: 50, Proofs: keys, MaxProofs: 3, Note: "{}"})
	w.files = append(w.files, cf)
	return cf
}

func c14NewWorld(r *RunCtx) (*c14World, error) {
	e, err := NewEnv()
	if err != nil {
		return nil, err
	}
	w := &c14World{e: e, r: r, tab: c14NewTab(), desc: map[string]interface{}{}}
	for i := 0; i < 40; i++ {
		w.tab.reg(Acct(100 + i).String())
	}
	return w, nil
}

func (w *c14World) setParams(fs, min int64) {
	w.c14GovSet(fs, min)
}

func (w *c14World) describe() {
	st := w.observe()
	w.desc = map[string]interface{}{"providers": st.Providers, "files": st.Files, "proofs": st.Proofs, "form_size": st.FS, "min_to_pass": st.Min}
}

// ---------------------------------------------------------------- random histories

func c14RandomHistory(r *RunCtx, p *PRNG, sc int) error {
	w, err := c14NewWorld(r)
	if err != nil {
		return err
	}
	defer w.e.Close()
	n := 3 + p.Intn(6)
	ndom := 2 + p.Intn(len(c14GoodDomains)-1)
	if p.Chance(1, 3) {
		ndom = len(c14GoodDomains)
	}
	for i := 0; i < n; i++ {
		ip, via := c14PickIp(p, i, ndom)
		if sc%3 == 0 && i < 6 { // a third of the worlds: enough eligible providers for big forms
			ip, via = fmt.Sprintf("https://%s%s:%d", c14HostPrefix(i), c14GoodDomains[i], 3000+i), false
		}
		if err := w.addProvider(Acct(100+i), Acct(100+i).String(), ip, via); err != nil {
			return err
		}
	}
	// sometimes one account registers a second time under its upper-case spelling, elsewhere
	if p.Chance(1, 12) {
		if err := w.addProvider(Acct(100), Spell(Acct(100), true), "https://other.omega.site:1", false); err != nil {
			r.Hist("double-registration", "InitProvider refuses the upper-case spelling")
		} else {
			r.Hist("double-registration", "accepted")
		}
	}
	for i := 0; i < 3; i++ {
		w.outs = append(w.outs, Acct(130+i).String())
	}
	owner := Acct(120).String()
	nf := 1 + p.Intn(2)
	for j := 0; j < nf; j++ {
		var provers []string
		for _, pv := range w.provs {
			if p.Chance(2, 3) && len(provers) < 6 {
				provers = append(provers, pv)
			}
		}
		if len(provers) == 0 {
			provers = []string{w.provs[0]}
		}
		mk, st0 := p.Bytes(32), int64(1+p.Intn(5))
		w.addFile(mk, owner, st0, provers, 1)
		if sc%3 == 1 && j == 0 {
			// the same content posted at the same height by the same account under the upper-case spelling of its address:
			// another file (files are keyed by the owner string as written), with forms and signatures of its own
			w.addFile(mk, strings.ToUpper(owner), st0, provers, 1)
			r.Hist("directed", "twin deals that differ only in the spelling of the owner")
		}
	}
	_ = p.Chance(1, 4) // (an orphaned proof record used to be planted here: not a reachable state, see the environment moves)
	fsmin := func() (int64, int64) {
		switch p.Intn(10) {
		case 0:
			return int64(p.Intn(4)), int64(p.Intn(7)) // Min may exceed FormSize
		case 1:
			return int64(p.Intn(6)), 0
		default:
			fs := int64(1 + p.Intn(5))
			return fs, 1 + p.I64n(fs)
		}
	}
	fs, mn := fsmin()
	w.setParams(fs, mn)
	w.describe()
	tr := c14NewTrack()
	hist := []c14Op{}
	h := int64(10 + p.Intn(500))
	steps := 8 + p.Intn(10)
	mode := p.Intn(3) // 0 attest, 1 report, 2 both
	// directed (worlds with enough eligible providers): a prover asks for an attestation form, drops off the file while
	// the form collects signatures, every named provider signs -- the quorum completes with nothing to refresh --, the
	// prover joins again, and a provider whose signature is already on the form signs once more: a repeated signature,
	// which must change nothing
	if sc%3 == 0 && len(w.files) > 0 && len(w.files[0].Proofs) > 0 {
		f := w.files[0]
		pv := f.Proofs[0]
		run := func(op c14Op) {
			h++
			op.Merkle, op.Owner, op.Start, op.Height = f.Merkle, f.Owner, f.Start, h
			w.exec(tr, op, hist, true)
			hist = append(hist, op)
		}
		run(c14Op{Kind: "reqA", Creator: pv})
		var named []string
		for _, fm := range w.observe().AForms {
			if fm.Prover == pv && fm.Merkle == f.Merkle && fm.Owner == f.Owner && fm.Start == f.Start {
				for _, en := range fm.Entries {
					named = append(named, en.Provider)
				}
			}
		}
		if len(named) > 0 {
			run(c14Op{Kind: "delproof", Prover: pv})
			for _, nm := range named {
				run(c14Op{Kind: "att", Creator: nm, Prover: pv})
			}
			run(c14Op{Kind: "setproof", Prover: pv, LP: h - 1})
			run(c14Op{Kind: "att", Creator: named[0], Prover: pv})
			if len(named) > 1 {
				run(c14Op{Kind: "att", Creator: named[len(named)-1], Prover: pv})
			}
			r.Hist("directed", "quorum completed while the prover was off the file, then a repeated signature")
		}
	}
	for i := 0; i < steps; i++ {
		h += int64(p.Intn(3))
		f := w.files[p.Intn(len(w.files))]
		st := w.observe()
		kind := "att"
		if mode == 1 || (mode == 2 && p.Bool()) {
			kind = "rep"
		}
		// a live form of this kind, if any
		var lf *c14Form
		fl := st.AForms
		if kind == "rep" {
			fl = st.RForms
		}
		if len(fl) > 0 {
			lf = &fl[p.Intn(len(fl))]
		}
		op := c14Op{Merkle: f.Merkle, Owner: f.Owner, Start: f.Start, Height: h}
		roll := p.Intn(100)
		switch {
		case lf == nil && roll < 70 || roll < 8:
			// request (by a prover of the file mostly)
			op.Kind = map[string]string{"att": "reqA", "rep": "reqR"}[kind]
			who := PickOne(p, f.Proofs)
			switch p.Intn(12) {
			case 0:
				who = PickOne(p, w.provs)
			case 1:
				who = PickOne(p, w.outs)
			case 2:
				who = strings.ToUpper(who)
			}
			if lf != nil && p.Chance(3, 4) { // a second request while this form is collecting signatures
				who = lf.Prover
				op.Merkle, op.Owner, op.Start = lf.Merkle, lf.Owner, lf.Start
			}
			if kind == "att" {
				op.Creator = who
			} else {
				op.Creator, op.Prover = PickOne(p, append(append([]string{}, w.outs...), w.provs...)), who
			}
		case roll < 14:
			op.Kind = "params"
			op.FS, op.Min = fsmin()
			if p.Bool() { // small moves of the minimum around the collected count
				op.FS, op.Min = st.FS, st.Min+int64(p.Intn(3))-1
				if op.Min < 0 {
					op.Min = 0
				}
			}
		case roll < 28 && lf != nil:
			// disturb what the deciding signature will need, or restore it
			op.Merkle, op.Owner, op.Start = lf.Merkle, lf.Owner, lf.Start
			var cur *c14File
			for k := range st.Files {
				if st.Files[k].Merkle == lf.Merkle && st.Files[k].Owner == lf.Owner && st.Files[k].Start == lf.Start {
					cur = &st.Files[k]
				}
			}
			switch p.Intn(7) {
			case 5:
				op.Kind, op.Prover = "delprov", lf.Prover
				if len(lf.Entries) > 0 && p.Chance(2, 3) { // one of the providers named on the form shuts down
					op.Prover = lf.Entries[p.Intn(len(lf.Entries))].Provider
				}
			case 6:
				op.Kind, op.Prover = "setprov", lf.Prover
				if len(w.gone) > 0 && p.Bool() {
					gs := []string{}
					for g := range w.gone {
						gs = append(gs, g)
					}
					sort.Strings(gs)
					op.Prover = gs[0]
				}
			case 0:
				if cur != nil {
					op.Kind = "delfile"
				} else {
					op.Kind, op.Proofs = "setfile", []string{lf.Prover}
				}
			case 1:
				op.Kind, op.Prover = "delproof", lf.Prover
			case 2:
				op.Kind, op.Prover, op.LP = "setproof", lf.Prover, h-1
			case 3:
				op.Kind, op.Proofs = "setfile", []string{}
				if cur != nil {
					for _, x := range cur.Proofs {
						if x != lf.Prover {
							op.Proofs = append(op.Proofs, x)
						}
					}
				}
			default:
				// duplicate entries of the prover in the file's list
				op.Kind, op.Proofs = "setfile", PickOne(p, [][]string{{lf.Prover, w.provs[0], lf.Prover}, {w.provs[0], lf.Prover, lf.Prover}, {lf.Prover, lf.Prover}})
			}
		case lf == nil:
			// a signature on a form that does not exist
			op.Kind, op.Creator, op.Prover = kind, PickOne(p, w.provs), PickOne(p, f.Proofs)
		default:
			op.Kind, op.Prover = kind, lf.Prover
			op.Merkle, op.Owner, op.Start = lf.Merkle, lf.Owner, lf.Start
			var fresh, done []string
			for _, en := range lf.Entries {
				if en.Complete {
					done = append(done, en.Provider)
				} else {
					fresh = append(fresh, en.Provider)
				}
			}
			s := p.Intn(100)
			switch {
			case s < 58 && len(fresh) > 0:
				op.Creator = PickOne(p, fresh)
			case s < 70 && len(done) > 0:
				op.Creator = PickOne(p, done)
			case s < 80 && len(lf.Entries) > 0:
				op.Creator = strings.ToUpper(lf.Entries[p.Intn(len(lf.Entries))].Provider)
			case s < 88:
				op.Creator = PickOne(p, w.provs)
			case s < 93:
				op.Creator = PickOne(p, w.outs)
			case s < 94:
				op.Creator = lf.Prover
			case s < 96 && len(lf.Entries) > 0:
				// the two address fields the other way round: the prover itself signs, naming a provider of its own form
				op.Creator, op.Prover = lf.Prover, lf.Entries[p.Intn(len(lf.Entries))].Provider
			case s < 98 && len(lf.Entries) > 0:
				// a provider named on this form signs, naming another prover of the same file (one no form was requested for)
				op.Creator = lf.Entries[p.Intn(len(lf.Entries))].Provider
				for k := range st.Files {
					if st.Files[k].Merkle == lf.Merkle && st.Files[k].Owner == lf.Owner && st.Files[k].Start == lf.Start {
						for _, x := range st.Files[k].Proofs {
							if x != lf.Prover && x != op.Creator {
								op.Prover = x
							}
						}
					}
				}
			default:
				op.Creator, op.Start = PickOne(p, w.provs), lf.Start+1 // another key
			}
			if sc%3 == 1 && p.Chance(1, 3) {
				// the signature names the twin deal - same content, same height, the owner in the other spelling -, for
				// which no form was requested (or another one was): it counts there or nowhere
				if up := strings.ToUpper(lf.Owner); up != lf.Owner {
					op.Owner = up
				} else {
					op.Owner = strings.ToLower(lf.Owner)
				}
			}
		}
		w.exec(tr, op, hist, true)
		hist = append(hist, op)
	}
	return nil
}

// ---------------------------------------------------------------- exhaustive signature orders

type c14Enum struct {
	req      c14Op
	w        *c14World
	kind     string // att | rep
	prover   string
	f        c14File
	listed   []string
	unlisted string
	maxDepth int
	nodes    int
	emitEach int
}

func (en *c14Enum) dfs(tr *c14Track, depth, used int, lowered, again bool, hist []c14Op) {
	if depth >= en.maxDepth {
		return
	}
	w := en.w
	base := w.e.Ctx
	type choice struct {
		op      c14Op
		used    int
		lowered bool
		again   bool
	}
	var cs []choice
	sig := func(c string) c14Op {
		return c14Op{Kind: en.kind, Creator: c, Prover: en.prover, Merkle: en.f.Merkle, Owner: en.f.Owner, Start: en.f.Start, Height: 1000 + int64(depth)}
	}
	for i := 0; i <= used && i < len(en.listed); i++ {
		u := used
		if i == used {
			u = used + 1
		}
		cs = append(cs, choice{sig(en.listed[i]), u, lowered, again})
	}
	cs = append(cs, choice{sig(en.unlisted), used, lowered, again})
	if len(en.listed) > 0 {
		cs = append(cs, choice{sig(strings.ToUpper(en.listed[0])), used, lowered, again})
	}
	if len(en.listed) > 0 && depth < 2 {
		// the two address fields the other way round: the prover signs, naming a provider listed on its own form
		sw := sig(en.prover)
		sw.Prover = en.listed[depth%len(en.listed)]
		cs = append(cs, choice{sw, used, lowered, again})
	}
	if !lowered {
		pr := w.e.App.StorageKeeper.GetParams(base)
		if pr.AttestMinToPass > 0 {
			cs = append(cs, choice{c14Op{Kind: "params", FS: pr.AttestFormSize, Min: pr.AttestMinToPass - 1}, used, true, again})
		}
	}
	if !again && depth > 0 && depth+1 < en.maxDepth {
		rq := en.req
		rq.Height = 1000 + int64(depth)
		cs = append(cs, choice{rq, used, lowered, true})
	}
	for _, c := range cs {
		branch, _ := base.CacheContext()
		w.e.Ctx = branch
		t2 := tr.clone()
		en.nodes++
		w.exec(t2, c.op, hist, en.emitEach > 0 && en.nodes%en.emitEach == 0)
		en.dfs(t2, depth+1, c.used, c.lowered, c.again, append(append([]c14Op{}, hist...), c.op))
	}
	w.e.Ctx = base
}

func c14Exhaustive(r *RunCtx, p *PRNG) error {
	w, err := c14NewWorld(r)
	if err != nil {
		return err
	}
	defer w.e.Close()
	for i := 0; i < 8; i++ {
		if err := w.addProvider(Acct(100+i), Acct(100+i).String(), fmt.Sprintf("https://n%d.%s", i, c14GoodDomains[i]), false); err != nil {
			return err
		}
	}
	w.outs = []string{Acct(130).String()}
	owner := Acct(120).String()
	// provider 7 holds no proof (not active): it is the unlisted signer; 0..6 prove the two files
	f1 := w.addFile(p.Bytes(32), owner, 3, []string{w.provs[0], w.provs[1], w.provs[2]}, 1)
	w.addFile(p.Bytes(32), owner, 4, []string{w.provs[3], w.provs[4], w.provs[5], w.provs[6]}, 1)
	w.describe()
	root := w.e.Ctx
	depth := r.Scale(4, 6)
	total := 0
	for fs := int64(0); fs <= 5; fs++ {
		for mn := int64(0); mn <= fs+1; mn++ {
			if mn > fs && fs != 2 { // Min > FormSize once
				continue
			}
			for _, kind := range []string{"att", "rep"} {
				branch, _ := root.CacheContext()
				w.e.Ctx = branch.WithBlockHeight(900 + fs)
				w.setParams(fs, mn)
				tr := c14NewTrack()
				req := c14Op{Kind: "reqA", Creator: w.provs[0], Merkle: f1.Merkle, Owner: f1.Owner, Start: f1.Start, Height: 900 + fs}
				if kind == "rep" {
					req = c14Op{Kind: "reqR", Creator: w.outs[0], Prover: w.provs[0], Merkle: f1.Merkle, Owner: f1.Owner, Start: f1.Start, Height: 900 + fs}
				}
				w.exec(tr, req, nil, true)
				lv := tr.of(kind)[c14Key(w.provs[0], f1.Merkle, f1.Owner, f1.Start)]
				if lv == nil {
					// the request for this configuration was refused (or recorded no form): nothing to enumerate here;
					// whether the refusal itself is right is decided by the correspondence and the monitors in w.exec
					r.Hist("exhaustive", fmt.Sprintf("fs=%d,min=%d,%s: request recorded no form", fs, mn, kind))
					continue
				}
				en := &c14Enum{req: req, w: w, kind: kind, prover: w.provs[0], f: f1, listed: lv.listed, unlisted: w.provs[7], maxDepth: depth, emitEach: r.Scale(13, 80)}
				en.dfs(tr, 0, 0, false, false, []c14Op{req})
				total += en.nodes
				r.Hist("exhaustive", fmt.Sprintf("fs=%d,min=%d,%s: %d signature sequences' nodes", fs, mn, kind, en.nodes))
			}
		}
	}
	w.e.Ctx = root
	r.Sum.Notes = append(r.Sum.Notes, fmt.Sprintf("exhaustive part: %d operations over all signature orders up to length %d", total, depth))
	return nil
}

// ---------------------------------------------------------------- directed

// the validators of the two parameters (what "parameters pass the module validators" excludes)
func c14ParamValidators(r *RunCtx) {
	for _, pair := range (&storagetypes.Params{}).ParamSetPairs() {
		name := string(pair.Key)
		if name != "AttestFormSize" && name != "AttestMinToPass" {
			continue
		}
		for _, v := range []int64{-1, 0, 1, 7} {
			err := pair.ValidatorFn(v)
			r.Hist("validators", fmt.Sprintf("%s(%d) rejected=%v", name, v, err != nil))
			if (v < 0) != (err != nil) {
				r.Finding("C14/params/validator-range", fmt.Sprintf("validator of %s: value %d rejected=%v (the model assumes exactly the negative values are rejected)", name, v, err != nil), map[string]interface{}{"param": name, "value": v})
			}
		}
	}
}

// one account registered twice (lower- and upper-case bech32 spelling, two domains) through the
// real InitProvider; the form of the lower-case prover then names the upper-case spelling
func c14DirectedDoubleRegistration(r *RunCtx) error {
	w, err := c14NewWorld(r)
	if err != nil {
		return err
	}
	defer w.e.Close()
	P := Acct(100)
	if err := w.addProvider(P, P.String(), "https://node0.alpha.com:3000", false); err != nil {
		return err
	}
	if err := w.addProvider(P, Spell(P, true), "https://other.omega.site:1", false); err != nil {
		// a tree in which InitProvider insists on the canonical spelling: nothing to show
		r.Hist("double-registration", "InitProvider refuses the upper-case spelling")
		return nil
	}
	r.Hist("double-registration", "accepted")
	for i := 1; i <= 2; i++ {
		if err := w.addProvider(Acct(100+i), Acct(100+i).String(), fmt.Sprintf("https://n%d.%s", i, c14GoodDomains[i]), false); err != nil {
			return err
		}
	}
	owner := Acct(120).String()
	f := w.addFile([]byte("double-registration-file-F-merkle"), owner, 3, []string{w.provs[0], w.provs[2]}, 1)
	w.addFile([]byte("double-registration-file-G-merkle"), owner, 4, []string{w.provs[1], w.provs[3]}, 1)
	w.setParams(3, 1)
	w.describe()
	tr := c14NewTrack()
	hist := []c14Op{}
	for _, op := range []c14Op{
		{Kind: "reqA", Creator: w.provs[0], Merkle: f.Merkle, Owner: f.Owner, Start: f.Start, Height: 20},
		{Kind: "att", Creator: w.provs[0], Prover: w.provs[0], Merkle: f.Merkle, Owner: f.Owner, Start: f.Start, Height: 21},
		{Kind: "att", Creator: w.provs[1], Prover: w.provs[0], Merkle: f.Merkle, Owner: f.Owner, Start: f.Start, Height: 22},
		{Kind: "reqR", Creator: owner, Prover: w.provs[0], Merkle: f.Merkle, Owner: f.Owner, Start: f.Start, Height: 23},
	} {
		w.exec(tr, op, hist, true)
		hist = append(hist, op)
	}
	return nil
}

// c14GroupOverride: the C01 check runs the quorum part of this generator under its own group name
var c14GroupOverride string

func c14Group() string {
	if c14GroupOverride != "" {
		return c14GroupOverride
	}
	return "hist"
}

func runC14(r *RunCtx) error {
	r.Sum.Rule = "operations of RequestAttestationForm / Attest / RequestReportForm / Report on the assembled app: (a) random mostly-valid histories over provider populations of 3..8 with shared domains, one-label hosts, unparsable IPs, double registration under the upper-case spelling, parameter changes, store writes that remove / restore the file, the prover entry or the proof record mid-collection, signatures by listed / repeated / unlisted / upper-case / outsider signers and on absent keys; (b) for every (FormSize, Min) with Min <= FormSize <= 5 (and Min = 0, Min > FormSize) every order and multiset, up to renaming of listed signers, of signatures by listed / unlisted / upper-case signers with an optional lowering of the minimum, run on cache-context branches; one evaluation = one handler call with pre/post state; non-trivial = distinct (pre-state, op) that creates, records, acts or addresses a live form"
	r.Group("hist", "From JK Require Import Model.Forms Corr.C14.", "c14_case", "c14_ok")
	c14ParamValidators(r)
	p := r.Rng
	if err := c14Exhaustive(r, p.Fork()); err != nil {
		return err
	}
	n := r.Scale(45, 300)
	for sc := 0; sc < n; sc++ {
		if err := c14RandomHistory(r, p.Fork(), sc); err != nil {
			return err
		}
	}
	if err := c14DirectedRemovedFile(r); err != nil {
		return err
	}
	return c14DirectedDoubleRegistration(r)
}

// a file with three provers is deleted by its owner; the prover that proved nothing else holds no proof any more and
// must not be named on the forms the provers of the other file ask for afterwards
func c14DirectedRemovedFile(r *RunCtx) error {
	w, err := c14NewWorld(r)
	if err != nil {
		return err
	}
	defer w.e.Close()
	for i := 0; i < 7; i++ {
		if err := w.addProvider(Acct(100+i), Acct(100+i).String(), fmt.Sprintf("https://node%d.%s:%d", i, c14GoodDomains[i%len(c14GoodDomains)], 3000+i), false); err != nil {
			return err
		}
	}
	owner := Acct(120).String()
	f := w.addFile([]byte("removed-file-F-merkle-0123456789"), owner, 3, []string{w.provs[0], w.provs[1], w.provs[2]}, 1)
	g := w.addFile([]byte("kept-file-G-merkle-0123456789abc"), owner, 4, []string{w.provs[3], w.provs[4], w.provs[5]}, 1)
	h := w.addFile([]byte("kept-file-H-merkle-0123456789abc"), owner, 5, []string{w.provs[6], w.provs[0], w.provs[2]}, 1)
	w.setParams(3, 2)
	w.describe()
	tr := c14NewTrack()
	hist := []c14Op{}
	ops := []c14Op{{Kind: "delfile", Merkle: f.Merkle, Owner: f.Owner, Start: f.Start}}
	for i, pv := range []string{w.provs[3], w.provs[4], w.provs[5]} {
		ops = append(ops, c14Op{Kind: "reqA", Creator: pv, Merkle: g.Merkle, Owner: g.Owner, Start: g.Start, Height: int64(20 + 3*i)})
		ops = append(ops, c14Op{Kind: "reqR", Creator: owner, Prover: pv, Merkle: g.Merkle, Owner: g.Owner, Start: g.Start, Height: int64(31 + 2*i)})
	}
	for _, op := range ops {
		w.exec(tr, op, hist, true)
		hist = append(hist, op)
	}
	r.Hist("directed", "removed-file")
	// a report form keeps the providers it named and their signatures: a named provider that signed and then shut
	// down, a second request for the same form, the provider's return, another named provider leaving, a third request
	w.setParams(3, 3)
	run := func(op c14Op) {
		w.exec(tr, op, hist, true)
		hist = append(hist, op)
	}
	target := w.provs[6]
	run(c14Op{Kind: "reqR", Creator: owner, Prover: target, Merkle: h.Merkle, Owner: h.Owner, Start: h.Start, Height: 50})
	st := w.observe()
	if fm := st.form("rep", c14Key(target, h.Merkle, h.Owner, h.Start)); fm != nil && len(fm.Entries) >= 3 {
		j0, j1, j2 := fm.Entries[0].Provider, fm.Entries[1].Provider, fm.Entries[2].Provider
		rq := c14Op{Kind: "reqR", Creator: owner, Prover: target, Merkle: h.Merkle, Owner: h.Owner, Start: h.Start}
		sign := func(j string, hh int64) c14Op {
			return c14Op{Kind: "rep", Creator: j, Prover: target, Merkle: h.Merkle, Owner: h.Owner, Start: h.Start, Height: hh}
		}
		for _, op := range []c14Op{sign(j0, 51), {Kind: "delprov", Prover: j0}, rq, {Kind: "setprov", Prover: j0}, {Kind: "delprov", Prover: j2}, rq, sign(j0, 55), sign(j1, 56), {Kind: "setprov", Prover: j2}, sign(j2, 57)} {
			if op.Kind == "reqR" {
				op.Height = 52 + int64(len(hist)%3)
			}
			run(op)
		}
		r.Hist("directed", "named-provider-leaves-and-returns")
	}
	return nil
}
