package main

// C07 — plan space accounting matches the files actually held.
// History level, real app: interleavings of BuyStorage, PostFile (plan-paid and pay-once),
// DeleteFile, PostProof, reward blocks (RunRewardBlock) and block/time advances by several
// accounts.  After every operation the complete StoragePaymentInfo and UnifiedFile stores are
// read back; (pre, op, post) goes to the Coq model (Corr/C07.v) and the property monitors are
// evaluated on the observed states (independent of the model).

import (
	"bytes"
	"crypto/sha256"
	"encoding/hex"
	"encoding/json"
	"fmt"
	"io"
	"math"
	"math/big"
	"strings"
	"time"

	wasmvmtypes "github.com/CosmWasm/wasmvm/types"
	sdk "github.com/cosmos/cosmos-sdk/types"
	"github.com/jackalLabs/canine-chain/v4/wasmbinding"
	"github.com/jackalLabs/canine-chain/v4/wasmbinding/bindings"
	storagetypes "github.com/jackalLabs/canine-chain/v4/x/storage/types"
	"github.com/wealdtech/go-merkletree/v2"
	"github.com/wealdtech/go-merkletree/v2/sha3"
)

func init() { runners["C07"] = runC07 }

type c07Plan struct {
	Addr  string   `json:"addr"`
	Avail int64    `json:"avail"`
	Used  int64    `json:"used"`
	End   string   `json:"end_ns"`
	endNs *big.Int `json:"-"`
}

type c07File struct {
	Merkle  string `json:"merkle"`
	Owner   string `json:"owner"`
	Start   int64  `json:"start"`
	Size    int64  `json:"size"`
	MaxP    int64  `json:"maxproofs"`
	Expires int64  `json:"expires"`
	PI      int64  `json:"proof_interval"`
	Provers int    `json:"provers"`
}

func (f c07File) key() string { return fmt.Sprintf("%s/%s/%d", f.Merkle, f.Owner, f.Start) }
func (f c07File) planPaid() bool {
	return f.Expires <= 0 // PostFile: everything that is not "Expires > 0" goes against the plan
}
func (f c07File) footprint() *big.Int {
	return new(big.Int).Mul(big.NewInt(f.Size), big.NewInt(f.MaxP))
}

type c07State struct {
	Plans []c07Plan `json:"plans"`
	Files []c07File `json:"files"`
}

func (s c07State) plan(addr string) *c07Plan {
	for i := range s.Plans {
		if s.Plans[i].Addr == addr {
			return &s.Plans[i]
		}
	}
	return nil
}

func (s c07State) file(key string) *c07File {
	for i := range s.Files {
		if s.Files[i].key() == key {
			return &s.Files[i]
		}
	}
	return nil
}

func c07Ns(t time.Time) *big.Int {
	v := new(big.Int).Mul(big.NewInt(t.Unix()), big.NewInt(1_000_000_000))
	return v.Add(v, big.NewInt(int64(t.Nanosecond())))
}

func c07Same(a, b c07State) bool {
	ja, _ := json.Marshal(a)
	jb, _ := json.Marshal(b)
	return string(ja) == string(jb)
}

type c07Merkle struct {
	Root, Item, Proof []byte
}

// one-chunk file: root of the tree over sha256("0" + hex(data)), and the proof of chunk 0
func c07MakeMerkle(data string) (c07Merkle, error) {
	h := sha256.New()
	_, _ = io.WriteString(h, fmt.Sprintf("%d%x", 0, []byte(data)))
	leaf := h.Sum(nil)
	tree, err := merkletree.NewUsing([][]byte{leaf}, sha3.New512(), false)
	if err != nil {
		return c07Merkle{}, err
	}
	proof, err := tree.GenerateProof(leaf, 0)
	if err != nil {
		return c07Merkle{}, err
	}
	jp, err := json.Marshal(*proof)
	if err != nil {
		return c07Merkle{}, err
	}
	return c07Merkle{Root: tree.Root(), Item: []byte(data), Proof: jp}, nil
}

type c07Hist struct {
	r       *RunCtx
	e       *Env
	p       *PRNG
	k       int
	owners  map[string]uint64
	merkles map[string]uint64
	pool    []c07Merkle
	trace   []interface{}
	window  int64
	cw      int64
	dead    []c07File // files that existed once (stale references for DeleteFile)
	aborted bool
	// the next PostFile is sent by a contract: the custom wasm message {"post_file": …} through the chain's own
	// message plugin (no transaction, so baseapp's ValidateBasic is not on the way)
	contract bool
	nPosts   int
}

// contractPost delivers a MsgPostFile the way a CosmWasm contract does, on a cache context written only on success
func (h *c07Hist) contractPost(msg *storagetypes.MsgPostFile) MsgResult {
	e := h.e
	addr, err := sdk.AccAddressFromBech32(msg.Creator)
	if err != nil {
		return MsgResult{Out: OutFail, Err: "no such contract: " + err.Error()}
	}
	js, err := json.Marshal(bindings.JackalMsg{PostFile: msg})
	if err != nil {
		return MsgResult{Out: OutFail, Err: err.Error()}
	}
	m := wasmbinding.CustomMessageDecorator(&e.App.FileTreeKeeper, &e.App.StorageKeeper)(nil)
	cctx, write := e.Ctx.CacheContext()
	var derr error
	if pn := Guard(func() { _, _, derr = m.DispatchMsg(cctx, addr, "", wasmvmtypes.CosmosMsg{Custom: js}) }); pn != "" {
		return MsgResult{Out: OutPanic, Err: pn}
	}
	if derr != nil {
		return MsgResult{Out: OutFail, Err: derr.Error()}
	}
	write()
	return MsgResult{Out: OutOk}
}

const c07NAcct = 4 // accounts 1..3 funded, 4 has no money

func (h *c07Hist) ownerID(s string) uint64 {
	if v, ok := h.owners[s]; ok {
		return v
	}
	v := uint64(1000 + len(h.owners))
	h.owners[s] = v
	return v
}

func (h *c07Hist) merkleID(m string) uint64 {
	if v, ok := h.merkles[m]; ok {
		return v
	}
	v := uint64(1000 + len(h.merkles))
	h.merkles[m] = v
	return v
}

func (h *c07Hist) observe() c07State {
	st := c07State{Plans: []c07Plan{}, Files: []c07File{}}
	for _, p := range h.e.App.StorageKeeper.GetAllStoragePaymentInfo(h.e.Ctx) {
		ns := c07Ns(p.End)
		st.Plans = append(st.Plans, c07Plan{Addr: p.Address, Avail: p.SpaceAvailable, Used: p.SpaceUsed, End: ns.String(), endNs: ns})
	}
	for _, f := range h.e.App.StorageKeeper.GetAllFileByMerkle(h.e.Ctx) {
		st.Files = append(st.Files, c07File{Merkle: hex.EncodeToString(f.Merkle), Owner: f.Owner, Start: f.Start, Size: f.FileSize,
			MaxP: f.MaxProofs, Expires: f.Expires, PI: f.ProofInterval, Provers: len(f.Proofs)})
	}
	return st
}

func (h *c07Hist) cState(s c07State) string {
	ps := make([]string, len(s.Plans))
	for i, p := range s.Plans {
		ps[i] = fmt.Sprintf("(%s, {| p_avail := %s; p_used := %s; p_end := %s |})", cN(h.ownerID(p.Addr)), cZ(p.Avail), cZ(p.Used), cZbig(p.endNs))
	}
	fs := make([]string, len(s.Files))
	for i, f := range s.Files {
		fs[i] = fmt.Sprintf("(%s, {| f_size := %s; f_maxp := %s; f_expires := %s; f_pi := %s; f_provers := %s |})",
			h.cKey(f.Merkle, f.Owner, f.Start), cZ(f.Size), cZ(f.MaxP), cZ(f.Expires), cZ(f.PI), cZ(int64(f.Provers)))
	}
	return fmt.Sprintf("{| plans := %s; files := %s |}", cList(ps), cList(fs))
}

func (h *c07Hist) cKey(merkleHex, owner string, start int64) string {
	return fmt.Sprintf("(%s, %s, %s)", cN(h.merkleID(merkleHex)), cN(h.ownerID(owner)), cZ(start))
}

func c07Out(o string) string {
	switch o {
	case OutOk:
		return "PlOk"
	case OutFail:
		return "PlFail"
	}
	return "PlPanic"
}

func (h *c07Hist) nowNs() *big.Int { return c07Ns(h.e.Time) }

func (h *c07Hist) finding(sig, what string, extra interface{}) {
	tr := h.trace
	if len(tr) > 60 {
		tr = tr[len(tr)-60:]
	}
	h.r.Finding(sig, what, map[string]interface{}{"history": h.k, "seed": h.r.Seed, "ops": tr, "detail": extra})
}

// ---- monitors that apply after every operation (the property's invariant, on the implementation)
func (h *c07Hist) monInvariant(st c07State, after string) {
	for _, p := range st.Plans {
		sum := new(big.Int)
		for _, f := range st.Files {
			if f.Owner == p.Addr && f.planPaid() {
				sum.Add(sum, f.footprint())
			}
		}
		if sum.Cmp(big.NewInt(p.Used)) != 0 {
			h.finding("C07/used-differs-from-live-files/"+after, fmt.Sprintf("SpaceUsed %d of %s differs from the footprint %s of its live plan-paid files", p.Used, p.Addr, sum), st)
		}
		if p.Used < 0 {
			h.finding("C07/used-negative/"+after, fmt.Sprintf("SpaceUsed %d of %s is negative", p.Used, p.Addr), st)
		}
		if p.Used > p.Avail {
			h.finding("C07/used-exceeds-available/"+after, fmt.Sprintf("SpaceUsed %d of %s exceeds SpaceAvailable %d", p.Used, p.Addr, p.Avail), st)
		}
	}
	for _, f := range st.Files {
		if f.planPaid() && st.plan(f.Owner) == nil {
			h.finding("C07/plan-paid-file-without-plan/"+after, "a live file was posted against a plan its owner does not have", f)
		}
	}
	// GetClientFreeSpace agrees with the stored record
	for i := 1; i <= c07NAcct; i++ {
		addr := Acct(i).String()
		res, err := h.e.App.StorageKeeper.GetClientFreeSpace(sdk.WrapSDKContext(h.e.Ctx), &storagetypes.QueryClientFreeSpace{Address: addr})
		want := int64(0)
		if p := st.plan(addr); p != nil {
			want = p.Avail - p.Used
		}
		if err != nil || res.BytesFree != want {
			h.finding("C07/free-space-query/"+after, fmt.Sprintf("GetClientFreeSpace of %s does not report available minus used (%d)", addr, want), st)
		}
	}
}

func (h *c07Hist) monUnchangedOnFailure(kind, out string, pre, post c07State) {
	if out != OutOk && !c07Same(pre, post) {
		h.finding("C07/failed-op-changed-state/"+kind, "an operation that failed changed plans or files", map[string]interface{}{"pre": pre, "post": post})
	}
}

// after a removal (owner deletion or the chain dropping files): every plan gets back exactly the
// footprint of its plan-paid files that ceased to exist, nothing else moves
func (h *c07Hist) monRemoval(kind string, pre, post c07State, mayVanish func(f c07File) bool) {
	back := map[string]*big.Int{}
	for _, f := range pre.Files {
		if post.file(f.key()) != nil {
			continue
		}
		if !mayVanish(f) {
			h.finding("C07/unrelated-file-removed/"+kind, "a file other than the targeted one ceased to exist", f)
		}
		if f.planPaid() {
			if back[f.Owner] == nil {
				back[f.Owner] = new(big.Int)
			}
			back[f.Owner].Add(back[f.Owner], f.footprint())
		}
	}
	for _, f := range post.Files {
		if pre.file(f.key()) == nil {
			h.finding("C07/file-appeared/"+kind, "a removal created a file", f)
		}
	}
	for _, p := range pre.Plans {
		q := post.plan(p.Addr)
		if q == nil {
			h.finding("C07/plan-vanished/"+kind, "a storage plan ceased to exist", p)
			continue
		}
		want := new(big.Int).Sub(big.NewInt(p.Used), orZero(back[p.Addr]))
		if want.Cmp(big.NewInt(q.Used)) != 0 {
			h.finding("C07/footprint-not-returned/"+kind, fmt.Sprintf("SpaceUsed of %s (not counting a file this operation posted) went from %d to %d although the plan-paid files that ceased to exist held %s", p.Addr, p.Used, q.Used, orZero(back[p.Addr])), map[string]interface{}{"pre": pre, "post": post})
		}
		if q.Avail != p.Avail || q.End != p.End {
			h.finding("C07/plan-terms-changed/"+kind, "a removal changed SpaceAvailable or End of a plan", map[string]interface{}{"pre": p, "post": q})
		}
	}
}

func orZero(b *big.Int) *big.Int {
	if b == nil {
		return new(big.Int)
	}
	return b
}

func (h *c07Hist) count(kind string, pre, post c07State, desc interface{}) {
	js, _ := json.Marshal(desc)
	jp, _ := json.Marshal(pre)
	sum := sha256.Sum256(append(js, jp...))
	h.r.Count(hex.EncodeToString(sum[:8]), !c07Same(pre, post))
	h.r.Hist("ops", kind)
}

// ---- operations

func (h *c07Hist) doBuy(creator sdk.AccAddress, forAddr string, days, bytes int64, denom string) {
	e := h.e
	pre := h.observe()
	msg := &storagetypes.MsgBuyStorage{Creator: creator.String(), ForAddress: forAddr, DurationDays: days, Bytes: bytes, PaymentDenom: denom}
	// glue, computed with the repository's own functions on the state before the message
	forAcc, rerr := e.App.RnsKeeper.Resolve(e.Ctx, forAddr)
	_, perr := sdk.AccAddressFromBech32(forAddr)
	resolveOK := rerr == nil && perr == nil
	forCanon := ""
	if resolveOK {
		forCanon = forAcc.String()
	}
	duration := time.Duration(days) * time.Hour * 24
	upgradeOK, payOK := true, true
	if resolveOK && days > 0 && duration >= 30*24*time.Hour && bytes/1_000_000_000 > 0 && denom == "ujkl" {
		hours := sdk.NewDec(duration.Milliseconds()).Quo(sdk.NewDec(60 * 60 * 1000))
		cost := e.App.StorageKeeper.GetStorageCost(e.Ctx, bytes/1_000_000_000, hours.TruncateInt().Int64())
		toPay := cost
		if pi, found := e.App.StorageKeeper.GetStoragePaymentInfo(e.Ctx, forCanon); found && pi.End.After(e.Time) {
			c, uerr := e.App.StorageKeeper.UpgradeStorage(e.Ctx, bytes, pi, duration, cost, denom)
			if uerr != nil {
				upgradeOK = false
			} else {
				toPay = c.Amount
			}
		}
		payOK = e.App.BankKeeper.GetBalance(e.Ctx, creator, "ujkl").Amount.GTE(toPay)
	}
	res := e.Run(msg)
	post := h.observe()
	desc := map[string]interface{}{"op": "BuyStorage", "height": e.Height, "time_ns": h.nowNs().String(), "creator": creator.String(), "for": forAddr, "days": days, "bytes": bytes, "denom": denom, "out": res.Out, "err": res.Err}
	h.trace = append(h.trace, desc)
	term := fmt.Sprintf("CBuy %s %s {| bm_for := %s; bm_days := %s; bm_bytes := %s; bm_resolve_ok := %s; bm_denom_ok := %s; bm_upgrade_ok := %s; bm_pay_ok := %s |} %s %s",
		h.cState(pre), cZbig(h.nowNs()), cN(h.ownerID(forCanon)), cZ(days), cZ(bytes), cBool(resolveOK), cBool(denom == "ujkl"), cBool(upgradeOK), cBool(payOK), c07Out(res.Out), h.cState(post))
	h.r.Case("hist", term, map[string]interface{}{"history": h.k, "op": desc, "pre": pre, "post": post})
	h.count("BuyStorage:"+res.Out, pre, post, desc)
	h.monUnchangedOnFailure("BuyStorage", res.Out, pre, post)
	if res.Out == OutOk && resolveOK {
		// the new plan carries the usage over and only that plan changes; files untouched
		old, nw := pre.plan(forCanon), post.plan(forCanon)
		carried := int64(0)
		if old != nil {
			carried = old.Used
		}
		if nw == nil || nw.Used != carried || nw.Avail != bytes {
			h.finding("C07/buy-does-not-carry-usage", "BuyStorage wrote a plan whose SpaceUsed is not the usage of the plan it replaces", map[string]interface{}{"pre": old, "post": nw})
		}
		jf1, _ := json.Marshal(pre.Files)
		jf2, _ := json.Marshal(post.Files)
		if string(jf1) != string(jf2) {
			h.finding("C07/buy-changed-files", "BuyStorage changed the stored files", nil)
		}
		for _, p := range pre.Plans {
			if p.Addr != forCanon {
				if q := post.plan(p.Addr); q == nil || q.Used != p.Used || q.Avail != p.Avail || q.End != p.End {
					h.finding("C07/buy-changed-other-plan", "BuyStorage changed the plan of another account", p)
				}
			}
		}
	}
	h.monInvariant(post, "BuyStorage")
}

func (h *c07Hist) doPost(creator string, merkle []byte, size, maxp, expires int64, note string) {
	e := h.e
	pre := h.observe()
	msg := &storagetypes.MsgPostFile{Creator: creator, Merkle: merkle, FileSize: size, ProofType: 0, MaxProofs: maxp, Expires: expires, Note: note}
	// glue for the pay-once branch: can the creator pay the price the keeper computes
	payOK := true
	if expires > 0 && size > 0 && maxp > 0 && size <= math.MaxInt64/maxp {
		kbs := size * maxp / 1000
		if kbs < 1024 {
			kbs = 1024
		}
		hours := (expires - e.Height) * 6 / 60 / 60
		if hours/24 > 0 {
			cost := e.App.StorageKeeper.GetStorageCostKbs(e.Ctx, kbs, hours)
			if acc, err := sdk.AccAddressFromBech32(creator); err != nil {
				payOK = false
			} else {
				payOK = e.App.BankKeeper.GetBalance(e.Ctx, acc, "ujkl").Amount.GTE(cost)
			}
		}
	}
	var res MsgResult
	via := "transaction"
	canonical := false
	if a, err := sdk.AccAddressFromBech32(creator); err == nil && a.String() == creator {
		canonical = true // (a contract's own address has one spelling: the message plugin compares with it)
	}
	if h.contract && canonical {
		res, via = h.contractPost(msg), "contract"
	} else {
		res = e.Run(msg)
	}
	h.r.Hist("post-route", via+":"+res.Out)
	post := h.observe()
	mh := hex.EncodeToString(merkle)
	desc := map[string]interface{}{"route": via, "op": "PostFile", "height": e.Height, "time_ns": h.nowNs().String(), "creator": creator, "merkle": mh, "size": size, "maxproofs": maxp, "expires": expires, "note": note, "out": res.Out, "err": res.Err}
	h.trace = append(h.trace, desc)
	term := fmt.Sprintf("CPost %s %s %s %s {| pm_creator := %s; pm_merkle := %s; pm_size := %s; pm_maxp := %s; pm_expires := %s; pm_note_ok := %s; pm_pay_ok := %s |} %s %s",
		h.cState(pre), cZ(e.Height), cZbig(h.nowNs()), cZ(h.window), cN(h.ownerID(creator)), cN(h.merkleID(mh)), cZ(size), cZ(maxp), cZ(expires), cBool(json.Valid([]byte(note))), cBool(payOK), c07Out(res.Out), h.cState(post))
	h.r.Case("hist", term, map[string]interface{}{"history": h.k, "op": desc, "pre": pre, "post": post})
	h.count("PostFile:"+res.Out, pre, post, desc)
	kind := "plan"
	if expires > 0 {
		kind = "payonce"
	}
	h.r.Hist("post", kind+":"+res.Out)
	h.monUnchangedOnFailure("PostFile", res.Out, pre, post)
	key := fmt.Sprintf("%s/%s/%d", mh, creator, e.Height)
	if expires <= 0 {
		// must be rejected without a live plan or beyond the remaining space (the space a file
		// under the same key holds is released by the replacement)
		fp := new(big.Int).Mul(big.NewInt(size), big.NewInt(maxp))
		p := pre.plan(creator)
		reject := ""
		switch {
		case p == nil:
			reject = "no-plan"
		case p.endNs.Cmp(h.nowNs()) < 0:
			reject = "expired-plan"
		default:
			rem := new(big.Int).Sub(big.NewInt(p.Avail), big.NewInt(p.Used))
			if old := pre.file(key); old != nil && old.planPaid() {
				rem.Add(rem, old.footprint())
			}
			if fp.Cmp(rem) > 0 {
				reject = "beyond-remaining-space"
			}
		}
		if reject != "" {
			h.r.Hist("post_reject_reason", reject)
			if res.Out == OutOk {
				h.finding("C07/plan-post-accepted/"+reject, "a plan-paid PostFile succeeded although it had to be rejected: "+reject, map[string]interface{}{"pre": pre, "post": post})
			}
		}
	}
	if res.Out == OutOk {
		// nothing but the posted key and the creator's plan may change
		h.monRemoval("PostFile", pre, c07Without(post, key), func(f c07File) bool { return f.key() == key })
		nf := post.file(key)
		if nf == nil || nf.Size != size || nf.MaxP != maxp || nf.Expires != expires {
			h.finding("C07/posted-file-missing", "an accepted PostFile did not store the file as posted", nil)
		}
	}
	h.monInvariant(post, "PostFile")
}

// the state without the file under key and without that file's footprint in its owner's plan
// (so that a post can be checked with the removal monitor: everything else must be as after
// removing whatever was stored under the key before)
func c07Without(s c07State, key string) c07State {
	out := c07State{Plans: append([]c07Plan{}, s.Plans...), Files: []c07File{}}
	for _, f := range s.Files {
		if f.key() != key {
			out.Files = append(out.Files, f)
			continue
		}
		if f.planPaid() {
			for i := range out.Plans {
				if out.Plans[i].Addr == f.Owner {
					out.Plans[i].Used -= f.Size * f.MaxP
				}
			}
		}
	}
	return out
}

func (h *c07Hist) doDelete(creator string, merkleHex string, start int64) {
	e := h.e
	pre := h.observe()
	mb, _ := hex.DecodeString(merkleHex)
	res := e.Run(&storagetypes.MsgDeleteFile{Creator: creator, Merkle: mb, Start: start})
	post := h.observe()
	desc := map[string]interface{}{"op": "DeleteFile", "height": e.Height, "creator": creator, "merkle": merkleHex, "start": start, "out": res.Out, "err": res.Err}
	h.trace = append(h.trace, desc)
	term := fmt.Sprintf("CDelete %s %s %s %s %s %s", h.cState(pre), cN(h.ownerID(creator)), cN(h.merkleID(merkleHex)), cZ(start), c07Out(res.Out), h.cState(post))
	h.r.Case("hist", term, map[string]interface{}{"history": h.k, "op": desc, "pre": pre, "post": post})
	h.count("DeleteFile:"+res.Out, pre, post, desc)
	h.monUnchangedOnFailure("DeleteFile", res.Out, pre, post)
	key := fmt.Sprintf("%s/%s/%d", merkleHex, creator, start)
	if res.Out == OutOk {
		if post.file(key) != nil {
			h.finding("C07/delete-left-file", "DeleteFile by the owner left the file in place", nil)
		}
		h.monRemoval("DeleteFile", pre, post, func(f c07File) bool { return f.key() == key })
	}
	if f := pre.file(key); f != nil {
		h.dead = append(h.dead, *f)
		h.r.Hist("delete", fmt.Sprintf("live planpaid=%v", f.planPaid()))
	} else {
		h.r.Hist("delete", "no such file")
	}
	h.monInvariant(post, "DeleteFile")
}

func (h *c07Hist) doProof(prover sdk.AccAddress, f c07File) {
	e := h.e
	pre := h.observe()
	mb, _ := hex.DecodeString(f.Merkle)
	var m *c07Merkle
	for i := range h.pool {
		if hex.EncodeToString(h.pool[i].Root) == f.Merkle {
			m = &h.pool[i]
		}
	}
	if m == nil {
		return
	}
	res := e.Run(&storagetypes.MsgPostProof{Creator: prover.String(), Item: m.Item, HashList: m.Proof, Merkle: mb, Owner: f.Owner, Start: f.Start, ToProve: 0})
	post := h.observe()
	desc := map[string]interface{}{"op": "PostProof", "height": e.Height, "prover": prover.String(), "file": f.key(), "out": res.Out, "err": res.Err}
	h.trace = append(h.trace, desc)
	term := fmt.Sprintf("CProof %s %s %s", h.cState(pre), h.cKey(f.Merkle, f.Owner, f.Start), h.cState(post))
	h.r.Case("hist", term, map[string]interface{}{"history": h.k, "op": desc, "pre": pre, "post": post})
	h.count("PostProof:"+res.Out, pre, post, desc)
	if g := post.file(f.key()); g != nil {
		h.r.Hist("proof_provers", fmt.Sprintf("%d->%d of %d", f.Provers, g.Provers, f.MaxP))
	}
	h.monUnchangedOnFailure("PostProof", res.Out, pre, post)
	h.monRemoval("PostProof", pre, post, func(c07File) bool { return false })
	h.monInvariant(post, "PostProof")
}

// moves to the next height that is a multiple of CheckWindow and runs the reward block there
func (h *c07Hist) doReward() {
	e := h.e
	next := (e.Height/h.cw + 1) * h.cw
	e.At(next, e.Time.Add(time.Duration(next-e.Height)*6*time.Second))
	h.rewardHere()
}

func (h *c07Hist) rewardHere() {
	e := h.e
	pre := h.observe()
	if pn := Guard(func() { e.App.StorageKeeper.RunRewardBlock(e.Ctx) }); pn != "" {
		h.r.Sum.Notes = append(h.r.Sum.Notes, fmt.Sprintf("history %d: RunRewardBlock panicked at height %d (%s); history abandoned", h.k, e.Height, pn))
		h.aborted = true
		return
	}
	post := h.observe()
	desc := map[string]interface{}{"op": "RewardBlock", "height": e.Height, "check_window": h.cw}
	h.trace = append(h.trace, desc)
	term := fmt.Sprintf("CReward %s %s %s %s", h.cState(pre), cZ(e.Height), cZ(h.cw), h.cState(post))
	h.r.Case("hist", term, map[string]interface{}{"history": h.k, "op": desc, "pre": pre, "post": post})
	h.count("RewardBlock", pre, post, desc)
	dropped := 0
	for _, f := range pre.Files {
		if post.file(f.key()) == nil {
			dropped++
			h.dead = append(h.dead, f)
			h.r.Hist("reward_dropped", fmt.Sprintf("planpaid=%v", f.planPaid()))
		}
	}
	h.r.Hist("reward_block", fmt.Sprintf("dropped %d of %d", dropped, len(pre.Files)))
	h.monRemoval("RewardBlock", pre, post, func(f c07File) bool { return true })
	h.monInvariant(post, "RewardBlock")
}

func (h *c07Hist) doFree(addr string) {
	pre := h.observe()
	res, err := h.e.App.StorageKeeper.GetClientFreeSpace(sdk.WrapSDKContext(h.e.Ctx), &storagetypes.QueryClientFreeSpace{Address: addr})
	if err != nil {
		return
	}
	term := fmt.Sprintf("CFree %s %s %s", h.cState(pre), cN(h.ownerID(addr)), cZ(res.BytesFree))
	h.r.Case("hist", term, map[string]interface{}{"history": h.k, "op": map[string]interface{}{"op": "GetClientFreeSpace", "address": addr, "free": res.BytesFree}, "pre": pre})
	h.r.Count(fmt.Sprintf("free:%d:%s:%d", h.k, addr, len(h.trace)), false)
	h.r.Hist("ops", "GetClientFreeSpace")
}

func (h *c07Hist) advance(blocks int64, d time.Duration) {
	h.e.At(h.e.Height+blocks, h.e.Time.Add(d))
	h.trace = append(h.trace, map[string]interface{}{"op": "Advance", "height": h.e.Height, "time_ns": h.nowNs().String()})
	if h.e.Height%h.cw == 0 && blocks > 0 {
		h.rewardHere()
	}
}

// size and replication count whose product is the wanted footprint
func c07Split(p *PRNG, target int64) (int64, int64) {
	if target <= 0 {
		return target, 1
	}
	cands := []int64{1}
	for _, m := range []int64{2, 3} {
		if target%m == 0 {
			cands = append(cands, m)
		}
	}
	m := PickOne(p, cands)
	return target / m, m
}

func c07NewHist(r *RunCtx, k int, pool []c07Merkle) (*c07Hist, error) {
	e, err := NewEnv()
	if err != nil {
		return nil, err
	}
	h := &c07Hist{r: r, e: e, p: r.Rng, k: k, owners: map[string]uint64{}, merkles: map[string]uint64{}, pool: pool}
	for i := 1; i <= c07NAcct+3; i++ {
		h.owners[Acct(i).String()] = uint64(i)
		h.owners[strings.ToUpper(Acct(i).String())] = uint64(100 + i)
	}
	h.owners[""] = 999 // "no canonical address": ForAddress did not resolve
	for i, m := range pool {
		h.merkles[hex.EncodeToString(m.Root)] = uint64(i + 1)
	}
	params := StorageParams(e)
	h.window, h.cw = params.ProofWindow, params.CheckWindow
	for i := 1; i <= 3; i++ {
		if err := e.Fund(Acct(i), "ujkl", 1_000_000_000_000_000_000); err != nil {
			return nil, err
		}
	}
	if err := e.Fund(Acct(3), "uatom", 1_000_000); err != nil {
		return nil, err
	}
	return h, nil
}

// the histories that used to fail before the repairs, and the boundaries of every guard
func (h *c07Hist) prefix() {
	a1, a2, a3 := Acct(1), Acct(2), Acct(3)
	m0, m1 := h.pool[0].Root, h.pool[1].Root
	h.doPost(a1.String(), m0, 3000, 1, 0, "{}") // no plan yet
	h.doBuy(a1, a1.String(), 30, 3_000_000_000, "ujkl")
	h.doPost(a1.String(), m0, 3000, 1, 0, "{}")                  // used 3000
	h.doPost(a1.String(), m0, 3000, 1, 0, "{}")                  // identical re-post in the same block: still 3000, one file
	h.doPost(a1.String(), m0, 2000, 2, 0, "{}")                  // replaced by a different footprint
	h.doPost(a1.String(), m0, 3000, 1, h.e.Height+14400*3, "{}") // replaced by a pay-once file: plan usage back to 0
	h.doPost(a1.String(), m0, 3000, 1, 0, "{}")                  // and back
	h.doDelete(a1.String(), hex.EncodeToString(m0), h.e.Height)  // used 0
	h.doPost(a1.String(), m0, -5000, 1, 0, "{}")                 // negative size
	h.doPost(a1.String(), m0, 3000, 0, 0, "{}")
	h.doPost(a1.String(), m0, math.MaxInt64/3+1, 3, 0, "{}")
	h.doPost(a1.String(), m1, 1000, 3, -1, "{}")                // negative expiry is plan-paid too
	h.doDelete(a2.String(), hex.EncodeToString(m1), h.e.Height) // not the owner: nothing happens
	h.doDelete(a1.String(), hex.EncodeToString(m1), h.e.Height)
	h.doPost(strings.ToUpper(a1.String()), m1, 1000, 1, 0, "{}") // the plan is stored under the canonical spelling
	// plan boundary
	h.doPost(a1.String(), m0, 1_000_000_000, 3, 0, "{}") // exactly everything
	h.doPost(a1.String(), m1, 1, 1, 0, "{}")             // one more byte
	h.doDelete(a1.String(), hex.EncodeToString(m0), h.e.Height)
	h.doPost(a1.String(), m0, 2_999_999_999, 1, 0, "{}")
	h.doPost(a1.String(), m1, 1, 1, 0, "{}")
	h.doPost(a1.String(), h.pool[2].Root, 1, 1, 0, "{}")
	// downgrade below the usage, live plan and longer term
	h.doBuy(a1, a1.String(), 720, 1_000_000_000, "ujkl")
	h.doBuy(a1, a1.String(), 30, 2_999_999_999, "ujkl")
	h.doBuy(a2, a1.String(), 60, 3_000_000_001, "ujkl") // someone else extends it: usage carried over
	// int64 guard on a very large plan
	h.doBuy(a2, a2.String(), 30, math.MaxInt64, "ujkl")
	h.doPost(a2.String(), m0, 1<<62, 1, 0, "{}")
	h.doPost(a2.String(), m1, 1<<62+5, 1, 0, "{}")
	h.doPost(a2.String(), m1, 1<<61, 2, 0, "{}")
	h.doPost(a2.String(), m1, 1<<62-1, 1, 0, "{}")
	h.doDelete(a2.String(), hex.EncodeToString(m0), h.e.Height)
	// files without provers are dropped by the chain after their first window
	h.advance(47, 47*6*time.Second)                      // height 49
	h.doPost(a1.String(), h.pool[3].Root, 1, 1, 0, "{}") // the last free byte; start + window < 100: dropped at 100
	h.advance(1, 6*time.Second)                          // 50: start + window == 100, still young at the reward block
	h.doBuy(a3, a3.String(), 31, 2_000_000_007, "ujkl")
	h.doPost(a3.String(), h.pool[3].Root, 7, 3, 0, "{}")
	h.doPost(a3.String(), m0, 70000, 2, h.e.Height+14400*2, "{}")
	h.doReward() // 100
	h.doReward() // 200
	// an expiry height that is positive but already reached asks for a one-time payment of no days at all: refused,
	// whatever plan the creator holds; nothing of it may end up against the plan, and deleting changes nothing
	for _, ex := range []int64{1, h.e.Height / 2, h.e.Height - 1, h.e.Height, h.e.Height + 1} {
		h.doPost(a3.String(), h.pool[2].Root, 4000, 1, ex, "{}")
		h.doDelete(a3.String(), hex.EncodeToString(h.pool[2].Root), h.e.Height)
	}
	// expiry: the files stay and keep their space; a new plan below the usage is refused
	h.doPost(a3.String(), m1, 700_000_000, 2, 0, "{}")
	h.advance(3, 32*24*time.Hour)
	h.doPost(a3.String(), m0, 10, 1, 0, "{}")
	h.doBuy(a3, a3.String(), 30, 1_000_000_000, "ujkl")
	h.doBuy(a3, a3.String(), 30, 1_399_999_999, "ujkl")
	h.doBuy(a3, a3.String(), 30, 1_400_000_000, "ujkl")
	h.doPost(a3.String(), m0, 1, 1, 0, "{}")
	h.doDelete(a3.String(), hex.EncodeToString(m1), h.e.Height-3)
	h.doPost(a3.String(), m0, 10, 1, 0, "{}")
	// a contract that owns a plan posts through the custom wasm message: the same rules
	h.contract = true
	h.doPost(a3.String(), m0, -400_000_000, 3, 0, "{}")
	h.doPost(a3.String(), m0, 0, 1, 0, "{}")
	h.doPost(a3.String(), m0, 10, 0, 0, "{}")
	h.doPost(a3.String(), m0, 10, -2, 0, "{}")
	h.doPost(a3.String(), m0, math.MaxInt64/2, 3, 0, "{}")
	h.doPost(a3.String(), m1, 11, 2, 0, "{}")
	h.doPost(a3.String(), m1, 11, 2, 0, "not json")
	h.doPost(strings.ToUpper(a3.String()), m1, 11, 2, 0, "{}")
	h.doPost(a3.String(), h.pool[2].Root, 1_400_000_000, 1, 0, "{}")
	h.contract = false
	a4 := Acct(4)
	// a plan ends at an instant, not at a whole second: bought a quarter past the second, it is over at any block
	// time after that instant — half a second later included — and still live at the instant itself
	h.advance(2, 11*time.Second+250*time.Millisecond)
	h.doBuy(a2, a4.String(), 30, 4_000_000_000, "ujkl") // paid for by someone else
	h.doPost(a4.String(), m0, 410, 1, 0, "{}")
	if pl := h.observe().plan(a4.String()); pl != nil {
		end := time.Unix(new(big.Int).Div(pl.endNs, big.NewInt(1_000_000_000)).Int64(), new(big.Int).Mod(pl.endNs, big.NewInt(1_000_000_000)).Int64()).UTC()
		h.advance(3, end.Sub(h.e.Time))
		h.doPost(a4.String(), m1, 100, 1, 0, "{}") // at the instant the plan ends
		h.advance(1, time.Nanosecond)
		h.doPost(a4.String(), h.pool[2].Root, 100, 1, 0, "{}")
		h.advance(1, 500*time.Millisecond-time.Nanosecond)
		h.doPost(a4.String(), h.pool[3].Root, 100, 1, 0, "{}") // same second, half a second after the end
		h.advance(1, 500*time.Millisecond)
		h.doPost(a4.String(), h.pool[3].Root, 100, 1, 0, "{}")
	}
	// a plan that lapsed long ago: the account's file is still live (posted shortly before a reward block, so it is
	// in its first window there), more than a year passes without a renewal, reward blocks run, then the account
	// buys again: the new plan carries the footprint of the file that is still held
	a5 := Acct(5)
	h.doBuy(a2, a5.String(), 30, 2_000_000_000, "ujkl")
	if d := (h.cw - 10) - h.e.Height%h.cw; d > 0 {
		h.advance(d, time.Duration(d)*6*time.Second)
	} else {
		h.advance(h.cw+d, time.Duration(h.cw+d)*6*time.Second)
	}
	h.doPost(a5.String(), m0, 777, 2, 0, "{}")
	h.advance(1, 400*24*time.Hour)
	h.doReward()
	h.doFree(a5.String())
	h.doBuy(a2, a5.String(), 30, 2_000_000_000, "ujkl")
	h.doFree(a5.String())
	h.doPost(a5.String(), m1, 1_999_999_000, 1, 0, "{}") // does not fit beside the file that is held
	h.doDelete(a5.String(), hex.EncodeToString(m0), h.e.Height-11)
}

func (h *c07Hist) liveFiles() []c07File { return h.observe().Files }

func (h *c07Hist) randomOp() {
	p, e := h.p, h.e
	st := h.observe()
	acct := func() sdk.AccAddress { return Acct(1 + p.Intn(c07NAcct)) }
	spell := func(a sdk.AccAddress) string { return Spell(a, p.Chance(1, 12)) }
	switch c := p.Intn(100); {
	case c < 14: // BuyStorage
		creator := Acct(1 + p.Intn(3))
		if p.Chance(1, 8) {
			creator = Acct(c07NAcct) // cannot pay
		}
		forA := creator
		if p.Chance(1, 4) {
			forA = acct()
		}
		forS := forA.String()
		if p.Chance(1, 10) {
			forS = strings.ToUpper(forS)
		}
		days := PickOne(p, []int64{30, 30, 30, 31, 60, 365, 366, 400, 720})
		if p.Chance(1, 8) {
			days = PickOne(p, []int64{29, 0, -1, 106752, 213534})
		}
		bytes := PickOne(p, []int64{1_000_000_000, 1_000_000_007, 2_000_000_000, 3_000_000_000, 5_000_000_000, 20_000_000_000_000})
		if p.Chance(1, 10) {
			bytes = PickOne(p, []int64{999_999_999, 0, -1_000_000_000})
		}
		if pl := st.plan(forA.String()); pl != nil && pl.Used >= 1_000_000_000 && p.Chance(2, 3) {
			bytes = pl.Used + PickOne(p, []int64{-1, 0, 1, 1_000_000_000})
		}
		if p.Chance(1, 40) {
			bytes = math.MaxInt64
		}
		denom := "ujkl"
		if p.Chance(1, 15) {
			denom = "uatom"
		}
		h.doBuy(creator, forS, days, bytes, denom)
	case c < 50: // PostFile
		a := acct()
		if p.Chance(3, 4) && len(st.Plans) > 0 { // mostly accounts that have a plan
			if acc, err := sdk.AccAddressFromBech32(PickOne(p, st.Plans).Addr); err == nil {
				a = acc
			}
		}
		creator := spell(a)
		m := PickOne(p, h.pool).Root
		var size, maxp int64
		rem := int64(4000)
		if pl := st.plan(creator); pl != nil {
			rem = pl.Avail - pl.Used
		}
		switch p.Intn(10) {
		case 0, 1:
			size, maxp = c07Split(p, rem+PickOne(p, []int64{-1, 0, 1}))
		case 2, 3:
			size, maxp = c07Split(p, rem/int64(2+p.Intn(3)))
		case 4:
			size, maxp = PickOne(p, []int64{0, -1, -5000, 1, math.MaxInt64/2 + 1, math.MaxInt64/3 + 1, math.MaxInt64}), PickOne(p, []int64{0, -1, 1, 2, 3})
		default:
			size, maxp = 1+p.I64n(400_000_000), 1+p.I64n(3)
		}
		expires := int64(0)
		switch p.Intn(12) {
		case 0:
			expires = PickOne(p, []int64{-1, -5000, math.MinInt64})
		case 1, 2, 3:
			expires = e.Height + 14400*int64(1+p.Intn(40))
		case 4:
			expires = PickOne(p, []int64{e.Height + 14399, e.Height + 14400, e.Height + 1, 1, math.MaxInt64, 1 << 61, e.Height, e.Height - 1, 1 + e.Height/2})
		}
		note := "{}"
		if p.Chance(1, 30) {
			note = "not json"
		}
		h.nPosts++
		h.contract = h.nPosts%6 == 4 // every sixth post comes from a contract
		h.doPost(creator, m, size, maxp, expires, note)
		h.contract = false
		if p.Chance(1, 5) { // the same key again in the same block
			sz, mp := size, maxp
			if p.Bool() {
				sz, mp = 1+p.I64n(1_000_000), 1+p.I64n(3)
			}
			ex := expires
			if p.Chance(1, 3) {
				ex = PickOne(p, []int64{0, -1, e.Height + 14400*5})
			}
			h.doPost(creator, m, sz, mp, ex, "{}")
		}
	case c < 62: // DeleteFile
		switch {
		case len(st.Files) > 0 && p.Chance(3, 4):
			f := PickOne(p, st.Files)
			h.doDelete(f.Owner, f.Merkle, f.Start)
		case len(st.Files) > 0 && p.Bool():
			f := PickOne(p, st.Files) // somebody else, or the owner under another spelling
			who := spell(acct())
			if p.Chance(1, 3) {
				who = strings.ToUpper(f.Owner)
			}
			h.doDelete(who, f.Merkle, f.Start)
		case len(h.dead) > 0:
			f := PickOne(p, h.dead) // stale reference
			h.doDelete(f.Owner, f.Merkle, f.Start)
		default:
			h.doDelete(acct().String(), hex.EncodeToString(h.pool[0].Root), e.Height)
		}
	case c < 72: // PostProof
		if len(st.Files) > 0 {
			h.doProof(Acct(c07NAcct+1+p.Intn(3)), PickOne(p, st.Files))
		}
	case c < 80:
		h.doReward()
	case c < 92: // a few blocks, often to the edge of the first proof window before a reward block
		if p.Bool() {
			target := (e.Height/h.cw)*h.cw + h.cw - h.window + int64(p.Intn(4)) - 2
			if target > e.Height {
				h.advance(target-e.Height, time.Duration(target-e.Height)*6*time.Second)
				return
			}
		}
		n := int64(1 + p.Intn(3))
		h.advance(n, time.Duration(n)*6*time.Second)
	case c < 97: // let plans run out
		h.advance(1+int64(p.Intn(5)), time.Duration(5+p.Intn(40))*24*time.Hour)
	default:
		a := acct()
		h.doFree(spell(a))
	}
}

func runC07(r *RunCtx) error {
	r.Sum.Rule = "histories on the assembled app: a deterministic prefix (the histories that failed before the repairs, every guard at its boundary) and random interleavings of BuyStorage / PostFile (plan-paid, pay-once, re-posts of one key in a block) / DeleteFile / PostProof / reward blocks / block and time advances by 4 accounts (one without money) and 3 provers; footprints at remaining-1, remaining, remaining+1; one evaluation = one operation with the full plan and file stores before and after; non-trivial = distinct (operation, state before) that changed plans or files"
	r.Group("hist", "From JK Require Import Model.Plan Corr.C07.", "c07_case", "c07_ok")
	pool := []c07Merkle{}
	for i := 0; i < 4; i++ {
		m, err := c07MakeMerkle(fmt.Sprintf("jackal file %d", i))
		if err != nil {
			return err
		}
		pool = append(pool, m)
	}
	// roots of accepted but unusual shape (the message validation puts no condition on the merkle): absent, one byte, long
	pool = append(pool, c07Merkle{Root: []byte{}, Item: []byte("x")}, c07Merkle{Root: []byte{1}, Item: []byte("x")}, c07Merkle{Root: bytes.Repeat([]byte{0xab}, 200), Item: []byte("x")})
	nh := r.Scale(7, 70)
	steps := r.Scale(45, 90)
	for k := 0; k < nh; k++ {
		h, err := c07NewHist(r, k, pool)
		if err != nil {
			return err
		}
		if k == 0 || r.Rng.Chance(1, 6) {
			h.prefix()
		} else { // mostly valid histories: two or three accounts start with a plan
			for i := 1; i <= 3; i++ {
				if i < 3 || r.Rng.Bool() {
					h.doBuy(Acct(i), Acct(i).String(), PickOne(r.Rng, []int64{30, 31, 60, 365}), PickOne(r.Rng, []int64{1_000_000_000, 2_000_000_000, 3_000_000_000, 4_000_000_001}), "ujkl")
				}
			}
		}
		for i := 0; i < steps && !h.aborted; i++ {
			h.randomOp()
			if r.Rng.Chance(1, 4) {
				h.doFree(Spell(Acct(1+r.Rng.Intn(c07NAcct)), r.Rng.Chance(1, 10)))
			}
		}
		if k == 0 {
			for i, t := range h.trace {
				if i < 3 {
					r.Sample(t)
				}
			}
			r.Sample(h.observe())
		}
		h.e.Close()
	}
	return nil
}
