package main

// C04 — storage payments are charged exactly and split without misdirecting tokens.
// Function level: keeper.GetStorageCost / GetStorageCostKbs on the assembled app's keeper at
// volume (tier boundaries, the year boundary, parameters and price-feed values set through the
// params / oracle keepers).
// History level: MsgBuyStorage and MsgPostFile through the message router of the assembled
// app (real bank, real RNS, real oracle); per operation the whole bank (every balance), every
// payment gauge and every StoragePaymentInfo are read before and after; monitors evaluate the
// property on the observed deltas independently of the Coq model; the (pre, op, post) triples
// go to Corr/C04.v.

import (
	"crypto/sha256"
	"encoding/json"
	"fmt"
	"math/big"
	"sort"
	"strings"
	"time"

	sdk "github.com/cosmos/cosmos-sdk/types"
	gogotypes "github.com/gogo/protobuf/types"
	jtypes "github.com/jackalLabs/canine-chain/v4/types"
	oracletypes "github.com/jackalLabs/canine-chain/v4/x/oracle/types"
	rnskeeper "github.com/jackalLabs/canine-chain/v4/x/rns/keeper"
	rnstypes "github.com/jackalLabs/canine-chain/v4/x/rns/types"
	storagetypes "github.com/jackalLabs/canine-chain/v4/x/storage/types"
)

func init() { runners["C04"] = runC04 }

const (
	c04GB    int64 = 1_000_000_000
	c04DayNs int64 = 86_400_000_000_000
)

// ---------------------------------------------------------------- observation

type c04Gauge struct {
	H, EndUs, Amt int64 // the triple the id is derived from
	Coins         int64 // recorded ujkl
	Addr          string
}

type c04Plan struct {
	Start, End  *big.Int
	Avail, Used int64
}

type c04Snap struct {
	Bal     map[string]int64    // address bytes -> ujkl
	Other   map[string]string   // address bytes -> coins other than ujkl
	Gauges  map[string]c04Gauge // gauge id -> gauge
	Plans   map[string]c04Plan  // address bytes -> plan
	Supply  string              // total supply, all denominations
	SupplyU int64
}

type c04World struct {
	e             *Env
	r             *RunCtx
	users         map[string]int // address bytes -> user id
	nextUser      int
	gkeys         map[string]c04Gauge // gauge id -> triple (first sight)
	escrow        map[string]string   // escrow address bytes -> gauge id
	mod, fee, pol sdk.AccAddress
	trace         []interface{}
}

func c04NewWorld(e *Env, r *RunCtx) *c04World {
	pol, _ := jtypes.GetPOLAccount()
	return &c04World{e: e, r: r, users: map[string]int{}, nextUser: 1000, gkeys: map[string]c04Gauge{}, escrow: map[string]string{},
		mod: e.ModAddr(storagetypes.ModuleName), fee: e.ModAddr("fee_collector"), pol: pol}
}

func c04TimeNs(t time.Time) *big.Int {
	v := new(big.Int).Mul(big.NewInt(t.Unix()), big.NewInt(1_000_000_000))
	return v.Add(v, big.NewInt(int64(t.Nanosecond())))
}

func (w *c04World) snap() (c04Snap, error) {
	e := w.e
	s := c04Snap{Bal: map[string]int64{}, Other: map[string]string{}, Gauges: map[string]c04Gauge{}, Plans: map[string]c04Plan{}}
	for _, b := range e.App.BankKeeper.GetAccountsBalances(e.Ctx) {
		a, err := sdk.AccAddressFromBech32(b.Address)
		if err != nil {
			return s, err
		}
		u := b.Coins.AmountOf("ujkl")
		if !u.IsZero() {
			s.Bal[string(a)] = u.Int64()
		}
		rest := b.Coins.Sub(sdk.NewCoins(sdk.NewCoin("ujkl", u)))
		if !rest.IsZero() {
			s.Other[string(a)] = rest.String()
		}
	}
	for _, g := range e.App.StorageKeeper.GetAllPaymentGauges(e.Ctx) {
		id := string(g.Id)
		k, known := w.gkeys[id]
		if !known {
			// first sight: the gauge was created at the current height with exactly these coins
			k = c04Gauge{H: e.Ctx.BlockHeight(), EndUs: g.End.UnixMicro(), Amt: g.Coins.AmountOf("ujkl").Int64()}
			h := sha256.Sum256([]byte(fmt.Sprintf("%d--%d--%s", k.H, k.EndUs, g.Coins.String())))
			if string(h[:]) != id {
				return s, fmt.Errorf("gauge id is no longer sha256(height--end--coins): the model's gauge keying must be revisited")
			}
			acc, err := storagetypes.GetGaugeAccount(g)
			if err != nil {
				return s, err
			}
			k.Addr = string(acc)
			w.gkeys[id] = k
			w.escrow[string(acc)] = id
		}
		k.Coins = g.Coins.AmountOf("ujkl").Int64()
		s.Gauges[id] = k
	}
	for _, p := range e.App.StorageKeeper.GetAllStoragePaymentInfo(e.Ctx) {
		a, err := sdk.AccAddressFromBech32(p.Address)
		if err != nil {
			continue // keyed by something that is not an address: not reachable through BuyStorage
		}
		s.Plans[string(a)] = c04Plan{Start: c04TimeNs(p.Start), End: c04TimeNs(p.End), Avail: p.SpaceAvailable, Used: p.SpaceUsed}
	}
	sup, _, err := e.App.BankKeeper.GetPaginatedTotalSupply(e.Ctx, nil)
	if err != nil {
		return s, err
	}
	s.Supply = sup.String()
	s.SupplyU = sup.AmountOf("ujkl").Int64()
	return s, nil
}

// acct prints an address as a term of Model.StoragePay.acct
func (w *c04World) acct(a sdk.AccAddress) string {
	switch {
	case a.Equals(w.mod):
		return "AMod"
	case a.Equals(w.fee):
		return "AFee"
	case a.Equals(w.pol):
		return "APol"
	}
	if id, ok := w.escrow[string(a)]; ok {
		k := w.gkeys[id]
		return fmt.Sprintf("(AEscrow %s %s %s)", cZ(k.H), cZ(k.EndUs), cZ(k.Amt))
	}
	return fmt.Sprintf("(AUser %s)", cN(uint64(w.user(a))))
}

func (w *c04World) user(a sdk.AccAddress) int {
	if id, ok := w.users[string(a)]; ok {
		return id
	}
	w.nextUser++
	w.users[string(a)] = w.nextUser
	return w.nextUser
}

func (w *c04World) state(s c04Snap, also c04Snap) string {
	// bank: every address with a balance in either snapshot (so that pre and post list the same accounts)
	addrs := map[string]bool{}
	for a := range s.Bal {
		addrs[a] = true
	}
	for a := range also.Bal {
		addrs[a] = true
	}
	keys := make([]string, 0, len(addrs))
	for a := range addrs {
		keys = append(keys, a)
	}
	sort.Strings(keys)
	bank := []string{}
	for _, a := range keys {
		bank = append(bank, cPair(w.acct(sdk.AccAddress(a)), cZ(s.Bal[a])))
	}
	gids := make([]string, 0, len(s.Gauges))
	for id := range s.Gauges {
		gids = append(gids, id)
	}
	sort.Strings(gids)
	gs := []string{}
	for _, id := range gids {
		g := s.Gauges[id]
		gs = append(gs, cPair(fmt.Sprintf("(%s, %s, %s)", cZ(g.H), cZ(g.EndUs), cZ(g.Amt)), cZ(g.Coins)))
	}
	pk := make([]string, 0, len(s.Plans))
	for a := range s.Plans {
		pk = append(pk, a)
	}
	sort.Strings(pk)
	ps := []string{}
	for _, a := range pk {
		p := s.Plans[a]
		ps = append(ps, cPair(w.acct(sdk.AccAddress(a)), fmt.Sprintf("{| p_start := %s; p_end := %s; p_avail := %s; p_used := %s |}", cZbig(p.Start), cZbig(p.End), cZ(p.Avail), cZ(p.Used))))
	}
	return fmt.Sprintf("{| s_bank := %s; s_gauges := %s; s_plans := %s |}", cList(bank), cList(gs), cList(ps))
}

// the jkl price the handlers will see, computed here from the oracle store (not by keeper.GetJklPrice)
func (w *c04World) jklPrice() *big.Int {
	def := sdk.MustNewDecFromStr("0.20").BigInt()
	feed, found := w.e.App.OracleKeeper.GetFeed(w.e.Ctx, w.params().PriceFeed)
	if !found {
		return def
	}
	var d struct {
		Price string `json:"price"`
	}
	_ = json.Unmarshal([]byte(feed.Data), &d)
	p, err := sdk.NewDecFromStr(d.Price)
	if err != nil {
		return def
	}
	return p.BigInt()
}

func (w *c04World) env() string {
	p := w.params()
	return fmt.Sprintf("{| e_height := %s; e_now := %s; e_ppt := %s; e_refc := %s; e_pol := %s; e_jkl := %s |}",
		cZ(w.e.Ctx.BlockHeight()), cZbig(c04TimeNs(w.e.Ctx.BlockTime())), cZ(p.PricePerTbPerMonth), cZ(p.ReferralCommission), cZ(p.PolRatio), cZbig(w.jklPrice()))
}

// resolve re-implements rns Resolve for the glue (bech32 first, then the names store)
func (w *c04World) resolve(s string) (acc sdk.AccAddress, viaName bool, ok bool) {
	if len(s) == 0 {
		return nil, false, false
	}
	if a, err := sdk.AccAddressFromBech32(s); err == nil {
		return a, false, true
	}
	n, tld, err := rnskeeper.GetNameAndTLD(s)
	if err != nil {
		return nil, true, false
	}
	rec, found := w.e.App.RnsKeeper.GetNames(w.e.Ctx, n, tld)
	if !found {
		return nil, true, false
	}
	a, err := sdk.AccAddressFromBech32(rec.Value)
	if err != nil {
		return nil, true, false
	}
	return a, true, true
}

func c04Out(o string) string {
	switch o {
	case OutOk:
		return "Ok"
	case OutFail:
		return "Fail"
	}
	return "Panic"
}

func c04Abs(x int64) int64 {
	if x < 0 {
		return -x
	}
	return x
}

// within one base unit of pct% of amount:  |100*share - amount*pct| < 100
func c04WithinUnit(share, amount, pct int64) bool {
	d := new(big.Int).Sub(new(big.Int).Mul(big.NewInt(100), big.NewInt(share)), new(big.Int).Mul(big.NewInt(amount), big.NewInt(pct)))
	return d.CmpAbs(big.NewInt(100)) < 0
}

// c04Received: did the bank emit a coin_received event for this account while the message ran
func c04Received(res MsgResult, a sdk.AccAddress) bool {
	if res.Res == nil {
		return false
	}
	for _, ev := range res.Res.Events {
		if ev.Type != "coin_received" {
			continue
		}
		for _, at := range ev.Attributes {
			if string(at.Key) == "receiver" && string(at.Value) == a.String() {
				for _, at2 := range ev.Attributes {
					if string(at2.Key) == "amount" && string(at2.Value) != "" {
						return true
					}
				}
			}
		}
	}
	return false
}

// the invariant of the theorems on an observed state: every gauge is backed by its escrow account
func (w *c04World) backed(s c04Snap, op interface{}) {
	for _, g := range s.Gauges {
		if s.Bal[g.Addr] < g.Coins {
			w.finding("C04/inv/gauge-not-backed", fmt.Sprintf("a gauge records %d but its escrow account holds %d", g.Coins, s.Bal[g.Addr]), op, nil)
		}
	}
}

type c04Delta struct {
	Addr  string `json:"addr"`
	Role  string `json:"role"`
	Delta int64  `json:"delta"`
}

func (w *c04World) deltas(pre, post c04Snap) (map[string]int64, []c04Delta) {
	d := map[string]int64{}
	for a, v := range post.Bal {
		d[a] += v
	}
	for a, v := range pre.Bal {
		d[a] -= v
	}
	list := []c04Delta{}
	for a, v := range d {
		if v == 0 {
			delete(d, a)
			continue
		}
		list = append(list, c04Delta{sdk.AccAddress(a).String(), w.acct(sdk.AccAddress(a)), v})
	}
	sort.Slice(list, func(i, j int) bool { return list[i].Addr < list[j].Addr })
	return d, list
}

func c04SameGaugesPlans(pre, post c04Snap) bool {
	if len(pre.Gauges) != len(post.Gauges) || len(pre.Plans) != len(post.Plans) {
		return false
	}
	for id, g := range pre.Gauges {
		if h, ok := post.Gauges[id]; !ok || h.Coins != g.Coins {
			return false
		}
	}
	for a, p := range pre.Plans {
		q, ok := post.Plans[a]
		if !ok || q.Avail != p.Avail || q.Used != p.Used || q.Start.Cmp(p.Start) != 0 || q.End.Cmp(p.End) != 0 {
			return false
		}
	}
	return true
}

// changed gauges: id -> increase of the recorded coins
func c04GaugeChanges(pre, post c04Snap) map[string]int64 {
	ch := map[string]int64{}
	for id, g := range post.Gauges {
		if old, ok := pre.Gauges[id]; !ok {
			ch[id] = g.Coins
		} else if old.Coins != g.Coins {
			ch[id] = g.Coins - old.Coins
		}
	}
	for id, g := range pre.Gauges {
		if _, ok := post.Gauges[id]; !ok {
			ch[id] = -g.Coins
		}
	}
	return ch
}

// ---------------------------------------------------------------- operations

type c04Buy struct {
	Creator   int    `json:"creator"`
	CreatorUp bool   `json:"creator_upper"`
	For       string `json:"for_address"`
	Days      int64  `json:"days"`
	Bytes     int64  `json:"bytes"`
	Denom     string `json:"denom"`
	Referral  string `json:"referral"`
	RefKind   string `json:"referral_kind"`
}

func (w *c04World) finding(sig, what string, op interface{}, extra map[string]interface{}) {
	rep := map[string]interface{}{"history": append(append([]interface{}{}, w.trace...), op)}
	for k, v := range extra {
		rep[k] = v
	}
	w.r.Finding(sig, what, rep)
}

func (w *c04World) buy(b c04Buy) error {
	e, r := w.e, w.r
	creator := Acct(b.Creator)
	msg := &storagetypes.MsgBuyStorage{Creator: Spell(creator, b.CreatorUp), ForAddress: b.For, DurationDays: b.Days, Bytes: b.Bytes, PaymentDenom: b.Denom, Referral: b.Referral}
	params := w.params()
	// ---- glue for the model
	forTerm := "None"
	forAcc, ferr := sdk.AccAddressFromBech32(b.For)
	if ferr == nil {
		forTerm = "(Some " + w.acct(forAcc) + ")"
	}
	refAcc, viaName, refOK := w.resolve(b.Referral)
	refTerm := "RefNone"
	blocked := false
	if refOK {
		if viaName {
			refTerm = "(RefName " + w.acct(refAcc) + ")"
		} else {
			refTerm = "(RefAddr " + w.acct(refAcc) + ")"
		}
		blocked = e.App.BankKeeper.BlockedAddr(refAcc) && !refAcc.Equals(w.mod) && !refAcc.Equals(w.fee)
	}
	envTerm := w.env()
	pre, err := w.snap()
	if err != nil {
		return err
	}
	// ---- the price the chain computes, from its own cost function (monitor reference)
	var wantPay *int64
	referred := refOK && !refAcc.Equals(creator)
	var discount int64
	durOK := b.Days > 0 && b.Days <= (1<<63-1)/c04DayNs
	if durOK && ferr == nil {
		durNs := b.Days * c04DayNs
		hours := (durNs / 1_000_000) / 3_600_000
		gbs := b.Bytes / c04GB
		if referred {
			discount = 10
			if durNs/1_000_000 > 365*24*3_600_000 {
				discount = 5
			}
		}
		if gbs > 0 && durNs >= 30*c04DayNs {
			if cost, pnk := w.refCost(gbs, hours); !pnk {
				price := cost
				if pl, ok := pre.Plans[string(forAcc)]; ok && pl.End.Cmp(c04TimeNs(e.Ctx.BlockTime())) > 0 {
					remMs := new(big.Int).Quo(new(big.Int).Sub(pl.End, c04TimeNs(e.Ctx.BlockTime())), big.NewInt(1_000_000))
					if remMs.IsInt64() {
						if old, pnk2 := w.refCost(pl.Avail/c04GB, remMs.Int64()/3_600_000); !pnk2 {
							price = cost.Sub(old)
						}
					}
				}
				if referred {
					price = price.MulRaw(100 - discount).QuoRaw(100)
				}
				if price.IsInt64() {
					v := price.Int64()
					wantPay = &v
				}
			}
		}
	}
	res := e.Run(msg)
	post, err := w.snap()
	if err != nil {
		return err
	}
	op := map[string]interface{}{"op": "BuyStorage", "msg": b, "height": e.Ctx.BlockHeight(), "time": e.Ctx.BlockTime().UTC().Format(time.RFC3339Nano),
		"params":        map[string]int64{"referral_commission": params.ReferralCommission, "pol_ratio": params.PolRatio, "price_per_tb_month": params.PricePerTbPerMonth},
		"jkl_price_raw": w.jklPrice().String(), "outcome": res.Out, "error": res.Err}
	dm, dl := w.deltas(pre, post)
	op["balance_changes"] = dl
	// ---- the case for the model
	term := fmt.Sprintf("Buy %s {| b_payer := %s; b_for := %s; b_days := %s; b_bytes := %s; b_ujkl := %s; b_ref := %s; b_ref_blocked := %s |} %s %s %s",
		envTerm, cN(uint64(b.Creator)), forTerm, cZ(b.Days), cZ(b.Bytes), cBool(b.Denom == "ujkl"), refTerm, cBool(blocked),
		w.state(pre, post), c04Out(res.Out), w.state(post, pre))
	r.Case("hist", term, op)
	planState := "none"
	if ferr == nil {
		if pl, ok := pre.Plans[string(forAcc)]; ok {
			planState = "expired"
			if pl.End.Cmp(c04TimeNs(e.Ctx.BlockTime())) > 0 {
				planState = "active"
			}
			if pl.Used > b.Bytes {
				planState += "+use-exceeds-request"
			} else if pl.Used > 0 {
				planState += "+in-use"
			}
		}
	}
	r.Count(fmt.Sprintf("buy:%v:%d:%d:%d:%s:%s:%s", b, params.ReferralCommission, params.PolRatio, params.PricePerTbPerMonth, w.jklPrice(), planState, res.Out), res.Out == OutOk)
	r.Hist("ops", "BuyStorage")
	r.Hist("buy_outcome", res.Out)
	r.Hist("buy_referral", b.RefKind)
	r.Hist("buy_plan_state", planState)
	r.Hist("ratios(ref/pol)", fmt.Sprintf("%d/%d", params.ReferralCommission, params.PolRatio))
	r.Hist("jkl_price_raw", w.jklPrice().String())
	r.Hist("price_per_tb_month", fmt.Sprint(params.PricePerTbPerMonth))
	if res.Out == OutOk && len(r.Sum.Samples) < 3 {
		r.Sample(op)
	}
	// ---- monitors on the implementation
	bad := func(sig, what string) { w.finding(sig, what, op, nil) }
	if pre.Supply != post.Supply {
		bad("C04/buy/supply-changed", fmt.Sprintf("total supply changed from %s to %s", pre.Supply, post.Supply))
	}
	for a, c := range pre.Other {
		if post.Other[a] != c {
			bad("C04/buy/other-denom-moved", "a balance in another denomination changed")
		}
	}
	if len(post.Other) != len(pre.Other) {
		bad("C04/buy/other-denom-moved", "a balance in another denomination changed")
	}
	var sum int64
	for _, v := range dm {
		sum += v
	}
	if sum != 0 {
		bad("C04/buy/credits-differ-from-debits", fmt.Sprintf("balance changes add up to %d, not 0", sum))
	}
	if res.Out != OutOk {
		if len(dm) != 0 {
			bad("C04/buy/failed-but-moved", "a failed purchase changed balances")
		}
		if !c04SameGaugesPlans(pre, post) {
			bad("C04/buy/failed-but-wrote", "a failed purchase changed a gauge or a payment info")
		}
		w.trace = append(w.trace, op)
		return nil
	}
	debit := -dm[string(creator)]
	if debit < 0 {
		bad("C04/buy/payer-credited", fmt.Sprintf("the payer's balance grew by %d", -debit))
	}
	if wantPay != nil && debit != *wantPay {
		bad("C04/buy/debit-not-price", fmt.Sprintf("payer debited %d, the chain's cost function gives %d", debit, *wantPay))
	}
	if c04Received(res, creator) {
		bad("C04/buy/payer-credited", "the bank credited the payer's own account during the purchase")
	}
	// who may change
	recipient := w.fee
	if referred {
		recipient = refAcc
	}
	gch := c04GaugeChanges(pre, post)
	allowed := map[string]string{string(creator): "payer", string(w.mod): "module", string(w.pol): "pol", string(recipient): "recipient"}
	var escrowAddr string
	for id := range gch {
		escrowAddr = post.Gauges[id].Addr
		if escrowAddr == "" {
			escrowAddr = pre.Gauges[id].Addr
		}
		allowed[escrowAddr] = "escrow"
	}
	for a, v := range dm {
		if _, ok := allowed[a]; !ok {
			bad("C04/buy/unrelated-account-changed", fmt.Sprintf("%s changed by %d", sdk.AccAddress(a), v))
		}
	}
	if referred && !refAcc.Equals(w.fee) && dm[string(w.fee)] != 0 {
		bad("C04/buy/unrelated-account-changed", "fee collector changed although a distinct referrer was named")
	}
	if len(gch) > 1 {
		bad("C04/buy/several-gauges-changed", "more than one gauge changed")
	}
	// every escrow account that received coins belongs to a gauge whose record grew by as much
	for a, v := range dm {
		if id, ok := w.escrow[a]; ok && !refAcc.Equals(sdk.AccAddress(a)) && gch[id] != v {
			bad("C04/buy/gauge-funding-differs-from-record", fmt.Sprintf("escrow account received %d, its gauge's record changed by %d", v, gch[id]))
		}
	}
	w.backed(post, op)
	aliased := recipient.Equals(w.pol) || recipient.Equals(w.mod) || string(recipient) == escrowAddr || creator.Equals(w.pol) || creator.Equals(recipient)
	for id, inc := range gch {
		a := post.Gauges[id].Addr
		if inc < 0 {
			bad("C04/buy/gauge-record-shrank", "a gauge's recorded coins decreased")
		}
		if !aliased && dm[a] != inc {
			bad("C04/buy/gauge-funding-differs-from-record", fmt.Sprintf("gauge records +%d, its escrow account received %d", inc, dm[a]))
		}
	}
	if len(gch) == 0 && escrowAddr == "" {
		// no gauge changed: then no escrow account may have been credited either (covered by the allowed set)
	}
	if dm[string(w.mod)] < 0 {
		bad("C04/buy/credits-exceed-debit", fmt.Sprintf("storage module paid %d out of its own balance", -dm[string(w.mod)]))
	}
	if referred {
		// the discount goes by the duration actually granted (the plan written), not by the request
		if pl, ok := post.Plans[string(forAcc)]; ok {
			discount = 10
			if new(big.Int).Sub(pl.End, pl.Start).Cmp(big.NewInt(365*c04DayNs)) > 0 {
				discount = 5
			}
		}
	}
	if !aliased && params.ReferralCommission+params.PolRatio <= 100 {
		polPct := params.PolRatio - discount
		polGot := dm[string(w.pol)]
		if polPct >= 0 {
			if !c04WithinUnit(polGot, debit, polPct) || polGot > debit*polPct/100+0 && polGot*100 > debit*polPct {
				bad("C04/buy/pol-share", fmt.Sprintf("liquidity account received %d of %d at %d%%", polGot, debit, polPct))
			}
		} else if polGot != 0 {
			bad("C04/buy/pol-share", fmt.Sprintf("liquidity account received %d at a non-positive share", polGot))
		}
		refGot := dm[string(recipient)]
		if !c04WithinUnit(refGot, debit, params.ReferralCommission) || refGot*100 > debit*params.ReferralCommission {
			who := "fee collector"
			if referred {
				who = "referrer"
			}
			bad("C04/buy/referral-share", fmt.Sprintf("%s received %d of %d at %d%%", who, refGot, debit, params.ReferralCommission))
		}
	}
	// the plan written for the for-address
	if pl, ok := post.Plans[string(forAcc)]; !ok || pl.Avail != b.Bytes {
		bad("C04/buy/payment-info", "no StoragePaymentInfo with the bought space for the for-address")
	}
	w.trace = append(w.trace, op)
	return nil
}

type c04Post struct {
	Creator   int    `json:"creator"`
	CreatorUp bool   `json:"creator_upper"`
	Size      int64  `json:"file_size"`
	MaxProofs int64  `json:"max_proofs"`
	Expires   int64  `json:"expires"`
	Note      string `json:"note"`
	Merkle    string `json:"merkle"`
}

func (w *c04World) post(b c04Post) error {
	e, r := w.e, w.r
	creator := Acct(b.Creator)
	msg := &storagetypes.MsgPostFile{Creator: Spell(creator, b.CreatorUp), Merkle: []byte(b.Merkle), FileSize: b.Size, ProofType: 0, MaxProofs: b.MaxProofs, Expires: b.Expires, Note: b.Note}
	params := w.params()
	// glue: the end of the gauge, time.AddDate as Go computes it
	h := e.Ctx.BlockHeight()
	hours := (b.Expires - h) * 6 / 60 / 60
	days := hours / 24
	end := e.Ctx.BlockTime().AddDate(0, 0, int(days))
	endUs := end.UnixMicro()
	_, tsErr := gogotypes.TimestampProto(end)
	envTerm := w.env()
	pre, err := w.snap()
	if err != nil {
		return err
	}
	// the price the chain computes (monitor reference)
	var wantPay *int64
	if b.Expires > 0 && days > 0 && b.Size > 0 && b.MaxProofs > 0 && b.Size <= (1<<63-1)/b.MaxProofs {
		kbs := b.Size * b.MaxProofs / 1000
		if kbs < 1024 {
			kbs = 1024
		}
		if cost, pnk := w.refCostKbs(kbs, hours); !pnk && cost.IsInt64() {
			v := cost.Int64()
			wantPay = &v
		}
	}
	res := e.Run(msg)
	post, err := w.snap()
	if err != nil {
		return err
	}
	op := map[string]interface{}{"op": "PostFile", "msg": b, "height": h, "time": e.Ctx.BlockTime().UTC().Format(time.RFC3339Nano),
		"params":        map[string]int64{"referral_commission": params.ReferralCommission, "pol_ratio": params.PolRatio, "price_per_tb_month": params.PricePerTbPerMonth},
		"jkl_price_raw": w.jklPrice().String(), "outcome": res.Out, "error": res.Err}
	dm, dl := w.deltas(pre, post)
	op["balance_changes"] = dl
	term := fmt.Sprintf("Post %s {| pm_payer := %s; pm_note_ok := %s; pm_size := %s; pm_maxproofs := %s; pm_expires := %s; pm_end_us := %s; pm_end_ok := %s |} %s %s %s",
		envTerm, cN(uint64(b.Creator)), cBool(json.Valid([]byte(b.Note))), cZ(b.Size), cZ(b.MaxProofs), cZ(b.Expires), cZ(endUs), cBool(tsErr == nil),
		w.state(pre, post), c04Out(res.Out), w.state(post, pre))
	r.Case("hist", term, op)
	payOnce := b.Expires > 0
	r.Count(fmt.Sprintf("post:%v:%d:%d:%d:%s:%s", b, params.ReferralCommission, params.PolRatio, params.PricePerTbPerMonth, w.jklPrice(), res.Out), res.Out == OutOk && payOnce)
	r.Hist("ops", "PostFile")
	if payOnce {
		r.Hist("post_payonce_outcome", res.Out)
	} else {
		r.Hist("post_plan_outcome", res.Out)
	}
	bad := func(sig, what string) { w.finding(sig, what, op, nil) }
	if pre.Supply != post.Supply {
		bad("C04/post/supply-changed", fmt.Sprintf("total supply changed from %s to %s", pre.Supply, post.Supply))
	}
	var sum int64
	for _, v := range dm {
		sum += v
	}
	if sum != 0 {
		bad("C04/post/credits-differ-from-debits", fmt.Sprintf("balance changes add up to %d, not 0", sum))
	}
	gch := c04GaugeChanges(pre, post)
	if res.Out != OutOk || !payOnce {
		if len(dm) != 0 {
			bad("C04/post/moved-without-payonce-success", "a failed or plan-paid post changed balances")
		}
		if len(gch) != 0 {
			bad("C04/post/gauge-without-payonce-success", "a failed or plan-paid post changed a gauge")
		}
		w.trace = append(w.trace, op)
		return nil
	}
	debit := -dm[string(creator)]
	if debit < 0 {
		bad("C04/post/payer-credited", "the payer's balance grew")
	}
	if wantPay != nil && debit != *wantPay {
		bad("C04/post/debit-not-price", fmt.Sprintf("payer debited %d, the chain's cost function gives %d", debit, *wantPay))
	}
	allowed := map[string]bool{string(creator): true, string(w.mod): true}
	for id := range gch {
		allowed[post.Gauges[id].Addr] = true
	}
	for a, v := range dm {
		if !allowed[a] {
			bad("C04/post/unrelated-account-changed", fmt.Sprintf("%s changed by %d", sdk.AccAddress(a), v))
		}
	}
	if len(gch) > 1 {
		bad("C04/post/several-gauges-changed", "more than one gauge changed")
	}
	for a, v := range dm {
		if id, ok := w.escrow[a]; ok && gch[id] != v {
			bad("C04/post/gauge-funding-differs-from-record", fmt.Sprintf("escrow account received %d, its gauge's record changed by %d", v, gch[id]))
		}
	}
	w.backed(post, op)
	for id, inc := range gch {
		a := post.Gauges[id].Addr
		if dm[a] != inc || inc < 0 {
			bad("C04/post/gauge-funding-differs-from-record", fmt.Sprintf("gauge records %+d, its escrow account received %d", inc, dm[a]))
		}
		if pct := 100 - params.ReferralCommission - params.PolRatio; pct >= 0 && (!c04WithinUnit(inc, debit, pct) || inc*100 > debit*pct) {
			bad("C04/post/provider-share", fmt.Sprintf("gauge funded with %d of %d at %d%%", inc, debit, pct))
		}
	}
	if dm[string(w.mod)] < 0 {
		bad("C04/post/credits-exceed-debit", "storage module paid out of its own balance")
	}
	w.trace = append(w.trace, op)
	return nil
}

// ---------------------------------------------------------------- generators

// params reads the storage parameters from the parameter store itself (what governance wrote), not through the keeper
func (w *c04World) params() storagetypes.Params {
	var p storagetypes.Params
	ss, _ := c15ParamsKeeper(w.e).GetSubspace(storagetypes.ModuleName)
	ss.GetParamSet(w.e.Ctx, &p)
	return p
}

// the two cost functions, re-computed here with the price found in the oracle store (the monitors' reference; the
// code's own functions are tied to the model by the CostFn / CostKbs cases)
func (w *c04World) refCost(gbs, hours int64) (c sdk.Int, panicked bool) {
	pn := Guard(func() {
		base := sdk.NewDec(w.params().PricePerTbPerMonth)
		yearly := base.Mul(sdk.MustNewDecFromStr("12.5").QuoInt64(15))
		var f sdk.Dec
		if hours < 365*24 {
			switch {
			case gbs >= 20_000:
				f = base.Mul(sdk.MustNewDecFromStr("12.5").QuoInt64(15))
			case gbs >= 5_000:
				f = base.Mul(sdk.NewDec(14).QuoInt64(15))
			default:
				f = base
			}
		} else {
			switch {
			case gbs >= 20_000:
				f = yearly.Mul(sdk.MustNewDecFromStr("10.42").Quo(sdk.MustNewDecFromStr("12.5")))
			case gbs >= 5_000:
				f = yearly.Mul(sdk.MustNewDecFromStr("11.67").Quo(sdk.MustNewDecFromStr("12.5")))
			default:
				f = yearly
			}
		}
		total := f.QuoInt64(3).QuoInt64(1000).QuoInt64(720).MulInt64(gbs).MulInt64(hours)
		c = total.Quo(sdk.NewDecFromBigIntWithPrec(w.jklPrice(), 18)).MulInt64(1000000).TruncateInt()
	})
	return c, pn != ""
}

func (w *c04World) refCostKbs(kbs, hours int64) (c sdk.Int, panicked bool) {
	pn := Guard(func() {
		perKbHour := sdk.NewDec(w.params().PricePerTbPerMonth).QuoInt64(3).QuoInt64(1000).QuoInt64(1000).QuoInt64(1000).QuoInt64(720)
		total := perKbHour.MulInt64(kbs).MulInt64(hours)
		c = total.Quo(sdk.NewDecFromBigIntWithPrec(w.jklPrice(), 18)).MulInt64(1000000).TruncateInt()
	})
	return c, pn != ""
}

func (w *c04World) setFeed(price string) {
	name := w.params().PriceFeed
	switch price {
	case "":
		w.e.App.OracleKeeper.RemoveFeed(w.e.Ctx, name)
	case "badjson":
		w.e.App.OracleKeeper.SetFeed(w.e.Ctx, oracletypes.Feed{Owner: Acct(9).String(), Name: name, Data: "{not json", LastUpdate: w.e.Ctx.BlockTime()})
	default:
		w.e.App.OracleKeeper.SetFeed(w.e.Ctx, oracletypes.Feed{Owner: Acct(9).String(), Name: name, Data: fmt.Sprintf(`{"price":"%s","24h_change":"0"}`, price), LastUpdate: w.e.Ctx.BlockTime()})
	}
}

func (w *c04World) setParams(ref, pol, ppt int64) {
	_ = w.e.App.StorageKeeper.GetParams(w.e.Ctx) // a running node has read its parameters before a proposal passes
	ss, _ := c15ParamsKeeper(w.e).GetSubspace(storagetypes.ModuleName)
	q := func(v int64) []byte { return []byte(fmt.Sprintf("%q", fmt.Sprint(v))) }
	var e1, e2, e3 error
	if pn := Guard(func() {
		// the names a proposal author writes, spelled out here rather than taken from the code's constants
		e1 = ss.Update(w.e.Ctx, []byte("Referrals"), q(ref))
		e2 = ss.Update(w.e.Ctx, []byte("POLRatio"), q(pol))
		e3 = ss.Update(w.e.Ctx, []byte("PricePerTbPerMonth"), q(ppt))
	}); pn == "" && e1 == nil && e2 == nil && e3 == nil {
		w.r.Hist("params-route", "governance")
		if p := w.params(); p.ReferralCommission != ref || p.PolRatio != pol || p.PricePerTbPerMonth != ppt {
			w.finding("C04/params/key-names-a-different-parameter", fmt.Sprintf("passed proposals set storage/Referrals=%d, storage/POLRatio=%d, storage/PricePerTbPerMonth=%d; the module now reads ReferralCommission=%d PolRatio=%d PricePerTbPerMonth=%d, and splits the next payments accordingly",
				ref, pol, ppt, p.ReferralCommission, p.PolRatio, p.PricePerTbPerMonth), map[string]interface{}{"op": "ParameterChangeProposal", "Referrals": ref, "POLRatio": pol, "PricePerTbPerMonth": ppt}, nil)
		}
		return
	}
	p := w.params()
	p.ReferralCommission, p.PolRatio, p.PricePerTbPerMonth = ref, pol, ppt
	w.e.App.StorageKeeper.SetParams(w.e.Ctx, p)
	w.r.Hist("params-route", "keeper")
}

func (w *c04World) advance(blocks int64, d time.Duration) {
	w.e.At(w.e.Height+blocks, w.e.Time.Add(d))
}

var c04Days = []int64{30, 30, 30, 31, 59, 60, 90, 364, 365, 366, 730, 1095}
var c04DaysEdge = []int64{1, 29, 106751, 106752, 213504, 213505, 1 << 40, 1<<63 - 1}
var c04Gbs = []int64{1, 1, 2, 3, 3, 10, 100, 4999, 5000, 5001, 19999, 20000, 20001, 1_000_000}

func c04Bytes(p *PRNG) int64 {
	switch p.Intn(12) {
	case 0:
		return PickOne(p, []int64{0, -1, -5 * c04GB, c04GB - 1, 999_999_999, 1<<63 - 1})
	case 1:
		return PickOne(p, c04Gbs)*c04GB + p.I64n(c04GB)
	default:
		return PickOne(p, c04Gbs) * c04GB
	}
}

func runC04(r *RunCtx) error {
	r.Sum.Rule = "function level: GetStorageCost / GetStorageCostKbs on the app's keeper over sizes and durations across the 5000/20000 GB tiers, the 8760 h boundary, parameter and price-feed values (one evaluation = one call). History level: per fresh app a history of 14..40 MsgBuyStorage / MsgPostFile through the router with a deterministic prefix (referred 3 GB purchase, self-referral in both case spellings, two equal purchases in one block) followed by generated operations over referral kinds, plan states, ratio grids, price feeds, module residue, poor payers; one evaluation = one operation with the whole bank, all gauges and all payment infos observed before and after; non-trivial = distinct (message, parameters, price, plan state) whose purchase / pay-once post succeeded"
	r.Group("fn", "From JK Require Import Model.StoragePay Corr.C04.", "c04_case", "c04_ok")
	r.Group("hist", "From JK Require Import Model.StoragePay Corr.C04.", "c04_case", "c04_ok")
	p := r.Rng
	if err := c04Functions(r); err != nil {
		return err
	}
	runs := r.Scale(10, 90)
	for k := 0; k < runs; k++ {
		if err := c04History(r, p.Fork(), k); err != nil {
			return err
		}
	}
	AddDecCases(r, r.Scale(120, 1500))
	return nil
}

var c04Prices = []string{"", "0.20", "0.35", "1", "0.000001", "123.456", "0.333333333333333333", "17"}
var c04PricesEdge = []string{"0", "-1", "abc", "badjson", "0.000000000000000001"}

func c04Functions(r *RunCtx) error {
	e, err := NewEnv()
	if err != nil {
		return err
	}
	defer e.Close()
	w := c04NewWorld(e, r)
	p := r.Rng.Fork()
	gbsGrid := []int64{-5, 0, 1, 2, 3, 4999, 5000, 5001, 19999, 20000, 20001, 1_000_000, 9_223_372_036}
	hoursGrid := []int64{-1, 0, 1, 719, 720, 721, 8759, 8760, 8761, 17520, 2_562_047}
	optZ := func(v *big.Int) string {
		if v == nil {
			return "None"
		}
		return "(Some " + cZbig(v) + ")"
	}
	one := func(kbs bool, a, h int64) {
		params := w.params()
		var got *big.Int
		pn := Guard(func() {
			if kbs {
				got = e.App.StorageKeeper.GetStorageCostKbs(e.Ctx, a, h).BigInt()
			} else {
				got = e.App.StorageKeeper.GetStorageCost(e.Ctx, a, h).BigInt()
			}
		})
		if pn != "" {
			got = nil
		}
		name := "CostFn"
		if kbs {
			name = "CostKbs"
		}
		desc := map[string]interface{}{"fn": name, "ppt": params.PricePerTbPerMonth, "jkl_raw": w.jklPrice().String(), "size": a, "hours": h, "panic": pn}
		if got != nil {
			desc["got"] = got.String()
		}
		r.Case("fn", fmt.Sprintf("%s %s %s %s %s %s", name, cZ(params.PricePerTbPerMonth), cZbig(w.jklPrice()), cZ(a), cZ(h), optZ(got)), desc)
		r.Count(fmt.Sprintf("%s:%d:%s:%d:%d", name, params.PricePerTbPerMonth, w.jklPrice(), a, h), got != nil && got.Sign() > 0)
		r.Hist("fn", name)
		// monitor: a price is never negative for non-negative sizes, durations, parameters and a positive feed
		if got != nil && got.Sign() < 0 && a >= 0 && h >= 0 && w.jklPrice().Sign() > 0 {
			r.Finding("C04/cost/negative", "negative storage cost for non-negative inputs", desc)
		}
	}
	// the full boundary grid at the default parameters and feed
	for _, g := range gbsGrid {
		for _, h := range hoursGrid {
			one(false, g, h)
		}
	}
	for _, kb := range []int64{0, 1, 1023, 1024, 1025, 1_000_000, 1 << 53} {
		for _, h := range []int64{0, 23, 24, 25, 48, 8760, 1 << 40} {
			one(true, kb, h)
		}
	}
	n := r.Scale(12, 150)
	for i := 0; i < n; i++ {
		w.setParams(25, 40, PickOne(p, []int64{8, 8, 0, 1, 15, 1000, 7, 1 << 40}))
		if p.Chance(1, 6) {
			w.setFeed(PickOne(p, c04PricesEdge))
		} else {
			w.setFeed(PickOne(p, c04Prices))
		}
		for j := 0; j < 6; j++ {
			g := PickOne(p, gbsGrid)
			if p.Bool() {
				g = p.I64n(30000)
			}
			h := PickOne(p, hoursGrid)
			if p.Bool() {
				h = p.I64n(20000)
			}
			one(false, g, h)
			one(true, 1024+p.I64n(1<<uint(1+p.Intn(40))), 24+p.I64n(1<<uint(1+p.Intn(24))))
		}
	}
	return nil
}

func c04History(r *RunCtx, p *PRNG, k int) error {
	e, err := NewEnv()
	if err != nil {
		return err
	}
	defer e.Close()
	w := c04NewWorld(e, r)
	for i := 1; i <= 6; i++ {
		w.users[string(Acct(i))] = i
	}
	rich := int64(4_000_000_000_000_000)
	for i := 1; i <= 4; i++ {
		if err := e.Fund(Acct(i), "ujkl", rich); err != nil {
			return err
		}
	}
	_ = e.Fund(Acct(5), "ujkl", 20_000) // a poor payer
	_ = e.Fund(Acct(4), "uother", 777)
	// RNS names through the real RNS handler: alice.jkl -> Acct(2), selfy.jkl -> Acct(1)
	for _, reg := range []struct {
		who  int
		name string
	}{{2, "alice.jkl"}, {1, "selfy.jkl"}} {
		if res := e.Run(&rnstypes.MsgRegister{Creator: Acct(reg.who).String(), Name: reg.name, Years: 1, Data: "{}"}); res.Out != OutOk {
			return fmt.Errorf("cannot register %s: %s", reg.name, res.Err)
		}
	}
	e.At(10+int64(p.Intn(50)), T0.Add(time.Duration(p.Intn(1000))*time.Second))
	type refChoice struct{ kind, val string }
	refs := func(creator int) []refChoice {
		return []refChoice{
			{"none", ""}, {"none", ""},
			{"self", Acct(creator).String()}, {"self-upper", strings.ToUpper(Acct(creator).String())},
			{"other", Acct(creator%4 + 1).String()}, {"other", Acct(creator%4 + 1).String()}, {"other-upper", strings.ToUpper(Acct(creator%4 + 1).String())},
			{"name", "alice.jkl"}, {"name", "selfy.jkl"}, {"dangling-name", "nobody.jkl"}, {"garbage", "%%%"}, {"garbage", "jkl1qqqq"},
			{"fee-collector", w.fee.String()}, {"storage-module", w.mod.String()}, {"pol", w.pol.String()}, {"other-module", e.ModAddr("distribution").String()},
			{"fresh-account", Acct(6).String()},
			// strings that name nobody although they look like something that does: an address in mixed case (bech32
			// refuses it), a registered name under an upper-case TLD; and the registered name in capitals (which resolves)
			{"mixed-case-address", strings.ToUpper(Acct(creator%4 + 1).String()[:9]) + Acct(creator%4 + 1).String()[9:]},
			{"name-upper-tld", "alice.JKL"}, {"name-in-capitals", "ALICE.jkl"},
		}
	}
	pickBuy := func(creator int) c04Buy {
		rc := PickOne(p, refs(creator))
		b := c04Buy{Creator: creator, CreatorUp: p.Chance(1, 5), For: Acct(creator).String(), Days: PickOne(p, c04Days), Bytes: c04Bytes(p), Denom: "ujkl", Referral: rc.val, RefKind: rc.kind}
		switch p.Intn(36) {
		case 0, 1, 2:
			b.For = Acct(creator%4 + 1).String()
		case 3:
			b.For = strings.ToUpper(Acct(creator%4 + 1).String())
		case 4:
			b.For = PickOne(p, []string{"alice.jkl", "", "jkl1qqqq", w.pol.String()})
		case 5:
			b.Denom = PickOne(p, []string{"", "uother", "UJKL"})
		case 6, 7:
			b.Days = PickOne(p, c04DaysEdge)
		case 8, 9, 10:
			b.Days = 30 + p.I64n(1200)
		}
		// a running plan of the beneficiary: mostly ask for more than it has (an upgrade that can succeed)
		if fa, err := sdk.AccAddressFromBech32(b.For); err == nil {
			if pl, found := e.App.StorageKeeper.GetStoragePaymentInfo(e.Ctx, fa.String()); found && pl.End.After(e.Ctx.BlockTime()) && p.Chance(2, 3) {
				b.Bytes = pl.SpaceAvailable + c04GB*PickOne(p, []int64{1, 2, 10, 4999, 5000, 20000})
			}
		}
		return b
	}
	if k == 0 {
		// ---- deterministic prefix: the histories behind the repaired defects
		// (1) referred purchase: 3 GB for 30 days at the defaults costs 39999, 35999 after the discount;
		//     the referrer must get 8999 (25%), the liquidity account 10799 (30%)
		if err := w.buy(c04Buy{Creator: 1, For: Acct(1).String(), Days: 30, Bytes: 3 * c04GB, Denom: "ujkl", Referral: Acct(2).String(), RefKind: "other"}); err != nil {
			return err
		}
		// (2) self-referral through the other spelling of the creator, both ways round
		if err := w.buy(c04Buy{Creator: 3, CreatorUp: true, For: Acct(3).String(), Days: 30, Bytes: 3 * c04GB, Denom: "ujkl", Referral: Acct(3).String(), RefKind: "self"}); err != nil {
			return err
		}
		if err := w.buy(c04Buy{Creator: 4, For: Acct(4).String(), Days: 30, Bytes: 3 * c04GB, Denom: "ujkl", Referral: strings.ToUpper(Acct(4).String()), RefKind: "self-upper"}); err != nil {
			return err
		}
		// a referral that names no account (a registered name under an upper-case TLD, an address in mixed case): full
		// price, the commission goes to the stakers
		if err := w.buy(c04Buy{Creator: 1, For: Acct(1).String(), Days: 30, Bytes: 3 * c04GB, Denom: "ujkl", Referral: "alice.JKL", RefKind: "name-upper-tld"}); err != nil {
			return err
		}
		if err := w.buy(c04Buy{Creator: 1, For: Acct(1).String(), Days: 30, Bytes: 4 * c04GB, Denom: "ujkl", Referral: strings.ToUpper(Acct(2).String()[:9]) + Acct(2).String()[9:], RefKind: "mixed-case-address"}); err != nil {
			return err
		}
		// (3) two equal purchases in one block meet in one gauge, which must record both deposits
		w.advance(1, 6*time.Second)
		if err := w.buy(c04Buy{Creator: 2, For: Acct(2).String(), Days: 60, Bytes: 2 * c04GB, Denom: "ujkl", RefKind: "none"}); err != nil {
			return err
		}
		if err := w.buy(c04Buy{Creator: 6, For: Acct(6).String(), Days: 60, Bytes: 2 * c04GB, Denom: "ujkl", RefKind: "none"}); err != nil {
			return err // Acct(6) has no funds: fails
		}
		_ = e.Fund(Acct(6), "ujkl", 1_000_000)
		if err := w.buy(c04Buy{Creator: 6, For: Acct(6).String(), Days: 60, Bytes: 2 * c04GB, Denom: "ujkl", RefKind: "none"}); err != nil {
			return err
		}
		// (4) the feed moves between two purchases of one block: the second payer is charged at the new price
		w.setFeed("0.25")
		if err := w.buy(c04Buy{Creator: 1, For: Acct(1).String(), Days: 45, Bytes: 4 * c04GB, Denom: "ujkl", RefKind: "none"}); err != nil {
			return err
		}
		w.setFeed("0.50")
		if err := w.buy(c04Buy{Creator: 2, For: Acct(2).String(), Days: 45, Bytes: 4 * c04GB, Denom: "ujkl", RefKind: "none"}); err != nil {
			return err
		}
		w.setFeed("0.35")
		// (5) governance sets the liquidity share, then the referral commission, to 0%: nothing is paid at a default rate
		for _, rt := range [][2]int64{{25, 0}, {0, 40}, {0, 0}, {25, 40}} {
			w.setParams(rt[0], rt[1], 8)
			if err := w.buy(c04Buy{Creator: 3, For: Acct(5).String(), Days: 30 + rt[0] + rt[1], Bytes: 7 * c04GB, Denom: "ujkl", Referral: Acct(2).String(), RefKind: "other"}); err != nil {
				return err
			}
			if err := w.buy(c04Buy{Creator: 4, For: Acct(7).String(), Days: 31 + rt[0] + rt[1], Bytes: 6 * c04GB, Denom: "ujkl", RefKind: "none"}); err != nil {
				return err
			}
		}
		// the discount boundary: exactly 365 days is still the 10% discount, 366 days the 5% one
		for _, d := range []int64{365, 366} {
			if err := w.buy(c04Buy{Creator: 3, For: Acct(3).String(), Days: d, Bytes: (5 + d - 365) * 1000 * c04GB, Denom: "ujkl", Referral: "alice.jkl", RefKind: "name"}); err != nil {
				return err
			}
		}
		// two equal pay-once posts in one block as well
		for _, c := range []int{1, 2} {
			if err := w.post(c04Post{Creator: c, Size: 5_000_000, MaxProofs: 3, Expires: e.Height + 14_400*30, Note: "{}", Merkle: fmt.Sprintf("m%d", c)}); err != nil {
				return err
			}
		}
	}
	// a plan whose record carries what was once paid for it (the v4 upgrade and a genesis import write that field, a
	// purchase does not): upgraded like any other plan, at the price list
	if e.Height > 0 {
		if err := w.buy(c04Buy{Creator: 3, For: Acct(3).String(), Days: 90, Bytes: 5 * c04GB, Denom: "ujkl"}); err != nil {
			return err
		}
		if pi, found := e.App.StorageKeeper.GetStoragePaymentInfo(e.Ctx, Acct(3).String()); found && pi.End.After(e.Ctx.BlockTime()) {
			pi.Coins = sdk.NewCoins(sdk.NewInt64Coin("ujkl", 1_000_000))
			e.App.StorageKeeper.SetStoragePaymentInfo(e.Ctx, pi)
			w.trace = append(w.trace, map[string]interface{}{"op": "the plan record of account 3 carries Coins = 1000000ujkl (as after the v4 upgrade or a genesis import)"})
			if err := w.buy(c04Buy{Creator: 3, For: Acct(3).String(), Days: 60, Bytes: 40_000 * c04GB, Denom: "ujkl"}); err != nil {
				return err
			}
		}
	}
	// exabyte files kept for months: kilobytes x hours beyond 2^63 (the validation only bounds FileSize*MaxProofs)
	if e.Height > 0 {
		for i, big := range [][3]int64{{9_000_000_000_000_000_000, 1, 1_230_000}, {3_000_000_000_000_000_000, 3, 14_400 * 120}, {1 << 62, 2, 14_400*365*3 + 7}} {
			if err := w.post(c04Post{Creator: 1 + i%2, Size: big[0], MaxProofs: big[1], Expires: e.Height + big[2], Note: "{}", Merkle: fmt.Sprintf("exa%d", i)}); err != nil {
				return err
			}
		}
	}
	// the same merkle posted twice in one block by one creator, the second time much larger: the replacement is a
	// new one-time payment and must be charged its own price
	if e.Height > 0 {
		for _, sz := range []int64{1000, 900_000_000, 5_000_000} {
			if err := w.post(c04Post{Creator: 2, Size: sz, MaxProofs: 3, Expires: e.Height + 14_400*400, Note: "{}", Merkle: "repost"}); err != nil {
				return err
			}
		}
	}
	nops := 14 + p.Intn(r.Scale(10, 26))
	ratios := [][2]int64{{25, 40}, {25, 40}, {0, 0}, {100, 0}, {0, 100}, {50, 50}, {10, 10}, {33, 33}, {25, 5}, {25, 9}, {25, 10}, {1, 99}, {60, 50}, {7, 13}, {3, 4}}
	var last *c04Buy
	edgeFeed, edgeRatio := false, false
	for i := 0; i < nops; i++ {
		// adversarial settings (zero / negative price, shares above 100%) last for one or two operations only
		if edgeFeed && p.Chance(2, 3) {
			w.setFeed(PickOne(p, c04Prices))
			edgeFeed = false
		}
		if edgeRatio && p.Chance(2, 3) {
			w.setParams(25, 40, 8)
			edgeRatio = false
		}
		// ---- environment moves
		switch p.Intn(10) {
		case 0, 1, 2:
			w.advance(1+p.I64n(20), time.Duration(6+p.Intn(100))*time.Second)
		case 3:
			w.advance(14_400*31, 31*24*time.Hour) // a month later: 30-day plans have expired
		case 4:
			w.advance(14_400*int64(1+p.Intn(400)), time.Duration(1+p.Intn(400))*24*time.Hour)
		case 5:
			rt := PickOne(p, ratios)
			w.setParams(rt[0], rt[1], PickOne(p, []int64{8, 8, 8, 0, 1, 15, 1000}))
			edgeRatio = rt[0]+rt[1] > 100 || rt[1] < 10
		case 6:
			if p.Chance(1, 5) {
				w.setFeed(PickOne(p, c04PricesEdge))
				edgeFeed = true
			} else {
				w.setFeed(PickOne(p, c04Prices))
			}
		case 7:
			// residue in the storage module account (as left behind by earlier purchases / deposits)
			_ = e.Fund(Acct(4), "ujkl", 50_000)
			_ = e.App.BankKeeper.SendCoinsFromAccountToModule(e.Ctx, Acct(4), storagetypes.ModuleName, sdk.NewCoins(sdk.NewInt64Coin("ujkl", 1+p.I64n(50_000))))
		case 8:
			// a plan in a chosen state, written through the keeper: more or less in use than the next request
			a := Acct(1 + p.Intn(5))
			end := e.Time.Add(time.Duration(p.Intn(90)-20) * 24 * time.Hour)
			avail := PickOne(p, c04Gbs) * c04GB
			used := PickOne(p, []int64{0, 1, c04GB, 3 * c04GB, avail, avail + 1})
			e.App.StorageKeeper.SetStoragePaymentInfo(e.Ctx, storagetypes.StoragePaymentInfo{Start: e.Time.Add(-24 * time.Hour), End: end, SpaceAvailable: avail, SpaceUsed: used, Address: a.String()})
		}
		// ---- one operation
		switch x := p.Intn(25); {
		case x < 12:
			cr := 1 + p.Intn(4)
			if p.Chance(1, 9) {
				cr = 5
			}
			b := pickBuy(cr)
			if b.Creator == 5 && p.Bool() {
				b.Bytes, b.Days = c04GB, 30 // around what the poor payer can afford (13333 at the defaults)
			}
			if err := w.buy(b); err != nil {
				return err
			}
			last = &b
		case x < 14 && last != nil:
			// the same purchase again (same block unless the environment moved): upgrade of an equal plan / gauge id reuse
			b := *last
			if p.Bool() {
				b.Creator = 1 + p.Intn(4)
				b.For = Acct(b.Creator).String()
			}
			if p.Bool() {
				b.Bytes += c04GB * PickOne(p, []int64{1, 5, 5000})
			}
			if err := w.buy(b); err != nil {
				return err
			}
		case x < 16:
			// a plan in a chosen state (through the keeper), then a purchase for it sized around its current use
			c := 1 + p.Intn(4)
			avail := PickOne(p, []int64{2, 5, 100, 5000}) * c04GB
			used := PickOne(p, []int64{c04GB, 2 * c04GB, avail - 1, avail})
			end := e.Time.Add(time.Duration(p.Intn(80)-40) * 24 * time.Hour)
			e.App.StorageKeeper.SetStoragePaymentInfo(e.Ctx, storagetypes.StoragePaymentInfo{Start: e.Time.Add(-50 * 24 * time.Hour), End: end, SpaceAvailable: avail, SpaceUsed: used, Address: Acct(c).String()})
			b := pickBuy(c)
			b.For, b.Denom, b.Days = Acct(c).String(), "ujkl", PickOne(p, c04Days)
			b.Bytes = PickOne(p, []int64{used - c04GB, used - 1, used, used + 1, used + c04GB, avail + c04GB, avail + 5000*c04GB})
			if err := w.buy(b); err != nil {
				return err
			}
		case x < 17:
			// exact-balance payers: fund a fresh account with the price, or one unit less
			b := c04Buy{Creator: 6, For: Acct(6).String(), Days: 30, Bytes: PickOne(p, []int64{1, 2, 3}) * c04GB, Denom: "ujkl", RefKind: "none"}
			var cost sdk.Int
			if Guard(func() { cost = e.App.StorageKeeper.GetStorageCost(e.Ctx, b.Bytes/c04GB, 720) }) == "" && cost.IsInt64() && cost.Int64() > 1 {
				have := e.Bal(Acct(6), "ujkl")
				want := cost.Int64() - int64(p.Intn(2))
				if have < want {
					_ = e.Fund(Acct(6), "ujkl", want-have)
				} else if have > want {
					_ = e.App.BankKeeper.SendCoins(e.Ctx, Acct(6), Acct(4), sdk.NewCoins(sdk.NewInt64Coin("ujkl", have-want)))
				}
			}
			if err := w.buy(b); err != nil {
				return err
			}
		default:
			// PostFile: mostly pay-once, some plan-paid, a few malformed
			c := 1 + p.Intn(5)
			b := c04Post{Creator: c, CreatorUp: false, Size: PickOne(p, []int64{1, 1000, 1_023_999, 1_024_000, 1_024_001, 5_000_000, 1 << 33, 1 << 33, 7_000_000_000_000_000, 900_000_000_000_000_000}), MaxProofs: PickOne(p, []int64{1, 3, 3, 10}), Note: "{}", Merkle: fmt.Sprintf("f%d", p.Intn(6))}
			hgt := e.Height
			switch p.Intn(12) {
			case 0:
				b.Expires = 0 // plan-paid
			case 1:
				b.Expires = hgt + PickOne(p, []int64{1, 14_399, 14_400, 14_401, 28_799, 28_800})
			case 2:
				b.Expires = PickOne(p, []int64{-1, hgt, hgt - 1, 1<<63 - 1, (1<<63-1)/6 + hgt, (1<<63-1)/6 + hgt + 1})
			case 3:
				b.Note = "not json"
				b.Expires = hgt + 14_400*30
			case 4:
				b.Size = PickOne(p, []int64{0, -1, 1 << 62})
				b.Expires = hgt + 14_400*30
			default:
				b.Expires = hgt + 14_400*int64(1+p.Intn(800)) + int64(p.Intn(14_400))
			}
			if err := w.post(b); err != nil {
				return err
			}
		}
	}
	return nil
}
