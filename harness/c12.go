package main

// C12 — payment gauges stream linearly and never release more than the pro-rata deposit.
// History level on the assembled app and the real bank: gauges are opened by real BuyStorage /
// pay-once PostFile messages and, for precise control of amounts, denominations and
// durations, through keeper.NewGauge + the module-to-gauge-account transfer the handlers use.
// Reward blocks are RunRewardBlock at heights = 0 mod CheckWindow with nothing stored, so
// what the gauges release stays in the storage module account.  Every step is recorded as
// (pre, op, post) for the Coq model; the monitors below check the property on the
// implementation's balances directly.

import (
	"encoding/json"
	wasmvmtypes "github.com/CosmWasm/wasmvm/types"
	"github.com/jackalLabs/canine-chain/v4/wasmbinding"
	"github.com/jackalLabs/canine-chain/v4/wasmbinding/bindings"
	"crypto/sha256"
	"encoding/hex"
	"fmt"
	"math/big"
	"sort"
	"strings"
	"time"

	sdk "github.com/cosmos/cosmos-sdk/types"
	minttypes "github.com/jackalLabs/canine-chain/v4/x/jklmint/types"
	storagetypes "github.com/jackalLabs/canine-chain/v4/x/storage/types"
)

func init() { runners["C12"] = runC12 }

var c12Denoms = map[string]uint64{"uatom": 1, "ujkl": 2, "uusdc": 3}

type c12Gauge struct {
	Idx     uint64
	Hex     string
	addr    sdk.AccAddress
	Start   time.Time
	End     time.Time
	Dep     map[string]*big.Int // deposited per denomination
	lastCum map[string]*big.Int
	InQuant bool // 1us <= End-Start <= 2^63-1 ns, no third-party transfer into the gauge account
	Kind    string
	Gone    bool // a reward block took the record off the list (past its end, empty or degenerate)
}

type c12Obs struct {
	gauges []storagetypes.PaymentGauge
	escrow map[string]sdk.Coins // by hex id
	pool   sdk.Coins
}

type c12Hist struct {
	e      *Env
	r      *RunCtx
	byHex  map[string]*c12Gauge
	order  []*c12Gauge
	trace  []map[string]interface{}
	quiet  bool
	height int64
	now    time.Time
	maxT   time.Time
	id     int
	cw     int64 // CheckWindow of this chain: reward blocks are the heights = 0 mod cw
}

func c12Ns(t time.Time) *big.Int {
	v := new(big.Int).Mul(big.NewInt(t.Unix()), big.NewInt(1_000_000_000))
	return v.Add(v, big.NewInt(int64(t.Nanosecond())))
}

func c12Coins(c sdk.Coins) string {
	items := []string{}
	for _, x := range c {
		d, ok := c12Denoms[x.Denom]
		if !ok {
			d = 99
		}
		items = append(items, cPair(cN(d), cZbig(x.Amount.BigInt())))
	}
	return cList(items)
}

func (h *c12Hist) observe() c12Obs {
	o := c12Obs{escrow: map[string]sdk.Coins{}}
	o.gauges = h.e.App.StorageKeeper.GetAllPaymentGauges(h.e.Ctx)
	sort.Slice(o.gauges, func(i, j int) bool {
		return hex.EncodeToString(o.gauges[i].Id) < hex.EncodeToString(o.gauges[j].Id)
	})
	for _, g := range h.order {
		o.escrow[g.Hex] = h.e.App.BankKeeper.GetAllBalances(h.e.Ctx, g.addr)
	}
	o.pool = h.e.App.BankKeeper.GetAllBalances(h.e.Ctx, h.e.ModAddr(storagetypes.ModuleName))
	return o
}

// register makes sure a gauge id has an index and an account before it is printed
func (h *c12Hist) register(id []byte) *c12Gauge {
	hx := hex.EncodeToString(id)
	if g, ok := h.byHex[hx]; ok {
		return g
	}
	// independent recomputation of the gauge account: sha256("gauge:<hex id>")
	s := sha256.Sum256([]byte("gauge:" + hx))
	g := &c12Gauge{Idx: uint64(len(h.order) + 1), Hex: hx, addr: sdk.AccAddress(s[:]), Dep: map[string]*big.Int{}, lastCum: map[string]*big.Int{}, InQuant: true}
	h.byHex[hx] = g
	h.order = append(h.order, g)
	return g
}

func (h *c12Hist) printObs(o c12Obs) (string, string, string) {
	gs := []string{}
	for _, pg := range o.gauges {
		g := h.register(pg.Id)
		gs = append(gs, fmt.Sprintf("og %s %s %s %s", cN(g.Idx), cZbig(c12Ns(pg.Start)), cZbig(c12Ns(pg.End)), c12Coins(pg.Coins)))
	}
	es := []string{}
	for _, g := range h.order {
		es = append(es, cPair(cN(g.Idx), c12Coins(o.escrow[g.Hex])))
	}
	return cList(gs), cList(es), c12Coins(o.pool)
}

func c12ObsJSON(o c12Obs) map[string]interface{} {
	gs := []string{}
	for _, pg := range o.gauges {
		gs = append(gs, fmt.Sprintf("%x start=%s end=%s coins=%s", pg.Id[:4], pg.Start.Format(time.RFC3339Nano), pg.End.Format(time.RFC3339Nano), pg.Coins))
	}
	es := map[string]string{}
	for k, v := range o.escrow {
		es[k[:8]] = v.String()
	}
	return map[string]interface{}{"gauges": gs, "escrow": es, "pool": o.pool.String()}
}

func (h *c12Hist) bad(sig, what string) {
	h.r.Finding(sig, what, map[string]interface{}{"history": h.id, "trace": h.trace})
}

// afterCreate handles bookkeeping, case emission and monitors for one gauge creation.
// dep = what went into the gauge account (for direct creations the coins passed in).
func (h *c12Hist) afterCreate(kind string, direct bool, pre, post c12Obs, wantEnd time.Time, desc map[string]interface{}) {
	r := h.r
	// the record that is new or changed
	var rec *storagetypes.PaymentGauge
	preBy := map[string]storagetypes.PaymentGauge{}
	for _, g := range pre.gauges {
		preBy[hex.EncodeToString(g.Id)] = g
	}
	changed := 0
	for i, g := range post.gauges {
		old, ok := preBy[hex.EncodeToString(g.Id)]
		if !ok || !old.Coins.IsEqual(g.Coins) || !old.Start.Equal(g.Start) || !old.End.Equal(g.End) {
			rec = &post.gauges[i]
			changed++
		}
	}
	if !h.quiet {
		desc["pre"], desc["post"] = c12ObsJSON(pre), c12ObsJSON(post)
	}
	h.trace = append(h.trace, desc)
	if changed == 0 {
		// no record changed: the gauge is the listed one whose account received the deposit
		for i, g := range post.gauges {
			hx := hex.EncodeToString(g.Id)
			if !post.escrow[hx].IsEqual(pre.escrow[hx]) {
				rec = &post.gauges[i]
				changed++
			}
		}
	}
	if changed == 0 {
		// a creation that deposits nothing under an id that exists already leaves the record as it is
		sum := sha256.Sum256([]byte(fmt.Sprintf("%d--%d--%s", h.height, wantEnd.UnixMicro(), "")))
		for i, g := range post.gauges {
			if hex.EncodeToString(g.Id) == hex.EncodeToString(sum[:]) {
				rec = &post.gauges[i]
				changed = 1
			}
		}
	}
	if changed != 1 || len(post.gauges) < len(pre.gauges) {
		h.bad("C12/create/"+kind+"/records", fmt.Sprintf("a successful %s changed %d gauge records", kind, changed))
		return
	}
	g := h.register(rec.Id)
	if g.Kind == "" {
		g.Kind = kind
	}
	postE := h.e.App.BankKeeper.GetAllBalances(h.e.Ctx, g.addr)
	post.escrow[g.Hex] = postE
	preE := pre.escrow[g.Hex] // nil for a new id: the account held nothing (checked below)
	_, existed := preBy[g.Hex]
	dep, neg := postE.SafeSub(preE)
	if neg {
		h.bad("C12/create/"+kind+"/escrow-shrank", "the gauge account lost tokens when a gauge was opened")
		return
	}
	// ---- id and account as documented: sha256(height--end_us--coins), sha256("gauge:<hex>")
	sum := sha256.Sum256([]byte(fmt.Sprintf("%d--%d--%s", h.height, wantEnd.UnixMicro(), dep.String())))
	if hex.EncodeToString(sum[:]) != g.Hex {
		h.bad("C12/create/"+kind+"/id", "gauge id is not sha256(height--end--deposited coins)")
	}
	if acc, err := storagetypes.GetGaugeAccount(*rec); err != nil || !acc.Equals(g.addr) {
		h.bad("C12/create/"+kind+"/account", "gauge account is not sha256(gauge:<id>)")
	}
	if !existed && !preE.IsZero() {
		g.InQuant = false
	}
	for _, c := range dep {
		if g.Dep[c.Denom] == nil {
			g.Dep[c.Denom] = new(big.Int)
		}
		g.Dep[c.Denom].Add(g.Dep[c.Denom], c.Amount.BigInt())
	}
	g.Start, g.End = rec.Start, rec.End
	for _, v := range g.Dep {
		if !v.IsInt64() {
			g.InQuant = false // recorded amounts beyond int64 are outside the quantifier (TruncateInt64 panics on them)
		}
	}
	durNs := new(big.Int).Sub(c12Ns(g.End), c12Ns(g.Start))
	if durNs.Cmp(big.NewInt(1000)) < 0 || !durNs.IsInt64() {
		g.InQuant = false
	}
	// ---- case
	if !h.quiet {
		g0, e0, p0 := h.printObs(pre)
		g1, e1, p1 := h.printObs(post)
		term := fmt.Sprintf("CCreate %s %s %s %s %s %s %s %s %s %s %s", cBool(direct), cN(g.Idx), cZbig(c12Ns(h.now)), cZbig(c12Ns(wantEnd)), c12Coins(dep), g0, e0, p0, g1, e1, p1)
		r.Case("hist", term, desc)
	}
	r.Count(fmt.Sprintf("create:%s:%s:%d:%v", kind, dep, durNs, existed), !dep.IsZero())
	r.Hist("ops", "create/"+kind)
	if existed {
		r.Hist("ops", "create/same-id-again")
	}
	// ---- monitors: the record says what the account was given, from the block time to the requested end
	if !rec.Start.Equal(h.now) || !rec.End.Equal(wantEnd) {
		h.bad("C12/create/"+kind+"/interval", "recorded start/end differ from block time / requested end")
	}
	for d, v := range g.Dep {
		if g.InQuant && rec.Coins.AmountOf(d).BigInt().Cmp(v) != 0 {
			h.bad("C12/create/record-differs-from-deposits", fmt.Sprintf("gauge records %s but its account was given %s%s", rec.Coins, v, d))
		}
	}
	if g.InQuant && len(rec.Coins) != len(g.Dep) {
		h.bad("C12/create/record-differs-from-deposits", "gauge records denominations that were not deposited")
	}
}

func (h *c12Hist) direct(coins sdk.Coins, end time.Time) {
	// the storage module is given what the gauge is going to be funded with (stands for the buyer's payment)
	if !coins.IsZero() {
		if err := h.e.App.BankKeeper.MintCoins(h.e.Ctx, minttypes.ModuleName, coins); err == nil {
			_ = h.e.App.BankKeeper.SendCoinsFromModuleToModule(h.e.Ctx, minttypes.ModuleName, storagetypes.ModuleName, coins)
		}
	}
	pre := h.observe()
	k := h.e.App.StorageKeeper
	var err error
	pn := Guard(func() {
		g := k.NewGauge(h.e.Ctx, coins, end)
		var acc sdk.AccAddress
		acc, err = storagetypes.GetGaugeAccount(g)
		if err == nil {
			err = h.e.App.BankKeeper.SendCoinsFromModuleToAccount(h.e.Ctx, storagetypes.ModuleName, acc, coins)
		}
	})
	desc := map[string]interface{}{"op": "NewGauge+fund", "height": h.height, "time": h.now.Format(time.RFC3339Nano), "coins": coins.String(), "end": end.Format(time.RFC3339Nano)}
	if pn != "" || err != nil {
		desc["error"] = fmt.Sprint(pn, err)
		h.trace = append(h.trace, desc)
		h.bad("C12/create/direct/failed", "NewGauge + funding transfer failed")
		return
	}
	post := h.observe()
	h.afterCreate("direct", true, pre, post, end, desc)
}

func (h *c12Hist) buy(buyer int, days, gbs int64) bool {
	pre := h.observe()
	a := Acct(buyer)
	res := h.e.Run(&storagetypes.MsgBuyStorage{Creator: a.String(), ForAddress: a.String(), DurationDays: days, Bytes: gbs * 1_000_000_000, PaymentDenom: "ujkl"})
	desc := map[string]interface{}{"op": "BuyStorage", "buyer": buyer, "days": days, "gbs": gbs, "height": h.height, "time": h.now.Format(time.RFC3339Nano), "out": res.Out}
	h.r.Hist("outcomes", "BuyStorage/"+res.Out)
	if res.Out != OutOk {
		desc["err"] = res.Err
		h.trace = append(h.trace, desc)
		return false
	}
	post := h.observe()
	h.afterCreate("BuyStorage", false, pre, post, h.now.Add(time.Duration(days)*24*time.Hour), desc)
	return true
}

func (h *c12Hist) post(buyer int, size, maxProofs, blocks int64) bool {
	return h.postVia(buyer, size, maxProofs, blocks, false)
}

// postVia: the pay-once post as a transaction, or as the custom wasm message a contract with that address sends
// (wasmd commits what the message plugin did when the plugin reports no error, and drops it otherwise)
func (h *c12Hist) postVia(buyer int, size, maxProofs, blocks int64, contract bool) bool {
	pre := h.observe()
	a := Acct(buyer)
	msg := &storagetypes.MsgPostFile{Creator: a.String(), Merkle: h.r.Rng.Bytes(32), FileSize: size, ProofType: 0, MaxProofs: maxProofs, Expires: h.height + blocks, Note: "{}"}
	var res MsgResult
	if contract {
		res = MsgResult{Out: OutOk}
		js, _ := json.Marshal(bindings.JackalMsg{PostFile: msg})
		m := wasmbinding.CustomMessageDecorator(&h.e.App.FileTreeKeeper, &h.e.App.StorageKeeper)(nil)
		cctx, write := h.e.Ctx.CacheContext()
		var derr error
		if pn := Guard(func() { _, _, derr = m.DispatchMsg(cctx, a, "", wasmvmtypes.CosmosMsg{Custom: js}) }); pn != "" {
			res = MsgResult{Out: OutPanic, Err: pn}
		} else if derr != nil {
			res = MsgResult{Out: OutFail, Err: derr.Error()}
		} else {
			write()
		}
	} else {
		res = h.e.Run(msg)
	}
	desc := map[string]interface{}{"op": "PostFile", "by_contract": contract, "buyer": buyer, "size": size, "max_proofs": maxProofs, "expires_in": blocks, "height": h.height, "time": h.now.Format(time.RFC3339Nano), "out": res.Out}
	if res.Out != OutOk {
		// a refused post leaves no gauge behind: neither a record nor tokens in an escrow account
		if post := h.observe(); fmt.Sprint(c12ObsJSON(pre)) != fmt.Sprint(c12ObsJSON(post)) {
			desc["pre"], desc["post"] = c12ObsJSON(pre), c12ObsJSON(post)
			h.trace = append(h.trace, desc)
			h.bad("C12/create/refused-post-left-a-gauge", "a PostFile that was refused changed the gauge records or an escrow balance")
		}
	}
	h.r.Hist("outcomes", "PostFile/"+res.Out)
	if res.Out != OutOk {
		desc["err"] = res.Err
		h.trace = append(h.trace, desc)
		return false
	}
	days := blocks * 6 / 60 / 60 / 24
	post := h.observe()
	h.afterCreate("PostFile", false, pre, post, h.now.AddDate(0, 0, int(days)), desc)
	return true
}

// donate: a third party sends tokens to a gauge account (outside the property's quantifier;
// kept in the histories so that the model's branches for it are tied to the code as well)
func (h *c12Hist) donate(g *c12Gauge, c sdk.Coin) {
	if err := h.e.App.BankKeeper.SendCoins(h.e.Ctx, Acct(9), g.addr, sdk.NewCoins(c)); err == nil {
		g.InQuant = false
		h.trace = append(h.trace, map[string]interface{}{"op": "donate", "gauge": g.Hex[:8], "coin": c.String()})
		h.r.Hist("ops", "donate")
	}
}

func c12Perm(p *PRNG, n int) []int {
	out := make([]int, n)
	for i := range out {
		out[i] = i
	}
	for i := n - 1; i > 0; i-- {
		j := p.Intn(i + 1)
		out[i], out[j] = out[j], out[i]
	}
	return out
}

func c12Floor(a, e, d *big.Int) *big.Int {
	return new(big.Int).Div(new(big.Int).Mul(a, e), d)
}

// reward runs RunRewardBlock at the next reward height at time t.
func (h *c12Hist) reward(t time.Time) {
	r := h.r
	h.height = (h.height/h.cw + 1) * h.cw
	backwards := t.Before(h.maxT)
	h.now = t
	if !backwards {
		h.maxT = t
	}
	h.e.At(h.height, t)
	pre := h.observe()
	cctx, write := h.e.Ctx.CacheContext()
	pn := Guard(func() { h.e.App.StorageKeeper.RunRewardBlock(cctx) })
	if pn == "" {
		write()
	}
	post := h.observe()
	desc := map[string]interface{}{"op": "RunRewardBlock", "height": h.height, "time": t.Format(time.RFC3339Nano), "panic": pn, "pre": c12ObsJSON(pre), "post": c12ObsJSON(post)}
	h.trace = append(h.trace, desc)
	g0, e0, p0 := h.printObs(pre)
	g1, e1, p1 := h.printObs(post)
	r.Case("hist", fmt.Sprintf("CReward %s %s %s %s %s %s %s %s", cZbig(c12Ns(t)), g0, e0, p0, cBool(pn == ""), g1, e1, p1), desc)
	r.Hist("ops", "reward")
	if len(r.Sum.Samples) < 3 && len(pre.gauges) > 0 {
		r.Sample(desc)
	}
	// ---- monitors
	listedPre, listedPost := map[string]bool{}, map[string]bool{}
	for _, g := range pre.gauges {
		listedPre[hex.EncodeToString(g.Id)] = true
	}
	for _, g := range post.gauges {
		listedPost[hex.EncodeToString(g.Id)] = true
		if !listedPre[hex.EncodeToString(g.Id)] {
			h.bad("C12/reward/gauge-appeared", "a reward block created a gauge record")
		}
	}
	if pn != "" {
		// a panic in BeginBlock halts the chain; it is within the quantifier only if every live gauge is
		inq := !backwards
		for _, g := range h.order {
			if listedPre[g.Hex] && !g.InQuant {
				inq = false
			}
		}
		r.Hist("reward", "panic")
		r.Count(fmt.Sprintf("reward-panic:%d:%s", h.id, t), false)
		if inq {
			h.bad("C12/reward/panic", "RunRewardBlock panicked on well-formed gauges with non-decreasing block times: "+pn)
		}
		return
	}
	sumRel := map[string]*big.Int{}
	released := false
	key := []string{}
	tNs := c12Ns(t)
	for _, g := range h.order {
		sNs, eNs := c12Ns(g.Start), c12Ns(g.End)
		denoms := map[string]bool{}
		for _, c := range pre.escrow[g.Hex] {
			denoms[c.Denom] = true
		}
		for _, c := range post.escrow[g.Hex] {
			denoms[c.Denom] = true
		}
		for d := range g.Dep {
			denoms[d] = true
		}
		after := tNs.Cmp(eNs) > 0
		if listedPost[g.Hex] && after {
			h.bad("C12/reward/gauge-survives-end", "a gauge is still listed after a reward block past its end")
		}
		for d := range denoms {
			b0, b1 := pre.escrow[g.Hex].AmountOf(d).BigInt(), post.escrow[g.Hex].AmountOf(d).BigInt()
			rel := new(big.Int).Sub(b0, b1)
			if sumRel[d] == nil {
				sumRel[d] = new(big.Int)
			}
			sumRel[d].Add(sumRel[d], rel)
			if rel.Sign() < 0 {
				h.bad("C12/reward/negative-release", "a gauge account gained tokens in a reward block")
			}
			if rel.Sign() != 0 {
				released = true
				if !listedPre[g.Hex] {
					h.bad("C12/reward/released-from-removed-gauge", "tokens left the account of a gauge that is not listed")
				}
				if after || tNs.Cmp(sNs) < 0 {
					h.bad("C12/reward/released-outside-interval", "tokens were released outside [start, end]")
				}
			}
			dep := g.Dep[d]
			if dep == nil || !g.InQuant || backwards {
				continue
			}
			cum := new(big.Int).Sub(dep, b1)
			if cum.Sign() < 0 || cum.Cmp(dep) > 0 {
				h.bad("C12/reward/exceeds-deposit", fmt.Sprintf("cumulative release %s outside [0, deposit %s]", cum, dep))
			}
			if last := g.lastCum[d]; last != nil && cum.Cmp(last) < 0 {
				h.bad("C12/reward/not-monotone", "cumulative release decreased")
			}
			g.lastCum[d] = cum
			if (listedPre[g.Hex] || !g.Gone) && !after && tNs.Cmp(sNs) >= 0 {
				// elapsed and total in whole microseconds, as the property says
				totalUs := new(big.Int).Quo(new(big.Int).Sub(eNs, sNs), big.NewInt(1000))
				leftUs := new(big.Int).Quo(new(big.Int).Sub(eNs, tNs), big.NewInt(1000))
				el := new(big.Int).Sub(totalUs, leftUs)
				want := c12Floor(dep, el, totalUs)
				tol := new(big.Int).Add(big.NewInt(1), new(big.Int).Quo(new(big.Int).Sub(dep, big.NewInt(1)), new(big.Int).Exp(big.NewInt(10), big.NewInt(18), nil)))
				diff := new(big.Int).Abs(new(big.Int).Sub(cum, want))
				if diff.Cmp(tol) > 0 {
					h.bad("C12/reward/not-pro-rata", fmt.Sprintf("gauge %s %s: released %s of %s after %s of %s us, pro rata is %s", g.Hex[:8], d, cum, dep, el, totalUs, want))
				}
				key = append(key, fmt.Sprintf("%s/%s/%s", dep, el, totalUs))
				if el.Sign() == 0 {
					r.Hist("reward", "at-start")
				} else if leftUs.Sign() == 0 {
					r.Hist("reward", "at-end")
				} else {
					r.Hist("reward", "inside")
				}
			}
		}
		if listedPre[g.Hex] && !listedPost[g.Hex] {
			g.Gone = true
			if after {
				r.Hist("reward", "removed-past-end")
				if !pre.escrow[g.Hex].IsZero() && g.InQuant {
					r.Hist("reward", "removed-past-end-with-unreleased-tail")
					tailNote(r, g, pre.escrow[g.Hex])
				}
			} else if eNs.Cmp(sNs) <= 0 {
				r.Hist("reward", "removed-degenerate")
			} else if pre.escrow[g.Hex].IsZero() {
				r.Hist("reward", "removed-empty")
			} else {
				h.bad("C12/reward/gauge-removed-early", "a funded gauge was removed inside its interval")
			}
		}
	}
	// what left the gauge accounts is what the reward pool (storage module account) received
	for d, v := range sumRel {
		got := new(big.Int).Sub(post.pool.AmountOf(d).BigInt(), pre.pool.AmountOf(d).BigInt())
		if got.Cmp(v) != 0 {
			h.bad("C12/reward/pool-conservation", fmt.Sprintf("gauges released %s%s but the storage module account changed by %s", v, d, got))
		}
	}
	for _, c := range post.pool {
		if sumRel[c.Denom] == nil && !pre.pool.AmountOf(c.Denom).Equal(c.Amount) {
			h.bad("C12/reward/pool-conservation", "the storage module account changed in a denomination no gauge released")
		}
	}
	sort.Strings(key)
	r.Count("reward:"+strings.Join(key, ","), released)
}

var c12TailNoted bool

func tailNote(r *RunCtx, g *c12Gauge, left sdk.Coins) {
	if !c12TailNoted {
		c12TailNoted = true
		r.Sum.Notes = append(r.Sum.Notes, fmt.Sprintf("observation (not a violation of C12 as read in DESIGN §5): a gauge removed at the first reward block past its end keeps what was not yet released in its account for good, e.g. gauge %s (%s) kept %s of %v", g.Hex[:8], g.Kind, left, g.Dep))
	}
}

func (h *c12Hist) txBlock(dt time.Duration) {
	h.height++
	if h.height%h.cw == 0 {
		h.height++
	}
	h.now = h.maxT.Add(dt)
	h.maxT = h.now
	h.e.At(h.height, h.now)
}

// windows changes CheckWindow and ProofWindow the way a passed parameter-change proposal does.
func (h *c12Hist) windows(check, proof int64) {
	pr := StorageParams(h.e)
	pr.CheckWindow, pr.ProofWindow = check, proof
	GovSetStorageParams(h.e, pr)
	h.cw = check
	h.trace = append(h.trace, map[string]interface{}{"op": "parameter change", "CheckWindow": check, "ProofWindow": proof})
	h.height = (h.height/h.cw+1)*h.cw + 1
}

// restart: the chain is stopped, its state exported, and a new chain started from that genesis (bank balances and
// the storage module's own section).  A gauge is the same gauge afterwards: the schedule the property speaks of runs
// from the time the deposit was made, not from the restart.
func (h *c12Hist) restart() error {
	nxt, err := NewEnv()
	if err != nil {
		return err
	}
	nxt.At(h.height, h.now)
	pn := Guard(func() {
		nxt.App.BankKeeper.InitGenesis(nxt.Ctx, h.e.App.BankKeeper.ExportGenesis(h.e.Ctx))
		for _, m := range c19Modules() {
			if m.Name != "storage" {
				continue
			}
			for _, kv := range mustDump(nxt, m.StoreKey) {
				nxt.Ctx.KVStore(c19StoreKey(nxt, m.StoreKey)).Delete(kv.K)
			}
			if ierr := m.Import(nxt, m.Export(h.e)); ierr != nil {
				panic(ierr)
			}
		}
	})
	h.trace = append(h.trace, map[string]interface{}{"op": "restart from the exported genesis", "height": h.height, "panic": pn})
	if pn != "" {
		nxt.Close()
		return fmt.Errorf("C12: restart from the exported genesis failed: %s", pn)
	}
	h.e.Close()
	h.e = nxt
	h.r.Hist("ops", "restart")
	return nil
}

func c12NewHist(r *RunCtx, id int) (*c12Hist, error) {
	e, err := NewEnv()
	if err != nil {
		return nil, err
	}
	h := &c12Hist{e: e, r: r, byHex: map[string]*c12Gauge{}, height: 100, now: T0, maxT: T0, id: id, cw: 100}
	for i := 1; i <= 9; i++ {
		for d := range c12Denoms {
			if err := e.Fund(Acct(i), d, 4_000_000_000_000_000); err != nil {
				return nil, err
			}
		}
	}
	// the storage module holds tokens for the gauges opened directly through the keeper
	big1 := sdk.NewIntFromUint64(1 << 62).MulRaw(8)
	for d := range c12Denoms {
		c := sdk.NewCoins(sdk.NewCoin(d, big1))
		if err := e.App.BankKeeper.MintCoins(e.Ctx, minttypes.ModuleName, c); err != nil {
			return nil, err
		}
		if err := e.App.BankKeeper.SendCoinsFromModuleToModule(e.Ctx, minttypes.ModuleName, storagetypes.ModuleName, c); err != nil {
			return nil, err
		}
	}
	return h, nil
}

func (h *c12Hist) live() []*c12Gauge {
	out := []*c12Gauge{}
	for _, pg := range h.e.App.StorageKeeper.GetAllPaymentGauges(h.e.Ctx) {
		if g, ok := h.byHex[hex.EncodeToString(pg.Id)]; ok {
			out = append(out, g)
		}
	}
	return out
}

// nextTime picks the time of the next reward block: boundaries of a live gauge, equal
// timestamps, nanosecond steps, or a random point inside a live gauge's interval.
func (h *c12Hist) nextTime(p *PRNG) time.Time {
	lv := h.live()
	base := h.maxT
	if len(lv) == 0 {
		return base.Add(time.Duration(p.I64n(1_000_000_000_000)))
	}
	g := PickOne(p, lv)
	var t time.Time
	switch p.Intn(14) {
	case 0:
		t = g.End
	case 1:
		t = g.End.Add(1)
	case 2:
		t = g.End.Add(-1)
	case 3:
		t = base // equal timestamps
	case 4:
		t = base.Add(1)
	case 5:
		t = g.Start
	case 6:
		t = g.End.Add(-time.Duration(p.I64n(2000)))
	case 7:
		t = g.End.Add(time.Duration(p.I64n(1_000_000_000_000)))
	case 8:
		t = base.Add(time.Duration(p.I64n(3000))) // sub-microsecond and few-microsecond steps
	default:
		rem := g.End.Sub(base)
		if rem <= 0 {
			t = base.Add(time.Duration(p.I64n(1_000_000_000)))
		} else {
			t = base.Add(time.Duration(p.I64n(int64(rem)/(1+int64(p.Intn(6))) + 1)))
		}
	}
	if t.Before(base) {
		t = base
	}
	return t
}

func runC12(r *RunCtx) error {
	r.Sum.Rule = "histories on the assembled app: 1..6 concurrent gauges opened by BuyStorage, pay-once PostFile and keeper.NewGauge+funding (1..3 denominations, amounts 1..9e18, durations from <1us to >292 years, equal creations in one block), reward blocks at heights = 0 mod 100 at irregular times (ns steps, equal timestamps, exactly start, exactly end, first block past end, occasionally backwards); one evaluation = one creation or one reward block; non-trivial = a reward block in which some gauge released tokens (distinct by the set of (deposit, elapsed us, total us)) or a creation with a non-zero deposit"
	r.Group("hist", "From JK Require Import Model.Gauge Corr.C12.", "c12_case", "c12_ok")
	p := r.Rng
	day := 24 * time.Hour

	// ---- history 0 (deterministic): two equal purchases in one block share one gauge id
	// (the defect repaired by "add up deposits of payment gauges that share an id")
	{
		h, err := c12NewHist(r, 0)
		if err != nil {
			return err
		}
		h.txBlock(6 * time.Second)
		h.buy(1, 30, 1)
		h.buy(2, 30, 1)
		h.buy(3, 31, 1)
		if lv := h.live(); len(lv) > 0 {
			g := lv[0]
			for _, f := range []int64{0, 10, 10, 35, 50, 99} {
				h.reward(g.Start.Add(time.Duration(int64(g.End.Sub(g.Start)) / 100 * f)))
			}
		}
		if lv := h.live(); len(lv) > 0 {
			h.reward(lv[0].End)
			h.reward(lv[0].End.Add(1))
		}
		h.reward(h.maxT.Add(40 * day))
		h.e.Close()
	}
	// ---- history 1 (deterministic): the same through the keeper, two denominations, pay-once file
	{
		h, err := c12NewHist(r, 1)
		if err != nil {
			return err
		}
		h.txBlock(6 * time.Second)
		cs := sdk.NewCoins(sdk.NewInt64Coin("ujkl", 13_999), sdk.NewInt64Coin("uatom", 7))
		end := h.now.Add(1000 * time.Second)
		h.direct(cs, end)
		h.direct(cs, end)
		h.post(4, 5_000_000_000_000, 3, 14400*3+7)
		// a contract that cannot pay posts a file of the same size and term in the same block (the gauge id does not
		// name the creator): refused, and the gauge of the post before it keeps recording exactly what was deposited
		h.postVia(10, 5_000_000_000_000, 3, 14400*3+7, true)
		h.postVia(4, 5_000_000_000_000, 3, 14400*3+7, true)
		h.reward(h.now)
		h.reward(h.now.Add(100 * time.Second))
		h.reward(h.now.Add(1))
		h.reward(end.Add(-1))
		h.reward(end)
		h.reward(end)
		h.reward(end.Add(1))
		h.reward(h.now.Add(2 * day))
		h.reward(h.now.Add(2 * day))
		h.e.Close()
	}

	// ---- history 2 (deterministic): a busy chain, more live gauges than one page of any listing holds
	{
		h, err := c12NewHist(r, 1_000_002)
		if err != nil {
			return err
		}
		h.txBlock(6 * time.Second)
		end := h.now.Add(3000 * time.Second)
		for i := 0; i < 1100; i++ { // also more than any round number a loop over the gauges might stop at
			h.quiet = i >= 125 // the later creations are monitored but not written out state by state
			if i%32 == 31 {
				h.txBlock(6 * time.Second)
			}
			h.direct(sdk.NewCoins(sdk.NewInt64Coin("ujkl", int64(1_000_000+i))), end.Add(time.Duration(i)*time.Second))
		}
		h.reward(h.now.Add(500 * time.Second))
		h.reward(h.now.Add(700 * time.Second))
		h.reward(end.Add(60 * time.Second))
		h.reward(end.Add(200 * time.Second))
		h.e.Close()
	}

	// ---- history 3 (deterministic): a restart from the exported genesis in the middle of three gauges' schedules
	{
		h, err := c12NewHist(r, 1_000_003)
		if err != nil {
			return err
		}
		h.txBlock(6 * time.Second)
		end := h.now.Add(4000 * time.Second)
		h.direct(sdk.NewCoins(sdk.NewInt64Coin("ujkl", 7_000_000), sdk.NewInt64Coin("uatom", 1_000_003)), end)
		h.buy(2, 30, 1000)
		h.post(4, 5_000_000_000, 3, 14400*3+7)
		t0 := h.now
		h.reward(t0.Add(1000 * time.Second))
		h.txBlock(6 * time.Second)
		if err := h.restart(); err != nil {
			h.bad("C12/restart/import-failed", err.Error())
		} else {
			h.reward(t0.Add(2000 * time.Second))
			h.reward(t0.Add(3000 * time.Second))
			h.reward(end)
			h.reward(end.Add(1))
			h.reward(t0.Add(2 * day))
		}
		h.e.Close()
	}
	// ---- history 4 (deterministic): reward blocks every 11 (then 7, then 150) blocks with proofs due every 50
	{
		h, err := c12NewHist(r, 1_000_004)
		if err != nil {
			return err
		}
		h.windows(11, 50)
		h.txBlock(6 * time.Second)
		end := h.now.Add(9000 * time.Second)
		h.direct(sdk.NewCoins(sdk.NewInt64Coin("ujkl", 90_000_017)), end)
		h.buy(3, 30, 3)
		t0 := h.now
		for i := 1; i <= 5; i++ {
			h.reward(t0.Add(time.Duration(i) * 700 * time.Second))
		}
		h.windows(7, 50)
		h.reward(t0.Add(5000 * time.Second))
		h.reward(t0.Add(5001 * time.Second))
		h.windows(150, 50)
		h.reward(t0.Add(7000 * time.Second))
		h.reward(end)
		h.reward(end.Add(time.Second))
		h.e.Close()
	}

	if err := c12UpgradeTwin(r); err != nil {
		return err
	}
	amounts := []int64{1, 2, 3, 7, 999, 13_999, 1_000_000, 1_000_000_007, 1_000_000_000_001, 1_000_000_000_000_000, 999_999_999_999_999_999, 1_000_000_000_000_000_000, 9_000_000_000_000_000_000}
	durs := []time.Duration{999, 1000, 1001, 10_000, 12_345_678, time.Second, 997 * time.Second, time.Hour, day, 30 * day, 365 * day, 1<<63 - 1, 0, -5}
	denoms := []string{"uatom", "ujkl", "uusdc"}
	nh := r.Scale(36, 420)
	for k := 2; k < 2+nh; k++ {
		h, err := c12NewHist(r, k)
		if err != nil {
			return err
		}
		steps := 8 + p.Intn(r.Scale(14, 30))
		handlerHeavy := p.Chance(1, 3)
		if k%4 == 3 {
			h.windows([]int64{11, 7, 30, 150}[(k/4)%4], 50)
		}
		for s := 0; s < steps; s++ {
			lv := h.live()
			wantCreate := len(lv) == 0 || (len(lv) < 6 && p.Chance(1, 3))
			if wantCreate {
				h.txBlock(time.Duration(p.I64n(7_000_000_000)))
				n := 1 + p.Intn(3)
				for i := 0; i < n; i++ {
					kind := p.Intn(10)
					if handlerHeavy {
						kind = p.Intn(4)
					}
					switch {
					case kind <= 1:
						days := PickOne(p, []int64{30, 30, 31, 365, 366, 720})
						gbs := PickOne(p, []int64{1, 1, 3, 1000, 5000, 20000})
						b := 1 + p.Intn(8)
						if h.buy(b, days, gbs) && p.Chance(1, 2) {
							h.buy(1+(b%8), days, gbs) // an equal purchase by someone else in the same block
						}
					case kind == 2:
						size := PickOne(p, []int64{1, 1_000_000, 5_000_000_000, 5_000_000_000_000})
						blocks := PickOne(p, []int64{14399, 14400, 14400 * 2, 14400*45 + 13})
						if h.postVia(1+p.Intn(8), size, 1+int64(p.Intn(3)), blocks, p.Chance(1, 4)) && p.Chance(1, 3) {
							h.postVia(PickOne(p, []int{1 + p.Intn(8), 10}), size, 1, blocks, p.Chance(1, 3)) // Acct(10) has no money
						}
					default:
						nd := 1 + p.Intn(3)
						if p.Chance(2, 3) {
							nd = 1
						}
						cs := sdk.NewCoins()
						for _, di := range c12Perm(p, 3)[:nd] {
							cs = cs.Add(sdk.NewCoin(denoms[di], sdk.NewInt(PickOne(p, amounts))))
						}
						var end time.Time
						d := PickOne(p, durs)
						if d == 1<<63-1 && p.Bool() {
							end = h.now.AddDate(300, 0, 0) // beyond what time.Duration can express
						} else {
							end = h.now.Add(d)
						}
						h.direct(cs, end)
						if p.Chance(1, 4) {
							h.direct(cs, end) // same id again
						}
					}
				}
				if p.Chance(1, 25) {
					if lv := h.live(); len(lv) > 0 {
						h.donate(PickOne(p, lv), sdk.NewInt64Coin(PickOne(p, denoms), 1+p.I64n(5000)))
					}
				}
				continue
			}
			t := h.nextTime(p)
			if p.Chance(1, 40) {
				t = h.maxT.Add(-time.Duration(p.I64n(int64(time.Hour)))) // block time going backwards: outside the quantifier
				r.Hist("ops", "reward-backwards")
			}
			h.reward(t)
		}
		// let every gauge run out
		for i := 0; i < 3; i++ {
			lv := h.live()
			if len(lv) == 0 {
				break
			}
			h.reward(h.nextTime(p))
		}
		r.Hist("gauges-per-history", fmt.Sprint(len(h.order)))
		h.e.Close()
	}
	AddDecCases(r, r.Scale(120, 1500))
	return nil
}
