package main

// C05 — no sequence of valid transactions can make block processing panic.
//
// Three families of cases:
//  (a) "synth": states written through the keepers' own setters on a cache context —
//      reachable-looking ones and deliberately unreachable ones (ProofInterval 0, sub-microsecond
//      gauges, drained or over-recorded escrows, extreme amounts) — then the REAL
//      StorageKeeper.RunRewardBlock under recover.  The model's reward_block must predict the
//      panic exactly and, when there is none, the surviving files' prover counts and the escrow
//      balances.  This is what exercises every Panic branch of the model against real Go panics.
//  (b) "mint": MintKeeper.BlockMint under recover for valid and pathological parameters / records.
//  (c) "chain": adversarial-but-valid transactions (every message passes ValidateBasic and goes
//      through the message router like in DeliverTx) followed by the WHOLE app.EndBlock / Commit /
//      app.BeginBlock of the assembled app under recover.  Monitor: any panic in begin/end block
//      is a violation of C05.  After every block the state begin-block reads is extracted and
//      must satisfy the invariant of the theorem (InvCase), and the real reward block on that
//      state is compared with the model as in (a).

import (
	"bytes"
	"crypto/sha256"
	"encoding/json"
	"fmt"
	"math/big"
	"strings"
	"time"

	sdk "github.com/cosmos/cosmos-sdk/types"
	abci "github.com/tendermint/tendermint/abci/types"
	tmproto "github.com/tendermint/tendermint/proto/tendermint/types"
	"github.com/wealdtech/go-merkletree/v2"
	"github.com/wealdtech/go-merkletree/v2/sha3"

	minttypes "github.com/jackalLabs/canine-chain/v4/x/jklmint/types"
	rnstypes "github.com/jackalLabs/canine-chain/v4/x/rns/types"
	storagetypes "github.com/jackalLabs/canine-chain/v4/x/storage/types"
)

func init() { runners["C05"] = runC05 }

func c05Ns(t time.Time) *big.Int {
	v := new(big.Int).Mul(big.NewInt(t.Unix()), big.NewInt(1_000_000_000))
	return v.Add(v, big.NewInt(int64(t.Nanosecond())))
}

// c05State renders the part of the state begin-block reads as the Coq record sstate.
func c05State(e *Env, ctx sdk.Context) (term string, nfiles, ngauges int, desc map[string]interface{}) {
	k := e.App.StorageKeeper
	params := k.GetParams(ctx)
	files := k.GetAllFileByMerkle(ctx)
	fts := []string{}
	fdesc := []interface{}{}
	for _, f := range files {
		slots := []string{}
		keyID := map[string]int{}
		for _, pk := range f.Proofs {
			if _, ok := keyID[pk]; !ok {
				keyID[pk] = len(keyID) + 1
			}
			pr, found := k.GetProofWithBuiltKey(ctx, []byte(pk))
			last := int64(0)
			if found {
				last = pr.LastProven
			}
			slots = append(slots, fmt.Sprintf("{| sl_key := %s; sl_found := %s; sl_last := %s |}", cN(uint64(keyID[pk])), cBool(found), cZ(last)))
		}
		fts = append(fts, fmt.Sprintf("{| bf_size := %s; bf_interval := %s; bf_start := %s; bf_slots := %s |}", cZ(f.FileSize), cZ(f.ProofInterval), cZ(f.Start), cList(slots)))
		fdesc = append(fdesc, map[string]interface{}{"size": f.FileSize, "interval": f.ProofInterval, "start": f.Start, "proofs": len(f.Proofs)})
	}
	gauges := k.GetAllPaymentGauges(ctx)
	gts := []string{}
	gdesc := []interface{}{}
	for _, g := range gauges {
		acct, err := storagetypes.GetGaugeAccount(g)
		bals := sdk.Coins{}
		if err == nil {
			bals = e.App.BankKeeper.GetAllBalances(ctx, acct)
		}
		other := false
		for _, b := range bals {
			if g.Coins.AmountOf(b.Denom).IsZero() && !b.Amount.IsZero() {
				other = true
			}
		}
		cs := []string{}
		for _, c := range g.Coins {
			cs = append(cs, fmt.Sprintf("{| gc_amt := %s; gc_bal := %s; gc_denom_ok := %s |}", cZbig(c.Amount.BigInt()), cZbig(bals.AmountOf(c.Denom).BigInt()), cBool(sdk.ValidateDenom(c.Denom) == nil)))
		}
		gts = append(gts, fmt.Sprintf("{| g_start := %s; g_end := %s; g_acct_ok := %s; g_other := %s; g_coins := %s |}", cZbig(c05Ns(g.Start)), cZbig(c05Ns(g.End)), cBool(err == nil), cBool(other), cList(cs)))
		gdesc = append(gdesc, map[string]interface{}{"start": g.Start, "end": g.End, "coins": g.Coins.String(), "escrow": bals.String()})
	}
	term = fmt.Sprintf("{| ss_check_window := %s; ss_files := %s; ss_gauges := %s |}", cZ(params.CheckWindow), cList(fts), cList(gts))
	desc = map[string]interface{}{"check_window": params.CheckWindow, "files": fdesc, "gauges": gdesc}
	return term, len(files), len(gauges), desc
}

// c05Post: prover counts of the surviving files and escrow balances of the surviving gauges.
func c05Post(e *Env, ctx sdk.Context) (pf, pg string) {
	k := e.App.StorageKeeper
	fl := []string{}
	for _, f := range k.GetAllFileByMerkle(ctx) {
		fl = append(fl, cZ(int64(len(f.Proofs))))
	}
	gl := []string{}
	for _, g := range k.GetAllPaymentGauges(ctx) {
		acct, err := storagetypes.GetGaugeAccount(g)
		bals := sdk.Coins{}
		if err == nil {
			bals = e.App.BankKeeper.GetAllBalances(ctx, acct)
		}
		cs := []string{}
		for _, c := range g.Coins {
			cs = append(cs, cZbig(bals.AmountOf(c.Denom).BigInt()))
		}
		gl = append(gl, cList(cs))
	}
	if len(gl) == 0 {
		return cList(fl), "(@nil (list Z))"
	}
	return cList(fl), cList(gl)
}

// c05RewardCase runs the real RunRewardBlock on a cache of ctx (nothing is written back) and emits the case.
func c05RewardCase(r *RunCtx, e *Env, ctx sdk.Context, group, origin string, reachable bool) (panicked string) {
	pre, nf, ng, desc := c05State(e, ctx)
	cctx, _ := ctx.CacheContext()
	panicked = Guard(func() { e.App.StorageKeeper.RunRewardBlock(cctx) })
	pf, pg := "[]", "(@nil (list Z))"
	if panicked == "" {
		pf, pg = c05Post(e, cctx)
	}
	term := fmt.Sprintf("RewardCase %s %s %s %s %s %s", cZ(ctx.BlockHeight()), cZbig(c05Ns(ctx.BlockTime())), pre, cBool(panicked != ""), pf, pg)
	desc["height"], desc["time"], desc["panic"], desc["origin"] = ctx.BlockHeight(), ctx.BlockTime(), panicked, origin
	r.Case(group, term, desc)
	r.Count(fmt.Sprintf("%s:%d:%d:%s:%d", origin, nf, ng, pre, ctx.BlockHeight()), nf+ng > 0)
	r.Hist("reward_block_outcome("+origin+")", map[bool]string{true: "panic", false: "completed"}[panicked != ""])
	if reachable && panicked != "" {
		r.Finding("C05/beginblock-panic/storage", "RunRewardBlock panicked on a state reached by valid transactions: "+panicked, desc)
	}
	return panicked
}

func c05OneChunkFile(data []byte) (root []byte, item []byte, proofJSON []byte) {
	h := sha256.New()
	h.Write([]byte(fmt.Sprintf("%d%x", 0, data)))
	leaf := h.Sum(nil)
	tree, err := merkletree.NewUsing([][]byte{leaf}, sha3.New512(), false)
	if err != nil {
		panic(err)
	}
	proof, err := tree.GenerateProof(leaf, 0)
	if err != nil {
		panic(err)
	}
	js, _ := json.Marshal(*proof)
	return tree.Root(), data, js
}

func runC05(r *RunCtx) error {
	r.Sum.Rule = "synth: keeper-written states (files with 0..3 prover slots at window boundaries, 0..3 gauges with exact / partially released / drained / over-recorded escrows, whole-day and pathological durations, ProofInterval 0) -> real RunRewardBlock under recover vs model; mint: BlockMint under recover for valid and extreme parameters; chain: valid adversarial transactions through the router, then the whole app EndBlock/Commit/BeginBlock under recover, invariant and reward block checked on every reached state. one evaluation = one begin-block execution; non-trivial = state with at least one file or gauge (distinct by rendered state)"
	imp := "From JK Require Import Base.Dec Model.Mint Model.BeginBlock Corr.C05."
	r.Group("synth", imp, "c05_case", "c05_ok")
	r.Group("mint", imp, "c05_case", "c05_ok")
	r.Group("chain", imp, "c05_case", "c05_ok")
	p := r.Rng

	// ------------------------------------------------------------------ (a) synthetic states
	e, err := NewEnv()
	if err != nil {
		return err
	}
	defer e.Close()
	nsyn := r.Scale(90, 1200)
	for i := 0; i < nsyn; i++ {
		ctx, _ := e.Ctx.CacheContext()
		e2 := *e
		e2.Ctx = ctx
		k := e.App.StorageKeeper
		params := k.GetParams(ctx)
		params.CheckWindow = PickOne(p, []int64{2, 3, 7, 50, 100})
		params.ProofWindow = PickOne(p, []int64{2, 5, 50})
		k.SetParams(ctx, params)
		h := params.CheckWindow * (1 + p.I64n(40))
		if p.Chance(1, 10) {
			h += 1 + p.I64n(params.CheckWindow-1) // not a reward block
		}
		now := T0.Add(time.Duration(p.I64n(400*86400)) * time.Second).Add(time.Duration(p.I64n(1_000_000_000)))
		ctx = ctx.WithBlockHeight(h).WithBlockTime(now)
		e2.Ctx = ctx
		patho := false
		// files
		nf := p.Intn(4)
		for j := 0; j < nf; j++ {
			interval := params.ProofWindow
			switch p.Intn(14) {
			case 0:
				interval = 0
				patho = true
			case 1:
				interval = -3
				patho = true
			}
			start := h - p.I64n(3*params.ProofWindow+4)
			if p.Chance(1, 8) {
				start = h - 1000 - p.I64n(1000)
			}
			owner := Acct(10 + j).String()
			f := storagetypes.UnifiedFile{Merkle: []byte{byte(i), byte(j), 7}, Owner: owner, Start: start, FileSize: PickOne(p, []int64{1, 1000, 1 << 40, 1<<62 + 5}), ProofInterval: interval, MaxProofs: 3, Note: "{}", Proofs: []string{}}
			ns := p.Intn(4)
			for s := 0; s < ns; s++ {
				prover := Spell(Acct(30+s), p.Chance(1, 6))
				f.Proofs = append(f.Proofs, f.MakeProofKey(prover))
				if p.Chance(1, 2) { // a provider record with whatever the unvalidated messages can put there
					k.SetProviders(ctx, storagetypes.Providers{Address: prover, Creator: prover, Ip: "https://p.example.com",
						Totalspace:      PickOne(p, []string{"1000000", "0", "-1", "-9223372036854775808", "9223372036854775807", "", "abc"}),
						BurnedContracts: PickOne(p, []string{"0", "7", "", "x", "9223372036854775807"})})
				}
				if p.Chance(1, 12) && len(f.Proofs) < 3 { // the same key twice (cannot arise from messages; must still be modelled faithfully)
					f.Proofs = append(f.Proofs, f.MakeProofKey(prover))
				}
				if !p.Chance(1, 6) { // the record exists
					var last int64
					switch p.Intn(5) {
					case 0:
						last = start
					case 1:
						last = h
					default:
						last = h - p.I64n(3*params.ProofWindow+3)
					}
					k.SetProof(ctx, storagetypes.FileProof{Prover: prover, Merkle: f.Merkle, Owner: owner, Start: start, LastProven: last})
				}
			}
			k.SetFile(ctx, f)
		}
		// gauges
		ng := p.Intn(4)
		for j := 0; j < ng; j++ {
			start := now.Add(-time.Duration(p.I64n(30*86400)) * time.Second)
			if p.Chance(1, 6) {
				start = now
			}
			var end time.Time
			switch p.Intn(12) {
			case 0:
				end = start.Add(500 * time.Nanosecond) // sub-microsecond: Quo by zero
				patho = true
			case 1:
				end = start
			case 2:
				end = start.Add(-time.Hour)
			case 3:
				end = now.Add(-time.Second) // already over
				if !end.After(start) {
					end = start.AddDate(0, 0, 1)
				}
			case 4:
				end = start.AddDate(300, 0, 0) // saturating Duration
			default:
				end = start.AddDate(0, 0, 1+p.Intn(400))
			}
			amt := PickOne(p, []int64{1, 999, 1_000_000, 35_999_999_999, 1 << 50, 1<<62 - 1})
			coins := sdk.NewCoins(sdk.NewInt64Coin("ujkl", amt))
			if p.Chance(1, 5) {
				coins = coins.Add(sdk.NewInt64Coin("uother", 1+p.I64n(1_000_000)))
			}
			id := sha256.Sum256([]byte(fmt.Sprintf("synth-%d-%d", i, j)))
			g := storagetypes.PaymentGauge{Id: id[:], Start: start, End: end, Coins: coins}
			k.SetPaymentGauge(ctx, g)
			acct, _ := storagetypes.GetGaugeAccount(g)
			for _, c := range coins {
				a := c.Amount.Int64()
				var fund int64
				switch p.Intn(10) {
				case 0:
					fund = 0
				case 1:
					fund = a / 2 // part already released (or drained: may be below the schedule)
					patho = true
				case 2:
					fund = a / 1000
					patho = true
				case 3:
					fund = a + 1 + p.I64n(1000) // donation
				default:
					fund = a
				}
				if fund > 0 {
					_ = e2.Fund(acct, c.Denom, fund)
				}
			}
			if p.Chance(1, 8) {
				_ = e2.Fund(acct, "udonated", 5)
			}
		}
		_ = patho
		c05RewardCase(r, &e2, ctx, "synth", "synth", false)
	}

	// ------------------------------------------------------------------ (b) mint
	nmint := r.Scale(60, 800)
	for i := 0; i < nmint; i++ {
		ctx, _ := e.Ctx.CacheContext()
		e2 := *e
		e2.Ctx = ctx
		params := minttypes.DefaultParams()
		valid := true
		params.TokensPerBlock = PickOne(p, []int64{0, 1, 5, 4_200_000, 1<<62 - 1})
		params.MintDecrease = PickOne(p, []int64{0, 6, c13Bpy, 2 * c13Bpy, 1<<62 - 1})
		rt := PickOne(p, [][3]int64{{80, 8, 12}, {0, 0, 0}, {100, 0, 0}, {33, 33, 33}, {1 << 40, 1, 1}, {10, 1 << 62, 0}, {1, 1, 1 << 61}, {101, 0, 0}})
		params.StakerRatio, params.DevGrantsRatio, params.StorageProviderRatio = rt[0], rt[1], rt[2]
		if rt[0]+rt[1]+rt[2] > 100 || rt[0] > 100 || rt[1] > 100 || rt[2] > 100 {
			valid = false
		}
		denom := PickOne(p, []string{"ujkl", "ujkl", "", "1bad", "x"})
		params.MintDenom = denom
		eff := denom
		if eff == "" {
			eff = "ujkl"
		}
		denomOK := sdk.ValidateDenom(eff) == nil
		if !denomOK {
			valid = false
		}
		stipParses, stipOK := true, true
		var stip sdk.AccAddress
		switch p.Intn(5) {
		case 0:
			params.StorageStipendAddress = "not-an-address"
			stipParses, stipOK = false, false
		case 1:
			stip = e.ModAddr("distribution")
			params.StorageStipendAddress = stip.String()
			stipOK = false
		default:
			stip, _ = sdk.AccAddressFromBech32(params.StorageStipendAddress)
			if stip != nil && e.App.BankKeeper.BlockedAddr(stip) {
				stipOK = false
			}
		}
		if Guard(func() { e.App.MintKeeper.SetParams(ctx, params) }) != "" {
			continue // rejected by the parameter validators: not a configuration
		}
		h := int64(10 + p.Intn(1000))
		ctx = ctx.WithBlockHeight(h)
		e2.Ctx = ctx
		last := "None"
		if p.Chance(1, 2) {
			v := PickOne(p, []int64{0, 1, 7, 4_199_999, 1<<62 - 1, -5, 1 << 62})
			if v < 0 || v >= 1<<62 {
				valid = false
			}
			e.App.MintKeeper.SetMintedBlock(ctx, minttypes.MintedBlock{Height: h - 1, Minted: v, Denom: "ujkl"})
			last = "(Some " + cZ(v) + ")"
		}
		bal := func(a sdk.AccAddress) int64 {
			if a == nil || !denomOK {
				return 0
			}
			return e.App.BankKeeper.GetBalance(ctx, a, eff).Amount.Int64()
		}
		dev, _ := sdk.AccAddressFromHex(fmt.Sprintf("%x", sha256.Sum256([]byte(minttypes.DevGrantsPool))))
		sup := int64(0)
		if denomOK {
			sup = e.App.BankKeeper.GetSupply(ctx, eff).Amount.Int64()
		}
		pterm := fmt.Sprintf("{| tokens_per_block := %s; mint_decrease := %s; staker_ratio := %s; dev_ratio := %s; prov_ratio := %s; stipend_ok := %s |}",
			cZ(params.TokensPerBlock), cZ(params.MintDecrease), cZ(rt[0]), cZ(rt[1]), cZ(rt[2]), cBool(stipOK))
		sterm := fmt.Sprintf("{| m_bank := [(1%%N, %s); (2%%N, %s); (3%%N, %s); (4%%N, %s)]; m_supply := %s; m_last := %s |}",
			cZ(bal(e.ModAddr("fee_collector"))), cZ(bal(dev)), cZ(bal(stip)), cZ(bal(e.ModAddr(minttypes.ModuleName))), cZ(sup), last)
		cctx, _ := ctx.CacheContext()
		pn := Guard(func() { e.App.MintKeeper.BlockMint(cctx) })
		desc := map[string]interface{}{"params": params, "last": last, "panic": pn, "inside_quantifier": valid}
		r.Case("mint", fmt.Sprintf("MintCase %s %s %s %s %s", cBool(denomOK), cBool(stipParses), pterm, sterm, cBool(pn != "")), desc)
		r.Count("mint:"+pterm+last+denom, true)
		r.Hist("blockmint_outcome", map[bool]string{true: "panic", false: "completed"}[pn != ""]+map[bool]string{true: " (valid configuration)", false: " (outside the quantifier)"}[valid])
		if valid && pn != "" {
			r.Finding("C05/beginblock-panic/jklmint", "BlockMint panicked under a valid configuration: "+pn, desc)
		}
	}

	// ------------------------------------------------------------------ (c0) a busy chain with a block gas limit
	if err := c05BusyChain(r); err != nil {
		return err
	}
	// ------------------------------------------------------------------ (c0') parameters: every reachable edge, and the store of the earlier release
	if err := c05ParamEdges(r); err != nil {
		return err
	}
	if err := c05PersistedParams(r); err != nil {
		return err
	}
	if err := c05Strikes(r); err != nil {
		return err
	}
	// ------------------------------------------------------------------ (c1) a few enormous (declared) files
	if err := c05HugeFiles(r); err != nil {
		return err
	}
	// ------------------------------------------------------------------ (c) whole-app chains
	nchain := r.Scale(5, 40)
	for c := 0; c < nchain; c++ {
		if err := c05Chain(r, c); err != nil {
			return err
		}
	}
	return nil
}

// c05NextBlock ends the current block and begins the next one through the ABCI interface of the
// assembled app, under recover.  Returns the panic text ("" = none) and where it happened.
func c05NextBlock(e *Env, dt time.Duration) (string, string) {
	if pn := Guard(func() { e.App.EndBlock(abci.RequestEndBlock{Height: e.Height}) }); pn != "" {
		return pn, "EndBlock"
	}
	if pn := Guard(func() { e.App.Commit() }); pn != "" {
		return pn, "Commit"
	}
	e.Height++
	e.Time = e.Time.Add(dt)
	hdr := tmproto.Header{Height: e.Height, Time: e.Time, ChainID: "verif"}
	if pn := Guard(func() { e.App.BeginBlock(abci.RequestBeginBlock{Header: hdr}) }); pn != "" {
		return pn, "BeginBlock"
	}
	e.Ctx = e.App.BaseApp.NewContext(false, hdr)
	return "", ""
}

func c05Chain(r *RunCtx, c int) error {
	p := r.Rng
	e, err := NewEnv()
	if err != nil {
		return err
	}
	defer e.Close()
	sp := StorageParams(e)
	sp.CheckWindow = PickOne(p, []int64{2, 2, 3, 5, 7})
	sp.ProofWindow = PickOne(p, []int64{2, 3, 4})
	if c%3 == 1 { // the usual relation: proofs are due more often than rewards are settled
		sp.CheckWindow, sp.ProofWindow = 5, PickOne(p, []int64{2, 3})
	}
	GovSetStorageParams(e, sp)
	users := []sdk.AccAddress{Acct(1), Acct(2), Acct(3)}
	for _, u := range users {
		_ = e.Fund(u, "ujkl", 4_000_000_000_000_000)
	}
	ext := []int64{1, 2, 1000, 1 << 31, 1 << 40, 1 << 62, 1<<63 - 1, 0, -1, -(1 << 62)}
	type posted struct {
		root  []byte
		owner string
		start int64
		item  []byte
		proof []byte
	}
	var files []posted
	trace := []interface{}{}
	nblocks := r.Scale(14, 40)
	for b := 0; b < nblocks; b++ {
		// directed: one ordinary replicated file per chain, and one account that keeps proving it under the
		// upper-case spelling of its address (the same account must never occupy two prover slots)
		if b == 0 {
			data := []byte(fmt.Sprintf("kept-file-%d", c))
			root, item, pj := c05OneChunkFile(data)
			exp := e.Height + 14400*40
			res := e.Run(&storagetypes.MsgPostFile{Creator: users[0].String(), Merkle: root, FileSize: int64(len(data)), MaxProofs: 3, Expires: exp, Note: "{}",
				ProofInterval: PickOne(p, []int64{0, sp.ProofWindow + 1, sp.CheckWindow - 1, sp.CheckWindow + 1, 1 << 62, -3})})
			r.Hist("chain_msgs", "storage.MsgPostFile(directed):"+res.Out)
			// a provider that registers, proves, leaves, comes back and proves again, and then goes silent
			res = e.Run(&storagetypes.MsgInitProvider{Creator: users[2].String(), Ip: "https://leaver.example.com", TotalSpace: 1 << 40})
			r.Hist("chain_msgs", "storage.MsgInitProvider(directed):"+res.Out)
			files = append(files, posted{root, users[0].String(), e.Height, item, pj})
			// a file whose root is two bytes long (validation admits any length), without provers: removed by the first
			// reward block after its first window
			res = e.Run(&storagetypes.MsgPostFile{Creator: users[1].String(), Merkle: []byte{byte(c), 7}, FileSize: 10, MaxProofs: 3, Expires: e.Height + 14400*3, Note: "{}"})
			r.Hist("chain_msgs", "storage.MsgPostFile(directed, two-byte root):"+res.Out)
			// a second small file with an extreme (but valid) replication count; one account proves it once and then goes
			// silent, so a later reward block has to remove it
			data2 := []byte(fmt.Sprintf("wide-file-%d", c))
			root2, item2, pj2 := c05OneChunkFile(data2)
			res = e.Run(&storagetypes.MsgPostFile{Creator: users[0].String(), Merkle: root2, FileSize: int64(len(data2)), MaxProofs: 1 << 45, Expires: e.Height + 14400*2, Note: "{}"})
			r.Hist("chain_msgs", "storage.MsgPostFile(directed, MaxProofs 2^45):"+res.Out)
			if res.Out == OutOk {
				res = e.Run(&storagetypes.MsgPostProof{Creator: users[2].String(), Item: item2, HashList: pj2, Merkle: root2, Owner: users[0].String(), Start: e.Height, ToProve: 0})
				r.Hist("chain_msgs", "storage.MsgPostProof(directed, once):"+res.Out)
			}
			// a third file asking for a proof interval between the two windows (where they leave room), proved once
			data3 := []byte(fmt.Sprintf("slow-file-%d", c))
			root3, item3, pj3 := c05OneChunkFile(data3)
			iv := sp.ProofWindow + 1
			if c%2 == 0 {
				iv = sp.CheckWindow - 1
			}
			res = e.Run(&storagetypes.MsgPostFile{Creator: users[0].String(), Merkle: root3, FileSize: int64(len(data3)), MaxProofs: 3, Expires: exp, Note: "{}", ProofInterval: iv})
			r.Hist("chain_msgs", "storage.MsgPostFile(directed, interval between the windows):"+res.Out)
			if res.Out == OutOk {
				res = e.Run(&storagetypes.MsgPostProof{Creator: users[1].String(), Item: item3, HashList: pj3, Merkle: root3, Owner: users[0].String(), Start: e.Height, ToProve: 0})
				r.Hist("chain_msgs", "storage.MsgPostProof(directed, slow file):"+res.Out)
			}
		} else if b <= 5 || p.Chance(2, 3) {
			f := files[0]
			whos := []string{Spell(users[1], true)}
			switch {
			case b <= 2 || b == 4:
				whos = append(whos, users[2].String())
			case b == 3:
				res := e.Run(&storagetypes.MsgShutdownProvider{Creator: users[2].String()})
				r.Hist("chain_msgs", "storage.MsgShutdownProvider(directed):"+res.Out)
				res = e.Run(&storagetypes.MsgInitProvider{Creator: users[2].String(), Ip: "https://leaver.example.com", TotalSpace: 1 << 40})
				r.Hist("chain_msgs", "storage.MsgInitProvider(directed, again):"+res.Out)
			}
			for _, who := range whos {
				res := e.Run(&storagetypes.MsgPostProof{Creator: who, Item: f.item, HashList: f.proof, Merkle: f.root, Owner: f.owner, Start: f.start, ToProve: 0})
				r.Hist("chain_msgs", "storage.MsgPostProof(directed):"+res.Out)
				trace = append(trace, map[string]interface{}{"block": e.Height, "msg": "storage.MsgPostProof", "creator": who, "file": 0, "out": res.Out})
			}
		}
		nm := 1 + p.Intn(5)
		for m := 0; m < nm; m++ {
			u := PickOne(p, users)
			us := Spell(u, p.Chance(1, 5)) // bech32 also accepts the all-upper-case spelling
			var msg sdk.Msg
			kind := p.Intn(12)
			switch kind {
			case 0, 1: // plan-less / pay-once posts with extreme sizes, replication and expiries
				data := []byte(fmt.Sprintf("file-%d-%d-%d", c, b, m))
				root, item, pj := c05OneChunkFile(data)
				size := int64(len(data))
				if p.Chance(1, 2) {
					size = PickOne(p, ext)
				}
				exp := int64(0)
				switch p.Intn(4) {
				case 0:
					exp = e.Height + 14400*(1+p.I64n(400)) + p.I64n(14400)
				case 1:
					exp = PickOne(p, ext)
				}
				if p.Chance(1, 3) {
					// stateless validation puts no bound on the length of the root: a client may send any bytes. Nobody can
					// prove such a file, so a reward block removes it once it is past its first window
					root = PickOne(p, [][]byte{{}, {0x7f}, {1, 2}, {1, 2, 3}, root[:5], root[:31], append(append([]byte{}, root...), 9), bytes.Repeat([]byte{0xab}, 200)})
				}
				pm := &storagetypes.MsgPostFile{Creator: us, Merkle: root, FileSize: size, ProofType: PickOne(p, []int64{0, 0, 0, 1, -1, 1 << 40}), MaxProofs: PickOne(p, []int64{1, 3, 1 << 40, 0, -1, 1 << 62}), Expires: exp, Note: "{}", ProofInterval: PickOne(p, []int64{0, 1, 3, 4, 6, 75, -1, 1 << 62})}
				msg = pm
				files = append(files, posted{root, us, e.Height, item, pj})
			case 2: // plans with extreme sizes and durations
				msg = &storagetypes.MsgBuyStorage{Creator: us, ForAddress: PickOne(p, users).String(), DurationDays: PickOne(p, []int64{30, 30, 31, 365, 1, 0, -1, 1 << 40, 1<<63 - 1}), Bytes: PickOne(p, []int64{1_000_000_000, 3_000_000_000, 5_000_000_000_000, 1, 0, -1, 1 << 62, 1<<63 - 1}), PaymentDenom: "ujkl", Referral: ""}
			case 3, 4: // proofs: honest for one-chunk files, garbage otherwise
				if len(files) == 0 {
					continue
				}
				f := PickOne(p, files)
				pm := &storagetypes.MsgPostProof{Creator: us, Item: f.item, HashList: f.proof, Merkle: f.root, Owner: f.owner, Start: f.start, ToProve: 0}
				if p.Chance(1, 4) {
					pm.HashList = []byte("{}")
					pm.ToProve = PickOne(p, ext)
				}
				msg = pm
			case 5:
				msg = &storagetypes.MsgInitProvider{Creator: us, Ip: "https://node.example.com", Keybase: "", TotalSpace: PickOne(p, ext)}
			case 9:
				msg = &storagetypes.MsgSetProviderTotalSpace{Creator: us, Space: PickOne(p, ext)}
			case 10:
				msg = &storagetypes.MsgSetProviderIP{Creator: us, Ip: PickOne(p, []string{"https://a.b.c", "http://localhost:3333", "x"})}
			case 11:
				msg = &storagetypes.MsgSetProviderKeybase{Creator: us, Keybase: PickOne(p, []string{"", "kb", strings.Repeat("k", 300)})}
			case 6:
				if len(files) == 0 {
					continue
				}
				f := PickOne(p, files)
				msg = &storagetypes.MsgDeleteFile{Creator: f.owner, Merkle: f.root, Start: f.start}
			case 7:
				msg = &rnstypes.MsgRegister{Creator: u.String(), Name: fmt.Sprintf("n%d%d.jkl", c, p.Intn(5)), Years: PickOne(p, ext), Data: "{}"}
			case 8:
				msg = &rnstypes.MsgBid{Creator: u.String(), Name: fmt.Sprintf("n%d%d.jkl", c, p.Intn(5)), Bid: sdk.NewInt64Coin("ujkl", PickOne(p, []int64{1, 1000, 1 << 50}))}
			}
			if msg == nil {
				continue
			}
			res := e.Run(msg)
			name := strings.TrimPrefix(sdk.MsgTypeURL(msg), "/canine_chain.")
			r.Hist("chain_msgs", name+":"+res.Out)
			trace = append(trace, map[string]interface{}{"block": e.Height, "msg": name, "body": msg, "out": res.Out})
			// anyone may also send tokens to an escrow address
			if p.Chance(1, 10) {
				gs := e.App.StorageKeeper.GetAllPaymentGauges(e.Ctx)
				if len(gs) > 0 {
					if acct, err := storagetypes.GetGaugeAccount(PickOne(p, gs)); err == nil {
						_ = e.App.BankKeeper.SendCoins(e.Ctx, u, acct, sdk.NewCoins(sdk.NewInt64Coin("ujkl", 1+p.I64n(1000))))
						r.Hist("chain_msgs", "bank.Send(to escrow):ok")
					}
				}
			}
		}
		dt := time.Duration(PickOne(p, []int64{0, 1, 6_000_000_000, 5_999_999_999, 86400_000_000_000, 40 * 86400_000_000_000}))
		pn, where := c05NextBlock(e, dt)
		r.Count(fmt.Sprintf("chain:%d:%d", c, b), true)
		r.Hist("whole_app_block", map[bool]string{true: "panic in " + where, false: "completed"}[pn != ""])
		if pn != "" {
			r.Finding("C05/beginblock-panic/"+where, "the assembled app panicked in "+where+" after valid transactions: "+pn, map[string]interface{}{"trace": trace, "height": e.Height})
			return nil
		}
		// the state reached must satisfy the theorem's invariant, and the model must agree with the real
		// reward block at the next reward height
		st, nf, ng, desc := c05State(e, e.Ctx)
		spNow := StorageParams(e)
		inv := fmt.Sprintf("InvCase {| b_s := %s; b_proof_window := %s; b_height := %s; b_now := %s |}", st, cZ(spNow.ProofWindow), cZ(e.Height), cZbig(c05Ns(e.Time)))
		desc["trace_len"] = len(trace)
		r.Case("chain", inv, desc)
		if nf+ng > 0 && p.Chance(1, 2) {
			hh := (e.Height/spNow.CheckWindow + 1) * spNow.CheckWindow
			ctx2 := e.Ctx.WithBlockHeight(hh).WithBlockTime(e.Time.Add(time.Duration(p.I64n(int64(3 * 86400 * time.Second)))))
			c05RewardCase(r, e, ctx2, "chain", "chain", true)
		}
		if c == 0 && b == 3 {
			r.Sample(map[string]interface{}{"trace": trace, "state": desc})
		}
	}
	return nil
}

// c05BusyChain: a chain whose consensus parameters limit the gas of a block (as every public chain does), with a few
// hundred stored files, and two accounts that buy the identical plan some reward blocks apart.  Block processing
// must complete whatever the reward walk costs and whatever the gauges of equal purchases look like.
func c05BusyChain(r *RunCtx) error {
	e, err := NewEnv()
	if err != nil {
		return err
	}
	defer e.Close()
	cp := e.App.GetConsensusParams(e.Ctx)
	cp.Block.MaxGas = 1_000_000
	e.App.StoreConsensusParams(e.Ctx, cp)
	sp := StorageParams(e)
	sp.CheckWindow, sp.ProofWindow = 4, 3
	GovSetStorageParams(e, sp)
	users := []sdk.AccAddress{Acct(1), Acct(2), Acct(3)}
	for _, u := range users {
		_ = e.Fund(u, "ujkl", 4_000_000_000_000_000)
	}
	trace := []interface{}{}
	step := func(what string, msg sdk.Msg) {
		res := e.Run(msg)
		r.Hist("chain_msgs", what+":"+res.Out)
		trace = append(trace, map[string]interface{}{"block": e.Height, "msg": what, "out": res.Out})
	}
	plan := func(u sdk.AccAddress) sdk.Msg {
		return &storagetypes.MsgBuyStorage{Creator: u.String(), ForAddress: u.String(), DurationDays: 30, Bytes: 5_000_000_000_000, PaymentDenom: "ujkl"}
	}
	nfiles := r.Scale(320, 1500)
	for b := 0; b < 14; b++ {
		switch b {
		case 0:
			step("storage.MsgBuyStorage(A)", plan(users[0]))
		case 1, 2:
			for i := 0; i < nfiles/2; i++ {
				data := []byte(fmt.Sprintf("busy-%d-%d", b, i))
				root, _, _ := c05OneChunkFile(data)
				res := e.Run(&storagetypes.MsgPostFile{Creator: users[0].String(), Merkle: root, FileSize: int64(len(data)), MaxProofs: 3, Note: "{}"})
				r.Hist("chain_msgs", "storage.MsgPostFile(busy):"+res.Out)
			}
			trace = append(trace, map[string]interface{}{"block": e.Height, "msg": fmt.Sprintf("%d x storage.MsgPostFile by A", nfiles/2)})
		case 9:
			step("storage.MsgBuyStorage(B, the same plan as A, some reward blocks later)", plan(users[1]))
		}
		pn, where := c05NextBlock(e, 10*time.Minute) // (whole tokens have been streamed between the two purchases)
		r.Count(fmt.Sprintf("busy:%d", b), true)
		r.Hist("whole_app_block", map[bool]string{true: "panic in " + where, false: "completed"}[pn != ""])
		if pn != "" {
			r.Finding("C05/beginblock-panic/"+where, fmt.Sprintf("the assembled app (block gas limit %d, %d stored files) panicked in %s after valid transactions: %s", cp.Block.MaxGas, nfiles, where, pn), map[string]interface{}{"trace": trace, "height": e.Height})
			return nil
		}
	}
	return nil
}

// c05HugeFiles: every file passes stateless validation (FileSize x MaxProofs fits int64), but nothing bounds the sum
// over files: the sizes a reward block adds up wrap around int64 — to a negative number, or past 2^64 to a small
// positive one while single provers are credited with enormous sizes.  Block processing must complete all the same.
func c05HugeFiles(r *RunCtx) error {
	type hf struct {
		size   int64
		prover int
	}
	variants := [][]hf{
		{{1 << 62, 1}, {1 << 62, 2}},                         // sum 2^63: wraps negative
		{{1<<63 - 1, 1}, {1<<62 + 2, 1}, {1 << 62, 2}},       // sum 2^64 + 1: wraps to 1
		{{1 << 62, 1}, {1 << 62, 2}, {1 << 62, 1}, {1 << 62, 2}, {5, 2}}, // sum 2^64 + 5
		{{1<<63 - 1, 1}, {1<<63 - 1, 2}},                     // sum 2^64 - 2: wraps to -2
	}
	for vi, files := range variants {
		e, err := NewEnv()
		if err != nil {
			return err
		}
		sp := StorageParams(e)
		sp.CheckWindow, sp.ProofWindow = 4, 3
		GovSetStorageParams(e, sp)
		owner := Acct(1)
		provers := map[int]sdk.AccAddress{1: Acct(2), 2: Acct(3)}
		_ = e.Fund(owner, "ujkl", 9_000_000_000_000_000_000)
		trace := []interface{}{}
		for fi, f := range files {
			data := []byte(fmt.Sprintf("huge-%d-%d", vi, fi))
			root, item, pj := c05OneChunkFile(data)
			res := e.Run(&storagetypes.MsgPostFile{Creator: owner.String(), Merkle: root, FileSize: f.size, MaxProofs: 1, Expires: e.Height + 14400*2, Note: "{}"})
			r.Hist("chain_msgs", "storage.MsgPostFile(declared enormous):"+res.Out)
			trace = append(trace, map[string]interface{}{"block": e.Height, "msg": "MsgPostFile", "file_size": f.size, "max_proofs": 1, "out": res.Out, "err": res.Err})
			if res.Out != OutOk {
				continue
			}
			res = e.Run(&storagetypes.MsgPostProof{Creator: provers[f.prover].String(), Item: item, HashList: pj, Merkle: root, Owner: owner.String(), Start: e.Height, ToProve: 0})
			r.Hist("chain_msgs", "storage.MsgPostProof(declared enormous):"+res.Out)
			trace = append(trace, map[string]interface{}{"block": e.Height, "msg": "MsgPostProof", "prover": f.prover, "out": res.Out, "err": res.Err})
		}
		for b := 0; b < 9; b++ {
			pn, where := c05NextBlock(e, 10*time.Minute)
			r.Count(fmt.Sprintf("huge:%d:%d", vi, b), true)
			r.Hist("whole_app_block", map[bool]string{true: "panic in " + where, false: "completed"}[pn != ""])
			if pn != "" {
				r.Finding("C05/beginblock-panic/"+where, fmt.Sprintf("the assembled app panicked in %s after valid transactions (stored sizes adding up beyond int64): %s", where, pn), map[string]interface{}{"trace": trace, "height": e.Height})
				break
			}
		}
		e.Close()
	}
	return nil
}
