package main

// C12, upgrade twin: payment gauges are also opened by the chain's own upgrade code (app/upgrades/v4
// ProvisionGauges: the deposit account's balance becomes a one-year gauge and a long-tail gauge).  Those gauges are
// payment gauges like any other: after the real handler code has run, reward blocks at irregular times must have
// released from each of them exactly the elapsed fraction (whole microseconds, computed here with unbounded
// integers) of what was deposited, rounded down within one base unit.  Monitors only.

import (
	"fmt"
	"math/big"
	"time"

	sdk "github.com/cosmos/cosmos-sdk/types"
	v4 "github.com/jackalLabs/canine-chain/v4/app/upgrades/v4"
	storagetypes "github.com/jackalLabs/canine-chain/v4/x/storage/types"
)

func c12UpgradeTwin(r *RunCtx) error {
	for _, total := range []int64{9_000_000_000_000, 1_000_003, 77} {
		e, err := NewEnv()
		if err != nil {
			return err
		}
		mm, cfg, _ := c13AppInternals(e)
		p := StorageParams(e)
		dep := Acct(88)
		p.DepositAccount = dep.String()
		GovSetStorageParams(e, p)
		_ = e.Fund(dep, "ujkl", total)
		up := v4.NewUpgrade(mm, cfg, &e.App.StorageKeeper, &e.App.FileTreeKeeper, e.App.BankKeeper)
		t0 := T0.Add(time.Hour)
		e.At(1000, t0)
		trace := []interface{}{map[string]interface{}{"op": "v4.ProvisionGauges", "deposit_account_balance": total, "time": t0.Format(time.RFC3339Nano)}}
		var perr error
		if pn := Guard(func() { perr = up.ProvisionGauges(e.Ctx) }); pn != "" || perr != nil {
			r.Finding("C12/upgrade/provision-failed", fmt.Sprintf("ProvisionGauges failed: %s %v", pn, perr), map[string]interface{}{"trace": trace})
			e.Close()
			continue
		}
		type tracked struct {
			g       storagetypes.PaymentGauge
			acct    sdk.AccAddress
			deposit *big.Int
		}
		var gs []tracked
		for _, g := range e.App.StorageKeeper.GetAllPaymentGauges(e.Ctx) {
			acct, err := storagetypes.GetGaugeAccount(g)
			if err != nil {
				continue
			}
			gs = append(gs, tracked{g, acct, e.App.BankKeeper.GetBalance(e.Ctx, acct, "ujkl").Amount.BigInt()})
		}
		r.Hist("upgrade-twin", fmt.Sprintf("gauges opened by ProvisionGauges: %d", len(gs)))
		h := int64(1000)
		for _, dt := range []time.Duration{10 * time.Minute, 25 * time.Hour, 400 * 24 * time.Hour, 3 * 365 * 24 * time.Hour} {
			h = (h/100 + 1) * 100
			now := t0.Add(dt)
			e.At(h, now)
			pn := Guard(func() { e.App.StorageKeeper.RunRewardBlock(e.Ctx) })
			trace = append(trace, map[string]interface{}{"op": "RunRewardBlock", "height": h, "time": now.Format(time.RFC3339Nano), "panic": pn})
			if pn != "" {
				r.Finding("C12/reward/panic", "RunRewardBlock panicked on the gauges opened by the upgrade: "+pn, map[string]interface{}{"trace": trace})
				break
			}
			for _, tg := range gs {
				us := func(a, b time.Time) *big.Int { // whole microseconds between two instants, without time.Duration
					return new(big.Int).Sub(big.NewInt(0).Add(new(big.Int).Mul(big.NewInt(b.Unix()), big.NewInt(1_000_000)), big.NewInt(int64(b.Nanosecond()/1000))),
						new(big.Int).Add(new(big.Int).Mul(big.NewInt(a.Unix()), big.NewInt(1_000_000)), big.NewInt(int64(a.Nanosecond()/1000))))
				}
				totalUs, elapsed := us(tg.g.Start, tg.g.End), us(tg.g.Start, now)
				if totalUs.Sign() <= 0 || elapsed.Cmp(totalUs) > 0 {
					continue // a reward block past the end releases nothing more (the property's last clause); judged inside the interval only
				}
				want := new(big.Int).Div(new(big.Int).Mul(tg.deposit, elapsed), totalUs)
				left := e.App.BankKeeper.GetBalance(e.Ctx, tg.acct, "ujkl").Amount.BigInt()
				released := new(big.Int).Sub(tg.deposit, left)
				diff := new(big.Int).Sub(released, want)
				r.Count(fmt.Sprintf("upgrade-twin:%d:%s:%s", total, tg.deposit, dt), released.Sign() > 0)
				if diff.CmpAbs(big.NewInt(1)) > 0 {
					r.Finding("C12/reward/not-pro-rata", fmt.Sprintf("a gauge opened by the v4 upgrade (deposit %s, %s .. %s) has released %s after %s; the elapsed fraction gives %s", tg.deposit, tg.g.Start.Format(time.RFC3339), tg.g.End.Format(time.RFC3339), released, dt, want),
						map[string]interface{}{"trace": trace})
				}
			}
		}
		e.Close()
	}
	return nil
}
