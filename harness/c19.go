package main

// C19 — exporting and re-importing genesis preserves every custom module's state.
// Dynamic twin of the translator table Gen/GenesisKinds.v: histories on the real app populate
// every record kind of the six custom modules (real messages where cheap, exported keeper
// setters otherwise); then per module ExportGenesis -> JSON -> Validate -> InitGenesis on a
// fresh app, and the raw KV contents of the module store (and its parameter subspace) before
// and after are compared.  A lost / changed / added record is attributed to its record kind by
// store prefix.  One correspondence case per (module, prefix, kind) observed says whether the
// records of that kind survived; Corr/C19.v compares it with the table's prediction.

import (
	"bytes"
	"encoding/json"
	"fmt"
	"os"
	"path/filepath"
	"sort"
	"strings"
	"time"

	"github.com/cosmos/cosmos-sdk/store/rootmulti"
	storetypes "github.com/cosmos/cosmos-sdk/store/types"
	sdk "github.com/cosmos/cosmos-sdk/types"

	"github.com/jackalLabs/canine-chain/v4/x/filetree"
	filetreetypes "github.com/jackalLabs/canine-chain/v4/x/filetree/types"
	"github.com/jackalLabs/canine-chain/v4/x/jklmint"
	minttypes "github.com/jackalLabs/canine-chain/v4/x/jklmint/types"
	"github.com/jackalLabs/canine-chain/v4/x/notifications"
	notiftypes "github.com/jackalLabs/canine-chain/v4/x/notifications/types"
	"github.com/jackalLabs/canine-chain/v4/x/oracle"
	oracletypes "github.com/jackalLabs/canine-chain/v4/x/oracle/types"
	"github.com/jackalLabs/canine-chain/v4/x/rns"
	rnstypes "github.com/jackalLabs/canine-chain/v4/x/rns/types"
	"github.com/jackalLabs/canine-chain/v4/x/storage"
	storagetypes "github.com/jackalLabs/canine-chain/v4/x/storage/types"
)

func init() { runners["C19"] = runC19 }

// ---------------------------------------------------------------- operations (replayable)

type c19Op struct {
	Op string `json:"op"`
	A  int    `json:"a,omitempty"` // account index
	B  int    `json:"b,omitempty"` // second account index / selector
	N  int64  `json:"n,omitempty"`
	S  string `json:"s,omitempty"`
}

type c19History struct {
	Name string  `json:"name,omitempty"`
	What string  `json:"what,omitempty"`
	Ops  []c19Op `json:"ops"`
}

const c19Accounts = 6

func c19Merkle(n int64) []byte {
	b := make([]byte, 32)
	for i := range b {
		b[i] = byte(n*31 + int64(i)*7 + 1)
	}
	return b
}

// c19Apply executes one operation on the real app; the outcome class is returned for the histograms.
func c19Apply(e *Env, o c19Op) string {
	a, b := Acct(o.A), Acct(o.B)
	sk, rk := e.App.StorageKeeper, e.App.RnsKeeper
	run := func(m sdk.Msg) string { return e.Run(m).Out }
	direct := func(f func()) string {
		if p := Guard(f); p != "" {
			return OutPanic
		}
		return OutOk
	}
	files := func() []storagetypes.UnifiedFile { return sk.GetAllFileByMerkle(e.Ctx) }
	switch o.Op {
	case "fund":
		if err := e.Fund(a, "ujkl", o.N); err != nil {
			return OutFail
		}
		return OutOk
	case "height":
		e.At(e.Height+o.N, e.Time.Add(time.Duration(o.N)*6*time.Second))
		return OutOk
	// ---- storage
	case "storage.InitProvider":
		kb := fmt.Sprintf("kb-of-%d", o.A) // records differ from one another, and some leave the optional fields empty
		if o.A%2 == 0 {
			kb = ""
		}
		// addresses as operators type them: with a port, a path, one or several closing slashes, capitals
		ip := fmt.Sprintf("https://p%d.example.com", o.A) + []string{"", "", ":3333", "/", "//", ":3333///", "/api/", "/API//v1"}[o.A%8]
		return run(&storagetypes.MsgInitProvider{Creator: a.String(), Ip: ip, Keybase: kb, TotalSpace: 1_000_000_000_000 + o.N})
	case "storage.AddClaimer":
		return run(&storagetypes.MsgAddClaimer{Creator: a.String(), ClaimAddress: b.String()})
	case "rns.Transfer":
		return run(&rnstypes.MsgTransfer{Creator: a.String(), Name: o.S + ".jkl", Receiver: b.String()})
	case "storage.BuyStorage":
		return run(&storagetypes.MsgBuyStorage{Creator: a.String(), ForAddress: a.String(), DurationDays: 30 + o.N%60, Bytes: 1_000_000_000 * (1 + o.N%5), PaymentDenom: "ujkl"})
	case "storage.PostFile":
		exp := int64(0)
		if o.B == 1 {
			exp = e.Height + 14400*(30+o.N%30)
		}
		// B == 2: a pay-once post signed with the upper-case spelling of the address (the owner string is kept as typed)
		cr := a.String()
		if o.B == 2 {
			cr = strings.ToUpper(cr)
			exp = e.Height + 14400*(30+o.N%30)
		}
		return run(&storagetypes.MsgPostFile{Creator: cr, Merkle: c19Merkle(o.N), FileSize: 1000 + o.N%5000, ProofType: 0, MaxProofs: 3, Expires: exp, Note: `{"n":"` + fmt.Sprint(o.N) + `"}`})
	case "storage.DeleteFile":
		fs := files()
		if len(fs) == 0 {
			return OutFail
		}
		f := fs[int(o.N)%len(fs)]
		return run(&storagetypes.MsgDeleteFile{Creator: f.Owner, Merkle: f.Merkle, Start: f.Start})
	case "storage.AddProver": // what a verified PostProof does for a new prover
		fs := files()
		if len(fs) == 0 {
			return OutFail
		}
		f := fs[int(o.N)%len(fs)]
		return direct(func() { f.AddProver(e.Ctx, sk, b.String()) })
	case "storage.SetAttest":
		fs := files()
		if len(fs) == 0 {
			return OutFail
		}
		f := fs[int(o.N)%len(fs)]
		att := []*storagetypes.Attestation{{Provider: Acct(1).String(), Complete: o.N%2 == 0}, {Provider: Acct(2).String(), Complete: false}}
		return direct(func() {
			sk.SetAttestationForm(e.Ctx, storagetypes.AttestationForm{Attestations: att, Prover: b.String(), Merkle: f.Merkle, Owner: f.Owner, Start: f.Start})
		})
	case "storage.SetReport":
		fs := files()
		if len(fs) == 0 {
			return OutFail
		}
		f := fs[int(o.N)%len(fs)]
		att := []*storagetypes.Attestation{{Provider: Acct(3).String(), Complete: o.N%2 == 1}}
		return direct(func() {
			sk.SetReportForm(e.Ctx, storagetypes.ReportForm{Attestations: att, Prover: b.String(), Merkle: f.Merkle, Owner: f.Owner, Start: f.Start})
		})
	case "storage.SetActiveProvider": // only InitGenesis writes these: the state of a chain that was itself started from an export
		return direct(func() { sk.SetActiveProviders(e.Ctx, storagetypes.ActiveProviders{Address: b.String()}) })
	case "storage.Params":
		return direct(func() {
			p := sk.GetParams(e.Ctx)
			p.MissesToBurn = 3 + o.N%5
			p.AttestFormSize = 5 + o.N%3
			sk.SetParams(e.Ctx, p)
		})
	// ---- rns
	case "rns.Init":
		return run(&rnstypes.MsgInit{Creator: a.String()})
	case "rns.Register":
		return run(&rnstypes.MsgRegister{Creator: a.String(), Name: o.S + ".jkl", Years: 1 + o.N%3, Data: `{"k":"v"}`})
	case "rns.AddRecord":
		return run(&rnstypes.MsgAddRecord{Creator: a.String(), Name: o.S + ".jkl", Value: b.String(), Data: `{}`, Record: c19RecordLabel(o.N)})
	case "rns.List":
		return run(&rnstypes.MsgList{Creator: a.String(), Name: o.S + ".jkl", Price: sdk.NewInt64Coin("ujkl", 1000+o.N)})
	case "rns.Bid":
		return run(&rnstypes.MsgBid{Creator: a.String(), Name: o.S + ".jkl", Bid: sdk.NewInt64Coin("ujkl", 100+o.N)})
	case "rns.MakePrimary":
		return run(&rnstypes.MsgMakePrimary{Creator: a.String(), Name: o.S + ".jkl"})
	case "rns.Delist":
		return run(&rnstypes.MsgDelist{Creator: a.String(), Name: o.S + ".jkl"})
	case "rns.CancelBid":
		return run(&rnstypes.MsgCancelBid{Creator: a.String(), Name: o.S + ".jkl"})
	case "rns.SetWhois":
		return direct(func() {
			rk.SetWhois(e.Ctx, rnstypes.Whois{Index: fmt.Sprintf("w%d", o.N), Name: fmt.Sprintf("n%d", o.N), Value: a.String(), Data: "{}"})
		})
	case "rns.Params":
		return direct(func() { rk.SetParams(e.Ctx, rnstypes.Params{DepositAccount: b.String()}) })
	// ---- filetree
	case "filetree.PostKey":
		return run(&filetreetypes.MsgPostKey{Creator: a.String(), Key: fmt.Sprintf("key-%d-%d", o.A, o.N)})
	case "filetree.MakeRoot":
		return run(&filetreetypes.MsgProvisionFileTree{Creator: a.String(), Editors: "{}", Viewers: "{}", TrackingNumber: fmt.Sprintf("t%d", o.N)})
	case "filetree.SetFiles":
		return direct(func() {
			e.App.FileTreeKeeper.SetFiles(e.Ctx, filetreetypes.Files{Address: filetreetypes.MerklePath(fmt.Sprintf("s/home/f%d", o.N)), Contents: fmt.Sprintf("c%d", o.N),
				Owner: filetreetypes.MakeOwnerAddress(filetreetypes.MerklePath(fmt.Sprintf("s/home/f%d", o.N)), a.String()), ViewingAccess: `{"a":"b"}`, EditAccess: "{}", TrackingNumber: fmt.Sprintf("tn%d", o.N)})
		})
	// ---- notifications
	case "notifications.Create":
		return run(&notiftypes.MsgCreateNotification{Creator: a.String(), To: b.String(), Contents: fmt.Sprintf(`{"m":%d}`, o.N), PrivateContents: []byte{byte(o.N), 7}})
	case "notifications.Delete": // the owner of an inbox deletes its N-th notification
		all := e.App.NotificationsKeeper.GetAllNotificationsByAddress(e.Ctx, a.String())
		if len(all) == 0 {
			return OutFail
		}
		n := all[int(o.N)%len(all)]
		return run(&notiftypes.MsgDeleteNotification{Creator: a.String(), From: n.From, Time: n.Time})
	case "notifications.Block":
		return run(&notiftypes.MsgBlockSenders{Creator: a.String(), ToBlock: []string{b.String()}})
	// ---- oracle
	case "oracle.CreateFeed":
		return run(&oracletypes.MsgCreateFeed{Creator: a.String(), Name: o.S})
	case "oracle.UpdateFeed":
		return run(&oracletypes.MsgUpdateFeed{Creator: a.String(), Name: o.S, Data: fmt.Sprintf(`{"price":"%d"}`, o.N)})
	case "oracle.Params":
		return direct(func() { e.App.OracleKeeper.SetParams(e.Ctx, oracletypes.Params{Deposit: b.String()}) })
	// ---- jklmint
	case "jklmint.BlockMint":
		return direct(func() { e.App.MintKeeper.BlockMint(e.Ctx) })
	case "jklmint.Params":
		return direct(func() {
			p := e.App.MintKeeper.GetParams(e.Ctx)
			p.TokensPerBlock = 4_000_000 + o.N%1000
			p.MintDecrease = 6 + o.N%3
			e.App.MintKeeper.SetParams(e.Ctx, p)
		})
	// parameter values at the edge of what each parameter's validator admits (what a governance change can store):
	// written through the subspace one key at a time, exactly as a ParameterChangeProposal does
	case "params.Edge":
		// one key at a time through the parameter subspace, validated by the key's own validator: exactly what the
		// x/params proposal handler does with a passed ParameterChangeProposal (Keeper.SetParams is not involved)
		pk := c15ParamsKeeper(e)
		set := func(space, key, jsonValue string) string {
			ss, ok := pk.GetSubspace(space)
			if !ok {
				return OutFail
			}
			var err error
			if pn := Guard(func() { err = ss.Update(e.Ctx, []byte(key), []byte(jsonValue)) }); pn != "" {
				return OutPanic
			}
			if err != nil {
				return OutFail
			}
			return OutOk
		}
		q := func(v int64) string { return fmt.Sprintf("%q", fmt.Sprint(v)) }
		outs := []string{
			set("jklmint", "MintDenom", fmt.Sprintf("%q", []string{"", "stake", "ujkl", " "}[o.N%4])),
			set("jklmint", "DevGrants", q(8-o.N%3)), set("jklmint", "StakerRatio", q(80+o.N%3)),
			set("storage", "ProofWindow", q(1+o.N%7)), set("storage", "CheckWindow", q(1+o.N%5)), set("storage", "ChunkSize", q(1+o.N%4096)),
			set("storage", "POLRatio", q([]int64{0, 40, 80, 99, 100}[o.N%5])), set("storage", "Referrals", q([]int64{25, 0, 50, 100}[o.N%4])),
		}
		for _, x := range outs {
			if x == OutOk {
				return OutOk
			}
		}
		return OutFail
	}
	return "unknown-op"
}

// ---------------------------------------------------------------- module table of the harness (independent of the translator)

type c19Kind struct {
	Prefix string
	Name   string
	Match  func(rest []byte) bool // discriminates kinds sharing a prefix (nil = all keys)
}

type c19Module struct {
	Name, StoreKey, ParamSpace string
	Kinds                      []c19Kind
	// RoundTrip: export from src, JSON round trip, validate, InitGenesis into dst
	Export func(e *Env) []byte
	Import func(e *Env, js []byte) (verr error)
}

func c19Modules() []c19Module {
	nslash := func(n int) func([]byte) bool {
		return func(rest []byte) bool { return bytes.Count(rest, []byte("/")) == n }
	}
	return []c19Module{
		{Name: "storage", StoreKey: storagetypes.StoreKey, ParamSpace: storagetypes.ModuleName,
			Kinds: []c19Kind{{"FilesByMerkle/value/", "UnifiedFile", nil}, {"FilesByOwner/value/", "UnifiedFile", nil}, {"FileProof/value/", "FileProof", nil},
				{"Providers/value/", "Providers", nil}, {"ActiveProviders/value/", "ActiveProviders", nil}, {"Collateral/value/", "Collateral", nil},
				{"Attestation/value/", "AttestationForm", nil}, {"Report/value/", "ReportForm", nil}, {"StoragePaymentInfo/value/", "StoragePaymentInfo", nil},
				{"PaymentGauge/value/", "PaymentGauge", nil}},
			Export: func(e *Env) []byte {
				return e.App.AppCodec().MustMarshalJSON(storage.ExportGenesis(e.Ctx, e.App.StorageKeeper))
			},
			Import: func(e *Env, js []byte) error {
				var gs storagetypes.GenesisState
				e.App.AppCodec().MustUnmarshalJSON(js, &gs)
				if err := gs.Validate(); err != nil {
					return err
				}
				storage.InitGenesis(e.Ctx, e.App.StorageKeeper, gs)
				return nil
			}},
		{Name: "rns", StoreKey: rnstypes.StoreKey, ParamSpace: rnstypes.ModuleName,
			Kinds: []c19Kind{{"Names/value/", "Names", nil}, {"PrimaryName/value/", "PrimaryName", nil}, {"Whois/value/", "Whois", nil}, {"Bids/value/", "Bids", nil},
				{"Forsale/value/", "Forsale", nil}, {"Init/value/", "Init", nil}},
			Export: func(e *Env) []byte {
				return e.App.AppCodec().MustMarshalJSON(rns.ExportGenesis(e.Ctx, e.App.RnsKeeper))
			},
			Import: func(e *Env, js []byte) error {
				var gs rnstypes.GenesisState
				e.App.AppCodec().MustUnmarshalJSON(js, &gs)
				if err := gs.Validate(); err != nil {
					return err
				}
				rns.InitGenesis(e.Ctx, e.App.RnsKeeper, gs)
				return nil
			}},
		{Name: "filetree", StoreKey: filetreetypes.StoreKey, ParamSpace: filetreetypes.ModuleName,
			Kinds: []c19Kind{{"Files/value/", "Files", nil}, {"Pubkey/value/", "Pubkey", nil}},
			Export: func(e *Env) []byte {
				return e.App.AppCodec().MustMarshalJSON(filetree.ExportGenesis(e.Ctx, e.App.FileTreeKeeper))
			},
			Import: func(e *Env, js []byte) error {
				var gs filetreetypes.GenesisState
				e.App.AppCodec().MustUnmarshalJSON(js, &gs)
				if err := gs.Validate(); err != nil {
					return err
				}
				filetree.InitGenesis(e.Ctx, e.App.FileTreeKeeper, gs)
				return nil
			}},
		{Name: "notifications", StoreKey: notiftypes.StoreKey, ParamSpace: notiftypes.ModuleName,
			Kinds: []c19Kind{{"Notification/", "Notification", nslash(2)}, {"Notification/", "Block", nslash(1)}},
			Export: func(e *Env) []byte {
				return e.App.AppCodec().MustMarshalJSON(notifications.ExportGenesis(e.Ctx, e.App.NotificationsKeeper))
			},
			Import: func(e *Env, js []byte) error {
				var gs notiftypes.GenesisState
				e.App.AppCodec().MustUnmarshalJSON(js, &gs)
				if err := gs.Validate(); err != nil {
					return err
				}
				notifications.InitGenesis(e.Ctx, e.App.NotificationsKeeper, gs)
				return nil
			}},
		{Name: "oracle", StoreKey: oracletypes.StoreKey, ParamSpace: oracletypes.ModuleName,
			Kinds: []c19Kind{{"Feed/value/", "Feed", nil}},
			Export: func(e *Env) []byte {
				return e.App.AppCodec().MustMarshalJSON(oracle.ExportGenesis(e.Ctx, e.App.OracleKeeper))
			},
			Import: func(e *Env, js []byte) error {
				var gs oracletypes.GenesisState
				e.App.AppCodec().MustUnmarshalJSON(js, &gs)
				if err := gs.Validate(); err != nil {
					return err
				}
				oracle.InitGenesis(e.Ctx, e.App.OracleKeeper, gs)
				return nil
			}},
		{Name: "jklmint", StoreKey: minttypes.StoreKey, ParamSpace: minttypes.ModuleName,
			Kinds: []c19Kind{{"last_block_minted", "MintedBlock", nil}},
			Export: func(e *Env) []byte {
				return e.App.AppCodec().MustMarshalJSON(jklmint.ExportGenesis(e.Ctx, e.App.MintKeeper))
			},
			Import: func(e *Env, js []byte) error {
				var gs minttypes.GenesisState
				e.App.AppCodec().MustUnmarshalJSON(js, &gs)
				if err := gs.Validate(); err != nil {
					return err
				}
				jklmint.InitGenesis(e.Ctx, e.App.MintKeeper, gs)
				return nil
			}},
	}
}

// ---------------------------------------------------------------- raw store dumps

func c19StoreKey(e *Env, name string) storetypes.StoreKey {
	rs, ok := e.App.CommitMultiStore().(*rootmulti.Store)
	if !ok {
		return nil
	}
	for k := range rs.GetStores() {
		if k.Name() == name {
			return k
		}
	}
	return nil
}

type c19KV struct{ K, V []byte }

func c19Dump(e *Env, storeName string, prefix []byte) ([]c19KV, error) {
	key := c19StoreKey(e, storeName)
	if key == nil {
		return nil, fmt.Errorf("store key %q not found", storeName)
	}
	it := sdk.KVStorePrefixIterator(e.Ctx.KVStore(key), prefix)
	defer it.Close()
	var out []c19KV
	for ; it.Valid(); it.Next() {
		out = append(out, c19KV{append([]byte{}, it.Key()...), append([]byte{}, it.Value()...)})
	}
	return out, nil
}

func mustDump(e *Env, store string) []c19KV {
	kvs, _ := c19Dump(e, store, nil)
	return kvs
}

// classify attributes a raw key of a module store to (prefix, kind name).
func (m *c19Module) classify(key []byte) (string, string) {
	for _, k := range m.Kinds {
		if bytes.HasPrefix(key, []byte(k.Prefix)) && (k.Match == nil || k.Match(key[len(k.Prefix):])) {
			return k.Prefix, k.Name
		}
	}
	s := string(key)
	if i := strings.Index(s, "/value/"); i >= 0 {
		return s[:i+len("/value/")], s[:i]
	}
	if i := strings.Index(s, "/"); i >= 0 {
		return s[:i+1], s[:i]
	}
	return s, s
}

type c19KindObs struct {
	Module, Prefix, Kind       string
	Before, Lost, Changed, Add int
	Params                     bool // the parameter subspace (may hold no key at all: filetree, notifications)
}

func c19Quote(s string) string { return "\"" + strings.ReplaceAll(s, "\"", "\"\"") + "\"%string" }

// ---------------------------------------------------------------- one history: populate, round trip, compare

type c19Result struct {
	Obs      map[string]*c19KindObs // by module|prefix|kind
	Outcomes map[string]int
	Findings []Finding
}

func (res *c19Result) has(sig string) *Finding {
	for i := range res.Findings {
		if res.Findings[i].Signature == sig {
			return &res.Findings[i]
		}
	}
	return nil
}

// c19Shrink removes operations one at a time (last to first) as long as the finding persists.
func c19Shrink(r *RunCtx, h c19History, sig string) (c19History, *Finding) {
	var best *Finding
	cur := h
	for i := len(cur.Ops) - 1; i >= 0; i-- {
		cand := c19History{Ops: append(append([]c19Op{}, cur.Ops[:i]...), cur.Ops[i+1:]...)}
		res, err := c19RunHistory(r, cand, false)
		if err != nil {
			continue
		}
		if f := res.has(sig); f != nil {
			cur, best = cand, f
		}
	}
	return cur, best
}

// c19NewEnv: a chain started from the default genesis; a panic while starting it (InitChain, first
// begin-block) is reported, not propagated.
func c19NewEnv() (e *Env, err error) {
	if p := Guard(func() { e, err = NewEnv() }); p != "" {
		return nil, c19StartPanic(p)
	}
	return e, err
}

type c19StartPanic string

func (p c19StartPanic) Error() string {
	return "the chain does not start from its genesis: " + string(p)
}

func c19RunHistory(r *RunCtx, h c19History, record bool) (*c19Result, error) {
	src, err := c19NewEnv()
	if err != nil {
		return nil, err
	}
	defer func() { src.Close() }()
	for i := 1; i <= c19Accounts; i++ {
		if err := src.Fund(Acct(i), "ujkl", 1_000_000_000_000_000); err != nil {
			return nil, err
		}
	}
	res := &c19Result{Obs: map[string]*c19KindObs{}, Outcomes: map[string]int{}}
	for _, o := range h.Ops {
		if o.Op == "restart" { // the chain is exported and a new chain is started from that genesis (custom modules only; accounts are funded again)
			nxt, err := c19NewEnv()
			if err != nil {
				return nil, err
			}
			nxt.At(src.Height, src.Time)
			out := OutOk
			for _, m := range c19Modules() {
				m := m
				for _, kv := range mustDump(nxt, m.StoreKey) {
					nxt.Ctx.KVStore(c19StoreKey(nxt, m.StoreKey)).Delete(kv.K)
				}
				if p := Guard(func() {
					if err := m.Import(nxt, m.Export(src)); err != nil {
						out = OutFail
					}
				}); p != "" {
					out = OutPanic
				}
			}
			for i := 1; i <= c19Accounts; i++ {
				_ = nxt.Fund(Acct(i), "ujkl", 1_000_000_000_000_000)
			}
			src.Close()
			src = nxt
			res.Outcomes["restart:"+out]++
			if record {
				r.Hist("ops", "restart:"+out)
			}
			continue
		}
		out := c19Apply(src, o)
		if out == "unknown-op" {
			return nil, fmt.Errorf("unknown operation %q", o.Op)
		}
		if record {
			r.Hist("ops", o.Op+":"+out)
		}
		res.Outcomes[o.Op+":"+out]++
	}
	dst, err := c19NewEnv()
	if err != nil {
		return nil, err
	}
	defer dst.Close()
	dst.At(src.Height, src.Time)
	mods := c19Modules()
	for mi := range mods {
		m := &mods[mi]
		finding := func(sig, what string, extra map[string]interface{}) {
			rep := map[string]interface{}{"history": h, "module": m.Name}
			for k, v := range extra {
				rep[k] = v
			}
			res.Findings = append(res.Findings, Finding{sig, what, rep})
		}
		before, err := c19Dump(src, m.StoreKey, nil)
		if err != nil {
			return nil, err
		}
		pbefore, err := c19Dump(src, "params", []byte(m.ParamSpace+"/"))
		if err != nil {
			return nil, err
		}
		// the fresh app has run the begin-block of block 2 (NewEnv), which mints: InitGenesis of a new chain
		// runs on an empty module store, so whatever that block wrote is removed first
		fresh, _ := c19Dump(dst, m.StoreKey, nil)
		for _, kv := range fresh {
			dst.Ctx.KVStore(c19StoreKey(dst, m.StoreKey)).Delete(kv.K)
		}
		if len(fresh) > 1 {
			return nil, fmt.Errorf("module %s: the fresh app's store holds %d keys", m.Name, len(fresh))
		}
		var js1 []byte
		if p := Guard(func() { js1 = m.Export(src) }); p != "" {
			finding("C19/export-panics/"+m.Name, "ExportGenesis panics on a reachable state: "+p, nil)
			continue
		}
		var verr error
		if p := Guard(func() { verr = m.Import(dst, js1) }); p != "" {
			finding("C19/import-panics/"+m.Name, "InitGenesis panics on the module's own export: "+p, map[string]interface{}{"genesis": json.RawMessage(js1)})
			continue
		}
		if verr != nil {
			finding("C19/export-invalid/"+m.Name, "the module's own export does not pass Validate(): "+verr.Error(), map[string]interface{}{"genesis": json.RawMessage(js1)})
			continue
		}
		after, err := c19Dump(dst, m.StoreKey, nil)
		if err != nil {
			return nil, err
		}
		pafter, _ := c19Dump(dst, "params", []byte(m.ParamSpace+"/"))
		amap := map[string][]byte{}
		for _, kv := range after {
			amap[string(kv.K)] = kv.V
		}
		obs := func(prefix, kind string) *c19KindObs {
			id := m.Name + "|" + prefix + "|" + kind
			if res.Obs[id] == nil {
				res.Obs[id] = &c19KindObs{Module: m.Name, Prefix: prefix, Kind: kind}
			}
			return res.Obs[id]
		}
		seenSig := map[string]bool{}
		lostProof := false
		for _, kv := range before {
			prefix, kind := m.classify(kv.K)
			ob := obs(prefix, kind)
			ob.Before++
			v, ok := amap[string(kv.K)]
			switch {
			case !ok:
				ob.Lost++
				if kind == "FileProof" {
					lostProof = true
				}
				sig := "C19/genesis-omits/" + m.Name + "." + kind
				if !seenSig[sig] {
					seenSig[sig] = true
					finding(sig, fmt.Sprintf("%s records under %q are lost by export + import", kind, prefix), map[string]interface{}{"lost_key": string(kv.K), "prefix": prefix})
				}
			case !bytes.Equal(v, kv.V):
				ob.Changed++
				sig := "C19/genesis-changes/" + m.Name + "." + kind
				if !seenSig[sig] {
					seenSig[sig] = true
					finding(sig, fmt.Sprintf("a %s record under %q comes back with a different value", kind, prefix), map[string]interface{}{"key": string(kv.K), "before": fmt.Sprintf("%x", kv.V), "after": fmt.Sprintf("%x", v)})
				}
			}
			delete(amap, string(kv.K))
		}
		for k := range amap { // records the restored chain has although the source did not
			prefix, kind := m.classify([]byte(k))
			if m.Name == "storage" && kind == "ActiveProviders" {
				continue // derived list (providers holding a proof), written on import: allowed
			}
			obs(prefix, kind).Add++
			sig := "C19/genesis-adds/" + m.Name + "." + kind
			if !seenSig[sig] {
				seenSig[sig] = true
				finding(sig, fmt.Sprintf("import creates a %s record under %q that the exporting chain did not have", kind, prefix), map[string]interface{}{"key": k})
			}
		}
		// parameters (x/params subspace of the module)
		pob := obs("(params)", "Params")
		pob.Params = true
		pmap := map[string][]byte{}
		for _, kv := range pafter {
			pmap[string(kv.K)] = kv.V
		}
		for _, kv := range pbefore {
			pob.Before++
			if v, ok := pmap[string(kv.K)]; !ok || !bytes.Equal(v, kv.V) {
				pob.Changed++
				sig := "C19/genesis-changes/" + m.Name + ".Params"
				if !seenSig[sig] {
					seenSig[sig] = true
					finding(sig, "a module parameter comes back with a different value", map[string]interface{}{"key": string(kv.K), "before": string(kv.V), "after": string(v)})
				}
			}
		}
		// second export
		var js2 []byte
		if p := Guard(func() { js2 = m.Export(dst) }); p != "" {
			finding("C19/export-panics/"+m.Name, "ExportGenesis panics on the restored chain: "+p, nil)
			continue
		}
		if !bytes.Equal(js1, js2) {
			var g1, g2 map[string]json.RawMessage
			_ = json.Unmarshal(js1, &g1)
			_ = json.Unmarshal(js2, &g2)
			var fields []string
			for f := range g1 {
				if !bytes.Equal(g1[f], g2[f]) {
					fields = append(fields, f)
				}
			}
			for f := range g2 {
				if _, ok := g1[f]; !ok {
					fields = append(fields, f)
				}
			}
			sort.Strings(fields)
			for _, f := range fields {
				if m.Name == "storage" && f == "active_providers_list" && lostProof {
					// consequence of the lost proof records: the derived list of active providers shrinks
					if !seenSig["C19/genesis-omits/storage.FileProof"] {
						finding("C19/genesis-omits/storage.FileProof", "second export differs: active providers disappear with the lost proofs", nil)
					}
					continue
				}
				sig := "C19/reexport-differs/" + m.Name + "." + f
				if !seenSig[sig] {
					seenSig[sig] = true
					finding(sig, "exporting the restored chain again gives a different "+f, map[string]interface{}{"first": g1[f], "second": g2[f]})
				}
			}
		}
	}
	// second import, under the clock a restarted chain really has: InitChain runs InitGenesis at the genesis time of
	// the genesis file, which an export leaves where it was -- in the past of every record the chain wrote since
	for _, cond := range []struct {
		name  string
		later int64
		clock time.Time
	}{{"an hour before the chain's first block", 0, T0.Add(-time.Hour)}, {"six million blocks later, after every registration of the history has lapsed", 6_000_000, T0.Add(-time.Hour)}} {
		early, err := c19NewEnv()
		if err != nil {
			return nil, err
		}
		if cond.later > 0 {
			src.At(src.Height+cond.later, src.Time.Add(time.Duration(cond.later)*6*time.Second))
		}
		early.At(src.Height+1, cond.clock)
		for mi := range mods {
			m := &mods[mi]
			before, _ := c19Dump(src, m.StoreKey, nil)
			for _, kv := range mustDump(early, m.StoreKey) {
				early.Ctx.KVStore(c19StoreKey(early, m.StoreKey)).Delete(kv.K)
			}
			var verr error
			if p := Guard(func() { verr = m.Import(early, m.Export(src)) }); p != "" || verr != nil {
				continue // already reported by the first import
			}
			amap := map[string][]byte{}
			for _, kv := range mustDump(early, m.StoreKey) {
				amap[string(kv.K)] = kv.V
			}
			for _, kv := range before {
				v, ok := amap[string(kv.K)]
				if !ok || bytes.Equal(v, kv.V) {
					continue
				}
				prefix, kind := m.classify(kv.K)
				sig := "C19/genesis-changes/" + m.Name + "." + kind
				if res.has(sig) == nil {
					res.Findings = append(res.Findings, Finding{sig, fmt.Sprintf("a %s record under %q comes back with a different value when the genesis is imported at a genesis time before the record was written", kind, prefix),
						map[string]interface{}{"history": h, "module": m.Name, "key": string(kv.K), "before": fmt.Sprintf("%x", kv.V), "after": fmt.Sprintf("%x", v), "imported_at": cond.name}})
				}
			}
			// what the first import (same height, same clock as the export) brought back and this one does not
			for _, kv := range mustDump(dst, m.StoreKey) {
				if _, ok := amap[string(kv.K)]; ok {
					continue
				}
				prefix, kind := m.classify(kv.K)
				sig := "C19/genesis-drops/" + m.Name + "." + kind
				if res.has(sig) == nil {
					res.Findings = append(res.Findings, Finding{sig, fmt.Sprintf("a %s record under %q is imported when the genesis is read back at once, and dropped when the new chain starts at a later initial height under its genesis time", kind, prefix),
						map[string]interface{}{"history": h, "module": m.Name, "key": string(kv.K), "imported_at": cond.name, "initial_height": src.Height + 1}})
				}
			}
		}
		early.Close()
	}
	return res, nil
}

// ---------------------------------------------------------------- generator

func c19Name(i int) string {
	return []string{"alpha", "bravo1", "charlie", "delta9", "echoes", "foxtrot"}[i%6]
}

// c19CrowdHistory: a busy chain — more than one page (100) of every record kind a message can create, so that an
// export that lists through a paginated query, or in batches, shows what it drops.
func c19CrowdHistory() c19History {
	const n = 104
	var ops []c19Op
	add := func(o c19Op) { ops = append(ops, o) }
	add(c19Op{Op: "rns.Params", B: 2})
	add(c19Op{Op: "oracle.Params", B: 2})
	add(c19Op{Op: "storage.BuyStorage", A: 4, N: 4})
	for i := 0; i < n; i++ {
		add(c19Op{Op: "filetree.PostKey", A: 100 + i, N: int64(i)})
		add(c19Op{Op: "filetree.MakeRoot", A: 100 + i, N: int64(i)})
		add(c19Op{Op: "filetree.SetFiles", A: 1, N: int64(1000 + i)})
		add(c19Op{Op: "rns.Bid", A: 1, N: int64(i), S: fmt.Sprintf("crowdbid%03d", i)})
		add(c19Op{Op: "rns.Register", A: 2, N: int64(i), S: fmt.Sprintf("crowdname%03d", i)})
		add(c19Op{Op: "rns.List", A: 2, N: int64(i), S: fmt.Sprintf("crowdname%03d", i)})
		add(c19Op{Op: "rns.SetWhois", A: 3, N: int64(i)})
		add(c19Op{Op: "notifications.Create", A: 200 + i, B: 2, N: int64(i)})
		add(c19Op{Op: "notifications.Block", A: 300 + i, B: 1})
		add(c19Op{Op: "oracle.CreateFeed", A: 1, S: fmt.Sprintf("crowdfeed%03d", i)})
		add(c19Op{Op: "storage.PostFile", A: 4, N: int64(i)})
		add(c19Op{Op: "fund", A: 400 + i, N: 20_000_000_000})
		add(c19Op{Op: "storage.InitProvider", A: 400 + i, N: int64(i)})
		add(c19Op{Op: "rns.Init", A: 500 + i})
		add(c19Op{Op: "height", N: 1})
	}
	add(c19Op{Op: "jklmint.BlockMint"})
	return c19History{Name: "crowd", What: "more than 100 records of every kind", Ops: ops}
}

func c19RandomHistory(p *PRNG, k int) c19History {
	acct := func() int { return 1 + p.Intn(c19Accounts) }
	var ops []c19Op
	add := func(o c19Op) { ops = append(ops, o) }
	// a spine that populates every record kind at least once ...
	add(c19Op{Op: "storage.Params", N: p.I64n(100)})
	add(c19Op{Op: "rns.Params", B: acct()})
	add(c19Op{Op: "oracle.Params", B: acct()})
	add(c19Op{Op: "jklmint.Params", N: p.I64n(1000)})
	if k%2 == 1 {
		add(c19Op{Op: "params.Edge", N: int64(k/2) + 4*p.I64n(50)})
	}
	for _, a := range []int{1, 2, 3} {
		add(c19Op{Op: "storage.InitProvider", A: a, N: p.I64n(1000)})
	}
	add(c19Op{Op: "storage.AddClaimer", A: 1, B: 5}) // the first provider in key order carries a claimer and a keybase identity, the next ones do not
	add(c19Op{Op: "storage.BuyStorage", A: 4, N: p.I64n(100)})
	add(c19Op{Op: "storage.PostFile", A: 4, N: 1 + p.I64n(50)})
	add(c19Op{Op: "storage.PostFile", A: 5, B: 1, N: 60 + p.I64n(50)})
	add(c19Op{Op: "storage.PostFile", A: 5, B: 2, N: 120 + p.I64n(50)})
	add(c19Op{Op: "storage.AddProver", B: 1, N: p.I64n(4)})
	add(c19Op{Op: "storage.SetAttest", B: 1, N: p.I64n(4)})
	add(c19Op{Op: "storage.SetReport", B: 2, N: p.I64n(4)})
	add(c19Op{Op: "storage.SetActiveProvider", B: 1})
	add(c19Op{Op: "storage.SetActiveProvider", B: 3}) // a provider without any proof
	add(c19Op{Op: "rns.Init", A: 1})
	add(c19Op{Op: "rns.Register", A: 2, S: c19Name(k), N: p.I64n(3)})
	add(c19Op{Op: "rns.AddRecord", A: 2, B: 3, S: c19Name(k), N: p.I64n(4)})
	// the same label, as typed with an upper-case letter, twice: the handler compares the label as typed with the
	// stored lower-cased ones, so both succeed and the name holds two records under one label
	add(c19Op{Op: "rns.AddRecord", A: 2, B: 3, S: c19Name(k), N: 5})
	add(c19Op{Op: "rns.AddRecord", A: 2, B: 1, S: c19Name(k), N: 5})
	add(c19Op{Op: "rns.List", A: 2, S: c19Name(k), N: p.I64n(1000)})
	add(c19Op{Op: "rns.Bid", A: 3, S: c19Name(k), N: p.I64n(1000)})
	add(c19Op{Op: "rns.MakePrimary", A: 2, S: c19Name(k)})
	// a second name that is listed and then given away: the listing record stays (and must survive a restart as it is)
	add(c19Op{Op: "rns.Register", A: 2, S: c19Name(k + 7), N: p.I64n(3)})
	add(c19Op{Op: "rns.List", A: 2, S: c19Name(k + 7), N: p.I64n(1000)})
	add(c19Op{Op: "rns.Transfer", A: 2, B: 4, S: c19Name(k + 7)})
	add(c19Op{Op: "rns.SetWhois", A: 1, N: p.I64n(10)})
	add(c19Op{Op: "filetree.PostKey", A: 1, N: p.I64n(100)})
	add(c19Op{Op: "filetree.MakeRoot", A: 1, N: p.I64n(100)})
	add(c19Op{Op: "filetree.SetFiles", A: 2, N: p.I64n(100)})
	add(c19Op{Op: "notifications.Create", A: 1, B: 2, N: p.I64n(100)})
	add(c19Op{Op: "notifications.Block", A: 2, B: 3})
	if k%5 != 2 { // (every fifth history: the oracle has its deposit parameter set and no feed yet)
		add(c19Op{Op: "oracle.CreateFeed", A: 1, S: "jklprice"})
		add(c19Op{Op: "oracle.UpdateFeed", A: 1, S: "jklprice", N: p.I64n(1000)})
	}
	// the same content posted again by the same owner some blocks later: two files that differ in their start only
	add(c19Op{Op: "storage.PostFile", A: 4, N: 77})
	add(c19Op{Op: "height", N: 3})
	add(c19Op{Op: "storage.PostFile", A: 4, N: 77})
	add(c19Op{Op: "jklmint.BlockMint"})
	add(c19Op{Op: "height", N: 1})
	add(c19Op{Op: "jklmint.BlockMint"})
	// ... followed by a random tail
	n := 10 + p.Intn(40)
	names := []string{c19Name(k), c19Name(k + 1), c19Name(k + 2)}
	for i := 0; i < n; i++ {
		switch p.Intn(31) {
		case 26:
			add(c19Op{Op: "restart"})
		case 27:
			add(c19Op{Op: "storage.DeleteFile", N: p.I64n(8)})
		case 28:
			add(c19Op{Op: "rns.Delist", A: acct(), S: PickOne(p, names)})
		case 29:
			add(c19Op{Op: "rns.CancelBid", A: acct(), S: PickOne(p, names)})
		case 30:
			add(c19Op{Op: "notifications.Delete", A: acct(), N: p.I64n(4)})
		case 0:
			add(c19Op{Op: "storage.InitProvider", A: acct(), N: p.I64n(1000)})
		case 1:
			add(c19Op{Op: "storage.BuyStorage", A: acct(), N: p.I64n(100)})
		case 2, 3:
			add(c19Op{Op: "storage.PostFile", A: acct(), B: p.Intn(3), N: 1 + p.I64n(200)})
		case 4, 5:
			add(c19Op{Op: "storage.AddProver", B: 1 + p.Intn(3), N: p.I64n(8)})
		case 6:
			add(c19Op{Op: "storage.SetAttest", B: 1 + p.Intn(3), N: p.I64n(8)})
		case 7:
			add(c19Op{Op: "storage.SetReport", B: 1 + p.Intn(3), N: p.I64n(8)})
		case 8:
			add(c19Op{Op: "storage.SetActiveProvider", B: acct()})
		case 9:
			add(c19Op{Op: "rns.Init", A: acct()})
		case 10, 11:
			add(c19Op{Op: "rns.Register", A: acct(), S: PickOne(p, names), N: p.I64n(3)})
		case 12:
			add(c19Op{Op: "rns.AddRecord", A: acct(), B: acct(), S: PickOne(p, names), N: p.I64n(8)})
		case 13:
			add(c19Op{Op: "rns.List", A: acct(), S: PickOne(p, names), N: p.I64n(1000)})
		case 14:
			add(c19Op{Op: "rns.Bid", A: acct(), S: PickOne(p, names), N: p.I64n(1000)})
		case 15:
			add(c19Op{Op: "rns.MakePrimary", A: acct(), S: PickOne(p, names)})
		case 16:
			add(c19Op{Op: "rns.SetWhois", A: acct(), N: p.I64n(10)})
		case 17:
			add(c19Op{Op: "filetree.PostKey", A: acct(), N: p.I64n(100)})
		case 18:
			add(c19Op{Op: "filetree.SetFiles", A: acct(), N: p.I64n(100)})
		case 19:
			add(c19Op{Op: "filetree.MakeRoot", A: acct(), N: p.I64n(100)})
		case 20, 21:
			add(c19Op{Op: "notifications.Create", A: acct(), B: acct(), N: p.I64n(100)})
		case 22:
			add(c19Op{Op: "notifications.Block", A: acct(), B: acct()})
		case 23:
			if k%5 == 2 {
				continue
			}
			add(c19Op{Op: "oracle.CreateFeed", A: acct(), S: PickOne(p, []string{"jklprice", "btc", "feed-" + fmt.Sprint(p.Intn(5))})})
		case 24:
			add(c19Op{Op: "oracle.UpdateFeed", A: acct(), S: PickOne(p, []string{"jklprice", "btc"}), N: p.I64n(1000)})
		case 25:
			add(c19Op{Op: "height", N: 1 + p.I64n(3)})
			add(c19Op{Op: "jklmint.BlockMint"})
		}
	}
	return c19History{Ops: ops}
}

func c19VerifRoot() string {
	if v := os.Getenv("VERIF_ROOT"); v != "" {
		return v
	}
	exe, err := os.Executable()
	if err != nil {
		return "."
	}
	return filepath.Dir(filepath.Dir(exe)) // $V/.work/harness -> $V
}

func runC19(r *RunCtx) error {
	r.Sum.Rule = "one evaluation = one (history, module, record kind) round trip on the real app: a history of real messages and keeper setters populating every record kind of storage, rns, filetree, notifications, oracle and jklmint, then ExportGenesis -> JSON -> Validate -> InitGenesis on a fresh app and a raw KV comparison of the module store and its parameter subspace; non-trivial = the kind had at least one record before the export; distinct by (module, prefix, kind, number of records, history index)"
	r.Group("kinds", "From JK Require Import Corr.C19.", "c19_case", "c19_ok")
	// union over all histories of this run: did the records of (module, prefix, kind) survive everywhere?
	type agg struct {
		o        c19KindObs
		survived bool
	}
	total := map[string]*agg{}
	emitted := map[string]bool{}
	emit := func(res *c19Result, h c19History, shrink bool) {
		for _, f := range res.Findings {
			if emitted[f.Signature] {
				continue
			}
			emitted[f.Signature] = true
			if shrink {
				if _, g := c19Shrink(r, h, f.Signature); g != nil {
					f = *g
				}
			}
			r.Finding(f.Signature, f.What, f.Replay)
		}
	}
	merge := func(res *c19Result, hid string) {
		for id, o := range res.Obs {
			if total[id] == nil {
				total[id] = &agg{o: c19KindObs{Module: o.Module, Prefix: o.Prefix, Kind: o.Kind}, survived: true}
			}
			t := total[id]
			t.o.Before += o.Before
			t.o.Lost += o.Lost
			t.o.Changed += o.Changed
			t.o.Add += o.Add
			t.o.Params = t.o.Params || o.Params
			if o.Lost+o.Changed+o.Add > 0 {
				t.survived = false
			}
			r.Count(fmt.Sprintf("%s|%d|%s", id, o.Before, hid), o.Before > 0)
			r.Hist("records_before", id+fmt.Sprintf(":%v", o.Before > 0))
		}
	}
	// the chain must start at all: InitGenesis of the default genesis followed by the first begin-block
	if e0, err := c19NewEnv(); err != nil {
		if sp, ok := err.(c19StartPanic); ok {
			r.Finding("C19/fresh-chain-panics", sp.Error(), map[string]interface{}{"history": c19History{Ops: []c19Op{}}, "panic": string(sp)})
			r.Count("start", true)
			for _, m := range c19Modules() { // nothing could be populated
				r.Case("kinds", fmt.Sprintf("Populated %s %s", c19Quote(m.Name), cList(nil)), map[string]interface{}{"module": m.Name, "populated": []string{}})
			}
			return nil
		}
		return err
	} else {
		e0.Close()
	}
	// corpus first: the minimal histories of the known findings
	files, _ := filepath.Glob(filepath.Join(c19VerifRoot(), "corpus", "C19", "*.json"))
	sort.Strings(files)
	if replayFile != "" {
		files = []string{replayFile}
	}
	for _, f := range files {
		raw, err := os.ReadFile(f)
		if err != nil {
			return err
		}
		var h c19History
		if err := json.Unmarshal(raw, &h); err != nil || len(h.Ops) == 0 {
			var rp struct {
				Finding struct {
					Replay struct {
						History c19History `json:"history"`
					} `json:"replay"`
				} `json:"finding"`
			}
			if err2 := json.Unmarshal(raw, &rp); err2 != nil || len(rp.Finding.Replay.History.Ops) == 0 {
				return fmt.Errorf("corpus file %s: no history", f)
			}
			h = rp.Finding.Replay.History
		}
		res, err := c19RunHistory(r, h, false)
		if err != nil {
			return fmt.Errorf("corpus %s: %w", f, err)
		}
		merge(res, filepath.Base(f))
		emit(res, h, false)
		r.Hist("corpus", filepath.Base(f))
	}
	if replayFile == "" {
		h := c19CrowdHistory()
		res, err := c19RunHistory(r, h, false)
		if err != nil {
			return fmt.Errorf("crowd history: %w", err)
		}
		merge(res, "crowd")
		emit(res, h, false)
		r.Hist("corpus", "crowd")
	}
	n := r.Scale(10, 600)
	if replayFile != "" {
		n = 0
	}
	for k := 0; k < n; k++ {
		h := c19RandomHistory(r.Rng.Fork(), k)
		res, err := c19RunHistory(r, h, true)
		if err != nil {
			return err
		}
		merge(res, fmt.Sprint(k))
		emit(res, h, true)
		if k < 1 {
			r.Sample(map[string]interface{}{"history": h, "outcomes": res.Outcomes})
		}
	}
	// correspondence with the translator table
	var ids []string
	for id := range total {
		ids = append(ids, id)
	}
	sort.Strings(ids)
	byMod := map[string][]string{}
	for _, id := range ids {
		t := total[id]
		if t.o.Before == 0 && t.o.Add == 0 && !t.o.Params {
			continue
		}
		r.Case("kinds", fmt.Sprintf("Kind %s %s %s %s", c19Quote(t.o.Module), c19Quote(t.o.Prefix), c19Quote(t.o.Kind), cBool(t.survived)),
			map[string]interface{}{"module": t.o.Module, "prefix": t.o.Prefix, "kind": t.o.Kind, "records": t.o.Before, "lost": t.o.Lost, "changed": t.o.Changed, "added": t.o.Add, "survived": t.survived})
		if t.o.Before > 0 || t.o.Params {
			byMod[t.o.Module] = append(byMod[t.o.Module], cPair(c19Quote(t.o.Prefix), c19Quote(t.o.Kind)))
		}
	}
	// every record kind the table says is written must have been populated by this run
	for _, m := range c19Modules() {
		r.Case("kinds", fmt.Sprintf("Populated %s %s", c19Quote(m.Name), cList(byMod[m.Name])), map[string]interface{}{"module": m.Name, "populated": byMod[m.Name]})
	}
	return nil
}

// c19RecordLabel: labels 0..3 are lower-case, 4..7 carry an upper-case letter (stored lower-cased by AddRecord)
func c19RecordLabel(n int64) string {
	if n%8 >= 4 {
		return fmt.Sprintf("Blog%d", n%4)
	}
	return fmt.Sprintf("sub%d", n%4)
}
