package main

// C17 — stored-file indexes and prover lists stay mutually consistent.
// C01 — no prover status or reward without a valid proof of the challenged chunk.
//
// History level on the assembled app: files of 1..40 chunks built with the repo's own
// utils.BuildTree, 1..4 registered providers plus strangers, all seven writers of the file /
// proof stores (PostFile, DeleteFile, PostProof, Attest, Report, provider shutdown, reward
// block) interleaved.  Every step is recorded as (pre, op, outcome, post) and replayed on the
// Coq model (Corr/C17.v, Corr/C01.v); the monitors below evaluate the two properties directly
// on what the implementation did.  A proof payload is valid BY CONSTRUCTION iff it is the
// honest proof (tree.GenerateProof) of exactly the challenged chunk with that chunk's bytes.

import (
	"bytes"
	"crypto/sha256"
	"encoding/hex"
	"encoding/json"
	"fmt"
	"sort"
	"strconv"
	"strings"
	"time"

	sdk "github.com/cosmos/cosmos-sdk/types"
	storagetypes "github.com/jackalLabs/canine-chain/v4/x/storage/types"
	storageutils "github.com/jackalLabs/canine-chain/v4/x/storage/utils"
	"github.com/wealdtech/go-merkletree/v2"
	"github.com/wealdtech/go-merkletree/v2/sha3"
)

func init() {
	runners["C17"] = func(r *RunCtx) error { return c17Run(r, "C17") }
	runners["C01"] = func(r *RunCtx) error {
		if err := c17Run(r, "C01"); err != nil {
			return err
		}
		// C01 also admits prover status through "a completed attestation quorum": the quorum logic of Attest (every order
		// and multiset of signatures for every (FormSize, Min)) is exercised here too, with the C14 model and monitors
		r.Group("hist14", "From JK Require Import Model.Forms Corr.C14.", "c14_case", "c14_ok")
		c14GroupOverride = "hist14"
		defer func() { c14GroupOverride = "" }()
		if err := c14Exhaustive(r, r.Rng.Fork()); err != nil {
			return err
		}
		for sc := 0; sc < r.Scale(45, 300); sc++ { // form requests over small and large provider populations
			if err := c14RandomHistory(r, r.Rng.Fork(), sc); err != nil {
				return err
			}
		}
		return nil
	}
}

// ---------------------------------------------------------------- string table

type c17Tab struct {
	ids   map[string]uint64
	names []string
}

func c17NewTab() *c17Tab { return &c17Tab{ids: map[string]uint64{}, names: []string{""}} }

func (t *c17Tab) id(s string) uint64 {
	if s == "" {
		return 0
	}
	if v, ok := t.ids[s]; ok {
		return v
	}
	v := uint64(len(t.names))
	t.ids[s] = v
	t.names = append(t.names, s)
	return v
}
func (t *c17Tab) merkle(m []byte) uint64 { return t.id("m:" + hex.EncodeToString(m)) }
func (t *c17Tab) note(n string) uint64   { return t.id("n:" + n) }

// ---------------------------------------------------------------- observation

type c17Obs struct {
	F1, F2 []storagetypes.UnifiedFile
	Proofs []storagetypes.FileProof
	Provs  []storagetypes.Providers
	Att    []storagetypes.AttestationForm
	Rep    []storagetypes.ReportForm
}

func c17Observe(e *Env) c17Obs {
	k := e.App.StorageKeeper
	return c17Obs{F1: k.GetAllFileByMerkle(e.Ctx), F2: k.GetAllFileByOwner(e.Ctx), Proofs: k.GetAllProofs(e.Ctx),
		Provs: k.GetAllProviders(e.Ctx), Att: k.GetAllAttestation(e.Ctx), Rep: k.GetAllReport(e.Ctx)}
}

// parses "%s/%s/%x/%d/" (prover, owner, merkle, start)
func c17ParsePKey(key string) (prover, owner, merkleHex string, start int64, err error) {
	parts := strings.Split(key, "/")
	if len(parts) != 5 || parts[4] != "" {
		return "", "", "", 0, fmt.Errorf("proof key %q does not have four '/'-terminated fields", key)
	}
	st, perr := strconv.ParseInt(parts[3], 10, 64)
	if perr != nil {
		return "", "", "", 0, fmt.Errorf("proof key %q: start is not a number", key)
	}
	return parts[0], parts[1], parts[2], st, nil
}

func (t *c17Tab) pkey(key string) (string, error) {
	p, o, m, st, err := c17ParsePKey(key)
	if err != nil {
		return "", err
	}
	return fmt.Sprintf("(%s, %s, %s, %s)", cN(t.id(p)), cN(t.id(o)), cN(t.id("m:"+m)), cZ(st)), nil
}

func (t *c17Tab) file(f storagetypes.UnifiedFile) (string, error) {
	ks := make([]string, len(f.Proofs))
	for i, k := range f.Proofs {
		s, err := t.pkey(k)
		if err != nil {
			return "", err
		}
		ks[i] = s
	}
	pl := "(@nil pkey)"
	if len(ks) > 0 {
		pl = cList(ks)
	}
	return fmt.Sprintf("(Build_file %s %s %s %s %s %s %s %s %s %s)", cN(t.merkle(f.Merkle)), cN(t.id(f.Owner)), cZ(f.Start),
		cZ(f.Expires), cZ(f.FileSize), cZ(f.ProofInterval), cZ(f.ProofType), pl, cZ(f.MaxProofs), cN(t.note(f.Note))), nil
}

func (t *c17Tab) atts(as []*storagetypes.Attestation) string {
	xs := make([]string, len(as))
	for i, a := range as {
		xs[i] = fmt.Sprintf("(%s, %s)", cN(t.id(a.Provider)), cBool(a.Complete))
	}
	if len(xs) == 0 {
		return "(@nil (N * bool))"
	}
	return cList(xs)
}

func (t *c17Tab) obs(o c17Obs) (string, error) {
	files := func(fs []storagetypes.UnifiedFile) (string, error) {
		xs := make([]string, len(fs))
		for i, f := range fs {
			s, err := t.file(f)
			if err != nil {
				return "", err
			}
			xs[i] = s
		}
		if len(xs) == 0 {
			return "(@nil file)", nil
		}
		return cList(xs), nil
	}
	f1, err := files(o.F1)
	if err != nil {
		return "", err
	}
	f2, err := files(o.F2)
	if err != nil {
		return "", err
	}
	ps := make([]string, len(o.Proofs))
	for i, p := range o.Proofs {
		ps[i] = fmt.Sprintf("(Build_fproof %s %s %s %s %s %s)", cN(t.id(p.Prover)), cN(t.merkle(p.Merkle)), cN(t.id(p.Owner)), cZ(p.Start), cZ(p.LastProven), cZ(p.ChunkToProve))
	}
	pl := "(@nil fproof)"
	if len(ps) > 0 {
		pl = cList(ps)
	}
	bs := []string{}
	for _, p := range o.Provs {
		b, perr := strconv.ParseInt(p.BurnedContracts, 10, 64)
		if perr != nil {
			return "", fmt.Errorf("provider %s has an unparsable burn counter %q", p.Address, p.BurnedContracts)
		}
		bs = append(bs, fmt.Sprintf("(%s, %s)", cN(t.id(p.Address)), cZ(b)))
	}
	bl := "(@nil (N * Z))"
	if len(bs) > 0 {
		bl = cList(bs)
	}
	as := []string{}
	for _, a := range o.Att {
		as = append(as, fmt.Sprintf("(Build_form %s %s %s %s %s)", cN(t.id(a.Prover)), cN(t.merkle(a.Merkle)), cN(t.id(a.Owner)), cZ(a.Start), t.atts(a.Attestations)))
	}
	al := "(@nil form)"
	if len(as) > 0 {
		al = cList(as)
	}
	rs := []string{}
	for _, a := range o.Rep {
		rs = append(rs, fmt.Sprintf("(Build_form %s %s %s %s %s)", cN(t.id(a.Prover)), cN(t.merkle(a.Merkle)), cN(t.id(a.Owner)), cZ(a.Start), t.atts(a.Attestations)))
	}
	rl := "(@nil form)"
	if len(rs) > 0 {
		rl = cList(rs)
	}
	return fmt.Sprintf("(Build_obs %s %s %s %s %s %s)", f1, f2, pl, bl, al, rl), nil
}

// ---------------------------------------------------------------- C17 monitor: the invariant on the implementation

func c17FileKey(f storagetypes.UnifiedFile) string {
	return string(storagetypes.FilesPrimaryKey(f.Merkle, f.Owner, f.Start))
}

// returns (signature, description) pairs
func c17InvMonitor(e *Env, o c17Obs) [][2]string {
	var bad [][2]string
	k := e.App.StorageKeeper
	cdc := e.App.AppCodec()
	by1 := map[string][]byte{}
	for _, f := range o.F1 {
		f := f
		key := c17FileKey(f)
		if _, dup := by1[key]; dup {
			bad = append(bad, [2]string{"C17/index-mismatch", "the by-merkle listing holds two files with the same (merkle, owner, start): " + key})
		}
		by1[key] = cdc.MustMarshal(&f)
		g, found := k.GetFile(e.Ctx, f.Merkle, f.Owner, f.Start)
		if !found || !bytes.Equal(cdc.MustMarshal(&g), by1[key]) {
			bad = append(bad, [2]string{"C17/index-mismatch", "a file listed by merkle is not returned (or differs) when looked up by its own key: " + key})
		}
	}
	by2 := map[string][]byte{}
	for _, f := range o.F2 {
		f := f
		key := c17FileKey(f)
		if _, dup := by2[key]; dup {
			bad = append(bad, [2]string{"C17/index-mismatch", "the by-owner listing holds two files with the same (merkle, owner, start): " + key})
		}
		by2[key] = cdc.MustMarshal(&f)
	}
	for key, b := range by1 {
		b2, ok := by2[key]
		if !ok {
			bad = append(bad, [2]string{"C17/index-mismatch", "file in the by-merkle listing is missing from the by-owner listing: " + key})
		} else if !bytes.Equal(b, b2) {
			bad = append(bad, [2]string{"C17/index-mismatch", "file contents differ between the by-merkle and the by-owner listing: " + key})
		}
	}
	for key := range by2 {
		if _, ok := by1[key]; !ok {
			bad = append(bad, [2]string{"C17/index-mismatch", "file in the by-owner listing is missing from the by-merkle listing: " + key})
		}
	}
	for _, f := range o.F1 {
		seen := map[string]bool{}
		for _, pk := range f.Proofs {
			if seen[pk] {
				bad = append(bad, [2]string{"C17/prover-duplicate", "a prover key is listed twice in " + c17FileKey(f) + ": " + pk})
			}
			seen[pk] = true
			rec, found := k.GetProofWithBuiltKey(e.Ctx, []byte(pk))
			if !found {
				bad = append(bad, [2]string{"C17/proof-record-missing", "listed prover key without a proof record in " + c17FileKey(f) + ": " + pk})
				continue
			}
			if string(storagetypes.ProofKey(rec.Prover, rec.Merkle, rec.Owner, rec.Start)) != pk {
				bad = append(bad, [2]string{"C17/proof-record-mismatch", "the record under a listed key does not rebuild that key: " + pk})
			}
			if !bytes.Equal(rec.Merkle, f.Merkle) || rec.Owner != f.Owner || rec.Start != f.Start {
				bad = append(bad, [2]string{"C17/proof-record-mismatch", "the record under a listed key refers to another file than " + c17FileKey(f) + ": " + pk})
			}
		}
		limit := f.MaxProofs
		if limit < 0 {
			limit = 0
		}
		if int64(len(f.Proofs)) > limit {
			bad = append(bad, [2]string{"C17/prover-overflow", fmt.Sprintf("%d provers listed on %s whose replication limit is %d", len(f.Proofs), c17FileKey(f), f.MaxProofs)})
		}
	}
	return bad
}

// ---------------------------------------------------------------- files with ground truth

type c17File struct {
	Merkle    []byte
	Owner     string // raw spelling used as msg.Creator
	Start     int64
	Chunks    [][]byte
	Leaves    [][]byte
	Tree      *merkletree.MerkleTree
	Size      int64
	MaxProofs int64
	Window    int64 // the network's proof window when the file was posted: the interval its provers are judged by
}

func (f *c17File) key() string {
	return string(storagetypes.FilesPrimaryKey(f.Merkle, f.Owner, f.Start))
}

type c17Data struct {
	Merkle []byte
	Chunks [][]byte
	Leaves [][]byte
	Tree   *merkletree.MerkleTree
	Size   int64
}

func c17BuildData(p *PRNG, nChunks int, chunkSize int64) (*c17Data, error) {
	size := int64(nChunks) * chunkSize
	if chunkSize > 1 && p.Chance(1, 2) {
		size -= p.I64n(chunkSize) // a partial last chunk
	}
	data := p.Bytes(int(size))
	root, _, chunks, n, err := storageutils.BuildTree(bytes.NewReader(data), chunkSize)
	if err != nil {
		return nil, err
	}
	leaves := make([][]byte, len(chunks))
	for i, c := range chunks {
		h := sha256.Sum256([]byte(fmt.Sprintf("%d%x", i, c)))
		leaves[i] = h[:]
	}
	tree, err := merkletree.NewUsing(leaves, sha3.New512(), false)
	if err != nil {
		return nil, err
	}
	if !bytes.Equal(tree.Root(), root) {
		return nil, fmt.Errorf("harness tree root differs from utils.BuildTree's")
	}
	return &c17Data{Merkle: root, Chunks: chunks, Leaves: leaves, Tree: tree, Size: int64(n)}, nil
}

func (d *c17Data) honest(chunk int) (item []byte, proofJSON []byte, depth int, err error) {
	pr, err := d.Tree.GenerateProof(d.Leaves[chunk], 0)
	if err != nil {
		return nil, nil, 0, err
	}
	js, err := json.Marshal(*pr)
	if err != nil {
		return nil, nil, 0, err
	}
	return d.Chunks[chunk], js, len(pr.Hashes), nil
}

// ---------------------------------------------------------------- the run

type c17Hist struct {
	r       *RunCtx
	prop    string
	e       *Env
	t       *c17Tab
	p       *PRNG
	params  storagetypes.Params
	files   []*c17File
	datas   []*c17Data
	owners  []string
	provers []sdk.AccAddress // candidates that submit proofs (registered providers and strangers)
	// directed steps: the next proof goes to this file, from this account, with this kind of payload
	forceFile   *c17File
	forceProver sdk.AccAddress
	forceKind   string
	attest  []sdk.AccAddress
	accts   []sdk.AccAddress // every account whose balance is watched
	trace   []interface{}
	cur     c17Obs
	// C01 ground truth: (account, file key) pairs with an accepted valid-by-construction proof
	everValid map[string]bool
	hid       int
	nState    int
}

func (h *c17Hist) finding(sig, what string) {
	if !strings.HasPrefix(sig, h.prop+"/") { // each runner reports its own property's monitors
		return
	}
	h.r.Finding(sig, what, map[string]interface{}{"history": h.hid, "trace": h.trace})
}

func (h *c17Hist) spell(a sdk.AccAddress) string {
	return Spell(a, false)
}

func (h *c17Hist) emit(pre c17Obs, opTerm string, out string, success bool, post c17Obs, paid [][]uint64, desc map[string]interface{}) error {
	preS, err := h.t.obs(pre)
	if err != nil {
		return err
	}
	postS, err := h.t.obs(post)
	if err != nil {
		return err
	}
	o := map[string]string{OutOk: "OutOk", OutFail: "OutFail", OutPanic: "OutPanic"}[out]
	pl := make([]string, len(paid))
	for i, g := range paid {
		xs := make([]string, len(g))
		for j, v := range g {
			xs[j] = cN(v)
		}
		pl[i] = cList(xs)
	}
	paidS := "(@nil (list N))"
	if len(pl) > 0 {
		paidS = cList(pl)
	}
	desc["history"] = h.hid
	desc["step"] = len(h.trace)
	desc["out"] = out
	desc["success"] = success
	h.trace = append(h.trace, desc)
	h.r.Case("hist", fmt.Sprintf("Step %s (%s) %s %s %s %s", preS, opTerm, o, cBool(success), postS, paidS), desc)
	// C17 monitor on the observed post-state
	for _, b := range c17InvMonitor(h.e, post) {
		h.finding(b[0], b[1])
	}
	// C01 monitor: whoever is listed as a prover of a file had a valid-by-construction proof accepted on it
	for _, f := range post.F1 {
		for _, pk := range f.Proofs {
			pr, _, _, _, perr := c17ParsePKey(pk)
			if perr != nil {
				continue
			}
			acc, aerr := sdk.AccAddressFromBech32(pr)
			if aerr != nil || !h.everValid[string(acc)+"|"+c17FileKey(f)] {
				h.finding("C01/listed-without-valid-proof", "an account is listed as prover of "+c17FileKey(f)+" without ever having had a valid proof of a challenged chunk accepted on it: "+pr)
			}
		}
	}
	h.nState++
	return nil
}

type c17PRec struct{ LastProven, ChunkToProve int64 }

func c17ProofsOf(o c17Obs) map[string]c17PRec {
	m := map[string]c17PRec{}
	for _, p := range o.Proofs {
		m[string(storagetypes.ProofKey(p.Prover, p.Merkle, p.Owner, p.Start))] = c17PRec{p.LastProven, p.ChunkToProve}
	}
	return m
}

func c17ListsOf(o c17Obs) map[string]string {
	m := map[string]string{}
	for _, f := range o.F1 {
		m[c17FileKey(f)] = strings.Join(f.Proofs, ",")
	}
	return m
}

// did the prover list of any file or any proof record change?
func c17ProverStateChanged(a, b c17Obs) bool {
	la, lb := c17ListsOf(a), c17ListsOf(b)
	if len(la) != len(lb) {
		return true
	}
	for k, v := range la {
		if w, ok := lb[k]; !ok || w != v {
			return true
		}
	}
	pa, pb := c17ProofsOf(a), c17ProofsOf(b)
	if len(pa) != len(pb) {
		return true
	}
	for k, v := range pa {
		if w, ok := pb[k]; !ok || w != v {
			return true
		}
	}
	return false
}

var c01MerkleCases int

func c17Run(r *RunCtx, prop string) error {
	r.Sum.Rule = "histories on the assembled app: files of 1..40 chunks (utils.BuildTree), 1..4 providers + strangers, random interleavings of PostFile / DeleteFile / PostProof (honest and ten kinds of mutated payloads) / attestation and report forms / provider shutdown / reward blocks; one evaluation = one executed step (pre, op, post); non-trivial = distinct (op kind, payload kind, outcome, whether the file or proof stores changed, prover-list length)"
	if prop == "C17" {
		r.Group("hist", "From JK Require Import Model.StorageFiles Corr.C17.", "c17_case", "c17_ok")
	} else {
		r.Group("hist", "From JK Require Import Model.StorageFiles Corr.C17 Corr.C01.", "c17_case", "c01_ok")
		// the verdict the C01 model takes as an input is itself tied to the Gallina Merkle model
		// (Model/Merkle.v: SHA-256 leaf pre-image, SHA3-512 tree walk) on the very payloads submitted
		r.Group("merkle", "From JK Require Import Model.Merkle Corr.C02.", "c02_case", "c02_ok")
	}
	if prop == "C01" {
		if err := c01RestartTwin(r); err != nil {
			return err
		}
		if err := c01UpgradeTwin(r); err != nil {
			return err
		}
	}
	nh := r.Scale(10, 120)
	for k := 0; k < nh; k++ {
		h := &c17Hist{r: r, prop: prop, t: c17NewTab(), p: r.Rng.Fork(), everValid: map[string]bool{}, hid: k}
		if err := h.run(); err != nil {
			return err
		}
	}
	return nil
}

func (h *c17Hist) setup() error {
	e, err := NewEnv()
	if err != nil {
		return err
	}
	h.e = e
	p := h.p
	pr := storagetypes.DefaultParams()
	pr.ChunkSize = PickOne(p, []int64{1, 8, 64, 1024})
	pr.ProofWindow = PickOne(p, []int64{2, 5, 10, 20, 50, 50})
	pr.CheckWindow = PickOne(p, []int64{2, 5, 10, 10, 25, 100})
	pr.AttestFormSize = PickOne(p, []int64{1, 2, 3, 3})
	pr.AttestMinToPass = 1 + p.I64n(pr.AttestFormSize)
	pr.CollateralPrice = 1000
	GovSetStorageParams(e, pr)
	h.params = pr
	// owners with funds and a storage plan
	for i := 1; i <= 2; i++ {
		a := Acct(i)
		if err := e.Fund(a, "ujkl", 50_000_000_000); err != nil {
			return err
		}
		h.owners = append(h.owners, Spell(a, false))
		if i == 1 || p.Chance(1, 2) {
			res := e.Run(&storagetypes.MsgBuyStorage{Creator: a.String(), ForAddress: a.String(), DurationDays: 30 + p.I64n(60), Bytes: 3_000_000_000, PaymentDenom: "ujkl"})
			if res.Out != OutOk {
				return fmt.Errorf("setup BuyStorage failed: %s", res.Err)
			}
		}
	}
	h.owners = append(h.owners, Spell(Acct(1), true)) // upper-case spelling of owner 1: a different owner string
	np := 1 + p.Intn(4)
	if p.Chance(2, 3) && np < 3 {
		np = 3 + p.Intn(2)
	}
	for i := 0; i < np; i++ {
		h.provers = append(h.provers, Acct(10+i))
	}
	h.provers = append(h.provers, Acct(20), Acct(21)) // strangers: never registered as providers
	for i := 0; i < 5; i++ {
		h.attest = append(h.attest, Acct(30+i))
	}
	reg := append(append([]sdk.AccAddress{}, h.provers[:np]...), h.attest...)
	for i, a := range reg {
		if err := e.Fund(a, "ujkl", 1_000_000); err != nil {
			return err
		}
		res := e.Run(&storagetypes.MsgInitProvider{Creator: a.String(), Ip: fmt.Sprintf("https://node%d.provider%d.example", i, i), Keybase: "", TotalSpace: 1_000_000_000})
		if res.Out != OutOk {
			return fmt.Errorf("setup InitProvider failed: %s", res.Err)
		}
		e.App.StorageKeeper.SetActiveProviders(e.Ctx, storagetypes.ActiveProviders{Address: a.String()})
	}
	h.accts = append(append(append([]sdk.AccAddress{}, h.provers...), h.attest...), Acct(1), Acct(2))
	nd := 2 + p.Intn(3)
	for i := 0; i < nd; i++ {
		n := 1 + p.Intn(40)
		if i == 0 {
			n = PickOne(p, []int{1, 2, 3, 40})
		}
		d, err := c17BuildData(p, n, pr.ChunkSize)
		if err != nil {
			return err
		}
		h.datas = append(h.datas, d)
	}
	// "active" providers are those holding at least one proof record: the attesters prove a warm-up file
	{
		d := h.datas[len(h.datas)-1]
		res := e.Run(&storagetypes.MsgPostFile{Creator: h.owners[0], Merkle: d.Merkle, FileSize: d.Size, ProofType: 0, MaxProofs: 8, Expires: 0, Note: "{}"})
		if res.Out != OutOk {
			return fmt.Errorf("setup PostFile failed: %s", res.Err)
		}
		wf := &c17File{Merkle: d.Merkle, Owner: h.owners[0], Start: e.Height, Chunks: d.Chunks, Leaves: d.Leaves, Tree: d.Tree, Size: d.Size, MaxProofs: 8}
		h.files = append(h.files, wf)
		item, proof, _, err := d.honest(0)
		if err != nil {
			return err
		}
		for _, a := range h.attest {
			res := e.Run(&storagetypes.MsgPostProof{Creator: a.String(), Item: item, HashList: proof, Merkle: d.Merkle, Owner: wf.Owner, Start: wf.Start, ToProve: 0})
			if res.Out != OutOk {
				return fmt.Errorf("setup PostProof failed: %s", res.Err)
			}
			h.everValid[string(a)+"|"+wf.key()] = true
		}
	}
	h.cur = c17Observe(e)
	return nil
}

func (h *c17Hist) nextHeight(d int64) {
	h.e.At(h.e.Height+d, h.e.Time.Add(time.Duration(d)*PickOne(h.p, []time.Duration{6 * time.Second, 6 * time.Second, time.Hour})))
}

func (h *c17Hist) run() error {
	if err := h.setup(); err != nil {
		return err
	}
	defer h.e.Close()
	p := h.p
	// directed: a file with two seats; four different accounts answer the newcomer's challenge honestly in one block.
	// Two are seated; the others are told the file is full, and the list never holds more keys than seats
	if h.hid%2 == 0 && len(h.datas) > 0 {
		if err := h.postWith(h.datas[0], h.owners[0], h.datas[0].Size, 2, 0, "{}"); err != nil {
			return err
		}
		if len(h.files) > 0 {
			h.forceFile, h.forceKind = h.files[len(h.files)-1], "honest"
			for i := 0; i < 4 && i < len(h.provers); i++ {
				h.forceProver = h.provers[i]
				if err := h.opProof(); err != nil {
					return err
				}
			}
			h.forceFile, h.forceProver, h.forceKind = nil, nil, ""
		}
	}
	steps := 28 + p.Intn(h.r.Scale(16, 40))
	// weights per op kind; C01 leans on proofs and reward blocks
	type wk struct {
		name string
		w    int
	}
	ws := []wk{{"block", 10}, {"post", 9}, {"proof", 30}, {"delete", 4}, {"reqattest", 5}, {"attest", 9}, {"reqreport", 5}, {"report", 9}, {"shutdown", 2}, {"init", 2}, {"reward", 6}, {"rewardoff", 1}}
	if h.prop == "C01" {
		ws = []wk{{"block", 10}, {"post", 7}, {"proof", 42}, {"delete", 1}, {"reqattest", 4}, {"attest", 7}, {"reqreport", 2}, {"report", 3}, {"shutdown", 1}, {"init", 1}, {"reward", 14}, {"rewardoff", 1}}
	}
	tot := 0
	for _, w := range ws {
		tot += w.w
	}
	// start with a file so that the history is not idle
	if err := h.opPost(); err != nil {
		return err
	}
	// directed (every second history): one account posts the same merkle twice at one height, under the lower-case
	// and under the upper-case spelling of its address (the latter as a pay-once post): two files by content, and
	// both listings must show both
	if h.hid%2 == 0 {
		d := h.datas[0]
		if err := h.postWith(d, h.owners[0], d.Size, 3, 0, "{}"); err != nil {
			return err
		}
		if err := h.postWith(d, h.owners[len(h.owners)-1], d.Size, 3, h.e.Height+14400*5, "{}"); err != nil {
			return err
		}
	}
	// directed (every third history): a pay-once file outlives what was paid for (nothing removes a file at that height;
	// it lives as long as somebody proves it): a provider joins before, the chain passes the height, another provider
	// joins after, reward blocks follow over several windows.  Both listings keep showing the same file, and whoever
	// stops proving stops being paid, as at any other height
	if h.hid%3 == 1 && len(h.datas) > 0 && len(h.provers) > 1 {
		d := h.datas[len(h.datas)-1]
		exp := h.e.Height + 14400*2
		if err := h.postWith(d, h.owners[0], d.Size, 3, exp, "{}"); err != nil {
			return err
		}
		if len(h.files) > 0 && h.files[len(h.files)-1].Start == h.e.Height {
			pf := h.files[len(h.files)-1]
			h.forceFile, h.forceKind, h.forceProver = pf, "honest", h.provers[0]
			if err := h.opProof(); err != nil {
				return err
			}
			h.nextHeight(exp - h.e.Height + 3)
			h.forceProver = h.provers[1]
			if err := h.opProof(); err != nil {
				return err
			}
			h.forceFile, h.forceProver, h.forceKind = nil, nil, ""
			for k := 0; k < 4; k++ {
				h.nextHeight(h.params.ProofWindow)
				if err := h.opReward(true); err != nil {
					return err
				}
			}
			h.r.Hist("directed", "pay-once file past its paid-for height")
		}
	}
	for i := 0; i < steps; i++ {
		// directed (every fourth history): a hundred days later — the owners' storage plans have run out — the owner
		// deletes its files; files, listings and proof records must go together as at any other time
		if h.hid%4 == 3 && i == steps-5 {
			h.e.At(h.e.Height+1, h.e.Time.Add(100*24*time.Hour))
			for _, f := range append([]*c17File{}, h.files...) {
				if err := h.deleteWith(f, f.Owner, f.Merkle, f.Start); err != nil {
					return err
				}
			}
		}
		x := p.Intn(tot)
		name := ""
		for _, w := range ws {
			if x < w.w {
				name = w.name
				break
			}
			x -= w.w
		}
		var err error
		switch name {
		case "block":
			h.nextHeight(1 + p.I64n(PickOne(p, []int64{1, 1, 3, 3, h.params.ProofWindow + 2})))
		case "post":
			err = h.opPost()
		case "proof":
			err = h.opProof()
		case "delete":
			err = h.opDelete()
		case "reqattest":
			err = h.opReqForm(true)
		case "attest":
			err = h.opAttest()
		case "reqreport":
			err = h.opReqForm(false)
		case "report":
			err = h.opReport()
		case "shutdown":
			err = h.opShutdown()
		case "init":
			err = h.opInit()
		case "reward":
			err = h.opReward(true)
		case "rewardoff":
			err = h.opReward(false)
		}
		if err != nil {
			return err
		}
	}
	return nil
}

func (h *c17Hist) count(kind, sub, out string, pre, post c17Obs) {
	changed := c17ProverStateChanged(pre, post) || len(pre.F1) != len(post.F1)
	maxl := 0
	for _, f := range post.F1 {
		if len(f.Proofs) > maxl {
			maxl = len(f.Proofs)
		}
	}
	h.r.Count(fmt.Sprintf("%s:%s:%s:%v:%d", kind, sub, out, changed, maxl), true)
	h.r.Hist("max-prover-list-length", fmt.Sprint(maxl))
	h.r.Hist("ops", kind)
	h.r.Hist("outcomes", kind+"/"+out)
}

// ---------------------------------------------------------------- ops

func (h *c17Hist) opPost() error {
	p, e := h.p, h.e
	d := PickOne(p, h.datas)
	owner := PickOne(p, h.owners)
	if p.Chance(2, 3) {
		owner = h.owners[0]
	}
	size := d.Size
	switch p.Intn(30) {
	case 0:
		size = 0
	case 1:
		size = -5
	case 2, 3:
		size = d.Size + h.params.ChunkSize*3 // declared larger than the tree: some challenges cannot be answered
	}
	maxp := int64(1 + p.Intn(4))
	if p.Chance(1, 2) {
		maxp = 3
	}
	switch p.Intn(36) {
	case 0:
		maxp = 0
	case 1:
		maxp = -1
	case 2:
		maxp = 1 << 62
	}
	expires := int64(0)
	if p.Chance(1, 3) {
		expires = e.Height + PickOne(p, []int64{14400 * 2, 14400 * 30, 14400 * 3, 14400 * 9, 14399, 100})
	}
	if owner != h.owners[0] && expires == 0 && p.Chance(4, 5) { // only owner 1 (lower-case spelling) surely has a storage plan
		expires = e.Height + 14400*(2+p.I64n(20))
	}
	note := PickOne(p, []string{"{}", "{\"a\":1}", "{}", "{}", "{\"k\":\"v\"}", "{}", "{}", "{}", "{}", "{}", "{}", "not json"})
	return h.postWith(d, owner, size, maxp, expires, note)
}

func (h *c17Hist) postWith(d *c17Data, owner string, size, maxp, expires int64, note string) error {
	e := h.e
	// the message has a proof_interval field; the chain judges every file by the network's window, whatever a client asks for
	asked := PickOne(h.p, []int64{0, 0, 40, h.params.ProofWindow, h.params.ProofWindow + 1, 1 << 40, 1<<63 - 1, -1, 1})
	msg := &storagetypes.MsgPostFile{Creator: owner, Merkle: d.Merkle, FileSize: size, ProofType: 0, MaxProofs: maxp, Expires: expires, Note: note, ProofInterval: asked}
	pre := h.cur
	res := e.Run(msg)
	post := c17Observe(e)
	if res.Out == OutOk {
		for _, f := range post.F1 {
			if f.Start == e.Height && f.Owner == owner && bytes.Equal(f.Merkle, d.Merkle) && f.ProofInterval != h.params.ProofWindow {
				h.trace = append(h.trace, map[string]interface{}{"op": "PostFile", "msg": msg, "height": e.Height, "stored_proof_interval": f.ProofInterval, "network_proof_window": h.params.ProofWindow})
				h.finding("C01/post/interval-is-not-the-network-window", fmt.Sprintf("a file posted with proof_interval %d is stored with interval %d while the network's proof window is %d: its provers are judged (and paid) by an interval its owner chose", asked, f.ProofInterval, h.params.ProofWindow))
				h.trace = h.trace[:len(h.trace)-1]
			}
		}
	}
	paid := res.Out == OutOk || strings.HasPrefix(res.Err, "validatebasic:")
	term := fmt.Sprintf("PostFile %s %s %s %s %s %s %s %s %s %s", cN(h.t.id(owner)), cN(h.t.merkle(d.Merkle)), cZ(e.Height), cZ(expires), cZ(size), cZ(maxp),
		cZ(h.params.ProofWindow), cZ(0), cN(h.t.note(note)), cBool(paid))
	if res.Out == OutOk {
		nf := &c17File{Merkle: d.Merkle, Owner: owner, Start: e.Height, Chunks: d.Chunks, Leaves: d.Leaves, Tree: d.Tree, Size: size, MaxProofs: maxp, Window: h.params.ProofWindow}
		// a re-post in the same block replaces the earlier file (and drops its provers)
		kept := h.files[:0]
		for _, f := range h.files {
			if f.key() != nf.key() {
				kept = append(kept, f)
			}
		}
		h.files = append(kept, nf)
	}
	if res.Out != OutOk {
		e0 := res.Err
		if i := strings.LastIndex(e0, ": "); i >= 0 {
			e0 = e0[i+2:]
		}
		if len(e0) > 40 {
			e0 = e0[:40]
		}
		h.r.Hist("postfile-refusals", e0)
	}
	h.count("PostFile", fmt.Sprintf("%v/%v/%v", size > 0, maxp > 0, expires > 0), res.Out, pre, post)
	h.cur = post
	return h.emit(pre, term, res.Out, res.Out == OutOk, post, nil, map[string]interface{}{"op": "PostFile", "msg": msg, "height": e.Height, "err": res.Err})
}

func (h *c17Hist) pickFile() *c17File {
	if len(h.files) == 0 {
		return nil
	}
	return PickOne(h.p, h.files)
}

func (h *c17Hist) opDelete() error {
	p := h.p
	f := h.pickFile()
	if f == nil {
		return nil
	}
	creator, merkle, start := f.Owner, f.Merkle, f.Start
	switch p.Intn(6) {
	case 0:
		creator = PickOne(p, h.owners) // possibly another owner string (also the other spelling of the same account)
	case 1:
		start++
	case 2:
		creator = h.spell(PickOne(p, h.provers))
	case 3:
		start = 0 // the field left at its zero value (a client that only knows merkle and owner)
	}
	return h.deleteWith(f, creator, merkle, start)
}

func (h *c17Hist) deleteWith(f *c17File, creator string, merkle []byte, start int64) error {
	e := h.e
	msg := &storagetypes.MsgDeleteFile{Creator: creator, Merkle: merkle, Start: start}
	pre := h.cur
	res := e.Run(msg)
	post := c17Observe(e)
	term := fmt.Sprintf("DeleteFile %s %s %s", cN(h.t.id(creator)), cN(h.t.merkle(merkle)), cZ(start))
	h.syncFiles(post)
	h.count("DeleteFile", fmt.Sprint(creator == f.Owner && start == f.Start), res.Out, pre, post)
	h.cur = post
	return h.emit(pre, term, res.Out, res.Out == OutOk, post, nil, map[string]interface{}{"op": "DeleteFile", "msg": msg, "height": e.Height, "err": res.Err})
}

// drops from the harness' file list what the chain no longer stores
func (h *c17Hist) syncFiles(o c17Obs) {
	live := map[string]bool{}
	for _, f := range o.F1 {
		live[c17FileKey(f)] = true
	}
	kept := h.files[:0]
	for _, f := range h.files {
		if live[f.key()] {
			kept = append(kept, f)
		}
	}
	h.files = kept
}

var c17PayloadKinds = []string{"honest", "honest", "honest", "honest", "honest", "honest", "honest", "honest", "honest", "wrong-item-byte", "wrong-toprove", "other-index", "truncated", "extended", "other-file", "garbage-json", "index-plus-2^depth", "empty", "unknown-file"}

func (h *c17Hist) opProof() error {
	p, e := h.p, h.e
	f := h.pickFile()
	if h.forceFile != nil {
		f = h.forceFile
	}
	if f == nil {
		return h.opPost()
	}
	k := e.App.StorageKeeper
	proverAcc := PickOne(p, h.provers)
	up := p.Chance(1, 10)
	if h.forceProver != nil {
		proverAcc, up = h.forceProver, false
	}
	creator := Spell(proverAcc, up)
	stored, found := k.GetFile(e.Ctx, f.Merkle, f.Owner, f.Start)
	if !found {
		return fmt.Errorf("harness file list out of sync")
	}
	// prefer a prover already listed half of the time
	if len(stored.Proofs) > 0 && p.Chance(1, 3) && h.forceProver == nil {
		pr, _, _, _, err := c17ParsePKey(PickOne(p, stored.Proofs))
		if err != nil {
			return err
		}
		creator = pr
		proverAcc, _ = sdk.AccAddressFromBech32(pr)
	}
	listed := stored.ContainsProver(creator)
	challenge := int64(0)
	if rec, ok := k.GetProof(e.Ctx, creator, f.Merkle, f.Owner, f.Start); ok && listed {
		challenge = rec.ChunkToProve
	}
	kind := PickOne(p, c17PayloadKinds)
	if h.forceKind != "" {
		kind = h.forceKind
	}
	n := int64(len(f.Chunks))
	msg := &storagetypes.MsgPostProof{Creator: creator, Merkle: f.Merkle, Owner: f.Owner, Start: f.Start, ToProve: challenge}
	data := &c17Data{Chunks: f.Chunks, Leaves: f.Leaves, Tree: f.Tree}
	answerable := challenge >= 0 && challenge < n
	honestItem, honestProof, depth := []byte{}, []byte("{}"), 0
	// ground truth: the payload is an honest proof of chunk provesChunk of the data with root provesRoot (-1: of nothing)
	provesRoot, provesChunk := f.Merkle, int64(-1)
	if answerable {
		var err error
		honestItem, honestProof, depth, err = data.honest(int(challenge))
		if err != nil {
			return err
		}
		provesChunk = challenge
	} else {
		kind = "unanswerable-challenge"
	}
	msg.Item, msg.HashList = honestItem, honestProof
	switch kind {
	case "honest":
	case "wrong-item-byte":
		it := append([]byte{}, honestItem...)
		it[p.Intn(len(it))] ^= byte(1 << uint(p.Intn(8)))
		msg.Item = it
		provesChunk = -1
	case "wrong-toprove":
		other := (challenge + 1 + p.I64n(n)) % n
		if other == challenge { // claim a chunk that was not asked for, with the proof of the one that was
			msg.ToProve = challenge + 1 + p.I64n(3)
		} else {
			msg.ToProve = other
			msg.Item, msg.HashList, _, _ = data.honest(int(other)) // a perfectly good proof of a chunk that was not asked for
			provesChunk = other
		}
	case "other-index":
		if n == 1 {
			kind = "wrong-item-byte"
			it := append([]byte{}, honestItem...)
			it[0] ^= 0x80
			msg.Item = it
			provesChunk = -1
		} else {
			other := (challenge + 1 + p.I64n(n-1)) % n
			msg.Item, msg.HashList, _, _ = data.honest(int(other))
			provesChunk = other
		}
	case "truncated", "extended":
		var pr merkletree.Proof
		if err := json.Unmarshal(honestProof, &pr); err != nil {
			return err
		}
		if kind == "truncated" && len(pr.Hashes) > 0 {
			pr.Hashes = pr.Hashes[:len(pr.Hashes)-1]
		} else {
			kind = "extended"
			pr.Hashes = append(pr.Hashes, p.Bytes(64))
		}
		msg.HashList, _ = json.Marshal(pr)
		provesChunk = -1
	case "other-file":
		var g *c17Data
		for _, d := range h.datas {
			if !bytes.Equal(d.Merkle, f.Merkle) && int64(len(d.Chunks)) > challenge {
				g = d
			}
		}
		if g == nil {
			kind = "garbage-json"
			msg.HashList = []byte("{\"Hashes\":[\"not base64!\"],\"Index\":")
			provesChunk = -1
		} else {
			msg.Item, msg.HashList, _, _ = g.honest(int(challenge))
			provesRoot = g.Merkle
		}
	case "garbage-json":
		msg.HashList = PickOne(p, [][]byte{[]byte("garbage"), {}, []byte("[1,2,3]"), []byte("{\"Hashes\":\"x\"}"), p.Bytes(40)})
		provesChunk = -1
	case "index-plus-2^depth":
		// VerifyProofUsing only reads the low `depth` bits of Index: this payload is the same proof
		var pr merkletree.Proof
		if err := json.Unmarshal(honestProof, &pr); err != nil {
			return err
		}
		pr.Index += uint64(1+p.Intn(3)) << uint(depth)
		msg.HashList, _ = json.Marshal(pr)
	case "empty":
		if p.Bool() {
			msg.Item = []byte{}
			provesChunk = -1
		} else {
			msg.HashList = []byte("{\"Hashes\":null,\"Index\":0}")
			if depth != 0 { // a one-leaf tree has the empty path
				provesChunk = -1
			}
		}
	case "unknown-file":
		switch p.Intn(3) {
		case 0:
			msg.Start = f.Start + 1
		case 1:
			msg.Owner = h.spell(Acct(2))
			if msg.Owner == f.Owner {
				msg.Owner = h.spell(Acct(1))
			}
		default:
			msg.Merkle = p.Bytes(64)
		}
	}
	// the addressed file, if stored (an "unknown-file" mutation may by chance address another stored file)
	target, targetFound := k.GetFile(e.Ctx, msg.Merkle, msg.Owner, msg.Start)
	verified, full, valid := false, false, false
	if targetFound {
		verified = target.VerifyProof(msg.HashList, msg.ToProve, msg.Item) // the verdict the model takes as input
		if h.prop == "C01" && c01MerkleCases < h.r.Scale(70, 900) && len(msg.Item) <= 2048 {
			c01MerkleCases++
			h.r.Case("merkle", fmt.Sprintf("FileVerify %s %s %s %s %s", cBytes(target.Merkle), cZ(msg.ToProve), cBytes(msg.Item), c02Decoded(msg.HashList), cBool(verified)),
				map[string]interface{}{"op": "VerifyProof verdict of a submitted PostProof payload", "payload": kind, "verified": verified, "chunk": msg.ToProve})
			h.r.Hist("merkle_verdicts", fmt.Sprintf("%s:%v", kind, verified))
		}
		full = !target.ContainsProver(creator) && int64(len(target.Proofs)) >= target.MaxProofs
		tChallenge := int64(0)
		if target.ContainsProver(creator) {
			tChallenge = -2
			if rec, ok := k.GetProof(e.Ctx, creator, target.Merkle, target.Owner, target.Start); ok {
				tChallenge = rec.ChunkToProve
			}
		}
		valid = provesChunk >= 0 && bytes.Equal(provesRoot, target.Merkle) && provesChunk == msg.ToProve && msg.ToProve == tChallenge
	}
	pre := h.cur
	res := e.Run(msg)
	post := c17Observe(e)
	success := false
	if res.Out == OutOk {
		var resp storagetypes.MsgPostProofResponse
		if err := resp.Unmarshal(res.Data); err != nil {
			return fmt.Errorf("cannot decode MsgPostProofResponse: %v", err)
		}
		success = resp.Success
	}
	newChunk := int64(0)
	if rec, ok := k.GetProof(e.Ctx, creator, msg.Merkle, msg.Owner, msg.Start); ok {
		newChunk = rec.ChunkToProve
	}
	term := fmt.Sprintf("PostProof %s %s %s %s %s %s %s %s %s", cN(h.t.id(creator)), cN(h.t.merkle(msg.Merkle)), cN(h.t.id(msg.Owner)), cZ(msg.Start), cZ(e.Height), cZ(msg.ToProve),
		cBool(verified), cZ(newChunk), cZ(h.params.ChunkSize))
	// ---- C01 monitors (ground truth by construction, independent of VerifyProof and of the model)
	changed := c17ProverStateChanged(pre, post)
	legit := valid && targetFound && !full
	if changed && !legit {
		h.trace = append(h.trace, map[string]interface{}{"op": "PostProof", "msg": msg, "payload": kind, "height": e.Height, "valid_by_construction": valid, "file_found": targetFound, "full_for_sender": full})
		h.finding("C01/postproof/effect-without-valid-proof/"+kind, fmt.Sprintf("a PostProof whose payload (%s) is not a valid proof of the challenged chunk changed a prover list or a proof record", kind))
		h.trace = h.trace[:len(h.trace)-1]
	}
	if success && !legit {
		h.finding("C01/postproof/success-without-valid-proof/"+kind, fmt.Sprintf("PostProof answered Success for a payload (%s) that is not a valid proof of the challenged chunk", kind))
	}
	// frame: a proof concerns one (prover, file) pair — the record of any other pair (another file with the same
	// merkle root, another prover) is refreshed only by a proof for THAT pair's own challenge
	{
		own := string(storagetypes.ProofKey(creator, msg.Merkle, msg.Owner, msg.Start))
		pa, pb := c17ProofsOf(pre), c17ProofsOf(post)
		for key, v := range pb {
			if w, ok := pa[key]; key != own && (!ok || w != v) {
				h.trace = append(h.trace, map[string]interface{}{"op": "PostProof", "msg": msg, "payload": kind, "height": e.Height})
				h.finding("C01/postproof/effect-on-another-record", fmt.Sprintf("a PostProof for one (prover, file) pair created or refreshed the proof record %q of another pair, whose own challenge was not answered", key))
				h.trace = h.trace[:len(h.trace)-1]
				break
			}
		}
	}
	if !success && changed {
		h.finding("C01/postproof/refused-but-wrote", "PostProof answered Success=false (or failed) and still changed a prover list or a proof record")
	}
	if targetFound && verified != (provesChunk >= 0 && bytes.Equal(provesRoot, target.Merkle) && provesChunk == msg.ToProve) {
		h.finding("C01/verifyproof-disagrees-with-construction/"+kind, fmt.Sprintf("VerifyProof says %v for a payload (%s) that is valid-by-construction=%v", verified, kind, valid))
	}
	if success && legit {
		h.everValid[string(proverAcc)+"|"+string(storagetypes.FilesPrimaryKey(msg.Merkle, msg.Owner, msg.Start))] = true
		h.r.Hist("postproof", "accepted-valid")
	} else if legit && res.Out == OutOk {
		h.r.Hist("postproof", "valid-but-refused")
	} else {
		h.r.Hist("postproof", "refused-invalid")
	}
	h.r.Hist("payload", kind)
	reg := "stranger"
	if _, ok := k.GetProviders(e.Ctx, creator); ok {
		reg = "provider"
	}
	h.count("PostProof", kind+"/"+reg+"/"+fmt.Sprint(listed, full, success), res.Out, pre, post)
	h.cur = post
	return h.emit(pre, term, res.Out, success, post, nil, map[string]interface{}{"op": "PostProof", "msg": msg, "payload": kind, "height": e.Height, "valid_by_construction": valid, "verified": verified, "err": res.Err})
}

// a (prover, file) pair: mostly a listed one
func (h *c17Hist) pickProverFile() (prover string, f *c17File) {
	p := h.p
	f = h.pickFile()
	if f == nil {
		return "", nil
	}
	if p.Chance(4, 5) { // prefer a file that has provers
		for _, g := range h.files {
			if st, ok := h.e.App.StorageKeeper.GetFile(h.e.Ctx, g.Merkle, g.Owner, g.Start); ok && len(st.Proofs) > 0 {
				f = g
				if p.Bool() {
					break
				}
			}
		}
	}
	stored, found := h.e.App.StorageKeeper.GetFile(h.e.Ctx, f.Merkle, f.Owner, f.Start)
	if found && len(stored.Proofs) > 0 && p.Chance(5, 6) {
		pr, _, _, _, err := c17ParsePKey(PickOne(p, stored.Proofs))
		if err == nil {
			return pr, f
		}
	}
	return h.spell(PickOne(p, h.provers)), f
}

func (h *c17Hist) chosenTerm(creatorOrProver string) string {
	k, e := h.e.App.StorageKeeper, h.e
	prov, found := k.GetProviders(e.Ctx, creatorOrProver)
	if !found {
		return "None"
	}
	act := k.GetActiveProviders(e.Ctx, prov.Ip)
	if len(act) < int(h.params.AttestFormSize) {
		return "None"
	}
	xs := make([]string, h.params.AttestFormSize)
	for i := range xs {
		xs[i] = cN(h.t.id(act[i].Address))
	}
	return "(Some " + cList(xs) + ")"
}

// a listed prover that is a registered provider, with its file (nil if there is none)
func (h *c17Hist) pickListedProvider() (string, *c17File) {
	k, e := h.e.App.StorageKeeper, h.e
	type pf struct {
		p string
		f *c17File
	}
	var cands []pf
	for _, g := range h.files {
		st, ok := k.GetFile(e.Ctx, g.Merkle, g.Owner, g.Start)
		if !ok {
			continue
		}
		for _, key := range st.Proofs {
			pr, _, _, _, err := c17ParsePKey(key)
			if err != nil {
				continue
			}
			if _, reg := k.GetProviders(e.Ctx, pr); reg {
				cands = append(cands, pf{pr, g})
			}
		}
	}
	if len(cands) == 0 {
		return "", nil
	}
	c := PickOne(h.p, cands)
	return c.p, c.f
}

func (h *c17Hist) opReqForm(att bool) error {
	e := h.e
	prover, f := h.pickProverFile()
	if h.p.Chance(4, 5) {
		if p2, f2 := h.pickListedProvider(); f2 != nil {
			prover, f = p2, f2
		}
	}
	if f == nil {
		return nil
	}
	start := f.Start
	if h.p.Chance(1, 12) {
		start++
	}
	pre := h.cur
	chosen := h.chosenTerm(prover)
	var res MsgResult
	var term, name string
	var msg sdk.Msg
	success := false
	if att {
		m := &storagetypes.MsgRequestAttestationForm{Creator: prover, Merkle: f.Merkle, Owner: f.Owner, Start: start}
		msg, name = m, "ReqAttest"
		res = e.Run(m)
		if res.Out == OutOk {
			var resp storagetypes.MsgRequestAttestationFormResponse
			if err := resp.Unmarshal(res.Data); err != nil {
				return err
			}
			success = resp.Success
			if !success {
				h.r.Hist("form-refusals", resp.Error[max(0, len(resp.Error)-40):])
			}
		}
		term = fmt.Sprintf("ReqAttest %s %s %s %s %s", cN(h.t.id(prover)), cN(h.t.merkle(f.Merkle)), cN(h.t.id(f.Owner)), cZ(start), chosen)
	} else {
		m := &storagetypes.MsgRequestReportForm{Creator: h.spell(PickOne(h.p, h.attest)), Prover: prover, Merkle: f.Merkle, Owner: f.Owner, Start: start}
		msg, name = m, "ReqReport"
		res = e.Run(m)
		if res.Out == OutOk {
			var resp storagetypes.MsgRequestReportFormResponse
			if err := resp.Unmarshal(res.Data); err != nil {
				return err
			}
			success = resp.Success
		}
		term = fmt.Sprintf("ReqReport %s %s %s %s %s", cN(h.t.id(prover)), cN(h.t.merkle(f.Merkle)), cN(h.t.id(f.Owner)), cZ(start), chosen)
	}
	post := c17Observe(e)
	if c17ProverStateChanged(pre, post) {
		h.finding("C17/form-request-touched-provers", "requesting a form changed a prover list or a proof record")
	}
	h.r.Hist("forms", name+"/"+fmt.Sprint(success))
	h.count(name, fmt.Sprint(success), res.Out, pre, post)
	h.cur = post
	return h.emit(pre, term, res.Out, success, post, nil, map[string]interface{}{"op": name, "msg": msg, "height": e.Height, "err": res.Err})
}

func (h *c17Hist) opAttest() error {
	p, e := h.p, h.e
	forms := h.cur.Att
	if len(forms) == 0 && p.Chance(5, 6) {
		return h.opReqForm(true)
	}
	var prover, owner string
	var merkle []byte
	var start int64
	var creator string
	if len(forms) > 0 && p.Chance(9, 10) {
		fm := PickOne(p, forms)
		prover, owner, merkle, start = fm.Prover, fm.Owner, fm.Merkle, fm.Start
		creator = PickOne(p, fm.Attestations).Provider
		if p.Chance(1, 6) {
			creator = h.spell(PickOne(p, h.provers))
		}
	} else {
		pr, f := h.pickProverFile()
		if f == nil {
			return nil
		}
		prover, owner, merkle, start = pr, f.Owner, f.Merkle, f.Start
		creator = h.spell(PickOne(p, h.attest))
	}
	msg := &storagetypes.MsgAttest{Creator: creator, Prover: prover, Merkle: merkle, Owner: owner, Start: start}
	pre := h.cur
	// ground truth for the monitor: would this attestation complete the quorum of an existing form?
	quorum := false
	for _, fm := range pre.Att {
		if fm.Prover == prover && fm.Owner == owner && fm.Start == start && bytes.Equal(fm.Merkle, merkle) {
			listed, cnt := false, int64(0)
			for _, a := range fm.Attestations {
				if a.Provider == creator {
					listed = true
				}
				if a.Complete || a.Provider == creator {
					cnt++
				}
			}
			quorum = listed && cnt >= h.params.AttestMinToPass
		}
	}
	res := e.Run(msg)
	post := c17Observe(e)
	term := fmt.Sprintf("Attest %s %s %s %s %s %s %s", cN(h.t.id(creator)), cN(h.t.id(prover)), cN(h.t.merkle(merkle)), cN(h.t.id(owner)), cZ(start), cZ(e.Height), cZ(h.params.AttestMinToPass))
	// ---- C01 monitor: only the named, listed prover's LastProven may move, and only on quorum
	if c17ProverStateChanged(pre, post) {
		ok := quorum && strings.Join(mapKeys(c17ListsOf(pre)), "|") == strings.Join(mapKeys(c17ListsOf(post)), "|")
		pa, pb := c17ProofsOf(pre), c17ProofsOf(post)
		key := string(storagetypes.ProofKey(prover, merkle, owner, start))
		for kk, v := range pb {
			w, was := pa[kk]
			if !was || (kk != key && w != v) {
				ok = false
			}
			if kk == key && was && (w.ChunkToProve != v.ChunkToProve || v.LastProven != e.Height) {
				ok = false
			}
		}
		if len(pa) != len(pb) || c17ListsOf(pre)[string(storagetypes.FilesPrimaryKey(merkle, owner, start))] != c17ListsOf(post)[string(storagetypes.FilesPrimaryKey(merkle, owner, start))] {
			ok = false
		}
		if !ok {
			h.finding("C01/attest/effect-without-quorum", "an attestation changed prover lists or proof records other than refreshing the named listed prover on a completed quorum")
		}
	}
	h.count("Attest", fmt.Sprint(quorum), res.Out, pre, post)
	h.cur = post
	return h.emit(pre, term, res.Out, res.Out == OutOk, post, nil, map[string]interface{}{"op": "Attest", "msg": msg, "height": e.Height, "quorum": quorum, "err": res.Err})
}

func mapKeys(m map[string]string) []string {
	ks := make([]string, 0, len(m))
	for k, v := range m {
		ks = append(ks, k+"="+v)
	}
	sort.Strings(ks)
	return ks
}

func (h *c17Hist) opReport() error {
	p, e := h.p, h.e
	forms := h.cur.Rep
	if len(forms) == 0 && p.Chance(5, 6) {
		return h.opReqForm(false)
	}
	var prover, owner, creator string
	var merkle []byte
	var start int64
	if len(forms) > 0 && p.Chance(9, 10) {
		fm := PickOne(p, forms)
		prover, owner, merkle, start = fm.Prover, fm.Owner, fm.Merkle, fm.Start
		creator = PickOne(p, fm.Attestations).Provider
		if p.Chance(1, 6) {
			creator = h.spell(PickOne(p, h.provers))
		}
	} else {
		pr, f := h.pickProverFile()
		if f == nil {
			return nil
		}
		prover, owner, merkle, start = pr, f.Owner, f.Merkle, f.Start
		creator = h.spell(PickOne(p, h.attest))
	}
	msg := &storagetypes.MsgReport{Creator: creator, Prover: prover, Merkle: merkle, Owner: owner, Start: start}
	pre := h.cur
	res := e.Run(msg)
	post := c17Observe(e)
	term := fmt.Sprintf("Report %s %s %s %s %s %s", cN(h.t.id(creator)), cN(h.t.id(prover)), cN(h.t.merkle(merkle)), cN(h.t.id(owner)), cZ(start), cZ(h.params.AttestMinToPass))
	h.count("Report", "", res.Out, pre, post)
	h.cur = post
	return h.emit(pre, term, res.Out, res.Out == OutOk, post, nil, map[string]interface{}{"op": "Report", "msg": msg, "height": e.Height, "err": res.Err})
}

func (h *c17Hist) opShutdown() error {
	e := h.e
	a := PickOne(h.p, h.provers)
	creator := h.spell(a)
	// prefer a registered provider that is currently LISTED on a file: its prover slots and proof records must stay
	// consistent through the shutdown
	if h.p.Chance(2, 3) {
		var listed []string
		files := e.App.StorageKeeper.GetAllFileByMerkle(e.Ctx)
		for _, x := range h.provers {
			s := x.String()
			if _, ok := e.App.StorageKeeper.GetProviders(e.Ctx, s); !ok {
				continue
			}
			for _, f := range files {
				if f.ContainsProver(s) {
					listed = append(listed, s)
					break
				}
			}
		}
		if len(listed) > 0 {
			creator = PickOne(h.p, listed)
		}
	}
	_, existed := e.App.StorageKeeper.GetProviders(e.Ctx, creator)
	msg := &storagetypes.MsgShutdownProvider{Creator: creator}
	pre := h.cur
	res := e.Run(msg)
	post := c17Observe(e)
	paid := res.Out == OutOk || !existed
	term := fmt.Sprintf("Shutdown %s %s", cN(h.t.id(creator)), cBool(paid))
	if c17ProverStateChanged(pre, post) || len(pre.F1) != len(post.F1) {
		h.finding("C17/shutdown-touched-files", "a provider shutdown changed files, prover lists or proof records")
	}
	h.count("Shutdown", fmt.Sprint(existed), res.Out, pre, post)
	h.cur = post
	return h.emit(pre, term, res.Out, res.Out == OutOk, post, nil, map[string]interface{}{"op": "Shutdown", "msg": msg, "height": e.Height, "err": res.Err})
}

func (h *c17Hist) opInit() error {
	e := h.e
	a := PickOne(h.p, h.provers)
	creator := h.spell(a)
	_, existed := e.App.StorageKeeper.GetProviders(e.Ctx, creator)
	msg := &storagetypes.MsgInitProvider{Creator: creator, Ip: "https://again.example.org", Keybase: "", TotalSpace: 1000}
	pre := h.cur
	res := e.Run(msg)
	post := c17Observe(e)
	paid := res.Out == OutOk || existed
	term := fmt.Sprintf("InitProvider %s %s", cN(h.t.id(creator)), cBool(paid))
	h.count("InitProvider", fmt.Sprint(existed), res.Out, pre, post)
	h.cur = post
	return h.emit(pre, term, res.Out, res.Out == OutOk, post, nil, map[string]interface{}{"op": "InitProvider", "msg": msg, "height": e.Height, "err": res.Err})
}

func (h *c17Hist) opReward(aligned bool) error {
	e := h.e
	cw := h.params.CheckWindow
	if aligned {
		d := cw - e.Height%cw
		h.nextHeight(d)
	} else if e.Height%cw == 0 {
		h.nextHeight(1)
	}
	pre := h.cur
	bal := map[string]int64{}
	for _, a := range h.accts {
		bal[string(a)] = e.Bal(a, "ujkl")
	}
	out := OutOk
	if pn := Guard(func() { e.App.StorageKeeper.RunRewardBlock(e.Ctx) }); pn != "" {
		out = OutPanic
		h.finding("C17/reward-block-panic", "RunRewardBlock panicked: "+pn)
	}
	post := c17Observe(e)
	var paid [][]uint64
	paidNames := []string{}
	for _, a := range h.accts {
		if e.Bal(a, "ujkl") > bal[string(a)] {
			paid = append(paid, []uint64{h.t.id(Spell(a, false)), h.t.id(Spell(a, true))})
			paidNames = append(paidNames, a.String())
			// ---- C01 monitor: paid only with an accepted valid proof on some file, ever
			has := false
			for k := range h.everValid {
				if strings.HasPrefix(k, string(a)+"|") {
					has = true
				}
			}
			if !has {
				h.trace = append(h.trace, map[string]interface{}{"op": "RewardBlock", "height": e.Height, "paid": a.String(), "amount": e.Bal(a, "ujkl") - bal[string(a)]})
				h.finding("C01/reward-without-valid-proof", "a reward block paid an account that never had a valid proof accepted on any file")
				h.trace = h.trace[:len(h.trace)-1]
			}
			// ---- C01 monitor: "stays credited … only by submitting a Merkle proof": whoever is paid is listed on some
			// file that is still in its first interval, or on one where its record was refreshed (by an accepted proof
			// or a quorum — the frame and effect monitors above see to that) no earlier than the start of the file's
			// last closed proof interval.  Computed here from the state before the block, not from the code's helpers.
			justified := false
			for _, f := range pre.F1 {
				iv := f.ProofInterval
				for _, hf := range h.files { // the window the network had when the file was posted, as this harness saw it
					if hf.Window > 0 && hf.key() == c17FileKey(f) {
						iv = hf.Window
					}
				}
				if iv <= 0 {
					continue
				}
				for _, key := range f.Proofs {
					pr, _, _, _, kerr := c17ParsePKey(key)
					acc, aerr := sdk.AccAddressFromBech32(pr)
					if kerr != nil || aerr != nil || !acc.Equals(a) {
						continue
					}
					if f.Start+iv >= e.Height {
						justified = true
					}
					bound := e.Height - (e.Height-f.Start)%iv - iv
					for _, rec := range pre.Proofs {
						if rec.Prover == pr && rec.Owner == f.Owner && rec.Start == f.Start && bytes.Equal(rec.Merkle, f.Merkle) && rec.LastProven >= bound {
							justified = true
						}
					}
				}
			}
			if !justified {
				h.trace = append(h.trace, map[string]interface{}{"op": "RewardBlock", "height": e.Height, "paid": a.String(), "amount": e.Bal(a, "ujkl") - bal[string(a)]})
				h.finding("C01/reward-without-proof-in-the-judged-interval", "a reward block paid an account that is listed on no young file and whose every proof record is older than the start of its file's last closed proof interval: it stayed credited without submitting a proof")
				h.trace = h.trace[:len(h.trace)-1]
			}
			h.r.Hist("reward", "paid")
		} else if e.Bal(a, "ujkl") < bal[string(a)] {
			h.finding("C01/reward-block-debited", "a reward block lowered an account's balance")
		}
	}
	h.syncFiles(post)
	term := fmt.Sprintf("RewardBlock %s %s", cZ(e.Height), cZ(cw))
	h.count("RewardBlock", fmt.Sprint(aligned, len(paid) > 0), out, pre, post)
	h.cur = post
	return h.emit(pre, term, out, out == OutOk, post, paid, map[string]interface{}{"op": "RewardBlock", "height": e.Height, "check_window": cw, "paid": paidNames})
}
