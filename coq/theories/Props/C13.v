(* C13 — block emission is non-increasing, non-negative and fully distributed.
   Quantification: every run of consecutive blocks, the parameters of each block chosen
   freely among the valid ones (non-negative values, three ratios summing to at most 100,
   a stipend address that parses and is not a module account), from every state in which
   the mint module's balance and the stored previous emission are non-negative. *)
From Coq Require Import ZArith NArith List Bool.
From JK Require Import Base.Dec Base.AList Model.Mint Proofs.MintProofs.
Import ListNotations.
Open Scope Z_scope.

(* every block's emission e_k satisfies 0 <= e_k <= e_(k-1), the first one relative to the
   emission recorded for the block before the run (or TokensPerBlock if none is recorded) *)
Theorem C13_emission_non_negative_non_increasing :
  forall acc p ps s, Forall valid_params (p :: ps) -> ok_state acc s ->
    chain_le (prev_emission p s) (map r_emission (run_blocks acc (p :: ps) s)).
Proof. intros acc p ps s HV Hs. exact (proj1 (run_emissions acc (p :: ps) s HV Hs)). Qed.
Print Assumptions C13_emission_non_negative_non_increasing.

(* each block completes (records its emission) and the supply grows by exactly that emission *)
Theorem C13_supply_grows_by_exactly_emission :
  forall acc ps s, Forall valid_params ps -> ok_state acc s ->
    supplies_ok acc s (run_blocks acc ps s).
Proof. intros acc ps s HV Hs. exact (proj2 (run_emissions acc ps s HV Hs)). Qed.
Print Assumptions C13_supply_grows_by_exactly_emission.

(* the state before every block of a run is again a good state: the one-block theorems
   below therefore hold for every block of every run *)
Theorem C13_every_block_starts_in_good_state :
  forall acc ps s, Forall valid_params ps -> ok_state acc s -> ok_state acc (final_state acc ps s).
Proof. exact final_state_ok. Qed.
Print Assumptions C13_every_block_starts_in_good_state.

(* stakers (fee collector), developer grants and storage stipend each receive floor(e*ratio/100) *)
Theorem C13_split_exact :
  forall acc p s, valid_params p -> ok_state acc s ->
    NoDup [a_fee acc; a_dev acc; a_stip acc; a_mod acc] ->
    let r := block_mint acc p s in
    let e := r_emission r in
    bal (m_bank (r_state r)) (a_fee acc) = bal (m_bank s) (a_fee acc) + (staker_ratio p * e) / 100 /\
    bal (m_bank (r_state r)) (a_dev acc) = bal (m_bank s) (a_dev acc) + (dev_ratio p * e) / 100 /\
    bal (m_bank (r_state r)) (a_stip acc) = bal (m_bank s) (a_stip acc) + (prov_ratio p * e) / 100.
Proof. exact split_exact. Qed.
Print Assumptions C13_split_exact.

(* the mint module keeps e*(100 - sum of ratios)/100 plus a rounding remainder in [0, 3):
   with ratios summing to 100 it keeps fewer than three base units per block *)
Theorem C13_module_keeps_only_remainder :
  forall acc p s, valid_params p -> ok_state acc s ->
    a_mod acc <> a_fee acc -> a_mod acc <> a_dev acc -> a_mod acc <> a_stip acc ->
    let r := block_mint acc p s in
    let e := r_emission r in
    let kept := bal (m_bank (r_state r)) (a_mod acc) - bal (m_bank s) (a_mod acc) in
    let rest := 100 - (staker_ratio p + dev_ratio p + prov_ratio p) in
    0 <= 100 * kept - e * rest < 300.
Proof. exact module_remainder. Qed.
Print Assumptions C13_module_keeps_only_remainder.

Theorem C13_no_other_account_credited :
  forall acc p s y, valid_params p -> ok_state acc s ->
    y <> a_mod acc -> y <> a_fee acc -> y <> a_dev acc -> y <> a_stip acc ->
    bal (m_bank (r_state (block_mint acc p s))) y = bal (m_bank s) y.
Proof. exact others_untouched. Qed.
Print Assumptions C13_no_other_account_credited.

(* whatever accounts the three receivers are — also when two of them are the same account, e.g. the storage
   stipend routed to the developer-grants pool — every account's balance moves by exactly the shares addressed to
   it, and the mint module by the emission minus the three shares *)
Theorem C13_every_account_receives_the_shares_addressed_to_it :
  forall acc p s y, valid_params p -> ok_state acc s ->
  let r := block_mint acc p s in
  let e := r_emission r in
  bal (m_bank (r_state r)) y
  = bal (m_bank s) y
    + ind (N.eqb y (a_mod acc)) (e - (staker_ratio p * e) / 100 - (dev_ratio p * e) / 100 - (prov_ratio p * e) / 100)
    + ind (N.eqb y (a_fee acc)) ((staker_ratio p * e) / 100)
    + ind (N.eqb y (a_dev acc)) ((dev_ratio p * e) / 100)
    + ind (N.eqb y (a_stip acc)) ((prov_ratio p * e) / 100).
Proof. exact every_account_gets_its_shares. Qed.
Print Assumptions C13_every_account_receives_the_shares_addressed_to_it.

Theorem C13_split_when_stipend_is_the_developer_pool :
  forall acc p s, valid_params p -> ok_state acc s ->
  a_stip acc = a_dev acc -> a_dev acc <> a_fee acc -> a_dev acc <> a_mod acc -> a_fee acc <> a_mod acc ->
  let r := block_mint acc p s in
  let e := r_emission r in
  bal (m_bank (r_state r)) (a_dev acc) = bal (m_bank s) (a_dev acc) + (dev_ratio p * e) / 100 + (prov_ratio p * e) / 100 /\
  bal (m_bank (r_state r)) (a_fee acc) = bal (m_bank s) (a_fee acc) + (staker_ratio p * e) / 100.
Proof. exact split_when_stipend_is_dev_pool. Qed.
Print Assumptions C13_split_when_stipend_is_the_developer_pool.

(* non-vacuity: the default parameters are valid and three blocks from an empty state run *)
Example C13_default_run :
  let p := {| tokens_per_block := 4200000; mint_decrease := 6; staker_ratio := 80;
              dev_ratio := 8; prov_ratio := 12; stipend_ok := true |} in
  let acc := {| a_fee := 1; a_dev := 2; a_stip := 3; a_mod := 4 |}%N in
  let s := {| m_bank := []; m_supply := 0; m_last := None |} in
  map r_emission (run_blocks acc [p; p; p] s) = [4199999; 4199998; 4199997].
Proof. vm_compute. reflexivity. Qed.

(* the clamp matters: without it the unrepaired formula goes negative *)
Example C13_raw_formula_goes_negative : mint_for_block_raw 1 bpy (2 * bpy) = -1.
Proof. vm_compute. reflexivity. Qed.

(* ---------------------------------------------------------------------------------------------
   Tie to the code by translation + proof: the functions below are GENERATED on every run from /repo's
   current Go source (translator/gen_gofuncs.go -> Gen/GoMint.v); the theorems say that the hand-written model the
   property theorems above are about computes what the generated function computes, for all arguments. *)
From Coq Require Import String.
From JK Require Import Base.GoSem Gen.GoMint Proofs.GoTieMint.

(* utils.GetMintForBlock is the model's emission schedule whenever the raw value fits int64 *)
Theorem C13_code_tie_GetMintForBlock :
  forall prev blocks decrease, blocks <> 0 -> in_int64 (mint_for_block_raw prev blocks decrease) = true ->
    gen_GetMintForBlock prev blocks decrease = GVal (mint_for_block prev blocks decrease).
Proof. exact gen_GetMintForBlock_model. Qed.
Print Assumptions C13_code_tie_GetMintForBlock.

(* keeper.BlockMint mints the model's emission, hands that same amount to the three split functions in the
   order stakers, developer grants, storage stipend, stops at the first one that reports an error, and records
   that same amount only after all three succeeded *)
Theorem C13_code_tie_BlockMint :
  forall acc p s ok_mint ok_staker ok_dev ok_stipend,
    in_int64 (mint_for_block_raw (prev_of p s) bpy (mint_decrease p)) = true ->
    gen_BlockMint (tokens_per_block p) (mint_decrease p)
      (match m_last s with Some _ => true | None => false end) (match m_last s with Some m => m | None => 0 end)
      ok_mint ok_staker ok_dev ok_stipend
    = GVal (blockmint_events (r_emission (block_mint acc p s)) ok_mint ok_staker ok_dev ok_stipend).
Proof. exact gen_BlockMint_model. Qed.
Print Assumptions C13_code_tie_BlockMint.

(* the split functions hand the bank the model's [share] of the emission (rounded down), nothing else *)
Theorem C13_code_tie_split_functions :
  forall e ratio ok x, BeginBlock.share64 ratio e = Some x -> 0 <= x ->
    x = share ratio e /\
    gen_mintStaker e ratio ok = GVal ([Ev "to-stakers"%string [x]], ok) /\
    gen_mintStipend e ratio ok = GVal ([Ev "to-stipend"%string [x]], ok).
Proof.
  intros e ratio ok x Hx H0. split; [exact (share64_share ratio e x Hx)|].
  rewrite gen_mintStaker_spec, gen_mintStipend_spec, Hx.
  destruct (Z.ltb_spec x 0); [exfalso; apply (Z.lt_irrefl x); apply (Z.lt_le_trans _ 0); assumption|].
  split; reflexivity.
Qed.
Print Assumptions C13_code_tie_split_functions.

(* the model records a block exactly when each of its three transfers succeeds *)
Theorem C13_code_tie_recorded_iff_all_transfers :
  forall acc p s,
    let e := r_emission (block_mint acc p s) in
    let b0 := credit (m_bank s) (a_mod acc) e in
    r_recorded (block_mint acc p s) = true <->
    exists b1 b2 b3,
      pay acc b0 (a_fee acc) (share (staker_ratio p) e) = Some b1 /\
      pay acc b1 (a_dev acc) (share (dev_ratio p) e) = Some b2 /\
      stipend_ok p = true /\
      pay acc b2 (a_stip acc) (share (prov_ratio p) e) = Some b3.
Proof. exact block_mint_recorded_iff. Qed.
Print Assumptions C13_code_tie_recorded_iff_all_transfers.
