(* C04 — storage payments are charged exactly and split without misdirecting tokens.

   Quantification: every state (balances arbitrary; non-negativity and distinct account keys are
   an inductive invariant, proved preserved), every block context and parameter set (the split
   bounds need 0 <= ReferralCommission, 0 <= PolRatio, ReferralCommission + PolRatio <= 100:
   [valid_env]), every message.  [ind a y x] is x if a = y and 0 otherwise, so the balance
   equations below hold for EVERY account y, also when roles coincide (a referrer that is the
   liquidity account, ...).  The price itself ([base_price]: tiers, upgrade credit, feed) is
   the model's; its agreement with the code is established by the correspondence runs. *)
From Coq Require Import ZArith NArith List Bool Lia.
From JK Require Import Base.Dec Base.AList Model.StoragePay Proofs.StoragePayProofs.
Import ListNotations.
Open Scope Z_scope.

(* A successful purchase: with p the base price the model computes (storage cost, or the upgrade
   price of a running plan) and d the referral discount in percent (0, 5 or 10),
     toPay = p*(100-d) quot 100   is debited from the payer,
     spc   = toPay*(100-ref-pol) quot 100  goes to the escrow account of the gauge keyed
             (height, end, spc), whose recorded coins grow by exactly spc,
     polc  = toPay*(pol-d) quot 100  goes to the liquidity account,
     refc  = toPay*ref quot 100  goes to the referrer if the referral resolves to an account
             other than the payer's, else to the fee collector ([q_rcpt]),
     the storage module keeps toPay - spc - polc - refc, which is >= 0 for parameters in range,
   and no other balance changes. *)
Theorem C04_buy_storage_conservation :
  forall e m s s', buy_storage e m s = (Ok, s') ->
  exists p used, base_price e m s = BPrice p used /\
    let sp := buy_split e m p in
    let k := buy_key e m p in
    let payer := AUser (b_payer m) in
    0 <= sp_pay sp <= p /\ 0 <= sp_gauge sp /\ 0 <= sp_pol sp /\ 0 <= sp_ref sp /\
    (forall y, bal (s_bank s') y =
       bal (s_bank s) y - ind payer y (sp_pay sp) + ind (escrow k) y (sp_gauge sp) + ind APol y (sp_pol sp)
       + ind (q_rcpt m) y (sp_ref sp) + ind AMod y (sp_pay sp - sp_gauge sp - sp_pol sp - sp_ref sp)) /\
    recorded (s_gauges s') k = recorded (s_gauges s) k + sp_gauge sp /\
    (forall k', k' <> k -> recorded (s_gauges s') k' = recorded (s_gauges s) k') /\
    (valid_env e -> sp_gauge sp + sp_pol sp + sp_ref sp <= sp_pay sp).
Proof. exact buy_conservation. Qed.
Print Assumptions C04_buy_storage_conservation.

(* the shares are exact floors, hence within one base unit of their percentage of the amount paid;
   the liquidity percentage is the parameter lowered by the referral discount *)
Theorem C04_buy_shares_are_floors :
  forall e m p, valid_env e -> 0 <= p ->
  let sp := buy_split e m p in
  let t := sp_pay sp in
  let d := discount_pct m in
  t = p * (100 - d) / 100 /\
  sp_gauge sp = t * (100 - e_refc e - e_pol e) / 100 /\
  sp_ref sp = t * e_refc e / 100 /\
  (d <= e_pol e -> sp_pol sp = t * (e_pol e - d) / 100) /\
  (e_pol e < d -> sp_pol sp <= 0) /\
  (100 * sp_gauge sp <= t * (100 - e_refc e - e_pol e) < 100 * sp_gauge sp + 100) /\
  (100 * sp_ref sp <= t * e_refc e < 100 * sp_ref sp + 100) /\
  (d <= e_pol e -> 100 * sp_pol sp <= t * (e_pol e - d) < 100 * sp_pol sp + 100).
Proof. exact buy_shares_floor. Qed.
Print Assumptions C04_buy_shares_are_floors.

(* who receives the referral share: the fee collector when the referral does not resolve or
   resolves to the payer's own account (whatever its spelling), else the resolved account,
   which is not the payer's *)
Theorem C04_referral_recipient :
  forall m,
  (q_rcpt m = AFee /\ (resolve (b_ref m) = None \/ resolve (b_ref m) = Some (AUser (b_payer m)))) \/
  (resolve (b_ref m) = Some (q_rcpt m) /\ q_rcpt m <> AUser (b_payer m)).
Proof. exact q_rcpt_cases. Qed.
Print Assumptions C04_referral_recipient.

(* the payer is debited exactly the amount charged, can afford it, and is never credited *)
Theorem C04_buy_payer_debited_exactly :
  forall e m s s', (forall a, 0 <= bal (s_bank s) a) ->
  buy_storage e m s = (Ok, s') ->
  exists p used, base_price e m s = BPrice p used /\
    bal (s_bank s') (AUser (b_payer m)) = bal (s_bank s) (AUser (b_payer m)) - sp_pay (buy_split e m p) /\
    sp_pay (buy_split e m p) <= bal (s_bank s) (AUser (b_payer m)).
Proof. exact buy_payer_exact. Qed.
Print Assumptions C04_buy_payer_debited_exactly.

(* a purchase that fails or panics changes nothing *)
Theorem C04_buy_storage_fail_noop :
  forall e m s o s', buy_storage e m s = (o, s') -> o <> Ok -> s' = s.
Proof. exact buy_fail_noop. Qed.
Print Assumptions C04_buy_storage_fail_noop.

(* one-time-payment PostFile: payer -cost (the model's GetStorageCostKbs), the new gauge's escrow
   +spc = cost*(100-ref-pol) quot 100 = what the gauge records, the module keeps cost - spc >= 0,
   nobody else changes, no payment info changes *)
Theorem C04_post_file_payonce_conservation :
  forall e m s s', post_file e m s = Some (Ok, s') ->
  exists cost, storage_cost_kbs (e_ppt e) (e_jkl e) (post_kbs m) (post_hours e m) = Some cost /\
    let spc := Z.quot (cost * (100 - e_refc e - e_pol e)) 100 in
    let k : gkey := (e_height e, pm_end_us m, spc) in
    let payer := AUser (pm_payer m) in
    0 <= cost /\ 0 <= spc /\
    (forall y, bal (s_bank s') y =
       bal (s_bank s) y - ind payer y cost + ind (escrow k) y spc + ind AMod y (cost - spc)) /\
    recorded (s_gauges s') k = recorded (s_gauges s) k + spc /\
    (forall k', k' <> k -> recorded (s_gauges s') k' = recorded (s_gauges s) k') /\
    s_plans s' = s_plans s /\
    (valid_env e -> spc = cost * (100 - e_refc e - e_pol e) / 100 /\ spc <= cost).
Proof. exact post_conservation. Qed.
Print Assumptions C04_post_file_payonce_conservation.

Theorem C04_post_file_fail_noop :
  forall e m s o s', post_file e m s = Some (o, s') -> o <> Ok -> s' = s.
Proof. exact post_fail_noop. Qed.
Print Assumptions C04_post_file_fail_noop.

(* histories: over every sequence of purchases and posts (contexts, parameters and messages
   arbitrary, including parameter sets out of range) the sum of all balances - the supply -
   is constant, no balance becomes negative, and every gauge stays backed by its escrow
   account (recorded coins <= escrow balance) *)
Theorem C04_history_supply_conserved :
  forall ops s, inv s -> inv (run ops s) /\ total (s_bank (run ops s)) = total (s_bank s).
Proof. exact run_inv. Qed.
Print Assumptions C04_history_supply_conserved.

Theorem C04_initial_state_ok : inv {| s_bank := []; s_gauges := []; s_plans := [] |}.
Proof. exact inv_empty. Qed.
Print Assumptions C04_initial_state_ok.

(* ---------- non-vacuity ---------- *)

Definition ex_env : env :=
  {| e_height := 12; e_now := 1700000000000000000; e_ppt := 8; e_refc := 25; e_pol := 40; e_jkl := 200000000000000000 |}.
Definition ex_buy (ref : refspec) : buy_msg :=
  {| b_payer := 1; b_for := Some (AUser 1); b_days := 30; b_bytes := 3000000000; b_ujkl := true; b_ref := ref; b_ref_blocked := false |}.
Definition ex_state : pstate :=
  {| s_bank := [(AUser 1%N, 1000000); (AMod, 7)]; s_gauges := []; s_plans := [] |}.

(* the referred purchase of 3 GB for 30 days: 39999 before, 35999 after the discount; the referrer
   gets 8999 (25%), the liquidity account 10799 (30%), the gauge 12599 (35%), the module keeps 3602 *)
Example C04_referred_purchase :
  let '(o, s') := buy_storage ex_env (ex_buy (RefAddr (AUser 2%N))) ex_state in
  o = Ok /\ valid_env ex_env /\
  map (bal (s_bank s')) [AUser 1%N; AUser 2%N; APol; AEscrow 12 1702592000000000 12599; AMod; AFee]
    = [1000000 - 35999; 8999; 10799; 12599; 7 + 3602; 0] /\
  s_gauges s' = [((12, 1702592000000000, 12599), 12599)].
Proof. vm_compute. repeat split; discriminate. Qed.

(* self-referral (the referral resolves to the payer's account): no discount, fee collector paid *)
Example C04_self_referred_purchase :
  let '(o, s') := buy_storage ex_env (ex_buy (RefAddr (AUser 1%N))) ex_state in
  o = Ok /\ map (bal (s_bank s')) [AUser 1%N; APol; AFee; AMod] = [1000000 - 39999; 15999; 9999; 7 + 2].
Proof. vm_compute. repeat split. Qed.

(* a payer who cannot afford it: Fail, nothing changes *)
Example C04_poor_payer :
  buy_storage ex_env (ex_buy RefNone) {| s_bank := [(AUser 1%N, 39998)]; s_gauges := []; s_plans := [] |}
  = (Fail, {| s_bank := [(AUser 1%N, 39998)]; s_gauges := []; s_plans := [] |}).
Proof. vm_compute. reflexivity. Qed.

(* two equal purchases (by two accounts) in one block meet in one gauge, which records both
   deposits; then a pay-once post *)
Definition ex_state2 : pstate :=
  {| s_bank := [(AUser 1%N, 1000000); (AUser 2%N, 500000); (AMod, 7)]; s_gauges := []; s_plans := [] |}.
Definition ex_buy2 : buy_msg :=
  {| b_payer := 2; b_for := Some (AUser 2); b_days := 30; b_bytes := 3000000000; b_ujkl := true; b_ref := RefNone; b_ref_blocked := false |}.
Example C04_history :
  let ops := [OBuy ex_env (ex_buy RefNone); OBuy ex_env ex_buy2;
              OPost ex_env {| pm_payer := 1; pm_note_ok := true; pm_size := 5000000; pm_maxproofs := 3;
                              pm_expires := 12 + 432000; pm_end_us := 1702592000000000; pm_end_ok := true |}] in
  let s' := run ops ex_state2 in
  inv ex_state2 /\
  s_gauges s' = [((12, 1702592000000000, 13999), 27998); ((12, 1702592000000000, 69), 69)] /\
  map (bal (s_bank s')) [AEscrow 12 1702592000000000 13999; AEscrow 12 1702592000000000 69] = [27998; 69] /\
  total (s_bank s') = 1500007.
Proof.
  split; [|vm_compute; repeat split; reflexivity].
  split; [split|].
  - repeat constructor; cbn; intuition discriminate.
  - intros a. unfold bal, aval. cbn. destruct (acct_eqb a (AUser 1)); [lia|].
    destruct (acct_eqb a (AUser 2)); [lia|]. destruct (acct_eqb a AMod); lia.
  - intros k. cbn. unfold bal, aval. cbn. destruct k as [[h e] a]. cbn. lia.
Qed.

(* ---------------------------------------------------------------------------------------------
   Tie to the code by translation + proof: the functions below are GENERATED on every run from /repo's
   current Go source (translator/gen_gofuncs.go -> Gen/GoPrice.v); the theorems say that the hand-written model the
   property theorems above are about computes what the generated function computes, for all arguments. *)
From Coq Require Import String.
From JK Require Import Base.GoSem Gen.GoPrice Proofs.GoTiePrice.

(* keeper.GetStorageCost and GetStorageCostKbsWithPrice are the model's price functions, for every price
   parameter, oracle price, size and duration (a zero oracle price is the Dec.Quo panic) *)
Theorem C04_code_tie_price_functions :
  forall ppt jkl amount hours,
    gen_GetStorageCost ppt jkl amount hours = of_option (storage_cost ppt jkl amount hours) /\
    gen_GetStorageCostKbsWithPrice ppt jkl amount hours = of_option (storage_cost_kbs ppt jkl amount hours).
Proof.
  intros. exact (conj (gen_GetStorageCost_model ppt jkl amount hours)
                      (gen_GetStorageCostKbsWithPrice_model ppt jkl amount hours)).
Qed.
Print Assumptions C04_code_tie_price_functions.

From JK Require Import Proofs.GoTiePost.

(* the one-time-payment branch of the storage PostFile handler, generated from the current source as a whole: what is
   written, the gauge opened with the providers' share, the creator charged the price for the kilobytes and hours the
   model computes, the gauge funded with that same share -- in this order, refusals and panics where the model has
   them; and the model's step is the interpretation of exactly these events with its bank's answers *)
Theorem C04_code_tie_PostFile_one_time_payment :
  forall window h size maxp expires ppt jkl refc polr creator_ok gauge_acc_ok ok_charge ok_fund found plan_over avail used,
    0 < expires ->
    gen_PostFile true window h size maxp expires ppt jkl refc polr creator_ok gauge_acc_ok ok_charge ok_fund found plan_over avail used
    = payonce_events window h size maxp expires ppt jkl refc polr creator_ok gauge_acc_ok ok_charge ok_fund.
Proof.
  intros. rewrite gen_PostFile_spec. cbn [negb].
  destruct (Z.ltb_spec 0 expires); [reflexivity|]. exfalso. apply (Z.lt_irrefl 0). eapply Z.lt_le_trans; eassumption.
Qed.
Print Assumptions C04_code_tie_PostFile_one_time_payment.

Theorem C04_code_tie_model_post_file_interprets_the_events :
  forall e m s window,
    0 < pm_size m -> 0 < pm_maxproofs m -> pm_size m <= Z.quot int64_max (pm_maxproofs m) ->
    pm_note_ok m = true -> 0 < pm_expires m -> pm_end_ok m = true ->
    let cost := match storage_cost_kbs (e_ppt e) (e_jkl e) (payonce_kbs (pm_size m) (pm_maxproofs m))
                        (payonce_hours (pm_expires m) (e_height e)) with Some c => c | None => 0 end in
    let spc := dtrunc (dmul (dec cost) (dec 1 - dquo_int (dec (e_refc e)) 100 - dquo_int (dec (e_pol e)) 100)) in
    let payer := AUser (pm_payer m) in
    let k : gkey := (e_height e, pm_end_us m, spc) in
    let b1 := send (s_bank s) payer AMod cost in
    let b2 := match b1 with Some b => send b AMod (escrow k) spc | None => None end in
    post_file e m s
    = Some (match payonce_events window (e_height e) (pm_size m) (pm_maxproofs m) (pm_expires m)
                    (e_ppt e) (e_jkl e) (e_refc e) (e_pol e) true true (is_some b1) (is_some b2) with
            | GPanic => (Panic, s)
            | GVal (_, false) => (Fail, s)
            | GVal (_, true) =>
                match b2 with
                | Some b => (Ok, {| s_bank := b; s_gauges := new_gauge (s_gauges s) k spc; s_plans := s_plans s |})
                | None => (Fail, s)
                end
            end).
Proof. intros e m s window H1 H2 H3 H4 H5 H6. exact (storagepay_post_file_is_the_interpretation e m s H1 H2 H3 H4 H5 H6 window). Qed.
Print Assumptions C04_code_tie_model_post_file_interprets_the_events.

From JK Require Import Proofs.GoTieBuy.

(* the whole BuyStorage handler (with validateBuy and UpgradeStorage), generated from the current source: 25 reads,
   8 effects.  It computes the closed form [buy_spec]/[buy_tail] of Proofs/GoTieBuy.v, written with the constants and
   the price function of Model/StoragePay.v: refusals before any effect; the base price (storage cost, or the upgrade
   price of a running plan); the referral discount only for a referrer that resolves and is not the creator's account;
   the creator charged that amount; the plan written; the providers' share put into the gauge; the liquidity share to
   the liquidity account; the referral commission to the referrer -- or to the stakers without one -- each share the
   truncated product of the amount charged with its ratio, in this order *)
Theorem C04_code_tie_BuyStorage :
  forall for_resolves days bytes not_ujkl for_ok acc_exists found plan_used plan_avail plan_end now ppt jkl
         ref_resolves creator_ok ref_is_creator polr refc ok_charge gauge_acc_ok ok_fund pol_acc_ok ok_pol ok_ref ok_fees,
    int64_min <= bytes <= int64_max -> int64_min <= plan_avail <= int64_max ->
    gen_BuyStorage for_resolves days bytes not_ujkl for_ok acc_exists found plan_used plan_avail plan_end now ppt jkl
                   ref_resolves creator_ok ref_is_creator polr refc ok_charge gauge_acc_ok ok_fund pol_acc_ok ok_pol ok_ref ok_fees
    = buy_spec for_resolves days bytes not_ujkl for_ok acc_exists found plan_used plan_avail plan_end now ppt jkl
               ref_resolves creator_ok ref_is_creator polr refc ok_charge gauge_acc_ok ok_fund pol_acc_ok ok_pol ok_ref ok_fees.
Proof. exact gen_BuyStorage_spec. Qed.
Print Assumptions C04_code_tie_BuyStorage.

From JK Require Import Proofs.GoTieBuyModel.

(* ... and the model's BuyStorage step follows that closed form on the reads taken from its own state, with the answers
   its bank gives to the four transfers for the amounts the model computes: same refusals, same panics, success
   exactly when every transfer is answered (that the two hour counts fit int64 - they are an int64 count of
   nanoseconds divided by 3.6e12 - is proved, Proofs/HoursRange.v) *)
Theorem C04_code_tie_model_buy_storage_follows :
  forall e m s fa acc_exists,
    0 < b_days m -> b_for m = Some fa ->
    let '(okc, okf, okp, okr) := oracles e m s in
    let pl := the_plan s fa in
    buy_storage e m s
    = verdict s (buy_spec true (b_days m) (b_bytes m) (negb (b_ujkl m)) true acc_exists (GoTieBuyModel.is_some pl)
                   (match pl with Some pi => p_used pi | None => 0 end) (match pl with Some pi => p_avail pi | None => 0 end)
                   (match pl with Some pi => p_end pi | None => 0 end) (e_now e) (e_ppt e) (e_jkl e)
                   (ref_resolves m) true (ref_is_creator m) (e_pol e) (e_refc e) okc true okf true okp okr okr)
                (buy_storage e m s).
Proof. exact buy_storage_follows_the_closed_form. Qed.
Print Assumptions C04_code_tie_model_buy_storage_follows.
