(* C05 — no sequence of valid transactions can make block processing panic.

   The begin/end blockers of the custom modules are storage.RunRewardBlock and
   jklmint.BlockMint (all others are empty).  Model/BeginBlock.v writes out every panic
   source of both as an explicit Panic outcome.  The theorems quantify over every state
   satisfying the invariant Inv (Proofs/BeginBlockProofs.v), every chain of blocks with
   non-decreasing block time and arbitrary heights, and every sequence of operations in
   every block: file posts, prover keys listed (only keys not yet listed, as PostProof does) / proven /
   dropped, deletions, gauges opened
   (end at least a microsecond after the block time, or not after it), topped up in the same block or donated to by anyone,
   governance changes of CheckWindow / ProofWindow accepted by the parameter validators.
   Operation validity only says what ValidateBasic, the bank and time.AddDate guarantee:
   amounts non-negative and below 2^62 base units (total supply bound), a gauge's end,
   when after its start, is at least one microsecond after it, validated windows are > 1. *)
From Coq Require Import ZArith NArith List Bool Lia.
From JK Require Import Base.Dec Model.Mint Model.BeginBlock Proofs.BeginBlockProofs.
Import ListNotations.
Open Scope Z_scope.

(* after every admissible history the state again satisfies the invariant and no begin-block
   along the way panicked *)
Theorem C05_chain_never_panics :
  forall ks b, Inv b -> chain_valid b ks -> exists b', run_chain b ks = Done b' /\ Inv b'.
Proof. exact chain_never_panics. Qed.
Print Assumptions C05_chain_never_panics.

(* ... hence begin-block of the NEXT block completes, whatever its height and (later) time *)
Theorem C05_storage_begin_block_never_panics :
  forall ks k b, Inv b -> chain_valid b (ks ++ [k]) ->
    exists b', run_chain b ks = Done b' /\ reward_block (bl_height k) (bl_time k) (b_s b') <> Panic.
Proof. intros ks k b. exact (begin_block_never_panics ks k b). Qed.
Print Assumptions C05_storage_begin_block_never_panics.

(* every valid operation preserves the invariant (the inductive step, stated on its own) *)
Theorem C05_valid_operations_preserve_invariant :
  forall b o, Inv b -> valid_op b o -> Inv (apply_op b o).
Proof. exact apply_op_inv. Qed.
Print Assumptions C05_valid_operations_preserve_invariant.

(* jklmint: for every parameter set accepted by the validators with ratios summing to at
   most 100 and every recorded previous emission in [0, 2^62), BlockMint does not panic *)
Theorem C05_mint_begin_block_never_panics :
  forall p s stip_parses, valid_params p -> mint_ok_state p s -> mint_panics true stip_parses p s = false.
Proof. exact mint_never_panics. Qed.
Print Assumptions C05_mint_begin_block_never_panics.

(* the genesis state satisfies the invariant *)
Definition genesis_state : bstate :=
  {| b_s := {| ss_check_window := 100; ss_files := []; ss_gauges := [] |};
     b_proof_window := 50; b_height := 1; b_now := 1700000000000000000 |}.
Theorem C05_genesis_satisfies_invariant : Inv genesis_state.
Proof. unfold Inv, genesis_state; cbn. repeat split; try lia; constructor. Qed.
Print Assumptions C05_genesis_satisfies_invariant.

(* non-vacuity: a chain with a file, a prover that stops proving (dropped at 200, the file at 300), a funded gauge, a top-up
   and a donation is admissible and runs through three reward blocks *)
Definition DAY : Z := 86400 * 1000000000.
Definition ex_chain : list block :=
  [ {| bl_height := 2; bl_time := 1700000000000000000 + 6000000000;
       bl_ops := [OpPostFile 3000; OpAddSlot 0 7%N true;
                  OpNewGauge (1700000000000000000 + 6000000000 + 30 * DAY) 1000000 true;
                  OpTopUpGauge 0 500; OpDonate 0 0 77] |};
    {| bl_height := 100; bl_time := 1700000000000000000 + 600000000000; bl_ops := [OpProve 0 0; OpSetWindows 2 5] |};
    {| bl_height := 200; bl_time := 1700000000000000000 + 10 * DAY + 123; bl_ops := [] |};
    {| bl_height := 300; bl_time := 1700000000000000000 + 31 * DAY; bl_ops := [] |} ].
Example C05_example_chain_runs :
  match run_chain genesis_state ex_chain with
  | Done b => (length (ss_files (b_s b)), length (ss_gauges (b_s b))) = (0%nat, 0%nat)
  | Panic => False
  end.
Proof. vm_compute. reflexivity. Qed.
Example C05_example_chain_valid : chain_valid genesis_state ex_chain.
Proof.
  unfold ex_chain. cbn [chain_valid bl_time bl_height bl_ops genesis_state b_now].
  split; [lia|]. intros s1 a1 E1. vm_compute in E1. injection E1 as <- <-.
  split.
  { cbn. unfold DAY. repeat split; try lia; try reflexivity; try (rewrite B62_val; lia).
    - intros f [=]; subst f. cbn. intros [].
    - intros g [=]; subst g. cbn. repeat constructor; rewrite B62_val; lia.
    - intros g c [=]; subst g. cbn. intros [=]; subst c. cbn. rewrite B62_val. lia. }
  cbn [fold_left]. split; [cbn; lia|]. intros s2 a2 E2. vm_compute in E2. injection E2 as <- <-.
  split; [cbn; repeat split; lia|].
  cbn [fold_left]. split; [cbn; unfold DAY; lia|]. intros s3 a3 E3. vm_compute in E3. injection E3 as <- <-.
  split; [exact I|].
  cbn [fold_left]. split; [cbn; unfold DAY; lia|]. intros s4 a4 E4. vm_compute in E4. injection E4 as <- <-.
  split; exact I.
Qed.

(* the Panic branches of the model are live: states OUTSIDE the invariant do panic, which is
   what the correspondence check replays against real Go panics *)
Example C05_zero_interval_panics :
  reward_block 100 0 {| ss_check_window := 100;
    ss_files := [{| bf_size := 5; bf_interval := 0; bf_start := 100; bf_slots := [{| sl_key := 1%N; sl_found := true; sl_last := 100 |}] |}];
    ss_gauges := [] |} = Panic.
Proof. vm_compute. reflexivity. Qed.
Example C05_key_listed_twice_panics :       (* slice bounds out of range in RemoveProverWithKey *)
  reward_block 200 0 {| ss_check_window := 100;
    ss_files := [{| bf_size := 5; bf_interval := 50; bf_start := 3;
                    bf_slots := [{| sl_key := 1%N; sl_found := false; sl_last := 0 |}; {| sl_key := 1%N; sl_found := false; sl_last := 0 |}] |}];
    ss_gauges := [] |} = Panic.
Proof. vm_compute. reflexivity. Qed.
Example C05_sub_microsecond_gauge_panics :
  reward_block 100 1200 {| ss_check_window := 100; ss_files := [];
    ss_gauges := [{| g_start := 1000; g_end := 1500; g_acct_ok := true; g_other := false;
                     g_coins := [{| gc_amt := 10; gc_bal := 10; gc_denom_ok := true |}] |}] |} = Panic.
Proof. vm_compute. reflexivity. Qed.
Example C05_underfunded_gauge_panics :
  reward_block 100 (1000 + 1000000000) {| ss_check_window := 100; ss_files := [];
    ss_gauges := [{| g_start := 1000; g_end := 1000 + 10 * 1000000000; g_acct_ok := true; g_other := false;
                     g_coins := [{| gc_amt := 1000; gc_bal := 5; gc_denom_ok := true |}] |}] |} = Panic.
Proof. vm_compute. reflexivity. Qed.
Example C05_unclamped_emission_would_panic :
  mint_panics true true {| tokens_per_block := 1; mint_decrease := 2 * bpy; staker_ratio := 80; dev_ratio := 8;
                           prov_ratio := 12; stipend_ok := true |}
              {| m_bank := []; m_supply := 0; m_last := Some 1 |} = false
  /\ mint_for_block_raw 1 bpy (2 * bpy) = -1.
Proof. vm_compute. split; reflexivity. Qed.

(* ---------------------------------------------------------------------------------------------
   Tie to the code by translation + proof: the functions below are GENERATED on every run from /repo's
   current Go source (translator/gen_gofuncs.go -> Gen/GoWindows.v and Gen/GoMint.v); the theorems say that the hand-written model the
   property theorems above are about computes what the generated function computes, for all arguments. *)
From Coq Require Import String.
From JK Require Import Base.GoSem Gen.GoWindows Gen.GoMint Proofs.GoTieWindows Proofs.GoTieMint.

(* where the generated begin-block code panics: the integer remainders by CheckWindow (R1) and by the file's proof
   interval (R2), exactly as Model/BeginBlock.v says *)
Theorem C05_code_tie_storage_panic_sites :
  forall f h found last size cw, small h -> small (bf_start f) -> small (bf_interval f) ->
    gen_manageProof (bf_start f) (bf_interval f) h size found (if found then last else 0)
    = gmap (fun v => verdict_events size (of_slot_verdict v)) (of_outcome (manage_slot f h found last)) /\
    gen_RunRewardBlock cw h
    = (if cw =? 0 then GPanic else GVal (if 0 <? Z.rem h cw then [] else [Ev "manage-rewards"%string []])).
Proof.
  intros f h found last size cw Hh Hs Hp. split; [|exact (gen_RunRewardBlock_spec cw h)].
  rewrite (gen_manageProof_spec _ _ h size found _ Hh Hs Hp), <- beginblock_manage_slot.
  destruct (manage_slot f h found last); reflexivity.
Qed.
Print Assumptions C05_code_tie_storage_panic_sites.

(* ... and in x/jklmint: the emission's TruncateInt64 (M1), the shares' TruncateInt64 (M3) and the staker coin's
   negative amount (M4), with the very expressions of Model/BeginBlock.v's mint_panics *)
Theorem C05_code_tie_mint_panic_sites :
  forall prev blocks decrease e ratio ok,
    gen_GetMintForBlock prev blocks decrease
    = (if blocks =? 0 then GPanic
       else match dtrunc64 (dec prev - dquo (dec decrease) (dec blocks)) with
            | None => GPanic
            | Some raw => GVal (if raw <? 0 then 0 else raw)
            end) /\
    gen_mintStaker e ratio ok
    = match share64 ratio e with
      | None => GPanic
      | Some x => if x <? 0 then GPanic else GVal ([Ev "to-stakers"%string [x]], ok)
      end /\
    gen_mintStipend e ratio ok
    = match share64 ratio e with None => GPanic | Some x => GVal ([Ev "to-stipend"%string [x]], ok) end.
Proof.
  intros. exact (conj (gen_GetMintForBlock_spec prev blocks decrease)
                (conj (gen_mintStaker_spec e ratio ok) (gen_mintStipend_spec e ratio ok))).
Qed.
Print Assumptions C05_code_tie_mint_panic_sites.

From JK Require Import Gen.GoGauge Gen.GoReward Proofs.GoTieGauge Proofs.GoTieReward.

(* ... and in the gauge release and the payout: the ratio's Quo by a zero duration (R3), the release's
   TruncateInt64 (R4), the negative coin of a release (R5) and of a payout, as the generated code has them *)
Theorem C05_code_tie_release_and_payout_panic_sites :
  forall start end_ now amount escrow ratio pct ok,
    gen_pullGauge start end_ now true false
    = (if end_ <? now then GVal [Ev "remove-gauge"%string []]
       else if end_ <=? start then GVal [Ev "remove-gauge"%string []]
       else if Z.quot (Gauge.tsub end_ start) 1000 =? 0 then GPanic
       else GVal [Ev "release-coins-at-ratio"%string
                    [dec 1 - dquo (dec (Z.quot (Gauge.tsub end_ now) 1000)) (dec (Z.quot (Gauge.tsub end_ start) 1000))]]) /\
    gen_pullCoin amount escrow ratio ok
    = match dtrunc64 (dmul ratio (dec amount) - dec (amount - escrow)) with
      | None => GPanic
      | Some amt => if amt =? 0 then GVal [] else if amt <? 0 then GPanic
                    else GVal [Ev "to-distribute"%string [amt]; Ev "escrow-to-module"%string [amt]]
      end /\
    gen_rewardCoin amount pct ok
    = (let owed := dtrunc (dmul pct (dec amount)) in if owed <? 0 then GPanic else GVal [Ev "pay"%string [owed]]).
Proof.
  intros start end_ now amount escrow ratio pct ok. split; [|split].
  - rewrite gen_pullGauge_model. unfold gauge_events, Gauge.gauge_ratio, Gauge.micros. cbn [Gauge.cempty].
    destruct (end_ <? now); [reflexivity|]. destruct (end_ <=? start); [reflexivity|].
    destruct (Z.quot (Gauge.tsub end_ start) 1000 =? 0); reflexivity.
  - rewrite gen_pullCoin_model. unfold Gauge.pull_coin.
    destruct (dtrunc64 _) as [amt|]; [|reflexivity].
    destruct (Z.eqb_spec amt 0) as [->|E]; [reflexivity|].
    destruct (amt <? 0); [reflexivity|].
    destruct (amt <=? escrow); destruct (Z.eqb_spec amt 0); try contradiction; reflexivity.
  - exact (gen_rewardCoin_spec amount pct ok).
Qed.
Print Assumptions C05_code_tie_release_and_payout_panic_sites.

(* ---------------------------------------------------------------------------------------------
   What the custom modules do at a block boundary, read from the current source on every run
   (translator/gen_blocks.go -> Gen/BlockRoutines.v): storage and jklmint call their BeginBlocker and nothing else,
   rns, filetree, notifications and oracle do nothing - which is what Model/BeginBlock.v covers.  A block routine added
   to any of them makes this theorem fail (or the table unreadable), and the begin-block theorems above are then no
   longer about all of the code that runs at a block boundary. *)
From JK Require Import Gen.BlockRoutines.
Theorem C05_code_tie_block_routines :
  block_routines =
  [("filetree"%string, ([], [])); ("jklmint"%string, (["BeginBlocker"%string], [])); ("notifications"%string, ([], []));
   ("oracle"%string, ([], [])); ("rns"%string, ([], [])); ("storage"%string, (["BeginBlocker"%string], []))].
Proof. reflexivity. Qed.
Print Assumptions C05_code_tie_block_routines.

(* ... and those BeginBlockers call exactly the two routines the model is about (generated from x/<module>/abci.go):
   keeper.RunRewardBlock (translated in Gen/GoWindows.v, with manageProof and the gauge / reward units) and
   keeper.BlockMint (Gen/GoMint.v) *)
Theorem C05_code_tie_blockers_call_the_modelled_routines :
  blocker_calls =
  [("filetree"%string, []); ("jklmint"%string, ["BeginBlocker:k.BlockMint"%string]); ("notifications"%string, []);
   ("oracle"%string, []); ("rns"%string, []); ("storage"%string, ["BeginBlocker:k.RunRewardBlock"%string])].
Proof. reflexivity. Qed.
Print Assumptions C05_code_tie_blockers_call_the_modelled_routines.
