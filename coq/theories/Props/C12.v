(* C12 — payment gauges stream linearly and never release more than the pro-rata deposit.

   Part 1 (one gauge, one denomination): for EVERY gauge interval [start, end] of at least one
   microsecond and at most 2^63-1 ns (what time.Duration can express), every recorded amount
   0 <= A <= 2^63-1 and EVERY non-decreasing sequence of reward-block times inside the interval
   (any length, any spacing, repeated timestamps, exactly start, exactly end), run_coin — the
   escrow balance across those reward blocks, computed with the code's own formula
   release = TruncateInt64(Mul(ratio, A) - (A - balance)) — never panics and ends at
   A - cum_at(last time): the cumulative release depends on the last reward time only.
   cum_at is within the stated bounds of A*e/D (e, D elapsed and total whole microseconds),
   monotone, 0 at start, A at end.

   Part 2 (the whole gauge state): for every state satisfying the inductive invariant Inv and
   every history of gauge creations (NewGauge + funding, including repeated creations under
   one id in one block) and reward blocks with non-decreasing block times, no reward block
   panics, Inv is preserved, after each reward block every listed gauge's account holds, per
   denomination, exactly recorded - cum_at(block time); a reward block acts on each gauge's
   account as a function of that gauge and that account alone and touches no other account.

   Assumptions (all explicit hypotheses below): block time does not decrease; gauge accounts
   receive tokens only through the creating handler's funding transfer (op_ok: a new id's
   account is empty); an id is reused only by a creation at the same block time with the same
   end (ids hash height, end and coins); recorded amounts fit int64; 1 us <= end - start <=
   2^63-1 ns (BuyStorage: >= 30 days, PostFile: >= 1 day; both add an int64 duration).

   "Up to any reward block" is read as reward blocks inside [start, end]: the first reward
   block past the end removes the gauge without releasing anything, so whatever was not yet
   released at the last block inside the interval stays in the gauge account for good
   (C12_unreleased_tail_stays_in_account, C12_tail_example). *)
From Coq Require Import ZArith NArith List Bool Lia.
From JK Require Import Base.Dec Base.AList Model.Gauge Proofs.GaugeProofs.
Import ListNotations.
Open Scope Z_scope.

(* ---------------- Part 1: one gauge, one denomination ---------------- *)

Theorem C12_gauge_cumulative_closed_form :
  forall start end_ A ts,
    wf_interval start end_ -> 0 <= A <= int64_max ->
    nondecr start ts -> last ts start <= end_ -> ts <> [] ->
    run_coin start end_ A ts A = Some (A - cum_at start end_ A (last ts start)).
Proof. exact closed_form_fresh. Qed.
Print Assumptions C12_gauge_cumulative_closed_form.

(* the same from any point of a gauge's life: whatever was released before (anything between
   0 and the pro-rata amount of an earlier instant t0) leaves no trace *)
Theorem C12_gauge_closed_form_from_any_point :
  forall start end_ A ts t0 c,
    wf_interval start end_ -> 0 <= A <= int64_max ->
    nondecr t0 ts -> start <= t0 -> last ts t0 <= end_ -> ts <> [] ->
    0 <= c <= cum_at start end_ A t0 ->
    run_coin start end_ A ts (A - c) = Some (A - cum_at start end_ A (last ts t0)).
Proof. exact closed_form_from_any_point. Qed.
Print Assumptions C12_gauge_closed_form_from_any_point.

(* A*e/D - 1 - A*10^-18 < cum <= A*e/D + A*10^-18, multiplied out by D*10^18 *)
Theorem C12_gauge_cumulative_bounds :
  forall start end_ A t,
    wf_interval start end_ -> start <= t <= end_ -> 0 <= A ->
    let D := usec (end_ - start) in
    let e := D - usec (end_ - t) in
    let cum := cum_at start end_ A t in
    D * P18 * cum <= A * e * P18 + A * D /\
    A * e * P18 - A * D - D * P18 < D * P18 * cum.
Proof. exact cum_at_bounds. Qed.
Print Assumptions C12_gauge_cumulative_bounds.

(* within one base unit of floor(A*e/D) for amounts up to 10^18 base units *)
Theorem C12_gauge_within_one_base_unit :
  forall start end_ A t,
    wf_interval start end_ -> start <= t <= end_ -> 0 <= A <= P18 ->
    let D := usec (end_ - start) in
    let e := D - usec (end_ - t) in
    (A * e) / D - 1 <= cum_at start end_ A t <= (A * e) / D + 1.
Proof. exact cum_at_within_one. Qed.
Print Assumptions C12_gauge_within_one_base_unit.

Theorem C12_gauge_monotone :
  forall start end_ A t t',
    wf_interval start end_ -> start <= t -> t <= t' -> t' <= end_ -> 0 <= A ->
    cum_at start end_ A t <= cum_at start end_ A t'.
Proof. exact cum_at_mono. Qed.
Print Assumptions C12_gauge_monotone.

Theorem C12_gauge_never_exceeds_deposit :
  forall start end_ A t,
    wf_interval start end_ -> start <= t <= end_ -> 0 <= A ->
    0 <= cum_at start end_ A t <= A /\ cum_at start end_ A start = 0 /\ cum_at start end_ A end_ = A.
Proof. exact cum_at_range. Qed.
Print Assumptions C12_gauge_never_exceeds_deposit.

(* each block's release is the difference of two cumulative amounts: it is non-negative (no
   NewInt64Coin panic), within int64 (no TruncateInt64 panic) and covered by the balance *)
Theorem C12_release_never_negative_hence_no_panic :
  forall start end_ A t c,
    wf_interval start end_ -> 0 <= A <= int64_max -> start <= t <= end_ ->
    0 <= c <= cum_at start end_ A t ->
    exists m, gauge_ratio start end_ t = Some (rat (usec (end_ - t)) (usec (end_ - start))) /\
      pull_coin (rat (usec (end_ - t)) (usec (end_ - start))) (A - c) A = CMove m m /\
      0 <= m <= A - c /\ m = cum_at start end_ A t - c.
Proof. exact run_coin_step_nonneg. Qed.
Print Assumptions C12_release_never_negative_hence_no_panic.

Theorem C12_nothing_released_after_end :
  forall start end_ A t r bal, end_ < t -> run_coin start end_ A (t :: r) bal = Some bal.
Proof. exact run_coin_past_end. Qed.
Print Assumptions C12_nothing_released_after_end.

(* ---------------- Part 2: all gauges, all denominations, histories ---------------- *)

(* every history from the empty state that respects op_ok runs without a panic and ends in a
   state satisfying Inv *)
Theorem C12_histories_never_panic_and_keep_invariant :
  forall t0 ops, hist_ok t0 gempty ops ->
    exists s, grun gempty ops = Some s /\ Inv (end_time t0 ops) s.
Proof. exact history_never_panics. Qed.
Print Assumptions C12_histories_never_panic_and_keep_invariant.

Theorem C12_invariant_inductive :
  forall ops tl s, Inv tl s -> hist_ok tl s ops ->
    exists s', grun s ops = Some s' /\ Inv (end_time tl ops) s'.
Proof. exact run_ok. Qed.
Print Assumptions C12_invariant_inductive.

(* in every good state the account of a listed gauge holds between 0 and the recorded amount,
   and what has left it is at most the pro-rata amount at the last block time (capped at end) *)
Theorem C12_account_between_zero_and_deposit :
  forall tl s id g d A,
    Inv tl s -> aget N.eqb (gs_gauges s) id = Some g -> In (d, A) (g_coins g) ->
    0 <= cval (escrow_of s id) d <= A /\
    A - cval (escrow_of s id) d <= cumf (g_start g) (g_end g) A (Z.min tl (g_end g)).
Proof. exact inv_balance_range. Qed.
Print Assumptions C12_account_between_zero_and_deposit.

(* a reward block from a good state: no panic; the gauges still listed are inside their
   interval and their accounts hold exactly recorded - closed form at this block's time, for
   every denomination; accounts of ids that are not listed are untouched; each listed gauge's
   account changes as pull_one of that gauge and that account alone says *)
Theorem C12_reward_block_closed_form_and_independence :
  forall tl s now, Inv tl s -> tl <= now ->
    exists s', reward_block s now = Some s' /\ Inv now s' /\
      (forall id g, aget N.eqb (gs_gauges s') id = Some g ->
         aget N.eqb (gs_gauges s) id = Some g /\ now <= g_end g /\
         forall d A, In (d, A) (g_coins g) ->
           cval (escrow_of s' id) d = A - cumf (g_start g) (g_end g) A now) /\
      (forall id, aget N.eqb (gs_gauges s) id = None ->
         escrow_of s' id = escrow_of s id /\ aget N.eqb (gs_gauges s') id = None) /\
      (forall id g, aget N.eqb (gs_gauges s) id = Some g -> exists keep b mv,
         pull_one now g (escrow_of s id) = GDone keep b mv /\ escrow_of s' id = b /\
         aget N.eqb (gs_gauges s') id = if keep then Some g else None).
Proof. exact reward_block_ok. Qed.
Print Assumptions C12_reward_block_closed_form_and_independence.

(* cumf is cum_at (the model's TruncateInt(Mul(ratio, A))) on the interval *)
Theorem C12_closed_form_is_the_coded_formula :
  forall start end_ A t, wf_interval start end_ -> start <= t <= end_ -> 0 <= A ->
    cum_at start end_ A t = cumf start end_ A t.
Proof. exact cum_at_closed. Qed.
Print Assumptions C12_closed_form_is_the_coded_formula.

(* no reward block ever credits a gauge account or drives it below zero *)
Theorem C12_reward_block_never_credits_an_account :
  forall tl s now, Inv tl s -> tl <= now ->
    exists s', reward_block s now = Some s' /\
      forall id d, 0 <= cval (escrow_of s' id) d <= cval (escrow_of s id) d \/
                   (aget N.eqb (gs_gauges s) id = None /\ escrow_of s' id = escrow_of s id).
Proof. exact reward_block_never_credits. Qed.
Print Assumptions C12_reward_block_never_credits_an_account.

(* the first reward block past a gauge's end removes it and releases nothing from it ... *)
Theorem C12_nothing_released_outside_interval :
  forall tl s now id g,
    Inv tl s -> tl <= now -> aget N.eqb (gs_gauges s) id = Some g -> g_end g < now ->
    exists s', reward_block s now = Some s' /\
      escrow_of s' id = escrow_of s id /\ aget N.eqb (gs_gauges s') id = None.
Proof. exact reward_block_past_end. Qed.
Print Assumptions C12_nothing_released_outside_interval.

(* ... and from then on no reward block touches its account: the unreleased tail stays there *)
Theorem C12_unreleased_tail_stays_in_account :
  forall tl s now id, Inv tl s -> tl <= now -> aget N.eqb (gs_gauges s) id = None ->
    exists s', reward_block s now = Some s' /\ escrow_of s' id = escrow_of s id /\
               aget N.eqb (gs_gauges s') id = None.
Proof. exact reward_block_frame. Qed.
Print Assumptions C12_unreleased_tail_stays_in_account.

(* what leaves the gauge accounts in a reward block arrives in the reward pool (the storage
   module account): per denomination, pool + all gauge accounts is unchanged *)
Theorem C12_released_tokens_arrive_in_reward_pool :
  forall tl s now, Inv tl s -> tl <= now -> NoDup (akeys (gs_escrow s)) ->
    exists s', reward_block s now = Some s' /\ NoDup (akeys (gs_escrow s')) /\
               forall d, tot d s' = tot d s.
Proof. exact reward_block_conserves. Qed.
Print Assumptions C12_released_tokens_arrive_in_reward_pool.

(* the side condition of the previous theorem holds along every admissible history *)
Theorem C12_histories_keep_invariant_and_distinct_accounts :
  forall ops tl s, Inv tl s -> NoDup (akeys (gs_escrow s)) -> hist_ok tl s ops ->
    exists s', grun s ops = Some s' /\ Inv (end_time tl ops) s' /\ NoDup (akeys (gs_escrow s')).
Proof. exact run_conserving. Qed.
Print Assumptions C12_histories_keep_invariant_and_distinct_accounts.

(* a creation keeps the invariant; under an id that is listed already (same block) the
   recorded coins and the account both grow by the deposit *)
Theorem C12_creation_keeps_invariant :
  forall tl s id now e cs,
    Inv tl s -> op_ok tl s (OpCreate id now e cs) -> Inv now (create_gauge s id now e cs).
Proof. exact create_ok. Qed.
Print Assumptions C12_creation_keeps_invariant.

(* ---------------- non-vacuity ---------------- *)

(* a 1000 s gauge of 13999: irregular times, repeated timestamps, exactly start and end *)
Example C12_run_example :
  let s := 1700000000000000000 in
  let e := s + 1000 * 10 ^ 9 in
  wf_interval s e /\
  nondecr s [s; s + 1; s + 10 ^ 11; s + 10 ^ 11; s + 10 ^ 11 + 1; s + 999999999999; e] /\
  run_coin s e 13999 [s; s + 1; s + 10 ^ 11] 13999 = Some (13999 - 1399) /\
  run_coin s e 13999 [s + 10 ^ 11] 13999 = Some (13999 - 1399) /\
  run_coin s e 13999 [s; s + 1; s + 10 ^ 11; s + 10 ^ 11; s + 10 ^ 11 + 1; s + 999999999999; e] 13999 = Some 0 /\
  cum_at s e 13999 (s + 999999999999) = 13999 /\ cum_at s e 13999 (s + 999998999999) = 13998.
Proof. vm_compute. repeat split; try discriminate; reflexivity. Qed.

(* two equal creations in one block share an id: the record and the account both hold the sum;
   after 10 % of the time 10 % of the sum is released; the first block past the end removes
   the gauge and leaves the unreleased 25198 in its account *)
Definition C12_ex_end : Z := 1000000001000.
Definition C12_ex_coins : coins := [(2%N, 13999)].
Definition C12_ex_rewards : list gop :=
  [OpReward 100000001000; OpReward 1000000001001; OpReward 2000000001000].
Definition C12_ex_ops : list gop :=
  OpCreate 1 1000 C12_ex_end C12_ex_coins :: OpCreate 1 1000 C12_ex_end C12_ex_coins :: C12_ex_rewards.

Example C12_tail_example :
  option_map (fun s => (length (gs_gauges s), cval (escrow_of s 1) 2)) (grun gempty (firstn 2 C12_ex_ops)) = Some (1%nat, 27998) /\
  option_map (fun s => (length (gs_gauges s), cval (escrow_of s 1) 2)) (grun gempty (firstn 3 C12_ex_ops)) = Some (1%nat, 27998 - 2799) /\
  option_map (fun s => (length (gs_gauges s), cval (escrow_of s 1) 2)) (grun gempty C12_ex_ops) = Some (0%nat, 25199).
Proof. vm_compute. repeat split; reflexivity. Qed.

Example C12_history_example : hist_ok 1000 gempty C12_ex_ops.
Proof.
  assert (CV : forall d, cval C12_ex_coins d = if N.eqb d 2 then 13999 else 0).
  { intros d. unfold cval, aval, C12_ex_coins. cbn [aget]. destruct (N.eqb d 2); reflexivity. }
  assert (ND : NoDup (map fst C12_ex_coins)) by (constructor; [intros []|constructor]).
  assert (W : wf_interval 1000 C12_ex_end) by (unfold wf_interval, max_dur, C12_ex_end; lia).
  assert (POS : forall (d : N) x, In (d, x) C12_ex_coins -> 0 <= x).
  { intros d x [E|[]]. inversion E. lia. }
  assert (O1 : op_ok 1000 gempty (OpCreate 1 1000 C12_ex_end C12_ex_coins)).
  { unfold op_ok. replace (aget N.eqb (gs_gauges gempty) 1%N) with (@None gauge) by reflexivity.
    split; [lia|]. split; [exact W|]. split; [exact ND|]. split; [exact POS|].
    split; [reflexivity|]. intros d. rewrite CV. destruct (N.eqb d 2); unfold int64_max; lia. }
  set (s1 := create_gauge gempty 1 1000 C12_ex_end C12_ex_coins).
  assert (O2 : op_ok 1000 s1 (OpCreate 1 1000 C12_ex_end C12_ex_coins)).
  { unfold op_ok.
    replace (aget N.eqb (gs_gauges s1) 1%N)
      with (Some {| g_start := 1000; g_end := C12_ex_end; g_coins := C12_ex_coins |}) by reflexivity.
    split; [lia|]. split; [exact W|]. split; [exact ND|]. split; [exact POS|].
    split; [reflexivity|]. split; [reflexivity|].
    intros d. change (cval C12_ex_coins d + cval C12_ex_coins d <= int64_max).
    rewrite CV. destruct (N.eqb d 2); unfold int64_max; lia. }
  set (s2 := create_gauge s1 1 1000 C12_ex_end C12_ex_coins).
  assert (R : hist_ok 1000 s2 C12_ex_rewards).
  { vm_compute. repeat split; discriminate. }
  exact (conj O1 (conj O2 R)).
Qed.

(* ---------------------------------------------------------------------------------------------
   Tie to the code by translation + proof: the functions below are GENERATED on every run from /repo's
   current Go source (translator/gen_gofuncs.go -> Gen/GoGauge.v); the theorems say that the hand-written model the
   property theorems above are about computes what the generated function computes, for all arguments. *)
From Coq Require Import String.
From JK Require Import Base.GoSem Gen.GoGauge Proofs.GoTieGauge.

(* one gauge in one reward block (keeper.pullTokensFromGauges, the body of the IterateGauges callback): removed
   when past its end, when its end is not after its start, or when its escrow is empty, in that order; otherwise
   its coins are released at the ratio Model/Gauge.v computes, and the model's pull_one decides alike *)
Theorem C12_code_tie_gauge_step :
  forall now g snap,
    gen_pullGauge (g_start g) (g_end g) now true (cempty snap) = gauge_events (g_start g) (g_end g) now (cempty snap) /\
    pull_one now g snap
    = match gauge_events (g_start g) (g_end g) now (cempty snap) with
      | GVal [Ev _ [r]] =>
          match pull_coins r snap (g_coins g) with None => Gauge.GPanic | Some (b, mv) => GDone true b mv end
      | GVal _ => GDone false snap []
      | GoSem.GPanic => Gauge.GPanic
      end.
Proof.
  intros now g snap.
  exact (conj (gen_pullGauge_model (g_start g) (g_end g) now (cempty snap)) (pull_one_follows_gauge_events now g snap)).
Qed.
Print Assumptions C12_code_tie_gauge_step.

(* one recorded coin of a gauge (the body of the loop over pg.Coins): the amount announced for distribution and
   sent from the escrow is the model's pull_coin amount; nothing when it is zero; a panic exactly when the model
   says so; and what actually reaches the reward pool is that amount when the escrow holds it, nothing otherwise *)
Theorem C12_code_tie_coin_step :
  forall A bal ratio ok,
    gen_pullCoin A bal ratio ok
    = match pull_coin ratio bal A with
      | CPanic => GoSem.GPanic
      | CMove d _ => GVal (if d =? 0 then [] else [Ev "to-distribute"%string [d]; Ev "escrow-to-module"%string [d]])
      end /\
    (forall d m, pull_coin ratio bal A = CMove d m -> m = (if d <=? bal then d else 0) /\ 0 <= d).
Proof.
  intros A bal ratio ok. exact (conj (gen_pullCoin_model A bal ratio ok) (pull_coin_moves ratio bal A)).
Qed.
Print Assumptions C12_code_tie_coin_step.
