(* C11 (provider part) — the messages that manage a provider record (InitProvider,
   ShutdownProvider, SetProviderIP, SetProviderKeybase, SetProviderTotalSpace, AddClaimer,
   RemoveClaimer) affect only the resource belonging to their creator.

   A message's creator string c is a signer (account, spelling); the resource it owns is the
   provider record and the collateral record stored under exactly that string, and the coins of
   the account the string parses to.  Quantification: every state in which each provider record
   sits under the key its Address field names ([addr_ok] — an inductive invariant, true without
   providers, preserved by every operation: [C11_records_stay_under_their_address]), every
   message of the seven kinds with any parameters, any signer. *)
From Coq Require Import ZArith NArith List Bool.
From JK Require Import Base.AList Model.Collateral Proofs.CollateralProofs.
Import ListNotations.
Open Scope Z_scope.

Theorem provider_msgs_touch_only_own_record :
  forall s o c, addr_ok s -> op_signer o = Some c ->
  let s' := fst (step s o) in
  (* every other signer's provider and collateral record — including the record of the same
     account under the other spelling — is untouched *)
  (forall d, d <> c -> get_prov s' d = get_prov s d /\ get_coll s' d = get_coll s d) /\
  (* coins move only between the signer's own account and the escrow *)
  (forall a, a <> acct c -> a <> escrow -> bal (st_bank s') a = bal (st_bank s) a) /\
  st_price s' = st_price s /\ st_supply s' = st_supply s /\ st_proofs s' = st_proofs s /\
  st_blocked s' = st_blocked s /\
  (* the five record-management messages move no coins and touch no collateral record at all *)
  (money_op o = false -> st_bank s' = st_bank s /\ st_coll s' = st_coll s) /\
  (* a refused message changes nothing *)
  (snd (step s o) <> Ok -> s' = s).
Proof. exact provider_frame. Qed.
Print Assumptions provider_msgs_touch_only_own_record.

(* and within the signer's own record a successful management message rewrites exactly the field it names *)
Theorem provider_msgs_change_only_the_named_field :
  forall s o c, addr_ok s -> op_signer o = Some c -> money_op o = false -> snd (step s o) = Ok ->
  exists p, get_prov s c = Some p /\
    get_prov (fst (step s o)) c = Some
      match o with
      | OSetIp _ _ _ ip => {| p_addr := p_addr p; p_ip := ip; p_space := p_space p; p_creator := p_creator p;
                              p_burned := p_burned p; p_keybase := p_keybase p; p_claimers := p_claimers p |}
      | OSetKeybase _ _ kb => {| p_addr := p_addr p; p_ip := p_ip p; p_space := p_space p; p_creator := p_creator p;
                                 p_burned := p_burned p; p_keybase := kb; p_claimers := p_claimers p |}
      | OSetSpace _ _ sp => {| p_addr := p_addr p; p_ip := p_ip p; p_space := sp; p_creator := p_creator p;
                               p_burned := p_burned p; p_keybase := p_keybase p; p_claimers := p_claimers p |}
      | OAddClaimer _ _ cl => with_claimers p (p_claimers p ++ [cl])
      | ORemoveClaimer _ _ cl => with_claimers p (filter (fun x => negb (sg_eqb x cl)) (p_claimers p))
      | _ => p
      end.
Proof. exact own_record_change. Qed.
Print Assumptions provider_msgs_change_only_the_named_field.

Theorem C11_records_stay_under_their_address :
  (forall price b blocked supply, addr_ok (genesis price b blocked supply)) /\
  (forall ops s, addr_ok s -> addr_ok (run s ops)).
Proof. exact (conj genesis_addr_ok run_addr_ok). Qed.
Print Assumptions C11_records_stay_under_their_address.

(* ------------------------------------------------------------------ non-vacuity *)

Definition ex11 : state :=
  run (genesis 5 [(1%N, 100); (2%N, 100)] [0%N] 200)
      [ OInit (1%N, false) true true 5%N 100 6%N; OInit (1%N, true) true true 5%N 1 6%N;
        OInit (2%N, false) true true 8%N 2 9%N; OAddClaimer (1%N, false) true (2%N, true) ].

Example C11_ex_state_ok : addr_ok ex11 /\ length (st_prov ex11) = 2%nat.
Proof. split; [apply run_addr_ok, genesis_addr_ok | reflexivity]. Qed.

(* the lower-case spelling of account 1 edits: its upper-case twin and account 2 keep their records *)
Example C11_ex_frame :
  let s' := fst (step ex11 (OSetIp (1%N, false) true true 77%N)) in
  option_map p_ip (get_prov s' (1%N, false)) = Some 77%N /\
  get_prov s' (1%N, true) = get_prov ex11 (1%N, true) /\ get_prov s' (2%N, false) = get_prov ex11 (2%N, false) /\
  option_map p_claimers (get_prov s' (1%N, false)) = Some [(2%N, true)] /\
  (* a stranger (account 2 in upper case owns no record) is refused *)
  step ex11 (OSetIp (2%N, true) true true 77%N) = (ex11, Fail).
Proof. vm_compute. repeat split; reflexivity. Qed.
