(* C03 — reward blocks pay each proven prover its proportional share exactly once.

   Model: Model/Rewards.v (RunRewardBlock after repairs 8521cdfa and c877e2c0).  Quantification:
   every height, every file (any sizes, windows, prover list and proof records) satisfying the
   C17 invariant [wf_file] (listed keys distinct, each with its proof record, positive proof
   interval), every tracker / burn-counter / bank state, every set of released coins.

   "Met its proof obligation" is [ok_slot h f k]: the file is still in its first window at height
   h, or the record's LastProven is not older than the start of the previous proof window.

   "Share": the code divides by total = sum over ALL files of size * (number of listed provers at
   the start of the block), including slots that fail in this block.  The share of a counted
   prover is therefore credited * C / total with that denominator; the part of the release that
   belongs to failing slots stays in the module account (the property only asks sum <= released).
   With C below 10^18 base units the payment is within one base unit of floor(credited*C/total);
   in general within 1 + C/10^18.  The sum bound needs n * C < 2 * 10^18 (n counted provers):
   beyond it the 18-digit rounding of n shares can add up to more than C (Example at the end). *)
From Coq Require Import ZArith NArith List Bool.
From JK Require Import Base.Dec Base.AList Model.Rewards Proofs.RewardsProofs.
Import ListNotations.
Open Scope Z_scope.

(* RemoveProverWithKey, with Go's slice aliasing, removes exactly the key from a duplicate-free list *)
Theorem C03_remove_prover_exact :
  forall k l, NoDup l -> remove_key k l = Some (filter (fun x => negb (N.eqb x k)) l).
Proof. exact remove_key_nodup. Qed.
Print Assumptions C03_remove_prover_exact.

(* one file: new list = provers that met their obligation, in order; records of the others deleted;
   tracker + size exactly once per counted prover; burn counter + 1 exactly once per missed slot;
   nothing else changes.  Any tracker, any burn counters. *)
Theorem C03_manage_file_counts_exactly_once :
  forall h f tr bu, wf_file f ->
  exists f',
    manage_file h {| ms_file := f; ms_tr := tr; ms_burn := bu |} =
      Ok {| ms_file := f'; ms_tr := tr_spec (f_size f) (verdict_of h f) (f_proofs f) tr;
            ms_burn := bu_spec (verdict_of h f) (f_proofs f) bu |} /\
    f_proofs f' = filter (ok_slot h f) (f_proofs f) /\
    f_start f' = f_start f /\ f_interval f' = f_interval f /\ f_size f' = f_size f /\ f_live f' = f_live f /\
    (forall k, aget N.eqb (f_recs f') k =
               if nmem k (f_proofs f) && negb (ok_slot h f k) then None else aget N.eqb (f_recs f) k) /\
    (forall p, aval N.eqb (tr_spec (f_size f) (verdict_of h f) (f_proofs f) tr) p =
               if nmem p (f_proofs f) && ok_slot h f p then wrap64 (aval N.eqb tr p + f_size f) else aval N.eqb tr p) /\
    (forall q, aget N.eqb (bu_spec (verdict_of h f) (f_proofs f) bu) q =
               if nmem q (f_proofs f) && negb (ok_slot h f q) then bump_burn (aget N.eqb bu q) else aget N.eqb bu q).
Proof. exact manage_file_counts_exactly_once. Qed.
Print Assumptions C03_manage_file_counts_exactly_once.

(* all files of a block (any number, any order): the loop does not panic; every file is left as
   [post_file]; the denominator is the (int64) sum of size * listed slots; each prover's tracker
   entry is the (int64) sum over files of size * [listed and met]; each registered provider's
   burn counter rose by the number of files it was dropped from. *)
Theorem C03_block_counts_exactly_once :
  forall h files bu, Forall wf_file files -> bu_in64 bu ->
  exists a,
    manage_all h files bu = Ok a /\
    rev (as_done a) = map (post_file h) files /\
    as_total a = wrap64 (total_size files) /\
    (forall p, aval N.eqb (as_tr a) p = wrap64 (credited h files p)) /\
    (forall q, aget N.eqb (as_burn a) q = option_map (fun b => wrap64 (b + failed h files q)) (aget N.eqb bu q)).
Proof. exact manage_all_counts. Qed.
Print Assumptions C03_block_counts_exactly_once.

(* the payout never fails or panics under [good_payout], and every balance is determined *)
Theorem C03_payout_balances :
  forall macct accts T tr coins b, good_payout macct accts T tr coins b ->
  exists b', reward_all macct accts T tr coins b = Ok b' /\
    (forall x d, bal b' x d = bal b x d + sumz (fun p => recv accts T tr coins x p d) (akeys tr)
                 - (if N.eqb x macct then sumz (fun p => po accts T tr coins p d) (akeys tr) else 0)) /\
    (forall d C, In (d, C) coins -> sumz (fun p => po accts T tr coins p d) (akeys tr) <= C).
Proof. exact reward_all_exact. Qed.
Print Assumptions C03_payout_balances.

(* a counted prover (credited w > 0, its string denotes account a, no other counted prover denotes a)
   receives pay = trunc(Quo(w, total) * C) with  w*C/total - 1 - C/10^18 < pay <= w*C/total + C/10^18 *)
Theorem C03_payout_share_bounds :
  forall macct accts T tr coins b b' p a d C,
  good_payout macct accts T tr coins b -> reward_all macct accts T tr coins b = Ok b' ->
  In p (akeys tr) -> 0 < aval N.eqb tr p -> aget N.eqb accts p = Some a ->
  (forall q, In q (akeys tr) -> q <> p -> aget N.eqb accts q = Some a -> aval N.eqb tr q <= 0) ->
  In (d, C) coins ->
  let w := aval N.eqb tr p in
  let pay := bal b' a d - bal b a d in
  pay = owed w T C /\
  P18 * T * pay <= P18 * (w * C) + T * C /\
  P18 * (w * C) - T * C < P18 * T * (pay + 1).
Proof. exact payout_share_bounds. Qed.
Print Assumptions C03_payout_share_bounds.

(* releases of at most 10^18 base units: within one base unit of the floored size-weighted share *)
Theorem C03_payout_within_one_unit :
  forall macct accts T tr coins b b' p a d C,
  good_payout macct accts T tr coins b -> reward_all macct accts T tr coins b = Ok b' ->
  In p (akeys tr) -> 0 < aval N.eqb tr p -> aget N.eqb accts p = Some a ->
  (forall q, In q (akeys tr) -> q <> p -> aget N.eqb accts q = Some a -> aval N.eqb tr q <= 0) ->
  In (d, C) coins -> C <= P18 ->
  let w := aval N.eqb tr p in
  let pay := bal b' a d - bal b a d in
  (w * C) / T - 1 <= pay <= (w * C) / T + 1.
Proof. exact payout_within_one_unit. Qed.
Print Assumptions C03_payout_within_one_unit.

(* any set of accounts other than the module account receives, together, at most the release *)
Theorem C03_payout_sum_le_released :
  forall macct accts T tr coins b b', good_payout macct accts T tr coins b ->
  reward_all macct accts T tr coins b = Ok b' ->
  forall xs d C, NoDup xs -> ~ In macct xs -> In (d, C) coins ->
  sumz (fun x => bal b' x d - bal b x d) xs <= C.
Proof. exact payout_sum_le. Qed.
Print Assumptions C03_payout_sum_le_released.

Theorem C03_uncounted_get_nothing :
  forall macct accts T tr coins b b', good_payout macct accts T tr coins b ->
  reward_all macct accts T tr coins b = Ok b' ->
  forall x d, x <> macct ->
  (forall p, In p (akeys tr) -> aget N.eqb accts p = Some x -> aval N.eqb tr p <= 0) ->
  bal b' x d = bal b x d.
Proof. exact payout_uncounted. Qed.
Print Assumptions C03_uncounted_get_nothing.

Theorem C03_unreleased_denominations_untouched :
  forall macct accts T tr coins b b', good_payout macct accts T tr coins b ->
  reward_all macct accts T tr coins b = Ok b' ->
  forall x d, ~ In d (akeys coins) -> bal b' x d = bal b x d.
Proof. exact payout_other_denom. Qed.
Print Assumptions C03_unreleased_denominations_untouched.

(* the link between the two halves: at a reward block over well-formed files with non-negative
   sizes whose total listed size fits int64, the tracker handed to the payout holds exactly the
   credited sizes, the denominator is the total listed size, and [good_payout] holds — so the four
   payout theorems above apply with w = credited h files p and T = total_size files.
   ([b] is the bank after pullTokensFromGauges moved the release into the module account.) *)
Theorem C03_block_payout_hypotheses_hold :
  forall macct accts h files bu coins b a,
  Forall wf_file files -> bu_in64 bu -> Forall (fun f => 0 <= f_size f) files ->
  0 < total_size files <= int64_max ->
  NoDup (akeys coins) -> (forall d C, In (d, C) coins -> 0 <= C) ->
  (forall d C, In (d, C) coins -> Z.of_nat (slots files) * C < 2 * P18) ->
  (forall d C, In (d, C) coins -> C <= bal b macct d) ->
  (forall p x, aget N.eqb accts p = Some x -> x <> macct) ->
  manage_all h files bu = Ok a ->
  as_total a = total_size files /\
  (forall p, aval N.eqb (as_tr a) p = credited h files p) /\
  good_payout macct accts (total_size files) (as_tr a) coins b.
Proof. exact block_tracker_good. Qed.
Print Assumptions C03_block_payout_hypotheses_hold.

(* realistic magnitudes meet the side conditions: 10^6 listed slots, a release of 10^12 base units *)
Example C03_ex_side_condition : 1000000 * 10 ^ 12 < 2 * P18.
Proof. vm_compute. reflexivity. Qed.

(* ---------- non-vacuity and documentation ---------- *)

Definition ex_file (lasts : list (N * Z)) : file :=
  {| f_start := 10; f_interval := 50; f_size := 1000;
     f_proofs := map fst lasts;
     f_recs := map (fun kl => (fst kl, {| pr_prover := fst kl; pr_last := snd kl |})) lasts;
     f_live := true |}.
(* height 300: the previous window starts at 210; A = 1 fails by one block, B = 2 and C = 3 pass *)
Definition ex_abc : file := ex_file [(1%N, 209); (2%N, 210); (3%N, 299)].

Example C03_ex_wf : wf_file ex_abc.
Proof.
  constructor.
  - repeat constructor; cbn; intuition discriminate.
  - discriminate.
  - intros k [<-|[<-|[<-|[]]]]; eexists; split; reflexivity.
Qed.

Example C03_ex_repaired_loop :
  match manage_file 300 {| ms_file := ex_abc; ms_tr := []; ms_burn := [(1%N, 0); (2%N, 0); (3%N, 0)] |} with
  | Ok s => (f_proofs (ms_file s), ms_tr s, ms_burn s)
  | Panic => ([], [], [])
  end = ([2; 3]%N, [(2%N, 1000); (3%N, 1000)], [(1%N, 1); (2%N, 0); (3%N, 0)]).
Proof. vm_compute. reflexivity. Qed.

(* what the monitors guard against: the loop before repair 8521cdfa skips B and counts C twice *)
Theorem C03_old_loop_refuted :
  exists h f tr bu s, wf_file f /\
    manage_file_aliased h {| ms_file := f; ms_tr := tr; ms_burn := bu |} = Ok s /\
    f_proofs (ms_file s) = filter (ok_slot h f) (f_proofs f) /\
    aval N.eqb (ms_tr s) 2%N = 0 /\ aval N.eqb (ms_tr s) 3%N = 2 * f_size f /\
    ok_slot h f 2%N = true.
Proof.
  exists 300, ex_abc, [], [(1%N, 0); (2%N, 0); (3%N, 0)]. eexists. split; [exact C03_ex_wf|].
  split; [vm_compute; reflexivity|]. vm_compute. repeat split; reflexivity.
Qed.
Print Assumptions C03_old_loop_refuted.

(* a payout state satisfying [good_payout]: three provers with 1000, 1000, 2000 of 5000 bytes *)
Definition ex_tr : tracker := [(2%N, 1000); (3%N, 1000); (5%N, 2000)].
Definition ex_accts : list (N * N) := [(2, 12); (3, 13); (5, 15)]%N.
Definition ex_coins : list (N * Z) := [(1%N, 77); (3%N, 6000000)].
Definition ex_bank : bank := [((900%N, 1%N), 77); ((900%N, 3%N), 6000000 + 5)].

Example C03_ex_good_payout : good_payout 900%N ex_accts 5000 ex_tr ex_coins ex_bank.
Proof.
  constructor.
  - reflexivity.
  - intros p. unfold aval, ex_tr. cbn. repeat (destruct (N.eqb p _); [discriminate|]). discriminate.
  - repeat constructor; cbn; intuition discriminate.
  - discriminate.
  - repeat constructor; cbn; intuition discriminate.
  - intros d C [[= <- <-]|[[= <- <-]|[]]]; discriminate.
  - intros d C [[= <- <-]|[[= <- <-]|[]]]; reflexivity.
  - intros d C [[= <- <-]|[[= <- <-]|[]]]; vm_compute; discriminate.
  - intros p a. unfold ex_accts. cbn. repeat (destruct (N.eqb p _); [intros [= <-]; discriminate|]). discriminate.
Qed.

Example C03_ex_payout :
  match reward_all 900%N ex_accts 5000 ex_tr ex_coins ex_bank with
  | Ok b => (bal b 12 3, bal b 13 3, bal b 15 3, bal b 900 3, bal b 15 1)%N
  | Panic => (0, 0, 0, 0, 0)
  end = (1200000, 1200000, 2400000, 1200005, 30).
Proof. vm_compute. reflexivity. Qed.

(* outside n*C < 2*10^18 the sum bound fails: six provers holding one sixth each of a release of
   6*10^18 base units are paid 10^18 + 2 each (Quo rounds 1/6 up in the 18th digit); the twelve
   extra units come out of whatever else the module account holds. *)
Example C03_side_condition_needed :
  let tr := [(1%N, 1); (2%N, 1); (3%N, 1); (4%N, 1); (5%N, 1); (6%N, 1)] in
  let accts := [(1, 11); (2, 12); (3, 13); (4, 14); (5, 15); (6, 16)]%N in
  let C := 6 * 10 ^ 18 in
  match reward_all 900%N accts 6 tr [(1%N, C)] [((900%N, 1%N), C + 1000)] with
  | Ok b => bal b 900%N 1%N
  | Panic => 0
  end = 1000 - 12.
Proof. vm_compute. reflexivity. Qed.
